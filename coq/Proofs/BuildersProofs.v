(** Proofs for C16 (settings builders as set/map accumulators over any call
    history) and C11 (settings validation, similar-path query): the model of
    Model/Builders.v satisfies the independent specifications of
    Model/BuildersSpec.v, for ALL histories / registries / settings
    (induction over the history resp. the lists; no bound). *)
From Coq Require Import List NArith String Bool Permutation Lia.
From V Require Import Base.Strings Base.Result Model.Registry Model.Settings Model.Subst
  Model.Derives Model.Builders Model.BuildersSpec Proofs.StringOrder Proofs.SortDedup.
Import ListNotations.
Open Scope string_scope. Open Scope list_scope.

(** * 1. one substitution: accepted / rejected forms *)

Lemma is_absolute_absolute p : is_absolute p = absolute p.
Proof. reflexivity. Qed.

Lemma path_segments_idents p : path_segments p = idents p.
Proof. reflexivity. Qed.

Lemma last_args_spec p :
  last_args p = if no_segments p then None else Some (final_args p).
Proof. unfold last_args, no_segments, final_args. destruct (sp_segs p); reflexivity. Qed.

Lemma get_ident_bare t : get_ident t = bare_ident (GType t).
Proof.
  destruct t as [q lead segs|toks]; cbn; [|reflexivity].
  destruct q, lead; reflexivity.
Qed.

Lemma from_args_spec l :
  from_args l = if forallb (fun g => is_some (bare_ident g)) l
                then Some (flat_map (fun g => match bare_ident g with Some i => [i] | None => [] end) l)
                else None.
Proof.
  induction l as [|g l IH]; [reflexivity|].
  destruct g as [t|toks]; [|reflexivity].
  cbn [from_args forallb flat_map]. rewrite get_ident_bare, IH.
  destruct (bare_ident (GType t)); cbn; [|reflexivity].
  destruct (forallb _ l); reflexivity.
Qed.

Lemma enumerate_combine {A} (l : list A) i : enumerate i l = combine l (seq i (List.length l)).
Proof. revert i; induction l as [|x l IH]; intros i; cbn; [reflexivity|]. rewrite IH. reflexivity. Qed.

Lemma to_arg_valid_type_path g : to_arg_valid g = is_type_path g.
Proof. destruct g as [[| ]|]; reflexivity. Qed.

(** the model's parser is the classification + the rule value (one equation) *)
Theorem parse_substitution_spec s t :
  parse_substitution s t =
  match classify s t with
  | Some e => inl e
  | None => inr (idents s, spec_value s t)
  end.
Proof.
  unfold parse_substitution, classify. rewrite is_absolute_absolute.
  destruct (absolute t); cbn [negb]; [|reflexivity].
  unfold parse_mapping. rewrite !last_args_spec.
  destruct (no_segments s); cbn [orb]; [reflexivity|].
  destruct (no_segments t); [reflexivity|].
  unfold spec_value, source_names.
  destruct (final_args s) as [|sargs|stoks]; cbn [parenthesised angle_args forallb negb flat_map].
  - destruct (final_args t) as [|targs|ttoks]; cbn [parenthesised angle_args forallb negb].
    + reflexivity.
    + change to_arg_valid with is_type_path.
      destruct (forallb is_type_path targs); cbn [negb]; [|reflexivity].
      destruct targs; reflexivity.
    + reflexivity.
  - rewrite from_args_spec.
    destruct (forallb (fun g => is_some (bare_ident g)) sargs); cbn [negb]; [|reflexivity].
    destruct (final_args t) as [|targs|ttoks]; cbn [parenthesised angle_args forallb negb].
    + rewrite enumerate_combine.
      destruct (flat_map _ sargs); reflexivity.
    + change to_arg_valid with is_type_path.
      destruct (forallb is_type_path targs); cbn [negb]; [|reflexivity].
      rewrite enumerate_combine.
      destruct (flat_map _ sargs); destruct targs; reflexivity.
    + reflexivity.
  - reflexivity.
Qed.

Corollary parse_substitution_rejects s t e :
  parse_substitution s t = inl e <-> classify s t = Some e.
Proof.
  rewrite parse_substitution_spec. destruct (classify s t); split; congruence.
Qed.

Corollary parse_substitution_accepts s t k v :
  parse_substitution s t = inr (k, v) <->
  classify s t = None /\ k = idents s /\ v = spec_value s t.
Proof.
  rewrite parse_substitution_spec. destruct (classify s t); split.
  - discriminate.
  - intros (H & _); discriminate.
  - intros H; inversion H; auto.
  - intros (_ & -> & ->); reflexivity.
Qed.

(** the documented error kinds, in the order the checks are made *)
Theorem classify_kinds s t :
  (absolute t = false -> classify s t = Some SExpectedAbsolutePath) /\
  (absolute t = true -> no_segments s || no_segments t = true ->
   classify s t = Some SEmptySubstitutePath) /\
  (absolute t = true -> no_segments s || no_segments t = false ->
   parenthesised (final_args s) = true -> classify s t = Some SExpectedAngleBracketGenerics) /\
  (absolute t = true -> no_segments s || no_segments t = false ->
   parenthesised (final_args s) = false ->
   forallb (fun g => is_some (bare_ident g)) (angle_args (final_args s)) = false ->
   classify s t = Some SInvalidFromType) /\
  (absolute t = true -> no_segments s || no_segments t = false ->
   parenthesised (final_args s) = false ->
   forallb (fun g => is_some (bare_ident g)) (angle_args (final_args s)) = true ->
   parenthesised (final_args t) = true -> classify s t = Some SExpectedAngleBracketGenerics) /\
  (absolute t = true -> no_segments s || no_segments t = false ->
   parenthesised (final_args s) = false ->
   forallb (fun g => is_some (bare_ident g)) (angle_args (final_args s)) = true ->
   parenthesised (final_args t) = false ->
   forallb is_type_path (angle_args (final_args t)) = false -> classify s t = Some SInvalidToType) /\
  (absolute t = true -> no_segments s || no_segments t = false ->
   parenthesised (final_args s) = false ->
   forallb (fun g => is_some (bare_ident g)) (angle_args (final_args s)) = true ->
   parenthesised (final_args t) = false ->
   forallb is_type_path (angle_args (final_args t)) = true -> classify s t = None).
Proof.
  unfold classify. repeat split; intros; repeat match goal with H : _ = _ |- _ => rewrite H; clear H end; reflexivity.
Qed.

(** * 2. histories: [run_ops] as a fold of the state, outcomes are state independent *)
Definition step_state (st : bstate) (o : op) : bstate := fst (apply_op st o).
Definition final_state (ops : list op) : bstate := fold_left step_state ops bstate_empty.

Lemma run_ops_gen ops : forall st outs,
  fold_left (fun '(st, outs) o => let '(st', e) := apply_op st o in (st', outs ++ [e])) ops (st, outs)
  = (fold_left step_state ops st,
     outs ++ snd (fold_left (fun '(st, outs) o => let '(st', e) := apply_op st o in (st', outs ++ [e])) ops (st, []))).
Proof.
  induction ops as [|o ops IH]; intros st outs; cbn [fold_left].
  - rewrite app_nil_r. reflexivity.
  - destruct (apply_op st o) as [st' e] eqn:E.
    assert (step_state st o = st') as -> by (unfold step_state; rewrite E; reflexivity).
    rewrite (IH st' (outs ++ [e])), (IH st' ([] ++ [e])). cbn [snd app].
    rewrite <- app_assoc. reflexivity.
Qed.

Lemma run_ops_fst ops : fst (run_ops ops) = final_state ops.
Proof. unfold run_ops. rewrite run_ops_gen. reflexivity. Qed.

Lemma extend_go_spec dr l : forall subs,
  extend_go dr l subs =
  (mk_bstate dr (fold_left (fun sb '(s, t) => subs_insert sb (idents s) (spec_value s t)) (ok_prefix l) subs),
   first_some (map (fun '(s, t) => classify s t) l)).
Proof.
  induction l as [|[s t] l IH]; intros subs; cbn [extend_go ok_prefix map first_some fold_left].
  - reflexivity.
  - rewrite parse_substitution_spec. destruct (classify s t) as [e|]; cbn [is_none fold_left].
    + reflexivity.
    + rewrite IH. reflexivity.
Qed.

Lemma apply_op_outcome st o : snd (apply_op st o) = spec_outcome o.
Proof.
  destruct o as [ds|ats|k ds rc|k ats rc|s t|s t|l]; cbn [apply_op spec_outcome snd]; try reflexivity.
  - rewrite parse_substitution_spec. destruct (classify s t); reflexivity.
  - rewrite parse_substitution_spec. destruct (classify s t); [reflexivity|].
    destruct (subs_get (b_subs st) (idents s)); reflexivity.
  - change (fun p : spath * spath => is_absolute (snd p)) with (fun p : spath * spath => absolute (snd p)).
    destruct (forallb _ l); cbn [negb]; [|reflexivity].
    rewrite extend_go_spec. reflexivity.
Qed.

Theorem run_ops_outcomes ops : snd (run_ops ops) = map spec_outcome ops.
Proof.
  unfold run_ops. generalize bstate_empty.
  induction ops as [|o ops IH]; intros st; [reflexivity|].
  cbn [fold_left map]. destruct (apply_op st o) as [st' e] eqn:E.
  rewrite run_ops_gen. cbn [snd app]. rewrite IH.
  f_equal. rewrite <- (apply_op_outcome st o), E. reflexivity.
Qed.

(** * 3. the rule for a key *)
Lemma path_eqb_sym a b : path_eqb a b = path_eqb b a.
Proof.
  destruct (path_eqb a b) eqn:E1, (path_eqb b a) eqn:E2; try reflexivity.
  - apply path_eqb_eq in E1; subst. rewrite path_eqb_refl in E2; discriminate.
  - apply path_eqb_eq in E2; subst. rewrite path_eqb_refl in E1; discriminate.
Qed.

Lemma subs_get_insert s p v k :
  subs_get (subs_insert s p v) k = if path_eqb p k then Some v else subs_get s k.
Proof.
  induction s as [|[k0 v0] s IH]; cbn [subs_insert subs_get].
  - reflexivity.
  - destruct (path_eqb k0 p) eqn:E0; cbn [subs_get].
    + apply path_eqb_eq in E0; subst k0. destruct (path_eqb p k); reflexivity.
    + rewrite IH. destruct (path_eqb k0 k) eqn:E1; [|reflexivity].
      apply path_eqb_eq in E1; subst k0. rewrite path_eqb_sym, E0. reflexivity.
Qed.

Lemma or_else_none {A} (a : option A) : or_else a None = a.
Proof. destruct a; reflexivity. Qed.

Lemma ok_prefix_accepted l : Forall (fun p => classify (fst p) (snd p) = None) (ok_prefix l).
Proof.
  induction l as [|[s t] l IH]; cbn; [constructor|].
  destruct (classify s t) eqn:E; cbn; constructor; auto.
Qed.

Lemma ext_elems_accepted l : Forall (fun p => classify (fst p) (snd p) = None) (ext_elems l).
Proof. unfold ext_elems. destruct (forallb _ l); [apply ok_prefix_accepted|constructor]. Qed.

Lemma fold_insert_get k elems :
  Forall (fun p => classify (fst p) (snd p) = None) elems ->
  forall subs,
  subs_get (fold_left (fun sb '(s, t) => subs_insert sb (idents s) (spec_value s t)) elems subs) k
  = fold_left (fun c '(s, t) => or_else (writes s t k) c) elems (subs_get subs k).
Proof.
  induction 1 as [|[s t] elems Hc _ IH]; intros subs; cbn [fold_left]; [reflexivity|].
  rewrite IH, subs_get_insert. f_equal.
  unfold writes. cbn [fst snd] in Hc. rewrite Hc. cbn [is_none andb].
  destruct (path_eqb (idents s) k); reflexivity.
Qed.

(** one call moves the rule of every key exactly as the specification says *)
Lemma step_rule st o k :
  subs_get (b_subs (step_state st o)) k = rule_step k (subs_get (b_subs st) k) o.
Proof.
  unfold step_state.
  destruct o as [ds|ats|k0 ds rc|k0 ats rc|s t|s t|l]; cbn [apply_op rule_step fst b_subs]; try reflexivity.
  - rewrite parse_substitution_spec. unfold writes.
    destruct (classify s t); cbn [is_none andb or_else fst b_subs]; [reflexivity|].
    rewrite subs_get_insert. destruct (path_eqb (idents s) k); reflexivity.
  - rewrite parse_substitution_spec. unfold writes.
    destruct (classify s t); cbn [is_none andb fst b_subs]; [rewrite or_else_none; reflexivity|].
    destruct (path_eqb (idents s) k) eqn:E.
    + apply path_eqb_eq in E; subst k.
      destruct (subs_get (b_subs st) (idents s)) eqn:G; cbn [fst b_subs or_else].
      * exact G.
      * rewrite subs_get_insert, path_eqb_refl. reflexivity.
    + rewrite or_else_none.
      destruct (subs_get (b_subs st) (idents s)) eqn:G; cbn [fst b_subs]; [reflexivity|].
      rewrite subs_get_insert, E. reflexivity.
  - unfold ext_elems.
    change (fun p : spath * spath => is_absolute (snd p)) with (fun p : spath * spath => absolute (snd p)).
    destruct (forallb _ l); cbn [negb fst b_subs fold_left]; [|reflexivity].
    rewrite extend_go_spec. cbn [fst b_subs].
    apply fold_insert_get. apply ok_prefix_accepted.
Qed.

Theorem rule_for_key ops k :
  subs_get (b_subs (fst (run_ops ops))) k = spec_rule ops k.
Proof.
  rewrite run_ops_fst. unfold final_state, spec_rule.
  change (@None substitute) with (subs_get (b_subs bstate_empty) k).
  generalize bstate_empty.
  induction ops as [|o ops IH]; intros st; cbn [fold_left]; [reflexivity|].
  rewrite IH, step_rule. reflexivity.
Qed.

(** a rejected insertion leaves the whole state unchanged *)
Theorem rejected_insert_unchanged st s t e :
  classify s t = Some e ->
  apply_op st (OpSubInsert s t) = (st, Some e) /\
  apply_op st (OpSubInsertIfAbsent s t) = (st, Some e).
Proof.
  intros H. cbn [apply_op]. rewrite parse_substitution_spec, H. split; reflexivity.
Qed.

(** [extend]: exactly the elements before the first rejected one are inserted
    (none if some target is relative), in order; the derives are untouched *)
Theorem extend_exact st l :
  apply_op st (OpSubExtend l) =
  (mk_bstate (b_dreg st)
             (fold_left (fun sb '(s, t) => subs_insert sb (idents s) (spec_value s t)) (ext_elems l) (b_subs st)),
   spec_outcome (OpSubExtend l)).
Proof.
  cbn [apply_op spec_outcome]. unfold ext_elems.
  change (fun p : spath * spath => is_absolute (snd p)) with (fun p : spath * spath => absolute (snd p)).
  destruct (forallb _ l); cbn [negb fold_left].
  - apply extend_go_spec.
  - destruct st; reflexivity.
Qed.

(** what [ext_elems] is: a prefix of the call's elements, all accepted, followed (if shorter) by a rejected one *)
Theorem ext_elems_prefix l :
  exists rest, l = ext_elems l ++ rest /\
    Forall (fun p => classify (fst p) (snd p) = None) (ext_elems l) /\
    (forallb (fun p => absolute (snd p)) l = true ->
     match rest with [] => True | p :: _ => classify (fst p) (snd p) <> None end).
Proof.
  unfold ext_elems. destruct (forallb (fun p => absolute (snd p)) l).
  - induction l as [|[s t] l (rest & E & F & R)]; cbn [ok_prefix].
    + exists []; repeat split; auto.
    + destruct (classify s t) eqn:C; cbn [is_none].
      * exists ((s, t) :: l). repeat split; auto. intros _. cbn. congruence.
      * exists rest. repeat split.
        -- cbn. f_equal. exact E.
        -- constructor; auto.
        -- exact R.
  - exists l. repeat split; auto. discriminate.
Qed.

(** * 4. derive / attribute registrations are unions over the history *)
Lemma kmap_get_extend m k d key :
  kmap_get (kmap_extend m k d) key =
  if String.eqb (k_key k) key
  then Some (derives_union (kmap_get_or_empty m (k_key k)) d)
  else kmap_get m key.
Proof.
  unfold kmap_get_or_empty.
  induction m as [|[k' d'] m IH]; cbn [kmap_extend kmap_get].
  - destruct (String.eqb (k_key k) key); reflexivity.
  - destruct (String.eqb (k_key k') (k_key k)) eqn:E; cbn [kmap_get].
    + apply String.eqb_eq in E. rewrite E. destruct (String.eqb (k_key k) key); reflexivity.
    + rewrite IH. destruct (String.eqb (k_key k') key) eqn:E2; [|reflexivity].
      apply String.eqb_eq in E2. rewrite <- E2, String.eqb_sym, E. reflexivity.
Qed.

(** the six observable components of the derive registry, as functions of the state *)
Record dview := mk_dview {
  dv_all_d : list kt; dv_all_a : list kt;
  dv_key_d : bool -> string -> list kt; dv_key_a : bool -> string -> list kt;
  dv_reg : bool -> string -> bool }.

Definition op_key_d (rc : bool) (key : string) (o : op) : list kt :=
  match o with
  | OpDerivesFor k ds r => if Bool.eqb r rc && String.eqb (k_key k) key then ds else []
  | _ => []
  end.
Definition op_key_a (rc : bool) (key : string) (o : op) : list kt :=
  match o with
  | OpAttrsFor k a r => if Bool.eqb r rc && String.eqb (k_key k) key then a else []
  | _ => []
  end.
Definition op_reg (rc : bool) (key : string) (o : op) : bool :=
  match o with
  | OpDerivesFor k _ r | OpAttrsFor k _ r => Bool.eqb r rc && String.eqb (k_key k) key
  | _ => false
  end.

Lemma sub_ops_keep_dreg st o :
  is_derive_op o = false -> b_dreg (step_state st o) = b_dreg st.
Proof.
  unfold step_state. destruct o as [ds|ats|k ds rc|k ats rc|s t|s t|l]; cbn [is_derive_op]; try discriminate; intros _.
  - cbn [apply_op]. destruct (parse_substitution s t) as [e|[k v]]; reflexivity.
  - cbn [apply_op]. destruct (parse_substitution s t) as [e|[k v]]; [reflexivity|].
    destruct (subs_get (b_subs st) k); reflexivity.
  - rewrite extend_exact. reflexivity.
Qed.

Lemma step_default_d st o :
  d_derives (dr_default (b_dreg (step_state st o))) =
  d_derives (dr_default (b_dreg st)) ++ match o with OpDerivesAll ds => ds | _ => [] end.
Proof.
  destruct (is_derive_op o) eqn:D.
  - unfold step_state. destruct o as [ds|ats|k ds rc|k ats rc|s t|s t|l]; try discriminate;
      cbn; try destruct rc; cbn; rewrite ?app_nil_r; reflexivity.
  - rewrite sub_ops_keep_dreg by exact D. destruct o; try discriminate; rewrite app_nil_r; reflexivity.
Qed.

Lemma step_default_a st o :
  d_attrs (dr_default (b_dreg (step_state st o))) =
  d_attrs (dr_default (b_dreg st)) ++ match o with OpAttrsAll a => a | _ => [] end.
Proof.
  destruct (is_derive_op o) eqn:D.
  - unfold step_state. destruct o as [ds|ats|k ds rc|k ats rc|s t|s t|l]; try discriminate;
      cbn; try destruct rc; cbn; rewrite ?app_nil_r; reflexivity.
  - rewrite sub_ops_keep_dreg by exact D. destruct o; try discriminate; rewrite app_nil_r; reflexivity.
Qed.

Lemma get_or_empty_extend m k d key :
  kmap_get_or_empty (kmap_extend m k d) key =
  if String.eqb (k_key k) key then derives_union (kmap_get_or_empty m key) d else kmap_get_or_empty m key.
Proof.
  unfold kmap_get_or_empty at 1. rewrite kmap_get_extend.
  destruct (String.eqb (k_key k) key) eqn:E; [|reflexivity].
  apply String.eqb_eq in E. rewrite E. reflexivity.
Qed.

Lemma step_key st o rc key :
  let m := side (b_dreg st) rc in
  let m' := side (b_dreg (step_state st o)) rc in
  d_derives (kmap_get_or_empty m' key) = d_derives (kmap_get_or_empty m key) ++ op_key_d rc key o /\
  d_attrs (kmap_get_or_empty m' key) = d_attrs (kmap_get_or_empty m key) ++ op_key_a rc key o /\
  is_some (kmap_get m' key) = is_some (kmap_get m key) || op_reg rc key o.
Proof.
  cbv zeta.
  destruct (is_derive_op o) eqn:D.
  - unfold step_state, side.
    destruct o as [ds|ats|k ds r|k ats r|s t|s t|l]; try discriminate;
      cbn [apply_op fst b_dreg op_key_d op_key_a op_reg].
    + destruct rc; cbn; rewrite !app_nil_r, orb_false_r; auto.
    + destruct rc; cbn; rewrite !app_nil_r, orb_false_r; auto.
    + destruct r, rc; cbn [dr_recursive dr_specific Bool.eqb andb];
        rewrite ?app_nil_r, ?orb_false_r; auto;
        rewrite get_or_empty_extend, kmap_get_extend;
        destruct (String.eqb (k_key k) key); cbn; rewrite ?app_nil_r, ?orb_false_r, ?orb_true_r; auto.
    + destruct r, rc; cbn [dr_recursive dr_specific Bool.eqb andb];
        rewrite ?app_nil_r, ?orb_false_r; auto;
        rewrite get_or_empty_extend, kmap_get_extend;
        destruct (String.eqb (k_key k) key); cbn; rewrite ?app_nil_r, ?orb_false_r, ?orb_true_r; auto.
  - rewrite sub_ops_keep_dreg by exact D.
    destruct o; try discriminate; cbn; rewrite !app_nil_r, orb_false_r; auto.
Qed.

Lemma fold_default_d ops : forall st,
  d_derives (dr_default (b_dreg (fold_left step_state ops st))) =
  d_derives (dr_default (b_dreg st)) ++ spec_default_derives ops.
Proof.
  induction ops as [|o ops IH]; intros st; cbn [fold_left]; [cbn; rewrite app_nil_r; reflexivity|].
  rewrite IH, step_default_d. unfold spec_default_derives. cbn [flat_map]. rewrite app_assoc. reflexivity.
Qed.

Lemma fold_default_a ops : forall st,
  d_attrs (dr_default (b_dreg (fold_left step_state ops st))) =
  d_attrs (dr_default (b_dreg st)) ++ spec_default_attrs ops.
Proof.
  induction ops as [|o ops IH]; intros st; cbn [fold_left]; [cbn; rewrite app_nil_r; reflexivity|].
  rewrite IH, step_default_a. unfold spec_default_attrs. cbn [flat_map]. rewrite app_assoc. reflexivity.
Qed.

Lemma fold_key ops rc key : forall st,
  let m := side (b_dreg st) rc in
  let m' := side (b_dreg (fold_left step_state ops st)) rc in
  d_derives (kmap_get_or_empty m' key) = d_derives (kmap_get_or_empty m key) ++ spec_key_derives rc key ops /\
  d_attrs (kmap_get_or_empty m' key) = d_attrs (kmap_get_or_empty m key) ++ spec_key_attrs rc key ops /\
  is_some (kmap_get m' key) = is_some (kmap_get m key) || spec_key_registered rc key ops.
Proof.
  cbv zeta. induction ops as [|o ops IH]; intros st; cbn [fold_left].
  - cbn. rewrite !app_nil_r, orb_false_r. auto.
  - destruct (IH (step_state st o)) as (H1 & H2 & H3).
    destruct (step_key st o rc key) as (S1 & S2 & S3).
    rewrite H1, H2, H3, S1, S2, S3.
    unfold spec_key_derives, spec_key_attrs, spec_key_registered. cbn [flat_map existsb].
    rewrite <- !app_assoc, <- orb_assoc. repeat split; reflexivity.
Qed.

(** EXACT content of the derive registry after any history (lists in call order;
    the hash sets of the implementation are these lists read as sets) *)
Theorem derives_after_history ops :
  let dr := b_dreg (fst (run_ops ops)) in
  d_derives (dr_default dr) = spec_default_derives ops /\
  d_attrs (dr_default dr) = spec_default_attrs ops /\
  forall rc key,
    d_derives (kmap_get_or_empty (side dr rc) key) = spec_key_derives rc key ops /\
    d_attrs (kmap_get_or_empty (side dr rc) key) = spec_key_attrs rc key ops /\
    is_some (kmap_get (side dr rc) key) = spec_key_registered rc key ops.
Proof.
  cbv zeta. rewrite run_ops_fst. unfold final_state.
  rewrite fold_default_d, fold_default_a. repeat split; try reflexivity;
    destruct (fold_key ops rc key bstate_empty) as (H1 & H2 & H3);
    destruct rc; cbn in *; auto.
Qed.

(** the same, as sets: membership = "some call of the right kind registered it" *)
Theorem derives_union_sets ops :
  let dr := b_dreg (fst (run_ops ops)) in
  (forall x, In x (d_derives (dr_default dr)) <-> exists ds, In (OpDerivesAll ds) ops /\ In x ds) /\
  (forall x, In x (d_attrs (dr_default dr)) <-> exists a, In (OpAttrsAll a) ops /\ In x a) /\
  (forall rc key x, In x (d_derives (kmap_get_or_empty (side dr rc) key)) <->
                    exists k ds, In (OpDerivesFor k ds rc) ops /\ k_key k = key /\ In x ds) /\
  (forall rc key x, In x (d_attrs (kmap_get_or_empty (side dr rc) key)) <->
                    exists k a, In (OpAttrsFor k a rc) ops /\ k_key k = key /\ In x a).
Proof.
  cbv zeta. destruct (derives_after_history ops) as (H1 & H2 & H3). cbv zeta in *.
  rewrite H1, H2. repeat split.
  - unfold spec_default_derives. rewrite in_flat_map. intros (o & Ho & Hx).
    destruct o; try contradiction. eauto.
  - intros (ds & Ho & Hx). unfold spec_default_derives. apply in_flat_map. exists (OpDerivesAll ds); auto.
  - unfold spec_default_attrs. rewrite in_flat_map. intros (o & Ho & Hx).
    destruct o; try contradiction. eauto.
  - intros (a & Ho & Hx). unfold spec_default_attrs. apply in_flat_map. exists (OpAttrsAll a); auto.
  - destruct (H3 rc key) as (K1 & _ & _). rewrite K1. unfold spec_key_derives. rewrite in_flat_map.
    intros (o & Ho & Hx). destruct o as [| |k ds r| | | |]; try contradiction.
    destruct (Bool.eqb r rc) eqn:Er; [|contradiction]. apply eqb_prop in Er; subst r.
    destruct (String.eqb (k_key k) key) eqn:Ek; [|contradiction]. apply String.eqb_eq in Ek.
    exists k, ds; auto.
  - intros (k & ds & Ho & Ek & Hx). destruct (H3 rc key) as (K1 & _ & _). rewrite K1.
    unfold spec_key_derives. apply in_flat_map. exists (OpDerivesFor k ds rc). split; [exact Ho|].
    rewrite eqb_reflx, Ek, String.eqb_refl. exact Hx.
  - destruct (H3 rc key) as (_ & K2 & _). rewrite K2. unfold spec_key_attrs. rewrite in_flat_map.
    intros (o & Ho & Hx). destruct o as [| | |k a r| | |]; try contradiction.
    destruct (Bool.eqb r rc) eqn:Er; [|contradiction]. apply eqb_prop in Er; subst r.
    destruct (String.eqb (k_key k) key) eqn:Ek; [|contradiction]. apply String.eqb_eq in Ek.
    exists k, a; auto.
  - intros (k & a & Ho & Ek & Hx). destruct (H3 rc key) as (_ & K2 & _). rewrite K2.
    unfold spec_key_attrs. apply in_flat_map. exists (OpAttrsFor k a rc). split; [exact Ho|].
    rewrite eqb_reflx, Ek, String.eqb_refl. exact Hx.
Qed.

(** ** order and repetition of the calls are irrelevant *)
Lemma flat_map_filter {A B} (f : A -> list B) (p : A -> bool) l :
  (forall x, p x = false -> f x = []) -> flat_map f (filter p l) = flat_map f l.
Proof.
  intros H. induction l as [|x l IH]; cbn; [reflexivity|].
  destruct (p x) eqn:E; cbn; rewrite IH; [reflexivity|]. rewrite (H x E). reflexivity.
Qed.

Lemma existsb_filter {A} (f : A -> bool) (p : A -> bool) l :
  (forall x, p x = false -> f x = false) -> existsb f (filter p l) = existsb f l.
Proof.
  intros H. induction l as [|x l IH]; cbn; [reflexivity|].
  destruct (p x) eqn:E; cbn; rewrite IH; [reflexivity|]. rewrite (H x E). reflexivity.
Qed.

Lemma perm_flat_map_set {A B} (f : A -> list B) l1 l2 :
  Permutation l1 l2 -> set_eq (flat_map f l1) (flat_map f l2).
Proof.
  intros P x. rewrite !in_flat_map. split; intros (o & Ho & Hx); exists o; split; auto.
  - eapply Permutation_in; eauto.
  - eapply Permutation_in; [apply Permutation_sym|]; eauto.
Qed.

Lemma perm_existsb {A} (f : A -> bool) l1 l2 : Permutation l1 l2 -> existsb f l1 = existsb f l2.
Proof.
  intros P. destruct (existsb f l1) eqn:E1, (existsb f l2) eqn:E2; try reflexivity.
  - apply existsb_exists in E1 as (x & Hx & Fx).
    assert (existsb f l2 = true) by (apply existsb_exists; exists x; split; auto; eapply Permutation_in; eauto).
    congruence.
  - apply existsb_exists in E2 as (x & Hx & Fx).
    assert (existsb f l1 = true)
      by (apply existsb_exists; exists x; split; auto; eapply Permutation_in; [apply Permutation_sym|]; eauto).
    congruence.
Qed.

Lemma set_eq_via_filter {B} (f : op -> list B) ops1 ops2 :
  (forall o, is_derive_op o = false -> f o = []) ->
  Permutation (filter is_derive_op ops1) (filter is_derive_op ops2) ->
  set_eq (flat_map f ops1) (flat_map f ops2).
Proof.
  intros H P. rewrite <- (flat_map_filter f is_derive_op ops1 H), <- (flat_map_filter f is_derive_op ops2 H).
  apply perm_flat_map_set; exact P.
Qed.

Theorem order_irrelevant ops1 ops2 :
  Permutation (filter is_derive_op ops1) (filter is_derive_op ops2) ->
  dreg_equiv (b_dreg (fst (run_ops ops1))) (b_dreg (fst (run_ops ops2))).
Proof.
  intros P.
  destruct (derives_after_history ops1) as (A1 & A2 & A3).
  destruct (derives_after_history ops2) as (B1 & B2 & B3). cbv zeta in *.
  unfold dreg_equiv. rewrite A1, A2, B1, B2.
  split; [|split].
  - apply set_eq_via_filter; auto. intros [] D; try discriminate; reflexivity.
  - apply set_eq_via_filter; auto. intros [] D; try discriminate; reflexivity.
  - intros key.
    destruct (A3 false key) as (S1 & S2 & S3), (A3 true key) as (R1 & R2 & R3).
    destruct (B3 false key) as (S1' & S2' & S3'), (B3 true key) as (R1' & R2' & R3').
    cbn [side] in *.
    rewrite S1, S2, S3, R1, R2, R3, S1', S2', S3', R1', R2', R3'.
    unfold spec_key_registered.
    rewrite <- (existsb_filter _ is_derive_op ops1), <- (existsb_filter _ is_derive_op ops2)
      by (intros [] D; try discriminate; reflexivity).
    rewrite <- (existsb_filter (fun o => match o with
                                        | OpDerivesFor k _ r | OpAttrsFor k _ r => Bool.eqb r true && String.eqb (k_key k) key
                                        | _ => false end) is_derive_op ops1),
            <- (existsb_filter (fun o => match o with
                                        | OpDerivesFor k _ r | OpAttrsFor k _ r => Bool.eqb r true && String.eqb (k_key k) key
                                        | _ => false end) is_derive_op ops2)
      by (intros [] D; try discriminate; reflexivity).
    rewrite (perm_existsb _ _ _ P), (perm_existsb _ _ _ P).
    split; [reflexivity|]. split; [reflexivity|].
    split; [|split; [|split]];
      (apply set_eq_via_filter; [intros [] D; try discriminate; reflexivity|exact P]).
Qed.

Lemma flat_map_sub {A B} (f g : A -> list B) l :
  (forall o x, In x (f o) -> In x (g o)) -> forall x, In x (flat_map f l) -> In x (flat_map g l).
Proof. intros H x. rewrite !in_flat_map. intros (o & Ho & Hx). exists o; auto. Qed.

Lemma registered_from_args ops :
  let dr := b_dreg (fst (run_ops ops)) in
  (forall x, In x (d_derives (dr_default dr)) -> In x (history_args ops)) /\
  (forall x, In x (d_attrs (dr_default dr)) -> In x (history_args ops)) /\
  (forall rc key x, In x (d_derives (kmap_get_or_empty (side dr rc) key)) -> In x (history_args ops)) /\
  (forall rc key x, In x (d_attrs (kmap_get_or_empty (side dr rc) key)) -> In x (history_args ops)).
Proof.
  cbv zeta. destruct (derives_after_history ops) as (A1 & A2 & A3). cbv zeta in *.
  rewrite A1, A2. split; [|split; [|split]].
  - apply flat_map_sub. intros [] x; cbn; tauto.
  - apply flat_map_sub. intros [] x; cbn; tauto.
  - intros rc key. destruct (A3 rc key) as (-> & _ & _). apply flat_map_sub.
    intros [] x; cbn; try tauto. destruct (_ && _); cbn; tauto.
  - intros rc key. destruct (A3 rc key) as (_ & -> & _). apply flat_map_sub.
    intros [] x; cbn; try tauto. destruct (_ && _); cbn; tauto.
Qed.

Lemma history_args_perm ops1 ops2 :
  Permutation (filter is_derive_op ops1) (filter is_derive_op ops2) ->
  set_eq (history_args ops1) (history_args ops2).
Proof. intros P. apply set_eq_via_filter; auto. intros [] D; try discriminate; reflexivity. Qed.

(** consequently the emitted tokens (sorted, duplicate free) are EQUAL *)
Theorem order_irrelevant_emission ops1 ops2 :
  key_functional (history_args ops1) ->
  Permutation (filter is_derive_op ops1) (filter is_derive_op ops2) ->
  let dr1 := b_dreg (fst (run_ops ops1)) in
  let dr2 := b_dreg (fst (run_ops ops2)) in
  derives_tokens (dr_default dr1) = derives_tokens (dr_default dr2) /\
  forall key,
    derives_tokens (kmap_get_or_empty (dr_specific dr1) key) = derives_tokens (kmap_get_or_empty (dr_specific dr2) key) /\
    derives_tokens (kmap_get_or_empty (dr_recursive dr1) key) = derives_tokens (kmap_get_or_empty (dr_recursive dr2) key).
Proof.
  intros F P. cbv zeta.
  pose proof (order_irrelevant ops1 ops2 P) as (E1 & E2 & E3).
  pose proof (registered_from_args ops1) as (X1 & X2 & X3 & X4).
  pose proof (registered_from_args ops2) as (Y1 & Y2 & Y3 & Y4). cbv zeta in *.
  pose proof (history_args_perm ops1 ops2 P) as HP.
  assert (KF : forall a b : list kt,
             (forall x, In x a -> In x (history_args ops1)) ->
             (forall x, In x b -> In x (history_args ops2)) -> key_functional (a ++ b)).
  { intros a b Ha Hb. eapply key_functional_sub; [|exact F].
    intros x Hx. apply in_app_or in Hx as [Hx|Hx]; auto. apply HP; auto. }
  split.
  - apply derives_tokens_canonical; auto.
  - intros key. destruct (E3 key) as (_ & _ & S1 & S2 & R1 & R2). split.
    + apply derives_tokens_canonical; auto.
      * apply KF; [apply (X3 false key)|apply (Y3 false key)].
      * apply KF; [apply (X4 false key)|apply (Y4 false key)].
    + apply derives_tokens_canonical; auto.
      * apply KF; [apply (X3 true key)|apply (Y3 true key)].
      * apply KF; [apply (X4 true key)|apply (Y4 true key)].
Qed.

(** * 5. settings validation (C11) *)
Section Validate.
  Variable r : registry.

  Lemma contains_unknown p : registry_contains_path r p = negb (unknown r p).
  Proof. unfold unknown, registry_contains_path. rewrite negb_involutive. reflexivity. Qed.

  Lemma contains_iff p :
    registry_contains_path r p = true <-> exists e, In e r /\ t_path (snd e) = p.
  Proof.
    unfold registry_contains_path. rewrite existsb_exists.
    split; intros (e & He & H); exists e; split; auto; apply path_eqb_eq; auto.
  Qed.

  (** one projection (derives or attributes) of the validation loop *)
  Definition stepS (sel : derives -> list kt) (m : list (string * list kt)) (kd : tykey * derives) :=
    if registry_contains_path r (k_segs (fst kd)) then m
    else match sel (snd kd) with
         | [] => m
         | ds => ve_extend m (k_key (fst kd)) ds
         end.

  Definition vstep (e : verror) (kd : tykey * derives) : verror :=
    let '(k, d) := kd in
    if registry_contains_path r (k_segs k) then e
    else
      let e1 := match d_attrs d with
                | [] => e
                | ats => mk_verror (ve_derives e) (ve_extend (ve_attrs e) (k_key k) ats) (ve_subs e)
                end in
      match d_derives d with
      | [] => e1
      | ds => mk_verror (ve_extend (ve_derives e1) (k_key k) ds) (ve_attrs e1) (ve_subs e1)
      end.

  Lemma vstep_fold l : forall e,
    fold_left vstep l e =
    mk_verror (fold_left (stepS d_derives) l (ve_derives e))
              (fold_left (stepS d_attrs) l (ve_attrs e)) (ve_subs e).
  Proof.
    induction l as [|[k d] l IH]; intros e; cbn [fold_left].
    - destruct e; reflexivity.
    - rewrite IH. unfold vstep, stepS. cbn [fst snd].
      destruct (registry_contains_path r (k_segs k)); [reflexivity|].
      destruct (d_attrs d), (d_derives d); reflexivity.
  Qed.

  Definition sstep (e : verror) (ps : list string * substitute) : verror :=
    let '(p, sub) := ps in
    if registry_contains_path r p then e
    else mk_verror (ve_derives e) (ve_attrs e) (ve_subs e ++ [(p, print_spath (su_path sub))]).

  Lemma sstep_fold subs : forall e,
    fold_left sstep subs e =
    mk_verror (ve_derives e) (ve_attrs e) (ve_subs e ++ spec_unknown_subs r subs).
  Proof.
    unfold spec_unknown_subs.
    induction subs as [|[p sub] subs IH]; intros e; cbn [fold_left filter map].
    - rewrite app_nil_r. destruct e; reflexivity.
    - rewrite IH. unfold sstep. rewrite contains_unknown.
      destruct (unknown r p); cbn [negb map ve_derives ve_attrs ve_subs]; [|reflexivity].
      rewrite <- app_assoc. reflexivity.
  Qed.

  Lemma validate_unfold subs dr :
    validate subs dr r =
    let l := dr_specific dr ++ dr_recursive dr in
    mk_verror (fold_left (stepS d_derives) l []) (fold_left (stepS d_attrs) l [])
              (spec_unknown_subs r subs).
  Proof.
    unfold validate. fold vstep. fold sstep. rewrite vstep_fold, sstep_fold. reflexivity.
  Qed.

  (** *** lookups in the error lists *)
  Lemma ve_get_extend m K ds K' :
    ve_get (ve_extend m K ds) K' =
    if String.eqb K K'
    then Some (match ve_get m K with Some d' => d' ++ ds | None => ds end)
    else ve_get m K'.
  Proof.
    induction m as [|[k0 d0] m IH]; cbn [ve_extend ve_get].
    - destruct (String.eqb K K'); reflexivity.
    - destruct (String.eqb k0 K) eqn:E; cbn [ve_get].
      + apply String.eqb_eq in E; subst k0.
        destruct (String.eqb K K'); reflexivity.
      + rewrite IH. destruct (String.eqb k0 K') eqn:E2; [|reflexivity].
        apply String.eqb_eq in E2; subst k0. rewrite String.eqb_sym, E. reflexivity.
  Qed.

  Lemma ve_extend_keys m K ds k :
    In k (map fst (ve_extend m K ds)) <-> k = K \/ In k (map fst m).
  Proof.
    induction m as [|[k0 d0] m IH]; cbn [ve_extend map fst In].
    - intuition.
    - destruct (String.eqb k0 K) eqn:E; cbn [map fst In].
      + apply String.eqb_eq in E; subst. intuition.
      + rewrite IH. intuition.
  Qed.

  Lemma ve_extend_NoDup m K ds : NoDup (map fst m) -> NoDup (map fst (ve_extend m K ds)).
  Proof.
    induction m as [|[k0 d0] m IH]; cbn [ve_extend map fst]; intros H.
    - repeat constructor. intros [].
    - inversion H as [|? ? Hn Hd]; subst.
      destruct (String.eqb k0 K) eqn:E; cbn [map fst].
      + constructor; auto.
      + constructor; [|auto]. rewrite ve_extend_keys. intros [->|Hin]; [|auto].
        rewrite String.eqb_refl in E; discriminate.
  Qed.

  Lemma ve_extend_nonempty m K ds : ve_extend m K ds <> [].
  Proof. destruct m as [|[k0 d0] m]; cbn; [discriminate|]. destruct (String.eqb k0 K); discriminate. Qed.

  Lemma ve_get_In m K ds : NoDup (map fst m) -> (In (K, ds) m <-> ve_get m K = Some ds).
  Proof.
    induction m as [|[k0 d0] m IH]; cbn [ve_get In map fst]; intros H.
    - split; [tauto|discriminate].
    - inversion H as [|? ? Hn Hd]; subst. destruct (String.eqb k0 K) eqn:E.
      + apply String.eqb_eq in E; subst k0. split.
        * intros [E|Hin]; [inversion E; reflexivity|]. exfalso. apply Hn.
          change K with (fst (K, ds)). apply in_map; exact Hin.
        * intros E; inversion E; auto.
      + rewrite <- IH by exact Hd. split; [|auto].
        intros [E'|Hin]; [|exact Hin]. inversion E'; subst. rewrite String.eqb_refl in E; discriminate.
  Qed.

  Section Sel.
    Variable sel : derives -> list kt.

    Lemma stepS_NoDup l : forall m, NoDup (map fst m) -> NoDup (map fst (fold_left (stepS sel) l m)).
    Proof.
      induction l as [|[k d] l IH]; intros m H; cbn [fold_left]; [exact H|].
      apply IH. unfold stepS. cbn [fst snd].
      destruct (registry_contains_path r (k_segs k)); [exact H|].
      destruct (sel d); [exact H|]. apply ve_extend_NoDup; exact H.
    Qed.

    Lemma stepS_get l K : forall m,
      ve_get (fold_left (stepS sel) l m) K =
      match ve_get m K with
      | Some d' => Some (d' ++ spec_unknown_entries sel r l K)
      | None => if spec_unknown_listed sel r l K then Some (spec_unknown_entries sel r l K) else None
      end.
    Proof.
      unfold spec_unknown_entries, spec_unknown_listed.
      induction l as [|[k d] l IH]; intros m; cbn [fold_left flat_map existsb].
      - destruct (ve_get m K); [rewrite app_nil_r|]; reflexivity.
      - rewrite IH. unfold stepS. cbn [fst snd]. rewrite contains_unknown.
        destruct (unknown r (k_segs k)); cbn [negb andb].
        + destruct (sel d) as [|x ds] eqn:S.
          * cbn [nonempty]. rewrite andb_false_r. cbn [orb].
            destruct (String.eqb (k_key k) K); cbn [app]; reflexivity.
          * rewrite ve_get_extend. cbn [nonempty]. rewrite andb_true_r.
            destruct (String.eqb (k_key k) K) eqn:E; cbn [orb].
            -- apply String.eqb_eq in E; subst K.
               destruct (ve_get m (k_key k)); [rewrite <- app_assoc|]; reflexivity.
            -- destruct (ve_get m K); reflexivity.
        + cbn [app]. reflexivity.
    Qed.

    Lemma stepS_nil l : forall m,
      fold_left (stepS sel) l m = [] <->
      m = [] /\ forall k d, In (k, d) l -> registry_contains_path r (k_segs k) = true \/ sel d = [].
    Proof.
      induction l as [|[k d] l IH]; intros m; cbn [fold_left].
      - split; [intros ->; split; [reflexivity|intros ? ? []]|tauto].
      - rewrite IH. unfold stepS. cbn [fst snd].
        destruct (registry_contains_path r (k_segs k)) eqn:C.
        + split; intros (Hm & H); split; auto.
          * intros k' d' [E|Hin]; [inversion E; subst; auto|eauto].
          * intros k' d' Hin. apply H. right; exact Hin.
        + destruct (sel d) as [|x ds] eqn:S.
          * split; intros (Hm & H); split; auto.
            -- intros k' d' [E|Hin]; [inversion E; subst; auto|eauto].
            -- intros k' d' Hin. apply H. right; exact Hin.
          * split.
            -- intros (Hm & _). exfalso. exact (ve_extend_nonempty _ _ _ Hm).
            -- intros (_ & H). exfalso.
               destruct (H k d (or_introl eq_refl)) as [H1|H1]; congruence.
    Qed.
  End Sel.

  (** C11_error_exact, functional form *)
  Theorem validate_exact subs dr :
    let e := validate subs dr r in
    let l := dr_specific dr ++ dr_recursive dr in
    NoDup (map fst (ve_derives e)) /\ NoDup (map fst (ve_attrs e)) /\
    (forall K, ve_get (ve_derives e) K =
               if spec_unknown_listed d_derives r l K then Some (spec_unknown_entries d_derives r l K) else None) /\
    (forall K, ve_get (ve_attrs e) K =
               if spec_unknown_listed d_attrs r l K then Some (spec_unknown_entries d_attrs r l K) else None) /\
    ve_subs e = spec_unknown_subs r subs.
  Proof.
    cbv zeta. rewrite validate_unfold. cbv zeta. cbn [ve_derives ve_attrs ve_subs].
    split; [apply stepS_NoDup; constructor|].
    split; [apply stepS_NoDup; constructor|].
    split; [intros K; rewrite stepS_get; reflexivity|].
    split; [intros K; rewrite stepS_get; reflexivity|reflexivity].
  Qed.

  (** membership form: each unknown path once, with everything registered for it *)
  Theorem validate_exact_membership subs dr :
    let e := validate subs dr r in
    let l := dr_specific dr ++ dr_recursive dr in
    NoDup (map fst (ve_derives e)) /\ NoDup (map fst (ve_attrs e)) /\
    (forall K ds, In (K, ds) (ve_derives e) <->
                  spec_unknown_listed d_derives r l K = true /\ ds = spec_unknown_entries d_derives r l K) /\
    (forall K ats, In (K, ats) (ve_attrs e) <->
                   spec_unknown_listed d_attrs r l K = true /\ ats = spec_unknown_entries d_attrs r l K) /\
    ve_subs e = spec_unknown_subs r subs.
  Proof.
    cbv zeta. destruct (validate_exact subs dr) as (N1 & N2 & G1 & G2 & S). cbv zeta in *.
    split; [exact N1|]. split; [exact N2|]. split; [|split; [|exact S]].
    - intros K ds. rewrite (ve_get_In _ K ds N1), G1.
      destruct (spec_unknown_listed d_derives r _ K); split.
      + intros E; inversion E; auto.
      + intros (_ & ->); reflexivity.
      + discriminate.
      + intros (E & _); discriminate.
    - intros K ats. rewrite (ve_get_In _ K ats N2), G2.
      destruct (spec_unknown_listed d_attrs r _ K); split.
      + intros E; inversion E; auto.
      + intros (_ & ->); reflexivity.
      + discriminate.
      + intros (E & _); discriminate.
  Qed.

  Lemma nonempty_false {A} (l : list A) : nonempty l = false <-> l = [].
  Proof. destruct l; cbn; split; congruence. Qed.

  Theorem validate_iff subs dr :
    verror_is_empty (validate subs dr r) = true <-> settings_known subs dr r.
  Proof.
    rewrite validate_unfold. cbv zeta. unfold verror_is_empty, settings_known.
    cbn [ve_derives ve_attrs ve_subs].
    set (l := dr_specific dr ++ dr_recursive dr).
    pose proof (stepS_nil d_derives l []) as HD. pose proof (stepS_nil d_attrs l []) as HA.
    assert (HS : spec_unknown_subs r subs = [] <->
                 forall p sub, In (p, sub) subs -> registry_contains_path r p = true).
    { unfold spec_unknown_subs. induction subs as [|[p0 s0] subs IH]; cbn [filter map].
      - split; [intros _ ? ? []|reflexivity].
      - destruct (unknown r p0) eqn:U; cbn [map].
        + split; [discriminate|]. intros H. specialize (H p0 s0 (or_introl eq_refl)).
          rewrite contains_unknown, U in H. discriminate.
        + rewrite IH. split.
          * intros H p sub [E|Hin]; [inversion E; subst; rewrite contains_unknown, U; reflexivity|eauto].
          * intros H p sub Hin. apply (H p sub). right; exact Hin. }
    split.
    - intros H.
      destruct (fold_left (stepS d_derives) l []) eqn:ED; [|discriminate].
      destruct (fold_left (stepS d_attrs) l []) eqn:EA; [|discriminate].
      destruct (spec_unknown_subs r subs) eqn:ES; [|discriminate].
      destruct (proj1 HD eq_refl) as (_ & KD). destruct (proj1 HA eq_refl) as (_ & KA).
      split.
      + intros k d Hin Hne. apply contains_iff.
        destruct (KD k d Hin) as [C|Ed]; [exact C|]. destruct (KA k d Hin) as [C|Ea]; [exact C|].
        rewrite Ed, Ea in Hne. discriminate.
      + intros p sub Hin. apply contains_iff. apply (proj1 HS eq_refl p sub Hin).
    - intros (K1 & K2).
      assert (ED : fold_left (stepS d_derives) l [] = []).
      { apply HD. split; [reflexivity|]. intros k d Hin.
        destruct (d_derives d) eqn:E; [right; reflexivity|left].
        apply contains_iff. apply (K1 k d Hin). rewrite E. reflexivity. }
      assert (EA : fold_left (stepS d_attrs) l [] = []).
      { apply HA. split; [reflexivity|]. intros k d Hin.
        destruct (d_attrs d) eqn:E; [right; reflexivity|left].
        apply contains_iff. apply (K1 k d Hin). rewrite E. apply orb_true_r. }
      assert (ES : spec_unknown_subs r subs = []).
      { apply HS. intros p sub Hin. apply contains_iff. eauto. }
      rewrite ED, EA, ES. reflexivity.
  Qed.

  (** the similar-path query *)
  Theorem similar_spec q : similar_type_paths r q = spec_similar r q.
  Proof.
    unfold similar_type_paths, spec_similar, path_ident.
    destruct q as [|q0 q]; [reflexivity|].
    induction r as [|[id t] r' IH]; cbn [flat_map map filter]; [reflexivity|].
    cbn [snd]. destruct (t_path t) as [|p0 p] eqn:E.
    - exact IH.
    - destruct (String.eqb (last (p0 :: p) "") (last (q0 :: q) "")); cbn [app]; rewrite IH; reflexivity.
  Qed.
End Validate.

(** * 6. the hypotheses / case distinctions of the theorems are inhabited *)
Module BuildersExamples.
  Definition ty_A : garg := GType (GTPath false false [("A", ANone)]).
  Definition src_ok : spath := mk_spath false [("a", ANone); ("Foo", AAngle [ty_A])].
  Definition src_plain : spath := mk_spath false [("a", ANone); ("Foo", ANone)].
  Definition src_paren : spath := mk_spath false [("a", ANone); ("Foo", AParen ["("; "A"; ")"])].
  Definition src_lifetime : spath := mk_spath false [("a", ANone); ("Foo", AAngle [GOther ["'"; "a"]])].
  Definition src_empty : spath := mk_spath false [].
  Definition tgt_ok : spath := mk_spath true [("x", ANone); ("Y", AAngle [ty_A])].
  Definition tgt_crate : spath := mk_spath false [("crate", ANone); ("Y", ANone)].
  Definition tgt_rel : spath := mk_spath false [("ext", ANone); ("Foo", ANone)].
  Definition tgt_paren : spath := mk_spath true [("x", ANone); ("Y", AParen ["("; "A"; ")"])].
  Definition tgt_tuple : spath := mk_spath true [("x", ANone); ("Y", AAngle [GType (GTOther ["("; "A"; ","; "B"; ")"])])].

  Example ex_accept : classify src_ok tgt_ok = None /\ classify src_plain tgt_crate = None.
  Proof. split; reflexivity. Qed.
  Example ex_relative : classify src_ok tgt_rel = Some SExpectedAbsolutePath.
  Proof. reflexivity. Qed.
  Example ex_empty : classify src_empty tgt_ok = Some SEmptySubstitutePath.
  Proof. reflexivity. Qed.
  Example ex_src_paren : classify src_paren tgt_ok = Some SExpectedAngleBracketGenerics.
  Proof. reflexivity. Qed.
  Example ex_from : classify src_lifetime tgt_ok = Some SInvalidFromType.
  Proof. reflexivity. Qed.
  Example ex_tgt_paren : classify src_ok tgt_paren = Some SExpectedAngleBracketGenerics.
  Proof. reflexivity. Qed.
  Example ex_to : classify src_ok tgt_tuple = Some SInvalidToType.
  Proof. reflexivity. Qed.

  (** keys with and without generics address the same rule; insert-if-absent does not overwrite;
      a rejected element of [extend] keeps the earlier ones *)
  Definition hist : list op :=
    [ OpSubInsertIfAbsent src_plain tgt_crate; OpSubInsertIfAbsent src_ok tgt_ok;
      OpSubExtend [(src_ok, tgt_ok); (src_paren, tgt_ok); (src_plain, tgt_crate)] ].
  Example ex_rule : spec_rule hist ["a"; "Foo"] = Some (spec_value src_ok tgt_ok)
                    /\ spec_rule [OpSubInsertIfAbsent src_plain tgt_crate; OpSubInsertIfAbsent src_ok tgt_ok] ["a"; "Foo"]
                       = Some (spec_value src_plain tgt_crate).
  Proof. split; reflexivity. Qed.

  (** the hypotheses of [order_irrelevant_emission] hold for a real pair of distinct histories *)
  Definition kfoo : tykey := mk_tykey "a :: Foo" ["a"; "Foo"] ["a"; ":"; ":"; "Foo"].
  Definition h1 : list op :=
    [ OpDerivesAll [("Clone", ["Clone"])]; OpSubInsert src_ok tgt_ok;
      OpDerivesFor kfoo [("Debug", ["Debug"]); ("Clone", ["Clone"])] true ].
  Definition h2 : list op :=
    [ OpDerivesFor kfoo [("Debug", ["Debug"]); ("Clone", ["Clone"])] true; OpSubInsert src_ok tgt_ok;
      OpDerivesAll [("Clone", ["Clone"])] ].
  Example ex_perm_hyps :
    h1 <> h2 /\ key_functional (history_args h1) /\
    Permutation (filter is_derive_op h1) (filter is_derive_op h2).
  Proof.
    split; [discriminate|]. split.
    - intros x y Hx Hy E. cbn in Hx, Hy.
      destruct Hx as [<-|[<-|[<-|[]]]]; destruct Hy as [<-|[<-|[<-|[]]]]; try reflexivity; discriminate.
    - cbn. apply perm_swap.
  Qed.

  (** validation: a registry on which the same settings are once known, once not *)
  Definition unit_ty (p : list string) : ty := mk_ty p [] (TDComposite []) [].
  Definition reg1 : registry := [(0%N, unit_ty ["a"; "Foo"])].
  Definition dr_known : derives_registry :=
    mk_dreg derives_empty [(kfoo, mk_derives [("Clone", ["Clone"])] [])] [].
  Definition kbar : tykey := mk_tykey "a :: Bar" ["a"; "Bar"] ["a"; ":"; ":"; "Bar"].
  Definition dr_unknown : derives_registry :=
    mk_dreg derives_empty [(kbar, mk_derives [("Clone", ["Clone"])] [])]
            [(kbar, mk_derives [("Debug", ["Debug"])] []); (kfoo, mk_derives [] [])].
  Example ex_known : settings_known [] dr_known reg1.
  Proof.
    split.
    - intros k d [E|[]] _. inversion E; subst. exists (0%N, unit_ty ["a"; "Foo"]). split; [left|]; reflexivity.
    - intros p sub [].
  Qed.
  Example ex_unknown_merged :
    ve_derives (validate [] dr_unknown reg1) = [("a :: Bar", [("Clone", ["Clone"]); ("Debug", ["Debug"])])].
  Proof. reflexivity. Qed.
End BuildersExamples.

Theorem extend_exact_prefix (st : bstate) (l : list (spath * spath)) :
  apply_op st (OpSubExtend l) =
  (mk_bstate (b_dreg st)
             (fold_left (fun sb '(s, t) => subs_insert sb (idents s) (spec_value s t))
                        (ext_elems l) (b_subs st)),
   spec_outcome (OpSubExtend l))
  /\ exists rest, l = ext_elems l ++ rest /\
       Forall (fun p => classify (fst p) (snd p) = None) (ext_elems l) /\
       (forallb (fun p => absolute (snd p)) l = true ->
        match rest with [] => True | p :: _ => classify (fst p) (snd p) <> None end).
Proof. split; [apply extend_exact|apply ext_elems_prefix]. Qed.
