(** [String.compare] is a strict total order: the 8.16 standard library has
    antisymmetry and [compare = Eq -> eq] only; transitivity is proved here
    through [Ascii.compare a b = N.compare (N_of_ascii a) (N_of_ascii b)]. *)
From Coq Require Import List NArith String Ascii Bool Lia.
From V Require Import Base.Strings.
Import ListNotations.

Definition str_lt (a b : string) : Prop := String.compare a b = Lt.

Lemma ascii_compare_refl c : Ascii.compare c c = Eq.
Proof. unfold Ascii.compare. apply N.compare_refl. Qed.

Lemma ascii_compare_eq c d : Ascii.compare c d = Eq <-> c = d.
Proof. split; [apply Ascii.compare_eq_iff | intros ->; apply ascii_compare_refl]. Qed.

Lemma ascii_compare_lt_trans a b c :
  Ascii.compare a b = Lt -> Ascii.compare b c = Lt -> Ascii.compare a c = Lt.
Proof.
  unfold Ascii.compare. rewrite !N.compare_lt_iff. lia.
Qed.

Lemma str_compare_lt_trans : forall a b c,
  String.compare a b = Lt -> String.compare b c = Lt -> String.compare a c = Lt.
Proof.
  induction a as [|x a IH]; destruct b as [|y b]; destruct c as [|z c]; cbn; try congruence.
  destruct (Ascii.compare x y) eqn:Exy; try discriminate.
  - apply ascii_compare_eq in Exy; subst y.
    destruct (Ascii.compare x z) eqn:Exz; try congruence.
    intros; eapply IH; eauto.
  - intros _. destruct (Ascii.compare y z) eqn:Eyz; try discriminate.
    + apply ascii_compare_eq in Eyz; subst z. rewrite Exy. reflexivity.
    + intros _. rewrite (ascii_compare_lt_trans _ _ _ Exy Eyz). reflexivity.
Qed.

Lemma str_compare_gt_lt a b : String.compare a b = Gt <-> String.compare b a = Lt.
Proof.
  rewrite (String.compare_antisym a b). destruct (String.compare b a); cbn; split; congruence.
Qed.

Lemma str_lt_irrefl a : ~ str_lt a a.
Proof. unfold str_lt. rewrite str_compare_refl. discriminate. Qed.

Lemma str_lt_trans a b c : str_lt a b -> str_lt b c -> str_lt a c.
Proof. apply str_compare_lt_trans. Qed.

Lemma str_lt_asym a b : str_lt a b -> ~ str_lt b a.
Proof. intros H1 H2. exact (str_lt_irrefl a (str_lt_trans _ _ _ H1 H2)). Qed.

(** trichotomy, as a case principle *)
Lemma str_compare_spec a b :
  CompareSpec (a = b) (str_lt a b) (str_lt b a) (String.compare a b).
Proof.
  destruct (String.compare a b) eqn:E; constructor.
  - apply String.compare_eq_iff; exact E.
  - exact E.
  - apply str_compare_gt_lt; exact E.
Qed.
