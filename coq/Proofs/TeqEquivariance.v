(** C17, WP1a: [types_equal] commutes with a renumbering of the registry.

    [teq] compares ids only for equality (the [a == b] shortcut, membership in the two visited
    sets, the lookup of an id in a [GenericsList] frame) and resolves them in the registry; it
    never orders or prints them.  So for every INJECTIVE [pi] under which resolution commutes
    ([resolve r' (pi id) = option_map (rename_ty pi) (resolve r id)], which is
    [resolve_renumber] for a renumbering) the whole run is the image of the original run:
    same verdict, same error / panic, visited sets and frames mapped by [pi] - for every fuel,
    every pair of ids (in range or not), every pair of parameter lists and every visited state. *)
From Coq Require Import List NArith String Bool Lia.
From V Require Import Base.Strings Base.Result Model.Registry Model.Derives Model.Equal
  Model.Renumber Proofs.GenTotal Proofs.RenumberPerm.
Import ListNotations.
Open Scope list_scope.

Section TeqEquiv.
  Variable pi : N -> N.
  Hypothesis Hinj : forall i j, pi i = pi j -> i = j.

  Definition map_entry (e : N * string) : N * string := (pi (fst e), snd e).
  Definition map_frame (f : frame) : frame := (fst f, map map_entry (snd f)).
  Definition map_glist (g : glist) : glist := map map_frame g.
  Definition map_vstate (st : vstate) : vstate := (map pi (fst st), map pi (snd st)).
  Definition map_tres (x : result (bool * vstate)) : result (bool * vstate) :=
    match x with
    | Ok p => Ok (fst p, map_vstate (snd p))
    | Err e => Err e
    | Panic m => Panic m
    end.

  Lemma pi_eqb a b : N.eqb (pi a) (pi b) = N.eqb a b.
  Proof.
    destruct (N.eqb a b) eqn:E.
    - apply N.eqb_eq in E. subst. apply N.eqb_refl.
    - apply N.eqb_neq. intros H. apply Hinj in H. apply N.eqb_neq in E. contradiction.
  Qed.

  Lemma mem_N_map a l : mem_N (pi a) (map pi l) = mem_N a l.
  Proof.
    unfold mem_N. induction l as [|x l IH]; [reflexivity|].
    cbn [map existsb]. rewrite pi_eqb, IH. reflexivity.
  Qed.

  Lemma position_map_id id l :
    position (fun e : N * string => N.eqb (fst e) (pi id)) (map map_entry l) =
    position (fun e : N * string => N.eqb (fst e) id) l.
  Proof.
    induction l as [|e l IH]; [reflexivity|].
    cbn [map position]. unfold map_entry at 1. cbn [fst]. rewrite pi_eqb, IH. reflexivity.
  Qed.

  Lemma position_map_name n l :
    position (fun e : N * string => String.eqb (snd e) n) (map map_entry l) =
    position (fun e : N * string => String.eqb (snd e) n) l.
  Proof.
    induction l as [|e l IH]; [reflexivity|].
    cbn [map position]. unfold map_entry at 1. cbn [snd]. rewrite IH. reflexivity.
  Qed.

  Lemma index_for_type_id_map g id :
    index_for_type_id (map_glist g) (pi id) = index_for_type_id g id.
  Proof.
    induction g as [|[start entries] g IH]; [reflexivity|].
    cbn [map_glist map map_frame fst snd index_for_type_id].
    rewrite position_map_id. fold (map_glist g). rewrite IH. reflexivity.
  Qed.

  Lemma index_for_type_name_map g n :
    index_for_type_name (map_glist g) n = index_for_type_name g n.
  Proof.
    induction g as [|[start entries] g IH]; [reflexivity|].
    cbn [map_glist map map_frame fst snd index_for_type_name].
    rewrite position_map_name. fold (map_glist g). rewrite IH. reflexivity.
  Qed.

  Lemma extend_entries_map ps :
    flat_map (fun p => match tp_ty p with Some i => [(i, tp_name p)] | None => [] end)
             (map (rename_tparam pi) ps) =
    map map_entry
        (flat_map (fun p => match tp_ty p with Some i => [(i, tp_name p)] | None => [] end) ps).
  Proof.
    induction ps as [|[n [i|]] ps IH]; [reflexivity| |].
    - cbn [map flat_map rename_tparam tp_ty tp_name option_map app]. rewrite IH. reflexivity.
    - cbn [map flat_map rename_tparam tp_ty tp_name option_map app]. exact IH.
  Qed.

  Lemma glist_extend_map g ps :
    glist_extend (map_glist g) (map (rename_tparam pi) ps) = map_glist (glist_extend g ps).
  Proof.
    unfold glist_extend. rewrite extend_entries_map.
    destruct g as [|[st en] g]; [reflexivity|].
    cbn [map_glist map map_frame fst snd]. rewrite map_length. reflexivity.
  Qed.

  Lemma param_ids_rename t : param_ids (rename_ty pi t) = map pi (param_ids t).
  Proof.
    unfold param_ids, rename_ty. cbn [t_params].
    induction (t_params t) as [|[n [i|]] ps IH]; [reflexivity| |].
    - cbn [map flat_map rename_tparam tp_ty option_map app]. rewrite IH. reflexivity.
    - cbn [map flat_map rename_tparam tp_ty option_map app]. exact IH.
  Qed.

  Lemma glist_empty_map : map_glist glist_empty = glist_empty.
  Proof. reflexivity. Qed.

  (** [all2] over mapped lists *)
  Lemma all2_map {A} (h : A -> A)
        (f f' : A -> A -> vstate -> result (bool * vstate)) :
    (forall x y st, f' (h x) (h y) (map_vstate st) = map_tres (f x y st)) ->
    forall la lb st,
      all2 f' (map h la) (map h lb) (map_vstate st) = map_tres (all2 f la lb st).
  Proof.
    intros Hf. induction la as [|x la IH]; intros lb st.
    - destruct lb; reflexivity.
    - destruct lb as [|y lb]; [reflexivity|].
      cbn [map all2]. rewrite Hf.
      destruct (f x y st) as [[b st']| |]; cbn [map_tres bind fst snd]; [|reflexivity|reflexivity].
      destruct b; [apply IH|reflexivity].
  Qed.

  Section Def.
    Variables (rec rec' : N -> N -> vstate -> result (bool * vstate)).
    Hypothesis Hrec : forall x y st, rec' (pi x) (pi y) (map_vstate st) = map_tres (rec x y st).
    Variables ap bp : glist.

    Lemma compare_fields_map fa fb st :
      compare_fields_with rec' (map_glist ap) (map_glist bp)
                          (rename_field pi fa) (rename_field pi fb) (map_vstate st) =
      map_tres (compare_fields_with rec ap bp fa fb st).
    Proof.
      unfold compare_fields_with, rename_field. cbn [f_name f_ty f_type_name].
      destruct (negb (opt_str_eqb (f_name fa) (f_name fb))); [reflexivity|].
      rewrite !index_for_type_id_map.
      destruct (f_type_name fa) as [na|]; [|apply Hrec].
      destruct (f_type_name fb) as [nb|]; [|apply Hrec].
      rewrite !index_for_type_name_map.
      destruct (index_for_type_id ap (f_ty fa)); [|apply Hrec].
      destruct (index_for_type_id bp (f_ty fb)); [reflexivity|apply Hrec].
    Qed.

    Lemma fields_equal_map fa fb st :
      fields_equal_with rec' (map_glist ap) (map_glist bp)
                        (map (rename_field pi) fa) (map (rename_field pi) fb) (map_vstate st) =
      map_tres (fields_equal_with rec ap bp fa fb st).
    Proof.
      unfold fields_equal_with. rewrite !map_length.
      destruct (negb (Nat.eqb (List.length fa) (List.length fb))); [reflexivity|].
      apply all2_map. exact compare_fields_map.
    Qed.

    Lemma teq_def_map ta tb st :
      teq_def rec' (map_glist ap) (map_glist bp) (rename_ty pi ta) (rename_ty pi tb) (map_vstate st) =
      map_tres (teq_def rec ap bp ta tb st).
    Proof.
      unfold teq_def, rename_ty. cbn [t_def].
      destruct (t_def ta) as [fa|va|x|la x|xs|p|x|sa oa];
        destruct (t_def tb) as [fb|vb|y|lb y|ys|q|y|sb ob]; cbn [rename_def]; try reflexivity.
      - apply fields_equal_map.
      - rewrite !map_length.
        destruct (negb (Nat.eqb (List.length va) (List.length vb))); [reflexivity|].
        apply (all2_map (rename_variant pi)). intros vx vy st0.
        unfold rename_variant. cbn [v_name v_index v_fields].
        destruct (String.eqb (v_name vx) (v_name vy) && N.eqb (v_index vx) (v_index vy));
          [apply fields_equal_map|reflexivity].
      - apply Hrec.
      - destruct (N.eqb la lb); [apply Hrec|reflexivity].
      - rewrite !map_length.
        destruct (negb (Nat.eqb (List.length xs) (List.length ys))); [reflexivity|].
        apply all2_map. exact Hrec.
      - apply Hrec.
      - rewrite Hrec.
        destruct (rec oa ob st) as [[bo st1]| |]; cbn [map_tres bind fst snd]; [|reflexivity|reflexivity].
        rewrite Hrec.
        destruct (rec sa sb st1) as [[bs st2]| |]; cbn [map_tres bind fst snd]; reflexivity.
    Qed.
  End Def.

  Variables r r' : registry.
  Hypothesis Hres : forall id, resolve r' (pi id) = option_map (rename_ty pi) (resolve r id).

  Theorem teq_equivariant : forall fuel a ap b bp st,
    teq r' fuel (pi a) (map_glist ap) (pi b) (map_glist bp) (map_vstate st) =
    map_tres (teq r fuel a ap b bp st).
  Proof.
    induction fuel as [|fuel IH]; intros a ap b bp st; [reflexivity|].
    rewrite !teq_S. rewrite pi_eqb.
    destruct (N.eqb a b); [reflexivity|].
    change (fst (map_vstate st)) with (map pi (fst st)).
    change (snd (map_vstate st)) with (map pi (snd st)).
    cbv zeta. rewrite !mem_N_map.
    set (sa := mem_N a (fst st)). set (sb := mem_N b (snd st)).
    assert (Est : ((if sa then map pi (fst st) else pi a :: map pi (fst st)),
                   (if sb then map pi (snd st) else pi b :: map pi (snd st))) =
                  map_vstate ((if sa then fst st else a :: fst st),
                              (if sb then snd st else b :: snd st))).
    { unfold map_vstate. cbn [fst snd]. destruct sa, sb; reflexivity. }
    rewrite Est. clear Est.
    set (st1 := ((if sa then fst st else a :: fst st), (if sb then snd st else b :: snd st))).
    destruct (negb (Bool.eqb sa sb)); [reflexivity|].
    destruct (sa && sb); [reflexivity|].
    rewrite !Hres, !index_for_type_id_map.
    destruct (resolve r a) as [ta|]; cbn [option_map]; [|reflexivity].
    destruct (resolve r b) as [tb|]; cbn [option_map]; [|reflexivity].
    destruct (opt_nat_eqb (index_for_type_id ap a) (index_for_type_id bp b)); [reflexivity|].
    change (t_path (rename_ty pi ta)) with (t_path ta).
    change (t_path (rename_ty pi tb)) with (t_path tb).
    destruct (negb (path_eqb (t_path ta) (t_path tb))); [reflexivity|].
    rewrite !param_ids_rename, !map_length.
    destruct (negb (Nat.eqb (List.length (param_ids ta)) (List.length (param_ids tb)))); [reflexivity|].
    change (t_params (rename_ty pi ta)) with (map (rename_tparam pi) (t_params ta)).
    change (t_params (rename_ty pi tb)) with (map (rename_tparam pi) (t_params tb)).
    rewrite !glist_extend_map.
    apply teq_def_map. intros x y st0. apply IH.
  Qed.
End TeqEquiv.

(** ** the pinned form: a renumbering of [r] *)
Theorem types_equal_res_renumber pi r :
  renumbering (N.of_nat (List.length r)) pi ->
  forall a b, types_equal_res (renumber pi r) (pi a) (pi b) = types_equal_res r a b.
Proof.
  intros Hpi a b. unfold types_equal_res. rewrite renumber_length.
  pose proof (teq_equivariant pi (proj1 Hpi) r (renumber pi r) (resolve_renumber pi r Hpi)
                              (S (S (List.length r))) a glist_empty b glist_empty ([], [])) as E.
  rewrite glist_empty_map in E. change (map_vstate pi ([], [])) with (([], []) : vstate) in E.
  rewrite E. destruct (teq r (S (S (List.length r))) a glist_empty b glist_empty ([], [])) as [[v st]| |];
    reflexivity.
Qed.

(** the general statement, for every fuel, parameter lists and visited state *)
Theorem teq_renumber pi r :
  renumbering (N.of_nat (List.length r)) pi ->
  forall fuel a ap b bp st,
    teq (renumber pi r) fuel (pi a) (map_glist pi ap) (pi b) (map_glist pi bp) (map_vstate pi st) =
    map_tres pi (teq r fuel a ap b bp st).
Proof.
  intros Hpi. apply teq_equivariant; [exact (proj1 Hpi)|apply resolve_renumber; exact Hpi].
Qed.
