(** The hypotheses of the C10 / C02 theorems hold on a concrete registry: a generic struct
    [a::b::Foo<T>] with a parameter, [Vec], [Option] and compact field, instantiated at [u8]
    and [u32], and an enum [a::Bar] referring to both instantiations. *)
From Coq Require Import List NArith String Bool.
From V Require Import Base.Strings Base.Result Model.Registry Model.Settings Model.Subst
  Model.TypePath Model.Derives Model.Generate Model.Emit Model.Equal Model.WellFormed
  Proofs.GenProofs Proofs.ResolveTotal Proofs.GenTotal Proofs.ClosedProofs.
Import ListNotations.
Open Scope string_scope. Open Scope list_scope. Open Scope N_scope.

Definition ex_foo (arg : N) : ty :=
  mk_ty ["a"; "b"; "Foo"] [mk_tparam "T" (Some arg)]
        (TDComposite [mk_field (Some "x") arg (Some "T") [];
                      mk_field (Some "v") 2 (Some "Vec<u8>") [];
                      mk_field (Some "o") 3 (Some "Option<u32>") [];
                      mk_field (Some "c") 4 (Some "Compact<u32>") []]) ["a generic struct"].

Definition ex_reg : registry :=
  [ (0, mk_ty [] [] (TDPrimitive PU8) []);
    (1, mk_ty [] [] (TDPrimitive PU32) []);
    (2, mk_ty [] [] (TDSequence 0) []);
    (3, mk_ty ["Option"] [mk_tparam "T" (Some 1)]
              (TDVariant [mk_variant "None" [] 0 [];
                          mk_variant "Some" [mk_field None 1 (Some "T") []] 1 []]) []);
    (4, mk_ty [] [] (TDCompact 1) []);
    (5, ex_foo 0);
    (6, ex_foo 1);
    (7, mk_ty ["a"; "Bar"] []
              (TDVariant [mk_variant "A" [mk_field None 5 (Some "Foo<u8>") []] 0 [];
                          mk_variant "B" [mk_field (Some "f") 6 (Some "Foo<u32>") []] 1 []]) []) ].

Definition ex_set : settings :=
  mk_settings "types" true dreg_empty
    [(["x"; "Y"], mk_subst (mk_spath true [("other", ANone); ("Z", ANone)]) PassThrough)]
    None None (Some [":"; ":"; "codec"; ":"; ":"; "Compact"]) true AStd.

(** the run-time hypothesis of C10_total_wf / C10_resolve_total_wf *)
Example ex_wf : wf_regb ex_reg = true /\ supportedb ex_reg ex_set = true.
Proof. vm_compute. split; reflexivity. Qed.

(** hence the Prop classes of C10_total / C10_create_type_ir_total / C10_resolve_total,
    C10_rank_ok_sound, C10_flatten_total and C10_types_equal_total *)
Example ex_generable : exists rank, generable ex_reg ex_set rank.
Proof. apply wf_generable; vm_compute; reflexivity. Qed.

Example ex_resolvable : exists rank, resolvable ex_reg ex_set rank.
Proof. destruct ex_generable as (rank & H). exists rank. exact (proj1 (proj2 H)). Qed.

Example ex_rank_ok : rank_ok ex_reg = true.
Proof. vm_compute. reflexivity. Qed.

Example ex_closed_flat :
  ids_consistent ex_reg = true /\ closed ex_reg /\ entries_ok flat_entryb ex_reg.
Proof.
  destruct ex_generable as (rank & Hi & (Hc & _) & _ & Hf). split; [exact Hi|]. split; assumption.
Qed.

(** C02_paths_resolve / C02_unique_names: the settings are root-fresh and generation is [Ok] *)
Example ex_root_fresh : root_fresh ex_set.
Proof.
  split; [discriminate|]. split; [cbn; discriminate|].
  intros k sub [E|[]]. inversion E; subst. cbn. discriminate.
Qed.

Example ex_generate_ok :
  exists m, generate ex_reg ex_set (types_equal ex_reg) = Ok m /\
            map fst m = [["a"; "Bar"]; ["a"; "b"; "Foo"]] /\ is_ok (emit_module ex_set m) = true.
Proof. vm_compute. eexists. split; [reflexivity|]. split; reflexivity. Qed.

(** C02_generics_used: the item of [Foo] declares one parameter, used by field [x] *)
Example ex_generics :
  exists flat ir, create_type_ir ex_reg ex_set (ex_foo 0) flat = Ok (Some ir) /\
                  List.length (ti_params ir) = 1%nat /\ ti_unused ir = [].
Proof.
  exists (mk_flat derives_empty []). vm_compute. eexists. split; [reflexivity|]. split; reflexivity.
Qed.

(** single faults: the hypotheses of C10_fault_* are met by small variations *)
Definition ex_mixed : ty :=
  mk_ty ["a"; "Mixed"] [] (TDComposite [mk_field (Some "x") 0 None []; mk_field None 1 None []]) [].

Example ex_fault_mixed :
  exists fs nm, t_def ex_mixed = TDComposite fs /\ path_ident (t_path ex_mixed) = Some nm /\
                ident_okb nm = true /\ all_named fs || all_unnamed fs = false /\
                create_type_ir ex_reg ex_set ex_mixed (mk_flat derives_empty []) = Err EInvalidFields.
Proof. vm_compute. eexists; eexists. repeat split; reflexivity. Qed.

Definition ex_set_nocompact : settings :=
  mk_settings "types" true dreg_empty [] None None None true AStd.

Example ex_fault_compact :
  find_parent [] 4 None = None /\
  resolve_rec ex_reg ex_set_nocompact 3 1 false [] None = Ok (TPrim PU32) /\
  s_compact ex_set_nocompact = None /\
  resolve_rec ex_reg ex_set_nocompact 4 4 true [] None = Err ECompactPathNone.
Proof. vm_compute. repeat split; reflexivity. Qed.

Example ex_fault_bits :
  let r := ex_reg ++ [(8, mk_ty [] [] (TDBitSeq 0 1) [])] in
  resolve r 8 = Some (mk_ty [] [] (TDBitSeq 0 1) []) /\ s_bits ex_set = None /\
  resolve_rec r ex_set 5 8 false [] None = Err EBitsPathNone.
Proof. vm_compute. repeat split; reflexivity. Qed.

Example ex_fault_missing :
  resolve ex_reg 9 = None /\ resolve_rec ex_reg ex_set 1 9 false [] None = Err (ETypeNotFound 9).
Proof. vm_compute. split; reflexivity. Qed.

(** ** the clause [compact_inner_okb] is needed: a struct [a::P { x: Compact<(u8, u8)> }].
    Every other clause of [wf_regb] holds, generation is [Ok], but printing the compact field
    panics ([parse_quote!( #inner )] into a [syn::TypePath] with [#inner = (u8, u8,)]);
    resolving the Compact entry itself (not as a field) is fine. *)
Definition ex_ctuple_reg : registry :=
  [ (0, mk_ty [] [] (TDPrimitive PU8) []);
    (1, mk_ty [] [] (TDTuple [0; 0]) []);
    (2, mk_ty [] [] (TDCompact 1) []);
    (3, mk_ty ["a"; "P"] [] (TDComposite [mk_field (Some "x") 2 (Some "Compact<(u8, u8)>") []]) []) ].

Example ex_ctuple_not_wf :
  wf_regb ex_ctuple_reg = false /\ compact_inner_okb ex_ctuple_reg = false /\
  ids_consistent ex_ctuple_reg && closed_reg ex_ctuple_reg && rank_ok ex_ctuple_reg &&
    forallb (fun e => entry_wfb (snd e)) ex_ctuple_reg = true /\
  supportedb ex_ctuple_reg ex_set = true.
Proof. vm_compute. repeat split; reflexivity. Qed.

Example ex_ctuple_panics :
  (exists m, generate ex_ctuple_reg ex_set (types_equal ex_ctuple_reg) = Ok m /\
             emit_module ex_set m = Panic "compact field: inner type is not a type path") /\
  (exists t toks, resolve_type_path ex_ctuple_reg ex_set 2 = Ok t /\
                  tp_tokens (alloc_tokens (s_alloc ex_set)) t = Ok toks).
Proof. vm_compute. split; eexists; [split; reflexivity|eexists; split; reflexivity]. Qed.
