(** C05 on REAL registries ([RegistryOf1]): the WHOLE erased IR of an instantiation is determined by
    the source definition; all instantiations - including the entries scale-info registers twice
    ([Foo<Box<T>>] next to [Foo<T>], [Box<Box<Foo<T>>>] next to [Foo<T>]) - give one erased IR;
    program registries are skeleton-consistent.  Proofs/SourceSkeleton.v with [RegistryOf1],
    [instantiation_cf1], [compact_fields_okb1]; no canonicity hypothesis on the arguments. *)
From Coq Require Import List NArith String Bool Lia Arith FinFun.
From V Require Import Base.Util Base.Strings Base.Result Model.Registry Model.Settings Model.Subst
  Model.TypePath Model.Derives Model.Generate Model.WellFormed Model.Shape Model.Program Model.ProgramSkel
  Model.Program1 Checkers.Parse Checkers.Sem
  Proofs.GenProofs Proofs.FidelityBase Proofs.ResolveTotal Proofs.GenTotal Proofs.ClosedProofs
  Proofs.SourceRoundTrip Proofs.FidelityGen Proofs.SourceSkeleton Proofs.Ident1 Proofs.SourceRoundTrip1.
Import ListNotations.
Open Scope string_scope. Open Scope list_scope.

Section Full1.
  Variable defs : list sdef.
  Variable L : N -> option src.
  Variable r : registry.
  Variable s : settings.
  Variable otp : bool -> tpath.
  Hypothesis HR : RegistryOf1 defs L r.
  Hypothesis Hdefs : forall sd, In sd defs -> def_okb s sd = true.
  Hypothesis Hprel : prelude_okb s = true.
  Hypothesis Hord : order_resolves s otp.

  Variable d : nat.
  Variable sd : sdef.
  Variable args : list src.
  Hypothesis Hsd : nth_error defs d = Some sd.
  Hypothesis Hcf : instantiation_cf1 defs sd args = true.
  Hypothesis Hfrag : forallb (fun f => no_cow_cow (sf_ty f)) (def_sfields sd) = true.
  Hypothesis Hcompact : compact_fields_okb1 defs sd args = true.
  Hypothesis Hbox : box_names_okb defs sd = true.

  Variable t : ty.
  Hypothesis Hent : content_of1 defs L r (SApp d args) t.

  Let parents := params_from_scale_info (t_params t).
  Let pnames := map fst (sd_params sd).
  Let nf := normal_field defs s otp.

  Lemma Hfield1 sf f fi :
    In sf (def_sfields sd) -> field_of1 defs L pnames args sf f -> field_ir_of r s parents f = Ok fi ->
    erase_fi fi = nf sf.
  Proof.
    exact (field_skeleton1 defs L r s otp HR Hdefs Hprel Hord d sd args Hsd Hcf Hfrag Hcompact Hbox t Hent sf f fi).
  Qed.

  Lemma all_named_src1 : forall fs fl,
    Forall2 (field_of1 defs L pnames args) fs fl -> all_named fl = forallb sf_named fs.
  Proof.
    induction 1 as [|sf f fs fl (Hn & _) _ IH]; [reflexivity|].
    unfold all_named in *. cbn [forallb]. rewrite IH. unfold sf_named at 1. rewrite Hn. reflexivity.
  Qed.

  Lemma cck_kind1 fs fl u k u' :
    (forall sf, In sf fs -> In sf (def_sfields sd)) ->
    Forall2 (field_of1 defs L pnames args) fs fl ->
    create_composite_ir_kind r s fl parents u = Ok (k, u') ->
    erase_ckind k = src_ckind defs s otp fs.
  Proof.
    intros Hin Hfl Hc.
    pose proof (cck_fields _ _ _ _ _ _ _ Hc) as Hfi.
    assert (Hnf : Forall2 (fun sf fi => erase_fi fi = nf sf) fs (ckind_fields k)).
    { eapply (Forall2_trans_In _ _ _ fs fl _ Hfl Hfi). intros a b c Ha Hab Hbc. eapply Hfield1; eauto. }
    pose proof (all_named_src1 _ _ Hfl) as Han.
    unfold create_composite_ir_kind in Hc.
    destruct fl as [|f0 fl0].
    { inversion Hfl; subst. inversion Hc; subst. reflexivity. }
    destruct fs as [|sf0 fs0]; [inversion Hfl|].
    destruct (negb (all_named (f0 :: fl0) || all_unnamed (f0 :: fl0))); [discriminate|].
    unfold src_ckind. rewrite <- Han.
    destruct (all_named (f0 :: fl0)).
    - apply bind_ok in Hc as (l & Hl & Hc). inversion Hc; subst k u'. cbn [erase_ckind]. f_equal.
      cbn [ckind_fields] in Hnf. apply Forall2_map_r in Hnf.
      apply mapM_ok_Forall2 in Hl.
      assert (Hnm : Forall2 (fun sf x => fst x = sf_ident sf) (sf0 :: fs0) l).
      { eapply (Forall2_trans_In _ _ _ _ _ _ Hfl Hl). intros a b c _ (Hname & _) Hbc.
        apply bind_ok in Hbc as (id & Hid & Hbc). apply bind_ok in Hbc as (fi & _ & Hbc). inversion Hbc; subst c.
        cbn [fst]. apply parse_ident_ok in Hid. rewrite Hid, Hname. reflexivity. }
      symmetry. apply map_eq_Forall2.
      eapply Forall2_impl; [|exact (Forall2_conj _ _ _ _ Hnm Hnf)].
      intros a b [H1 H2]. cbv beta. rewrite H1, H2. reflexivity.
    - apply bind_ok in Hc as (l & Hl & Hc). inversion Hc; subst k u'. cbn [erase_ckind]. f_equal.
      cbn [ckind_fields] in Hnf. symmetry. apply map_eq_Forall2.
      eapply Forall2_impl; [|exact Hnf]. intros a b H. symmetry. exact H.
  Qed.

  Lemma variants_kind1 : forall vs vl,
    Forall2 (fun (v : string * N * list sfield) (vr : variant) =>
               v_name vr = fst (fst v) /\ v_index vr = snd (fst v) /\
               Forall2 (field_of1 defs L pnames args) (snd v) (v_fields vr)) vs vl ->
    forall u l u',
    (forall v, In v vs -> forall sf, In sf (snd v) -> In sf (def_sfields sd)) ->
    variants_ir r s parents vl u = Ok (l, u') ->
    map (fun x : N * composite_ir => (fst x, erase_ci (snd x))) l =
    map (fun v : string * N * list sfield =>
           (snd (fst v), mk_ci (fst (fst v)) (src_ckind defs s otp (snd v)) [])) vs.
  Proof.
    induction 1 as [|v vr vs vl (Hn & Hi & Hf) Hvl IH]; intros u l u' Hin H.
    - cbn in H. inversion H; subst. reflexivity.
    - rewrite variants_ir_cons in H. apply bind_ok in H as (vn & Hvn & H).
      apply bind_ok in H as ([k u1] & Hk & H). apply bind_ok in H as ([l' u2] & Hrest & H).
      cbn [fst snd] in H, Hk, Hrest. inversion H; subst l u'. cbn [map fst snd]. f_equal.
      + unfold erase_ci. cbn [ci_name ci_kind]. apply parse_ident_ok in Hvn. rewrite Hvn, Hn, Hi.
        rewrite (cck_kind1 (snd v) (v_fields vr) u k u1 (Hin v (or_introl eq_refl)) Hf Hk). reflexivity.
      + apply (IH _ _ _ (fun v' Hv' => Hin v' (or_intror Hv')) Hrest).
  Qed.

  (** C05_skeleton_is_source1: the erased IR of the instantiation is [ir_of_source] of the definition *)
  Theorem skeleton_full1 flat ir :
    create_type_ir r s t flat = Ok (Some ir) -> erase_ids ir = ir_of_source defs s otp sd.
  Proof.
    intros Hc.
    destruct (skeleton_is_source1 defs L r s otp HR Hdefs Hprel Hord d sd args Hsd Hcf Hfrag Hcompact Hbox
                t Hent flat ir Hc) as (Hidx & Hfields).
    destruct (ir_unused_eq _ _ _ _ _ Hc) as (Hpar & Hcodec & Hun).
    destruct (ent_inv1 defs L r d sd args Hsd t Hent) as (Hpath & Hlen & Hps & Hbody).
    fold pnames in Hbody.
    assert (Hidx' : map tpi_idx parents = map N.of_nat (generics_of sd)) by (unfold parents; rewrite <- Hpar; exact Hidx).
    unfold erase_ids, ir_of_source. f_equal.
    - rewrite Hpar. apply positions_eq. exact Hidx'.
    - rewrite Hun, Hpar. fold parents. unfold mark_used, unused_generics.
      apply filter_positions; [exact Hidx'|]. intros p Hp. f_equal.
      set (U := flat_map pp_fi (kind_fields (ti_kind ir))).
      assert (HUin : forall q, In q U -> In q parents) by (apply (ir_used_in_parents _ _ _ _ _ Hc)).
      assert (HUidx : map tpi_idx U = map N.of_nat (body_params defs (sd_body sd))).
      { rewrite body_params_fields. unfold U. apply map_flat_map_Forall2.
        eapply Forall2_impl; [|exact Hfields]. intros sf fi H. unfold pp_fi.
        rewrite <- pp_erase. change (erase_tpath (fi_path fi)) with (fi_path (erase_fi fi)). rewrite H.
        apply pp_normal_field. exact (otp_pp s otp Hord). }
      assert (HND : NoDup (map tpi_idx parents)).
      { rewrite Hidx'. apply FinFun.Injective_map_NoDup; [intros a b; apply Nat2N.inj|apply generics_NoDup]. }
      apply eq_true_iff_eq. rewrite !existsb_exists. split.
      + intros (q & Hq & E). apply tpi_eqb_eq in E. subst q.
        assert (Hi : In (tpi_idx p) (map N.of_nat (body_params defs (sd_body sd)))) by (rewrite <- HUidx; apply in_map; exact Hq).
        apply in_map_iff in Hi as (b & Hb & Hi). exists b. split; [exact Hi|]. rewrite <- Hb, Nat2N.id. apply Nat.eqb_refl.
      + intros (b & Hb & E). apply Nat.eqb_eq in E. subst b.
        assert (Hi : In (tpi_idx p) (map tpi_idx U)).
        { rewrite HUidx. rewrite <- (N2Nat.id (tpi_idx p)). apply in_map. exact Hb. }
        apply in_map_iff in Hi as (q & Hq & Hi). exists q. split; [exact Hi|].
        apply tpi_eqb_eq. apply (NoDup_map_inj tpi_idx parents); auto.
    - exact Hcodec.
    - destruct (create_type_ir_inv _ _ _ _ _ Hc) as (_ & _ & nm & Hnm & Hk). fold parents in Hk.
      apply path_ident_last in Hnm. rewrite Hpath in Hnm. subst nm.
      destruct Hk as [(fs' & k & u & Hd & Hcc & Hkind & _)|(vs' & l & u & Hd & Hcc & Hkind & _)]; rewrite Hkind.
      + destruct (sd_body sd) as [fs|vs] eqn:Eb.
        2:{ destruct Hbody as (vl & Hd' & _). congruence. }
        destruct Hbody as (fl & Hd' & Hfl). rewrite Hd' in Hd. inversion Hd; subst fs'.
        cbn [erase_kind]. unfold erase_ci. cbn [ci_name ci_kind]. f_equal. f_equal.
        apply (cck_kind1 fs fl parents k u); [|exact Hfl|exact Hcc].
        intros sf Hsf. unfold def_sfields. rewrite Eb. exact Hsf.
      + destruct (sd_body sd) as [fs|vs] eqn:Eb.
        { destruct Hbody as (fl & Hd' & _). congruence. }
        destruct Hbody as (vl & Hd' & Hvl). rewrite Hd' in Hd. inversion Hd; subst vs'.
        cbn [erase_kind]. f_equal.
        apply (variants_kind1 vs vl Hvl parents l u); [|exact Hcc].
        intros v Hv sf Hsf. unfold def_sfields. rewrite Eb. apply in_flat_map. exists v. split; assumption.
  Qed.
End Full1.

(** the statement on [entry_of1]: the label of the entry may carry outer boxes
    ([Box<Box<Foo<T>>>]: a separate entry with the content of [Foo<T>]) *)
Theorem skeleton_full1_entry defs L r s (otp : bool -> tpath) :
  RegistryOf1 defs L r -> (forall sd, In sd defs -> def_okb s sd = true) ->
  prelude_okb s = true -> order_resolves s otp ->
  forall d sd args, nth_error defs d = Some sd ->
  instantiation_cf1 defs sd args = true ->
  forallb (fun f => no_cow_cow (sf_ty f)) (def_sfields sd) = true ->
  compact_fields_okb1 defs sd args = true -> box_names_okb defs sd = true ->
  forall c t, peel1 c = SApp d args -> entry_of1 defs L r c t ->
  forall flat ir, create_type_ir r s t flat = Ok (Some ir) ->
  erase_ids ir = ir_of_source defs s otp sd.
Proof.
  intros HR Hdefs Hprel Hord d sd args Hsd Hcf Hfrag Hco Hbox c t Hc He flat ir Hir.
  unfold entry_of1 in He. rewrite Hc in He.
  exact (skeleton_full1 defs L r s otp HR Hdefs Hprel Hord d sd args Hsd Hcf Hfrag Hco Hbox t He flat ir Hir).
Qed.

(** ** two instantiations of one definition have the same erased IR *)
Theorem one_item_full1 defs L r s (otp : bool -> tpath) :
  RegistryOf1 defs L r -> (forall sd, In sd defs -> def_okb s sd = true) ->
  prelude_okb s = true -> order_resolves s otp ->
  forall d sd, nth_error defs d = Some sd ->
  forallb (fun f => no_cow_cow (sf_ty f)) (def_sfields sd) = true -> box_names_okb defs sd = true ->
  forall args1 args2 t1 t2 flat1 flat2 ir1 ir2,
  instantiation_cf1 defs sd args1 = true -> compact_fields_okb1 defs sd args1 = true ->
  instantiation_cf1 defs sd args2 = true -> compact_fields_okb1 defs sd args2 = true ->
  entry_of1 defs L r (SApp d args1) t1 -> entry_of1 defs L r (SApp d args2) t2 ->
  create_type_ir r s t1 flat1 = Ok (Some ir1) -> create_type_ir r s t2 flat2 = Ok (Some ir2) ->
  erase_ids ir1 = erase_ids ir2.
Proof.
  intros HR Hdefs Hprel Hord d sd Hsd Hfrag Hbox args1 args2 t1 t2 flat1 flat2 ir1 ir2
         Hcf1 Hco1 Hcf2 Hco2 He1 He2 Hc1 Hc2.
  rewrite (skeleton_full1 defs L r s otp HR Hdefs Hprel Hord d sd args1 Hsd Hcf1 Hfrag Hco1 Hbox t1 He1 flat1 ir1 Hc1).
  rewrite (skeleton_full1 defs L r s otp HR Hdefs Hprel Hord d sd args2 Hsd Hcf2 Hfrag Hco2 Hbox t2 He2 flat2 ir2 Hc2).
  reflexivity.
Qed.

(** ** registries of programs are skeleton-consistent *)
Section ProgramConsistent1.
  Variable defs : list sdef.
  Variable L : N -> option src.
  Variable r : registry.
  Variable s : settings.
  Variable otp : bool -> tpath.
  Hypothesis HR : RegistryOf1 defs L r.
  Hypothesis Hprel : prelude_okb s = true.
  Hypothesis Hord : order_resolves s otp.
  Hypothesis Hdefs : forall sd, In sd defs ->
    def_okb s sd = true /\ forallb (fun f => no_cow_cow (sf_ty f)) (def_sfields sd) = true /\
    box_names_okb defs sd = true /\ forall lsb, sd_path sd <> order_path_of lsb.
  Hypothesis Hpaths : forall d1 d2 sd1 sd2,
    nth_error defs d1 = Some sd1 -> nth_error defs d2 = Some sd2 -> sd_path sd1 = sd_path sd2 -> d1 = d2.
  (** every interned instantiation (whatever boxes its label carries) is coincidence-free *)
  Hypothesis Hinst : forall id c d args sd,
    L id = Some c -> peel1 c = SApp d args -> nth_error defs d = Some sd ->
    instantiation_cf1 defs sd args = true /\ compact_fields_okb1 defs sd args = true.
  Hypothesis Hir : forall id X, In (id, X) r -> item_eligible s X = true ->
    exists ir, create_type_ir r s X flat0 = Ok (Some ir).

  Lemma entry_eligible1 c X : content_of1 defs L r c X -> item_eligible s X = true -> exists d args, c = SApp d args.
  Proof.
    intros He Hel. unfold item_eligible in Hel.
    destruct c; cbn [content_of1] in He.
    - destruct He.
    - eauto.
    - destruct He as (e & (Hp & _ & Hd) & _). rewrite Hd in Hel. discriminate.
    - destruct He.
    - destruct He as (e & (Hp & _ & Hd) & _). rewrite Hd in Hel. discriminate.
    - destruct He as (e & (Hp & _ & Hd) & _). rewrite Hd in Hel. discriminate.
    - destruct He as (Hp & _ & Hd). rewrite Hd in Hel. discriminate.
    - destruct He as (e & (Hp & _ & Hd) & _). rewrite Hd in Hel. discriminate.
    - destruct He.
    - destruct He as (e & _ & Hp & _). rewrite Hp, andb_false_r in Hel. discriminate.
    - destruct He as (x & y & _ & _ & Hp & _). rewrite Hp, andb_false_r in Hel. discriminate.
    - destruct He as (ik & iv & iseq & _ & _ & _ & Hp & _). rewrite Hp, andb_false_r in Hel. discriminate.
    - destruct He as (e & iseq & _ & _ & Hp & _). rewrite Hp, andb_false_r in Hel. discriminate.
    - destruct He as (e & _ & Hp & _). rewrite Hp, andb_false_r in Hel. discriminate.
    - destruct He as (e & _ & Hp & _). rewrite Hp, andb_false_r in Hel. discriminate.
    - destruct He as (ist & io & ot & (Hp & _ & Hd) & _). rewrite Hd in Hel. discriminate.
  Qed.

  (** an item-eligible entry is an instantiation of a definition or a bit-order marker *)
  Lemma eligible_cases1 id X :
    In (id, X) r -> item_eligible s X = true ->
    (exists k c d args sd, L k = Some c /\ peel1 c = SApp d args /\ nth_error defs d = Some sd /\
                           content_of1 defs L r (SApp d args) X /\ t_path X = sd_path sd) \/
    (exists lsb, order_marker lsb X).
  Proof.
    intros Hin Hel. apply In_nth_error in Hin as (k & Hk).
    assert (Hres : resolve r (N.of_nat k) = Some X) by (unfold resolve; rewrite Nat2N.id, Hk; reflexivity).
    destruct HR as (H1 & H2 & _).
    destruct (L (N.of_nat k)) as [c|] eqn:El.
    - left. destruct (H1 _ _ El) as (_ & t & Hr & He). rewrite Hres in Hr. inversion Hr; subst t.
      unfold entry_of1 in He.
      destruct (entry_eligible1 _ X He Hel) as (d & args & Ec). rewrite Ec in He.
      pose proof He as He'. cbn [content_of1] in He'. destruct He' as (sd & Hsd & Hp & _).
      exists (N.of_nat k), c, d, args, sd. auto.
    - right. exact (H2 _ _ Hres El).
  Qed.

  Theorem program_skeleton_consistent1 : skeleton_consistent r s.
  Proof.
    intros id X id0 X0 Hin Hel Hfirst.
    destruct (first_eligible_some _ _ _ _ _ Hfirst) as (Hin0 & Hp0 & Hel0).
    destruct (eligible_cases1 id X Hin Hel) as [(k & c & d & args & sd & Hl & Hc & Hsd & He & Hp)|(lsb & Hm)];
      destruct (eligible_cases1 id0 X0 Hin0 Hel0) as [(k0 & c0 & d0 & args0 & sd0 & Hl0 & Hc0' & Hsd0 & He0 & Hp')|(lsb0 & Hm0)].
    - assert (d0 = d) by (apply (Hpaths d0 d sd0 sd Hsd0 Hsd); congruence). subst d0.
      assert (sd0 = sd) by congruence. subst sd0.
      destruct (Hir id X Hin Hel) as (ir & Hc1). destruct (Hir id0 X0 Hin0 Hel0) as (ir0 & Hc0).
      unfold skeleton. rewrite Hc1, Hc0. f_equal.
      destruct (Hdefs sd (nth_error_In _ _ Hsd)) as (_ & Hfrag & Hbox & _).
      destruct (Hinst k c d args sd Hl Hc Hsd) as (Hcf & Hco).
      destruct (Hinst k0 c0 d args0 sd Hl0 Hc0' Hsd) as (Hcf0 & Hco0).
      apply (one_item_full1 defs L r s otp HR (fun sd' H => proj1 (Hdefs sd' H)) Hprel Hord d sd Hsd Hfrag Hbox
               args args0 X X0 flat0 flat0 ir ir0); assumption.
    - exfalso. destruct Hm0 as (Hpm & _). destruct (Hdefs sd (nth_error_In _ _ Hsd)) as (_ & _ & _ & Hno).
      apply (Hno lsb0). unfold order_path_of. congruence.
    - exfalso. destruct Hm as (Hpm & _). destruct (Hdefs sd0 (nth_error_In _ _ Hsd0)) as (_ & _ & _ & Hno).
      apply (Hno lsb). unfold order_path_of. congruence.
    - destruct Hm as (Hpm & Hps & Hd), Hm0 as (Hpm0 & Hps0 & Hd0).
      apply skeleton_ext; congruence.
  Qed.
End ProgramConsistent1.

(** program-derived REAL registries satisfy the hypothesis of [C01_fidelity] *)
Theorem program_faithful1 defs L r s (otp : bool -> tpath) teq m :
  RegistryOf1 defs L r -> prelude_okb s = true -> order_resolves s otp ->
  (forall sd, In sd defs ->
     def_okb s sd = true /\ forallb (fun f => no_cow_cow (sf_ty f)) (def_sfields sd) = true /\
     box_names_okb defs sd = true /\ forall lsb, sd_path sd <> order_path_of lsb) ->
  (forall d1 d2 sd1 sd2,
     nth_error defs d1 = Some sd1 -> nth_error defs d2 = Some sd2 -> sd_path sd1 = sd_path sd2 -> d1 = d2) ->
  (forall id c d args sd,
     L id = Some c -> peel1 c = SApp d args -> nth_error defs d = Some sd ->
     instantiation_cf1 defs sd args = true /\ compact_fields_okb1 defs sd args = true) ->
  Shape.root_fresh s -> generate r s teq = Ok m -> Faithful r s m.
Proof.
  intros HR Hprel Hord Hdefs Hpaths Hinst Hroot Hgen.
  apply (generate_faithful r s teq m); [|exact Hroot|exact Hgen].
  apply (program_skeleton_consistent1 defs L r s otp HR Hprel Hord Hdefs Hpaths Hinst).
  intros id X Hin Hel. pose proof Hgen as Hg. unfold generate in Hg.
  apply bind_ok in Hg as (u & _ & Hg). apply bind_ok in Hg as (flat & _ & Hg).
  destruct (gen_loop_all_ok r s teq flat r [] m Hg id X Hin Hel) as (ir & Hc).
  destruct (create_type_ir_flat r s X flat flat0 ir Hc) as (ir' & Hc' & _). eauto.
Qed.
