(** C17, restriction with the REAL comparison.  [C17_restriction_outcome] asks the comparison oracle
    of the restricted run to judge every retained family equal ([fam_equal]) and remarks that this
    cannot be derived from the full run, because there the members are compared with the first
    member in the FULL order, which may have been dropped.  When [types_equal] is an equivalence on
    every family of the full registry it can: pairwise verdicts follow from "equal to the first",
    they are invariant under the renumbering ([types_equal_res_renumber]) and under cutting the
    registry after a closed prefix ([types_equal_prefix]: a successful comparison in a prefix is
    the same successful comparison in the whole registry, also with more fuel). *)
From Coq Require Import List NArith String Bool Lia.
From V Require Import Base.Strings Base.Result Model.Registry Model.Settings Model.Subst
  Model.TypePath Model.Derives Model.Generate Model.Emit Model.Equal Model.Shape Model.WellFormed
  Model.DedupSpec Model.Renumber Model.Families Model.DedupPerm
  Proofs.GenProofs Proofs.ResolveTotal Proofs.GenTotal Proofs.EqualSound Proofs.FidelityGen Proofs.KeepFirst
  Proofs.RenumberPerm Proofs.PermFamilies Proofs.Restriction Proofs.RestrictionOutcome
  Proofs.TeqEquivariance Proofs.DedupPerm Proofs.GenerateOkTransfer.
Import ListNotations.
Open Scope list_scope.

(** ** a successful comparison survives more entries and more fuel *)
Lemma compare_fields_mono rec1 rec2 ap bp :
  (forall x y st z, rec1 x y st = Ok z -> rec2 x y st = Ok z) ->
  forall fa fb st z, compare_fields_with rec1 ap bp fa fb st = Ok z ->
                     compare_fields_with rec2 ap bp fa fb st = Ok z.
Proof.
  intros H fa fb st z. unfold compare_fields_with.
  destruct (negb (opt_str_eqb (f_name fa) (f_name fb))); [auto|].
  destruct (f_type_name fa) as [na|]; [|apply H].
  destruct (f_type_name fb) as [nb|]; [|apply H].
  destruct (match index_for_type_id ap (f_ty fa), index_for_type_id bp (f_ty fb) with
            | Some _, Some _ => false
            | _, _ => true
            end); [apply H|auto].
Qed.

Lemma fields_equal_mono rec1 rec2 ap bp :
  (forall x y st z, rec1 x y st = Ok z -> rec2 x y st = Ok z) ->
  forall fa fb st z, fields_equal_with rec1 ap bp fa fb st = Ok z ->
                     fields_equal_with rec2 ap bp fa fb st = Ok z.
Proof.
  intros H fa fb st z. unfold fields_equal_with.
  destruct (negb (Nat.eqb (List.length fa) (List.length fb))); [auto|].
  apply all2_mono. apply compare_fields_mono. exact H.
Qed.

Lemma teq_def_mono rec1 rec2 ap bp ta tb :
  (forall x y st z, rec1 x y st = Ok z -> rec2 x y st = Ok z) ->
  forall st z, teq_def rec1 ap bp ta tb st = Ok z -> teq_def rec2 ap bp ta tb st = Ok z.
Proof.
  intros H st z. unfold teq_def.
  destruct (t_def ta) as [fa|va|x|la x|xs|p|x|sa oa]; destruct (t_def tb) as [fb|vb|y|lb y|ys|q|y|sb ob];
    try (intros E; exact E).
  - apply fields_equal_mono. exact H.
  - destruct (negb (Nat.eqb (List.length va) (List.length vb))); [auto|].
    apply all2_mono. intros v w st0 z0.
    destruct (String.eqb (v_name v) (v_name w) && N.eqb (v_index v) (v_index w)); [|auto].
    apply fields_equal_mono. exact H.
  - apply H.
  - destruct (N.eqb la lb); [apply H|auto].
  - destruct (negb (Nat.eqb (List.length xs) (List.length ys))); [auto|]. apply all2_mono. exact H.
  - apply H.
  - intros E. apply bind_ok in E as (o & Eo & E). apply bind_ok in E as (s' & Es & E).
    rewrite (H _ _ _ _ Eo). cbn [bind]. rewrite (H _ _ _ _ Es). cbn [bind]. exact E.
Qed.

Lemma resolve_app1 (r1 r2 : registry) id t : resolve r1 id = Some t -> resolve (r1 ++ r2) id = Some t.
Proof.
  unfold resolve. destruct (nth_error r1 (N.to_nat id)) as [[i t0]|] eqn:E; [|discriminate].
  rewrite nth_error_app1 by (apply nth_error_Some; congruence). rewrite E. auto.
Qed.

Lemma teq_prefix r1 r2 : forall (F1 F : nat) a ap b bp st z,
  (F1 <= F)%nat -> teq r1 F1 a ap b bp st = Ok z -> teq (r1 ++ r2) F a ap b bp st = Ok z.
Proof.
  induction F1 as [|F1 IH]; intros F a ap b bp st z Hle H; [discriminate|].
  destruct F as [|F]; [lia|]. rewrite teq_S in *.
  destruct (N.eqb a b); [exact H|]. cbv zeta in *.
  destruct (negb (Bool.eqb (mem_N a (fst st)) (mem_N b (snd st)))); [exact H|].
  destruct (mem_N a (fst st) && mem_N b (snd st)); [exact H|].
  destruct (resolve r1 a) as [ta|] eqn:Ea; [|discriminate].
  destruct (resolve r1 b) as [tb|] eqn:Eb; [|discriminate].
  rewrite (resolve_app1 r1 r2 _ _ Ea), (resolve_app1 r1 r2 _ _ Eb).
  destruct (opt_nat_eqb (index_for_type_id ap a) (index_for_type_id bp b)); [exact H|].
  destruct (negb (path_eqb (t_path ta) (t_path tb))); [exact H|].
  destruct (negb (Nat.eqb (List.length (param_ids ta)) (List.length (param_ids tb)))); [exact H|].
  eapply teq_def_mono; [|exact H]. intros x y st0 z0. apply IH. lia.
Qed.

Theorem types_equal_prefix r1 r2 a b x :
  types_equal_res r1 a b = Ok x -> types_equal_res (r1 ++ r2) a b = Ok x.
Proof.
  unfold types_equal_res. intros H. apply bind_ok in H as (z & Hz & H).
  assert (Hle : (S (S (List.length r1)) <= S (S (List.length (r1 ++ r2))))%nat) by (rewrite app_length; lia).
  rewrite (teq_prefix r1 r2 _ _ _ _ _ _ _ z Hle Hz). exact H.
Qed.

(** ** the restricted run with its own [types_equal] *)
Lemma ids_consistent_firstn k (l : registry) : ids_consistent l = true -> ids_consistent (firstn k l) = true.
Proof.
  intros H. rewrite ids_consistent_iff in *. intros i e Hi. apply H.
  rewrite <- (firstn_skipn k l). rewrite nth_error_app1; [exact Hi|]. apply nth_error_Some. congruence.
Qed.

Theorem fam_equal_real pi k r s m :
  renumbering (N.of_nat (List.length r)) pi -> closed (restrict pi k r) ->
  teq_equiv_on_families r -> generate r s (types_equal r) = Ok m ->
  fam_equal (restrict pi k r) s (types_equal (restrict pi k r)).
Proof.
  intros Hpi Hcl Heq G.
  destruct (generate_ok_parts _ _ _ _ G) as (Hc & Hs & flat & Hf & Hok).
  assert (Hall : Forall (fun c : cmp => types_equal r (fst (fst c)) (snd (fst c)) = Ok true) (comparisons r s)).
  { apply (generate_ok_iff r s (types_equal r) flat Hs Hf Hok). eauto. }
  pose proof (renumber_ids_consistent pi r Hpi Hc) as Hc'.
  pose proof (ids_consistent_firstn k _ Hc') as Hcr. fold (restrict pi k r) in Hcr.
  intros id1 t1 id2 t2 H1 H2 E1 E2 Hp.
  assert (Hin1 : in_reg (restrict pi k r) id1).
  { eapply resolve_some_in_reg. apply (ids_consistent_In _ _ _ Hcr H1). }
  assert (Hin2 : in_reg (restrict pi k r) id2).
  { eapply resolve_some_in_reg. apply (ids_consistent_In _ _ _ Hcr H2). }
  destruct (types_equal_total (restrict pi k r) Hcl id2 id1 Hin2 Hin1) as (x & Hx).
  rewrite Hx. f_equal.
  pose proof (types_equal_prefix (restrict pi k r) (dropped pi k r) id2 id1 x Hx) as Hfull.
  unfold restrict, dropped in Hfull. rewrite firstn_skipn in Hfull.
  assert (R1 : In (id1, t1) (renumber pi r)).
  { unfold restrict in H1. rewrite <- (firstn_skipn k (renumber pi r)). apply in_or_app. left; exact H1. }
  assert (R2 : In (id2, t2) (renumber pi r)).
  { unfold restrict in H2. rewrite <- (firstn_skipn k (renumber pi r)). apply in_or_app. left; exact H2. }
  apply (in_renumber pi r _ Hpi) in R1 as ([i X] & Hi & Ei).
  apply (in_renumber pi r _ Hpi) in R2 as ([j Y] & Hj & Ej).
  unfold rename_entry in Ei, Ej. cbn [fst snd] in Ei, Ej. inversion Ei; subst id1 t1. inversion Ej; subst id2 t2.
  rewrite item_eligible_rename in E1, E2.
  change (t_path (rename_ty pi X)) with (t_path X) in Hp.
  change (t_path (rename_ty pi Y)) with (t_path Y) in Hp.
  rewrite (types_equal_res_renumber pi r Hpi) in Hfull.
  pose proof (comparisons_pairwise r s Hc Heq Hall j Y i X Hj Hi E2 E1 (eq_sym Hp)) as Et.
  congruence.
Qed.

Theorem restriction_outcome_real pi k r s m :
  renumbering (N.of_nat (List.length r)) pi ->
  skeleton_consistent r s -> docs_consistent r s -> derives_functional s ->
  no_outside_roots (dr_recursive (s_dreg s)) (dropped pi k r) ->
  closed (restrict pi k r) ->
  teq_equiv_on_familiesb r = true ->
  generate r s (types_equal r) = Ok m ->
  exists m', generate (restrict pi k r) s (types_equal (restrict pi k r)) = Ok m' /\
    forall p id' ir', items_get m' p = Some (id', ir') ->
      exists id ir, items_get m p = Some (id, ir) /\ type_ir_tokens s ir' = type_ir_tokens s ir.
Proof.
  intros Hpi Hsk Hdc Hdf Hout Hcl Hb G.
  apply (restriction_outcome pi k r s (types_equal r) (types_equal (restrict pi k r)) m Hpi Hsk Hdc Hdf Hout Hcl);
    [|exact G].
  apply (fam_equal_real pi k r s m Hpi Hcl (teq_equiv_on_familiesb_sound r Hb) G).
Qed.
