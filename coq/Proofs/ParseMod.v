(** C02 (emit-parses), part 3: [parse_module] of [Checkers/Parse.v] reads the tokens
    printed by [emit_module] back into [pmod_of_items]. *)
From Coq Require Import List NArith String Ascii Bool Lia Arith.
From V Require Import Base.Util Base.Strings Base.Result Model.Registry Model.Settings Model.Subst
  Model.TypePath Model.Derives Model.Generate Model.Emit Model.WellFormed Checkers.Parse
  Model.Unparse Proofs.TpMap Proofs.ParseEq Proofs.ParseTy Proofs.ParseItem.
Import ListNotations.
Open Scope nat_scope. Open Scope string_scope. Open Scope list_scope.

(** how an element of a module body starts *)
Definition starts_mod (t : tokens) : Prop :=
  forall r, hd_is "}" (t ++ r) = false /\ (hd_is "pub" (t ++ r) && hd_is "mod" (tl (t ++ r))) = true.
Definition starts_item (t : tokens) : Prop :=
  forall r, hd_is "}" (t ++ r) = false /\ (hd_is "pub" (t ++ r) && hd_is "mod" (tl (t ++ r))) = false /\
            hd_is ";" (t ++ r) = false.

Lemma starts_mod_ne t : starts_mod t -> 1 <= List.length t.
Proof.
  intros H. destruct t as [|x t]; [|cbn [List.length]; lia].
  destruct (H []) as [_ H2]. discriminate H2.
Qed.

Lemma starts_item_ne t : starts_item t -> 1 <= List.length t.
Proof.
  intros H. destruct t as [|x t]; [|cbn [List.length]; lia].
  destruct (H ["}"]) as [H1 _]. discriminate H1.
Qed.

Section Loops.
  Variables (pf' : nat) (name root : string).

  Lemma mods_loop {H : Type} (P : H -> pmod) : forall (hs : list H) mts,
    Forall2 (fun h mt => starts_mod mt /\
                         forall rest, parse_mod pf' (mt ++ rest) = Some (P h, rest)) hs mts ->
    forall k more accm, List.length hs < k ->
    mod_body pf' (S pf') name root k (List.concat mts ++ more) accm [] =
    mod_body pf' (S pf') name root (k - List.length hs) more (rev (map P hs) ++ accm) [].
  Proof.
    induction 1 as [|h mt hs mts [Hs Hp] Hrest IH]; intros k more accm Hk.
    - cbn [List.concat app List.length map rev]. rewrite Nat.sub_0_r. reflexivity.
    - destruct k as [|k]; [cbn [List.length] in Hk; lia|].
      cbn [List.concat]. rewrite <- app_assoc. rewrite mod_body_S.
      destruct (Hs (List.concat mts ++ more)) as [H1 H2]. rewrite H1, H2, Hp.
      rewrite IH by (cbn [List.length] in Hk; lia).
      cbn [List.length map rev Nat.sub]. rewrite <- app_assoc. reflexivity.
  Qed.

  Lemma items_loop {E : Type} (I : E -> pitem) rest : forall (es : list E) tys,
    Forall2 (fun e ty => starts_item ty /\
                         forall r, hd_is ";" r = false ->
                                   parse_item (S pf') (ty ++ r) = Some (I e, r)) es tys ->
    forall k accm acci, List.length es < k ->
    mod_body pf' (S pf') name root k (List.concat tys ++ "}" :: rest) accm acci =
    Some (PMod name root (rev accm) (rev acci ++ map I es), rest).
  Proof.
    induction 1 as [|e ty es tys [Hs Hp] Hrest IH]; intros k accm acci Hk.
    - destruct k as [|k]; [cbn [List.length] in Hk; lia|].
      cbn [List.concat app map]. rewrite mod_body_S. cbn [hd_is tl].
      replace (teq "}" "}") with true by reflexivity. rewrite app_nil_r. reflexivity.
    - destruct k as [|k]; [cbn [List.length] in Hk; lia|].
      cbn [List.concat]. rewrite <- app_assoc. rewrite mod_body_S.
      destruct (Hs (List.concat tys ++ "}" :: rest)) as (H1 & H2 & _). rewrite H1, H2.
      rewrite Hp.
      + rewrite IH by (cbn [List.length] in Hk; lia).
        cbn [rev map]. rewrite <- app_assoc. reflexivity.
      + destruct Hrest as [|e2 ty2 es2 tys2 [Hs2 _] _]; [reflexivity|].
        cbn [List.concat]. rewrite <- app_assoc. apply (Hs2 _).
  Qed.
End Loops.

Lemma F2_length {A B : Type} (R : A -> B -> Prop) l l' :
  Forall2 R l l' -> List.length l = List.length l'.
Proof. induction 1; cbn [List.length]; congruence. Qed.

Lemma concat_len_ge (P : tokens -> Prop) (l : list tokens) :
  Forall (fun t => 1 <= List.length t) l -> List.length l <= List.length (List.concat l).
Proof.
  induction 1 as [|t l Ht Hl IH]; [cbn; lia|]. cbn [List.concat List.length]. rewrite app_length. lia.
Qed.

Lemma concat_len_elem (l : list tokens) t : In t l -> List.length t <= List.length (List.concat l).
Proof.
  induction l as [|x l IH]; [intros []|]. cbn [List.concat]. rewrite app_length.
  intros [->|Hin]; [lia|]. specialize (IH Hin). lia.
Qed.

Section Module.
  Variable s : settings.

  Lemma item_starts ir toks :
    type_ir_tokens s ir = Ok toks -> ir_plain s ir = true -> starts_item toks.
  Proof.
    intros H Hp r. unfold ir_plain in Hp. apply andb_prop in Hp as [Hp _]. apply andb_prop in Hp as [_ Hd].
    destruct (item_head s ir toks H Hd r) as (tl & [E|[E|E]]); rewrite E; repeat split; reflexivity.
  Qed.

  Lemma module_starts mf name es toks : module_tokens s mf name es = Ok toks -> starts_mod toks.
  Proof.
    destruct mf as [|mf]; [discriminate|]. cbn [module_tokens]. intros H.
    apply bind_ok in H as (mods & _ & H). apply bind_ok in H as (tys & _ & H). inversion H; subst.
    intros r. split; reflexivity.
  Qed.

  Definition es_plain (es : list entry) : Prop := Forall (fun e => ir_plain s (snd (snd e)) = true) es.

  Lemma under_plain h es : es_plain es -> es_plain (under h es).
  Proof.
    unfold es_plain, under. intros H. apply Forall_forall. intros e He.
    apply in_flat_map in He as (e0 & He0 & He). rewrite Forall_forall in H. specialize (H e0 He0).
    destruct (fst e0) as [|h' [|a tl]]; try destruct He.
    destruct (String.eqb h h'); [|destruct He]. destruct He as [<-|[]]. exact H.
  Qed.

  Lemma here_plain es : es_plain es -> es_plain (here es).
  Proof.
    unfold es_plain, here. intros H. apply Forall_forall. intros e He.
    apply filter_In in He as [He _]. rewrite Forall_forall in H. apply (H e He).
  Qed.

  Theorem mod_parses : forall mf name es toks,
    module_tokens s mf name es = Ok toks -> es_plain es ->
    forall pf rest, List.length toks < pf ->
    parse_mod pf (toks ++ rest) = Some (pmod_of s mf name es, rest).
  Proof.
    induction mf as [|mf IH]; intros name es toks H Hpl pf rest Hf; [discriminate|].
    cbn [module_tokens] in H.
    apply bind_ok in H as (mods & Hmods & H). apply bind_ok in H as (tys & Htys & H).
    inversion H; subst. clear H.
    destruct pf as [|pf']; [lia|].
    cbn [app List.length] in Hf. rewrite !app_length in Hf. cbn [List.length] in Hf.
    cbn [app]. rewrite parse_mod_eq. rewrite <- !app_assoc. cbn [app].
    apply mapM_ok_Forall2 in Hmods, Htys.
    (* child modules *)
    assert (HM : Forall2 (fun h mt => starts_mod mt /\
                            forall rest0, parse_mod pf' (mt ++ rest0) =
                                          Some (pmod_of s mf h (under h es), rest0))
                         (child_names es) mods).
    { assert (HL : forall mt, In mt mods -> List.length mt < pf').
      { intros mt Hin. pose proof (concat_len_elem _ _ Hin). unfold tokens in *. lia. }
      clear Hf. induction Hmods as [|h mt hs mts Hh Hrest IHm]; constructor.
      - split; [eapply module_starts; exact Hh|]. intros rest0.
        apply (IH h (under h es) mt Hh (under_plain h es Hpl)). apply HL. left; reflexivity.
      - apply IHm. intros mt' Hin. apply HL. right; exact Hin. }
    (* items *)
    assert (HI : Forall2 (fun e ty => starts_item ty /\
                            forall r, hd_is ";" r = false ->
                                      parse_item (S pf') (ty ++ r) = Some (item_of_ir s (snd (snd e)), r))
                         (here es) tys).
    { assert (HL : forall ty, In ty tys -> List.length ty < S pf').
      { intros ty Hin. pose proof (concat_len_elem _ _ Hin). unfold tokens in *. lia. }
      pose proof (here_plain es Hpl) as Hhp. clear Hf.
      induction Htys as [|e ty es' tys' He Hrest IHt]; constructor.
      - inversion Hhp as [|e' l' Hep Hl']; subst.
        split; [eapply item_starts; [exact He|exact Hep]|]. intros r Hr.
        apply (item_parses s _ _ He Hep); [apply HL; left; reflexivity|]. intros _ _. exact Hr.
      - inversion Hhp; subst. apply IHt; [intros ty' Hin; apply HL; right; exact Hin|assumption]. }
    assert (Hlm : List.length (child_names es) <= List.length (List.concat mods)).
    { rewrite (F2_length _ _ _ HM). apply (concat_len_ge (fun _ => True)).
      clear - HM. induction HM as [|h mt hs mts [Hs _] _ IHm]; constructor;
        [apply starts_mod_ne; exact Hs|exact IHm]. }
    assert (Hli : List.length (here es) <= List.length (List.concat tys)).
    { pose proof (F2_length _ _ _ HI) as E.
      assert (G : List.length tys <= List.length (List.concat tys)).
      { apply (concat_len_ge (fun _ => True)).
        clear - HI. induction HI as [|e ty es' tys' [Hs _] _ IHt]; constructor;
          [apply starts_item_ne; exact Hs|exact IHt]. }
      unfold entry, tokens in *. lia. }
    rewrite (mods_loop pf' name (s_root s) (fun h => pmod_of s mf h (under h es)) _ _ HM)
      by (unfold tokens in *; lia).
    rewrite (items_loop pf' name (s_root s) (fun e => item_of_ir s (snd (snd e))) rest _ _ HI)
      by (unfold entry, tokens in *; lia).
    cbn [pmod_of rev app]. rewrite app_nil_r, rev_involutive. reflexivity.
  Qed.

  Theorem emit_parses m toks :
    emit_module s m = Ok toks -> items_plain s m = true ->
    parse_module toks = Some (pmod_of_items s m).
  Proof.
    unfold emit_module, pmod_of_items, parse_module. intros H Hp.
    assert (Hes : es_plain (map (fun e : list string * (N * type_ir) => (fst e, (fst e, snd (snd e)))) m)).
    { unfold es_plain. apply Forall_forall. intros e He. apply in_map_iff in He as (e0 & <- & He0).
      cbn [snd]. unfold items_plain in Hp. rewrite forallb_forall in Hp. apply (Hp e0 He0). }
    pose proof (mod_parses _ _ _ _ H Hes (S (List.length toks)) [] (le_n _)) as HP.
    rewrite app_nil_r in HP. rewrite HP. reflexivity.
  Qed.
End Module.
