(** A concrete, non-trivial instance on which the hypotheses of the C08 / C06
    theorems hold (checked by computation): a cyclic graph
    [A { b: Vec<B> }], [B { a: Option<Box<A>> }], a generic root [G<T>] with the
    two instantiations [G<u8>] and [G<A>], a single-[u32] wrapper [W] and a
    struct [H] that mentions both instantiations. *)
From Coq Require Import List NArith String Bool Permutation.
From V Require Import Base.Strings Base.Result Model.Registry Model.Settings Model.Subst
  Model.TypePath Model.Derives Model.Generate Model.Emit Model.Equal Model.Reach
  Model.Builders Proofs.SortDedup Proofs.OrderFree.
Import ListNotations.
Open Scope string_scope. Open Scope list_scope. Open Scope N_scope.

Definition fld (n : string) (ty : N) (tn : string) : field := mk_field (Some n) ty (Some tn) [].
Definition ex_reg : registry :=
  [ (0, mk_ty ["m"; "A"] [] (TDComposite [fld "b" 1 "Vec<B>"]) []);
    (1, mk_ty [] [] (TDSequence 2) []);
    (2, mk_ty ["m"; "B"] [] (TDComposite [fld "a" 3 "Option<Box<A>>"]) []);
    (3, mk_ty ["Option"] [mk_tparam "T" (Some 0)]
              (TDVariant [mk_variant "None" [] 0 [];
                          mk_variant "Some" [mk_field None 0 (Some "T") []] 1 []]) []);
    (4, mk_ty ["m"; "G"] [mk_tparam "T" (Some 6)] (TDComposite [fld "x" 6 "T"]) []);
    (5, mk_ty ["m"; "G"] [mk_tparam "T" (Some 0)] (TDComposite [fld "x" 0 "T"]) []);
    (6, mk_ty [] [] (TDPrimitive PU8) []);
    (7, mk_ty [] [] (TDPrimitive PU32) []);
    (8, mk_ty ["m"; "W"] [] (TDComposite [mk_field None 7 (Some "u32") []]) []);
    (9, mk_ty ["m"; "H"] [] (TDComposite [fld "g1" 4 "G<u8>"; fld "g2" 5 "G<A>"]) []) ].

Definition kt_of (s : string) : kt := (s, [s]).
Definition key_of_path (p : list string) : tykey := mk_tykey (path_key p) p (rel_path p).

(** global [Eq]; [Hash] and [#[a]] for [m::A]; recursive [Clone] on [m::G], recursive
    [Debug] and [#[b]] on [m::B]; CompactAs configured *)
Definition ex_dreg : derives_registry :=
  mk_dreg (mk_derives [kt_of "Eq"] [])
          [(key_of_path ["m"; "A"], mk_derives [kt_of "Hash"] [kt_of "#[a]"])]
          [(key_of_path ["m"; "G"], mk_derives [kt_of "Clone"] []);
           (key_of_path ["m"; "B"], mk_derives [kt_of "Debug"] [kt_of "#[b]"])].
(** the same registrations in another order, with repetitions *)
Definition ex_dreg' : derives_registry :=
  mk_dreg (mk_derives [kt_of "Eq"; kt_of "Eq"] [])
          [(key_of_path ["m"; "A"], mk_derives [kt_of "Hash"] [kt_of "#[a]"; kt_of "#[a]"])]
          [(key_of_path ["m"; "B"], mk_derives [kt_of "Debug"; kt_of "Debug"] [kt_of "#[b]"]);
           (key_of_path ["m"; "G"], mk_derives [kt_of "Clone"] [])].

Definition ex_settings_with (dr : derives_registry) : settings :=
  mk_settings "root" false dr [] None (Some (kt_of "CompactAs")) None true AStd.
Definition ex_settings : settings := ex_settings_with ex_dreg.
Definition ex_settings' : settings := ex_settings_with ex_dreg'.

Definition item_derive_keys (m : items) : list (list string * (list string * list string)) :=
  map (fun e => (fst e, (map fst (sort_dedup (d_derives (ti_derives (snd (snd e))))),
                         map fst (sort_dedup (d_attrs (ti_derives (snd (snd e)))))))) m.

(** hypotheses of [C08_collect_correct]; the traversal from [A] goes round the cycle, the
    one from [G<A>] reaches the cycle, the one from [G<u8>] does not *)
Example ex_collect :
  closed_reg ex_reg = true /\ ids_consistent ex_reg = true /\
  map (collect_type_ids ex_reg) [0; 4; 5; 8] =
  [Ok [3; 2; 1; 0]; Ok [6; 4]; Ok [3; 2; 1; 0; 5]; Ok [7; 8]].
Proof. vm_compute. repeat split. Qed.

(** hypotheses of [C08_flatten_exact] / [C08_exact]: generation succeeds, and the items carry
    global + own + recursive (+ CompactAs on [W] only) *)
Example ex_generate :
  rmap item_derive_keys (generate ex_reg ex_settings (types_equal ex_reg)) =
  Ok [ (["m"; "A"], (["Clone"; "Debug"; "Eq"; "Hash"], ["#[a]"; "#[b]"]));
       (["m"; "B"], (["Clone"; "Debug"; "Eq"], ["#[b]"]));
       (["m"; "G"], (["Clone"; "Eq"], []));
       (["m"; "H"], (["Eq"], []));
       (["m"; "W"], (["CompactAs"; "Eq"], [])) ].
Proof. vm_compute. reflexivity. Qed.

(** hypotheses of the C06 theorems: the two registries are reorderings with repetitions of
    each other, both generations succeed, and the emitted tokens are equal *)
Example ex_order_free :
  is_ok (generate ex_reg ex_settings (types_equal ex_reg)) = true /\
  is_ok (generate ex_reg ex_settings' (types_equal ex_reg)) = true /\
  (let* m := generate ex_reg ex_settings (types_equal ex_reg) in emit_module ex_settings m) =
  (let* m := generate ex_reg ex_settings' (types_equal ex_reg) in emit_module ex_settings' m).
Proof. vm_compute. repeat split. Qed.

(** ... and they satisfy the propositional hypotheses of [C06_generate_order_free] *)
Lemma key_functional_by_keys (l : list kt) :
  (forall x, In x l -> snd x = [fst x]) -> key_functional l.
Proof.
  intros H x y Hx Hy E. destruct x as [k t], y as [k' t'].
  pose proof (H _ Hx) as A. pose proof (H _ Hy) as B. cbn in A, B, E. congruence.
Qed.

Example ex_order_free_hyps :
  settings_same ex_settings ex_settings' /\
  dreg_same (s_dreg ex_settings) (s_dreg ex_settings') /\
  well_keyed (s_dreg ex_settings) (s_dreg ex_settings') (s_compact_as ex_settings).
Proof.
  split; [|split].
  - unfold settings_same. cbn. repeat split; reflexivity.
  - apply dreg_perm_same.
    + intros x; cbn; tauto.
    + intros x; cbn; tauto.
    + split; [|split; [|split]].
      * cbn. repeat constructor; cbn; tauto.
      * cbn. repeat constructor; cbn; tauto.
      * intros key; cbn; tauto.
      * intros ka da kb db Ha Hb _. cbn in Ha, Hb.
        destruct Ha as [Ha|[]], Hb as [Hb|[]]. inversion Ha; inversion Hb; subst.
        split; intros x; cbn; tauto.
    + split; [|split; [|split]].
      * cbn. repeat constructor; cbn; intuition discriminate.
      * cbn. repeat constructor; cbn; intuition discriminate.
      * intros key; cbn; tauto.
      * intros ka da kb db Ha Hb E. cbn in Ha, Hb.
        destruct Ha as [Ha|[Ha|[]]], Hb as [Hb|[Hb|[]]]; inversion Ha; inversion Hb; subst;
          cbn in E; try discriminate; split; intros x; cbn; tauto.
  - split; apply key_functional_by_keys; cbn; intros x Hx;
      repeat (destruct Hx as [<-|Hx]; [reflexivity|]); destruct Hx.
Qed.
