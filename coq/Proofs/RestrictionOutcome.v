(** C17, restriction half, the OUTCOME relation: if generation from the full registry succeeds
    and the restricted registry [restrict pi k r] is closed (every id referenced by a retained
    entry is retained - what scale-info's [retain] guarantees), then generation from the
    restricted registry succeeds as well, for every comparison oracle that judges the members of
    each same-path family of the restricted registry equal.

    Steps:
    1. in a closed registry of [n] entries a successful path resolution succeeds, with the same
       result, with fuel [n + 2] (a chain of nested calls with minimal fuel visits pairwise
       distinct ids);
    2. a successful resolution in [r1 ++ r2] of an id of the closed prefix [r1] is the same
       successful resolution in [r1];
    3. the same for IR construction, the recursive-derives flattening, the generation loop. *)
From Coq Require Import List NArith String Bool Lia PeanoNat.
From V Require Import Base.Util Base.Strings Base.Result Model.Registry Model.Settings Model.Subst
  Model.TypePath Model.Derives Model.Generate Model.Emit Model.Equal Model.WellFormed Model.Shape
  Model.Switches Model.Renumber Model.Families
  Proofs.GenProofs Proofs.TpMap Proofs.ItemsCanonical Proofs.SortDedup Proofs.KeepFirst Proofs.FidelityGen
  Proofs.ResolveTotal Proofs.GenTotal Proofs.RenumberPerm Proofs.Equivariance Proofs.PermFamilies
  Proofs.Restriction.
Import ListNotations.
Open Scope string_scope. Open Scope list_scope.

Lemma result_ok_dec {A} (x : result A) : (exists a, x = Ok a) \/ (forall a, x <> Ok a).
Proof. destruct x as [a|e|m]; [left; eauto|right; discriminate|right; discriminate]. Qed.

Lemma all_ok_or_bad {A B} (f : A -> result B) (l : list A) :
  (forall c, In c l -> exists y, f c = Ok y) \/ (exists c, In c l /\ forall y, f c <> Ok y).
Proof.
  induction l as [|c l IH]; [left; intros c []|].
  destruct (result_ok_dec (f c)) as [(y & Hy)|Hn].
  - destruct IH as [IH|(c' & Hc' & Hn')].
    + left. intros c0 [<-|H0]; [eauto|apply IH; exact H0].
    + right. exists c'. split; [right; exact Hc'|exact Hn'].
  - right. exists c. split; [left; reflexivity|exact Hn].
Qed.

(** * 1. fuel: [S (S (length rr))] is enough in a closed registry *)
Section Fuel.
  Variable rr : registry.
  Variable s : settings.
  Hypothesis Hcl : closed rr.
  Variable parents : list tparam_ir.

  Definition gres (f : nat) (id : N) : result tpath := resolve_rec rr s f id false parents None.

  Lemma rr_mono f f' id isf orig t :
    (f <= f')%nat -> resolve_rec rr s f id isf parents orig = Ok t ->
    resolve_rec rr s f' id isf parents orig = Ok t.
  Proof.
    intros Hle H. pose proof (resolve_rec_prefix rr [] s f f' id isf parents orig t Hle H) as H'.
    rewrite app_nil_r in H'. exact H'.
  Qed.

  Lemma def_kids_in t c :
    In c (match t_def t with TDComposite _ | TDVariant _ => [] | d => def_ids d end) ->
    In c (nonfield_ids t).
  Proof. intros H. unfold nonfield_ids. apply in_or_app. right. exact H. Qed.

  (** the result of one step is a function of the results on the non-field children *)
  Lemma step_cong f1 f2 id isf orig t0 t1 :
    find_parent parents id orig = None ->
    resolve_type rr id = Ok t0 -> ResolveTotal.cow_step rr t0 = Ok t1 ->
    (forall c, In c (nonfield_ids t1) -> gres f1 c = gres f2 c) ->
    resolve_rec rr s (S f1) id isf parents orig = resolve_rec rr s (S f2) id isf parents orig.
  Proof.
    intros Hfp H0 H1 Hk. rewrite !ResolveTotal.resolve_rec_S, Hfp, H0. cbn [bind]. rewrite H1. cbn [bind].
    assert (Hp : mapM (fun i => resolve_rec rr s f1 i false parents None) (param_ids t1) =
                 mapM (fun i => resolve_rec rr s f2 i false parents None) (param_ids t1)).
    { apply mapM_ext. intros c Hc. apply Hk. unfold nonfield_ids. apply in_or_app. left; exact Hc. }
    rewrite Hp. apply bind_ext. intros params.
    pose proof (fun c Hc => Hk c (def_kids_in t1 c Hc)) as Hd. unfold gres in Hd.
    unfold ResolveTotal.resolve_def.
    destruct (t_def t1) as [fs|vs|e|len e|es|p|e|st o]; cbn [def_ids] in Hd; try reflexivity.
    - rewrite (Hd e (or_introl eq_refl)). reflexivity.
    - rewrite (Hd e (or_introl eq_refl)). reflexivity.
    - rewrite (mapM_ext _ (fun i => resolve_rec rr s f2 i false parents None) es Hd). reflexivity.
    - rewrite (Hd e (or_introl eq_refl)). reflexivity.
    - destruct (s_bits s); [|reflexivity].
      rewrite (Hd o (or_intror (or_introl eq_refl))), (Hd st (or_introl eq_refl)). reflexivity.
  Qed.

  (** a successful step evaluated all its non-field children successfully *)
  Lemma step_kids_ok f id isf orig t :
    find_parent parents id orig = None ->
    resolve_rec rr s (S f) id isf parents orig = Ok t ->
    exists t0 t1, resolve_type rr id = Ok t0 /\ ResolveTotal.cow_step rr t0 = Ok t1 /\
      forall c, In c (nonfield_ids t1) -> exists tc, gres f c = Ok tc.
  Proof.
    intros Hfp H. rewrite ResolveTotal.resolve_rec_S, Hfp in H.
    apply bind_ok in H as (t0 & H0 & H). apply bind_ok in H as (t1 & H1 & H).
    apply bind_ok in H as (params & Hps & H).
    exists t0, t1. split; [exact H0|]. split; [exact H1|].
    intros c Hc. unfold nonfield_ids in Hc. apply in_app_or in Hc as [Hc|Hc].
    { exact (mapM_ok_each _ _ _ Hps c Hc). }
    unfold ResolveTotal.resolve_def in H. unfold gres.
    destruct (t_def t1) as [fs|vs|e|len e|es|p|e|st o]; cbn [def_ids] in Hc; try (destruct Hc; fail).
    - destruct Hc as [<-|[]]. apply bind_ok in H as (i & Hi & _). eauto.
    - destruct Hc as [<-|[]]. apply bind_ok in H as (i & Hi & _). eauto.
    - apply bind_ok in H as (l & Hl & _). exact (mapM_ok_each _ _ _ Hl c Hc).
    - destruct Hc as [<-|[]]. apply bind_ok in H as (i & Hi & _). eauto.
    - destruct (s_bits s); [|discriminate].
      apply bind_ok in H as (x & Hx & H). apply bind_ok in H as (y & Hy & _).
      destruct Hc as [<-|[<-|[]]]; eauto.
  Qed.

  Lemma kids_in_reg id t0 t1 :
    resolve_type rr id = Ok t0 -> ResolveTotal.cow_step rr t0 = Ok t1 ->
    forall c, In c (nonfield_ids t1) -> in_reg rr c.
  Proof.
    intros H0 H1 c Hc. apply nonfield_ids_incl in Hc.
    unfold resolve_type in H0. destruct (resolve rr id) as [t0'|] eqn:E0; [|discriminate].
    inversion H0; subst t0'. rewrite ResolveTotal.cow_step_eq in H1.
    destruct (ResolveTotal.is_cow (path_ident (t_path t0))).
    - destruct (t_params t0) as [|p0 ps]; [discriminate|].
      destruct (tp_ty p0) as [inner|]; [|discriminate].
      unfold resolve_type in H1. destruct (resolve rr inner) as [t1'|] eqn:E1; [|discriminate].
      inversion H1; subst t1'. exact (Hcl inner t1 c E1 Hc).
    - inversion H1; subst t1. exact (Hcl id t0 c E0 Hc).
  Qed.

  (** [S f] is the least fuel with which [id] resolves *)
  Definition minfuel (f : nat) (id : N) : Prop :=
    (exists t, gres (S f) id = Ok t) /\ (forall t, gres f id <> Ok t).

  Lemma minfuel_unique f f' id : minfuel f id -> minfuel f' id -> (f' <= f)%nat -> f' = f.
  Proof.
    intros [_ Hn] [(t & Ht) _] Hle.
    destruct (Nat.eq_dec f' f) as [E|Hne]; [exact E|]. exfalso.
    apply (Hn t). unfold gres in *. apply (rr_mono (S f') f); [lia|exact Ht].
  Qed.

  (** a chain of [S f] pairwise distinct valid ids *)
  Lemma minfuel_chain : forall f id, in_reg rr id -> minfuel f id ->
    exists l, List.length l = S f /\ NoDup l /\
              (forall x, In x l -> in_reg rr x /\ exists f', (f' <= f)%nat /\ minfuel f' x).
  Proof.
    induction f as [|f IH]; intros id Hid Hm.
    - exists [id]. split; [reflexivity|]. split; [constructor; [intros []|constructor]|].
      intros x [<-|[]]. split; [exact Hid|]. exists 0%nat. split; [lia|exact Hm].
    - destruct Hm as [(t & Ht) Hn]. unfold gres in Ht.
      destruct (find_parent parents id None) as [p|] eqn:Hfp.
      { exfalso. apply (Hn (TParam p)). unfold gres. rewrite ResolveTotal.resolve_rec_S, Hfp. reflexivity. }
      destruct (step_kids_ok (S f) id false None t Hfp Ht) as (t0 & t1 & H0 & H1 & Hk).
      destruct (all_ok_or_bad (gres f) (nonfield_ids t1)) as [Hall|(c & Hc & Hbad)].
      + exfalso. apply (Hn t). unfold gres.
        rewrite (step_cong f (S f) id false None t0 t1 Hfp H0 H1); [exact Ht|].
        intros c Hc. destruct (Hall c Hc) as (y & Hy). rewrite Hy. symmetry.
        unfold gres in *. apply (rr_mono f (S f)); [lia|exact Hy].
      + assert (Hmc : minfuel f c) by (split; [apply Hk; exact Hc|exact Hbad]).
        pose proof (kids_in_reg id t0 t1 H0 H1 c Hc) as Hcr.
        destruct (IH c Hcr Hmc) as (l & Hlen & Hnd & Hl).
        exists (id :: l). split; [cbn [List.length]; rewrite Hlen; reflexivity|]. split.
        * constructor; [|exact Hnd]. intros Hin. destruct (Hl id Hin) as (_ & f' & Hle & Hm').
          assert (E : f' = S f).
          { apply (minfuel_unique (S f) f' id); [split; [exists t; exact Ht|exact Hn]|exact Hm'|lia]. }
          lia.
        * intros x [<-|Hx].
          -- split; [exact Hid|]. exists (S f). split; [lia|]. split; [exists t; exact Ht|exact Hn].
          -- destruct (Hl x Hx) as (Hxr & f' & Hle & Hm'). split; [exact Hxr|].
             exists f'. split; [lia|exact Hm'].
  Qed.

  Lemma minfuel_exists : forall F id t, gres F id = Ok t -> exists f, (f < F)%nat /\ minfuel f id.
  Proof.
    induction F as [|F IH]; intros id t H; [discriminate H|].
    destruct (result_ok_dec (gres F id)) as [(t' & Ht')|Hn].
    - destruct (IH id t' Ht') as (f & Hlt & Hm). exists f. split; [lia|exact Hm].
    - exists F. split; [lia|]. split; [exists t; exact H|exact Hn].
  Qed.

  Lemma gres_in_reg F id t : gres F id = Ok t -> find_parent parents id None = None -> in_reg rr id.
  Proof.
    destruct F as [|F]; [discriminate|]. unfold gres. rewrite ResolveTotal.resolve_rec_S.
    intros H Hfp. rewrite Hfp in H. apply bind_ok in H as (t0 & H0 & _).
    unfold resolve_type in H0. destruct (resolve rr id) as [t0'|] eqn:E; [|discriminate].
    eapply resolve_some_in_reg; eauto.
  Qed.

  Lemma gres_enough F id t : gres F id = Ok t -> gres (S (List.length rr)) id = Ok t.
  Proof.
    intros H. destruct (find_parent parents id None) as [p|] eqn:Hfp.
    - destruct F as [|F]; [discriminate|]. unfold gres in *.
      rewrite ResolveTotal.resolve_rec_S, Hfp in *. exact H.
    - pose proof (gres_in_reg F id t H Hfp) as Hid.
      destruct (minfuel_exists F id t H) as (f & Hlt & Hm).
      destruct (minfuel_chain f id Hid Hm) as (l & Hlen & Hnd & Hl).
      assert (Hg : good rr l) by (split; [exact Hnd|intros x Hx; apply (Hl x Hx)]).
      pose proof (good_length rr l Hg) as Hle. rewrite Hlen in Hle.
      destruct Hm as [(t' & Ht') _]. unfold gres in *.
      assert (t' = t).
      { pose proof (rr_mono (S f) F id false None t' ltac:(lia) Ht') as E. congruence. }
      subst t'. apply (rr_mono (S f)); [lia|exact Ht'].
  Qed.

  Theorem resolve_rec_enough F id isf orig t :
    resolve_rec rr s F id isf parents orig = Ok t ->
    resolve_rec rr s (fuel0 rr) id isf parents orig = Ok t.
  Proof.
    intros H. destruct F as [|F]; [discriminate|]. unfold fuel0.
    destruct (find_parent parents id orig) as [p|] eqn:Hfp.
    - rewrite ResolveTotal.resolve_rec_S, Hfp in *. exact H.
    - destruct (step_kids_ok F id isf orig t Hfp H) as (t0 & t1 & H0 & H1 & Hk).
      rewrite <- (step_cong F (S (List.length rr)) id isf orig t0 t1 Hfp H0 H1); [exact H|].
      intros c Hc. destruct (Hk c Hc) as (tc & Htc). rewrite Htc. symmetry.
      apply (gres_enough F); exact Htc.
  Qed.
End Fuel.

(** * 2. from the whole registry back to a closed prefix *)
Section ClosedPrefix.
  Variable r1 r2 : registry.
  Variable s : settings.
  Hypothesis Hcl1 : closed r1.
  Let r := r1 ++ r2.

  Lemma resolve_in_prefix id : in_reg r1 id -> resolve r id = resolve r1 id.
  Proof.
    unfold in_reg, resolve, r. intros H. rewrite nth_error_app1 by lia. reflexivity.
  Qed.

  Lemma resolve_type_to_prefix id t :
    in_reg r1 id -> resolve_type r id = Ok t -> resolve_type r1 id = Ok t.
  Proof. unfold resolve_type. intros H. rewrite (resolve_in_prefix id H). auto. Qed.

  Lemma param_ids_first t p0 ps inner :
    t_params t = p0 :: ps -> tp_ty p0 = Some inner -> In inner (param_ids t).
  Proof. intros Hp Hi. unfold param_ids. rewrite Hp. cbn [flat_map]. rewrite Hi. left. reflexivity. Qed.

  Lemma cow_step_to_prefix id t0 t1 :
    resolve r1 id = Some t0 -> ResolveTotal.cow_step r t0 = Ok t1 -> ResolveTotal.cow_step r1 t0 = Ok t1.
  Proof.
    intros H0. rewrite !ResolveTotal.cow_step_eq.
    destruct (ResolveTotal.is_cow (path_ident (t_path t0))); [|auto].
    destruct (t_params t0) as [|p0 ps] eqn:Ep; [auto|].
    destruct (tp_ty p0) as [inner|] eqn:Ei; [|auto].
    apply resolve_type_to_prefix. apply (Hcl1 id t0 inner H0).
    apply in_or_app. left. eapply param_ids_first; eauto.
  Qed.

  Theorem resolve_rec_to_prefix : forall f id isf parents orig t,
    in_reg r1 id -> resolve_rec r s f id isf parents orig = Ok t ->
    resolve_rec r1 s f id isf parents orig = Ok t.
  Proof.
    induction f as [|f IH]; intros id isf parents orig t Hid H; [discriminate|].
    rewrite ResolveTotal.resolve_rec_S in H |- *.
    destruct (find_parent parents id orig); [exact H|].
    apply bind_ok in H as (t0 & H0 & H). pose proof (resolve_type_to_prefix _ _ Hid H0) as H0'.
    rewrite H0'. cbn [bind].
    assert (E0 : resolve r1 id = Some t0).
    { unfold resolve_type in H0'. destruct (resolve r1 id); [inversion H0'; reflexivity|discriminate]. }
    apply bind_ok in H as (t1 & H1 & H). pose proof (cow_step_to_prefix _ _ _ E0 H1) as H1'.
    rewrite H1'. cbn [bind].
    pose proof (kids_in_reg r1 Hcl1 id t0 t1 H0' H1') as Hkr.
    assert (Hm : forall l ys, (forall c, In c l -> in_reg r1 c) ->
               mapM (fun i => resolve_rec r s f i false parents None) l = Ok ys ->
               mapM (fun i => resolve_rec r1 s f i false parents None) l = Ok ys).
    { intros l ys Hl. apply mapM_ok_impl. intros x y Hx. apply IH. apply Hl; exact Hx. }
    apply bind_ok in H as (ps & Hps & H).
    rewrite (Hm _ _ (fun c Hc => Hkr c ltac:(unfold nonfield_ids; apply in_or_app; left; exact Hc)) Hps).
    cbn [bind].
    pose proof (fun c Hc => Hkr c (def_kids_in t1 c Hc)) as Hd.
    unfold ResolveTotal.resolve_def in *.
    destruct (t_def t1) as [fs|vs|e|len e|es|p|e|st o]; cbn [def_ids] in Hd; try exact H.
    - apply bind_ok in H as (i & Hi & H). rewrite (IH _ _ _ _ _ (Hd e (or_introl eq_refl)) Hi). exact H.
    - apply bind_ok in H as (i & Hi & H). rewrite (IH _ _ _ _ _ (Hd e (or_introl eq_refl)) Hi). exact H.
    - apply bind_ok in H as (l & Hl & H). rewrite (Hm _ _ Hd Hl). exact H.
    - apply bind_ok in H as (i & Hi & H). rewrite (IH _ _ _ _ _ (Hd e (or_introl eq_refl)) Hi). exact H.
    - destruct (s_bits s); [|discriminate].
      apply bind_ok in H as (x & Hx & H).
      rewrite (IH _ _ _ _ _ (Hd o (or_intror (or_introl eq_refl))) Hx). cbn [bind].
      apply bind_ok in H as (y & Hy & H). rewrite (IH _ _ _ _ _ (Hd st (or_introl eq_refl)) Hy). exact H.
  Qed.

  Lemma field_ir_of_to_prefix params f fi :
    in_reg r1 (f_ty f) -> field_ir_of r s params f = Ok fi -> field_ir_of r1 s params f = Ok fi.
  Proof.
    unfold field_ir_of, resolve_field_type_path. intros Hin H. apply bind_ok in H as (p & Hp & H).
    apply (resolve_rec_to_prefix _ _ _ _ _ _ Hin) in Hp.
    rewrite (resolve_rec_enough r1 s Hcl1 params _ _ _ _ _ Hp). exact H.
  Qed.

  Lemma cck_to_prefix fs params unused x :
    (forall f, In f fs -> in_reg r1 (f_ty f)) ->
    create_composite_ir_kind r s fs params unused = Ok x ->
    create_composite_ir_kind r1 s fs params unused = Ok x.
  Proof.
    unfold create_composite_ir_kind. destruct fs as [|f0 fs0]; [auto|].
    remember (f0 :: fs0) as fs eqn:E. clear E f0 fs0. intros Hin.
    destruct (negb (all_named fs || all_unnamed fs)); [auto|].
    destruct (all_named fs); intros H; apply bind_ok in H as (l & Hl & H).
    - erewrite mapM_ok_impl; [exact H| |exact Hl]. intros f y Hf Hy.
      apply bind_ok in Hy as (id & Hid & Hy). rewrite Hid. cbn [bind].
      apply bind_ok in Hy as (fi & Hfi & Hy). rewrite (field_ir_of_to_prefix _ _ _ (Hin f Hf) Hfi). exact Hy.
    - erewrite mapM_ok_impl; [exact H| |exact Hl]. intros f y Hf Hy.
      apply field_ir_of_to_prefix; [apply Hin; exact Hf|exact Hy].
  Qed.

  Lemma variants_ir_to_prefix params : forall vs unused x,
    (forall v f, In v vs -> In f (v_fields v) -> in_reg r1 (f_ty f)) ->
    Switches.variants_ir r s params vs unused = Ok x -> Switches.variants_ir r1 s params vs unused = Ok x.
  Proof.
    induction vs as [|v vs IH]; intros unused x Hin H; cbn [Switches.variants_ir] in *; [exact H|].
    apply bind_ok in H as (vn & Hvn & H). rewrite Hvn. cbn [bind].
    apply bind_ok in H as (ku & Hku & H).
    rewrite (cck_to_prefix _ _ _ _ (fun f Hf => Hin v f (or_introl eq_refl) Hf) Hku). cbn [bind].
    apply bind_ok in H as (rest & Hrest & H).
    rewrite (IH _ _ (fun v' f Hv' Hf => Hin v' f (or_intror Hv') Hf) Hrest). exact H.
  Qed.

  Theorem create_type_ir_to_prefix t flat o :
    (forall c, In c (def_ids (t_def t)) -> in_reg r1 c) ->
    create_type_ir r s t flat = Ok o -> create_type_ir r1 s t flat = Ok o.
  Proof.
    intros Hin. rewrite !Equivariance.create_type_ir_unfold.
    destruct (negb (is_composite_or_variant (t_def t))); [auto|].
    destruct (path_ident (t_path t)) as [nm|]; [|auto].
    intros H. apply bind_ok in H as (name & Hn & H). rewrite Hn. cbn [bind].
    apply bind_ok in H as (kcu & Hk & H).
    assert (Hk' : match t_def t with
                  | TDComposite fs =>
                      let* ku := create_composite_ir_kind r1 s fs (params_from_scale_info (t_params t))
                                                          (params_from_scale_info (t_params t)) in
                      Ok (KStruct (mk_ci name (fst ku) (docs_from_scale_info s (t_docs t))),
                          could_derive_as_compact (fst ku), snd ku)
                  | TDVariant vs =>
                      let* vu := Switches.variants_ir r1 s (params_from_scale_info (t_params t)) vs
                                                      (params_from_scale_info (t_params t)) in
                      Ok (KEnum name (docs_from_scale_info s (t_docs t)) (fst vu), false, snd vu)
                  | _ => Panic "unreachable"
                  end = Ok kcu).
    { destruct (t_def t) as [fs|vs| | | | | |]; try discriminate; cbn [def_ids] in Hin.
      - apply bind_ok in Hk as (ku & Hku & Hk). rewrite (cck_to_prefix _ _ _ _ ltac:(intros f Hf; apply Hin, in_map; exact Hf) Hku).
        exact Hk.
      - apply bind_ok in Hk as (vu & Hvu & Hk).
        rewrite (variants_ir_to_prefix _ _ _ _ ltac:(intros v f Hv Hf; apply Hin, in_flat_map; exists v; split; [exact Hv|apply in_map; exact Hf]) Hvu).
        exact Hk. }
    rewrite Hk'. cbn [bind]. exact H.
  Qed.

  (** ids = positions *)
  Lemma first_bad_from_app : forall l1 l2 i,
    first_bad_from i (l1 ++ l2) = None -> first_bad_from i l1 = None.
  Proof.
    induction l1 as [|[id t] l1 IH]; intros l2 i H; [reflexivity|].
    cbn [app first_bad_from] in *. destruct (N.eqb id i); [eapply IH; exact H|discriminate].
  Qed.

  Lemma ids_consistent_prefix : ids_consistent r = true -> ids_consistent r1 = true.
  Proof.
    intros H. apply first_bad_none_iff. apply first_bad_none_iff in H.
    unfold first_bad in *. eapply first_bad_from_app. exact H.
  Qed.

  Lemma mapM_app_ok_l {A B} (f : A -> result B) l1 l2 ys :
    mapM f (l1 ++ l2) = Ok ys -> exists ys1, mapM f l1 = Ok ys1.
  Proof.
    revert ys. induction l1 as [|x l1 IH]; intros ys H; [cbn; eauto|].
    cbn [app] in H. rewrite mapM_cons in H |- *.
    apply bind_ok in H as (y & Hy & H). apply bind_ok in H as (ys' & Hys & _).
    rewrite Hy. cbn [bind]. destruct (IH _ Hys) as (ys1 & E). rewrite E. cbn [bind]. eauto.
  Qed.

  (** the recursive-derives flattening *)
  Lemma flatten_to_prefix dr flat :
    ids_consistent r = true -> flatten dr r = Ok flat -> exists flat1, flatten dr r1 = Ok flat1.
  Proof.
    intros Hc Hf. pose proof (ids_consistent_prefix Hc) as Hc1.
    rewrite flatten_eq in Hf |- *.
    destruct (dr_recursive dr) as [|x0 rec0] eqn:Erec; [eauto|].
    apply bind_ok in Hf as (keys & Hkeys & _).
    destruct (mapM_app_ok_l _ _ _ _ Hkeys) as (keys1 & Hkeys1).
    rewrite Hkeys1. cbn [bind].
    pose proof (flatten_keys_eq _ _ Hkeys1) as Ek1.
    destruct (flatten_go_ok dr r1 keys1 []) as (acc1 & Hacc1).
    { intros root kr d Hin Hd. subst keys1. apply in_map_iff in Hin as ([root0 troot] & E & Hin).
      cbn [fst snd] in E. inversion E; subst root0; clear E.
      apply collect_type_ids_total; [exact Hcl1|].
      eapply resolve_some_in_reg. apply (ids_consistent_In r1 root troot Hc1 Hin). }
    rewrite Hacc1. cbn [bind]. eauto.
  Qed.
End ClosedPrefix.

(** * 3. the generation loop with a comparison oracle that judges every same-path family equal *)
Definition fam_equal (rr : registry) (s : settings) (teq' : N -> N -> result bool) : Prop :=
  forall id1 t1 id2 t2, In (id1, t1) rr -> In (id2, t2) rr ->
    item_eligible s t1 = true -> item_eligible s t2 = true -> t_path t1 = t_path t2 ->
    teq' id2 id1 = Ok true.

Lemma fam_equal_teq_true rr s : fam_equal rr s teq_true.
Proof. intros id1 t1 id2 t2 _ _ _ _ _. reflexivity. Qed.

(** without families every oracle will do: it is never consulted *)
Lemma fam_equal_unique rr s teq' :
  (forall id, teq' id id = Ok true) -> unique_item_paths rr s -> fam_equal rr s teq'.
Proof.
  intros Hrefl Hu id1 t1 id2 t2 H1 H2 E1 E2 Hp.
  assert (Hie : forall t, item_eligible s t = true -> item_entry s t = true).
  { intros t H. unfold item_eligible in H. unfold item_entry.
    apply andb_prop in H as [H Hns]. apply andb_prop in H as [Hcv Hsub].
    rewrite Hsub, Hns, Hcv. reflexivity. }
  pose proof (Hu (id1, t1) (id2, t2) H1 H2 (Hie _ E1) (Hie _ E2) Hp) as E.
  inversion E; subst. apply Hrefl.
Qed.

Definition occupants_ok (rr : registry) (s : settings) (acc : items) : Prop :=
  forall p other ir, items_get acc p = Some (other, ir) ->
    exists t, In (other, t) rr /\ item_eligible s t = true /\ t_path t = p.

Lemma gen_loop_family rr s teq' flat :
  fam_equal rr s teq' ->
  forall l acc,
    (forall e, In e l -> In e rr) ->
    (forall id t, In (id, t) l -> eligible s t = true ->
       exists o, create_type_ir rr s t flat = Ok o /\
                 (forall ir, o = Some ir -> forallb ident_lexb (namespace (t_path t)) = true)) ->
    occupants_ok rr s acc ->
    exists m, gen_loop rr s teq' flat l acc = Ok m.
Proof.
  intros Hfam. induction l as [|[id t] l IH]; intros acc Hincl H Hocc; [cbn; eauto|].
  assert (Hincl' : forall e, In e l -> In e rr) by (intros e He; apply Hincl; right; exact He).
  assert (Hl : forall id0 t0, In (id0, t0) l -> eligible s t0 = true ->
             exists o, create_type_ir rr s t0 flat = Ok o /\
                       (forall ir, o = Some ir -> forallb ident_lexb (namespace (t_path t0)) = true)).
  { intros id0 t0 Hin. apply (H id0 t0). right; exact Hin. }
  rewrite gen_loop_cons.
  destruct (subs_contains (s_subs s) (t_path t)) eqn:Es; [apply IH; assumption|].
  destruct (namespace (t_path t)) as [|n0 ns] eqn:En; [apply IH; assumption|].
  destruct (H id t (or_introl eq_refl)) as (o & Ho & Hlex).
  { unfold eligible. rewrite Es, En. reflexivity. }
  rewrite Ho. cbn [bind]. destruct o as [ir|]; [|apply IH; assumption].
  rewrite En in Hlex. rewrite (Hlex ir eq_refl).
  assert (Hel : item_eligible s t = true).
  { unfold item_eligible. rewrite (create_type_ir_some_cv _ _ _ _ _ Ho), Es, En. reflexivity. }
  destruct (items_get acc (t_path t)) as [[other ir']|] eqn:G.
  - destruct (Hocc _ _ _ G) as (to & Hino & Helo & Hpo).
    rewrite (Hfam other to id t Hino (Hincl _ (or_introl eq_refl)) Helo Hel Hpo). cbn [bind].
    apply IH; assumption.
  - apply IH; [assumption|assumption|].
    intros p other ir0 Hg. rewrite (items_get_insert_absent acc (t_path t) (id, ir) p G) in Hg.
    destruct (path_eqb (t_path t) p) eqn:Ep.
    + inversion Hg; subst other ir0. apply path_eqb_eq in Ep.
      exists t. split; [apply Hincl; left; reflexivity|]. split; [exact Hel|exact Ep].
    + exact (Hocc _ _ _ Hg).
Qed.

(** * 4. the outcome relation of the restriction *)
Theorem restriction_outcome_ok pi k r s teq teq' m :
  renumbering (N.of_nat (List.length r)) pi ->
  closed (restrict pi k r) ->
  fam_equal (restrict pi k r) s teq' ->
  generate r s teq = Ok m ->
  exists m', generate (restrict pi k r) s teq' = Ok m'.
Proof.
  intros Hpi Hcl Hfam G.
  destruct (generate_ok_renumber pi r s Hpi teq m G) as (m2 & G2).
  assert (Esplit : renumber pi r = restrict pi k r ++ dropped pi k r).
  { unfold restrict, dropped. symmetry. apply firstn_skipn. }
  rewrite Esplit in G2.
  set (r1 := restrict pi k r) in *. set (r2 := dropped pi k r) in *.
  assert (Hc : ids_consistent (r1 ++ r2) = true).
  { apply first_bad_none_iff. eapply generate_sanity; exact G2. }
  pose proof (ids_consistent_prefix r1 r2 Hc) as Hc1.
  pose proof G2 as H2. unfold generate in H2.
  apply bind_ok in H2 as (u & _ & H2). apply bind_ok in H2 as (flat2 & Hf2 & H2).
  destruct (flatten_to_prefix r1 r2 Hcl (s_dreg s) flat2 Hc Hf2) as (flat1 & Hf1).
  unfold generate. rewrite sanity_pass_spec. apply first_bad_none_iff in Hc1. rewrite Hc1. cbn [bind].
  rewrite Hf1. cbn [bind]. apply first_bad_none_iff in Hc1.
  apply (gen_loop_family r1 s teq' flat1 Hfam).
  - auto.
  - intros id t Hin Hel.
    assert (HinR : In (id, t) (r1 ++ r2)) by (apply in_or_app; left; exact Hin).
    destruct (is_composite_or_variant (t_def t)) eqn:Ecv.
    + assert (Hie : item_eligible s t = true).
      { unfold item_eligible. rewrite Ecv. unfold eligible in Hel.
        apply andb_prop in Hel as [A B]. rewrite A, B. reflexivity. }
      destruct (gen_loop_all_ok (r1 ++ r2) s teq_true flat2 (r1 ++ r2) [] m2 H2 id t HinR Hie) as (ir2 & C2).
      destruct (create_type_ir_flat (r1 ++ r2) s t flat2 flat1 ir2 C2) as (ir1 & C1 & _).
      exists (Some ir1). split.
      * apply (create_type_ir_to_prefix r1 r2 s Hcl); [|exact C1].
        intros c Hc'. apply (Hcl id t c (ids_consistent_In r1 id t Hc1 Hin)).
        apply in_or_app. right. exact Hc'.
      * intros ir _. exact (gen_loop_lex (r1 ++ r2) s teq_true flat2 (r1 ++ r2) [] m2 H2 id t ir2 HinR Hel C2).
    + exists None. split; [apply create_type_ir_not_cv; exact Ecv|]. intros ir E. discriminate E.
  - intros p other ir E. discriminate E.
Qed.

(** ... composed with [restriction_tokens]: every item of the restricted run is an item of the
    full run, at the same path, with the same tokens *)
Theorem restriction_outcome pi k r s teq teq' m :
  renumbering (N.of_nat (List.length r)) pi ->
  skeleton_consistent r s -> docs_consistent r s -> derives_functional s ->
  no_outside_roots (dr_recursive (s_dreg s)) (dropped pi k r) ->
  closed (restrict pi k r) ->
  fam_equal (restrict pi k r) s teq' ->
  generate r s teq = Ok m ->
  exists m', generate (restrict pi k r) s teq' = Ok m' /\
    forall p id' ir', items_get m' p = Some (id', ir') ->
      exists id ir, items_get m p = Some (id, ir) /\ type_ir_tokens s ir' = type_ir_tokens s ir.
Proof.
  intros Hpi Hsk Hdc Hdf Hout Hcl Hfam G.
  destruct (restriction_outcome_ok pi k r s teq teq' m Hpi Hcl Hfam G) as (m' & G').
  exists m'. split; [exact G'|].
  exact (restriction_tokens pi k r s teq teq' m m' Hpi Hsk Hdc Hdf Hout G G').
Qed.

Theorem restriction_outcome_b pi k r s teq teq' m :
  renumbering (N.of_nat (List.length r)) pi ->
  skeleton_consistentb r s = true -> docs_consistentb r s = true -> derives_functionalb s = true ->
  no_outside_rootsb (dr_recursive (s_dreg s)) (dropped pi k r) = true ->
  closed_reg (restrict pi k r) = true ->
  fam_equal (restrict pi k r) s teq' ->
  generate r s teq = Ok m ->
  exists m', generate (restrict pi k r) s teq' = Ok m' /\
    forall p id' ir', items_get m' p = Some (id', ir') ->
      exists id ir, items_get m p = Some (id, ir) /\ type_ir_tokens s ir' = type_ir_tokens s ir.
Proof.
  intros Hpi H1 H2 H3 H4 H5. apply restriction_outcome; auto.
  - apply ShapeBool.skeleton_consistentb_sound; exact H1.
  - apply docs_consistentb_sound; exact H2.
  - apply derives_functionalb_sound; exact H3.
  - apply no_outside_rootsb_sound; exact H4.
  - apply closed_reg_closed; exact H5.
Qed.

(** boolean form of [fam_equal] *)
Definition fam_equalb (rr : registry) (s : settings) (teq' : N -> N -> result bool) : bool :=
  forallb (fun e1 : N * ty =>
     forallb (fun e2 : N * ty =>
        if item_eligible s (snd e1) && item_eligible s (snd e2) &&
           path_eqb (t_path (snd e1)) (t_path (snd e2))
        then match teq' (fst e2) (fst e1) with Ok true => true | _ => false end
        else true) rr) rr.

Lemma fam_equalb_sound rr s teq' : fam_equalb rr s teq' = true -> fam_equal rr s teq'.
Proof.
  unfold fam_equalb, fam_equal. rewrite forallb_forall. intros H id1 t1 id2 t2 H1 H2 E1 E2 Hp.
  specialize (H (id1, t1) H1). rewrite forallb_forall in H. specialize (H (id2, t2) H2).
  cbn [fst snd] in H. rewrite E1, E2, Hp, path_eqb_refl in H. cbn [andb] in H.
  destruct (teq' id2 id1) as [[|]|e|msg]; try discriminate H. reflexivity.
Qed.

Theorem restriction_outcome_checked pi k r s teq teq' m :
  renumbering (N.of_nat (List.length r)) pi ->
  skeleton_consistentb r s = true -> docs_consistentb r s = true -> derives_functionalb s = true ->
  no_outside_rootsb (dr_recursive (s_dreg s)) (dropped pi k r) = true ->
  closed_reg (restrict pi k r) = true ->
  fam_equalb (restrict pi k r) s teq' = true ->
  generate r s teq = Ok m ->
  exists m', generate (restrict pi k r) s teq' = Ok m' /\
    forall p id' ir', items_get m' p = Some (id', ir') ->
      exists id ir, items_get m p = Some (id, ir) /\ type_ir_tokens s ir' = type_ir_tokens s ir.
Proof.
  intros Hpi H1 H2 H3 H4 H5 H6.
  exact (restriction_outcome_b pi k r s teq teq' m Hpi H1 H2 H3 H4 H5 (fam_equalb_sound _ _ _ H6)).
Qed.
