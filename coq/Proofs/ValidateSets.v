(** C06 / C11 [validation_as_sets]: the validation error is a function of the settings read
    as finite maps of finite sets -- hash order of the derive registry and of the substitute
    map only permutes its three lists and the sets inside. *)
From Coq Require Import String List NArith Bool Lia Permutation.
From V Require Import Base.Strings Base.Result Model.Registry Model.Settings Model.Subst
  Model.Derives Model.Builders Model.BuildersSpec Model.Reach Model.ValidateSpec Proofs.DerivesProofs
  Proofs.BuildersProofs Proofs.OrderFree.
Import ListNotations.
Open Scope list_scope.

Lemma kmap_perm_sym a b : kmap_perm a b -> kmap_perm b a.
Proof.
  intros (NA & NB & HK & HV). split; [exact NB|]. split; [exact NA|]. split.
  - intros key. symmetry. apply HK.
  - intros ka da kb db Ha Hb E. destruct (HV kb db ka da Hb Ha (eq_sym E)) as [S1 S2].
    split; intros x; [symmetry; apply S1|symmetry; apply S2].
Qed.

Lemma kmap_perm_transfer a b :
  kmap_perm a b -> forall k d, In (k, d) a ->
  exists k' d', In (k', d') b /\ k_key k' = k_key k /\
                same_set (d_derives d) (d_derives d') /\ same_set (d_attrs d) (d_attrs d').
Proof.
  intros (_ & _ & HK & HV) k d Hin.
  assert (Hk : In (k_key k) (map (fun kd => k_key (fst kd)) a)).
  { apply in_map_iff. exists (k, d). split; [reflexivity|exact Hin]. }
  apply HK in Hk. apply in_map_iff in Hk as ([k' d'] & E & Hin'). cbn [fst] in E.
  exists k', d'. split; [exact Hin'|]. split; [exact E|].
  apply (HV k d k' d' Hin Hin'). symmetry; exact E.
Qed.

Section Sets.
  Variable r : registry.

  Lemma in_unknown_entries sel (l : kmap) K x :
    In x (spec_unknown_entries sel r l K) <->
    exists k d, In (k, d) l /\ unknown r (k_segs k) = true /\ k_key k = K /\ In x (sel d).
  Proof.
    unfold spec_unknown_entries. rewrite in_flat_map. split.
    - intros ([k d] & Hin & Hx).
      destruct (unknown r (k_segs k)) eqn:U; [|destruct Hx].
      destruct (String.eqb (k_key k) K) eqn:E; [|destruct Hx].
      apply String.eqb_eq in E. exists k, d. auto.
    - intros (k & d & Hin & U & E & Hx). exists (k, d). split; [exact Hin|].
      rewrite U. apply String.eqb_eq in E. rewrite E. exact Hx.
  Qed.

  Lemma unknown_listed_iff sel (l : kmap) K :
    spec_unknown_listed sel r l K = true <->
    exists k d, In (k, d) l /\ unknown r (k_segs k) = true /\ k_key k = K /\ sel d <> [].
  Proof.
    unfold spec_unknown_listed. rewrite existsb_exists. split.
    - intros ([k d] & Hin & H). apply andb_prop in H as [H H3]. apply andb_prop in H as [H1 H2].
      apply String.eqb_eq in H2. exists k, d. split; [exact Hin|]. split; [exact H1|]. split; [exact H2|].
      destruct (sel d); [discriminate|discriminate].
    - intros (k & d & Hin & U & E & Hne). exists (k, d). split; [exact Hin|].
      apply String.eqb_eq in E. rewrite U, E. destruct (sel d); [congruence|reflexivity].
  Qed.

  (** one direction of the correspondence between two entry lists *)
  Definition transfers (sel : derives -> list kt) (l1 l2 : kmap) : Prop :=
    forall k d, In (k, d) l1 ->
      exists k' d', In (k', d') l2 /\ k_key k' = k_key k /\ k_segs k' = k_segs k /\ same_set (sel d) (sel d').

  Lemma transfers_listed sel l1 l2 K :
    transfers sel l1 l2 -> spec_unknown_listed sel r l1 K = true -> spec_unknown_listed sel r l2 K = true.
  Proof.
    intros T H. apply unknown_listed_iff in H as (k & d & Hin & U & E & Hne).
    destruct (T k d Hin) as (k' & d' & Hin' & Ek & Es & S).
    apply unknown_listed_iff. exists k', d'. split; [exact Hin'|]. split; [rewrite Es; exact U|].
    split; [congruence|]. intros E0. apply Hne.
    destruct (sel d) as [|x l]; [reflexivity|]. exfalso.
    assert (Hx : In x (sel d')) by (apply S; left; reflexivity). rewrite E0 in Hx. destruct Hx.
  Qed.

  Lemma transfers_entries sel l1 l2 K x :
    transfers sel l1 l2 -> In x (spec_unknown_entries sel r l1 K) -> In x (spec_unknown_entries sel r l2 K).
  Proof.
    intros T H. apply in_unknown_entries in H as (k & d & Hin & U & E & Hx).
    destruct (T k d Hin) as (k' & d' & Hin' & Ek & Es & S).
    apply in_unknown_entries. exists k', d'. split; [exact Hin'|]. split; [rewrite Es; exact U|].
    split; [congruence|apply S; exact Hx].
  Qed.

  Lemma perm_transfers sel (Hs : sel = d_derives \/ sel = d_attrs) sp1 rc1 sp2 rc2 :
    kmap_perm sp1 sp2 -> kmap_perm rc1 rc2 ->
    segs_functional ((sp1 ++ rc1) ++ (sp2 ++ rc2)) ->
    transfers sel (sp1 ++ rc1) (sp2 ++ rc2).
  Proof.
    intros PS PR SF k d Hin.
    assert (G : exists k' d', In (k', d') (sp2 ++ rc2) /\ k_key k' = k_key k /\
                              same_set (d_derives d) (d_derives d') /\ same_set (d_attrs d) (d_attrs d')).
    { apply in_app_or in Hin as [Hin|Hin].
      - destruct (kmap_perm_transfer _ _ PS k d Hin) as (k' & d' & Hin' & E & S).
        exists k', d'. split; [apply in_or_app; left; exact Hin'|auto].
      - destruct (kmap_perm_transfer _ _ PR k d Hin) as (k' & d' & Hin' & E & S).
        exists k', d'. split; [apply in_or_app; right; exact Hin'|auto]. }
    destruct G as (k' & d' & Hin' & E & S1 & S2). exists k', d'.
    split; [exact Hin'|]. split; [exact E|]. split.
    - apply (SF k' d' k d); [apply in_or_app; right; exact Hin'|apply in_or_app; left; exact Hin|exact E].
    - destruct Hs as [->| ->]; assumption.
  Qed.

  Lemma segs_functional_swap (a b : kmap) : segs_functional (a ++ b) -> segs_functional (b ++ a).
  Proof.
    intros H ka da kb db Ha Hb. apply (H ka da kb db); apply in_or_app.
    - apply in_app_or in Ha as [Ha|Ha]; auto.
    - apply in_app_or in Hb as [Hb|Hb]; auto.
  Qed.

  Lemma in_keys_iff (m : list (string * list kt)) K : In K (map fst m) <-> exists v, In (K, v) m.
  Proof.
    rewrite in_map_iff. split.
    - intros ([k v] & E & Hin). cbn [fst] in E. subst k. exists v; exact Hin.
    - intros (v & Hin). exists (K, v). split; [reflexivity|exact Hin].
  Qed.

  Lemma Permutation_filter' {A} (f : A -> bool) l1 l2 :
    Permutation l1 l2 -> Permutation (filter f l1) (filter f l2).
  Proof.
    induction 1 as [|x l1 l2 P IH|x y l|l1 l2 l3 P1 IH1 P2 IH2]; cbn [filter].
    - constructor.
    - destruct (f x); [constructor; exact IH|exact IH].
    - destruct (f x), (f y); try apply Permutation_refl. apply perm_swap.
    - eapply Permutation_trans; eassumption.
  Qed.

  Theorem validate_as_sets subs1 subs2 dr1 dr2 :
    kmap_perm (dr_specific dr1) (dr_specific dr2) ->
    kmap_perm (dr_recursive dr1) (dr_recursive dr2) ->
    segs_functional ((dr_specific dr1 ++ dr_recursive dr1) ++ (dr_specific dr2 ++ dr_recursive dr2)) ->
    Permutation subs1 subs2 ->
    verror_same (validate subs1 dr1 r) (validate subs2 dr2 r).
  Proof.
    intros PS PR SF P.
    destruct (validate_exact_membership r subs1 dr1) as (N1 & N2 & D1 & A1 & S1).
    destruct (validate_exact_membership r subs2 dr2) as (N1' & N2' & D2 & A2 & S2).
    cbv zeta in *.
    set (l1 := dr_specific dr1 ++ dr_recursive dr1) in *.
    set (l2 := dr_specific dr2 ++ dr_recursive dr2) in *.
    assert (T12 : forall sel, sel = d_derives \/ sel = d_attrs -> transfers sel l1 l2).
    { intros sel Hs. apply perm_transfers; assumption. }
    assert (T21 : forall sel, sel = d_derives \/ sel = d_attrs -> transfers sel l2 l1).
    { intros sel Hs. apply perm_transfers; [exact Hs|apply kmap_perm_sym; exact PS|apply kmap_perm_sym; exact PR|].
      apply segs_functional_swap; exact SF. }
    assert (G : forall sel (Hs : sel = d_derives \/ sel = d_attrs) (a b : list (string * list kt)),
               NoDup (map fst a) -> NoDup (map fst b) ->
               (forall K v, In (K, v) a <-> spec_unknown_listed sel r l1 K = true /\ v = spec_unknown_entries sel r l1 K) ->
               (forall K v, In (K, v) b <-> spec_unknown_listed sel r l2 K = true /\ v = spec_unknown_entries sel r l2 K) ->
               ve_list_same a b).
    { intros sel Hs a b Na Nb Ha Hb. split; [exact Na|]. split; [exact Nb|]. split.
      - intros K. rewrite !in_keys_iff. split.
        + intros (v & Hv). apply Ha in Hv as [L _]. eexists. apply Hb.
          split; [eapply transfers_listed; [apply T12; exact Hs|exact L]|reflexivity].
        + intros (v & Hv). apply Hb in Hv as [L _]. eexists. apply Ha.
          split; [eapply transfers_listed; [apply T21; exact Hs|exact L]|reflexivity].
      - intros K x y Hx Hy. apply Ha in Hx as [_ ->]. apply Hb in Hy as [_ ->]. intros z. split.
        + apply transfers_entries, T12, Hs.
        + apply transfers_entries, T21, Hs. }
    split; [exact (G d_derives (or_introl eq_refl) _ _ N1 N1' D1 D2)|].
    split; [exact (G d_attrs (or_intror eq_refl) _ _ N2 N2' A1 A2)|].
    rewrite S1, S2. unfold spec_unknown_subs. apply Permutation_map, Permutation_filter'. exact P.
  Qed.

  (** in particular both validations succeed or both fail *)
  Lemma ve_list_same_nil a b : ve_list_same a b -> (a = [] <-> b = []).
  Proof.
    intros (_ & _ & HK & _). split; intros ->.
    - destruct b as [|[K v] b]; [reflexivity|]. exfalso. apply (proj2 (HK K)). left; reflexivity.
    - destruct a as [|[K v] a]; [reflexivity|]. exfalso. apply (proj1 (HK K)). left; reflexivity.
  Qed.

  Corollary verror_same_empty e1 e2 : verror_same e1 e2 -> verror_is_empty e1 = verror_is_empty e2.
  Proof.
    intros (D & A & S). apply ve_list_same_nil in D. apply ve_list_same_nil in A.
    unfold verror_is_empty.
    destruct (ve_derives e1) as [|d1 l1].
    - rewrite (proj1 D eq_refl). destruct (ve_attrs e1) as [|a1 m1].
      + rewrite (proj1 A eq_refl). destruct (ve_subs e1) as [|s1 t1].
        * apply Permutation_nil in S. rewrite S. reflexivity.
        * destruct (ve_subs e2); [apply Permutation_sym, Permutation_nil in S; discriminate|reflexivity].
      + destruct (ve_attrs e2); [destruct A as [_ A]; specialize (A eq_refl); discriminate|reflexivity].
    - destruct (ve_derives e2); [destruct D as [_ D]; specialize (D eq_refl); discriminate|reflexivity].
  Qed.
End Sets.

(** ** the same for builder histories: derive / attribute calls in any order *)
Lemma dreg_equiv_side_perm a b rc :
  dreg_equiv a b ->
  NoDup (map (fun kd : tykey * derives => k_key (fst kd)) (side a rc)) ->
  NoDup (map (fun kd : tykey * derives => k_key (fst kd)) (side b rc)) ->
  kmap_perm (side a rc) (side b rc).
Proof.
  intros (_ & _ & H) NA NB. split; [exact NA|]. split; [exact NB|].
  assert (Hsome : forall key, is_some (kmap_get (side a rc) key) = is_some (kmap_get (side b rc) key)).
  { intros key. destruct (H key) as (S1 & S2 & _). destruct rc; assumption. }
  split.
  - intros key. pose proof (Hsome key) as E.
    pose proof (kmap_get_none_iff (side a rc) key) as Ka. pose proof (kmap_get_none_iff (side b rc) key) as Kb.
    destruct (kmap_get (side a rc) key) as [da|], (kmap_get (side b rc) key) as [db|]; cbn [is_some] in E;
      try discriminate.
    + split; intros _.
      * destruct (in_dec string_dec key (map (fun kd : tykey * derives => k_key (fst kd)) (side b rc))) as [I|I];
          [exact I|]. apply Kb in I. discriminate.
      * destruct (in_dec string_dec key (map (fun kd : tykey * derives => k_key (fst kd)) (side a rc))) as [I|I];
          [exact I|]. apply Ka in I. discriminate.
    + split; intros I; exfalso; [apply (proj1 Ka eq_refl I)|apply (proj1 Kb eq_refl I)].
  - intros ka da kb db Ia Ib E.
    pose proof (kmap_get_in_nodup _ _ _ NA Ia) as Ga. pose proof (kmap_get_in_nodup _ _ _ NB Ib) as Gb.
    destruct (H (k_key ka)) as (_ & _ & A1 & A2 & A3 & A4).
    unfold kmap_get_or_empty in *. rewrite <- E in Gb.
    destruct rc; cbn [side] in *; rewrite Ga, Gb in *; split; intros x; [apply A3|apply A4|apply A1|apply A2].
Qed.

Theorem validate_histories_as_sets r ops1 ops2 :
  Permutation (filter is_derive_op ops1) (filter is_derive_op ops2) ->
  let st1 := fst (run_ops ops1) in
  let st2 := fst (run_ops ops2) in
  segs_functional ((dr_specific (b_dreg st1) ++ dr_recursive (b_dreg st1)) ++
                   (dr_specific (b_dreg st2) ++ dr_recursive (b_dreg st2))) ->
  Permutation (b_subs st1) (b_subs st2) ->
  verror_same (validate (b_subs st1) (b_dreg st1) r) (validate (b_subs st2) (b_dreg st2) r).
Proof.
  intros P st1 st2 SF PS. pose proof (order_irrelevant ops1 ops2 P) as E.
  apply validate_as_sets; [| |exact SF|exact PS].
  - exact (dreg_equiv_side_perm _ _ false E (history_keys_nodup ops1 false) (history_keys_nodup ops2 false)).
  - exact (dreg_equiv_side_perm _ _ true E (history_keys_nodup ops1 true) (history_keys_nodup ops2 true)).
Qed.

(** ** non-vacuity: two hash orders of the same settings; the errors differ as lists *)
Lemma NoDup_2 {A} (x y : A) : x <> y -> NoDup [x; y].
Proof. intros H. constructor; [intros [E|[]]; congruence|constructor; [intros []|constructor]]. Qed.

Example vs_hyps :
  kmap_perm (dr_specific vs_dr1) (dr_specific vs_dr2) /\
  kmap_perm (dr_recursive vs_dr1) (dr_recursive vs_dr2) /\
  segs_functional ((dr_specific vs_dr1 ++ dr_recursive vs_dr1) ++ (dr_specific vs_dr2 ++ dr_recursive vs_dr2)).
Proof.
  split; [|split].
  - split; [apply NoDup_2; discriminate|]. split; [apply NoDup_2; discriminate|]. split.
    + intros key. cbn. tauto.
    + intros ka da kb db Ha Hb E. cbn in Ha, Hb.
      destruct Ha as [Ha|[Ha|[]]], Hb as [Hb|[Hb|[]]]; inversion Ha; inversion Hb; subst;
        try discriminate; split; intros x; cbn; tauto.
  - split; [repeat constructor; intros []|]. split; [repeat constructor; intros []|]. split.
    + intros key. cbn. tauto.
    + intros ka da kb db Ha Hb E. cbn in Ha, Hb.
      destruct Ha as [Ha|[]], Hb as [Hb|[]]; inversion Ha; inversion Hb; subst. split; intros x; tauto.
  - intros ka da kb db Ha Hb E. cbn in Ha, Hb.
    repeat (destruct Ha as [Ha|Ha]; [inversion Ha; subst|]); try destruct Ha;
      repeat (destruct Hb as [Hb|Hb]; [inversion Hb; subst|]); try destruct Hb;
      try reflexivity; discriminate.
Qed.

Example vs_errors_differ :
  validate [] vs_dr1 [] <> validate [] vs_dr2 [] /\
  verror_is_empty (validate [] vs_dr1 []) = false.
Proof. split; [vm_compute; discriminate|vm_compute; reflexivity]. Qed.
