(** Proofs for C12 (example SCALE values): typing of every returned value,
    totality with the fuel the model uses, and "returns" under the
    model-independent reachability hypothesis.  All statements are universal
    over registries, ids and word streams. *)
From Coq Require Import List NArith ZArith Bool String Lia.
From V Require Import Base.Util Model.Registry Model.RngWords Model.ExampleValue.
Import ListNotations.
Open Scope N_scope.

(** * 1. the word-stream generator *)

Lemma rng_bind_inv {A B} (x : rng A) (f : A -> rng B) ws b r :
  rng_bind x f ws = Drawn b r -> exists a ws', x ws = Drawn a ws' /\ f a ws' = Drawn b r.
Proof. unfold rng_bind. destruct (x ws) as [a ws'|]; intros H; [eauto|discriminate]. Qed.

Lemma rng_map_inv {A B} (f : A -> B) (x : rng A) ws b r :
  rng_map f x ws = Drawn b r -> exists a, x ws = Drawn a r /\ b = f a.
Proof.
  unfold rng_map. intros H. apply rng_bind_inv in H as (a & ws' & H1 & H2).
  unfold rng_ret in H2. inversion H2; subst. eauto.
Qed.

Lemma two32_pos : two32 <> 0. Proof. discriminate. Qed.

Lemma next_u32_inv ws w r : next_u32 ws = Drawn w r -> w < two32.
Proof.
  destruct ws as [|w0 ws']; cbn; intros H; inversion H; subst.
  apply N.mod_upper_bound, two32_pos.
Qed.

Lemma gen_u8_range ws n r : gen_u8 ws = Drawn n r -> n < 256.
Proof. intros H. apply rng_map_inv in H as (w & _ & ->). apply N.mod_upper_bound. discriminate. Qed.
Lemma gen_u16_range ws n r : gen_u16 ws = Drawn n r -> n < 65536.
Proof. intros H. apply rng_map_inv in H as (w & _ & ->). apply N.mod_upper_bound. discriminate. Qed.
Lemma gen_u32_range ws n r : gen_u32 ws = Drawn n r -> n < two32.
Proof. apply next_u32_inv. Qed.
Lemma gen_u64_range ws n r : gen_u64 ws = Drawn n r -> n < two64.
Proof.
  unfold gen_u64. intros H.
  apply rng_bind_inv in H as (lo & ws1 & H1 & H).
  apply rng_bind_inv in H as (hi & ws2 & H2 & H).
  unfold rng_ret in H. inversion H; subst.
  apply next_u32_inv in H1, H2. unfold two32, two64 in *. lia.
Qed.
Lemma gen_u128_range ws n r : gen_u128 ws = Drawn n r -> n < two64 * two64.
Proof.
  unfold gen_u128. intros H.
  apply rng_bind_inv in H as (x & ws1 & H1 & H).
  apply rng_bind_inv in H as (y & ws2 & H2 & H).
  unfold rng_ret in H. inversion H; subst.
  apply gen_u64_range in H1, H2. unfold two64 in *. lia.
Qed.

Lemma to_signed_in bits n :
  0 < bits -> n < 2 ^ bits -> in_signed bits (to_signed bits n) = true.
Proof.
  intros Hb Hn. unfold in_signed, to_signed.
  assert (E : 2 ^ bits = 2 * 2 ^ (bits - 1)).
  { rewrite <- N.pow_succ_r'. f_equal. lia. }
  set (h := 2 ^ (bits - 1)) in *.
  apply andb_true_intro. destruct (N.ltb_spec n h).
  - split; [apply Z.leb_le | apply Z.ltb_lt]; lia.
  - rewrite E. split; [apply Z.leb_le | apply Z.ltb_lt]; lia.
Qed.

Lemma gen_repeat_ok {A} (P : A -> Prop) (g : rng A) :
  (forall ws a r, g ws = Drawn a r -> P a) ->
  forall n ws l r, gen_repeat n g ws = Drawn l r -> List.length l = n /\ Forall P l.
Proof.
  intros Hg. induction n as [|n IH]; cbn; intros ws l r H.
  - unfold rng_ret in H. inversion H; subst. split; [reflexivity|constructor].
  - apply rng_bind_inv in H as (x & ws1 & H1 & H).
    apply rng_bind_inv in H as (xs & ws2 & H2 & H).
    unfold rng_ret in H. inversion H; subst.
    apply IH in H2 as [L F]. cbn. split; [congruence|]. constructor; eauto.
Qed.

Lemma gen_bytes32_ok ws l r : gen_bytes32 ws = Drawn l r -> bytes32b l = true.
Proof.
  intros H. apply (gen_repeat_ok (fun b => b < 256)) in H as [L F].
  - unfold bytes32b. rewrite L. cbn [N.of_nat]. apply andb_true_intro. split; [reflexivity|].
    apply forallb_forall. rewrite Forall_forall in F. intros x Hx. apply N.ltb_lt. auto.
  - intros ws' a r'. apply gen_u8_range.
Qed.

(** the rejection loop returns an offset below [range] *)
Lemma sample_loop_range range zone ws hi r :
  0 < range -> sample_loop range zone ws = Drawn hi r -> hi < range.
Proof.
  intros Hr. induction ws as [|w ws IH]; cbn; intros H; [discriminate|].
  destruct (_ <=? zone).
  - inversion H; subst.
    assert (W : w mod two32 < two32) by (apply N.mod_upper_bound, two32_pos).
    apply N.div_lt_upper_bound; [apply two32_pos|].
    apply N.mul_lt_mono_pos_r; [exact Hr | exact W].
  - auto.
Qed.

Lemma gen_index_range ub ws i r : 0 < ub -> gen_index ub ws = Drawn i r -> i < ub.
Proof.
  intros Hub. unfold gen_index, sample_u32.
  assert (M : ub mod two32 <= ub) by (apply N.mod_le, two32_pos).
  destruct (N.eqb_spec (ub mod two32) 0) as [E|E]; intros H.
  - apply gen_u32_range in H.
    assert (two32 <= ub).
    { destruct (N.lt_ge_cases ub two32) as [L|L]; [|exact L].
      rewrite N.mod_small in E by exact L. lia. }
    lia.
  - set (m := ub mod two32) in *. apply sample_loop_range in H; lia.
Qed.

(** [choose]: [None] only on the empty list, [Some a] only for a member *)
Lemma choose_inv {A} (l : list A) ws o r :
  choose l ws = Drawn o r ->
  match o with Some a => In a l | None => l = [] end.
Proof.
  destruct l as [|x l]; cbn [choose].
  - unfold rng_ret. intros H; inversion H; reflexivity.
  - intros H. apply rng_bind_inv in H as (i & ws1 & H1 & H).
    unfold rng_ret in H. inversion H; subst.
    apply gen_index_range in H1; [|cbn [List.length]; lia].
    destruct (nth_error (x :: l) (N.to_nat i)) eqn:E.
    + eapply nth_error_In; eauto.
    + apply nth_error_None in E. cbn [List.length] in *. lia.
Qed.

(** * 2. inversion of successful monadic computations *)

Lemma mbind_ok {A B} (x : M A) (f : A -> M B) s b s' :
  mbind x f s = XOk (b, s') -> exists a s1, x s = XOk (a, s1) /\ f a s1 = XOk (b, s').
Proof.
  unfold mbind. destruct (x s) as [[a s1]| |]; intros H; try discriminate. eauto.
Qed.

Lemma mret_ok {A} (a : A) s b s' : mret a s = XOk (b, s') -> b = a /\ s' = s.
Proof. unfold mret. intros H; inversion H; auto. Qed.

Lemma mdraw_ok {A} (d : rng A) s a s' :
  mdraw d s = XOk (a, s') -> d (snd s) = Drawn a (snd s') /\ fst s' = fst s.
Proof.
  unfold mdraw. destruct (d (snd s)) as [a' ws'|]; intros H; inversion H; subst; auto.
Qed.

Lemma choose_unwrap_ok {A} (l : list A) s a s' :
  choose_unwrap l s = XOk (a, s') -> In a l /\ fst s' = fst s.
Proof.
  unfold choose_unwrap. intros H. apply mbind_ok in H as (o & s1 & H1 & H).
  apply mdraw_ok in H1 as [H1 E]. apply choose_inv in H1.
  destruct o as [x|]; [|discriminate]. apply mret_ok in H as [-> ->]. auto.
Qed.

Lemma mmapM_ok {A B} (f : A -> M B) l :
  forall s ys s', mmapM f l s = XOk (ys, s') ->
    Forall2 (fun x y => exists s1 s2, f x s1 = XOk (y, s2)) l ys.
Proof.
  induction l as [|x l IH]; cbn; intros s ys s' H.
  - apply mret_ok in H as [-> _]. constructor.
  - apply mbind_ok in H as (y & s1 & H1 & H). apply mbind_ok in H as (ys' & s2 & H2 & H).
    apply mret_ok in H as [-> _]. constructor; eauto.
Qed.

Lemma mrepeatN_ok {A} (f : M A) len s xs s' :
  mrepeatN len f s = XOk (xs, s') ->
  N.of_nat (List.length xs) = len /\ Forall (fun x => exists s1 s2, f s1 = XOk (x, s2)) xs.
Proof.
  unfold mrepeatN.
  pose (P := fun (n : N) (acc : xres (list A * st)) =>
               match acc with
               | XOk (l, _) => N.of_nat (List.length l) = n /\
                               Forall (fun x => exists s1 s2, f s1 = XOk (x, s2)) l
               | _ => True
               end).
  assert (HP : P len (N.iter len (mrepeat_step f) (XOk ([], s)))).
  { apply N.iter_ind.
    - cbn. split; [reflexivity|constructor].
    - intros n acc Hacc. unfold P in *. destruct acc as [[l s0]| |]; cbn; auto.
      destruct (f s0) as [[x s1]| |] eqn:E; auto.
      destruct Hacc as [L F]. split.
      + cbn [List.length]. lia.
      + constructor; eauto. }
  destruct (N.iter len (mrepeat_step f) (XOk ([], s))) as [[l s0]| |]; intros H; inversion H; subst.
  destruct HP as [L F]. rewrite rev_length. split; [exact L|].
  apply Forall_rev. exact F.
Qed.

(** * 3. every returned value is an instance of its type (C12_valid) *)

Lemma prim_example_typed p s pv s' : prim_example p s = XOk (pv, s') -> prim_typedb p pv = true.
Proof.
  destruct p; cbn [prim_example]; intros H; apply mbind_ok in H as (a & s1 & H1 & H);
    apply mret_ok in H as [-> _]; cbn [prim_typedb];
    try (apply mdraw_ok in H1 as [H1 _]).
  - reflexivity.
  - apply choose_unwrap_ok in H1 as [H1 _]. apply existsb_exists. exists a. split; [exact H1|apply N.eqb_refl].
  - reflexivity.
  - apply N.ltb_lt. apply gen_u8_range in H1. exact H1.
  - apply N.ltb_lt. apply gen_u16_range in H1. exact H1.
  - apply N.ltb_lt. apply gen_u32_range in H1. exact H1.
  - apply N.ltb_lt. apply gen_u64_range in H1. exact H1.
  - apply N.ltb_lt. apply gen_u128_range in H1. exact H1.
  - eapply gen_bytes32_ok; eauto.
  - apply rng_map_inv in H1 as (n & H1 & ->). apply to_signed_in; [reflexivity|].
    apply gen_u8_range in H1. exact H1.
  - apply rng_map_inv in H1 as (n & H1 & ->). apply to_signed_in; [reflexivity|].
    apply gen_u16_range in H1. exact H1.
  - apply rng_map_inv in H1 as (n & H1 & ->). apply to_signed_in; [reflexivity|].
    apply gen_u32_range in H1. exact H1.
  - apply rng_map_inv in H1 as (n & H1 & ->). apply to_signed_in; [reflexivity|].
    apply gen_u64_range in H1. exact H1.
  - apply rng_map_inv in H1 as (n & H1 & ->). apply to_signed_in; [reflexivity|].
    apply gen_u128_range in H1. exact H1.
  - eapply gen_bytes32_ok; eauto.
Qed.

(** shape of a successful [fields_type_example] *)
Lemma fields_example_ok rec fs c s s' :
  fields_example rec fs s = XOk (c, s') ->
  (c = CUnnamed [] /\ fs = []) \/
  (exists l, c = CNamed l /\ fs <> [] /\
     Forall2 (fun f nv => fst f = Some (fst nv) /\ exists s1 s2, rec (snd f) s1 = XOk (snd nv, s2)) fs l) \/
  (exists l, c = CUnnamed l /\
     Forall2 (fun f v => fst f = None /\ exists s1 s2, rec (snd f) s1 = XOk (v, s2)) fs l).
Proof.
  unfold fields_example.
  destruct (forallb (fun f => is_some (fst f)) fs) eqn:EN;
  destruct (forallb (fun f => is_none (fst f)) fs) eqn:EU; intros H.
  - apply mret_ok in H as [-> _]. left. split; [reflexivity|].
    destruct fs as [|[[n|] i] fs]; [reflexivity| |]; cbn in EN, EU; discriminate.
  - apply mbind_ok in H as (l & s1 & H1 & H). apply mret_ok in H as [-> _].
    right; left. exists l. split; [reflexivity|].
    split; [intros ->; discriminate|].
    apply mmapM_ok in H1. clear EU. revert EN H1. clear. intros EN H1.
    induction H1 as [|f nv fs l Hf Hrest IH]; [constructor|].
    cbn in EN. apply andb_prop in EN as [E1 E2]. constructor; [|auto].
    destruct Hf as (s1 & s2 & Hf). unfold named_field in Hf.
    apply mbind_ok in Hf as (v & s3 & Hv & Hf).
    destruct (fst f) as [n|]; [|discriminate].
    apply mret_ok in Hf as [-> _]. cbn. eauto.
  - apply mbind_ok in H as (l & s1 & H1 & H). apply mret_ok in H as [-> _].
    right; right. exists l. split; [reflexivity|].
    apply mmapM_ok in H1. clear EN. revert EU H1. clear. intros EU H1.
    induction H1 as [|f v fs l Hf Hrest IH]; [constructor|].
    cbn in EU. apply andb_prop in EU as [E1 E2]. constructor; [|auto].
    split; [|exact Hf]. destruct (fst f); [discriminate|reflexivity].
  - discriminate.
Qed.

Section Typed.
  Variable rec : N -> M value.
  Variable T : N -> value -> bool.
  Hypothesis rec_typed : forall id s v s', rec id s = XOk (v, s') -> T id v = true.

  Lemma fields_example_typed fs c s s' :
    fields_example rec (field_pairs fs) s = XOk (c, s') -> fields_typedb T fs c = true.
  Proof.
    intros H. apply fields_example_ok in H as [[-> E]|[(l & -> & _ & F)|(l & -> & F)]].
    - destruct fs; [reflexivity|discriminate].
    - cbn [fields_typedb]. unfold field_pairs in F. revert l F.
      induction fs as [|f fs IH]; intros l F; inversion F; subst; [reflexivity|].
      cbn [map fst snd forallb2] in *. destruct H1 as [E (s1 & s2 & Hr)]. cbn in E, Hr.
      rewrite E. rewrite String.eqb_refl. rewrite (rec_typed _ _ _ _ Hr). cbn. apply IH. assumption.
    - cbn [fields_typedb]. unfold field_pairs in F. revert l F.
      induction fs as [|f fs IH]; intros l F; inversion F; subst; [reflexivity|].
      cbn [map fst snd forallb2] in *. destruct H1 as [E (s1 & s2 & Hr)]. cbn in E, Hr.
      rewrite E. cbn [is_none]. rewrite (rec_typed _ _ _ _ Hr). cbn. apply IH. assumption.
  Qed.

  Lemma tuple_example_typed ts c s s' :
    fields_example rec (map (fun i => (@None string, i)) ts) s = XOk (c, s') ->
    exists l, c = CUnnamed l /\ forallb2 T ts l = true.
  Proof.
    intros H. apply fields_example_ok in H as [[-> E]|[(l & -> & NE & F)|(l & -> & F)]].
    - exists []. destruct ts; [auto|discriminate].
    - exfalso. destruct ts as [|t ts]; [apply NE; reflexivity|].
      inversion F; subst. destruct H1 as [E _]. discriminate.
    - exists l. split; [reflexivity|]. revert l F.
      induction ts as [|t ts IH]; intros l F; inversion F; subst; [reflexivity|].
      cbn [map fst snd forallb2] in *. destruct H1 as [_ (s1 & s2 & Hr)]. cbn in Hr.
      rewrite (rec_typed _ _ _ _ Hr). cbn. apply IH. assumption.
  Qed.

  Lemma ty_example_typed t s v s' :
    ty_example rec t s = XOk (v, s') -> ty_typedb T t v = true.
  Proof.
    unfold ty_example, ty_typedb. destruct (t_def t) as [fs|vs|e|len e|ts|p|e|st o]; intros H.
    - apply mbind_ok in H as (c & s1 & H1 & H). apply mret_ok in H as [-> _].
      eapply fields_example_typed; eauto.
    - apply mbind_ok in H as (o & s1 & H1 & H). apply mdraw_ok in H1 as [H1 _].
      apply choose_inv in H1. destruct o as [var|]; [|discriminate].
      apply mbind_ok in H as (c & s2 & H2 & H). apply mret_ok in H as [-> _].
      apply existsb_exists. exists var. split; [exact H1|].
      rewrite String.eqb_refl. cbn. eapply fields_example_typed; eauto.
    - apply mbind_ok in H as (v1 & s1 & H1 & H). apply mbind_ok in H as (v2 & s2 & H2 & H).
      apply mret_ok in H as [-> _]. cbn.
      rewrite (rec_typed _ _ _ _ H1), (rec_typed _ _ _ _ H2). reflexivity.
    - apply mbind_ok in H as (vs & s1 & H1 & H). apply mret_ok in H as [-> _].
      apply mrepeatN_ok in H1 as [L F]. apply andb_true_intro. split; [apply N.eqb_eq; exact L|].
      apply forallb_forall. rewrite Forall_forall in F. intros x Hx.
      destruct (F x Hx) as (s2 & s3 & Hr). eapply rec_typed; eauto.
    - apply mbind_ok in H as (c & s1 & H1 & H). apply mret_ok in H as [-> _].
      apply tuple_example_typed in H1 as (l & -> & Hl). exact Hl.
    - apply mbind_ok in H as (pv & s1 & H1 & H). apply mret_ok in H as [-> _].
      eapply prim_example_typed; eauto.
    - eapply rec_typed; eauto.
    - apply mbind_ok in H as (n & s1 & H1 & H). apply mbind_ok in H as (bits & s2 & H2 & H).
      apply mret_ok in H as [-> _]. reflexivity.
  Qed.
End Typed.

Lemma resolve_go_typed r : forall fuel id s v s',
  resolve_go fuel r id s = XOk (v, s') -> has_type_fuel fuel r id v = true.
Proof.
  induction fuel as [|fuel IH]; intros id s v s' H; [discriminate|].
  cbn [resolve_go has_type_fuel] in *.
  destruct (lookup r id) as [t|]; [|discriminate].
  assert (Hty : forall s0, ty_example (resolve_go fuel r) t s0 = XOk (v, s0) -> True) by auto.
  destruct (cache_get (fst s) id) as [[|cv]|];
    try discriminate;
    (destruct (ty_example (resolve_go fuel r) t (cache_set id CRecursive (fst s), snd s))
       as [[v0 s0]| |] eqn:E; inversion H; subst;
     eapply ty_example_typed; [|exact E]; exact IH).
Qed.

(** ** monotonicity of the checker in its fuel and in the recursive judgement *)
Lemma forallb2_mono {A B} (p q : A -> B -> bool) la lb :
  (forall a b, p a b = true -> q a b = true) -> forallb2 p la lb = true -> forallb2 q la lb = true.
Proof.
  intros Hpq. revert lb. induction la as [|a la IH]; destruct lb as [|b lb]; cbn; auto.
  intros H. apply andb_prop in H as [H1 H2]. rewrite (Hpq _ _ H1). cbn. auto.
Qed.

Lemma forallb_mono {A} (p q : A -> bool) l :
  (forall a, p a = true -> q a = true) -> forallb p l = true -> forallb q l = true.
Proof.
  intros Hpq. induction l as [|a l IH]; cbn; auto.
  intros H. apply andb_prop in H as [H1 H2]. rewrite (Hpq _ H1). cbn. auto.
Qed.

Lemma fields_typedb_mono (T T' : N -> value -> bool) fs c :
  (forall id v, T id v = true -> T' id v = true) ->
  fields_typedb T fs c = true -> fields_typedb T' fs c = true.
Proof.
  intros HT. destruct c as [l|l]; cbn [fields_typedb]; apply forallb2_mono.
  - intros f nv. destruct (f_name f); [|auto]. intros H. apply andb_prop in H as [H1 H2].
    rewrite H1, (HT _ _ H2). reflexivity.
  - intros f v H. apply andb_prop in H as [H1 H2]. rewrite H1, (HT _ _ H2). reflexivity.
Qed.

Lemma ty_typedb_mono (T T' : N -> value -> bool) t v :
  (forall id v, T id v = true -> T' id v = true) ->
  ty_typedb T t v = true -> ty_typedb T' t v = true.
Proof.
  intros HT. unfold ty_typedb. destruct (t_def t) as [fs|vs|e|len e|ts|p|e|st o].
  - destruct v; auto. apply fields_typedb_mono; auto.
  - destruct v; auto. intros H. apply existsb_exists in H as (var & Hin & H).
    apply existsb_exists. exists var. split; [exact Hin|].
    apply andb_prop in H as [H1 H2]. rewrite H1. cbn. eapply fields_typedb_mono; eauto.
  - destruct v as [[l|l]| | |]; auto. apply forallb_mono. auto.
  - destruct v as [[l|l]| | |]; auto. intros H. apply andb_prop in H as [H1 H2].
    rewrite H1. cbn. eapply forallb_mono; [|exact H2]. auto.
  - destruct v as [[l|l]| | |]; auto. apply forallb2_mono. auto.
  - auto.
  - auto.
  - auto.
Qed.

Lemma has_type_fuel_mono r : forall f f' id v,
  (f <= f')%nat -> has_type_fuel f r id v = true -> has_type_fuel f' r id v = true.
Proof.
  induction f as [|f IH]; intros f' id v Hle H; [discriminate|].
  destruct f' as [|f']; [lia|]. cbn [has_type_fuel] in *.
  destruct (lookup r id) as [t|]; [|discriminate].
  eapply ty_typedb_mono; [|exact H]. intros id' v'. apply IH. lia.
Qed.

Lemma value_depth_pos v : (1 <= value_depth v)%nat.
Proof. destruct v; cbn; lia. Qed.

Theorem example_value_typedb r id ws v :
  example_value r id ws = XOk v -> has_typeb r id v = true.
Proof.
  unfold example_value, example_run. intros H.
  destruct (resolve_go (example_fuel r) r id ([], ws)) as [[v0 s0]| |] eqn:E; inversion H; subst.
  apply resolve_go_typed in E. unfold has_typeb.
  eapply has_type_fuel_mono; [|exact E]. unfold example_fuel.
  pose proof (value_depth_pos v). nia.
Qed.

(** ** soundness of the checker w.r.t. the typing relation *)
Lemma forallb2_Forall2 {A B} (p : A -> B -> bool) (P : A -> B -> Prop) la lb :
  (forall a b, p a b = true -> P a b) -> forallb2 p la lb = true -> Forall2 P la lb.
Proof.
  intros HpP. revert lb. induction la as [|a la IH]; destruct lb as [|b lb]; cbn; intros H;
    try discriminate; constructor; apply andb_prop in H as [H1 H2]; auto.
Qed.

Lemma has_type_fuel_sound r : forall f id v, has_type_fuel f r id v = true -> has_type r id v.
Proof.
  induction f as [|f IH]; intros id v H; [discriminate|].
  cbn [has_type_fuel] in H. destruct (lookup r id) as [t|] eqn:EL; [|discriminate].
  unfold ty_typedb in H. destruct (t_def t) as [fs|vs|e|len e|ts|p|e|st o] eqn:ED.
  - destruct v as [[l|l]| | |]; try discriminate; cbn [fields_typedb] in H.
    + eapply HT_comp_named; eauto. eapply forallb2_Forall2; [|exact H].
      intros fl nv Hf. cbn beta in Hf. destruct (f_name fl) as [n|]; [|discriminate].
      apply andb_prop in Hf as [H1 H2]. apply String.eqb_eq in H1. split; [congruence|auto].
    + eapply HT_comp_unnamed; eauto. eapply forallb2_Forall2; [|exact H].
      intros fl x Hf. cbn beta in Hf. apply andb_prop in Hf as [H1 H2].
      destruct (f_name fl); [discriminate|]. auto.
  - destruct v as [|name c| |]; try discriminate.
    apply existsb_exists in H as (var & Hin & H). apply andb_prop in H as [H1 H2].
    apply String.eqb_eq in H1. subst name.
    destruct c as [l|l]; cbn [fields_typedb] in H2.
    + eapply HT_var_named; eauto. eapply forallb2_Forall2; [|exact H2].
      intros fl nv Hf. cbn beta in Hf. destruct (f_name fl) as [n|]; [|discriminate].
      apply andb_prop in Hf as [H3 H4]. apply String.eqb_eq in H3. split; [congruence|auto].
    + eapply HT_var_unnamed; eauto. eapply forallb2_Forall2; [|exact H2].
      intros fl x Hf. cbn beta in Hf. apply andb_prop in Hf as [H3 H4].
      destruct (f_name fl); [discriminate|]. auto.
  - destruct v as [[l|l]| | |]; try discriminate.
    eapply HT_seq; eauto. apply Forall_forall. intros x Hx.
    apply IH. rewrite forallb_forall in H. auto.
  - destruct v as [[l|l]| | |]; try discriminate. apply andb_prop in H as [H1 H2].
    eapply HT_array; eauto. { apply N.eqb_eq. exact H1. }
    apply Forall_forall. intros x Hx. apply IH. rewrite forallb_forall in H2. auto.
  - destruct v as [[l|l]| | |]; try discriminate.
    eapply HT_tuple; eauto. eapply forallb2_Forall2; [|exact H]. auto.
  - destruct v as [| |pv|]; try discriminate. eapply HT_prim; eauto.
  - eapply HT_compact; eauto.
  - destruct v; try discriminate. eapply HT_bits; eauto.
Qed.

Theorem example_value_has_type r id ws v :
  example_value r id ws = XOk v -> has_type r id v.
Proof.
  intros H. apply example_value_typedb in H. eapply has_type_fuel_sound. exact H.
Qed.

(** * 4. the cache: which ids are in progress *)

Definition inprog (c : cache) (id : N) : bool :=
  match cache_get c id with Some CRecursive => true | _ => false end.

Definition same_inprog (c c' : cache) : Prop := forall j, inprog c j = inprog c' j.

Lemma cache_get_set id e c j :
  cache_get (cache_set id e c) j = if id =? j then Some e else cache_get c j.
Proof.
  induction c as [|[k e'] c IH]; cbn.
  - reflexivity.
  - destruct (N.eqb_spec k id) as [->|Hk]; cbn.
    + destruct (N.eqb_spec id j); reflexivity.
    + rewrite IH. destruct (N.eqb_spec k j) as [->|Hj]; [|reflexivity].
      destruct (N.eqb_spec id j); [congruence|reflexivity].
Qed.

Lemma inprog_set_rec id c j : inprog (cache_set id CRecursive c) j = (id =? j) || inprog c j.
Proof. unfold inprog. rewrite cache_get_set. destruct (id =? j); reflexivity. Qed.

Lemma inprog_set_computed id v c j :
  inprog (cache_set id (CComputed v) c) j = negb (id =? j) && inprog c j.
Proof. unfold inprog. rewrite cache_get_set. destruct (id =? j); reflexivity. Qed.

(** * 5. a Hoare-style judgement for the state monad:
    started in a state whose in-progress set is that of [c0], the computation
    either succeeds in such a state with a result satisfying [Q], or fails
    with an error allowed by [G]; it never panics. *)
Section Ok.
  Variable G : xerr -> Prop.
  Variable c0 : cache.
  Hypothesis GW : G XOutOfWords.

  Definition Inv (s : st) : Prop := same_inprog c0 (fst s).

  Definition okQ {A} (m : M A) (Q : A -> Prop) : Prop :=
    forall s, Inv s ->
      match m s with
      | XOk (a, s') => Inv s' /\ Q a
      | XErr e => G e
      | XPanic _ => False
      end.

  Lemma okQ_ret {A} (a : A) (Q : A -> Prop) : Q a -> okQ (mret a) Q.
  Proof. intros HQ s Hs. cbn. auto. Qed.

  Lemma okQ_fail {A} e (Q : A -> Prop) : G e -> okQ (mfail e) Q.
  Proof. intros HG s Hs. cbn. auto. Qed.

  Lemma okQ_bind {A B} (x : M A) (f : A -> M B) Q R :
    okQ x Q -> (forall a, Q a -> okQ (f a) R) -> okQ (mbind x f) R.
  Proof.
    intros Hx Hf s Hs. unfold mbind. specialize (Hx s Hs).
    destruct (x s) as [[a s1]| |]; auto. destruct Hx as [Hs1 Ha]. apply Hf; auto.
  Qed.

  Lemma okQ_weaken {A} (m : M A) (Q Q' : A -> Prop) :
    okQ m Q -> (forall a, Q a -> Q' a) -> okQ m Q'.
  Proof.
    intros Hm HQ s Hs. specialize (Hm s Hs). destruct (m s) as [[a s1]| |]; auto.
    destruct Hm; auto.
  Qed.

  Lemma okQ_draw {A} (d : rng A) (Q : A -> Prop) :
    (forall ws a r, d ws = Drawn a r -> Q a) -> okQ (mdraw d) Q.
  Proof.
    intros Hd s Hs. unfold mdraw. destruct (d (snd s)) as [a ws'|] eqn:E; [|exact GW].
    cbn. split; [exact Hs|eauto].
  Qed.

  Lemma okQ_mmapM {A B} (f : A -> M B) l :
    (forall x, In x l -> okQ (f x) (fun _ => True)) -> okQ (mmapM f l) (fun _ => True).
  Proof.
    induction l as [|x l IH]; cbn [mmapM]; intros Hf.
    - apply okQ_ret. exact I.
    - eapply okQ_bind; [apply Hf; left; reflexivity|]. intros y _.
      eapply okQ_bind; [apply IH; intros; apply Hf; right; assumption|]. intros ys _.
      apply okQ_ret. exact I.
  Qed.

  Lemma okQ_repeatN {A} (f : M A) len :
    okQ f (fun _ => True) -> okQ (mrepeatN len f) (fun _ => True).
  Proof.
    intros Hf s Hs. unfold mrepeatN.
    pose (P := fun (n : N) (acc : xres (list A * st)) =>
                 match acc with
                 | XOk (_, s') => Inv s'
                 | XErr e => G e
                 | XPanic _ => False
                 end).
    assert (HP : P len (N.iter len (mrepeat_step f) (XOk ([], s)))).
    { apply N.iter_ind; [exact Hs|].
      intros n acc Hacc. unfold P in *. destruct acc as [[l s0]| |]; cbn; auto.
      specialize (Hf s0 Hacc). destruct (f s0) as [[x s1]| |]; auto. destruct Hf; auto. }
    unfold P in HP. destruct (N.iter len (mrepeat_step f) (XOk ([], s))) as [[l s0]| |]; auto.
  Qed.

  Lemma okQ_choose_unwrap {A} (l : list A) : l <> [] -> okQ (choose_unwrap l) (fun _ => True).
  Proof.
    intros Hl. unfold choose_unwrap. eapply okQ_bind.
    - apply (okQ_draw (choose l) (fun o => o <> None)).
      intros ws o r H. apply choose_inv in H. destruct o; [discriminate|]. contradiction.
    - intros [a|] Ho; [|contradiction]. apply okQ_ret. exact I.
  Qed.

  Lemma okQ_prim p : okQ (prim_example p) (fun _ => True).
  Proof.
    destruct p; cbn [prim_example];
      (eapply okQ_bind;
       [ first [ apply okQ_choose_unwrap; discriminate
               | apply (okQ_draw _ (fun _ => True)); auto ]
       | intros; apply okQ_ret; exact I ]).
  Qed.

  Section Fields.
    Variable rec : N -> M value.

    Lemma okQ_fields (fs : list (option string * N)) :
      (forall f, In f fs -> okQ (rec (snd f)) (fun _ => True)) ->
      G XMixedFields \/
        forallb (fun f => is_some (fst f)) fs || forallb (fun f => is_none (fst f)) fs = true ->
      okQ (fields_example rec fs) (fun _ => True).
    Proof.
      intros Hrec Hmix. unfold fields_example.
      destruct (forallb (fun f => is_some (fst f)) fs) eqn:EN;
      destruct (forallb (fun f => is_none (fst f)) fs) eqn:EU.
      - apply okQ_ret. exact I.
      - eapply okQ_bind; [|intros; apply okQ_ret; exact I].
        apply okQ_mmapM. intros f Hf. unfold named_field.
        eapply okQ_bind; [apply Hrec; exact Hf|]. intros v _.
        rewrite forallb_forall in EN. specialize (EN f Hf).
        destruct (fst f); [apply okQ_ret; exact I|discriminate].
      - eapply okQ_bind; [|intros; apply okQ_ret; exact I].
        apply okQ_mmapM. intros f Hf. apply Hrec. exact Hf.
      - apply okQ_fail. destruct Hmix as [H|H]; [exact H|discriminate].
    Qed.

    Lemma field_pairs_named fs :
      forallb (fun f => is_some (fst f)) (field_pairs fs) = all_named fs.
    Proof.
      unfold field_pairs, all_named. induction fs as [|f fs IH]; cbn; [reflexivity|].
      rewrite IH. destruct (f_name f); reflexivity.
    Qed.
    Lemma field_pairs_unnamed fs :
      forallb (fun f => is_none (fst f)) (field_pairs fs) = all_unnamed fs.
    Proof.
      unfold field_pairs, all_unnamed. induction fs as [|f fs IH]; cbn; [reflexivity|].
      rewrite IH. destruct (f_name f); reflexivity.
    Qed.

    Lemma okQ_fields_of (fs : list field) :
      (forall k, In k (map f_ty fs) -> okQ (rec k) (fun _ => True)) ->
      G XMixedFields \/ fields_uniform fs = true ->
      okQ (fields_example rec (field_pairs fs)) (fun _ => True).
    Proof.
      intros Hrec Hmix. apply okQ_fields.
      - intros f Hf. apply Hrec. unfold field_pairs in Hf. apply in_map_iff in Hf as (f0 & <- & Hf0).
        cbn. apply in_map. exact Hf0.
      - rewrite field_pairs_named, field_pairs_unnamed. exact Hmix.
    Qed.

    Definition kids (d : typedef) : list N :=
      match d with
      | TDComposite fs => map f_ty fs
      | TDVariant vs => flat_map (fun v => map f_ty (v_fields v)) vs
      | TDSequence e => [e]
      | TDArray _ e => [e]
      | TDTuple ts => ts
      | TDPrimitive _ => []
      | TDCompact e => [e]
      | TDBitSeq _ _ => []
      end.

    Definition uniform_def (d : typedef) : Prop :=
      match d with
      | TDComposite fs => fields_uniform fs = true
      | TDVariant vs => forall v, In v vs -> fields_uniform (v_fields v) = true
      | _ => True
      end.

    Definition nonempty_def (d : typedef) : Prop :=
      match d with TDVariant [] => False | _ => True end.

    Lemma okQ_ty_example t :
      (forall k, In k (kids (t_def t)) -> okQ (rec k) (fun _ => True)) ->
      G XEmptyEnum \/ nonempty_def (t_def t) ->
      G XMixedFields \/ uniform_def (t_def t) ->
      okQ (ty_example rec t) (fun _ => True).
    Proof.
      intros Hrec Hemp Hmix. unfold ty_example.
      destruct (t_def t) as [fs|vs|e|len e|ts|p|e|st o]; cbn [kids uniform_def nonempty_def] in *.
      - eapply okQ_bind; [|intros; apply okQ_ret; exact I].
        apply okQ_fields_of; [exact Hrec|exact Hmix].
      - eapply okQ_bind.
        + apply (okQ_draw (choose vs) (fun o => match o with Some a => In a vs | None => vs = [] end)).
          intros ws o r H. apply choose_inv in H. exact H.
        + intros [var|] Ho.
          * eapply okQ_bind; [|intros; apply okQ_ret; exact I].
            apply okQ_fields_of.
            -- intros k Hk. apply Hrec. apply in_flat_map. exists var. split; assumption.
            -- destruct Hmix as [H|H]; [left; exact H|right; apply H; exact Ho].
          * apply okQ_fail. destruct Hemp as [H|H]; [exact H|]. subst vs. contradiction.
      - eapply okQ_bind; [apply Hrec; left; reflexivity|]. intros v1 _.
        eapply okQ_bind; [apply Hrec; left; reflexivity|]. intros v2 _.
        apply okQ_ret. exact I.
      - eapply okQ_bind; [|intros; apply okQ_ret; exact I].
        apply okQ_repeatN. apply Hrec. left. reflexivity.
      - eapply okQ_bind; [|intros; apply okQ_ret; exact I].
        apply okQ_fields.
        + intros f Hf. apply in_map_iff in Hf as (i & <- & Hi). cbn. apply Hrec. exact Hi.
        + right. apply orb_true_intro. right. apply forallb_forall.
          intros f Hf. apply in_map_iff in Hf as (i & <- & Hi). reflexivity.
      - eapply okQ_bind; [apply okQ_prim|]. intros; apply okQ_ret; exact I.
      - apply Hrec. left. reflexivity.
      - eapply okQ_bind; [apply (okQ_draw _ (fun _ => True)); auto|]. intros n _.
        eapply okQ_bind; [apply (okQ_draw _ (fun _ => True)); auto|]. intros bits _.
        apply okQ_ret. exact I.
    Qed.
  End Fields.
End Ok.

(** one [Transformer::resolve] step, given the judgement for the policy run
    with [id] marked in progress *)
Lemma resolve_step (G : xerr -> Prop) c0 fuel r id t :
  G (XRecursive id) \/ inprog c0 id = false ->
  lookup r id = Some t ->
  (inprog c0 id = false ->
   forall c1, (forall j, inprog c1 j = (id =? j) || inprog c0 j) ->
     okQ G c1 (ty_example (resolve_go fuel r) t) (fun _ => True)) ->
  okQ G c0 (resolve_go (S fuel) r id) (fun _ => True).
Proof.
  intros Hrec Hl Hpol s Hs. cbn [resolve_go]. rewrite Hl.
  assert (Hid : inprog (fst s) id = inprog c0 id) by (symmetry; apply Hs).
  unfold inprog in Hid at 1.
  assert (Hgo : inprog c0 id = false ->
    match
      match ty_example (resolve_go fuel r) t (cache_set id CRecursive (fst s), snd s) with
      | XOk (v, s') => XOk (v, (cache_set id (CComputed v) (fst s'), snd s'))
      | XErr e => XErr e
      | XPanic m => XPanic m
      end
    with
    | XOk (_, s') => Inv c0 s' /\ True
    | XErr e => G e
    | XPanic _ => False
    end).
  { intros H0.
    pose (c1 := cache_set id CRecursive (fst s)).
    assert (H1 : forall j, inprog c1 j = (id =? j) || inprog c0 j).
    { intros j. unfold c1. rewrite inprog_set_rec. rewrite (Hs j). reflexivity. }
    specialize (Hpol H0 c1 H1 (c1, snd s)).
    assert (Hi : Inv c1 (c1, snd s)) by (intros j; reflexivity).
    specialize (Hpol Hi). fold c1.
    destruct (ty_example (resolve_go fuel r) t (c1, snd s)) as [[v s2]| |]; auto.
    destruct Hpol as [Hs2 _]. split; [|exact I].
    intros j. cbn [fst]. rewrite inprog_set_computed. rewrite <- (Hs2 j), H1.
    destruct (N.eqb_spec id j) as [->|Hj]; cbn; [exact H0|reflexivity]. }
  destruct (cache_get (fst s) id) as [[|cv]|].
  - destruct Hrec as [H|H]; [exact H|]. rewrite H in Hid. discriminate.
  - apply Hgo. symmetry. exact Hid.
  - apply Hgo. symmetry. exact Hid.
Qed.

(** * 6. totality: the fuel [S (length r)] never runs out, no panic *)

Definition reg_ids (r : registry) : list N := map N.of_nat (seq 0 (List.length r)).

(** number of registry ids NOT in progress *)
Definition free (r : registry) (c : cache) : nat :=
  List.length (filter (fun j => negb (inprog c j)) (reg_ids r)).

Lemma lookup_in_ids r id t : lookup r id = Some t -> In id (reg_ids r).
Proof.
  unfold lookup. destruct (N.ltb_spec id (N.of_nat (List.length r))) as [H|H]; [|discriminate].
  intros _. unfold reg_ids. apply in_map_iff. exists (N.to_nat id). split; [apply N2Nat.id|].
  apply in_seq. lia.
Qed.

Lemma filter_length_lt {A} (p q : A -> bool) l x :
  (forall a, q a = true -> p a = true) -> In x l -> p x = true -> q x = false ->
  (List.length (filter q l) < List.length (filter p l))%nat.
Proof.
  intros Hqp. induction l as [|a l IH]; intros Hin Hp Hq; [destruct Hin|].
  assert (Hle : forall l', (List.length (filter q l') <= List.length (filter p l'))%nat).
  { induction l' as [|b l' IH']; cbn; [lia|].
    destruct (q b) eqn:Eq.
    - rewrite (Hqp _ Eq). cbn. lia.
    - destruct (p b); cbn; lia. }
  cbn. destruct Hin as [->|Hin].
  - rewrite Hp, Hq. cbn. specialize (Hle l). lia.
  - specialize (IH Hin Hp Hq). destruct (q a) eqn:Eq.
    + rewrite (Hqp _ Eq). cbn. lia.
    + destruct (p a); cbn; lia.
Qed.

Lemma free_decreases r c0 c1 id t :
  lookup r id = Some t -> inprog c0 id = false ->
  (forall j, inprog c1 j = (id =? j) || inprog c0 j) ->
  (free r c1 < free r c0)%nat.
Proof.
  intros Hl H0 H1. unfold free. apply (filter_length_lt _ _ _ id).
  - intros a Ha. rewrite H1 in Ha. destruct (id =? a); [discriminate|exact Ha].
  - eapply lookup_in_ids; eauto.
  - rewrite H0. reflexivity.
  - rewrite H1, N.eqb_refl. reflexivity.
Qed.

Definition not_fuel (e : xerr) : Prop := e <> XOutOfFuel.

Lemma resolve_go_total r : forall fuel id c0,
  (free r c0 < fuel)%nat -> okQ not_fuel c0 (resolve_go fuel r id) (fun _ => True).
Proof.
  induction fuel as [|fuel IH]; intros id c0 Hfree; [lia|].
  destruct (lookup r id) as [t|] eqn:El.
  - apply (resolve_step not_fuel c0 fuel r id t); [left; discriminate|exact El|].
    intros H0 c1 H1. apply okQ_ty_example.
    + discriminate.
    + intros k _. apply IH. pose proof (free_decreases r c0 c1 id t El H0 H1). lia.
    + left. discriminate.
    + left. discriminate.
  - intros s Hs. cbn [resolve_go]. rewrite El. discriminate.
Qed.

Lemma filter_all {A} (p : A -> bool) l : (forall x, In x l -> p x = true) -> filter p l = l.
Proof.
  induction l as [|a l IH]; cbn; intros H; [reflexivity|].
  rewrite (H a) by (left; reflexivity). f_equal. apply IH. intros; apply H; right; assumption.
Qed.

Lemma free_nil r : free r [] = List.length r.
Proof.
  unfold free, reg_ids. rewrite filter_all; [now rewrite map_length, seq_length|].
  intros x _. reflexivity.
Qed.

Definition documented (e : xerr) : Prop :=
  match e with
  | XRecursive _ | XEmptyEnum | XMixedFields | XNotFound _ | XOutOfWords => True
  | XOutOfFuel => False
  end.

Theorem example_value_total r id ws :
  match example_value r id ws with
  | XOk _ => True
  | XErr e => documented e
  | XPanic _ => False
  end.
Proof.
  unfold example_value, example_run.
  pose proof (resolve_go_total r (example_fuel r) id []) as H.
  assert (Hf : (free r [] < example_fuel r)%nat) by (rewrite free_nil; unfold example_fuel; lia).
  specialize (H Hf ([], ws)). cbn beta in H.
  assert (Hi : Inv [] ([], ws)) by (intros j; reflexivity).
  specialize (H Hi).
  destruct (resolve_go (example_fuel r) r id ([], ws)) as [[v s]| |]; auto.
  unfold not_fuel in H. destruct e; cbn; auto.
Qed.

(** in a closed registry an id below the length never yields "not found" *)
Definition no_notfound (e : xerr) : Prop :=
  match e with XNotFound _ | XOutOfFuel => False | _ => True end.

Lemma closed_kids r id t k :
  closed_reg r = true -> lookup r id = Some t -> In k (kids (t_def t)) ->
  k < N.of_nat (List.length r).
Proof.
  intros Hc Hl Hk. unfold lookup in Hl.
  destruct (id <? N.of_nat (List.length r)); [|discriminate].
  unfold resolve in Hl. destruct (nth_error r (N.to_nat id)) as [[i t']|] eqn:En; [|discriminate].
  inversion Hl; subst t'. apply nth_error_In in En.
  unfold closed_reg in Hc. rewrite forallb_forall in Hc. specialize (Hc _ En). cbn [snd] in Hc.
  rewrite forallb_forall in Hc. apply N.ltb_lt. apply Hc. apply in_or_app. right.
  unfold kids in Hk. unfold def_ids. destruct (t_def t); try exact Hk; try (destruct Hk).
Qed.

Lemma lookup_some r id : id < N.of_nat (List.length r) -> exists t, lookup r id = Some t.
Proof.
  intros H. unfold lookup. destruct (N.ltb_spec id (N.of_nat (List.length r))); [|lia].
  unfold resolve. destruct (nth_error r (N.to_nat id)) as [[i t]|] eqn:E; [eauto|].
  apply nth_error_None in E. lia.
Qed.

Lemma resolve_go_total_closed r : closed_reg r = true -> forall fuel id c0,
  id < N.of_nat (List.length r) ->
  (free r c0 < fuel)%nat -> okQ no_notfound c0 (resolve_go fuel r id) (fun _ => True).
Proof.
  intros Hc. induction fuel as [|fuel IH]; intros id c0 Hid Hfree; [lia|].
  destruct (lookup_some r id Hid) as [t El].
  apply (resolve_step no_notfound c0 fuel r id t); [left; exact I|exact El|].
  intros H0 c1 H1. apply okQ_ty_example.
  - exact I.
  - intros k Hk. apply IH.
    + eapply closed_kids; eauto.
    + pose proof (free_decreases r c0 c1 id t El H0 H1). lia.
  - left. exact I.
  - left. exact I.
Qed.

Theorem example_value_total_closed r id ws :
  closed_reg r = true -> id < N.of_nat (List.length r) ->
  match example_value r id ws with
  | XOk _ => True
  | XErr e => match e with
              | XRecursive _ | XEmptyEnum | XMixedFields | XOutOfWords => True
              | XNotFound _ | XOutOfFuel => False
              end
  | XPanic _ => False
  end.
Proof.
  intros Hc Hid. unfold example_value, example_run.
  pose proof (resolve_go_total_closed r Hc (example_fuel r) id [] Hid) as H.
  assert (Hf : (free r [] < example_fuel r)%nat) by (rewrite free_nil; unfold example_fuel; lia).
  specialize (H Hf ([], ws)). cbn beta in H.
  assert (Hi : Inv [] ([], ws)) by (intros j; reflexivity).
  specialize (H Hi).
  destruct (resolve_go (example_fuel r) r id ([], ws)) as [[v s]| |]; auto.
Qed.

(** * 7. a value is returned when nothing bad is reachable (C12_returns) *)

Definition only_words (e : xerr) : Prop := e = XOutOfWords.

Lemma resolve_go_returns r : forall fuel id path c0,
  safe_path fuel r path id = true ->
  (forall j, inprog c0 j = true -> In j path) ->
  okQ only_words c0 (resolve_go fuel r id) (fun _ => True).
Proof.
  induction fuel as [|fuel IH]; intros id path c0 Hsafe Hpath; [discriminate|].
  cbn [safe_path] in Hsafe.
  destruct (lookup r id) as [t|] eqn:El; [|discriminate].
  destruct (existsb (N.eqb id) path) eqn:Hnp; [discriminate|]. rename Hsafe into Hdef.
  assert (H0 : inprog c0 id = false).
  { destruct (inprog c0 id) eqn:E; [|reflexivity].
    apply Hpath in E.
    assert (existsb (N.eqb id) path = true) by (apply existsb_exists; exists id; split; [exact E|apply N.eqb_refl]).
    congruence. }
  apply (resolve_step only_words c0 fuel r id t); [right; exact H0|exact El|].
  intros _ c1 H1.
  assert (Hp1 : forall j, inprog c1 j = true -> In j (id :: path)).
  { intros j Hj. rewrite H1 in Hj. apply orb_prop in Hj as [Hj|Hj].
    - left. apply N.eqb_eq. exact Hj.
    - right. apply Hpath. exact Hj. }
  apply okQ_ty_example.
  - reflexivity.
  - intros k Hk. apply (IH k (id :: path) c1); [|exact Hp1].
    unfold kids in Hk. destruct (t_def t) as [fs|vs|e|len e|ts|p|e|st o].
    + apply andb_prop in Hdef as [_ Hd]. rewrite forallb_forall in Hd. auto.
    + apply andb_prop in Hdef as [_ Hd]. rewrite forallb_forall in Hd.
      apply in_flat_map in Hk as (var & Hv & Hk). specialize (Hd var Hv).
      apply andb_prop in Hd as [_ Hd]. rewrite forallb_forall in Hd. auto.
    + destruct Hk as [<-|[]]. exact Hdef.
    + destruct Hk as [<-|[]]. exact Hdef.
    + rewrite forallb_forall in Hdef. auto.
    + destruct Hk.
    + destruct Hk as [<-|[]]. exact Hdef.
    + destruct Hk.
  - right. unfold nonempty_def. destruct (t_def t) as [fs|vs|e|len e|ts|p|e|st o]; auto.
    destruct vs; [discriminate|exact I].
  - right. unfold uniform_def. destruct (t_def t) as [fs|vs|e|len e|ts|p|e|st o]; auto.
    + apply andb_prop in Hdef as [Hd _]. exact Hd.
    + apply andb_prop in Hdef as [_ Hd]. rewrite forallb_forall in Hd.
      intros var Hv. specialize (Hd var Hv). apply andb_prop in Hd as [Hd _]. exact Hd.
Qed.

Theorem example_value_returns r id ws :
  safeb r id = true ->
  (exists v, example_value r id ws = XOk v) \/ example_value r id ws = XErr XOutOfWords.
Proof.
  intros Hs. unfold example_value, example_run, safeb in *.
  pose proof (resolve_go_returns r (example_fuel r) id [] [] Hs) as H.
  assert (Hp : forall j, inprog [] j = true -> In j []) by (intros j Hj; discriminate).
  specialize (H Hp ([], ws)). cbn beta in H.
  assert (Hi : Inv [] ([], ws)) by (intros j; reflexivity).
  specialize (H Hi).
  destruct (resolve_go (example_fuel r) r id ([], ws)) as [[v s]| |].
  - left. eauto.
  - right. unfold only_words in H. congruence.
  - contradiction.
Qed.

(** [lookup] is [Registry.resolve] *)
Lemma lookup_resolve r id : lookup r id = resolve r id.
Proof.
  unfold lookup. destruct (N.ltb_spec id (N.of_nat (List.length r))) as [H|H]; [reflexivity|].
  unfold resolve. destruct (nth_error r (N.to_nat id)) eqn:E; [|reflexivity].
  assert (nth_error r (N.to_nat id) <> None) by congruence.
  apply nth_error_Some in H0. lia.
Qed.

(** * 8. the hypotheses are satisfiable: a concrete registry
    (ids: 0 Human{name,age,male,eye_color,tags,key}, 1 str, 2 u32, 3 bool,
     4 Color{Black,White,Green(i32)}, 5 i32, 6 Vec<u8>, 7 u8, 8 [u8;4],
     9 Tree{children: Vec<Tree>} (cyclic), 10 Vec<Tree>, 11 Void (empty enum), 12 Compact<u32>) *)
Module C12Examples.
  Open Scope string_scope.
  Definition fld (n : string) (t : N) : field := mk_field (Some n) t None [].
  Definition ufld (t : N) : field := mk_field None t None [].
  Definition mk (path : list string) (d : typedef) : ty := mk_ty path [] d [].
  Definition reg : registry :=
    [ (0, mk ["a"; "Human"] (TDComposite [fld "name" 1; fld "age" 2; fld "male" 3; fld "eye_color" 4;
                                           fld "tags" 6; fld "key" 8; fld "c" 12]));
      (1, mk [] (TDPrimitive PStr));
      (2, mk [] (TDPrimitive PU32));
      (3, mk [] (TDPrimitive PBool));
      (4, mk ["a"; "Color"] (TDVariant [mk_variant "Black" [] 0 []; mk_variant "White" [] 1 [];
                                        mk_variant "Green" [ufld 5] 2 []]));
      (5, mk [] (TDPrimitive PI32));
      (6, mk [] (TDSequence 7));
      (7, mk [] (TDPrimitive PU8));
      (8, mk [] (TDArray 4 7));
      (9, mk ["a"; "Tree"] (TDComposite [fld "children" 10]));
      (10, mk [] (TDSequence 9));
      (11, mk ["a"; "Void"] (TDVariant []));
      (12, mk [] (TDCompact 2)) ]%N.
  Definition ws : words :=
    [3000000000; 17; 4000000000; 4294967295; 1; 2; 3; 4; 5; 6; 7; 8; 9; 10; 11; 12]%N.

  Example reg_closed : closed_reg reg = true /\ ids_consistent reg = true.
  Proof. vm_compute. auto. Qed.
  Example human_safe : safeb reg 0 = true.
  Proof. vm_compute. reflexivity. Qed.
  Example human_ok :
    match example_value reg 0 ws with XOk v => has_typeb reg 0 v = true | _ => False end.
  Proof. vm_compute. reflexivity. Qed.
  Example human_value :
    example_value reg 0 ws =
    XOk (VComposite (CNamed
      [("name", VPrim (VString "Foo"));       (* word 3000000000 is REJECTED by choose, 17 accepted *)
       ("age", VPrim (VU128 4000000000)); ("male", VPrim (VBool true));
       ("eye_color", VVariant "Black" (CUnnamed []));
       ("tags", VComposite (CUnnamed [VPrim (VU128 2); VPrim (VU128 3)]));
       ("key", VComposite (CUnnamed [VPrim (VU128 4); VPrim (VU128 5); VPrim (VU128 6); VPrim (VU128 7)]));
       ("c", VPrim (VU128 8))])).
  Proof. vm_compute. reflexivity. Qed.
  Example tree_unsafe_and_recursive :
    safeb reg 9 = false /\ example_value reg 9 ws = XErr (XRecursive 9).
  Proof. vm_compute. auto. Qed.
  Example void_unsafe_and_error :
    safeb reg 11 = false /\ example_value reg 11 ws = XErr XEmptyEnum.
  Proof. vm_compute. auto. Qed.
  Example too_few_words : example_value reg 0 [1; 2]%N = XErr XOutOfWords.
  Proof. vm_compute. reflexivity. Qed.
  (** the typing relation is not trivially true *)
  Example u8_out_of_range : has_typeb reg 7 (VPrim (VU128 256)) = false.
  Proof. vm_compute. reflexivity. Qed.
  Example wrong_variant_fields :
    has_typeb reg 4 (VVariant "Black" (CUnnamed [VPrim (VI128 1)])) = false.
  Proof. vm_compute. reflexivity. Qed.
  Example array_wrong_length :
    has_typeb reg 8 (VComposite (CUnnamed [VPrim (VU128 1); VPrim (VU128 2); VPrim (VU128 3)])) = false.
  Proof. vm_compute. reflexivity. Qed.
End C12Examples.
