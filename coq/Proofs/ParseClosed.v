(** C02 (emit-parses), corollaries: syntactic forms of the parsed items; closedness of the
    parse of the emitted tokens from the IR-level theorems of [Proofs/ClosedProofs.v]. *)
From Coq Require Import List NArith String Ascii Bool Lia Arith Sorted.
From V Require Import Base.Util Base.Strings Base.Result Model.Registry Model.Settings Model.Subst
  Model.TypePath Model.Derives Model.Generate Model.Emit Model.Equal Model.WellFormed Checkers.Parse
  Checkers.Sem Model.Unparse Proofs.TpMap Proofs.ParseEq Proofs.ParseTy Proofs.ParseItem Proofs.ParseMod.
Import ListNotations.
Open Scope nat_scope. Open Scope string_scope. Open Scope list_scope.

(** ** the trailing semicolon: present exactly for unit and tuple structs *)
Definition semi_struct (ir : type_ir) : Prop :=
  exists c, ti_kind ir = KStruct c /\ (ci_kind c = CNoFields \/ exists fs, ci_kind c = CUnnamed fs).

Lemma item_semi s ir : pi_semi (item_of_ir s ir) = true <-> semi_struct ir.
Proof.
  unfold item_of_ir, semi_struct. destruct (ti_kind ir) as [c|name docs vs]; cbn [pi_semi].
  - destruct (ci_kind c) as [|fs|fs] eqn:K; split; intros H; try reflexivity; try discriminate.
    + exists c. split; [reflexivity|]. left; exact K.
    + destruct H as (c' & E & [K'|(fs' & K')]); inversion E; subst; congruence.
    + exists c. split; [reflexivity|]. right; exists fs; exact K.
  - split; [discriminate|]. intros (c & E & _). discriminate.
Qed.

Theorem syn_forms s ir toks :
  type_ir_tokens s ir = Ok toks -> ir_plain s ir = true ->
  exists it, parse_one_item toks = Some it /\ it = item_of_ir s ir /\
             (pi_semi it = true <-> semi_struct ir).
Proof.
  intros H Hp. exists (item_of_ir s ir). split; [|split; [reflexivity|apply item_semi]].
  unfold parse_one_item.
  pose proof (item_parses s ir toks H Hp (S (List.length toks)) [] (le_n _) (fun _ _ => eq_refl)) as HP.
  rewrite app_nil_r in HP. rewrite HP. reflexivity.
Qed.
