(** C02 (emit-parses), corollaries: syntactic forms of the parsed items; closedness of the
    parse of the emitted tokens from the IR-level theorems of [Proofs/ClosedProofs.v]. *)
From Coq Require Import List NArith String Ascii Bool Lia Arith Sorted.
From V Require Import Base.Util Base.Strings Base.Result Model.Registry Model.Settings Model.Subst
  Model.TypePath Model.Derives Model.Generate Model.Emit Model.Equal Model.WellFormed Checkers.Parse
  Checkers.Sem Model.Unparse Model.UnparseClosed Proofs.TpMap Proofs.ParseEq Proofs.ParseTy Proofs.ParseItem Proofs.ParseMod
  Proofs.GenTotal Proofs.ClosedProofs.
Import ListNotations.
Open Scope nat_scope. Open Scope string_scope. Open Scope list_scope.

(** ** the trailing semicolon: present exactly for unit and tuple structs *)

Lemma item_semi s ir : pi_semi (item_of_ir s ir) = true <-> semi_struct ir.
Proof.
  unfold item_of_ir, semi_struct. destruct (ti_kind ir) as [c|name docs vs]; cbn [pi_semi].
  - destruct (ci_kind c) as [|fs|fs] eqn:K; split; intros H; try reflexivity; try discriminate.
    + exists c. split; [reflexivity|]. left; exact K.
    + destruct H as (c' & E & [K'|(fs' & K')]); inversion E; subst; congruence.
    + exists c. split; [reflexivity|]. right; exists fs; exact K.
  - split; [discriminate|]. intros (c & E & _). discriminate.
Qed.

Theorem syn_forms s ir toks :
  type_ir_tokens s ir = Ok toks -> ir_plain s ir = true ->
  exists it, parse_one_item toks = Some it /\ it = item_of_ir s ir /\
             (pi_semi it = true <-> semi_struct ir).
Proof.
  intros H Hp. exists (item_of_ir s ir). split; [|split; [reflexivity|apply item_semi]].
  unfold parse_one_item.
  pose proof (item_parses s ir toks H Hp (S (List.length toks)) [] (le_n _) (fun _ _ => eq_refl)) as HP.
  rewrite app_nil_r in HP. rewrite HP. reflexivity.
Qed.

(** ** traversals of parsed types *)
Lemma pty_ok_args aa :
  (fix go2 (p : list pty) := match p with [] => true | u :: p' => pty_ok u && go2 p' end) aa =
  forallb pty_ok aa.
Proof. reflexivity. Qed.

Lemma pty_ok_PPath l segs :
  pty_ok (PPath l segs) = forallb (fun sa => forallb pty_ok (snd sa)) segs.
Proof.
  cbn [pty_ok]. induction segs as [|[n aa] segs IH]; [reflexivity|].
  cbn [forallb snd]. rewrite <- IH. reflexivity.
Qed.

Lemma pty_ok_PTuple xs : pty_ok (PTuple xs) = forallb pty_ok xs.
Proof. cbn [pty_ok]. apply pty_ok_args. Qed.

Lemma pty_paths_args aa :
  (fix go2 (p : list pty) := match p with [] => [] | u :: p' => pty_paths u ++ go2 p' end) aa =
  flat_map pty_paths aa.
Proof. reflexivity. Qed.

Lemma pty_paths_PPath l segs :
  pty_paths (PPath l segs) = (l, segs) :: flat_map (fun sa => flat_map pty_paths (snd sa)) segs.
Proof.
  cbn [pty_paths]. f_equal. induction segs as [|[n aa] segs IH]; [reflexivity|].
  cbn [flat_map snd]. rewrite <- IH. reflexivity.
Qed.

Lemma pty_paths_PTuple xs : pty_paths (PTuple xs) = flat_map pty_paths xs.
Proof. cbn [pty_paths]. apply pty_paths_args. Qed.

Lemma pty_ok_mk l pre x args :
  pty_ok (PPath l (map seg0 pre ++ [(x, args)])) = forallb pty_ok args.
Proof.
  rewrite pty_ok_PPath, forallb_app. cbn [forallb snd]. rewrite andb_true_r.
  replace (forallb (fun sa : string * list pty => forallb pty_ok (snd sa)) (map seg0 pre)) with true;
    [reflexivity|].
  symmetry. apply forallb_forall. intros sa Hin. apply in_map_iff in Hin as (y & <- & _). reflexivity.
Qed.

Lemma pty_paths_mk l pre x args :
  pty_paths (PPath l (map seg0 pre ++ [(x, args)])) =
  (l, map seg0 pre ++ [(x, args)]) :: flat_map pty_paths args.
Proof.
  rewrite pty_paths_PPath. f_equal. rewrite flat_map_app. cbn [flat_map snd]. rewrite app_nil_r.
  replace (flat_map (fun sa : string * list pty => flat_map pty_paths (snd sa)) (map seg0 pre)) with
    (@nil (bool * list (string * list pty))); [reflexivity|].
  symmetry. induction pre as [|y pre IH]; [reflexivity|]. cbn [map flat_map seg0 snd app]. exact IH.
Qed.

Definition head_path (t : pty) : option (bool * list (string * list pty)) :=
  match t with PPath l segs => Some (l, segs) | _ => None end.

Lemma mk_ppath_cases o tail args :
  mk_ppath o tail args = PBad \/
  exists l pre x, mk_ppath o tail args = PPath l (map seg0 pre ++ [(x, args)]) /\
                  exists segs, o = Some (l, segs) /\ segs ++ tail = pre ++ [x].
Proof.
  destruct o as [[l segs]|]; [|left; reflexivity]. unfold mk_ppath.
  destruct (rev (segs ++ tail)) as [|x pre] eqn:E; [left; reflexivity|].
  right. exists l, (rev pre), x. split; [reflexivity|]. exists segs. split; [reflexivity|].
  rewrite <- (rev_involutive (segs ++ tail)), E. reflexivity.
Qed.

Lemma mk_ppath_paths o tail args ls :
  In ls (pty_paths (mk_ppath o tail args)) ->
  head_path (mk_ppath o tail args) = Some ls \/ In ls (flat_map pty_paths args).
Proof.
  destruct (mk_ppath_cases o tail args) as [E|(l & pre & x & E & _)]; rewrite E.
  - intros [].
  - rewrite pty_paths_mk. intros [<-|H]; [left; reflexivity|right; exact H].
Qed.

(** every path node of [ir_pty t] is the head of [ir_pty x] for a sub-path [x] of [t] *)
Lemma subpaths_trans x y t : In x (subpaths y) -> In y (subpaths t) -> In x (subpaths t).
Proof.
  revert x y. induction t as [p|ptoks ps IH|o IH|n o IH|es IH|p|i f c IH|o st b IHo IHst] using tpath_ind';
    intros x y Hx Hy; cbn [subpaths] in Hy; destruct Hy as [<-|Hy]; try exact Hx; try destruct Hy;
    cbn [subpaths]; right.
  - apply in_flat_map in Hy as (c & Hc & Hy). apply in_flat_map. exists c. split; [exact Hc|].
    rewrite Forall_forall in IH. eapply IH; eauto.
  - eapply IH; eauto.
  - eapply IH; eauto.
  - apply in_flat_map in Hy as (c & Hc & Hy). apply in_flat_map. exists c. split; [exact Hc|].
    rewrite Forall_forall in IH. eapply IH; eauto.
  - eapply IH; eauto.
  - apply in_app_or in Hy as [Hy|Hy]; apply in_or_app; [left; eapply IHo|right; eapply IHst]; eauto.
Qed.

Lemma subpaths_refl t : In t (subpaths t).
Proof. destruct t; left; reflexivity. Qed.

Lemma paths_from_subterms alloc : forall t ls,
  In ls (pty_paths (ir_pty alloc t)) ->
  exists x, In x (subpaths t) /\ head_path (ir_pty alloc x) = Some ls.
Proof.
  induction t as [p|ptoks ps IH|o IH|n o IH|es IH|p|i f c IH|o st b IHo IHst] using tpath_ind';
    intros ls Hin.
  - cbn [ir_pty param_pty] in Hin. destruct Hin as [<-|[]]. exists (TParam p). split; [left; reflexivity|reflexivity].
  - change (ir_pty alloc (TPath ptoks ps)) with (mk_ppath (path_segs ptoks) [] (map (ir_pty alloc) ps)) in Hin.
    apply mk_ppath_paths in Hin as [H|H].
    + exists (TPath ptoks ps). split; [apply subpaths_refl|exact H].
    + apply in_flat_map in H as (a & Ha & H). apply in_map_iff in Ha as (c & <- & Hc).
      rewrite Forall_forall in IH. destruct (IH c Hc ls H) as (x & Hx & Hh).
      exists x. split; [|exact Hh]. cbn [subpaths]. right. apply in_flat_map. eauto.
  - change (ir_pty alloc (TVec o)) with (mk_ppath (alloc_segs alloc) ["vec"; "Vec"] [ir_pty alloc o]) in Hin.
    apply mk_ppath_paths in Hin as [H|H].
    + exists (TVec o). split; [apply subpaths_refl|exact H].
    + cbn [flat_map] in H. rewrite app_nil_r in H. destruct (IH ls H) as (x & Hx & Hh).
      exists x. split; [right; exact Hx|exact Hh].
  - cbn [ir_pty pty_paths] in Hin. destruct (IH ls Hin) as (x & Hx & Hh).
    exists x. split; [right; exact Hx|exact Hh].
  - change (ir_pty alloc (TTuple es)) with (PTuple (map (ir_pty alloc) es)) in Hin.
    rewrite pty_paths_PTuple in Hin.
    apply in_flat_map in Hin as (a & Ha & H). apply in_map_iff in Ha as (c & <- & Hc).
    rewrite Forall_forall in IH. destruct (IH c Hc ls H) as (x & Hx & Hh).
    exists x. split; [|exact Hh]. cbn [subpaths]. right. apply in_flat_map. eauto.
  - exists (TPrim p). split; [apply subpaths_refl|].
    cbn [ir_pty] in *. destruct p; cbn [prim_ident] in *;
      try (destruct Hin as [<-|[]]; reflexivity); try destruct Hin.
    apply mk_ppath_paths in Hin as [H|[]]. exact H.
  - cbn [ir_pty] in Hin. destruct f.
    + destruct (IH ls Hin) as (x & Hx & Hh). exists x. split; [right; exact Hx|exact Hh].
    + apply mk_ppath_paths in Hin as [H|H].
      * exists (TCompact i false c). split; [apply subpaths_refl|exact H].
      * cbn [flat_map] in H. rewrite app_nil_r in H. destruct (IH ls H) as (x & Hx & Hh).
        exists x. split; [right; exact Hx|exact Hh].
  - cbn [ir_pty] in Hin. apply mk_ppath_paths in Hin as [H|H].
    + exists (TBitVec o st b). split; [apply subpaths_refl|exact H].
    + cbn [flat_map] in H. rewrite app_nil_r in H. apply in_app_or in H as [H|H].
      * destruct (IHst ls H) as (x & Hx & Hh). exists x. split; [|exact Hh].
        cbn [subpaths]. right. apply in_or_app. right; exact Hx.
      * destruct (IHo ls H) as (x & Hx & Hh). exists x. split; [|exact Hh].
        cbn [subpaths]. right. apply in_or_app. left; exact Hx.
Qed.

Lemma mk_ppath_some l segs tail args :
  segs ++ tail <> [] ->
  exists pre x, segs ++ tail = pre ++ [x] /\
                mk_ppath (Some (l, segs)) tail args = PPath l (map seg0 pre ++ [(x, args)]).
Proof.
  intros Hne. destruct (exists_last Hne) as (pre & x & E). exists pre, x. split; [exact E|].
  apply mk_ppath_snoc. exact E.
Qed.

Lemma mk_ppath_ok l segs tail args :
  segs ++ tail <> [] -> forallb pty_ok args = true -> pty_ok (mk_ppath (Some (l, segs)) tail args) = true.
Proof.
  intros Hne Ha. destruct (mk_ppath_some l segs tail args Hne) as (pre & x & _ & ->).
  rewrite pty_ok_mk. exact Ha.
Qed.

Lemma mk_ppath_in l segs tail args ls :
  segs ++ tail <> [] -> In ls (flat_map pty_paths args) ->
  In ls (pty_paths (mk_ppath (Some (l, segs)) tail args)).
Proof.
  intros Hne Ha. destruct (mk_ppath_some l segs tail args Hne) as (pre & x & _ & ->).
  rewrite pty_paths_mk. right. exact Ha.
Qed.

Lemma app_tail_ne {T : Type} (a b : list T) : b <> [] -> a ++ b <> [].
Proof. destruct a; [trivial|discriminate]. Qed.

Section PtyOk.
  Variable alloc : tokens.
  Hypothesis Halloc : alloc_okb alloc = true.

  Lemma alloc_some : exists al asegs, alloc_segs alloc = Some (al, asegs).
  Proof.
    unfold alloc_okb in Halloc. destruct (alloc_segs alloc) as [[al asegs]|]; [eauto|discriminate].
  Qed.

  Lemma ir_pty_ok : forall t,
    tp_plain t = true -> tokenizable t = true -> pty_ok (ir_pty alloc t) = true.
  Proof.
    destruct alloc_some as (al & asegs & Ea).
    induction t as [p|ptoks ps IH|o IH|n o IH|es IH|p|i f c IH|o st b IHo IHst] using tpath_ind';
      intros Hp Ht; cbn [tp_plain tokenizable] in Hp, Ht.
    - reflexivity.
    - apply andb_prop in Hp as [Hpp Hps]. unfold plain_path in Hpp.
      destruct (path_segs ptoks) as [[l segs]|] eqn:Es; [|discriminate].
      destruct (path_segs_spec _ _ _ Es) as (_ & Hne & _).
      change (ir_pty alloc (TPath ptoks ps)) with (mk_ppath (path_segs ptoks) [] (map (ir_pty alloc) ps)).
      rewrite Es. apply mk_ppath_ok; [rewrite app_nil_r; exact Hne|].
      apply forallb_forall. intros a Ha. apply in_map_iff in Ha as (c & <- & Hc).
      rewrite Forall_forall in IH. rewrite forallb_forall in Hps, Ht. apply IH; auto.
    - cbn [ir_pty]. rewrite Ea. apply mk_ppath_ok; [apply app_tail_ne; discriminate|].
      cbn [forallb]. rewrite IH by assumption. reflexivity.
    - cbn [ir_pty pty_ok]. apply IH; assumption.
    - change (ir_pty alloc (TTuple es)) with (PTuple (map (ir_pty alloc) es)). rewrite pty_ok_PTuple.
      apply forallb_forall. intros a Ha. apply in_map_iff in Ha as (c & <- & Hc).
      rewrite Forall_forall in IH. rewrite forallb_forall in Hp, Ht. apply IH; auto.
    - cbn [ir_pty]. destruct p; cbn [is256 negb] in Ht; try discriminate; try reflexivity.
      rewrite Ea. apply mk_ppath_ok; [apply app_tail_ne; discriminate|reflexivity].
    - apply andb_prop in Hp as [Hpc Hpi]. apply andb_prop in Ht as [Hti _]. cbn [ir_pty].
      destruct f; [apply IH; assumption|]. cbn [orb] in Hpc. unfold plain_path in Hpc.
      destruct (path_segs c) as [[l segs]|] eqn:Es; [|discriminate].
      destruct (path_segs_spec _ _ _ Es) as (_ & Hne & _).
      apply mk_ppath_ok; [rewrite app_nil_r; exact Hne|]. cbn [forallb]. rewrite IH by assumption. reflexivity.
    - apply andb_prop in Hp as [Hp Hpst]. apply andb_prop in Hp as [Hpb Hpo].
      apply andb_prop in Ht as [Hto Htst]. cbn [ir_pty]. unfold plain_path in Hpb.
      destruct (path_segs b) as [[l segs]|] eqn:Es; [|discriminate].
      destruct (path_segs_spec _ _ _ Es) as (_ & Hne & _).
      apply mk_ppath_ok; [rewrite app_nil_r; exact Hne|]. cbn [forallb].
      rewrite IHo, IHst by assumption. reflexivity.
  Qed.

  Lemma param_in_paths : forall t,
    tp_plain t = true -> forall p, In p (parent_params t) ->
    In (false, [(tpi_name p, [])]) (pty_paths (ir_pty alloc t)).
  Proof.
    destruct alloc_some as (al & asegs & Ea).
    induction t as [q|ptoks ps IH|o IH|n o IH|es IH|q|i f c IH|o st b IHo IHst] using tpath_ind';
      intros Hp p Hin; cbn [tp_plain] in Hp.
    - cbn [parent_params] in Hin. destruct Hin as [<-|[]]. left. reflexivity.
    - apply andb_prop in Hp as [Hpp Hps]. unfold plain_path in Hpp.
      destruct (path_segs ptoks) as [[l segs]|] eqn:Es; [|discriminate].
      destruct (path_segs_spec _ _ _ Es) as (_ & Hne & _).
      change (ir_pty alloc (TPath ptoks ps)) with (mk_ppath (path_segs ptoks) [] (map (ir_pty alloc) ps)).
      rewrite Es. apply mk_ppath_in; [rewrite app_nil_r; exact Hne|].
      change (parent_params (TPath ptoks ps)) with (flat_map parent_params ps) in Hin.
      apply in_flat_map in Hin as (c & Hc & Hin). apply in_flat_map. exists (ir_pty alloc c).
      split; [apply in_map; exact Hc|]. rewrite Forall_forall in IH. rewrite forallb_forall in Hps.
      apply IH; auto.
    - cbn [ir_pty]. rewrite Ea. apply mk_ppath_in; [apply app_tail_ne; discriminate|].
      cbn [flat_map]. rewrite app_nil_r. apply IH; assumption.
    - cbn [ir_pty pty_paths]. apply IH; assumption.
    - change (ir_pty alloc (TTuple es)) with (PTuple (map (ir_pty alloc) es)). rewrite pty_paths_PTuple.
      change (parent_params (TTuple es)) with (flat_map parent_params es) in Hin.
      apply in_flat_map in Hin as (c & Hc & Hin). apply in_flat_map. exists (ir_pty alloc c).
      split; [apply in_map; exact Hc|]. rewrite Forall_forall in IH. rewrite forallb_forall in Hp.
      apply IH; auto.
    - destruct Hin.
    - apply andb_prop in Hp as [Hpc Hpi]. cbn [parent_params] in Hin. cbn [ir_pty].
      destruct f; [apply IH; assumption|]. cbn [orb] in Hpc. unfold plain_path in Hpc.
      destruct (path_segs c) as [[l segs]|] eqn:Es; [|discriminate].
      destruct (path_segs_spec _ _ _ Es) as (_ & Hne & _).
      apply mk_ppath_in; [rewrite app_nil_r; exact Hne|]. cbn [flat_map]. rewrite app_nil_r.
      apply IH; assumption.
    - apply andb_prop in Hp as [Hp Hpst]. apply andb_prop in Hp as [Hpb Hpo].
      cbn [parent_params] in Hin. cbn [ir_pty]. unfold plain_path in Hpb.
      destruct (path_segs b) as [[l segs]|] eqn:Es; [|discriminate].
      destruct (path_segs_spec _ _ _ Es) as (_ & Hne & _).
      apply mk_ppath_in; [rewrite app_nil_r; exact Hne|]. cbn [flat_map]. rewrite app_nil_r.
      apply in_or_app. apply in_app_or in Hin as [Hin|Hin]; [right; apply IHo|left; apply IHst]; assumption.
  Qed.
End PtyOk.

(** ** the field types of a parsed item *)
Definition phantom_list (unused : list tparam_ir) : list pty :=
  match phantom_pty unused with Some p => [p] | None => [] end.

Lemma variant_body_tys s k codec :
  map pf_ty (body_fields (variant_body s k codec)) = map (field_pty s) (ckind_fields k).
Proof.
  destruct k as [|fs|fs]; cbn [variant_body body_fields ckind_fields map]; [reflexivity| |];
    rewrite !map_map; reflexivity.
Qed.

Lemma struct_body_tys s k unused codec :
  map pf_ty (body_fields (struct_body s k unused codec)) =
  map (field_pty s) (ckind_fields k) ++ phantom_list unused.
Proof.
  unfold phantom_list, struct_body, marker_fields.
  destruct k as [|fs|fs]; destruct (phantom_pty unused) as [ph|];
    cbn [body_fields ckind_fields map app]; try reflexivity;
    rewrite ?map_app, !map_map; cbn [map pf_ty]; rewrite ?app_nil_r; reflexivity.
Qed.

Lemma item_field_types_eq s ir :
  item_field_types (item_of_ir s ir) =
  map (field_pty s) (kind_fields (ti_kind ir)) ++ phantom_list (ti_unused ir).
Proof.
  unfold item_field_types, item_of_ir. destruct (ti_kind ir) as [c|name docs vs]; cbn [pi_body pi_variants].
  - cbn [flat_map kind_fields]. rewrite app_nil_r. apply struct_body_tys.
  - cbn [body_fields map app kind_fields]. rewrite flat_map_app. f_equal.
    + induction vs as [|ic vs IH]; [reflexivity|]. cbn [map flat_map]. rewrite map_app, <- IH. f_equal.
      unfold variant_of. cbn [pv_body]. apply variant_body_tys.
    + unfold ignore_variants, phantom_list. destruct (phantom_pty (ti_unused ir)); reflexivity.
Qed.

(** ** the module tree [pmod_of] *)
Lemma insert_str_self x : forall l, In x (insert_str x l).
Proof.
  induction l as [|y l IH]; cbn [insert_str]; [left; reflexivity|].
  destruct (String.compare x y) eqn:C.
  - apply str_compare_eq in C. subst y. left; reflexivity.
  - left; reflexivity.
  - right; exact IH.
Qed.

Lemma insert_str_keep x h : forall l, In h l -> In h (insert_str x l).
Proof.
  induction l as [|y l IH]; intros Hin; [destruct Hin|]. cbn [insert_str].
  destruct (String.compare x y).
  - exact Hin.
  - right; exact Hin.
  - destruct Hin as [<-|Hin]; [left; reflexivity|right; apply IH; exact Hin].
Qed.

Lemma child_names_intro : forall (es : list entry) e h a tl,
  In e es -> fst e = h :: a :: tl -> In h (child_names es).
Proof.
  unfold child_names. induction es as [|e0 es IH]; intros e h a tl Hin He; [destruct Hin|].
  cbn [fold_right]. destruct Hin as [->|Hin].
  - rewrite He. apply insert_str_self.
  - specialize (IH e h a tl Hin He).
    destruct (fst e0) as [|h' [|a' tl']]; try exact IH. apply insert_str_keep. exact IH.
Qed.

Lemma under_intro h (es : list entry) e a tl :
  In e es -> fst e = h :: a :: tl -> In (a :: tl, snd e) (under h es).
Proof.
  intros Hin He. unfold under. apply in_flat_map. exists e. split; [exact Hin|].
  rewrite He, String.eqb_refl. left; reflexivity.
Qed.

Lemma under_elim h (es : list entry) e' :
  In e' (under h es) ->
  exists e, In e es /\ fst e = h :: fst e' /\ snd e' = snd e /\ fst e' <> [].
Proof.
  unfold under. intros H. apply in_flat_map in H as (e & Hin & H).
  destruct (fst e) as [|h' [|a tl]] eqn:E; try (destruct H; fail).
  destruct (String.eqb h h') eqn:Eh; [|destruct H]. apply String.eqb_eq in Eh. subst h'.
  destruct H as [<-|[]]. exists e. cbn [fst snd]. repeat split; [exact Hin|exact E|discriminate].
Qed.

Lemma here_In (es : list entry) e : In e (here es) <-> In e es /\ exists x, fst e = [x].
Proof.
  unfold here. rewrite filter_In. split; intros [H1 H2]; split; try exact H1.
  - destruct (fst e) as [|x [|y l]]; try discriminate. eauto.
  - destruct H2 as (x & ->). reflexivity.
Qed.

Lemma same_key (es : list entry) e e' :
  NoDup (map fst es) -> In e es -> In e' es -> fst e = fst e' -> e = e'.
Proof.
  induction es as [|a es IH]; intros Hnd Hin Hin' Hf; [destruct Hin|].
  cbn [map] in Hnd. inversion Hnd as [|x l Hnotin Hnd']; subst.
  destruct Hin as [->|Hin], Hin' as [->|Hin'].
  - reflexivity.
  - exfalso. apply Hnotin. rewrite Hf. apply in_map. exact Hin'.
  - exfalso. apply Hnotin. rewrite <- Hf. apply in_map. exact Hin.
  - apply IH; assumption.
Qed.

Lemma under_nodup h (es : list entry) : NoDup (map fst es) -> NoDup (map fst (under h es)).
Proof.
  induction es as [|a es IH]; intros Hnd; [constructor|].
  cbn [map] in Hnd. inversion Hnd as [|x l Hnotin Hnd']; subst.
  change (under h (a :: es)) with
    ((match fst a with
      | h' :: (_ :: _) as tl => if String.eqb h h' then [(tl, snd a)] else []
      | _ => []
      end) ++ under h es).
  destruct (fst a) as [|h' [|b tl]] eqn:Ea; try (apply IH; exact Hnd').
  destruct (String.eqb h h') eqn:Eh; [|apply IH; exact Hnd'].
  apply String.eqb_eq in Eh. subst h'. cbn [app map fst]. constructor; [|apply IH; exact Hnd'].
  intros Hin. apply in_map_iff in Hin as (e' & He' & Hin).
  destruct (under_elim _ _ _ Hin) as (e & Hine & Hfe & _ & _).
  apply Hnotin. rewrite He' in Hfe. rewrite <- Hfe. apply in_map. exact Hine.
Qed.

Lemma pmod_of_shape s fuel name es :
  exists ms is, pmod_of s fuel name es = PMod name (s_root s) ms is.
Proof. destruct fuel; eexists; eexists; reflexivity. Qed.

Section Tree.
  Variable s : settings.
  Definition ent_item (e : entry) : pitem := item_of_ir s (snd (snd e)).
  Definition names_ok (es : list entry) : Prop :=
    forall e, In e es -> fst e <> [] /\ last (fst e) "" = pi_name (ent_item e).
  Definition prefix_free (es : list entry) : Prop :=
    forall e e' x l, In e es -> In e' es -> fst e' <> fst e ++ x :: l.

  Lemma under_names_ok h es : names_ok es -> names_ok (under h es).
  Proof.
    intros H e' Hin. destruct (under_elim _ _ _ Hin) as (e & Hine & Hfe & Hs & Hne).
    split; [exact Hne|]. destruct (H e Hine) as [_ Hl]. unfold ent_item in *. rewrite Hs, <- Hl, Hfe.
    destruct (fst e') as [|a tl]; [congruence|reflexivity].
  Qed.

  Lemma under_prefix_free h es : prefix_free es -> prefix_free (under h es).
  Proof.
    intros H e1 e2 x l H1 H2 E.
    destruct (under_elim _ _ _ H1) as (a1 & Ha1 & Hf1 & _ & _).
    destruct (under_elim _ _ _ H2) as (a2 & Ha2 & Hf2 & _ & _).
    apply (H a1 a2 x l Ha1 Ha2). rewrite Hf1, Hf2, E. reflexivity.
  Qed.

  Lemma find_item_first (l : list entry) n e :
    In e l -> pi_name (ent_item e) = n ->
    (forall e', In e' l -> pi_name (ent_item e') = n -> e' = e) ->
    find_item (map ent_item l) n = Some (ent_item e).
  Proof.
    induction l as [|a l IH]; intros Hin Hn Hu; [destruct Hin|].
    cbn [map find_item]. destruct (teq n (pi_name (ent_item a))) eqn:E.
    - apply String.eqb_eq in E. rewrite (Hu a (or_introl eq_refl) (eq_sym E)). reflexivity.
    - destruct Hin as [->|Hin]; [rewrite Hn in E; unfold teq in E; rewrite String.eqb_refl in E; discriminate|].
      apply IH; [exact Hin|exact Hn|]. intros e' He'. apply Hu. right; exact He'.
  Qed.

  Lemma lookup_go (f : nat) (es : list entry) n rest : forall hs,
    In n hs ->
    (fix go (ms : list pmod) : option pitem :=
       match ms with
       | [] => None
       | (PMod n' _ _ _ as c) :: ms' => if teq n n' then lookup_item c rest else go ms'
       end) (map (fun h => pmod_of s f h (under h es)) hs) =
    lookup_item (pmod_of s f n (under n es)) rest.
  Proof.
    induction hs as [|a hs IH]; intros Hin; [destruct Hin|]. cbn [map].
    destruct (pmod_of_shape s f a (under a es)) as (ms & is & E). rewrite E.
    destruct (teq n a) eqn:Ena.
    - apply String.eqb_eq in Ena. subst a. rewrite E. reflexivity.
    - destruct Hin as [->|Hin]; [unfold teq in Ena; rewrite String.eqb_refl in Ena; discriminate|].
      apply IH. exact Hin.
  Qed.

  Lemma lookup_pmod : forall fuel name es p e,
    List.length p <= fuel -> NoDup (map fst es) -> names_ok es -> In e es -> fst e = p ->
    lookup_item (pmod_of s fuel name es) p = Some (ent_item e).
  Proof.
    induction fuel as [|f IH]; intros name es p e Hl Hnd Hn Hin Hp.
    - destruct (Hn e Hin) as [Hne _]. destruct p; [congruence|cbn [List.length] in Hl; lia].
    - destruct (Hn e Hin) as [Hne Hlast]. destruct p as [|n q]; [congruence|].
      cbn [pmod_of]. destruct q as [|x q].
      + cbn [lookup_item]. apply find_item_first.
        * apply here_In. split; [exact Hin|]. exists n. exact Hp.
        * rewrite <- Hlast, Hp. reflexivity.
        * intros e' He' Hn'. apply here_In in He' as [He' (y & Hy)].
          apply (same_key es); try assumption. rewrite Hp, Hy. f_equal.
          destruct (Hn e' He') as [_ Hl']. rewrite Hy in Hl'. cbn [last] in Hl'. congruence.
      + cbn [lookup_item]. rewrite (lookup_go f es n (x :: q) (child_names es)).
        * apply (IH n (under n es) (x :: q) (x :: q, snd e)).
          -- cbn [List.length] in *. lia.
          -- apply under_nodup. exact Hnd.
          -- apply under_names_ok. exact Hn.
          -- apply (under_intro n es e x q Hin Hp).
          -- reflexivity.
        * apply (child_names_intro es e n x q Hin Hp).
  Qed.

  Lemma all_items_go (f : nat) (es : list entry) x prefix : forall hs,
    In x ((fix go (ms : list pmod) : list (list string * pitem) :=
             match ms with
             | [] => []
             | (PMod n _ _ _ as c) :: ms' => all_items c (prefix ++ [n]) ++ go ms'
             end) (map (fun h => pmod_of s f h (under h es)) hs)) ->
    exists h pre', In h hs /\ In x (all_items (pmod_of s f h (under h es)) pre').
  Proof.
    induction hs as [|a hs IH]; intros Hin; [destruct Hin|]. cbn [map] in Hin.
    destruct (pmod_of_shape s f a (under a es)) as (ms & is & E). rewrite E in Hin.
    apply in_app_or in Hin as [Hin|Hin].
    - exists a, (prefix ++ [a]). split; [left; reflexivity|]. rewrite E. exact Hin.
    - destruct (IH Hin) as (h & pre' & Hh & Hx). exists h, pre'. split; [right; exact Hh|exact Hx].
  Qed.

  Lemma all_items_from : forall fuel name es prefix x,
    In x (all_items (pmod_of s fuel name es) prefix) -> exists e, In e es /\ snd x = ent_item e.
  Proof.
    induction fuel as [|f IH]; intros name es prefix x Hin.
    - cbn [pmod_of all_items map app] in Hin. destruct Hin.
    - cbn [pmod_of all_items] in Hin. apply in_app_or in Hin as [Hin|Hin].
      + apply in_map_iff in Hin as (i & <- & Hi). apply in_map_iff in Hi as (e & <- & He).
        apply here_In in He as [He _]. exists e. split; [exact He|reflexivity].
      + destruct (all_items_go f es x prefix _ Hin) as (h & pre' & _ & Hx).
        destruct (IH h (under h es) pre' x Hx) as (e' & He' & Hs).
        destruct (under_elim _ _ _ He') as (e & He & _ & Hse & _).
        exists e. split; [exact He|]. rewrite Hs. unfold ent_item. rewrite Hse. reflexivity.
  Qed.
End Tree.

(** ** unique names in every module *)
Lemma nodup_str_NoDup l : NoDup l -> nodup_str l = true.
Proof.
  induction 1 as [|x l Hx Hl IH]; [reflexivity|]. cbn [nodup_str]. rewrite IH, andb_true_r.
  apply negb_true_iff. destruct (existsb (String.eqb x) l) eqn:E; [|reflexivity].
  apply existsb_exists in E as (y & Hy & E). apply String.eqb_eq in E. subst y. contradiction.
Qed.

Lemma NoDup_map_inj {A B : Type} (f : A -> B) l :
  (forall x y, In x l -> In y l -> f x = f y -> x = y) -> NoDup l -> NoDup (map f l).
Proof.
  intros Hinj Hnd. induction Hnd as [|a l Ha Hl IH]; [constructor|]. cbn [map]. constructor.
  - intros Hin. apply in_map_iff in Hin as (y & Hy & Hin).
    assert (y = a) by (apply Hinj; [right; exact Hin|left; reflexivity|exact Hy]). subst y. contradiction.
  - apply IH. intros x y Hx Hy. apply Hinj; right; assumption.
Qed.

Lemma fold_max_le (mods : list pmod) c :
  In c mods -> mod_depth c <= fold_right (fun c acc => Nat.max (mod_depth c) acc) 0 mods.
Proof.
  induction mods as [|a mods IH]; intros Hin; [destruct Hin|]. cbn [fold_right].
  destruct Hin as [->|Hin]; [lia|]. specialize (IH Hin). lia.
Qed.

Section Unique.
  Variable s : settings.

  Lemma mods_unique_pmod : forall fuel name es k,
    mod_depth (pmod_of s fuel name es) <= k ->
    NoDup (map fst es) -> names_ok s es -> prefix_free es ->
    mods_unique k (pmod_of s fuel name es) = true.
  Proof.
    induction fuel as [|f IH]; intros name es k Hd Hnd Hn Hpf.
    - cbn [pmod_of mod_depth fold_right] in *. destruct k as [|k]; [lia|]. reflexivity.
    - cbn [pmod_of] in *. cbn [mod_depth] in Hd. destruct k as [|k]; [lia|].
      cbn [mods_unique].
      assert (Enames : map (fun c => match c with PMod n _ _ _ => n end)
                           (map (fun h => pmod_of s f h (under h es)) (child_names es)) = child_names es).
      { rewrite map_map. rewrite <- (map_id (child_names es)) at 2. apply map_ext. intros h.
        destruct (pmod_of_shape s f h (under h es)) as (ms & is & ->). reflexivity. }
      rewrite Enames. rewrite map_map.
      assert (Hnd_es : NoDup es) by (apply (NoDup_map_inv fst); exact Hnd).
      assert (Hname1 : forall e, In e (here es) -> fst e = [pi_name (ent_item s e)]).
      { intros e He. apply here_In in He as [He (x & Hx)]. destruct (Hn e He) as [_ Hl].
        rewrite Hx in Hl. cbn [last] in Hl. rewrite Hx, Hl. reflexivity. }
      rewrite !andb_true_iff. repeat split.
      + apply nodup_str_NoDup. apply (proj2 (Proofs.ClosedProofs.child_names_unique es)).
      + apply nodup_str_NoDup. apply NoDup_map_inj; [|apply NoDup_filter; exact Hnd_es].
        intros x y Hx Hy E. apply (same_key es); try exact Hnd.
        * apply here_In in Hx as [Hx _]. exact Hx.
        * apply here_In in Hy as [Hy _]. exact Hy.
        * rewrite (Hname1 x Hx), (Hname1 y Hy). unfold ent_item. rewrite E. reflexivity.
      + apply forallb_forall. intros n Hin. apply in_map_iff in Hin as (e & <- & He).
        apply negb_true_iff. destruct (existsb _ (child_names es)) eqn:E; [|reflexivity].
        apply existsb_exists in E as (h & Hh & E). apply String.eqb_eq in E. subst h.
        destruct (Proofs.GenTotal.child_names_In _ _ Hh) as (e' & a & tl & He' & Hf').
        exfalso. pose proof (Hname1 e He) as Hfe. apply here_In in He as [He _].
        apply (Hpf e e' a tl He He'). rewrite Hf', Hfe. reflexivity.
      + apply forallb_forall. intros c Hin. apply in_map_iff in Hin as (h & <- & Hh).
        apply IH.
        * pose proof (fold_max_le (map (fun h0 => pmod_of s f h0 (under h0 es)) (child_names es))
                                  (pmod_of s f h (under h es))) as Hm.
          specialize (Hm (in_map _ _ _ Hh)). lia.
        * apply under_nodup. exact Hnd.
        * apply under_names_ok. exact Hn.
        * apply under_prefix_free. exact Hpf.
  Qed.
End Unique.

(** ** names *)
From Coq Require Import DecimalString DecimalN.

Lemma N_to_string_inj a b : N_to_string a = N_to_string b -> a = b.
Proof.
  unfold N_to_string. intros H. apply (f_equal NilEmpty.uint_of_string) in H.
  rewrite !NilEmpty.usu in H. injection H as H. apply (f_equal N.of_uint) in H.
  rewrite !DecimalN.Unsigned.of_to in H. exact H.
Qed.

Lemma tpi_name_inj p q : tpi_name p = tpi_name q -> tpi_idx p = tpi_idx q.
Proof. rewrite !tpi_name_eq. intros H. injection H as H. apply N_to_string_inj. exact H. Qed.

Lemma tpi_name_not_root rt p : starts_with "_" rt = false -> String.eqb (tpi_name p) rt = false.
Proof.
  intros H. destruct (String.eqb (tpi_name p) rt) eqn:E; [|reflexivity].
  apply String.eqb_eq in E. subst rt. rewrite tpi_name_eq in H. cbn in H. discriminate H.
Qed.

Lemma abs_path_inj : forall a b, abs_path a = abs_path b -> a = b.
Proof.
  induction a as [|x a IH]; destruct b as [|y b]; cbn [abs_path flat_map app]; intros H;
    try discriminate; [reflexivity|].
  injection H as Hx H. f_equal; [exact Hx|apply IH; exact H].
Qed.

Lemma rel_path_inj a b : rel_path a = rel_path b -> a = b.
Proof.
  destruct a as [|x a], b as [|y b]; cbn [rel_path]; intros H; try discriminate; [reflexivity|].
  injection H as Hx H. f_equal; [exact Hx|apply abs_path_inj; exact H].
Qed.

Lemma pi_generics_item s ir : pi_generics (item_of_ir s ir) = map tpi_name (ti_params ir).
Proof. unfold item_of_ir. destruct (ti_kind ir); reflexivity. Qed.

(** ** resolution of one path *)
Lemma path_resolves_other rt pm h a rest :
  String.eqb h rt = false -> path_resolves rt pm ((h, a) :: rest) = true.
Proof. intros H. unfold path_resolves. destruct a; [rewrite H|]; reflexivity. Qed.

Lemma path_resolves_item rt pm pre' x args it :
  lookup_item pm (pre' ++ [x]) = Some it -> List.length args = List.length (pi_generics it) ->
  path_resolves rt pm ((rt, []) :: map seg0 pre' ++ [(x, args)]) = true.
Proof.
  intros Hl Ha. unfold path_resolves. rewrite String.eqb_refl.
  set (rest := map seg0 pre' ++ [(x, args)]).
  assert (Hnames : map fst rest = pre' ++ [x]).
  { unfold rest. rewrite map_app, map_map. cbn [map fst seg0]. f_equal.
    rewrite <- (map_id pre') at 2. apply map_ext. reflexivity. }
  assert (Hrl : removelast rest = map seg0 pre') by (unfold rest; apply removelast_last).
  assert (Hla : last rest ("", []) = (x, args)) by (unfold rest; apply last_last).
  destruct rest as [|r0 rest'] eqn:Er.
  - unfold rest in Er. apply app_eq_nil in Er as [_ Er]. discriminate.
  - rewrite Hnames, Hl, Hrl, Hla. cbn [snd]. rewrite Ha, Nat.eqb_refl, andb_true_r.
    apply forallb_forall. intros sa Hin. apply in_map_iff in Hin as (y & <- & _). reflexivity.
Qed.

Lemma items_get_In_some (m : items) p v : items_get m p = Some v -> In (p, v) m.
Proof.
  induction m as [|[k v'] m IH]; cbn [items_get]; [discriminate|].
  destruct (path_eqb k p) eqn:E.
  - apply path_eqb_eq in E. subst k. intros H. inversion H; subst. left; reflexivity.
  - intros H. right. apply IH. exact H.
Qed.

Lemma max_depth_ge (m : items) e : In e m -> List.length (fst e) <= max_depth m.
Proof.
  unfold max_depth. induction m as [|a m IH]; intros Hin; [destruct Hin|]. cbn [fold_right].
  destruct Hin as [->|Hin]; [lia|]. specialize (IH Hin). lia.
Qed.

Lemma head_path_eq t l segs : head_path t = Some (l, segs) -> t = PPath l segs.
Proof. destruct t; cbn [head_path]; intros H; inversion H; subst; reflexivity. Qed.

Lemma head_ok rt pm l sg tail args segs y :
  mk_ppath (Some (l, sg)) tail args = PPath false segs ->
  hd_error (sg ++ tail) = Some y -> String.eqb y rt = false ->
  path_resolves rt pm segs = true.
Proof.
  intros Hm Hh Hy.
  assert (Hne : sg ++ tail <> []) by (intros E; rewrite E in Hh; discriminate).
  destruct (mk_ppath_some l sg tail args Hne) as (pre & x & E & Em). rewrite Em in Hm.
  injection Hm as _ <-. rewrite E in Hh. destruct pre as [|y' pre]; cbn [app hd_error] in Hh;
    inversion Hh; subst; cbn [map app seg0]; apply path_resolves_other; exact Hy.
Qed.

(** the marker type *)
Lemma phantom_shape unused ph :
  phantom_pty unused = Some ph ->
  exists args, ph = PPath true (map seg0 ["core"; "marker"] ++ [("PhantomData", args)]) /\
               flat_map pty_paths args = map (fun p => (false, [(tpi_name p, [])])) unused /\
               forallb pty_ok args = true.
Proof.
  assert (HT : forall U, flat_map pty_paths (map param_pty U) =
                         map (fun p => (false, [(tpi_name p, [])])) U /\
                         forallb pty_ok (map param_pty U) = true).
  { induction U as [|p U [IH1 IH2]]; [split; reflexivity|]. cbn [map flat_map forallb].
    rewrite IH1, IH2. split; reflexivity. }
  destruct unused as [|p [|q l]]; cbn [phantom_pty]; intros H; inversion H; subst.
  - exists [param_pty p]. repeat split; reflexivity.
  - exists [PTuple (map param_pty (p :: q :: l))]. split; [reflexivity|].
    destruct (HT (p :: q :: l)) as [H1 H2]. split.
    + cbn [flat_map]. rewrite app_nil_r, pty_paths_PTuple. exact H1.
    + cbn [forallb]. rewrite pty_ok_PTuple, H2. reflexivity.
Qed.

Section Assemble.
  Variable s : settings.
  Variable m : items.
  Hypothesis Hc : ir_closed s m.

  Definition es0 : list entry :=
    map (fun e : list string * (N * type_ir) => (fst e, (fst e, snd (snd e)))) m.

  Lemma es0_fst : map fst es0 = map fst m.
  Proof. unfold es0. rewrite map_map. apply map_ext. reflexivity. Qed.

  Lemma es0_in e : In e es0 -> exists p id ir, In (p, (id, ir)) m /\ e = (p, (p, ir)).
  Proof.
    unfold es0. intros H. apply in_map_iff in H as ([p [id ir]] & <- & Hin). exists p, id, ir.
    split; [exact Hin|reflexivity].
  Qed.

  Lemma es0_names : names_ok s es0.
  Proof.
    destruct Hc as (_ & _ & _ & _ & Hitems). intros e He.
    destruct (es0_in e He) as (p & id & ir & Hin & ->). destruct (Hitems p id ir Hin) as (Hne & Hl & _).
    split; [exact Hne|exact Hl].
  Qed.

  Lemma es0_pf : prefix_free es0.
  Proof.
    destruct Hc as (_ & _ & _ & Hpf & _). intros e e' x l He He'.
    apply (Hpf (fst e) (fst e') x l); rewrite <- es0_fst; apply in_map; assumption.
  Qed.

  Lemma es0_nodup : NoDup (map fst es0).
  Proof. destruct Hc as (_ & _ & Hnd & _). rewrite es0_fst. exact Hnd. Qed.

  Lemma lookup_items p id ir :
    items_get m p = Some (id, ir) -> lookup_item (pmod_of_items s m) p = Some (item_of_ir s ir).
  Proof.
    intros H. apply items_get_In_some in H. unfold pmod_of_items.
    apply (lookup_pmod s (S (max_depth m)) (s_root s) es0 p (p, (p, ir))).
    - pose proof (max_depth_ge m _ H) as Hl. cbn [fst] in Hl. lia.
    - exact es0_nodup.
    - exact es0_names.
    - unfold es0. apply in_map_iff. exists (p, (id, ir)). split; [reflexivity|exact H].
    - reflexivity.
  Qed.

  Section Nodes.
    Variables (al : bool) (asegs : list string).
    Let alloc := alloc_tokens (s_alloc s).
    Hypothesis Ea : alloc_segs alloc = Some (al, asegs).

    Lemma alloc_head tail args segs :
      tail <> [] -> mk_ppath (Some (al, asegs)) tail args = PPath false segs ->
      path_resolves (s_root s) (pmod_of_items s m) segs = true.
    Proof.
      destruct Hc as (_ & Hal & _). intros Ht Hm.
      assert (Hne : asegs ++ tail <> []) by (apply app_tail_ne; exact Ht).
      destruct (mk_ppath_some al asegs tail args Hne) as (pre & x & _ & Em).
      pose proof Hm as Hm'. rewrite Em in Hm'. injection Hm' as Hl _. subst al.
      unfold alloc_segs in Ea. fold alloc in Hal. destruct alloc as [|a0 al0] eqn:Eal; [discriminate|].
      apply path_segs_spec in Ea as (Ept & Hnes & _). destruct asegs as [|y as']; [congruence|].
      cbn [print_path rel_path] in Ept. injection Ept as -> _.
      apply (head_ok _ _ false (y :: as') tail args segs y Hm); [reflexivity|exact Hal].
    Qed.

    Lemma plain_head ptoks l sg args segs :
      path_segs ptoks = Some (l, sg) -> hd_is (s_root s) ptoks = false ->
      mk_ppath (Some (l, sg)) [] args = PPath false segs ->
      path_resolves (s_root s) (pmod_of_items s m) segs = true.
    Proof.
      intros Hs Hh Hm. apply path_segs_spec in Hs as (Ept & Hne & _).
      assert (Hne' : sg ++ [] <> []) by (rewrite app_nil_r; exact Hne).
      destruct (mk_ppath_some l sg [] args Hne') as (pre & x & _ & Em).
      pose proof Hm as Hm'. rewrite Em in Hm'. injection Hm' as Hl _. subst l.
      destruct sg as [|y sg']; [congruence|]. cbn [print_path rel_path] in Ept. subst ptoks.
      apply (head_ok _ _ false (y :: sg') [] args segs y Hm); [reflexivity|exact Hh].
    Qed.

    Lemma node_resolves : forall x,
      (forall y, In y (subpaths x) -> node_closed s m y) ->
      forall segs, head_path (ir_pty alloc x) = Some (false, segs) ->
      path_resolves (s_root s) (pmod_of_items s m) segs = true.
    Proof.
      destruct Hc as (Hus & Hal & Hnd & Hpf & Hitems).
      induction x as [p|ptoks params|o IH|n o IH|es|p|i IH f c|o IHo st IHst b];
        intros Hn segs Hh; apply head_path_eq in Hh.
      - cbn [ir_pty param_pty] in Hh. injection Hh as <-.
        apply path_resolves_other. apply tpi_name_not_root. exact Hus.
      - change (ir_pty alloc (TPath ptoks params))
          with (mk_ppath (path_segs ptoks) [] (map (ir_pty alloc) params)) in Hh.
        destruct (path_segs ptoks) as [[l sg]|] eqn:Es; [|discriminate].
        pose proof (Hn _ (subpaths_refl _)) as Hnode. cbn [node_closed] in Hnode.
        destruct (hd_is (s_root s) ptoks) eqn:Ehd; [|eapply plain_head; eauto].
        destruct (Hnode eq_refl) as (p & id & ir' & Ept & Hget & Hlen).
        destruct (path_segs_spec _ _ _ Es) as (Ept2 & Hne & _).
        assert (Hne' : sg ++ [] <> []) by (rewrite app_nil_r; exact Hne).
        destruct (mk_ppath_some l sg [] (map (ir_pty alloc) params) Hne') as (pre & x & E & Em).
        rewrite Em in Hh. injection Hh as Hl <-. subst l. cbn [print_path] in Ept2.
        rewrite Ept in Ept2. apply rel_path_inj in Ept2. subst sg. rewrite app_nil_r in E.
        destruct (Hitems p id ir' (items_get_In_some _ _ _ Hget)) as (Hpne & _ & _).
        destruct pre as [|y' pre']; cbn [app] in E; injection E as E1 E2.
        + congruence.
        + subst y' p. cbn [map app seg0].
          apply (path_resolves_item _ _ pre' x _ (item_of_ir s ir')).
          * apply lookup_items with (id := id). exact Hget.
          * rewrite pi_generics_item, !map_length. exact Hlen.
      - cbn [ir_pty] in Hh. rewrite Ea in Hh. eapply alloc_head; [|exact Hh]. discriminate.
      - discriminate.
      - discriminate.
      - cbn [ir_pty] in Hh. destruct p; cbn [prim_ident] in Hh; try discriminate.
        rewrite Ea in Hh. eapply alloc_head; [|exact Hh]. discriminate.
      - cbn [ir_pty] in Hh. destruct f.
        + apply IH; [|rewrite Hh; reflexivity]. intros y Hy. apply Hn. right. exact Hy.
        + pose proof (Hn _ (subpaths_refl _)) as Hnode. cbn [node_closed] in Hnode.
          destruct (path_segs c) as [[l sg]|] eqn:Es; [|discriminate]. eapply plain_head; eauto.
      - cbn [ir_pty] in Hh. pose proof (Hn _ (subpaths_refl _)) as Hnode. cbn [node_closed] in Hnode.
        destruct (path_segs b) as [[l sg]|] eqn:Es; [|discriminate]. eapply plain_head; eauto.
    Qed.
  End Nodes.
End Assemble.

Lemma NoDup_map_via {A B C : Type} (f : A -> B) (g : A -> C) l :
  (forall x y, f x = f y -> g x = g y) -> NoDup (map g l) -> NoDup (map f l).
Proof.
  intros Hfg. induction l as [|a l IH]; intros Hnd; [constructor|]. cbn [map] in *.
  inversion Hnd as [|x l' Hnotin Hnd']; subst. constructor; [|apply IH; exact Hnd'].
  intros Hin. apply in_map_iff in Hin as (y & Hy & Hin). apply Hnotin.
  rewrite <- (Hfg _ _ Hy). apply in_map. exact Hin.
Qed.

Lemma ckind_plain_fields k :
  ckind_plain k = true -> forall f, In f (ckind_fields k) -> tp_plain (fi_path f) = true.
Proof.
  destruct k as [|fs|fs]; cbn [ckind_plain ckind_fields]; intros H f Hin.
  - destruct Hin.
  - apply in_map_iff in Hin as (nf & <- & Hnf). rewrite forallb_forall in H.
    specialize (H nf Hnf). apply andb_prop in H as [_ H]. exact H.
  - rewrite forallb_forall in H. apply (H f Hin).
Qed.

Lemma ir_plain_fields s ir :
  ir_plain s ir = true ->
  alloc_okb (alloc_tokens (s_alloc s)) = true /\
  forall f, In f (kind_fields (ti_kind ir)) -> tp_plain (fi_path f) = true.
Proof.
  unfold ir_plain. intros H. apply andb_prop in H as [H Hk]. apply andb_prop in H as [Ha _].
  split; [exact Ha|]. destruct (ti_kind ir) as [c|name docs vs]; cbn [kind_fields].
  - unfold composite_plain in Hk. apply andb_prop in Hk as [_ Hk]. apply ckind_plain_fields. exact Hk.
  - apply andb_prop in Hk as [_ Hk]. intros f Hin. apply in_flat_map in Hin as (ic & Hic & Hin).
    rewrite forallb_forall in Hk. specialize (Hk ic Hic). unfold composite_plain in Hk.
    apply andb_prop in Hk as [_ Hk]. exact (ckind_plain_fields _ Hk f Hin).
Qed.

Lemma mentions_intro g t : In (false, [(g, [])]) (pty_paths t) -> mentions_name g t = true.
Proof.
  intros H. unfold mentions_name. apply existsb_exists. exists (false, [(g, [])]). split; [exact H|].
  cbn [fst snd]. apply String.eqb_refl.
Qed.

Section Final.
  Variable s : settings.
  Variable m : items.
  Hypothesis Hc : ir_closed s m.
  Let alloc := alloc_tokens (s_alloc s).
  Let pm := pmod_of_items s m.

  Section OneItem.
    Variable ir : type_ir.
    Hypothesis Hplain : ir_plain s ir = true.
    Hypothesis Hitem : item_closed s m ir.

    Lemma field_in_paths f ls :
      In ls (pty_paths (ir_pty alloc (fi_path f))) -> In ls (pty_paths (field_pty s f)).
    Proof.
      destruct (ir_plain_fields s ir Hplain) as [Ha _].
      destruct (alloc_some alloc Ha) as (al & asegs & Ea).
      intros H. unfold field_pty. destruct (fi_emit_boxed f); [|exact H].
      fold alloc. rewrite Ea. apply mk_ppath_in; [apply app_tail_ne; discriminate|].
      cbn [flat_map]. rewrite app_nil_r. exact H.
    Qed.

    Lemma item_tys_ok :
      forallb pty_ok (map (field_pty s) (kind_fields (ti_kind ir)) ++ phantom_list (ti_unused ir)) = true.
    Proof.
      destruct (ir_plain_fields s ir Hplain) as [Ha Hfp]. destruct Hitem as (Hf & _ & _).
      destruct (alloc_some alloc Ha) as (al & asegs & Ea).
      rewrite forallb_app, andb_true_iff. split.
      - apply forallb_forall. intros t Ht. apply in_map_iff in Ht as (f & <- & Hin).
        destruct (Hf f Hin) as [Htok _].
        pose proof (ir_pty_ok alloc Ha _ (Hfp f Hin) Htok) as Hok.
        unfold field_pty. destruct (fi_emit_boxed f); [|exact Hok].
        fold alloc. rewrite Ea. apply mk_ppath_ok; [apply app_tail_ne; discriminate|].
        cbn [forallb]. rewrite Hok. reflexivity.
      - unfold phantom_list. destruct (phantom_pty (ti_unused ir)) as [ph|] eqn:Eph; [|reflexivity].
        destruct (phantom_shape _ _ Eph) as (args & -> & _ & Hok). cbn [forallb].
        rewrite pty_ok_mk, Hok. reflexivity.
    Qed.

    Lemma item_tys_resolve :
      forallb (fun t => forallb (fun ls : bool * list (string * list pty) =>
                                   if fst ls then true else path_resolves (s_root s) pm (snd ls))
                                (pty_paths t))
              (map (field_pty s) (kind_fields (ti_kind ir)) ++ phantom_list (ti_unused ir)) = true.
    Proof.
      destruct (ir_plain_fields s ir Hplain) as [Ha Hfp]. destruct Hitem as (Hf & _ & _).
      destruct (alloc_some alloc Ha) as (al & asegs & Ea).
      pose proof Hc as (Hus & _).
      apply forallb_forall. intros t Ht. apply forallb_forall. intros [l segs] Hls. cbn [fst snd].
      destruct l; [reflexivity|]. apply in_app_or in Ht as [Ht|Ht].
      - apply in_map_iff in Ht as (f & <- & Hin). destruct (Hf f Hin) as [_ Hnodes].
        assert (Hinner : In (false, segs) (pty_paths (ir_pty alloc (fi_path f))) ->
                         path_resolves (s_root s) pm segs = true).
        { intros H. destruct (paths_from_subterms alloc _ _ H) as (x & Hx & Hh).
          apply (node_resolves s m Hc al asegs Ea x); [|exact Hh].
          intros y Hy. apply Hnodes. eapply subpaths_trans; eauto. }
        unfold field_pty in Hls. destruct (fi_emit_boxed f); [|apply Hinner; exact Hls].
        fold alloc in Hls. rewrite Ea in Hls. apply mk_ppath_paths in Hls as [H|H].
        + apply head_path_eq in H. eapply (alloc_head s m Hc al asegs Ea); [|exact H]. discriminate.
        + cbn [flat_map] in H. rewrite app_nil_r in H. apply Hinner. exact H.
      - unfold phantom_list in Ht. destruct (phantom_pty (ti_unused ir)) as [ph|] eqn:Eph; [|destruct Ht].
        destruct Ht as [<-|[]]. destruct (phantom_shape _ _ Eph) as (args & -> & Hpaths & _).
        rewrite pty_paths_mk in Hls. destruct Hls as [H|H]; [inversion H|].
        rewrite Hpaths in H. apply in_map_iff in H as (p & Hp & _). inversion Hp; subst.
        apply path_resolves_other. apply tpi_name_not_root. exact Hus.
    Qed.

    Lemma item_generics_used :
      forallb (fun g => existsb (mentions_name g)
                          (map (field_pty s) (kind_fields (ti_kind ir)) ++ phantom_list (ti_unused ir)))
              (map tpi_name (ti_params ir)) = true.
    Proof.
      destruct (ir_plain_fields s ir Hplain) as [Ha Hfp]. destruct Hitem as (_ & Hused & _).
      apply forallb_forall. intros g Hg. apply in_map_iff in Hg as (p & <- & Hp).
      apply existsb_exists. destruct (Hused p Hp) as [Hu|(f & Hf & Hin)].
      - destruct (phantom_pty (ti_unused ir)) as [ph|] eqn:Eph.
        + exists ph. split; [apply in_or_app; right; unfold phantom_list; rewrite Eph; left; reflexivity|].
          destruct (phantom_shape _ _ Eph) as (args & -> & Hpaths & _).
          apply mentions_intro. rewrite pty_paths_mk. right. rewrite Hpaths.
          apply (in_map (fun p0 => (false, [(tpi_name p0, [])])) _ _ Hu).
        + exfalso. destruct (ti_unused ir) as [|a [|b l]]; [destruct Hu|discriminate|discriminate].
      - exists (field_pty s f). split; [apply in_or_app; left; apply in_map; exact Hf|].
        apply mentions_intro. apply field_in_paths.
        apply (param_in_paths alloc Ha _ (Hfp f Hf) p Hin).
    Qed.

    Lemma item_generics_nodup : nodup_str (map tpi_name (ti_params ir)) = true.
    Proof.
      destruct Hitem as (_ & _ & Hnd). apply nodup_str_NoDup.
      apply (NoDup_map_via tpi_name tpi_idx); [apply tpi_name_inj|exact Hnd].
    Qed.
  End OneItem.

  Theorem closedb_of_ir :
    items_plain s m = true -> closedb (s_root s) (pmod_of_items s m) = true.
  Proof.
    intros Hp. unfold closedb. rewrite !andb_true_iff. split; [split|].
    - apply forallb_forall. intros x Hx. unfold pmod_of_items in Hx.
      destruct (all_items_from s _ _ _ _ x Hx) as (e & He & Hs).
      destruct (es0_in m e He) as (p & id & ir & Hin & ->). rewrite Hs. unfold ent_item. cbn [snd].
      assert (Hir : ir_plain s ir = true).
      { unfold items_plain in Hp. rewrite forallb_forall in Hp. apply (Hp _ Hin). }
      pose proof Hc as (_ & _ & _ & _ & Hitems). destruct (Hitems p id ir Hin) as (_ & _ & Hitem).
      rewrite item_field_types_eq, pi_generics_item. rewrite !andb_true_iff. repeat split.
      + apply item_tys_ok; assumption.
      + apply item_tys_resolve; assumption.
      + apply item_generics_used; assumption.
      + apply item_generics_nodup; assumption.
    - unfold pmod_of_items. apply mods_unique_pmod; [lia|apply (es0_nodup s m Hc)|
        apply (es0_names s m Hc)|apply (es0_pf s m Hc)].
    - unfold pmod_of_items. cbn [pmod_of]. rewrite String.eqb_refl. reflexivity.
  Qed.
End Final.

(** ** from the generator: which clauses of [ir_closed] follow from [generate] *)
From V Require Import Proofs.GenProofs Proofs.FidelityBase Model.Shape Proofs.ArityProofs Proofs.ResolveTotal.

Lemma parse_ident_eq x y : parse_ident x = Ok y -> y = x.
Proof. unfold parse_ident. destruct (ident_okb x); intros H; inversion H; reflexivity. Qed.

Lemma create_type_ir_name_params r s t flat ir :
  create_type_ir r s t flat = Ok (Some ir) ->
  t_path t <> [] /\ last (t_path t) "" = pi_name (item_of_ir s ir) /\
  ti_params ir = params_from_scale_info (t_params t).
Proof.
  intros H. rewrite create_type_ir_eq in H.
  destruct (negb (is_composite_or_variant (t_def t))); [discriminate|]. cbv zeta in H.
  destruct (path_ident (t_path t)) as [nm|] eqn:Epi; [|discriminate].
  apply bind_ok in H as (name & Hname & H).
  apply bind_ok in H as ([[kind cdac] unused] & Hk & H).
  apply bind_ok in H as (d & _ & H). inversion H; subst; clear H.
  apply parse_ident_eq in Hname. subst name.
  unfold path_ident in Epi. destruct (t_path t) as [|a tl] eqn:Ep; [discriminate|]. inversion Epi; subst nm.
  split; [discriminate|]. split; [|reflexivity].
  unfold item_of_ir. cbn [ti_kind]. destruct (t_def t); try discriminate.
  - apply bind_ok in Hk as (ku & _ & Hk). inversion Hk; subst. reflexivity.
  - apply bind_ok in Hk as (vu & _ & Hk). inversion Hk; subst. reflexivity.
Qed.

Theorem closedb_emitted_partial r s teq m :
  Proofs.ClosedProofs.root_fresh s -> starts_with "_" (s_root s) = false ->
  generate r s teq = Ok m -> items_plain s m = true ->
  keys_prefix_free m -> nodes_extra s m ->
  closedb (s_root s) (pmod_of_items s m) = true.
Proof.
  intros Hfresh Hus Hg Hp Hpf Hex. apply closedb_of_ir; [|exact Hp].
  destruct (generate_unique_names _ _ _ _ Hg) as [Hsorted Hnd].
  unfold ir_closed. split; [exact Hus|]. split.
  { destruct Hfresh as (_ & Ha & _). destruct (alloc_tokens (s_alloc s)) as [|a l]; [reflexivity|].
    cbn [hd_is hd_error] in *. unfold Parse.teq. destruct (String.eqb a (s_root s)) eqn:E; [|reflexivity].
    apply String.eqb_eq in E. subst a. congruence. }
  split; [exact Hnd|]. split; [exact Hpf|].
  intros p id ir Hin.
  assert (Hget : items_get m p = Some (id, ir)) by (apply (items_get_In_iff m Hsorted); exact Hin).
  destruct (generate_items_come_from_entries _ _ _ _ _ _ _ Hg Hget) as (t & flat & _ & Hpath & _ & _ & Hc).
  destruct (create_type_ir_name_params _ _ _ _ _ Hc) as (Hne & Hlast & Hparams). rewrite Hpath in *.
  split; [exact Hne|]. split; [exact Hlast|].
  unfold item_closed. split; [|split].
  - intros f Hf. destruct (Hex p id ir Hin f Hf) as [Htok Hnodes]. split; [exact Htok|].
    intros x Hx. specialize (Hnodes x Hx). destruct x as [q|ptoks params|o|n o|es|q|i fl c|o st b];
      cbn [node_closed]; try exact I; try exact Hnodes.
    intros Hhd.
    assert (Hhd' : hd_error ptoks = Some (s_root s)).
    { destruct ptoks as [|a l]; [discriminate|]. cbn [hd_is] in Hhd. apply String.eqb_eq in Hhd.
      subst a. reflexivity. }
    destruct (paths_resolve r s Hfresh teq m Hg p id ir Hget f Hf ptoks params Hx Hhd')
      as (q & Eq & Hq).
    destruct (items_get m q) as [[id' ir']|] eqn:Gq; [clear Hq|congruence].
    exists q, id', ir'. split; [exact Eq|]. split; [exact Gq|]. apply (Hnodes q id' ir' Eq Gq).
  - intros q Hq. destruct (generics_used _ _ _ _ _ Hc) as [Hu _]. exact (Hu q Hq).
  - rewrite Hparams. apply params_nodup.
Qed.

(** ** the full chain: generation, emission, independent reading, closedness *)

Theorem closedb_emitted r s teq m :
  Proofs.ClosedProofs.root_fresh s -> starts_with "_" (s_root s) = false -> wrappers_fresh s ->
  skeleton_consistent r s ->
  generate r s teq = Ok m -> items_plain s m = true ->
  keys_prefix_free m -> (forall p id ir, In (p, (id, ir)) m -> ir_tokenizable ir) ->
  closedb (s_root s) (pmod_of_items s m) = true.
Proof.
  intros Hfresh Hus [Hwc Hwb] Hsk Hg Hp Hpf Htok.
  apply (closedb_emitted_partial r s teq m Hfresh Hus Hg Hp Hpf).
  destruct (generate_unique_names _ _ _ _ Hg) as [Hsorted _].
  intros p id ir Hin f Hf. split; [apply (Htok p id ir Hin f Hf)|].
  assert (Hget : items_get m p = Some (id, ir)) by (apply (items_get_In_iff m Hsorted); exact Hin).
  destruct (generate_items_come_from_entries _ _ _ _ _ _ _ Hg Hget) as (t & flat & _ & _ & _ & _ & Hc).
  intros x Hx. pose proof (create_type_ir_inv r s Hfresh _ _ _ Hc f Hf x Hx) as Hnode.
  destruct x as [q|ptoks params|o|n o|es|q|i fl c|o st b]; try exact I.
  - intros q id' ir' Eq Gq.
    exact (arity_consistent r s teq m Hsk Hfresh Hg p id ir Hget f Hf ptoks params Hx q id' ir' Eq Gq).
  - cbn [node_inv] in Hnode. destruct fl; [exact I|]. apply Hwc. exact Hnode.
  - cbn [node_inv] in Hnode. apply Hwb. exact Hnode.
Qed.

Corollary emitted_parses_closed r s teq m toks :
  Proofs.ClosedProofs.root_fresh s -> starts_with "_" (s_root s) = false -> wrappers_fresh s ->
  skeleton_consistent r s ->
  generate r s teq = Ok m -> emit_module s m = Ok toks -> items_plain s m = true ->
  keys_prefix_free m -> (forall p id ir, In (p, (id, ir)) m -> ir_tokenizable ir) ->
  exists pm, parse_module toks = Some pm /\ closedb (s_root s) pm = true.
Proof.
  intros Hfresh Hus Hw Hsk Hg He Hp Hpf Htok. exists (pmod_of_items s m).
  split; [apply emit_parses; assumption|eapply closedb_emitted; eauto].
Qed.

(** ** emission succeeds only on tokenizable items *)
Lemma Forall2_In_l {A B : Type} (R : A -> B -> Prop) l l' x :
  Forall2 R l l' -> In x l -> exists y, In y l' /\ R x y.
Proof.
  induction 1 as [|a b l l' Hab Hl IH]; intros Hin; [destruct Hin|].
  destruct Hin as [->|Hin]; [exists b; split; [left; reflexivity|exact Hab]|].
  destruct (IH Hin) as (y & Hy & Hr). exists y. split; [right; exact Hy|exact Hr].
Qed.

Section EmitTok.
  Variable s : settings.

  Lemma field_tokens_tokenizable f t : field_tokens s f = Ok t -> tokenizable (fi_path f) = true.
  Proof.
    unfold field_tokens. intros H. apply bind_ok in H as (t0 & Ht0 & _).
    exact (Proofs.ResolveTotal.tp_tokens_ok_inv _ _ _ Ht0).
  Qed.

  Lemma struct_fields_tokenizable k ph codec ft :
    struct_field_tokens s k ph codec = Ok ft ->
    forall f, In f (ckind_fields k) -> tokenizable (fi_path f) = true.
  Proof.
    destruct k as [|fs|fs]; cbn [struct_field_tokens ckind_fields]; intros H f Hin.
    - destruct Hin.
    - apply bind_ok in H as (l & Hl & _). apply mapM_ok_Forall2 in Hl.
      apply in_map_iff in Hin as ([name f'] & <- & Hnf).
      destruct (Forall2_In_l _ _ _ _ Hl Hnf) as (y & _ & Hy). cbn beta iota in Hy.
      apply bind_ok in Hy as (t & Ht & _). cbn [snd]. exact (field_tokens_tokenizable _ _ Ht).
    - apply bind_ok in H as (l & Hl & _). apply mapM_ok_Forall2 in Hl.
      destruct (Forall2_In_l _ _ _ _ Hl Hin) as (y & _ & Hy). cbn beta in Hy.
      apply bind_ok in Hy as (t & Ht & _). exact (field_tokens_tokenizable _ _ Ht).
  Qed.

  Lemma enum_fields_tokenizable k codec ft :
    enum_field_tokens s k codec = Ok ft ->
    forall f, In f (ckind_fields k) -> tokenizable (fi_path f) = true.
  Proof.
    destruct k as [|fs|fs]; cbn [enum_field_tokens ckind_fields]; intros H f Hin.
    - destruct Hin.
    - apply bind_ok in H as (l & Hl & _). apply mapM_ok_Forall2 in Hl.
      apply in_map_iff in Hin as ([name f'] & <- & Hnf).
      destruct (Forall2_In_l _ _ _ _ Hl Hnf) as (y & _ & Hy). cbn beta iota in Hy.
      apply bind_ok in Hy as (t & Ht & _). cbn [snd]. exact (field_tokens_tokenizable _ _ Ht).
    - apply bind_ok in H as (l & Hl & _). apply mapM_ok_Forall2 in Hl.
      destruct (Forall2_In_l _ _ _ _ Hl Hin) as (y & _ & Hy). cbn beta in Hy.
      apply bind_ok in Hy as (t & Ht & _). exact (field_tokens_tokenizable _ _ Ht).
  Qed.

  Lemma type_ir_tokens_tokenizable ir toks : type_ir_tokens s ir = Ok toks -> ir_tokenizable ir.
  Proof.
    unfold type_ir_tokens, ir_tokenizable. destruct (ti_kind ir) as [c|name docs vs]; intros H f Hin.
    - apply bind_ok in H as (ft & Hft & _). cbn [kind_fields] in Hin.
      exact (struct_fields_tokenizable _ _ _ _ Hft f Hin).
    - apply bind_ok in H as (l & Hl & _). apply mapM_ok_Forall2 in Hl. cbn [kind_fields] in Hin.
      apply in_flat_map in Hin as ([idx c] & Hic & Hin).
      destruct (Forall2_In_l _ _ _ _ Hl Hic) as (y & _ & Hy). cbn beta iota in Hy.
      apply bind_ok in Hy as (ft & Hft & _). cbn [snd] in Hin.
      exact (enum_fields_tokenizable _ _ _ Hft f Hin).
  Qed.

  Lemma module_tokens_items : forall f name (es : list entry) toks,
    module_tokens s f name es = Ok toks ->
    (forall e, In e es -> fst e <> [] /\ List.length (fst e) <= f) ->
    forall e, In e es -> exists t, type_ir_tokens s (snd (snd e)) = Ok t.
  Proof.
    induction f as [|f IH]; intros name es toks H Hes e He; [discriminate|].
    cbn [module_tokens] in H. apply bind_ok in H as (mods & Hmods & H).
    apply bind_ok in H as (tys & Htys & _). apply mapM_ok_Forall2 in Hmods, Htys.
    destruct (Hes e He) as [Hne Hl]. destruct (fst e) as [|h [|a tl]] eqn:Ef; [congruence| |].
    - assert (Hh : In e (here es)) by (apply here_In; split; [exact He|exists h; exact Ef]).
      destruct (Forall2_In_l _ _ _ _ Htys Hh) as (y & _ & Hy). exists y. exact Hy.
    - pose proof (child_names_intro es e h a tl He Ef) as Hh.
      destruct (Forall2_In_l _ _ _ _ Hmods Hh) as (mt & _ & Hmt).
      destruct (IH h (under h es) mt Hmt) with (e := (a :: tl, snd e)) as (t & Ht).
      + intros e' He'. destruct (under_elim _ _ _ He') as (e0 & He0 & Hf0 & _ & Hne0).
        split; [exact Hne0|]. destruct (Hes e0 He0) as [_ Hl0]. rewrite Hf0 in Hl0.
        cbn [List.length] in Hl0. lia.
      + apply (under_intro h es e a tl He Ef).
      + exists t. exact Ht.
  Qed.

  Lemma emit_module_tokenizable m toks :
    emit_module s m = Ok toks -> (forall e, In e m -> fst e <> []) ->
    forall p id ir, In (p, (id, ir)) m -> ir_tokenizable ir.
  Proof.
    unfold emit_module. intros H Hne p id ir Hin.
    destruct (module_tokens_items _ _ _ _ H) with (e := (p, (p, ir))) as (t & Ht).
    - intros e He. apply in_map_iff in He as (e0 & <- & He0). cbn [fst]. split; [apply Hne; exact He0|].
      pose proof (max_depth_ge m e0 He0). lia.
    - apply in_map_iff. exists (p, (id, ir)). split; [reflexivity|exact Hin].
    - cbn [snd] in Ht. exact (type_ir_tokens_tokenizable _ _ Ht).
  Qed.
End EmitTok.

(** the chain without the tokenizability hypothesis *)
Theorem emitted_closed r s teq m toks :
  Proofs.ClosedProofs.root_fresh s -> starts_with "_" (s_root s) = false -> wrappers_fresh s ->
  skeleton_consistent r s ->
  generate r s teq = Ok m -> emit_module s m = Ok toks -> items_plain s m = true ->
  keys_prefix_free m ->
  exists pm, parse_module toks = Some pm /\ closedb (s_root s) pm = true.
Proof.
  intros Hfresh Hus Hw Hsk Hg He Hp Hpf.
  apply (emitted_parses_closed r s teq m toks); try assumption.
  apply (emit_module_tokenizable s m toks He).
  destruct (generate_unique_names _ _ _ _ Hg) as [Hsorted _].
  intros [p [id ir]] Hin. cbn [fst].
  assert (Hget : items_get m p = Some (id, ir)) by (apply (items_get_In_iff m Hsorted); exact Hin).
  destruct (generate_items_come_from_entries _ _ _ _ _ _ _ Hg Hget) as (t & flat & _ & Hpath & _ & _ & Hc).
  destruct (create_type_ir_name_params _ _ _ _ _ Hc) as (Hne & _ & _). rewrite Hpath in Hne. exact Hne.
Qed.

(** ** a decidable test for prefix-freeness *)
Lemma firstn_len_app {T : Type} (p r : list T) : firstn (List.length p) (p ++ r) = p.
Proof. induction p as [|a p IH]; [reflexivity|]. cbn [List.length app firstn]. rewrite IH. reflexivity. Qed.

Lemma prefix_freeb_sound (m : items) : prefix_freeb (map fst m) = true -> keys_prefix_free m.
Proof.
  unfold prefix_freeb, keys_prefix_free. intros H p q x l Hp Hq E.
  rewrite forallb_forall in H. specialize (H p Hp). rewrite forallb_forall in H. specialize (H q Hq).
  apply negb_true_iff in H. unfold is_proper_prefix in H. subst q.
  rewrite firstn_len_app, app_length in H. cbn [List.length] in H.
  rewrite (list_eqb_refl String.eqb String.eqb_refl) in H.
  assert (Hlt : Nat.ltb (List.length p) (List.length p + S (List.length l)) = true) by (apply Nat.ltb_lt; lia).
  rewrite Hlt in H. discriminate H.
Qed.
