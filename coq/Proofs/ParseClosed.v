(** C02 (emit-parses), corollaries: syntactic forms of the parsed items; closedness of the
    parse of the emitted tokens from the IR-level theorems of [Proofs/ClosedProofs.v]. *)
From Coq Require Import List NArith String Ascii Bool Lia Arith Sorted.
From V Require Import Base.Util Base.Strings Base.Result Model.Registry Model.Settings Model.Subst
  Model.TypePath Model.Derives Model.Generate Model.Emit Model.Equal Model.WellFormed Checkers.Parse
  Checkers.Sem Model.Unparse Model.UnparseClosed Proofs.TpMap Proofs.ParseEq Proofs.ParseTy Proofs.ParseItem Proofs.ParseMod.
Import ListNotations.
Open Scope nat_scope. Open Scope string_scope. Open Scope list_scope.

(** ** the trailing semicolon: present exactly for unit and tuple structs *)
Definition semi_struct (ir : type_ir) : Prop :=
  exists c, ti_kind ir = KStruct c /\ (ci_kind c = CNoFields \/ exists fs, ci_kind c = CUnnamed fs).

Lemma item_semi s ir : pi_semi (item_of_ir s ir) = true <-> semi_struct ir.
Proof.
  unfold item_of_ir, semi_struct. destruct (ti_kind ir) as [c|name docs vs]; cbn [pi_semi].
  - destruct (ci_kind c) as [|fs|fs] eqn:K; split; intros H; try reflexivity; try discriminate.
    + exists c. split; [reflexivity|]. left; exact K.
    + destruct H as (c' & E & [K'|(fs' & K')]); inversion E; subst; congruence.
    + exists c. split; [reflexivity|]. right; exists fs; exact K.
  - split; [discriminate|]. intros (c & E & _). discriminate.
Qed.

Theorem syn_forms s ir toks :
  type_ir_tokens s ir = Ok toks -> ir_plain s ir = true ->
  exists it, parse_one_item toks = Some it /\ it = item_of_ir s ir /\
             (pi_semi it = true <-> semi_struct ir).
Proof.
  intros H Hp. exists (item_of_ir s ir). split; [|split; [reflexivity|apply item_semi]].
  unfold parse_one_item.
  pose proof (item_parses s ir toks H Hp (S (List.length toks)) [] (le_n _) (fun _ _ => eq_refl)) as HP.
  rewrite app_nil_r in HP. rewrite HP. reflexivity.
Qed.

(** ** traversals of parsed types *)
Lemma pty_ok_args aa :
  (fix go2 (p : list pty) := match p with [] => true | u :: p' => pty_ok u && go2 p' end) aa =
  forallb pty_ok aa.
Proof. reflexivity. Qed.

Lemma pty_ok_PPath l segs :
  pty_ok (PPath l segs) = forallb (fun sa => forallb pty_ok (snd sa)) segs.
Proof.
  cbn [pty_ok]. induction segs as [|[n aa] segs IH]; [reflexivity|].
  cbn [forallb snd]. rewrite <- IH. reflexivity.
Qed.

Lemma pty_ok_PTuple xs : pty_ok (PTuple xs) = forallb pty_ok xs.
Proof. cbn [pty_ok]. apply pty_ok_args. Qed.

Lemma pty_paths_args aa :
  (fix go2 (p : list pty) := match p with [] => [] | u :: p' => pty_paths u ++ go2 p' end) aa =
  flat_map pty_paths aa.
Proof. reflexivity. Qed.

Lemma pty_paths_PPath l segs :
  pty_paths (PPath l segs) = (l, segs) :: flat_map (fun sa => flat_map pty_paths (snd sa)) segs.
Proof.
  cbn [pty_paths]. f_equal. induction segs as [|[n aa] segs IH]; [reflexivity|].
  cbn [flat_map snd]. rewrite <- IH. reflexivity.
Qed.

Lemma pty_paths_PTuple xs : pty_paths (PTuple xs) = flat_map pty_paths xs.
Proof. cbn [pty_paths]. apply pty_paths_args. Qed.

Lemma pty_ok_mk l pre x args :
  pty_ok (PPath l (map seg0 pre ++ [(x, args)])) = forallb pty_ok args.
Proof.
  rewrite pty_ok_PPath, forallb_app. cbn [forallb snd]. rewrite andb_true_r.
  replace (forallb (fun sa : string * list pty => forallb pty_ok (snd sa)) (map seg0 pre)) with true;
    [reflexivity|].
  symmetry. apply forallb_forall. intros sa Hin. apply in_map_iff in Hin as (y & <- & _). reflexivity.
Qed.

Lemma pty_paths_mk l pre x args :
  pty_paths (PPath l (map seg0 pre ++ [(x, args)])) =
  (l, map seg0 pre ++ [(x, args)]) :: flat_map pty_paths args.
Proof.
  rewrite pty_paths_PPath. f_equal. rewrite flat_map_app. cbn [flat_map snd]. rewrite app_nil_r.
  replace (flat_map (fun sa : string * list pty => flat_map pty_paths (snd sa)) (map seg0 pre)) with
    (@nil (bool * list (string * list pty))); [reflexivity|].
  symmetry. induction pre as [|y pre IH]; [reflexivity|]. cbn [map flat_map seg0 snd app]. exact IH.
Qed.

Definition head_path (t : pty) : option (bool * list (string * list pty)) :=
  match t with PPath l segs => Some (l, segs) | _ => None end.

Lemma mk_ppath_cases o tail args :
  mk_ppath o tail args = PBad \/
  exists l pre x, mk_ppath o tail args = PPath l (map seg0 pre ++ [(x, args)]) /\
                  exists segs, o = Some (l, segs) /\ segs ++ tail = pre ++ [x].
Proof.
  destruct o as [[l segs]|]; [|left; reflexivity]. unfold mk_ppath.
  destruct (rev (segs ++ tail)) as [|x pre] eqn:E; [left; reflexivity|].
  right. exists l, (rev pre), x. split; [reflexivity|]. exists segs. split; [reflexivity|].
  rewrite <- (rev_involutive (segs ++ tail)), E. reflexivity.
Qed.

Lemma mk_ppath_paths o tail args ls :
  In ls (pty_paths (mk_ppath o tail args)) ->
  head_path (mk_ppath o tail args) = Some ls \/ In ls (flat_map pty_paths args).
Proof.
  destruct (mk_ppath_cases o tail args) as [E|(l & pre & x & E & _)]; rewrite E.
  - intros [].
  - rewrite pty_paths_mk. intros [<-|H]; [left; reflexivity|right; exact H].
Qed.

(** every path node of [ir_pty t] is the head of [ir_pty x] for a sub-path [x] of [t] *)
Lemma subpaths_trans x y t : In x (subpaths y) -> In y (subpaths t) -> In x (subpaths t).
Proof.
  revert x y. induction t as [p|ptoks ps IH|o IH|n o IH|es IH|p|i f c IH|o st b IHo IHst] using tpath_ind';
    intros x y Hx Hy; cbn [subpaths] in Hy; destruct Hy as [<-|Hy]; try exact Hx; try destruct Hy;
    cbn [subpaths]; right.
  - apply in_flat_map in Hy as (c & Hc & Hy). apply in_flat_map. exists c. split; [exact Hc|].
    rewrite Forall_forall in IH. eapply IH; eauto.
  - eapply IH; eauto.
  - eapply IH; eauto.
  - apply in_flat_map in Hy as (c & Hc & Hy). apply in_flat_map. exists c. split; [exact Hc|].
    rewrite Forall_forall in IH. eapply IH; eauto.
  - eapply IH; eauto.
  - apply in_app_or in Hy as [Hy|Hy]; apply in_or_app; [left; eapply IHo|right; eapply IHst]; eauto.
Qed.

Lemma subpaths_refl t : In t (subpaths t).
Proof. destruct t; left; reflexivity. Qed.

Lemma paths_from_subterms alloc : forall t ls,
  In ls (pty_paths (ir_pty alloc t)) ->
  exists x, In x (subpaths t) /\ head_path (ir_pty alloc x) = Some ls.
Proof.
  induction t as [p|ptoks ps IH|o IH|n o IH|es IH|p|i f c IH|o st b IHo IHst] using tpath_ind';
    intros ls Hin.
  - cbn [ir_pty param_pty] in Hin. destruct Hin as [<-|[]]. exists (TParam p). split; [left; reflexivity|reflexivity].
  - change (ir_pty alloc (TPath ptoks ps)) with (mk_ppath (path_segs ptoks) [] (map (ir_pty alloc) ps)) in Hin.
    apply mk_ppath_paths in Hin as [H|H].
    + exists (TPath ptoks ps). split; [apply subpaths_refl|exact H].
    + apply in_flat_map in H as (a & Ha & H). apply in_map_iff in Ha as (c & <- & Hc).
      rewrite Forall_forall in IH. destruct (IH c Hc ls H) as (x & Hx & Hh).
      exists x. split; [|exact Hh]. cbn [subpaths]. right. apply in_flat_map. eauto.
  - change (ir_pty alloc (TVec o)) with (mk_ppath (alloc_segs alloc) ["vec"; "Vec"] [ir_pty alloc o]) in Hin.
    apply mk_ppath_paths in Hin as [H|H].
    + exists (TVec o). split; [apply subpaths_refl|exact H].
    + cbn [flat_map] in H. rewrite app_nil_r in H. destruct (IH ls H) as (x & Hx & Hh).
      exists x. split; [right; exact Hx|exact Hh].
  - cbn [ir_pty pty_paths] in Hin. destruct (IH ls Hin) as (x & Hx & Hh).
    exists x. split; [right; exact Hx|exact Hh].
  - change (ir_pty alloc (TTuple es)) with (PTuple (map (ir_pty alloc) es)) in Hin.
    rewrite pty_paths_PTuple in Hin.
    apply in_flat_map in Hin as (a & Ha & H). apply in_map_iff in Ha as (c & <- & Hc).
    rewrite Forall_forall in IH. destruct (IH c Hc ls H) as (x & Hx & Hh).
    exists x. split; [|exact Hh]. cbn [subpaths]. right. apply in_flat_map. eauto.
  - exists (TPrim p). split; [apply subpaths_refl|].
    cbn [ir_pty] in *. destruct p; cbn [prim_ident] in *;
      try (destruct Hin as [<-|[]]; reflexivity); try destruct Hin.
    apply mk_ppath_paths in Hin as [H|[]]. exact H.
  - cbn [ir_pty] in Hin. destruct f.
    + destruct (IH ls Hin) as (x & Hx & Hh). exists x. split; [right; exact Hx|exact Hh].
    + apply mk_ppath_paths in Hin as [H|H].
      * exists (TCompact i false c). split; [apply subpaths_refl|exact H].
      * cbn [flat_map] in H. rewrite app_nil_r in H. destruct (IH ls H) as (x & Hx & Hh).
        exists x. split; [right; exact Hx|exact Hh].
  - cbn [ir_pty] in Hin. apply mk_ppath_paths in Hin as [H|H].
    + exists (TBitVec o st b). split; [apply subpaths_refl|exact H].
    + cbn [flat_map] in H. rewrite app_nil_r in H. apply in_app_or in H as [H|H].
      * destruct (IHst ls H) as (x & Hx & Hh). exists x. split; [|exact Hh].
        cbn [subpaths]. right. apply in_or_app. right; exact Hx.
      * destruct (IHo ls H) as (x & Hx & Hh). exists x. split; [|exact Hh].
        cbn [subpaths]. right. apply in_or_app. left; exact Hx.
Qed.

Lemma mk_ppath_some l segs tail args :
  segs ++ tail <> [] ->
  exists pre x, segs ++ tail = pre ++ [x] /\
                mk_ppath (Some (l, segs)) tail args = PPath l (map seg0 pre ++ [(x, args)]).
Proof.
  intros Hne. destruct (exists_last Hne) as (pre & x & E). exists pre, x. split; [exact E|].
  apply mk_ppath_snoc. exact E.
Qed.

Lemma mk_ppath_ok l segs tail args :
  segs ++ tail <> [] -> forallb pty_ok args = true -> pty_ok (mk_ppath (Some (l, segs)) tail args) = true.
Proof.
  intros Hne Ha. destruct (mk_ppath_some l segs tail args Hne) as (pre & x & _ & ->).
  rewrite pty_ok_mk. exact Ha.
Qed.

Lemma mk_ppath_in l segs tail args ls :
  segs ++ tail <> [] -> In ls (flat_map pty_paths args) ->
  In ls (pty_paths (mk_ppath (Some (l, segs)) tail args)).
Proof.
  intros Hne Ha. destruct (mk_ppath_some l segs tail args Hne) as (pre & x & _ & ->).
  rewrite pty_paths_mk. right. exact Ha.
Qed.

Lemma app_tail_ne {T : Type} (a b : list T) : b <> [] -> a ++ b <> [].
Proof. destruct a; [trivial|discriminate]. Qed.

Section PtyOk.
  Variable alloc : tokens.
  Hypothesis Halloc : alloc_okb alloc = true.

  Lemma alloc_some : exists al asegs, alloc_segs alloc = Some (al, asegs).
  Proof.
    unfold alloc_okb in Halloc. destruct (alloc_segs alloc) as [[al asegs]|]; [eauto|discriminate].
  Qed.

  Lemma ir_pty_ok : forall t,
    tp_plain t = true -> tokenizable t = true -> pty_ok (ir_pty alloc t) = true.
  Proof.
    destruct alloc_some as (al & asegs & Ea).
    induction t as [p|ptoks ps IH|o IH|n o IH|es IH|p|i f c IH|o st b IHo IHst] using tpath_ind';
      intros Hp Ht; cbn [tp_plain tokenizable] in Hp, Ht.
    - reflexivity.
    - apply andb_prop in Hp as [Hpp Hps]. unfold plain_path in Hpp.
      destruct (path_segs ptoks) as [[l segs]|] eqn:Es; [|discriminate].
      destruct (path_segs_spec _ _ _ Es) as (_ & Hne & _).
      change (ir_pty alloc (TPath ptoks ps)) with (mk_ppath (path_segs ptoks) [] (map (ir_pty alloc) ps)).
      rewrite Es. apply mk_ppath_ok; [rewrite app_nil_r; exact Hne|].
      apply forallb_forall. intros a Ha. apply in_map_iff in Ha as (c & <- & Hc).
      rewrite Forall_forall in IH. rewrite forallb_forall in Hps, Ht. apply IH; auto.
    - cbn [ir_pty]. rewrite Ea. apply mk_ppath_ok; [apply app_tail_ne; discriminate|].
      cbn [forallb]. rewrite IH by assumption. reflexivity.
    - cbn [ir_pty pty_ok]. apply IH; assumption.
    - change (ir_pty alloc (TTuple es)) with (PTuple (map (ir_pty alloc) es)). rewrite pty_ok_PTuple.
      apply forallb_forall. intros a Ha. apply in_map_iff in Ha as (c & <- & Hc).
      rewrite Forall_forall in IH. rewrite forallb_forall in Hp, Ht. apply IH; auto.
    - cbn [ir_pty]. destruct p; cbn [is256 negb] in Ht; try discriminate; try reflexivity.
      rewrite Ea. apply mk_ppath_ok; [apply app_tail_ne; discriminate|reflexivity].
    - apply andb_prop in Hp as [Hpc Hpi]. apply andb_prop in Ht as [Hti _]. cbn [ir_pty].
      destruct f; [apply IH; assumption|]. cbn [orb] in Hpc. unfold plain_path in Hpc.
      destruct (path_segs c) as [[l segs]|] eqn:Es; [|discriminate].
      destruct (path_segs_spec _ _ _ Es) as (_ & Hne & _).
      apply mk_ppath_ok; [rewrite app_nil_r; exact Hne|]. cbn [forallb]. rewrite IH by assumption. reflexivity.
    - apply andb_prop in Hp as [Hp Hpst]. apply andb_prop in Hp as [Hpb Hpo].
      apply andb_prop in Ht as [Hto Htst]. cbn [ir_pty]. unfold plain_path in Hpb.
      destruct (path_segs b) as [[l segs]|] eqn:Es; [|discriminate].
      destruct (path_segs_spec _ _ _ Es) as (_ & Hne & _).
      apply mk_ppath_ok; [rewrite app_nil_r; exact Hne|]. cbn [forallb].
      rewrite IHo, IHst by assumption. reflexivity.
  Qed.

  Lemma param_in_paths : forall t,
    tp_plain t = true -> forall p, In p (parent_params t) ->
    In (false, [(tpi_name p, [])]) (pty_paths (ir_pty alloc t)).
  Proof.
    destruct alloc_some as (al & asegs & Ea).
    induction t as [q|ptoks ps IH|o IH|n o IH|es IH|q|i f c IH|o st b IHo IHst] using tpath_ind';
      intros Hp p Hin; cbn [tp_plain] in Hp.
    - cbn [parent_params] in Hin. destruct Hin as [<-|[]]. left. reflexivity.
    - apply andb_prop in Hp as [Hpp Hps]. unfold plain_path in Hpp.
      destruct (path_segs ptoks) as [[l segs]|] eqn:Es; [|discriminate].
      destruct (path_segs_spec _ _ _ Es) as (_ & Hne & _).
      change (ir_pty alloc (TPath ptoks ps)) with (mk_ppath (path_segs ptoks) [] (map (ir_pty alloc) ps)).
      rewrite Es. apply mk_ppath_in; [rewrite app_nil_r; exact Hne|].
      change (parent_params (TPath ptoks ps)) with (flat_map parent_params ps) in Hin.
      apply in_flat_map in Hin as (c & Hc & Hin). apply in_flat_map. exists (ir_pty alloc c).
      split; [apply in_map; exact Hc|]. rewrite Forall_forall in IH. rewrite forallb_forall in Hps.
      apply IH; auto.
    - cbn [ir_pty]. rewrite Ea. apply mk_ppath_in; [apply app_tail_ne; discriminate|].
      cbn [flat_map]. rewrite app_nil_r. apply IH; assumption.
    - cbn [ir_pty pty_paths]. apply IH; assumption.
    - change (ir_pty alloc (TTuple es)) with (PTuple (map (ir_pty alloc) es)). rewrite pty_paths_PTuple.
      change (parent_params (TTuple es)) with (flat_map parent_params es) in Hin.
      apply in_flat_map in Hin as (c & Hc & Hin). apply in_flat_map. exists (ir_pty alloc c).
      split; [apply in_map; exact Hc|]. rewrite Forall_forall in IH. rewrite forallb_forall in Hp.
      apply IH; auto.
    - destruct Hin.
    - apply andb_prop in Hp as [Hpc Hpi]. cbn [parent_params] in Hin. cbn [ir_pty].
      destruct f; [apply IH; assumption|]. cbn [orb] in Hpc. unfold plain_path in Hpc.
      destruct (path_segs c) as [[l segs]|] eqn:Es; [|discriminate].
      destruct (path_segs_spec _ _ _ Es) as (_ & Hne & _).
      apply mk_ppath_in; [rewrite app_nil_r; exact Hne|]. cbn [flat_map]. rewrite app_nil_r.
      apply IH; assumption.
    - apply andb_prop in Hp as [Hp Hpst]. apply andb_prop in Hp as [Hpb Hpo].
      cbn [parent_params] in Hin. cbn [ir_pty]. unfold plain_path in Hpb.
      destruct (path_segs b) as [[l segs]|] eqn:Es; [|discriminate].
      destruct (path_segs_spec _ _ _ Es) as (_ & Hne & _).
      apply mk_ppath_in; [rewrite app_nil_r; exact Hne|]. cbn [flat_map]. rewrite app_nil_r.
      apply in_or_app. apply in_app_or in Hin as [Hin|Hin]; [right; apply IHo|left; apply IHst]; assumption.
  Qed.
End PtyOk.

(** ** the field types of a parsed item *)
Definition phantom_list (unused : list tparam_ir) : list pty :=
  match phantom_pty unused with Some p => [p] | None => [] end.

Lemma variant_body_tys s k codec :
  map pf_ty (body_fields (variant_body s k codec)) = map (field_pty s) (ckind_fields k).
Proof.
  destruct k as [|fs|fs]; cbn [variant_body body_fields ckind_fields map]; [reflexivity| |];
    rewrite !map_map; reflexivity.
Qed.

Lemma struct_body_tys s k unused codec :
  map pf_ty (body_fields (struct_body s k unused codec)) =
  map (field_pty s) (ckind_fields k) ++ phantom_list unused.
Proof.
  unfold phantom_list, struct_body, marker_fields.
  destruct k as [|fs|fs]; destruct (phantom_pty unused) as [ph|];
    cbn [body_fields ckind_fields map app]; try reflexivity;
    rewrite ?map_app, !map_map; cbn [map pf_ty]; rewrite ?app_nil_r; reflexivity.
Qed.

Lemma item_field_types_eq s ir :
  item_field_types (item_of_ir s ir) =
  map (field_pty s) (kind_fields (ti_kind ir)) ++ phantom_list (ti_unused ir).
Proof.
  unfold item_field_types, item_of_ir. destruct (ti_kind ir) as [c|name docs vs]; cbn [pi_body pi_variants].
  - cbn [flat_map kind_fields]. rewrite app_nil_r. apply struct_body_tys.
  - cbn [body_fields map app kind_fields]. rewrite flat_map_app. f_equal.
    + induction vs as [|ic vs IH]; [reflexivity|]. cbn [map flat_map]. rewrite map_app, <- IH. f_equal.
      unfold variant_of. cbn [pv_body]. apply variant_body_tys.
    + unfold ignore_variants, phantom_list. destruct (phantom_pty (ti_unused ir)); reflexivity.
Qed.
