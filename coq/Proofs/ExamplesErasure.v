(** C09: the token-level erasure theorems of Proofs/ErasureProofs.v evaluated on the registry of
    Model/ExamplesTG.v (an enum with doc lines on the type and on a variant, a compact field,
    docs on, codec on): both erasures are non-trivial, and the hypothesis of the end-to-end
    theorems ("the word does not occur among the caller's inputs") cannot be dropped. *)
From Coq Require Import List NArith String Bool.
From V Require Import Base.Strings Base.Result Model.Registry Model.Settings Model.Subst
  Model.TypePath Model.Derives Model.Generate Model.Emit Model.Equal Model.Switches Model.Inputs
  Model.ExamplesTG Model.ExamplesFrames Model.Erasure.
Import ListNotations.
Open Scope string_scope. Open Scope list_scope. Open Scope N_scope.

(** docs: the hypothesis holds; erasing the doc groups of the docs-on output gives the docs-off
    output; the two outputs differ, the docs-on output contains a doc group *)
Example ex_docs_erasure :
  word_free_inputs "doc" ex_reg ex_set = true /\
  match gen_emit ex_reg ex_set ex_teq, gen_emit ex_reg (set_docs false ex_set) ex_teq with
  | Ok on, Ok off =>
      erase_doc_attrs on = off /\ on <> off /\
      occurs ["#"; "["; "doc"; "="; lit_string "enum doc"; "]"] on = true /\
      occurs ["#"; "["; "doc"; "="; lit_string "variant A"; "]"] on = true /\
      has_open "doc" off = false /\
      (List.length on > List.length off)%nat
  | _, _ => False
  end.
Proof.
  vm_compute. repeat split; try reflexivity.
  - intros H; discriminate H.
  - repeat constructor.
Qed.

(** codec: erasing the codec groups of the codec-on output gives the codec-off output; the
    compact field [c] is printed as the bare inner type under BOTH settings, only the
    [#[codec(compact)]] attribute in front of it is governed by the switch *)
Example ex_codec_erasure :
  word_free_inputs "codec" ex_reg ex_set = true /\
  match gen_emit ex_reg ex_set ex_teq, gen_emit ex_reg (set_codec false ex_set) ex_teq with
  | Ok on, Ok off =>
      erase_codec_attrs on = off /\ on <> off /\
      occurs (compact_attr ++ ["c"; ":"; ":"; ":"; "core"; ":"; ":"; "primitive"; ":"; ":"; "u32"; ","]) on = true /\
      occurs [","; "c"; ":"; ":"; ":"; "core"; ":"; ":"; "primitive"; ":"; ":"; "u32"; ","] off = true /\
      occurs (codec_index 3) on = true /\
      has_open "codec" off = false
  | _, _ => False
  end.
Proof.
  vm_compute. repeat split; try reflexivity. intros H; discriminate H.
Qed.

(** the hypothesis is needed: with a user-configured attribute [#[doc = "user"]] on every type the
    docs-off output still contains that attribute, the eraser deletes it from the docs-on output *)
Definition ex_set_user_doc : settings :=
  mk_settings "root" true
              (mk_dreg (mk_derives [("Debug", ["Debug"])]
                                   [("# [doc = ""user""]", ["#"; "["; "doc"; "="; lit_string "user"; "]"])])
                       [] [])
              [] None None (Some [":"; ":"; "parity"; ":"; ":"; "Compact"]) true
              (ACustom [":"; ":"; "alloc"]).

Example ex_docs_hypothesis_needed :
  word_free_inputs "doc" ex_reg ex_set_user_doc = false /\
  match gen_emit ex_reg ex_set_user_doc ex_teq, gen_emit ex_reg (set_docs false ex_set_user_doc) ex_teq with
  | Ok on, Ok off => erase_doc_attrs on <> off /\ has_open "doc" off = true
  | _, _ => False
  end.
Proof.
  vm_compute. repeat split; try reflexivity. intros H; discriminate H.
Qed.

Definition ex_set_user_codec : settings :=
  mk_settings "root" true
              (mk_dreg (mk_derives [("Debug", ["Debug"])]
                                   [("# [codec (skip)]", ["#"; "["; "codec"; "("; "skip"; ")"; "]"])])
                       [] [])
              [] None None (Some [":"; ":"; "parity"; ":"; ":"; "Compact"]) true
              (ACustom [":"; ":"; "alloc"]).

Example ex_codec_hypothesis_needed :
  word_free_inputs "codec" ex_reg ex_set_user_codec = false /\
  match gen_emit ex_reg ex_set_user_codec ex_teq, gen_emit ex_reg (set_codec false ex_set_user_codec) ex_teq with
  | Ok on, Ok off => erase_codec_attrs on <> off /\ has_open "codec" off = true
  | _, _ => False
  end.
Proof.
  vm_compute. repeat split; try reflexivity. intros H; discriminate H.
Qed.
