(** C08: what [flatten_recursive_derives] + [resolve] + [create_type_ir] put on an
    item, as sets: global + registered for the path + recursive registrations
    of the roots that reach the path (+ CompactAs under the single-uint rule). *)
From Coq Require Import List NArith String Bool Lia.
From V Require Import Base.Strings Base.Result Model.Registry Model.Settings Model.Subst
  Model.TypePath Model.Derives Model.Generate Model.Equal Model.Reach
  Proofs.GenProofs Proofs.CollectProofs.
From V Require Import Proofs.SynKey.
Import ListNotations.
Open Scope string_scope. Open Scope list_scope.

(** ** [flatten] in named pieces *)
Definition key_entry : N * ty -> result (N * option string) :=
  fun '(id, t) =>
    match t_path t with
    | [] => Ok (id, None)
    | p => let* k := syn_type_path_key p in Ok (id, Some k)
    end.

Definition key_of_in (keys : list (N * option string)) (id : N) : option string :=
  match find (fun e => N.eqb (fst e) id) keys with Some (_, k) => k | None => None end.

Section Roots.
  Variable rc : kmap.
  Variable r : registry.
  Fixpoint roots_go (l : list (N * option string)) (acc : list (N * derives))
    : result (list (N * derives)) :=
    match l with
    | [] => Ok acc
    | (id, None) :: l' => roots_go l' acc
    | (id, Some k) :: l' =>
        match kmap_get rc k with
        | None => roots_go l' acc
        | Some d =>
            let* ids := collect_type_ids r id in
            roots_go l' (acc ++ map (fun i => (i, d)) ids)
        end
    end.
End Roots.

Definition merge_step (keys : list (N * option string)) (m : list (string * derives))
  : N * derives -> list (string * derives) :=
  fun '(id, d) =>
    match key_of_in keys id with
    | Some k => smap_extend m k d
    | None => m
    end.

Lemma flatten_unfold dr r :
  flatten dr r =
  match dr_recursive dr with
  | [] => Ok (mk_flat (dr_default dr) (flat_of_specific (dr_specific dr)))
  | _ =>
      let* keys := mapM key_entry r in
      let* acc := roots_go (dr_recursive dr) r keys [] in
      Ok (mk_flat (dr_default dr)
                  (fold_left (merge_step keys) acc (flat_of_specific (dr_specific dr))))
  end.
Proof. reflexivity. Qed.

(** ** selectors: the derive half and the attribute half of a [derives] *)
Definition selector (sel : derives -> list kt) : Prop := sel = d_derives \/ sel = d_attrs.

Lemma sel_union sel a b : selector sel -> sel (derives_union a b) = sel a ++ sel b.
Proof. intros [->| ->]; reflexivity. Qed.
Lemma sel_empty sel : selector sel -> sel derives_empty = [].
Proof. intros [->| ->]; reflexivity. Qed.

(** ** the maps *)
Lemma smap_get_extend sel (Hs : selector sel) m k d k' :
  sel (smap_get_or_empty (smap_extend m k d) k') =
  if String.eqb k k' then sel (smap_get_or_empty m k') ++ sel d else sel (smap_get_or_empty m k').
Proof.
  unfold smap_get_or_empty.
  induction m as [|[k0 d0] m IH]; cbn [smap_extend smap_get].
  - destruct (String.eqb k k'); [|reflexivity]. rewrite (sel_empty sel Hs). reflexivity.
  - destruct (String.eqb k0 k) eqn:E0; cbn [smap_get].
    + apply String.eqb_eq in E0; subst k0.
      destruct (String.eqb k k'); [apply sel_union; exact Hs|reflexivity].
    + destruct (String.eqb k0 k') eqn:E1; [|exact IH].
      apply String.eqb_eq in E1; subst k0.
      rewrite String.eqb_sym in E0. rewrite E0. reflexivity.
Qed.

Lemma flat_of_specific_get m k : smap_get (flat_of_specific m) k = kmap_get m k.
Proof.
  induction m as [|[k0 d0] m IH]; cbn; [reflexivity|].
  destruct (String.eqb (k_key k0) k); [reflexivity|exact IH].
Qed.

Lemma kmap_get_in m key d : kmap_get m key = Some d -> exists k, In (k, d) m /\ k_key k = key.
Proof.
  induction m as [|[k0 d0] m IH]; cbn [kmap_get]; [discriminate|].
  destruct (String.eqb (k_key k0) key) eqn:E.
  - intros H; inversion H; subst. apply String.eqb_eq in E. exists k0. split; [left; reflexivity|exact E].
  - intros H. destruct (IH H) as (k & Hin & Hk). exists k. split; [right; exact Hin|exact Hk].
Qed.

(** ** keys of the registry entries *)
Lemma syn_key_ok p k : syn_type_path_key p = Ok k -> p <> [] /\ k = path_key p.
Proof. exact (syn_key_ok_eq p k). Qed.

Lemma key_entry_ok id t ke :
  key_entry (id, t) = Ok ke ->
  fst ke = id /\
  ((t_path t = [] /\ snd ke = None) \/ (t_path t <> [] /\ snd ke = Some (path_key (t_path t)))).
Proof.
  unfold key_entry. destruct (t_path t) as [|a p] eqn:E.
  - intros H; inversion H; subst. cbn. auto.
  - intros H. apply bind_ok in H as (k & Hk & H). inversion H; subst. cbn [fst snd].
    apply syn_key_ok in Hk as [Hne ->]. auto.
Qed.

Lemma Forall2_nth_l {A B} (R : A -> B -> Prop) l l' :
  Forall2 R l l' -> forall j a, nth_error l j = Some a -> exists b, nth_error l' j = Some b /\ R a b.
Proof.
  induction 1 as [|a b l l' Hab HF IH]; intros j x Hj; destruct j as [|j]; cbn in Hj; try discriminate.
  - inversion Hj; subst. exists b; auto.
  - apply IH; exact Hj.
Qed.

Lemma Forall2_nth_r {A B} (R : A -> B -> Prop) l l' :
  Forall2 R l l' -> forall j b, nth_error l' j = Some b -> exists a, nth_error l j = Some a /\ R a b.
Proof.
  induction 1 as [|a b l l' Hab HF IH]; intros j x Hj; destruct j as [|j]; cbn in Hj; try discriminate.
  - inversion Hj; subst. exists a; auto.
  - apply IH; exact Hj.
Qed.

(** ids = positions, as a statement about [nth_error] *)
Lemma ids_from_nth : forall (l : registry) i,
  (fix go (i : N) (l : registry) : bool :=
     match l with [] => true | (id, _) :: l' => N.eqb id i && go (i + 1)%N l' end) i l = true ->
  forall j e, nth_error l j = Some e -> fst e = (i + N.of_nat j)%N.
Proof.
  induction l as [|[id t] l IH]; intros i H j e Hj; destruct j as [|j]; cbn in Hj; try discriminate.
  - inversion Hj; subst. apply andb_prop in H as [H _]. apply N.eqb_eq in H. cbn. lia.
  - apply andb_prop in H as [_ H]. rewrite (IH _ H j e Hj). lia.
Qed.

Lemma ids_consistent_nth r :
  ids_consistent r = true -> forall j e, nth_error r j = Some e -> fst e = N.of_nat j.
Proof. intros H j e Hj. rewrite (ids_from_nth r 0%N H j e Hj). lia. Qed.

Lemma resolve_nth r id t :
  ids_consistent r = true ->
  (resolve r id = Some t <-> nth_error r (N.to_nat id) = Some (id, t)).
Proof.
  intros Hc. unfold resolve. split.
  - destruct (nth_error r (N.to_nat id)) as [[i t']|] eqn:E; [|discriminate].
    intros H; inversion H; subst. pose proof (ids_consistent_nth r Hc _ _ E) as Hi. cbn in Hi.
    rewrite N2Nat.id in Hi. subst. reflexivity.
  - intros ->. reflexivity.
Qed.

Lemma find_by_id {B} (l : list (N * B)) :
  (forall j e, nth_error l j = Some e -> fst e = N.of_nat j) ->
  forall id, find (fun e => N.eqb (fst e) id) l = nth_error l (N.to_nat id).
Proof.
  intros Hl id. destruct (find (fun e => N.eqb (fst e) id) l) as [e|] eqn:F.
  - apply find_some in F as [Hin E]. apply N.eqb_eq in E.
    apply In_nth_error in Hin as (j & Hj). pose proof (Hl j e Hj) as Hf.
    rewrite <- E, Hf, Nat2N.id. symmetry; exact Hj.
  - destruct (nth_error l (N.to_nat id)) as [e|] eqn:E; [|reflexivity].
    pose proof (find_none _ _ F e (nth_error_In _ _ E)) as Hn. cbn in Hn.
    rewrite (Hl _ _ E), N2Nat.id, N.eqb_refl in Hn. discriminate.
Qed.

Section Keys.
  Variable r : registry.
  Variable keys : list (N * option string).
  Hypothesis Hkeys : mapM key_entry r = Ok keys.
  Hypothesis Hids : ids_consistent r = true.

  Lemma keys_ids j e : nth_error keys j = Some e -> fst e = N.of_nat j.
  Proof.
    intros Hj. destruct (Forall2_nth_r _ _ _ (mapM_ok_Forall2 _ _ _ Hkeys) j e Hj) as ([id t] & Hr & Hk).
    apply key_entry_ok in Hk as [-> _]. apply (ids_consistent_nth r Hids j _ Hr).
  Qed.

  (** the key recorded for id [i] is the key of the path of the [i]-th entry *)
  Lemma key_of_in_spec i k :
    key_of_in keys i = Some k <->
    exists t, resolve r i = Some t /\ t_path t <> [] /\ path_key (t_path t) = k.
  Proof.
    unfold key_of_in. rewrite (find_by_id keys keys_ids). split.
    - destruct (nth_error keys (N.to_nat i)) as [[i' ok]|] eqn:E; [|discriminate].
      intros ->. destruct (Forall2_nth_r _ _ _ (mapM_ok_Forall2 _ _ _ Hkeys) _ _ E) as ([id t] & Hr & Hk).
      apply key_entry_ok in Hk as [_ [[_ Hk]|[Hne Hk]]]; cbn [snd] in Hk; [discriminate|].
      inversion Hk; subst. exists t. split; [|auto].
      unfold resolve. rewrite Hr. reflexivity.
    - intros (t & Hr & Hne & Hk). apply (resolve_nth r i t Hids) in Hr.
      destruct (Forall2_nth_l _ _ _ (mapM_ok_Forall2 _ _ _ Hkeys) _ _ Hr) as ([i' ok] & E & Hke).
      rewrite E. apply key_entry_ok in Hke as [_ [[Hp _]|[_ Hs]]]; [contradiction|].
      cbn [snd] in Hs. congruence.
  Qed.

  (** the roots: entries of [keys] with a key *)
  Lemma keys_in_spec id k :
    In (id, Some k) keys <->
    exists t, resolve r id = Some t /\ t_path t <> [] /\ path_key (t_path t) = k.
  Proof.
    split.
    - intros Hin. apply In_nth_error in Hin as (j & Hj).
      pose proof (keys_ids _ _ Hj) as Hf. cbn in Hf. subst id.
      destruct (Forall2_nth_r _ _ _ (mapM_ok_Forall2 _ _ _ Hkeys) _ _ Hj) as ([id t] & Hr & Hk).
      apply key_entry_ok in Hk as [_ [[_ Hk]|[Hne Hk]]]; cbn [snd] in Hk; [discriminate|].
      inversion Hk; subst. exists t. split; [|auto].
      unfold resolve. rewrite Nat2N.id, Hr. reflexivity.
    - intros (t & Hr & Hne & Hk). apply (resolve_nth r id t Hids) in Hr.
      destruct (Forall2_nth_l _ _ _ (mapM_ok_Forall2 _ _ _ Hkeys) _ _ Hr) as ([i' ok] & E & Hke).
      apply key_entry_ok in Hke as [Hf [[Hp _]|[_ Hs]]]; [contradiction|].
      cbn [fst snd] in Hf, Hs. subst. eapply nth_error_In; exact E.
  Qed.
End Keys.

(** ** the accumulation over the roots *)
Lemma roots_go_spec rc r : forall l acc acc',
  roots_go rc r l acc = Ok acc' ->
  (forall id k d, In (id, Some k) l -> kmap_get rc k = Some d ->
                  exists ids, collect_type_ids r id = Ok ids) /\
  (forall i d, In (i, d) acc' <->
               In (i, d) acc \/
               exists id k ids, In (id, Some k) l /\ kmap_get rc k = Some d /\
                                collect_type_ids r id = Ok ids /\ In i ids).
Proof.
  induction l as [|[id [k|]] l IH]; intros acc acc' H; cbn [roots_go] in H.
  - inversion H; subst. split; [intros ? ? ? []|].
    intros i d; split; [auto|]. intros [Hi|(? & ? & ? & [] & _)]. exact Hi.
  - destruct (kmap_get rc k) as [d0|] eqn:G.
    + apply bind_ok in H as (ids0 & Hc & H). destruct (IH _ _ H) as [IH1 IH2]. split.
      * intros id' k' d [E|Hin] Hg; [inversion E; subst; eauto|eapply IH1; eauto].
      * intros i d. rewrite IH2, in_app_iff, in_map_iff. split.
        -- intros [[Hi|(i' & E & Hi)]|(id' & k' & ids & Hin & Hg & Hc' & Hi)].
           ++ left; exact Hi.
           ++ inversion E; subst. right. exists id, k, ids0. split; [left; reflexivity|auto].
           ++ right. exists id', k', ids. split; [right; exact Hin|auto].
        -- intros [Hi|(id' & k' & ids & [E|Hin] & Hg & Hc' & Hi)].
           ++ left; left; exact Hi.
           ++ inversion E; subst. left; right. exists i. split; [|congruence]. congruence.
           ++ right. exists id', k', ids. auto.
    + destruct (IH _ _ H) as [IH1 IH2]. split.
      * intros id' k' d [E|Hin] Hg; [inversion E; subst; congruence|eapply IH1; eauto].
      * intros i d. rewrite IH2. split.
        -- intros [Hi|(id' & k' & ids & Hin & Hr)]; [left; exact Hi|].
           right. exists id', k', ids. split; [right; exact Hin|exact Hr].
        -- intros [Hi|(id' & k' & ids & [E|Hin] & Hg & Hr)]; [left; exact Hi| |].
           ++ inversion E; subst. congruence.
           ++ right. exists id', k', ids. auto.
  - destruct (IH _ _ H) as [IH1 IH2]. split.
    + intros id' k' d [E|Hin] Hg; [discriminate|eapply IH1; eauto].
    + intros i d. rewrite IH2. split.
      * intros [Hi|(id' & k' & ids & Hin & Hr)]; [left; exact Hi|].
        right. exists id', k', ids. split; [right; exact Hin|exact Hr].
      * intros [Hi|(id' & k' & ids & [E|Hin] & Hr)]; [left; exact Hi|discriminate|].
        right. exists id', k', ids. auto.
Qed.

(** ** the merge into the type-specific map *)
Lemma merge_fold_spec sel (Hs : selector sel) keys : forall acc m0 k x,
  In x (sel (smap_get_or_empty (fold_left (merge_step keys) acc m0) k)) <->
  In x (sel (smap_get_or_empty m0 k)) \/
  exists i d, In (i, d) acc /\ key_of_in keys i = Some k /\ In x (sel d).
Proof.
  induction acc as [|[i0 d0] acc IH]; intros m0 k x; cbn [fold_left].
  - split; [auto|]. intros [H|(? & ? & [] & _)]. exact H.
  - rewrite IH. unfold merge_step.
    destruct (key_of_in keys i0) as [k0|] eqn:K.
    + rewrite (smap_get_extend sel Hs). destruct (String.eqb k0 k) eqn:E.
      * apply String.eqb_eq in E; subst k0. rewrite in_app_iff. split.
        -- intros [[H|H]|(i & d & Hin & Hk & Hx)].
           ++ left; exact H.
           ++ right. exists i0, d0. split; [left; reflexivity|auto].
           ++ right. exists i, d. split; [right; exact Hin|auto].
        -- intros [H|(i & d & [E|Hin] & Hk & Hx)].
           ++ left; left; exact H.
           ++ inversion E; subst. left; right; exact Hx.
           ++ right. exists i, d. auto.
      * split.
        -- intros [H|(i & d & Hin & Hk & Hx)]; [left; exact H|].
           right. exists i, d. split; [right; exact Hin|auto].
        -- intros [H|(i & d & [E'|Hin] & Hk & Hx)]; [left; exact H| |].
           ++ inversion E'; subst. rewrite K in Hk. inversion Hk; subst.
              rewrite String.eqb_refl in E. discriminate.
           ++ right. exists i, d. auto.
    + split.
      * intros [H|(i & d & Hin & Hk & Hx)]; [left; exact H|].
        right. exists i, d. split; [right; exact Hin|auto].
      * intros [H|(i & d & [E'|Hin] & Hk & Hx)]; [left; exact H| |].
        -- inversion E'; subst. congruence.
        -- right. exists i, d. auto.
Qed.

(** ** [flatten], raw form: no assumption on the registry *)
Theorem flatten_raw dr r fl :
  flatten dr r = Ok fl ->
  fl_default fl = dr_default dr /\
  ((dr_recursive dr = [] /\ fl_specific fl = flat_of_specific (dr_specific dr)) \/
   exists keys,
     mapM key_entry r = Ok keys /\
     (forall id k d, In (id, Some k) keys -> kmap_get (dr_recursive dr) k = Some d ->
                     exists ids, collect_type_ids r id = Ok ids) /\
     forall sel, selector sel -> forall k x,
       In x (sel (smap_get_or_empty (fl_specific fl) k)) <->
       In x (sel (kmap_or_empty (dr_specific dr) k)) \/
       exists id kroot d ids i,
         In (id, Some kroot) keys /\ kmap_get (dr_recursive dr) kroot = Some d /\
         collect_type_ids r id = Ok ids /\ In i ids /\
         key_of_in keys i = Some k /\ In x (sel d)).
Proof.
  rewrite flatten_unfold. destruct (dr_recursive dr) as [|kd0 rc0] eqn:Erc.
  - intros H; inversion H; subst. cbn. auto.
  - rewrite <- Erc. clear Erc kd0 rc0. intros H.
    apply bind_ok in H as (keys & Hk & H). apply bind_ok in H as (acc & Ha & H).
    inversion H; subst fl; clear H. cbn [fl_default fl_specific]. split; [reflexivity|]. right.
    exists keys. destruct (roots_go_spec _ _ _ _ _ Ha) as [R1 R2].
    split; [exact Hk|]. split; [exact R1|].
    intros sel Hs k x. rewrite (merge_fold_spec sel Hs).
    unfold smap_get_or_empty at 1. rewrite flat_of_specific_get. fold (kmap_or_empty (dr_specific dr) k).
    split.
    + intros [H|(i & d & Hin & Hkey & Hx)]; [left; exact H|]. right.
      apply R2 in Hin as [[]|(id & kroot & ids & Hin & Hg & Hc & Hi)].
      exists id, kroot, d, ids, i. auto 10.
    + intros [H|(id & kroot & d & ids & i & Hin & Hg & Hc & Hi & Hkey & Hx)]; [left; exact H|]. right.
      exists i, d. split; [|auto]. apply R2. right. exists id, kroot, ids. auto.
Qed.

(** ** C08 [flatten_exact]: the flat registry, in terms of reachability *)
Theorem flatten_exact dr r fl :
  ids_consistent r = true -> flatten dr r = Ok fl ->
  fl_default fl = dr_default dr /\
  forall sel, selector sel -> forall k x,
    In x (sel (smap_get_or_empty (fl_specific fl) k)) <->
    In x (sel (kmap_or_empty (dr_specific dr) k)) \/ rec_reaches r (dr_recursive dr) sel k x.
Proof.
  intros Hids H. destruct (flatten_raw _ _ _ H) as [Hd [[Hrc Hsp]|(keys & Hk & Hcol & Hchar)]].
  - split; [exact Hd|]. intros sel Hs k x. rewrite Hsp. unfold smap_get_or_empty.
    rewrite flat_of_specific_get. fold (kmap_or_empty (dr_specific dr) k). split; [auto|].
    intros [Hx|(root & troot & d & i & t & _ & _ & Hg & _)]; [exact Hx|].
    rewrite Hrc in Hg. discriminate.
  - split; [exact Hd|]. intros sel Hs k x. rewrite (Hchar sel Hs). split.
    + intros [Hx|(id & kroot & d & ids & i & Hin & Hg & Hc & Hi & Hkey & Hx)]; [left; exact Hx|]. right.
      apply (keys_in_spec r keys Hk Hids) in Hin as (troot & Hr & Hne & <-).
      apply (key_of_in_spec r keys Hk Hids) in Hkey as (t & Hrt & Hnet & Hkt).
      exists id, troot, d, i, t. repeat (split; [assumption|]).
      split; [|auto]. apply (collect_type_ids_exact _ _ _ Hc). exact Hi.
    + intros [Hx|(root & troot & d & i & t & Hr & Hne & Hg & Hx & Hreach & Hrt & Hnet & Hkt)];
        [left; exact Hx|]. right.
      assert (Hin : In (root, Some (path_key (t_path troot))) keys).
      { apply (keys_in_spec r keys Hk Hids). exists troot. auto. }
      destruct (Hcol _ _ _ Hin Hg) as (ids & Hc).
      exists root, (path_key (t_path troot)), d, ids, i.
      split; [exact Hin|]. split; [exact Hg|]. split; [exact Hc|].
      split; [apply (collect_type_ids_exact _ _ _ Hc); exact Hreach|].
      split; [|exact Hx]. apply (key_of_in_spec r keys Hk Hids). exists t. auto.
Qed.

(** ** resolution for one type *)
Lemma resolve_derives_spec sel (Hs : selector sel) fl k x :
  In x (sel (resolve_derives fl k)) <->
  In x (sel (fl_default fl)) \/ In x (sel (smap_get_or_empty (fl_specific fl) k)).
Proof.
  unfold resolve_derives, smap_get_or_empty. destruct (smap_get (fl_specific fl) k) as [d|].
  - rewrite (sel_union sel _ _ Hs), in_app_iff. tauto.
  - rewrite (sel_empty sel Hs). cbn. tauto.
Qed.

(** the derives [create_type_ir] stores in the item *)
Theorem create_type_ir_derives r s t flat ir :
  create_type_ir r s t flat = Ok (Some ir) ->
  t_path t <> [] /\
  ti_derives ir =
  if item_compactable ir then add_as_compact s (resolve_derives flat (path_key (t_path t)))
  else resolve_derives flat (path_key (t_path t)).
Proof.
  unfold create_type_ir. intros H.
  destruct (negb (is_composite_or_variant (t_def t))); [discriminate|].
  destruct (path_ident (t_path t)) as [nm|]; [|discriminate].
  apply bind_ok in H as (name & _ & H).
  apply bind_ok in H as ([[kind cdac] unused] & Hk & H).
  apply bind_ok in H as (d & Hd & H).
  unfold resolve_derives_for_type in Hd. apply bind_ok in Hd as (k & Hkey & Hd).
  apply syn_key_ok in Hkey as [Hne ->]. inversion Hd; subst d; clear Hd.
  split; [exact Hne|].
  inversion H; subst ir; clear H. unfold item_compactable. cbn [ti_derives ti_kind].
  destruct (t_def t) as [fs|vs| | | | | | ]; try discriminate.
  - apply bind_ok in Hk as (ku & _ & Hk). inversion Hk; subst. cbn [ci_kind]. reflexivity.
  - apply bind_ok in Hk as (vu & _ & Hk). inversion Hk; subst. reflexivity.
Qed.

Lemma add_as_compact_derives s d x :
  In x (d_derives (add_as_compact s d)) <-> In x (d_derives d) \/ s_compact_as s = Some x.
Proof.
  unfold add_as_compact. destruct (s_compact_as s) as [k|]; cbn [d_derives].
  - rewrite in_app_iff. cbn. split; [intros [H|[H|[]]]|intros [H|H]]; auto.
    + right; congruence.
    + right; left; congruence.
  - split; [auto|]. intros [H|H]; [exact H|discriminate].
Qed.

Lemma add_as_compact_attrs s d : d_attrs (add_as_compact s d) = d_attrs d.
Proof. unfold add_as_compact. destruct (s_compact_as s); reflexivity. Qed.

Lemma generate_ids_consistent r s teq m : generate r s teq = Ok m -> ids_consistent r = true.
Proof.
  unfold generate. intros H. apply bind_ok in H as (u & Hs & _).
  rewrite sanity_pass_spec in Hs. apply first_bad_none_iff.
  destruct (first_bad r) as [[g e]|]; [discriminate|reflexivity].
Qed.

(** ** C08 [exact]: the derive and the attribute set of every generated item *)
Theorem generate_derives_exact r s teq m p id ir :
  generate r s teq = Ok m -> items_get m p = Some (id, ir) ->
  (forall x, In x (d_derives (ti_derives ir)) <->
     In x (d_derives (dr_default (s_dreg s))) \/
     In x (d_derives (kmap_or_empty (dr_specific (s_dreg s)) (path_key p))) \/
     rec_reaches r (dr_recursive (s_dreg s)) d_derives (path_key p) x \/
     (s_compact_as s = Some x /\ item_compactable ir = true)) /\
  (forall x, In x (d_attrs (ti_derives ir)) <->
     In x (d_attrs (dr_default (s_dreg s))) \/
     In x (d_attrs (kmap_or_empty (dr_specific (s_dreg s)) (path_key p))) \/
     rec_reaches r (dr_recursive (s_dreg s)) d_attrs (path_key p) x).
Proof.
  intros Hg Hm. pose proof (generate_ids_consistent _ _ _ _ Hg) as Hids.
  destruct (generate_items_come_from_entries _ _ _ _ _ _ _ Hg Hm)
    as (t & flat & Hin & Hp & _ & Hf & Hc).
  destruct (create_type_ir_derives _ _ _ _ _ Hc) as [Hne Hd]. rewrite Hp in Hd.
  destruct (flatten_exact _ _ _ Hids Hf) as [Hdef Hsp].
  split; intros x; rewrite Hd.
  - destruct (item_compactable ir).
    + rewrite add_as_compact_derives, (resolve_derives_spec d_derives (or_introl eq_refl)),
        (Hsp d_derives (or_introl eq_refl)), Hdef. intuition congruence.
    + rewrite (resolve_derives_spec d_derives (or_introl eq_refl)),
        (Hsp d_derives (or_introl eq_refl)), Hdef. intuition congruence.
  - assert (E : d_attrs (if item_compactable ir
                         then add_as_compact s (resolve_derives flat (path_key p))
                         else resolve_derives flat (path_key p)) =
                d_attrs (resolve_derives flat (path_key p))).
    { destruct (item_compactable ir); [apply add_as_compact_attrs|reflexivity]. }
    rewrite E, (resolve_derives_spec d_attrs (or_intror eq_refl)),
      (Hsp d_attrs (or_intror eq_refl)), Hdef. tauto.
Qed.

(** the entry an item was made of *)
Lemma generate_item_entry r s teq m p id ir :
  generate r s teq = Ok m -> items_get m p = Some (id, ir) ->
  exists t, resolve r id = Some t /\ t_path t = p /\ p <> [].
Proof.
  intros Hg Hm. pose proof (generate_ids_consistent _ _ _ _ Hg) as Hids.
  destruct (generate_items_come_from_entries _ _ _ _ _ _ _ Hg Hm)
    as (t & flat & Hin & Hp & _ & _ & Hc).
  exists t. split; [|split; [exact Hp|]].
  - apply In_nth_error in Hin as (j & Hj). pose proof (ids_consistent_nth r Hids _ _ Hj) as E.
    cbn in E. subst id. unfold resolve. rewrite Nat2N.id, Hj. reflexivity.
  - rewrite <- Hp. apply (create_type_ir_derives _ _ _ _ _ Hc).
Qed.

(** ** corollaries *)
(** C08 [no_excess] *)
Corollary generate_no_excess r s teq m p id ir x :
  generate r s teq = Ok m -> items_get m p = Some (id, ir) ->
  In x (d_derives (ti_derives ir)) ->
  ~ In x (d_derives (dr_default (s_dreg s))) ->
  ~ In x (d_derives (kmap_or_empty (dr_specific (s_dreg s)) (path_key p))) ->
  ~ (s_compact_as s = Some x /\ item_compactable ir = true) ->
  rec_reaches r (dr_recursive (s_dreg s)) d_derives (path_key p) x.
Proof.
  intros Hg Hm Hx N1 N2 N3.
  apply (proj1 (generate_derives_exact _ _ _ _ _ _ _ Hg Hm)) in Hx. tauto.
Qed.

Corollary generate_no_excess_attrs r s teq m p id ir x :
  generate r s teq = Ok m -> items_get m p = Some (id, ir) ->
  In x (d_attrs (ti_derives ir)) ->
  ~ In x (d_attrs (dr_default (s_dreg s))) ->
  ~ In x (d_attrs (kmap_or_empty (dr_specific (s_dreg s)) (path_key p))) ->
  rec_reaches r (dr_recursive (s_dreg s)) d_attrs (path_key p) x.
Proof.
  intros Hg Hm Hx N1 N2.
  apply (proj2 (generate_derives_exact _ _ _ _ _ _ _ Hg Hm)) in Hx. tauto.
Qed.

(** C08 [root_included] *)
Corollary generate_root_included r s teq m p id ir d :
  generate r s teq = Ok m -> items_get m p = Some (id, ir) ->
  kmap_get (dr_recursive (s_dreg s)) (path_key p) = Some d ->
  (forall x, In x (d_derives d) -> In x (d_derives (ti_derives ir))) /\
  (forall x, In x (d_attrs d) -> In x (d_attrs (ti_derives ir))).
Proof.
  intros Hg Hm Hk. destruct (generate_item_entry _ _ _ _ _ _ _ Hg Hm) as (t & Hr & Hp & Hne).
  destruct (generate_derives_exact _ _ _ _ _ _ _ Hg Hm) as [E1 E2].
  split; intros x Hx; [apply E1|apply E2]; right; right; [left|];
    exists id, t, d, id, t; subst p; repeat (split; [assumption|]);
    (split; [apply reach_refl|auto]).
Qed.

(** C08 [closed]: whatever a recursive registration puts on an entry [X] it also puts on
    every item whose entry is reachable from [X] *)
Corollary generate_closed r s teq m root troot d X Y tY idQ irQ :
  generate r s teq = Ok m ->
  resolve r root = Some troot -> t_path troot <> [] ->
  kmap_get (dr_recursive (s_dreg s)) (path_key (t_path troot)) = Some d ->
  reach r root X -> reach r X Y ->
  resolve r Y = Some tY -> items_get m (t_path tY) = Some (idQ, irQ) ->
  (forall x, In x (d_derives d) -> In x (d_derives (ti_derives irQ))) /\
  (forall x, In x (d_attrs d) -> In x (d_attrs (ti_derives irQ))).
Proof.
  intros Hg Hr Hne Hk H1 H2 HY Hm.
  destruct (generate_item_entry _ _ _ _ _ _ _ Hg Hm) as (_ & _ & _ & HneY).
  destruct (generate_derives_exact _ _ _ _ _ _ _ Hg Hm) as [E1 E2].
  pose proof (reach_trans _ _ _ _ H1 H2) as H12.
  split; intros x Hx; [apply E1|apply E2]; right; right; [left|];
    exists root, troot, d, Y, tY; auto 10.
Qed.

(** the same, phrased on [rec_reaches]: the set of (key, element) pairs a recursive
    registration reaches is closed under the edges of the registry graph *)
Lemma rec_reaches_step r rc sel X tX Y tY x :
  resolve r X = Some tX -> t_path tX <> [] ->
  (exists root troot d,
      resolve r root = Some troot /\ t_path troot <> [] /\
      kmap_get rc (path_key (t_path troot)) = Some d /\ In x (sel d) /\ reach r root X) ->
  reach r X Y -> resolve r Y = Some tY -> t_path tY <> [] ->
  rec_reaches r rc sel (path_key (t_path tY)) x.
Proof.
  intros _ _ (root & troot & d & Hr & Hne & Hk & Hx & H1) H2 HY HneY.
  exists root, troot, d, Y, tY. repeat (split; [assumption|]).
  split; [eapply reach_trans; eauto|auto].
Qed.

(** ** C08 [compact_as_iff] *)
Lemma is_uint_spec t :
  is_uint_up_to_u128 t = true <-> exists p, t = TPrim p /\ is_uint_prim p = true.
Proof.
  split.
  - destruct t as [| | | | |p| |]; cbn; try discriminate. intros H. exists p. split; [reflexivity|].
    destruct p; cbn in *; congruence.
  - intros (p & -> & H). destruct p; cbn in *; congruence.
Qed.

Theorem compact_as_iff k :
  could_derive_as_compact k = true <->
  exists f, (k = CUnnamed [f] \/ exists n, k = CNamed [(n, f)]) /\
            exists p, fi_path f = TPrim p /\ In p [PU8; PU16; PU32; PU64; PU128].
Proof.
  assert (Hp : forall p, is_uint_prim p = true <-> In p [PU8; PU16; PU32; PU64; PU128]).
  { intros p; split.
    - destruct p; cbn; intros H; try discriminate; auto 10.
    - cbn. intros [<-|[<-|[<-|[<-|[<-|[]]]]]]; reflexivity. }
  split.
  - destruct k as [|fs|fs]; cbn [could_derive_as_compact]; [discriminate| |].
    + destruct fs as [|[n f] [|? ?]]; try discriminate. intros H.
      apply is_uint_spec in H as (p & E & H). exists f. split; [right; exists n; reflexivity|].
      exists p. split; [exact E|apply Hp; exact H].
    + destruct fs as [|f [|? ?]]; try discriminate. intros H.
      apply is_uint_spec in H as (p & E & H). exists f. split; [left; reflexivity|].
      exists p. split; [exact E|apply Hp; exact H].
  - intros (f & [->|(n & ->)] & p & E & H); cbn [could_derive_as_compact];
      apply is_uint_spec; exists p; (split; [exact E|apply Hp; exact H]).
Qed.

(** the negative cases, one by one *)
Theorem compact_as_negative :
  could_derive_as_compact CNoFields = false /\
  could_derive_as_compact (CNamed []) = false /\
  could_derive_as_compact (CUnnamed []) = false /\
  (forall a b l, could_derive_as_compact (CNamed (a :: b :: l)) = false) /\
  (forall a b l, could_derive_as_compact (CUnnamed (a :: b :: l)) = false) /\
  (forall f, (forall p, fi_path f <> TPrim p) ->
             could_derive_as_compact (CUnnamed [f]) = false /\
             forall n, could_derive_as_compact (CNamed [(n, f)]) = false) /\
  (forall f p, fi_path f = TPrim p ->
               In p [PBool; PChar; PStr; PU256; PI8; PI16; PI32; PI64; PI128; PI256] ->
               could_derive_as_compact (CUnnamed [f]) = false /\
               forall n, could_derive_as_compact (CNamed [(n, f)]) = false) /\
  (forall ir name docs vs, ti_kind ir = KEnum name docs vs -> item_compactable ir = false).
Proof.
  assert (Hprim : forall f, (forall p, fi_path f <> TPrim p) -> is_uint_up_to_u128 (fi_path f) = false).
  { intros f H. destruct (fi_path f) as [| | | | |p| |]; try reflexivity. exfalso. apply (H p); reflexivity. }
  assert (Hneg : forall f p, fi_path f = TPrim p ->
                 In p [PBool; PChar; PStr; PU256; PI8; PI16; PI32; PI64; PI128; PI256] ->
                 is_uint_up_to_u128 (fi_path f) = false).
  { intros f p E H. rewrite E. cbn in H.
    destruct H as [<-|[<-|[<-|[<-|[<-|[<-|[<-|[<-|[<-|[<-|[]]]]]]]]]]]; reflexivity. }
  split; [reflexivity|]. split; [reflexivity|]. split; [reflexivity|].
  split; [intros [n1 f1] b l; reflexivity|]. split; [intros a b l; reflexivity|].
  split; [|split].
  - intros f H. split; [|intros n]; cbn [could_derive_as_compact]; apply Hprim; exact H.
  - intros f p E H. split; [|intros n]; cbn [could_derive_as_compact]; eapply Hneg; eauto.
  - intros ir name docs vs H. unfold item_compactable. rewrite H. reflexivity.
Qed.

(** a compact, parameter-typed, path-typed, sequence ... field is never eligible *)
Corollary compact_as_negative_shapes f :
  match fi_path f with TPrim _ => True | _ => could_derive_as_compact (CUnnamed [f]) = false end.
Proof. cbn. destruct (fi_path f); auto. Qed.

(** the CompactAs clause of [generate_derives_exact], read off the generated item *)
Theorem item_compactable_iff ir :
  item_compactable ir = true <->
  exists c f, ti_kind ir = KStruct c /\
              (ci_kind c = CUnnamed [f] \/ exists n, ci_kind c = CNamed [(n, f)]) /\
              exists p, fi_path f = TPrim p /\ In p [PU8; PU16; PU32; PU64; PU128].
Proof.
  unfold item_compactable. destruct (ti_kind ir) as [c|name docs vs].
  - rewrite compact_as_iff. split.
    + intros (f & Hk & Hp). exists c, f. auto.
    + intros (c' & f & E & Hk & Hp). inversion E; subst c'. exists f. auto.
  - split; [discriminate|]. intros (c & f & E & _). discriminate.
Qed.
