(** C05: the emission step.  The parse tree [item_of_ir s ir] of the tokens emitted for the IR
    of a (coincidence-free) instantiation of a source definition, with derives / docs / user
    attributes stripped ([strip_item], Corr/RunC05.v), is [expected_item] of the source definition.

    1. [strip_item (item_of_ir s ir)] only depends on the erased IR ([strip_item_erase]);
    2. on plain paths the two readings of a type path as a parsed type coincide: [ir_pty]
       (Model/Unparse.v, what the reader of Checkers/Parse.v returns on the printed tokens, C02) and
       [tpath_pty] (Model/Program.v, the reading [C05_fields_read_as_source] speaks about);
    3. [strip_item (item_of_ir s (ir_of_source d)) = expected_item d] ([source_item_expected]);
    4. composition with [skeleton_full] (C05_skeleton_is_source), [syn_forms] (C02_syn_forms),
       [generate_lookup] (C01_lookup) and [emit_parses] (C02_emit_parses). *)
From Coq Require Import List NArith String Bool Lia Arith.
From V Require Import Base.Util Base.Strings Base.Result Model.Registry Model.Settings Model.Subst
  Model.TypePath Model.Derives Model.Generate Model.Emit Model.Equal Model.WellFormed Model.Shape
  Model.Program Model.ProgramSkel Model.ProgramEmit
  Checkers.Parse Checkers.Sem Model.Unparse Corr.RunC05
  Proofs.FidelityBase Proofs.ParseTy Proofs.ParseClosed
  Proofs.SourceRoundTrip Proofs.SourceSkeleton Proofs.SourceReading.
Import ListNotations.
Open Scope string_scope. Open Scope list_scope.

(** * 1. stripping forgets everything [erase_ids] forgets *)
Lemma ir_pty_erase alloc t : ir_pty alloc (erase_tpath t) = ir_pty alloc t.
Proof.
  induction t as [p|ptoks params IH|o IH|len o IH|els IH|p|i f cp IH|o st b IHo IHs] using FidelityBase.tpath_ind';
    cbn [erase_tpath].
  - reflexivity.
  - cbn [ir_pty]. rewrite map_map. f_equal. apply map_ext_Forall. exact IH.
  - cbn [ir_pty]. rewrite IH. reflexivity.
  - cbn [ir_pty]. rewrite IH. reflexivity.
  - cbn [ir_pty]. rewrite map_map. f_equal. apply map_ext_Forall. exact IH.
  - reflexivity.
  - cbn [ir_pty]. rewrite IH. reflexivity.
  - cbn [ir_pty]. rewrite IHo, IHs. reflexivity.
Qed.

Lemma forallb_map_Forall {A} (f : A -> A) (p : A -> bool) l :
  Forall (fun x => p (f x) = p x) l -> forallb p (map f l) = forallb p l.
Proof. induction 1 as [|x l Hx _ IH]; [reflexivity|]. cbn [map forallb]. rewrite Hx, IH. reflexivity. Qed.

Lemma tp_plain_erase t : tp_plain (erase_tpath t) = tp_plain t.
Proof.
  induction t as [p|ptoks params IH|o IH|len o IH|els IH|p|i f cp IH|o st b IHo IHs] using FidelityBase.tpath_ind';
    cbn [erase_tpath tp_plain]; try reflexivity; try assumption.
  - f_equal. apply forallb_map_Forall. exact IH.
  - apply forallb_map_Forall. exact IH.
  - rewrite IH. reflexivity.
  - rewrite IHo, IHs. reflexivity.
Qed.

Lemma phantom_pty_ext u v : map param_pty u = map param_pty v -> phantom_pty u = phantom_pty v.
Proof.
  intros H. destruct u as [|p [|q u]], v as [|p' [|q' v]]; cbn [map] in H; try discriminate H; try reflexivity.
  - apply (f_equal (fun l => hd PBad l)) in H. cbn [hd] in H. unfold phantom_pty. rewrite H. reflexivity.
  - unfold phantom_pty. cbn [map]. rewrite H. reflexivity.
Qed.

Lemma phantom_pty_erase u : phantom_pty (map erase_tpi u) = phantom_pty u.
Proof. apply phantom_pty_ext. rewrite map_map. apply map_ext. reflexivity. Qed.

Lemma field_pty_erase s f : Unparse.field_pty s (erase_fi f) = Unparse.field_pty s f.
Proof. unfold Unparse.field_pty, erase_fi. cbn [fi_boxed fi_path]. rewrite ir_pty_erase. reflexivity. Qed.

Lemma struct_body_erase s k u codec :
  struct_body s (erase_ckind k) (map erase_tpi u) codec = struct_body s k u codec.
Proof.
  destruct k as [|fs|fs]; cbn [erase_ckind struct_body]; unfold marker_fields; rewrite phantom_pty_erase.
  - reflexivity.
  - rewrite map_map. f_equal. f_equal. apply map_ext. intros [n f]. cbn [fst snd].
    rewrite field_pty_erase. reflexivity.
  - rewrite map_map. f_equal. f_equal. apply map_ext. intros f. rewrite field_pty_erase. reflexivity.
Qed.

Lemma variant_body_erase s k codec : variant_body s (erase_ckind k) codec = variant_body s k codec.
Proof.
  destruct k as [|fs|fs]; cbn [erase_ckind variant_body].
  - reflexivity.
  - rewrite map_map. f_equal. apply map_ext. intros [n f]. cbn [fst snd]. rewrite field_pty_erase. reflexivity.
  - rewrite map_map. f_equal. apply map_ext. intros f. rewrite field_pty_erase. reflexivity.
Qed.

Lemma keep_codec_docs docs : keep_codec (doc_attrs docs) = [].
Proof. induction docs as [|d docs IH]; [reflexivity|]. exact IH. Qed.

Lemma keep_codec_index codec i docs : keep_codec (index_attrs codec i ++ doc_attrs docs) = index_attrs codec i.
Proof.
  unfold keep_codec. rewrite filter_app. fold (keep_codec (doc_attrs docs)). rewrite keep_codec_docs, app_nil_r.
  destruct codec; reflexivity.
Qed.

Lemma keep_codec_compact codec f : keep_codec (compact_attrs codec f) = compact_attrs codec f.
Proof. unfold compact_attrs. destruct (fi_compact f && codec); reflexivity. Qed.

Lemma keep_codec_skip codec : keep_codec (skip_attrs codec) = skip_attrs codec.
Proof. destruct codec; reflexivity. Qed.

(** the stripped item of an IR, spelled out *)
Definition strip_variant (v : pvariant) : pvariant :=
  mk_pvariant (keep_codec (pv_attrs v)) (pv_name v) (strip_body (pv_body v)).

Lemma strip_item_struct s ir c :
  ti_kind ir = KStruct c ->
  strip_item (item_of_ir s ir) =
  mk_pitem [] false (ci_name c) (map tpi_name (ti_params ir))
           (strip_body (struct_body s (ci_kind c) (ti_unused ir) (ti_codec ir))) []
           (match ci_kind c with CNamed _ => false | _ => true end).
Proof. intros H. unfold item_of_ir. rewrite H. reflexivity. Qed.

Lemma strip_item_enum s ir name docs vs :
  ti_kind ir = KEnum name docs vs ->
  strip_item (item_of_ir s ir) =
  mk_pitem [] true name (map tpi_name (ti_params ir)) BUnit
           (map (fun ic : N * composite_ir =>
                   mk_pvariant (index_attrs (ti_codec ir) (fst ic)) (ci_name (snd ic))
                               (strip_body (variant_body s (ci_kind (snd ic)) (ti_codec ir)))) vs ++
            map strip_variant (ignore_variants (ti_unused ir))) false.
Proof.
  intros H. unfold item_of_ir. rewrite H. unfold strip_item.
  cbn [pi_is_enum pi_name pi_generics pi_body pi_variants pi_semi strip_body].
  f_equal. rewrite map_app, map_map. f_equal. apply map_ext. intros [i c].
  unfold variant_of. cbn [pv_attrs pv_name pv_body fst snd]. rewrite keep_codec_index. reflexivity.
Qed.

Theorem strip_item_erase s ir : strip_item (item_of_ir s (erase_ids ir)) = strip_item (item_of_ir s ir).
Proof.
  assert (Eg : map tpi_name (map erase_tpi (ti_params ir)) = map tpi_name (ti_params ir)).
  { rewrite map_map. apply map_ext. reflexivity. }
  destruct (ti_kind ir) as [c|name docs vs] eqn:Ek.
  - rewrite (strip_item_struct s ir c Ek).
    rewrite (strip_item_struct s (erase_ids ir) (erase_ci c)) by (unfold erase_ids; cbn [ti_kind]; rewrite Ek; reflexivity).
    unfold erase_ids. cbn [ti_params ti_unused ti_codec erase_ci ci_name ci_kind].
    rewrite Eg, struct_body_erase. f_equal. destruct (ci_kind c); reflexivity.
  - rewrite (strip_item_enum s ir name docs vs Ek).
    rewrite (strip_item_enum s (erase_ids ir) name [] (map (fun x => (fst x, erase_ci (snd x))) vs))
      by (unfold erase_ids; cbn [ti_kind]; rewrite Ek; reflexivity).
    unfold erase_ids. cbn [ti_params ti_unused ti_codec].
    rewrite Eg. unfold ignore_variants. rewrite phantom_pty_erase, map_map. f_equal. f_equal.
    apply map_ext. intros [i c]. cbn [fst snd erase_ci ci_name ci_kind]. rewrite variant_body_erase. reflexivity.
Qed.

Lemma forallb_map_gen {A B} (f : A -> B) (p : B -> bool) l :
  forallb p (map f l) = forallb (fun x => p (f x)) l.
Proof. induction l as [|x l IH]; [reflexivity|]. cbn [map forallb]. rewrite IH. reflexivity. Qed.

Lemma forallb_ext_local {A} (p q : A -> bool) l : (forall x, p x = q x) -> forallb p l = forallb q l.
Proof. intros H. induction l as [|x l IH]; [reflexivity|]. cbn [forallb]. rewrite H, IH. reflexivity. Qed.

Lemma composite_plain_erase c : composite_plain (erase_ci c) = composite_plain c.
Proof.
  unfold composite_plain, erase_ci. cbn [ci_name ci_kind]. f_equal.
  destruct (ci_kind c) as [|fs|fs]; cbn [erase_ckind ckind_plain]; [reflexivity| |].
  - rewrite forallb_map_gen. apply forallb_ext_local. intros [n f]. cbn [fst snd].
    unfold field_plain, erase_fi. cbn [fi_path]. rewrite tp_plain_erase. reflexivity.
  - rewrite forallb_map_gen. apply forallb_ext_local. intros f.
    unfold field_plain, erase_fi. cbn [fi_path]. rewrite tp_plain_erase. reflexivity.
Qed.

Lemma ir_plain_erase s ir : ir_plain s ir = true -> ir_plain s (erase_ids ir) = true.
Proof.
  unfold ir_plain, erase_ids. cbn [ti_derives ti_kind]. intros H.
  apply andb_prop in H as [H Hk]. apply andb_prop in H as [Ha _]. rewrite Ha.
  change (derives_okb derives_empty) with true. cbn [andb].
  destruct (ti_kind ir) as [c|name docs vs]; cbn [erase_kind].
  - rewrite composite_plain_erase. exact Hk.
  - apply andb_prop in Hk as [Hn Hv]. rewrite Hn. cbn [andb].
    rewrite forallb_map_gen. rewrite <- Hv. apply forallb_ext_local. intros [i c]. cbn [fst snd].
    apply composite_plain_erase.
Qed.

(** * 2. the two readings of a plain type path coincide *)
Lemma mk_ppath_abs l segs tail args :
  segs ++ tail <> [] ->
  mk_ppath (Some (l, segs)) tail args =
  PPath l (map (fun x => (x, [])) (removelast (segs ++ tail)) ++ [(last (segs ++ tail) "", args)]).
Proof.
  intros H. destruct (mk_ppath_some l segs tail args H) as (pre & x & E & ->).
  rewrite E, removelast_last, last_last. reflexivity.
Qed.

Lemma ident_tok_colon x : ident_tok x = true -> String.eqb x ":" = false.
Proof.
  intros H. destruct (String.eqb x ":") eqn:E; [|reflexivity].
  apply String.eqb_eq in E. subst x. discriminate H.
Qed.

Lemma identP_segs_ok sg : Forall identP sg -> segs_ok sg = true.
Proof.
  induction 1 as [|x sg Hx _ IH]; [reflexivity|]. unfold segs_ok in *. cbn [forallb].
  rewrite (ident_tok_colon x Hx), IH. reflexivity.
Qed.

Lemma toks_pty_plain ptoks l sg args :
  path_segs ptoks = Some (l, sg) -> toks_pty ptoks args = mk_ppath (Some (l, sg)) [] args.
Proof.
  intros H. apply path_segs_spec in H as (-> & Hne & Hid).
  rewrite mk_ppath_abs by (rewrite app_nil_r; exact Hne). rewrite app_nil_r.
  pose proof (identP_segs_ok sg Hid) as Hok.
  destruct sg as [|a sg']; [congruence|]. unfold toks_pty. destruct l; cbn [print_path].
  - rewrite (toks_to_segs_abs _ Hok). reflexivity.
  - rewrite (toks_to_segs_rel _ _ Hok). cbn [rel_path].
    rewrite toks_leading_cons by (apply ident_tok_colon; inversion Hid; assumption). reflexivity.
Qed.

Section Bridge.
  Variable defs : list sdef.
  Variable s : settings.
  Hypothesis Hrender : render_okb s defs = true.
  Hypothesis Halloc : alloc_okb (alloc_tokens (s_alloc s)) = true.

  Let alloc := alloc_tokens (s_alloc s).
  Let asegs := ProgramSkel.alloc_segs s.

  Lemma alloc_segs_render : Unparse.alloc_segs alloc = Some (true, asegs).
  Proof.
    destruct (render_facts defs s Hrender) as (Ha & Hs & _). fold alloc asegs in Ha, Hs.
    unfold alloc_okb, is_some in Halloc. fold alloc in Halloc.
    destruct (Unparse.alloc_segs alloc) as [[al sg]|] eqn:E; [|discriminate]. clear Halloc.
    unfold Unparse.alloc_segs in E. destruct alloc as [|a0 al0] eqn:Eal.
    - destruct asegs; [symmetry; exact E|discriminate Ha].
    - apply path_segs_spec in E as (Ep & Hne & Hid). rewrite Ha in Ep.
      destruct al; cbn [print_path] in Ep.
      + apply abs_path_inj in Ep. subst sg. reflexivity.
      + exfalso. destruct sg as [|y sg']; [congruence|]. destruct asegs as [|b as']; [discriminate Ha|].
        cbn [abs_path flat_map app rel_path] in Ep. injection Ep as Ey _.
        inversion Hid as [|? ? Hy _]; subst. discriminate Hy.
  Qed.

  Lemma alloc_path_pty tail args :
    tail <> [] -> mk_ppath (Unparse.alloc_segs alloc) tail args = abs_p (asegs ++ tail) args.
  Proof.
    intros Ht. rewrite alloc_segs_render, mk_ppath_abs by (apply app_tail_ne; exact Ht). reflexivity.
  Qed.

  (** on plain paths [ir_pty] (the parse of the printed tokens) is [tpath_pty] *)
  Lemma ir_pty_tpath_pty : forall t, tp_plain t = true -> ir_pty alloc t = tpath_pty asegs t.
  Proof.
    induction t as [p|ptoks params IH|o IH|len o IH|els IH|p|i f cp IH|o st b IHo IHs] using FidelityBase.tpath_ind';
      cbn [tp_plain]; intros Hp.
    - reflexivity.
    - apply andb_prop in Hp as [Hpp Hps]. rewrite tpath_pty_TPath. cbn [ir_pty].
      unfold plain_path, is_some in Hpp. destruct (path_segs ptoks) as [[l sg]|] eqn:E; [|discriminate].
      rewrite (toks_pty_plain _ _ _ _ E). f_equal.
      rewrite forallb_forall in Hps. rewrite Forall_forall in IH.
      apply map_ext_in. intros x Hx. apply IH; auto.
    - cbn [ir_pty tpath_pty]. rewrite (IH Hp). apply alloc_path_pty. discriminate.
    - cbn [ir_pty tpath_pty]. rewrite (IH Hp). reflexivity.
    - rewrite tpath_pty_TTuple. cbn [ir_pty]. f_equal.
      rewrite forallb_forall in Hp. rewrite Forall_forall in IH.
      apply map_ext_in. intros x Hx. apply IH; auto.
    - destruct p; cbn [ir_pty prim_ident tpath_pty prim_pty]; try reflexivity.
      apply alloc_path_pty. discriminate.
    - apply andb_prop in Hp as [Hf Hi]. cbn [ir_pty tpath_pty]. rewrite (IH Hi). destruct f; [reflexivity|].
      cbn [orb] in Hf. unfold plain_path, is_some in Hf.
      destruct (path_segs cp) as [[l sg]|] eqn:E; [|discriminate].
      rewrite (toks_pty_plain _ _ _ _ E). reflexivity.
    - apply andb_prop in Hp as [Hp Hst]. apply andb_prop in Hp as [Hb Ho].
      cbn [ir_pty tpath_pty]. rewrite (IHo Ho), (IHs Hst).
      unfold plain_path, is_some in Hb. destruct (path_segs b) as [[l sg]|] eqn:E; [|discriminate].
      rewrite (toks_pty_plain _ _ _ _ E). reflexivity.
  Qed.

  (** a field of the IR: the parse of its printed tokens is [fi_pty] *)
  Lemma field_pty_fi_pty f : tp_plain (fi_path f) = true -> Unparse.field_pty s f = fi_pty asegs f.
  Proof.
    intros Hp. unfold Unparse.field_pty, fi_pty. fold alloc. rewrite (ir_pty_tpath_pty _ Hp).
    destruct (fi_boxed f); [|reflexivity]. apply alloc_path_pty. discriminate.
  Qed.
End Bridge.
