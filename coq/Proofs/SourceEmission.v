(** C05: the emission step.  The parse tree [item_of_ir s ir] of the tokens emitted for the IR
    of a (coincidence-free) instantiation of a source definition, with derives / docs / user
    attributes stripped ([strip_item], Corr/RunC05.v), is [expected_item] of the source definition.

    1. [strip_item (item_of_ir s ir)] only depends on the erased IR ([strip_item_erase]);
    2. on plain paths the two readings of a type path as a parsed type coincide: [ir_pty]
       (Model/Unparse.v, what the reader of Checkers/Parse.v returns on the printed tokens, C02) and
       [tpath_pty] (Model/Program.v, the reading [C05_fields_read_as_source] speaks about);
    3. [strip_item (item_of_ir s (ir_of_source d)) = expected_item d] ([source_item_expected]);
    4. composition with [skeleton_full] (C05_skeleton_is_source), [syn_forms] (C02_syn_forms),
       [generate_lookup] (C01_lookup) and [emit_parses] (C02_emit_parses): [expected_item_of_ir],
       [source_roundtrip_item], [source_roundtrip_module];
    5. [expected_item] looks at [order_path lsb] only for bit sequences of order [lsb]; the
       checker's [expected_of] is [expected_of_settings] ([expected_of_source_settings]);
    6. examples (ex8: marker field, ex9: enum with [__Ignore], ex5 / ex6 / ex7);
    7. the checker on the model's own output ([prop_source_roundtrip_of_model]); [pitem_eqb] is
       reflexive; [instantiation_cf] does not depend on the [canon] form of the arguments;
    8. the hypotheses as one boolean ([hyp_emission_theorem], Corr/RunC05Emit.v) and its soundness
       ([hyp_emission_sound]);
    9. all instantiations print one item up to derives / docs ([one_stripped_item]). *)
From Coq Require Import List NArith String Bool Lia Arith.
From V Require Import Base.Util Base.Strings Base.Result Model.Registry Model.Settings Model.Subst
  Model.TypePath Model.Derives Model.Generate Model.Emit Model.Equal Model.WellFormed Model.Shape
  Model.Program Model.ProgramSkel Model.ProgramEmit
  Checkers.Parse Checkers.Sem Model.Unparse Corr.RunTG Corr.CheckTG Corr.RunC05 Corr.RunC05Emit
  Proofs.GenProofs Proofs.GenTotal Proofs.ClosedProofs Proofs.FidelityBase Proofs.FidelityGen
  Proofs.ParseTy Proofs.ParseItem Proofs.ParseMod Proofs.ParseClosed
  Proofs.SourceRoundTrip Proofs.SourceSkeleton Proofs.SourceReading Proofs.RegistryOfSound
  Model.ProgramTeq Model.ProgramExamples.
Import ListNotations.
Open Scope string_scope. Open Scope list_scope.

(** * 1. stripping forgets everything [erase_ids] forgets *)
Lemma ir_pty_erase alloc t : ir_pty alloc (erase_tpath t) = ir_pty alloc t.
Proof.
  induction t as [p|ptoks params IH|o IH|len o IH|els IH|p|i f cp IH|o st b IHo IHs] using FidelityBase.tpath_ind';
    cbn [erase_tpath].
  - reflexivity.
  - cbn [ir_pty]. rewrite map_map. f_equal. apply map_ext_Forall. exact IH.
  - cbn [ir_pty]. rewrite IH. reflexivity.
  - cbn [ir_pty]. rewrite IH. reflexivity.
  - cbn [ir_pty]. rewrite map_map. f_equal. apply map_ext_Forall. exact IH.
  - reflexivity.
  - cbn [ir_pty]. rewrite IH. reflexivity.
  - cbn [ir_pty]. rewrite IHo, IHs. reflexivity.
Qed.

Lemma forallb_map_Forall {A} (f : A -> A) (p : A -> bool) l :
  Forall (fun x => p (f x) = p x) l -> forallb p (map f l) = forallb p l.
Proof. induction 1 as [|x l Hx _ IH]; [reflexivity|]. cbn [map forallb]. rewrite Hx, IH. reflexivity. Qed.

Lemma tp_plain_erase t : tp_plain (erase_tpath t) = tp_plain t.
Proof.
  induction t as [p|ptoks params IH|o IH|len o IH|els IH|p|i f cp IH|o st b IHo IHs] using FidelityBase.tpath_ind';
    cbn [erase_tpath tp_plain]; try reflexivity; try assumption.
  - f_equal. apply forallb_map_Forall. exact IH.
  - apply forallb_map_Forall. exact IH.
  - rewrite IH. reflexivity.
  - rewrite IHo, IHs. reflexivity.
Qed.

Lemma phantom_pty_ext u v : map param_pty u = map param_pty v -> phantom_pty u = phantom_pty v.
Proof.
  intros H. destruct u as [|p [|q u]], v as [|p' [|q' v]]; cbn [map] in H; try discriminate H; try reflexivity.
  - apply (f_equal (fun l => hd PBad l)) in H. cbn [hd] in H. unfold phantom_pty. rewrite H. reflexivity.
  - unfold phantom_pty. cbn [map]. rewrite H. reflexivity.
Qed.

Lemma phantom_pty_erase u : phantom_pty (map erase_tpi u) = phantom_pty u.
Proof. apply phantom_pty_ext. rewrite map_map. apply map_ext. reflexivity. Qed.

Lemma field_pty_erase s f : Unparse.field_pty s (erase_fi f) = Unparse.field_pty s f.
Proof. unfold Unparse.field_pty, erase_fi. cbn [fi_boxed fi_path]. rewrite ir_pty_erase. reflexivity. Qed.

Lemma struct_body_erase s k u codec :
  struct_body s (erase_ckind k) (map erase_tpi u) codec = struct_body s k u codec.
Proof.
  destruct k as [|fs|fs]; cbn [erase_ckind struct_body]; unfold marker_fields; rewrite phantom_pty_erase.
  - reflexivity.
  - rewrite map_map. f_equal. f_equal. apply map_ext. intros [n f]. cbn [fst snd].
    rewrite field_pty_erase. reflexivity.
  - rewrite map_map. f_equal. f_equal. apply map_ext. intros f. rewrite field_pty_erase. reflexivity.
Qed.

Lemma variant_body_erase s k codec : variant_body s (erase_ckind k) codec = variant_body s k codec.
Proof.
  destruct k as [|fs|fs]; cbn [erase_ckind variant_body].
  - reflexivity.
  - rewrite map_map. f_equal. apply map_ext. intros [n f]. cbn [fst snd]. rewrite field_pty_erase. reflexivity.
  - rewrite map_map. f_equal. apply map_ext. intros f. rewrite field_pty_erase. reflexivity.
Qed.

Lemma keep_codec_docs docs : keep_codec (doc_attrs docs) = [].
Proof. induction docs as [|d docs IH]; [reflexivity|]. exact IH. Qed.

Lemma keep_codec_index codec i docs : keep_codec (index_attrs codec i ++ doc_attrs docs) = index_attrs codec i.
Proof.
  unfold keep_codec. rewrite filter_app. fold (keep_codec (doc_attrs docs)). rewrite keep_codec_docs, app_nil_r.
  destruct codec; reflexivity.
Qed.

Lemma keep_codec_compact codec f : keep_codec (compact_attrs codec f) = compact_attrs codec f.
Proof. unfold compact_attrs. destruct (fi_compact f && codec); reflexivity. Qed.

Lemma keep_codec_skip codec : keep_codec (skip_attrs codec) = skip_attrs codec.
Proof. destruct codec; reflexivity. Qed.

(** the stripped item of an IR, spelled out *)
Definition strip_variant (v : pvariant) : pvariant :=
  mk_pvariant (keep_codec (pv_attrs v)) (pv_name v) (strip_body (pv_body v)).

Lemma strip_item_struct s ir c :
  ti_kind ir = KStruct c ->
  strip_item (item_of_ir s ir) =
  mk_pitem [] false (ci_name c) (map tpi_name (ti_params ir))
           (strip_body (struct_body s (ci_kind c) (ti_unused ir) (ti_codec ir))) []
           (match ci_kind c with CNamed _ => false | _ => true end).
Proof. intros H. unfold item_of_ir. rewrite H. reflexivity. Qed.

Lemma strip_item_enum s ir name docs vs :
  ti_kind ir = KEnum name docs vs ->
  strip_item (item_of_ir s ir) =
  mk_pitem [] true name (map tpi_name (ti_params ir)) BUnit
           (map (fun ic : N * composite_ir =>
                   mk_pvariant (index_attrs (ti_codec ir) (fst ic)) (ci_name (snd ic))
                               (strip_body (variant_body s (ci_kind (snd ic)) (ti_codec ir)))) vs ++
            map strip_variant (ignore_variants (ti_unused ir))) false.
Proof.
  intros H. unfold item_of_ir. rewrite H. unfold strip_item.
  cbn [pi_is_enum pi_name pi_generics pi_body pi_variants pi_semi strip_body].
  f_equal. rewrite map_app, map_map. f_equal. apply map_ext. intros [i c].
  unfold variant_of. cbn [pv_attrs pv_name pv_body fst snd]. rewrite keep_codec_index. reflexivity.
Qed.

Theorem strip_item_erase s ir : strip_item (item_of_ir s (erase_ids ir)) = strip_item (item_of_ir s ir).
Proof.
  assert (Eg : map tpi_name (map erase_tpi (ti_params ir)) = map tpi_name (ti_params ir)).
  { rewrite map_map. apply map_ext. reflexivity. }
  destruct (ti_kind ir) as [c|name docs vs] eqn:Ek.
  - rewrite (strip_item_struct s ir c Ek).
    rewrite (strip_item_struct s (erase_ids ir) (erase_ci c)) by (unfold erase_ids; cbn [ti_kind]; rewrite Ek; reflexivity).
    unfold erase_ids. cbn [ti_params ti_unused ti_codec erase_ci ci_name ci_kind].
    rewrite Eg, struct_body_erase. f_equal. destruct (ci_kind c); reflexivity.
  - rewrite (strip_item_enum s ir name docs vs Ek).
    rewrite (strip_item_enum s (erase_ids ir) name [] (map (fun x => (fst x, erase_ci (snd x))) vs))
      by (unfold erase_ids; cbn [ti_kind]; rewrite Ek; reflexivity).
    unfold erase_ids. cbn [ti_params ti_unused ti_codec].
    rewrite Eg. unfold ignore_variants. rewrite phantom_pty_erase, map_map. f_equal. f_equal.
    apply map_ext. intros [i c]. cbn [fst snd erase_ci ci_name ci_kind]. rewrite variant_body_erase. reflexivity.
Qed.

Lemma forallb_map_gen {A B} (f : A -> B) (p : B -> bool) l :
  forallb p (map f l) = forallb (fun x => p (f x)) l.
Proof. induction l as [|x l IH]; [reflexivity|]. cbn [map forallb]. rewrite IH. reflexivity. Qed.

Lemma forallb_ext_local {A} (p q : A -> bool) l : (forall x, p x = q x) -> forallb p l = forallb q l.
Proof. intros H. induction l as [|x l IH]; [reflexivity|]. cbn [forallb]. rewrite H, IH. reflexivity. Qed.

Lemma composite_plain_erase c : composite_plain (erase_ci c) = composite_plain c.
Proof.
  unfold composite_plain, erase_ci. cbn [ci_name ci_kind]. f_equal.
  destruct (ci_kind c) as [|fs|fs]; cbn [erase_ckind ckind_plain]; [reflexivity| |].
  - rewrite forallb_map_gen. apply forallb_ext_local. intros [n f]. cbn [fst snd].
    unfold field_plain, erase_fi. cbn [fi_path]. rewrite tp_plain_erase. reflexivity.
  - rewrite forallb_map_gen. apply forallb_ext_local. intros f.
    unfold field_plain, erase_fi. cbn [fi_path]. rewrite tp_plain_erase. reflexivity.
Qed.

Lemma ir_plain_erase s ir : ir_plain s ir = true -> ir_plain s (erase_ids ir) = true.
Proof.
  unfold ir_plain, erase_ids. cbn [ti_derives ti_kind]. intros H.
  apply andb_prop in H as [H Hk]. apply andb_prop in H as [Ha _]. rewrite Ha.
  change (derives_okb derives_empty) with true. cbn [andb].
  destruct (ti_kind ir) as [c|name docs vs]; cbn [erase_kind].
  - rewrite composite_plain_erase. exact Hk.
  - apply andb_prop in Hk as [Hn Hv]. rewrite Hn. cbn [andb].
    rewrite forallb_map_gen. rewrite <- Hv. apply forallb_ext_local. intros [i c]. cbn [fst snd].
    apply composite_plain_erase.
Qed.

(** * 2. the two readings of a plain type path coincide *)
Lemma mk_ppath_abs l segs tail args :
  segs ++ tail <> [] ->
  mk_ppath (Some (l, segs)) tail args =
  PPath l (map (fun x => (x, [])) (removelast (segs ++ tail)) ++ [(last (segs ++ tail) "", args)]).
Proof.
  intros H. destruct (mk_ppath_some l segs tail args H) as (pre & x & E & ->).
  rewrite E, removelast_last, last_last. reflexivity.
Qed.

Lemma ident_tok_colon x : ident_tok x = true -> String.eqb x ":" = false.
Proof.
  intros H. destruct (String.eqb x ":") eqn:E; [|reflexivity].
  apply String.eqb_eq in E. subst x. discriminate H.
Qed.

Lemma identP_segs_ok sg : Forall identP sg -> segs_ok sg = true.
Proof.
  induction 1 as [|x sg Hx _ IH]; [reflexivity|]. unfold segs_ok in *. cbn [forallb].
  rewrite (ident_tok_colon x Hx), IH. reflexivity.
Qed.

Lemma toks_pty_plain ptoks l sg args :
  path_segs ptoks = Some (l, sg) -> toks_pty ptoks args = mk_ppath (Some (l, sg)) [] args.
Proof.
  intros H. apply path_segs_spec in H as (-> & Hne & Hid).
  rewrite mk_ppath_abs by (rewrite app_nil_r; exact Hne). rewrite app_nil_r.
  pose proof (identP_segs_ok sg Hid) as Hok.
  destruct sg as [|a sg']; [congruence|]. unfold toks_pty. destruct l; cbn [print_path].
  - rewrite (toks_to_segs_abs _ Hok). reflexivity.
  - rewrite (toks_to_segs_rel _ _ Hok). cbn [rel_path].
    rewrite toks_leading_cons by (apply ident_tok_colon; inversion Hid; assumption). reflexivity.
Qed.

Section Bridge.
  Variable defs : list sdef.
  Variable s : settings.
  Hypothesis Hrender : render_okb s defs = true.
  Hypothesis Halloc : alloc_okb (alloc_tokens (s_alloc s)) = true.

  Let alloc := alloc_tokens (s_alloc s).
  Let asegs := ProgramSkel.alloc_segs s.

  Lemma alloc_segs_render : Unparse.alloc_segs alloc = Some (true, asegs).
  Proof.
    destruct (render_facts defs s Hrender) as (Ha & Hs & _). fold alloc asegs in Ha, Hs.
    unfold alloc_okb, is_some in Halloc. fold alloc in Halloc.
    destruct (Unparse.alloc_segs alloc) as [[al sg]|] eqn:E; [|discriminate]. clear Halloc.
    unfold Unparse.alloc_segs in E. destruct alloc as [|a0 al0] eqn:Eal.
    - destruct asegs; [symmetry; exact E|discriminate Ha].
    - apply path_segs_spec in E as (Ep & Hne & Hid). rewrite Ha in Ep.
      destruct al; cbn [print_path] in Ep.
      + apply abs_path_inj in Ep. subst sg. reflexivity.
      + exfalso. destruct sg as [|y sg']; [congruence|]. destruct asegs as [|b as']; [discriminate Ha|].
        cbn [abs_path flat_map app rel_path] in Ep. injection Ep as Ey _.
        inversion Hid as [|? ? Hy _]; subst. discriminate Hy.
  Qed.

  Lemma alloc_path_pty tail args :
    tail <> [] -> mk_ppath (Unparse.alloc_segs alloc) tail args = abs_p (asegs ++ tail) args.
  Proof.
    intros Ht. rewrite alloc_segs_render, mk_ppath_abs by (apply app_tail_ne; exact Ht). reflexivity.
  Qed.

  (** on plain paths [ir_pty] (the parse of the printed tokens) is [tpath_pty] *)
  Lemma ir_pty_tpath_pty : forall t, tp_plain t = true -> ir_pty alloc t = tpath_pty asegs t.
  Proof.
    induction t as [p|ptoks params IH|o IH|len o IH|els IH|p|i f cp IH|o st b IHo IHs] using FidelityBase.tpath_ind';
      cbn [tp_plain]; intros Hp.
    - reflexivity.
    - apply andb_prop in Hp as [Hpp Hps]. rewrite tpath_pty_TPath. cbn [ir_pty].
      unfold plain_path, is_some in Hpp. destruct (path_segs ptoks) as [[l sg]|] eqn:E; [|discriminate].
      rewrite (toks_pty_plain _ _ _ _ E). f_equal.
      rewrite forallb_forall in Hps. rewrite Forall_forall in IH.
      apply map_ext_in. intros x Hx. apply IH; auto.
    - cbn [ir_pty tpath_pty]. rewrite (IH Hp). apply alloc_path_pty. discriminate.
    - cbn [ir_pty tpath_pty]. rewrite (IH Hp). reflexivity.
    - rewrite tpath_pty_TTuple. cbn [ir_pty]. f_equal.
      rewrite forallb_forall in Hp. rewrite Forall_forall in IH.
      apply map_ext_in. intros x Hx. apply IH; auto.
    - destruct p; cbn [ir_pty prim_ident tpath_pty prim_pty]; try reflexivity.
      apply alloc_path_pty. discriminate.
    - apply andb_prop in Hp as [Hf Hi]. cbn [ir_pty tpath_pty]. rewrite (IH Hi). destruct f; [reflexivity|].
      cbn [orb] in Hf. unfold plain_path, is_some in Hf.
      destruct (path_segs cp) as [[l sg]|] eqn:E; [|discriminate].
      rewrite (toks_pty_plain _ _ _ _ E). reflexivity.
    - apply andb_prop in Hp as [Hp Hst]. apply andb_prop in Hp as [Hb Ho].
      cbn [ir_pty tpath_pty]. rewrite (IHo Ho), (IHs Hst).
      unfold plain_path, is_some in Hb. destruct (path_segs b) as [[l sg]|] eqn:E; [|discriminate].
      rewrite (toks_pty_plain _ _ _ _ E). reflexivity.
  Qed.

  (** a field of the IR: the parse of its printed tokens is [fi_pty] *)
  Lemma field_pty_fi_pty f :
    tp_plain (fi_path f) = true -> fi_compact f && fi_boxed f = false ->
    Unparse.field_pty s f = fi_pty asegs f.
  Proof.
    intros Hp Hcb. unfold Unparse.field_pty, fi_pty, fi_emit_boxed. fold alloc. rewrite (ir_pty_tpath_pty _ Hp).
    destruct (fi_boxed f); cbn [andb]; [|reflexivity].
    rewrite andb_true_r in Hcb. rewrite Hcb. cbn [negb]. apply alloc_path_pty. discriminate.
  Qed.
End Bridge.

(** * 3. the stripped item of [ir_of_source d] is [expected_item d] *)
Lemma is_compact_src_tpath defs s otp t :
  is_compact (src_tpath defs s otp true t) = match peel t with SCompactT _ => true | _ => false end.
Proof. induction t; try reflexivity; cbn [src_tpath peel]; assumption. Qed.

Ltac peel_fin Hc :=
  cbn [peel] in *; try reflexivity;
  try (match goal with |- context [peel ?y] => destruct (peel y) end; try reflexivity; discriminate Hc).

Lemma normal_field_compact defs s otp f :
  field_conv_okb f = true -> fi_compact (normal_field defs s otp f) = field_compact f.
Proof.
  intros Hc. unfold normal_field, field_compact. cbn [fi_compact].
  unfold field_conv_okb in Hc. apply andb_prop in Hc as [Hc _]. unfold field_conv_core in Hc.
  destruct (sf_compact_attr f) eqn:Ea; [reflexivity|]. cbn [orb].
  rewrite is_compact_src_tpath.
  destruct (sf_ty f) as [i|d' xs|x|x|len x|xs|p|x|x|x|a b|a b|x|x|x|st lsb]; peel_fin Hc.
  destruct x; peel_fin Hc.
Qed.

Lemma phantom_marker u : phantom_pty (map pos_tpi u) = marker_pty u.
Proof.
  destruct u as [|i [|j u]]; [reflexivity|reflexivity|].
  unfold phantom_pty, marker_pty. cbn [map]. f_equal. unfold abs_p. cbn [removelast last map app].
  do 5 f_equal. rewrite map_map. reflexivity.
Qed.

Lemma generics_names l : map tpi_name (map pos_tpi l) = map gname l.
Proof. rewrite map_map. apply map_ext. reflexivity. Qed.

Lemma strip_fields_app a b : strip_fields (a ++ b) = strip_fields a ++ strip_fields b.
Proof. unfold strip_fields. apply map_app. Qed.

Definition first_named (fs : list sfield) : bool :=
  match fs with f :: _ => match sf_name f with Some _ => true | None => false end | [] => false end.

Lemma uniform_named fs : fields_uniformb fs = true -> fs <> [] -> forallb sf_named fs = first_named fs.
Proof.
  destruct fs as [|f fs]; [congruence|]. intros H _. unfold fields_uniformb in H. cbn [forallb] in H |- *.
  change (first_named (f :: fs)) with (sf_named f).
  destruct (sf_named f); cbn [negb andb orb] in H |- *; [rewrite orb_false_r in H; exact H|reflexivity].
Qed.

Lemma uniform_unnamed fs :
  fields_uniformb fs = true -> forallb sf_named fs = false -> forallb (fun f => negb (sf_named f)) fs = true.
Proof. unfold fields_uniformb. intros H E. rewrite E in H. exact H. Qed.

Section SourceItem.
  Variable defs : list sdef.
  Variable s : settings.
  Variable otp : bool -> tpath.
  Hypothesis Hrender : render_okb s defs = true.
  Hypothesis Halloc : alloc_okb (alloc_tokens (s_alloc s)) = true.

  Let asegs := ProgramSkel.alloc_segs s.
  Let cpt := segs_lead_of (opt_toks (s_compact s)).
  Let bts := segs_lead_of (opt_toks (s_bits s)).
  Let ord := fun lsb : bool => tpath_pty asegs (otp lsb).
  Let nf := normal_field defs s otp.
  Let exp_field_pty := Program.field_pty defs (s_root s) asegs cpt bts ord.
  Let exp_fields := expected_fields defs (s_root s) asegs cpt bts ord.

  (** what is needed of one source field: applications name definitions, the conventions of
      [field_pty], and its normalised path is plain *)
  Definition fld_ok (f : sfield) : Prop :=
    apps_okb defs (sf_ty f) = true /\ field_conv_okb f = true /\ tp_plain (fi_path (nf f)) = true.

  Lemma emitted_field_pty f : fld_ok f -> Unparse.field_pty s (nf f) = exp_field_pty f.
  Proof.
    intros (Ha & Hc & Hp).
    assert (Hcb : fi_compact (nf f) && fi_boxed (nf f) = false).
    { unfold nf. rewrite (normal_field_compact defs s otp f Hc).
      unfold normal_field. cbn [fi_boxed]. unfold field_conv_okb in Hc.
      apply andb_prop in Hc as [_ Hub]. apply negb_true_iff in Hub.
      unfold field_compact. rewrite <- andb_assoc in Hub. exact Hub. }
    rewrite (field_pty_fi_pty defs s Hrender Halloc _ Hp Hcb).
    apply field_reading; assumption.
  Qed.

  Lemma emitted_field pub codec name f :
    fld_ok f ->
    mk_pfield (keep_codec (compact_attrs codec (nf f))) pub name (Unparse.field_pty s (nf f)) =
    mk_pfield (if field_compact f && codec then [["codec"; "("; "compact"; ")"]] else []) pub name (exp_field_pty f).
  Proof.
    intros Hok. rewrite keep_codec_compact, (emitted_field_pty f Hok). unfold compact_attrs, nf.
    rewrite (normal_field_compact defs s otp f (proj1 (proj2 Hok))). reflexivity.
  Qed.

  Lemma emitted_fields_named pub codec fs :
    Forall fld_ok fs -> forallb sf_named fs = true ->
    strip_fields (map (fun x : string * field_ir =>
                         mk_pfield (compact_attrs codec (snd x)) pub (Some (fst x)) (Unparse.field_pty s (snd x)))
                      (map (fun f => (sf_ident f, nf f)) fs)) = exp_fields codec pub fs.
  Proof.
    intros Hok Hn. unfold strip_fields, exp_fields, expected_fields. rewrite !map_map.
    apply map_ext_in. intros f Hf. cbn [pf_attrs pf_pub pf_name pf_ty fst snd].
    rewrite Forall_forall in Hok. rewrite forallb_forall in Hn. specialize (Hok f Hf). specialize (Hn f Hf).
    rewrite (emitted_field pub codec (Some (sf_ident f)) f Hok).
    unfold sf_named in Hn. unfold sf_ident. destruct (sf_name f); [reflexivity|discriminate].
  Qed.

  Lemma emitted_fields_unnamed pub codec fs :
    Forall fld_ok fs -> forallb (fun f => negb (sf_named f)) fs = true ->
    strip_fields (map (fun x : field_ir => mk_pfield (compact_attrs codec x) pub None (Unparse.field_pty s x))
                      (map nf fs)) = exp_fields codec pub fs.
  Proof.
    intros Hok Hn. unfold strip_fields, exp_fields, expected_fields. rewrite !map_map.
    apply map_ext_in. intros f Hf. cbn [pf_attrs pf_pub pf_name pf_ty].
    rewrite Forall_forall in Hok. rewrite forallb_forall in Hn. specialize (Hok f Hf). specialize (Hn f Hf).
    rewrite (emitted_field pub codec None f Hok).
    unfold sf_named in Hn. destruct (sf_name f); [discriminate|reflexivity].
  Qed.

  (** variants *)
  Lemma emitted_variant_body codec fs :
    Forall fld_ok fs -> fields_uniformb fs = true ->
    strip_body (variant_body s (src_ckind defs s otp fs) codec) =
    body_of (first_named fs) (exp_fields codec false fs).
  Proof.
    intros Hok Hu. destruct fs as [|f fs']; [reflexivity|].
    pose proof (uniform_named _ Hu ltac:(discriminate)) as En.
    unfold src_ckind. destruct (forallb sf_named (f :: fs')) eqn:Ef; rewrite <- En.
    - cbn [variant_body strip_body]. fold nf. rewrite (emitted_fields_named false codec _ Hok Ef). reflexivity.
    - cbn [variant_body strip_body]. fold nf.
      rewrite (emitted_fields_unnamed false codec _ Hok (uniform_unnamed _ Hu Ef)). reflexivity.
  Qed.

  (** the body [expected_item] gives a struct *)
  Definition exp_struct_body (codec : bool) (fs : list sfield) (marker : option pty) : pbody :=
    let named := first_named fs in
    let pfs := exp_fields codec true fs in
    let mk := match marker with
              | Some m => [mk_pfield (if codec && negb (match fs with [] => true | _ => false end)
                                      then [["codec"; "("; "skip"; ")"]] else [])
                                     true (if named then Some "__ignore" else None) m]
              | None => []
              end in
    let all := pfs ++ mk in
    match fs, marker with
    | [], Some _ => BTuple all
    | [], None => BUnit
    | _, _ => if named then BNamed all else BTuple all
    end.

  Lemma strip_marker codec name u :
    strip_fields (marker_fields codec name (map pos_tpi u)) =
    match marker_pty u with Some m => [mk_pfield (skip_attrs codec) true name m] | None => [] end.
  Proof.
    unfold marker_fields. rewrite phantom_marker. destruct (marker_pty u); [|reflexivity].
    unfold strip_fields. cbn [map pf_attrs pf_pub pf_name pf_ty]. rewrite keep_codec_skip. reflexivity.
  Qed.

  Lemma emitted_struct_body codec fs u :
    Forall fld_ok fs -> fields_uniformb fs = true ->
    strip_body (struct_body s (src_ckind defs s otp fs) (map pos_tpi u) codec) =
      exp_struct_body codec fs (marker_pty u) /\
    match src_ckind defs s otp fs with CNamed _ => false | _ => true end =
      match exp_struct_body codec fs (marker_pty u) with BNamed _ => false | _ => true end.
  Proof.
    intros Hok Hu. destruct fs as [|f fs'].
    - cbn [src_ckind struct_body]. rewrite phantom_marker. unfold exp_struct_body.
      destruct (marker_pty u); destruct codec; split; reflexivity.
    - pose proof (uniform_named _ Hu ltac:(discriminate)) as En.
      unfold src_ckind. destruct (forallb sf_named (f :: fs')) eqn:Ef.
      + cbn [struct_body strip_body]. fold nf. rewrite strip_fields_app, strip_marker.
        rewrite (emitted_fields_named true codec _ Hok Ef).
        unfold exp_struct_body. rewrite <- En. destruct (marker_pty u); destruct codec; split; reflexivity.
      + cbn [struct_body strip_body]. fold nf. rewrite strip_fields_app, strip_marker.
        rewrite (emitted_fields_unnamed true codec _ Hok (uniform_unnamed _ Hu Ef)).
        unfold exp_struct_body. rewrite <- En. destruct (marker_pty u); destruct codec; split; reflexivity.
  Qed.
End SourceItem.

(** the emitted item of the skeleton of a source definition, stripped, is the expected item *)
Theorem source_item_expected defs s otp sd :
  render_okb s defs = true ->
  ir_plain s (ir_of_source defs s otp sd) = true ->
  names_uniformb sd = true ->
  forallb (fun f => apps_okb defs (sf_ty f) && field_conv_okb f) (def_sfields sd) = true ->
  strip_item (item_of_ir s (ir_of_source defs s otp sd)) = expected_of_source defs s otp sd.
Proof.
  intros Hr Hp Hu Hf.
  destruct (ir_plain_fields _ _ Hp) as (Halloc & Hplain).
  destruct (ir_of_source_spec defs s otp sd) as (_ & _ & Ekf). rewrite Ekf in Hplain.
  assert (Hok : Forall (fld_ok defs s otp) (def_sfields sd)).
  { apply Forall_forall. intros f Hin. rewrite forallb_forall in Hf.
    destruct (andb_prop _ _ (Hf f Hin)) as [Ha Hc].
    split; [exact Ha|split; [exact Hc|]]. apply (Hplain (normal_field defs s otp f)). apply in_map. exact Hin. }
  clear Hplain Ekf Hf Hp.
  unfold expected_of_source, expected_item, names_uniformb, def_sfields in *.
  destruct (sd_body sd) as [fs|vs] eqn:Eb.
  - rewrite (strip_item_struct s _ (mk_ci (last (sd_path sd) "") (src_ckind defs s otp fs) []))
      by (unfold ir_of_source; rewrite Eb; reflexivity).
    cbn [ci_name ci_kind].
    change (ti_params (ir_of_source defs s otp sd)) with (map pos_tpi (generics_of sd)).
    change (ti_unused (ir_of_source defs s otp sd)) with (map pos_tpi (unused_generics defs sd)).
    change (ti_codec (ir_of_source defs s otp sd)) with (s_codec s).
    rewrite generics_names.
    destruct (emitted_struct_body defs s otp Hr Halloc (s_codec s) fs (unused_generics defs sd) Hok Hu) as [E1 E2].
    rewrite E1, E2. unfold unused_generics. rewrite Eb. reflexivity.
  - rewrite (strip_item_enum s _ (last (sd_path sd) "") []
               (map (fun v : string * N * list sfield =>
                       (snd (fst v), mk_ci (fst (fst v)) (src_ckind defs s otp (snd v)) [])) vs))
      by (unfold ir_of_source; rewrite Eb; reflexivity).
    change (ti_params (ir_of_source defs s otp sd)) with (map pos_tpi (generics_of sd)).
    change (ti_unused (ir_of_source defs s otp sd)) with (map pos_tpi (unused_generics defs sd)).
    change (ti_codec (ir_of_source defs s otp sd)) with (s_codec s).
    rewrite generics_names. unfold ignore_variants. rewrite phantom_marker.
    unfold unused_generics. rewrite Eb. cbv zeta. f_equal. f_equal.
    + rewrite map_map. apply map_ext_in. intros [[vn vi] vfs] Hv. cbn [fst snd ci_name ci_kind].
      rewrite (emitted_variant_body defs s otp Hr Halloc).
      * reflexivity.
      * rewrite Forall_forall in Hok. apply Forall_forall. intros f Hin. apply Hok.
        apply in_flat_map. exists (vn, vi, vfs). split; [exact Hv|exact Hin].
      * rewrite forallb_forall in Hu. apply (Hu _ Hv).
    + destruct (marker_pty _); reflexivity.
Qed.

(** * 4. compositions *)

(** C05_expected_item_of_ir: from the erased IR to the parse tree *)
Theorem expected_item_of_ir defs s otp sd ir :
  render_okb s defs = true ->
  names_uniformb sd = true ->
  forallb (fun f => apps_okb defs (sf_ty f) && field_conv_okb f) (def_sfields sd) = true ->
  ir_plain s ir = true ->
  erase_ids ir = ir_of_source defs s otp sd ->
  strip_item (item_of_ir s ir) = expected_of_source defs s otp sd.
Proof.
  intros Hr Hu Hf Hp He. rewrite <- strip_item_erase, He.
  apply source_item_expected; try assumption. rewrite <- He. apply ir_plain_erase. exact Hp.
Qed.

(** successful IR construction: the fields of a struct / of every variant are all named or all
    unnamed (mixed fields are [EInvalidFields]) *)
Lemma names_fields defs L pnames args fs fl :
  Forall2 (field_of defs L pnames args) fs fl ->
  all_named fl = forallb sf_named fs /\ all_unnamed fl = forallb (fun f => negb (sf_named f)) fs.
Proof.
  induction 1 as [|sf f fs fl (Hn & _) _ (IH1 & IH2)]; [split; reflexivity|].
  unfold all_named, all_unnamed in *. cbn [forallb]. rewrite IH1, IH2, Hn. unfold sf_named.
  split; destruct (sf_name sf); reflexivity.
Qed.

Lemma cck_uniform defs L pnames args r s fs fl P u k u' :
  Forall2 (field_of defs L pnames args) fs fl ->
  create_composite_ir_kind r s fl P u = Ok (k, u') -> fields_uniformb fs = true.
Proof.
  intros H2 Hc. destruct (names_fields _ _ _ _ _ _ H2) as [E1 E2].
  unfold create_composite_ir_kind in Hc. destruct fl as [|f0 fl0].
  { inversion H2; subst. reflexivity. }
  destruct (negb (all_named (f0 :: fl0) || all_unnamed (f0 :: fl0))) eqn:E; [discriminate|].
  apply negb_false_iff in E. unfold fields_uniformb. rewrite <- E1, <- E2. exact E.
Qed.

Lemma variants_uniform defs L pnames args r s P : forall vs vl,
  Forall2 (fun (v : string * N * list sfield) (vr : variant) =>
             v_name vr = fst (fst v) /\ v_index vr = snd (fst v) /\
             Forall2 (field_of defs L pnames args) (snd v) (v_fields vr)) vs vl ->
  forall u l u', variants_ir r s P vl u = Ok (l, u') ->
  forallb (fun v : string * N * list sfield => fields_uniformb (snd v)) vs = true.
Proof.
  induction 1 as [|v vr vs vl (_ & _ & Hf) _ IH]; intros u l u' H; [reflexivity|].
  rewrite variants_ir_cons in H. apply bind_ok in H as (vn & _ & H).
  apply bind_ok in H as ([k u1] & Hk & H). apply bind_ok in H as ([l' u2] & Hrest & H).
  cbn [fst snd] in Hk, Hrest. cbn [forallb].
  rewrite (cck_uniform _ _ _ _ _ _ _ _ _ _ _ _ Hf Hk), (IH _ _ _ Hrest). reflexivity.
Qed.

Lemma names_uniform_of_ir defs L r s d sd args t flat ir :
  nth_error defs d = Some sd -> entry_of defs L r (SApp d args) t ->
  create_type_ir r s t flat = Ok (Some ir) -> names_uniformb sd = true.
Proof.
  intros Hsd Hent Hc.
  destruct (ent_inv defs L r d sd args Hsd t Hent) as (_ & _ & _ & Hbody).
  destruct (SourceSkeleton.create_type_ir_inv _ _ _ _ _ Hc) as (_ & _ & nm & _ & Hk).
  unfold names_uniformb. destruct (sd_body sd) as [fs|vs].
  - destruct Hbody as (fl & Hd & Hfl).
    destruct Hk as [(fs' & k & u & Hd' & Hcc & _)|(vs' & l & u & Hd' & _)]; [|congruence].
    rewrite Hd in Hd'. inversion Hd'; subst fs'. eapply cck_uniform; eauto.
  - destruct Hbody as (vl & Hd & Hvl).
    destruct Hk as [(fs' & k & u & Hd' & _)|(vs' & l & u & Hd' & Hcc & _)]; [congruence|].
    rewrite Hd in Hd'. inversion Hd'; subst vs'. eapply variants_uniform; eauto.
Qed.

(** the entry of an instantiation of an ok definition is turned into an item *)
Lemma def_entry_eligible defs L r s d sd args t :
  nth_error defs d = Some sd -> def_okb s sd = true -> entry_of defs L r (SApp d args) t ->
  item_eligible s t = true.
Proof.
  intros Hsd Hok Hent.
  destruct (ent_inv defs L r d sd args Hsd t Hent) as (Hp & _ & _ & Hbody).
  assert (Hcv : is_composite_or_variant (t_def t) = true).
  { destruct (sd_body sd); destruct Hbody as (x & -> & _); reflexivity. }
  unfold item_eligible. rewrite Hcv, Hp. unfold def_okb in Hok.
  apply andb_prop in Hok as [Hok _]. apply andb_prop in Hok as [Hok _]. apply andb_prop in Hok as [Hsub Hns].
  destruct (sd_path sd) as [|a [|b l]]; try discriminate Hns.
  unfold subs_contains. destruct (subs_get (s_subs s) (a :: b :: l)); [discriminate|]. reflexivity.
Qed.

Section RoundTrip.
  Variable defs : list sdef.
  Variable L : N -> option src.
  Variable r : registry.
  Variable s : settings.
  Variable otp : bool -> tpath.
  Hypothesis HR : RegistryOf defs L r.
  Hypothesis Hdefs : forall sd, In sd defs -> def_okb s sd = true.
  Hypothesis Hprel : prelude_okb s = true.
  Hypothesis Hord : order_resolves s otp.
  Hypothesis Hrender : render_okb s defs = true.
  Hypothesis Hpaths : forall d1 d2 sd1 sd2,
    nth_error defs d1 = Some sd1 -> nth_error defs d2 = Some sd2 -> sd_path sd1 = sd_path sd2 -> d1 = d2.

  Variable d : nat.
  Variable sd : sdef.
  Hypothesis Hsd : nth_error defs d = Some sd.
  Hypothesis Hfrag : forallb (fun f => no_cow_cow (sf_ty f)) (def_sfields sd) = true.
  Hypothesis Hbox : box_names_okb defs sd = true.
  Hypothesis Hconv : forallb (fun f => apps_okb defs (sf_ty f) && field_conv_okb f) (def_sfields sd) = true.
  Hypothesis Hnomarker : forall lsb, sd_path sd <> order_path_of lsb.
  (** every interned instantiation of the definition is coincidence-free ([cf_def] of Corr/RunC05.v) *)
  Hypothesis Hinst : forall id args, L id = Some (SApp d args) ->
    instantiation_cf defs sd args = true /\ map canon args = args /\ compact_fields_okb defs sd args = true.

  Variable teq : N -> N -> result bool.
  Variable m : items.
  Hypothesis Hgen : generate r s teq = Ok m.

  (** the item kept at the definition's path is the IR of one of its instantiations *)
  Lemma item_at_def_path id args :
    L id = Some (SApp d args) ->
    exists id0 ir k args0 t0 flat,
      items_get m (sd_path sd) = Some (id0, ir) /\ L k = Some (SApp d args0) /\
      entry_of defs L r (SApp d args0) t0 /\ create_type_ir r s t0 flat = Ok (Some ir).
  Proof.
    intros Hl. destruct HR as (H1 & H2 & H3).
    destruct (H1 _ _ Hl) as (t & Hres & Hent).
    pose proof (FidelityGen.resolve_In r id t (generate_sanity _ _ _ _ Hgen) Hres) as Hin.
    pose proof (def_entry_eligible defs L r s d sd args t Hsd (Hdefs sd (nth_error_In _ _ Hsd)) Hent) as Hel.
    destruct (generate_lookup r s teq m Hgen id t Hin Hel) as (id0 & X0 & ir0 & flat & Hfirst & _ & Hir0 & Hget).
    destruct (first_eligible_some _ _ _ _ _ Hfirst) as (Hin0 & Hp0 & Hel0).
    destruct (ent_inv defs L r d sd args Hsd t Hent) as (Hp & _).
    rewrite Hp in Hget, Hp0.
    destruct (eligible_cases defs L r s HR id0 X0 Hin0 Hel0)
      as [(k & d' & args' & sd' & Hl' & Hsd' & He' & Hp')|(lsb & Hm)].
    - assert (d' = d) by (apply (Hpaths d' d sd' sd Hsd' Hsd); congruence). subst d'.
      assert (sd' = sd) by congruence. subst sd'.
      exists id0, ir0, k, args', X0, flat. auto.
    - exfalso. destruct Hm as (Hpm & _). apply (Hnomarker lsb). unfold order_path_of. congruence.
  Qed.

  (** C05_source_roundtrip, one item: the tokens emitted for the item kept at the definition's path
      parse to an item whose stripped form is the expected item of the SOURCE definition *)
  Theorem source_roundtrip_item id args :
    L id = Some (SApp d args) ->
    exists id0 ir,
      items_get m (sd_path sd) = Some (id0, ir) /\
      (ir_plain s ir = true -> strip_item (item_of_ir s ir) = expected_of_source defs s otp sd) /\
      forall toks, type_ir_tokens s ir = Ok toks -> ir_plain s ir = true ->
        exists it, parse_one_item toks = Some it /\ strip_item it = expected_of_source defs s otp sd.
  Proof.
    intros Hl.
    destruct (item_at_def_path id args Hl) as (id0 & ir & k & args0 & t0 & flat & Hget & Hl0 & He0 & Hc0).
    destruct (Hinst k args0 Hl0) as (Hcf & Hcan & Hco).
    pose proof (skeleton_full defs L r s otp HR Hdefs Hprel Hord d sd args0 Hsd Hcf Hcan Hfrag Hco Hbox
                  t0 He0 flat ir Hc0) as Hsk.
    pose proof (names_uniform_of_ir defs L r s d sd args0 t0 flat ir Hsd He0 Hc0) as Hu.
    assert (Hexp : ir_plain s ir = true -> strip_item (item_of_ir s ir) = expected_of_source defs s otp sd).
    { intros Hp. apply expected_item_of_ir; assumption. }
    exists id0, ir. split; [exact Hget|]. split; [exact Hexp|].
    intros toks Ht Hp. destruct (syn_forms s ir toks Ht Hp) as (it & Hpi & -> & _).
    exists (item_of_ir s ir). split; [exact Hpi|exact (Hexp Hp)].
  Qed.

  (** the reader's [lookup_item] on the parse tree of the emitted module finds the item of a key *)
  Lemma lookup_generated p id ir :
    items_get m p = Some (id, ir) -> lookup_item (pmod_of_items s m) p = Some (item_of_ir s ir).
  Proof.
    intros H. destruct (generate_unique_names _ _ _ _ Hgen) as [Hsorted Hnd].
    pose proof (items_get_In_some _ _ _ H) as Hin. unfold pmod_of_items.
    apply (lookup_pmod s (S (max_depth m)) (s_root s) (es0 m) p (p, (p, ir))).
    - pose proof (max_depth_ge m _ Hin) as Hl. cbn [fst] in Hl. lia.
    - rewrite es0_fst. exact Hnd.
    - intros e He. destruct (es0_in m e He) as (q & id' & ir' & Hin' & ->).
      assert (Hget' : items_get m q = Some (id', ir')) by (apply (items_get_In_iff m Hsorted); exact Hin').
      destruct (generate_items_come_from_entries _ _ _ _ _ _ _ Hgen Hget') as (t & fl & _ & Hpath & _ & _ & Hc).
      destruct (create_type_ir_name_params _ _ _ _ _ Hc) as (Hne & Hlast & _). rewrite Hpath in *.
      split; assumption.
    - unfold es0. apply in_map_iff. exists (p, (id, ir)). split; [reflexivity|exact Hin].
    - reflexivity.
  Qed.

  (** C05_source_roundtrip, whole module: exactly the computation of [prop_source_roundtrip] *)
  Theorem source_roundtrip_module id args toks :
    L id = Some (SApp d args) -> emit_module s m = Ok toks -> items_plain s m = true ->
    exists pm it, parse_module toks = Some pm /\ lookup_item pm (sd_path sd) = Some it /\
                  strip_item it = expected_of_source defs s otp sd.
  Proof.
    intros Hl He Hp. destruct (source_roundtrip_item id args Hl) as (id0 & ir & Hget & Hexp & _).
    exists (pmod_of_items s m), (item_of_ir s ir). split; [apply emit_parses; assumption|].
    split; [apply (lookup_generated _ _ _ Hget)|]. apply Hexp.
    unfold items_plain in Hp. rewrite forallb_forall in Hp.
    apply (Hp (sd_path sd, (id0, ir))). apply items_get_In_some. exact Hget.
  Qed.
End RoundTrip.

(** * 5. the instantiation of [expected_item] used by the checker [prop_source_roundtrip]

    [expected_item] looks at [order_path lsb] only for bit sequences of order [lsb] *)
Section OrderExt.
  Variable defs : list sdef.
  Variable root : string.
  Variable alloc : list string.
  Variables cpt bts : list string * bool.
  Variables o1 o2 : bool -> pty.
  Let Ho (lsb : bool) : Prop := o1 lsb = o2 lsb.

  Let p1 := src_pty defs root alloc cpt bts o1.
  Let p2 := src_pty defs root alloc cpt bts o2.

  Lemma src_pty_ext_n : forall n t, (src_size t <= n)%nat -> (forall lsb, mentions_order lsb t = true -> Ho lsb) -> p1 t = p2 t.
  Proof.
    induction n as [|n IH]; intros t Hsz Hm; [destruct t; cbn [src_size] in Hsz; lia|].
    unfold p1, p2.
    destruct t as [i|d' xs|x|x|len x|xs|p|x|x|x|a b|a b|x|x|x|st lsb]; cbn [src_size] in Hsz; cbn [src_pty];
      fold p1 p2; cbn [mentions_order] in Hm; try reflexivity;
      try (rewrite (IH x) by (lia || exact Hm); reflexivity);
      try (rewrite (IH a), (IH b) by (lia || (intros l0 Hx; apply Hm; rewrite Hx, ?orb_true_r; reflexivity));
           reflexivity).
    - (* application *)
      change (S (sizes xs) <= S n)%nat in Hsz.
      assert (Hx : forall x, In x xs -> p1 x = p2 x).
      { intros x Hx. apply IH; [pose proof (sizes_In _ _ Hx); lia|].
        intros l0 Hmx. apply Hm. apply existsb_exists. exists x. split; assumption. }
      clear Hsz Hm. cbv zeta. f_equal. f_equal. f_equal. f_equal.
      generalize (match nth_error defs d' with Some sd => map snd (sd_params sd) | None => [] end).
      induction xs as [|x xs IHxs]; intros sk; [destruct sk; reflexivity|].
      assert (E : p1 x = p2 x) by (apply Hx; left; reflexivity).
      assert (Hx' : forall y, In y xs -> p1 y = p2 y) by (intros y Hy; apply Hx; right; exact Hy).
      destruct sk as [|[|] sk]; cbn; rewrite ?E, (IHxs Hx'); reflexivity.
    - (* tuple *)
      change (S (sizes xs) <= S n)%nat in Hsz.
      assert (Hx : forall x, In x xs -> p1 x = p2 x).
      { intros x Hx. apply IH; [pose proof (sizes_In _ _ Hx); lia|].
        intros l0 Hmx. apply Hm. apply existsb_exists. exists x. split; assumption. }
      clear Hsz Hm. f_equal.
      induction xs as [|x xs IHxs]; [reflexivity|].
      assert (E : p1 x = p2 x) by (apply Hx; left; reflexivity).
      assert (Hx' : forall y, In y xs -> p1 y = p2 y) by (intros y Hy; apply Hx; right; exact Hy).
      cbn. rewrite E, (IHxs Hx'). reflexivity.
    - (* bit sequence *) unfold Ho in Hm. rewrite (Hm lsb (Bool.eqb_reflx lsb)). reflexivity.
  Qed.

  Lemma src_pty_ext t : (forall lsb, mentions_order lsb t = true -> Ho lsb) -> p1 t = p2 t.
  Proof. apply (src_pty_ext_n (src_size t)). apply le_n. Qed.

  Lemma field_pty_ext f :
    (forall lsb, mentions_order lsb (sf_ty f) = true -> Ho lsb) ->
    Program.field_pty defs root alloc cpt bts o1 f = Program.field_pty defs root alloc cpt bts o2 f.
  Proof.
    intros Hm. unfold Program.field_pty. fold p1 p2.
    destruct (sf_ty f) as [i|d' xs|x|x|len x|xs|p|x|x|x|a b|a b|x|x|x|st lsb];
      try (rewrite (src_pty_ext _ Hm); reflexivity).
    - (* Compact<x>: the inner type *) rewrite (src_pty_ext x Hm). reflexivity.
    - destruct x as [i|d' xs|x|x|len x|xs|p|x|x|x|a b|a b|x|x|x|st lsb];
        try (rewrite (src_pty_ext _ Hm); reflexivity).
      (* Cow<Compact<x>> *) rewrite (src_pty_ext x Hm). reflexivity.
  Qed.

  Lemma expected_fields_ext codec pub fs :
    (forall f, In f fs -> forall lsb, mentions_order lsb (sf_ty f) = true -> Ho lsb) ->
    expected_fields defs root alloc cpt bts o1 codec pub fs = expected_fields defs root alloc cpt bts o2 codec pub fs.
  Proof.
    intros Hm. unfold expected_fields. apply map_ext_in. intros f Hf. rewrite (field_pty_ext f (Hm f Hf)). reflexivity.
  Qed.

  Lemma expected_item_ext codec d :
    (forall lsb, def_mentions_order d lsb = true -> Ho lsb) ->
    expected_item defs root alloc cpt bts o1 codec d = expected_item defs root alloc cpt bts o2 codec d.
  Proof.
    intros Hm.
    assert (Hf : forall f, In f (def_sfields d) -> forall lsb, mentions_order lsb (sf_ty f) = true -> Ho lsb).
    { intros f Hin lsb Hmf. apply Hm. unfold def_mentions_order. apply existsb_exists. exists f. split; assumption. }
    clear Hm. unfold expected_item, def_sfields in *. destruct (sd_body d) as [fs|vs].
    - rewrite (expected_fields_ext codec true fs Hf). reflexivity.
    - cbv zeta. f_equal. f_equal. apply map_ext_in. intros v Hv.
      rewrite (expected_fields_ext codec false (snd v)); [reflexivity|].
      intros f Hin. apply Hf. apply in_flat_map. exists v. split; assumption.
  Qed.
End OrderExt.

Lemma segs_lead_opt o :
  segs_lead_of (opt_toks o) = match o with Some t => segs_lead_of t | None => ([], false) end.
Proof. destruct o; reflexivity. Qed.

(** with the bit-order markers substituted as the harness does (needed only for the orders of the
    bit sequences the definition mentions), [expected_of_source] is the checker's [expected_of] *)
Theorem expected_of_source_settings defs s otp d :
  (forall lsb, def_mentions_order d lsb = true ->
               tpath_pty (ProgramSkel.alloc_segs s) (otp lsb) = bits_order_pty lsb) ->
  expected_of_source defs s otp d = expected_of_settings defs s d.
Proof.
  intros H. unfold expected_of_source, expected_of_settings. rewrite !segs_lead_opt.
  apply expected_item_ext. exact H.
Qed.

Theorem expected_of_is_settings c d :
  expected_of c d = expected_of_settings (pg_defs (c5_prog c)) (RunTG.settings_of (RunTG.tg_spec (c5_tg c))) d.
Proof. reflexivity. Qed.

(** * 6. examples: both sides computed.  Left: the model generates, emits the module, the tokens
    are read back by Checkers/Parse.v, the item is looked up and stripped ([model_item_at],
    [strip_item]: the computation of [prop_source_roundtrip]); right: [expected_item] of the SOURCE
    definition. *)

(** a struct with two unused parameters (marker field [__ignore : PhantomData<(_1, _2)>]) and a
    [#[codec(compact)]] field *)
Lemma ex8_roundtrip :
  option_map strip_item (model_item_at ex8_reg ex8_s ["a"; "Ph"]) =
  Some (expected_of_source ex8_defs ex8_s ex8_otp ex8_sd).
Proof. vm_compute. reflexivity. Qed.

Lemma ex8_expected :
  expected_of_source ex8_defs ex8_s ex8_otp ex8_sd =
  mk_pitem [] false "Ph" ["_0"; "_1"; "_2"]
    (BNamed [mk_pfield [] true (Some "x") (PPath true [("std", []); ("vec", []); ("Vec", [PPath false [("_0", [])]])]);
             mk_pfield [["codec"; "("; "compact"; ")"]] true (Some "n")
                       (PPath true [("core", []); ("primitive", []); ("u32", [])]);
             mk_pfield [["codec"; "("; "skip"; ")"]] true (Some "__ignore")
                       (PPath true [("core", []); ("marker", []);
                                    ("PhantomData", [PTuple [PPath false [("_1", [])]; PPath false [("_2", [])]]])])])
    [] false.
Proof. vm_compute. reflexivity. Qed.

(** an enum with an unused parameter ([__Ignore] variant), tuple / named / unit variants, variant
    indices, an explicit [Compact<u32>] field and a boxed field *)
Lemma ex9_roundtrip :
  option_map strip_item (model_item_at ex9_reg ex8_s ["a"; "En"]) =
  Some (expected_of_source ex9_defs ex8_s ex8_otp ex9_sd).
Proof. vm_compute. reflexivity. Qed.

Lemma ex9_expected :
  expected_of_source ex9_defs ex8_s ex8_otp ex9_sd =
  mk_pitem [] true "En" ["_0"; "_1"] BUnit
    [mk_pvariant [["codec"; "("; "index"; "="; "0"; ")"]] "A"
       (BTuple [mk_pfield [] false None (PPath false [("_0", [])]);
                mk_pfield [] false None
                  (PPath true [("std", []); ("boxed", []);
                               ("Box", [PPath true [("std", []); ("vec", []); ("Vec", [PPath false [("_0", [])]])]])])]);
     mk_pvariant [["codec"; "("; "index"; "="; "1"; ")"]] "B"
       (BNamed [mk_pfield [["codec"; "("; "compact"; ")"]] false (Some "n")
                          (PPath true [("core", []); ("primitive", []); ("u32", [])])]);
     mk_pvariant [["codec"; "("; "index"; "="; "5"; ")"]] "C" BUnit;
     mk_pvariant [] "__Ignore"
       (BTuple [mk_pfield [] false None
                  (PPath true [("core", []); ("marker", []); ("PhantomData", [PPath false [("_1", [])]])])])]
    false.
Proof. vm_compute. reflexivity. Qed.

(** the programs of Model/ProgramExamples.v (ex6: an enum over Option / BTreeMap / a bit sequence /
    Cow; ex7: a struct over tuples / Option / Result / Range) and of C05_example (ex5: a skipped
    parameter, a boxed field, a compact field) *)
Lemma ex6_roundtrip :
  option_map strip_item (model_item_at ex6_reg ex6_s ["a"; "Bar"]) =
  Some (expected_of_source ex6_defs ex6_s ex6_otp ex6_sd).
Proof. vm_compute. reflexivity. Qed.

Lemma ex7_roundtrip :
  option_map strip_item (model_item_at ex7_reg f19_s ["a"; "Pt"]) =
  Some (expected_of_source ex7_defs f19_s (order_tp_of f19_s) ex7_sd).
Proof. vm_compute. reflexivity. Qed.

Lemma ex5_roundtrip :
  option_map strip_item (model_item_at ex5_reg ex5_s ["a"; "Foo"]) =
  Some (expected_of_source ex5_defs ex5_s ex5_otp ex5_sd).
Proof. vm_compute. reflexivity. Qed.

(** non-vacuity of [source_roundtrip_module]: on ex8 every hypothesis holds, so the theorem applies *)
Lemma ex8_RegistryOf : RegistryOf ex8_defs (label_at ex8_labels) ex8_reg.
Proof. apply registry_ofb_sound; vm_compute; reflexivity. Qed.

Lemma ex8_by_theorem :
  forall m toks,
    generate ex8_reg ex8_s (types_equal ex8_reg) = Ok m -> emit_module ex8_s m = Ok toks ->
    items_plain ex8_s m = true ->
    exists pm it, parse_module toks = Some pm /\ lookup_item pm ["a"; "Ph"] = Some it /\
                  strip_item it = expected_of_source ex8_defs ex8_s ex8_otp ex8_sd.
Proof.
  intros m toks Hg He Hp.
  apply (source_roundtrip_module ex8_defs (label_at ex8_labels) ex8_reg ex8_s ex8_otp ex8_RegistryOf)
    with (d := 0%nat) (sd := ex8_sd) (teq := types_equal ex8_reg) (m := m) (id := 0%N)
         (args := [SPrimT PU16; SPrimT PBool; SPrimT PU8]); try assumption; try (vm_compute; reflexivity).
  - intros sd [<-|[]]. vm_compute. reflexivity.
  - apply order_resolvesb_sound. vm_compute. reflexivity.
  - intros d1 d2 sd1 sd2 H1 H2 _. destruct d1 as [|[|d1]], d2 as [|[|d2]]; try discriminate; reflexivity.
  - intros [|]; vm_compute; discriminate.
  - intros id args H. unfold label_at in H.
    destruct (N.to_nat id) as [|[|[|[|[|[|[|[|[|n]]]]]]]]]; cbn in H; try discriminate;
      try (destruct n; discriminate H); injection H as <-; vm_compute; auto.
Qed.

Lemma ex8_facts :
  registry_ofb ex8_defs ex8_labels ex8_reg = true /\ registry_ofb ex9_defs ex9_labels ex9_reg = true /\
  (exists m toks, generate ex8_reg ex8_s (types_equal ex8_reg) = Ok m /\ emit_module ex8_s m = Ok toks /\
                  items_plain ex8_s m = true).
Proof.
  split; [vm_compute; reflexivity|]. split; [vm_compute; reflexivity|].
  eexists. eexists. split; [vm_compute; reflexivity|]. split; vm_compute; reflexivity.
Qed.

(** * 7. the checker [prop_source_roundtrip] on the model's own output *)
Section PtyInd.
  Variable P : pty -> Prop.
  Hypothesis HPath : forall l segs, Forall (fun sa : string * list pty => Forall P (snd sa)) segs -> P (PPath l segs).
  Hypothesis HTuple : forall els, Forall P els -> P (PTuple els).
  Hypothesis HArray : forall el len, P el -> P (PArray el len).
  Hypothesis HBad : P PBad.

  Fixpoint pty_ind' (t : pty) : P t :=
    match t with
    | PPath l segs =>
        HPath l segs
          ((fix go (x : list (string * list pty)) : Forall (fun sa : string * list pty => Forall P (snd sa)) x :=
              match x with
              | [] => Forall_nil _
              | sa :: x' =>
                  Forall_cons sa
                    ((fix go2 (p : list pty) : Forall P p :=
                        match p with
                        | [] => Forall_nil _
                        | u :: p' => Forall_cons u (pty_ind' u) (go2 p')
                        end) (snd sa)) (go x')
              end) segs)
    | PTuple els =>
        HTuple els ((fix go2 (p : list pty) : Forall P p :=
                       match p with
                       | [] => Forall_nil _
                       | u :: p' => Forall_cons u (pty_ind' u) (go2 p')
                       end) els)
    | PArray el len => HArray el len (pty_ind' el)
    | PBad => HBad
    end.
End PtyInd.

Lemma pty_list_eqb_refl l :
  Forall (fun t => pty_eqb t t = true) l ->
  (fix go2 (p q : list pty) : bool :=
     match p, q with
     | [], [] => true
     | t :: p', u :: q' => pty_eqb t u && go2 p' q'
     | _, _ => false
     end) l l = true.
Proof. induction 1 as [|t l Ht _ IH]; [reflexivity|]. rewrite Ht, IH. reflexivity. Qed.

Lemma pty_eqb_refl t : pty_eqb t t = true.
Proof.
  induction t as [l segs IH|els IH|el len IH|] using pty_ind'; cbn [pty_eqb].
  - rewrite Bool.eqb_reflx. cbn [andb].
    induction IH as [|[n aa] segs Haa _ IHs]; [reflexivity|].
    unfold teq at 1. rewrite String.eqb_refl. cbn [andb snd] in *.
    rewrite (pty_list_eqb_refl aa Haa). cbn [andb]. exact IHs.
  - apply pty_list_eqb_refl. exact IH.
  - rewrite IH. unfold teq. rewrite String.eqb_refl. reflexivity.
  - reflexivity.
Qed.

Lemma tokens_eqb_refl t : tokens_eqb t t = true.
Proof. apply list_eqb_refl. apply String.eqb_refl. Qed.

Lemma pfields_eqb_refl l : pfields_eqb l l = true.
Proof.
  induction l as [|x l IH]; [reflexivity|]. cbn [pfields_eqb].
  rewrite (list_eqb_refl tokens_eqb tokens_eqb_refl), Bool.eqb_reflx, pty_eqb_refl, IH.
  destruct (pf_name x); cbn [option_eqb]; rewrite ?String.eqb_refl; reflexivity.
Qed.

Lemma pbody_eqb_refl b : pbody_eqb b b = true.
Proof. destruct b; cbn [pbody_eqb]; [reflexivity|apply pfields_eqb_refl|apply pfields_eqb_refl]. Qed.

Lemma pitem_eqb_refl i : pitem_eqb i i = true.
Proof.
  unfold pitem_eqb.
  rewrite (list_eqb_refl tokens_eqb tokens_eqb_refl), Bool.eqb_reflx, String.eqb_refl,
    (list_eqb_refl String.eqb String.eqb_refl), pbody_eqb_refl. cbn [andb].
  apply list_eqb_refl. intros v.
  rewrite (list_eqb_refl tokens_eqb tokens_eqb_refl), String.eqb_refl, pbody_eqb_refl. reflexivity.
Qed.

Lemma combine_seq_nth {A} (l : list A) : forall start k x,
  In (k, x) (combine (seq start (List.length l)) l) -> (start <= k)%nat /\ nth_error l (k - start) = Some x.
Proof.
  induction l as [|a l IH]; intros start k x H; [destruct H|].
  cbn [List.length seq combine] in H. destruct H as [H|H].
  - inversion H; subst. split; [lia|]. rewrite Nat.sub_diag. reflexivity.
  - destruct (IH _ _ _ H) as [Hle Hn]. split; [lia|].
    replace (k - start)%nat with (S (k - S start)) by lia. exact Hn.
Qed.

(** the labels of the harness are the [canon] forms of the instantiations it records: coincidence-
    freeness does not depend on the form *)
Lemma canon_fix_map xs :
  (fix go (l : list src) := match l with [] => [] | x :: l' => canon x :: go l' end) xs = map canon xs.
Proof. induction xs as [|x xs IH]; [reflexivity|]. cbn [map]. rewrite <- IH. reflexivity. Qed.

Lemma canon_app d xs : canon (SApp d xs) = SApp d (map canon xs).
Proof. cbn [canon]. rewrite canon_fix_map. reflexivity. Qed.

Lemma canon_tup xs : canon (STup xs) = STup (map canon xs).
Proof. cbn [canon]. rewrite canon_fix_map. reflexivity. Qed.

Lemma subst_fix_map args xs :
  (fix go (l : list src) := match l with [] => [] | x :: l' => subst_src args x :: go l' end) xs =
  map (subst_src args) xs.
Proof. induction xs as [|x xs IH]; [reflexivity|]. cbn [map]. rewrite <- IH. reflexivity. Qed.

Lemma subst_app args d xs : subst_src args (SApp d xs) = SApp d (map (subst_src args) xs).
Proof. cbn [subst_src]. rewrite subst_fix_map. reflexivity. Qed.

Lemma subst_tup args xs : subst_src args (STup xs) = STup (map (subst_src args) xs).
Proof. cbn [subst_src]. rewrite subst_fix_map. reflexivity. Qed.

Lemma canon_idem_n : forall n t, (src_size t <= n)%nat -> canon (canon t) = canon t.
Proof.
  induction n as [|n IH]; intros t Hsz; [destruct t; cbn [src_size] in Hsz; lia|].
  destruct t as [i|d' xs|x|x|len x|xs|p|x|x|x|a b|a b|x|x|x|st lsb]; cbn [src_size] in Hsz;
    try reflexivity;
    try (cbn [canon]; rewrite (IH x) by lia; reflexivity);
    try (cbn [canon]; rewrite (IH a), (IH b) by lia; reflexivity).
  - change (S (sizes xs) <= S n)%nat in Hsz. rewrite !canon_app, map_map. f_equal.
    apply map_ext_in. intros x Hx. apply IH. pose proof (sizes_In _ _ Hx). lia.
  - change (S (sizes xs) <= S n)%nat in Hsz. rewrite !canon_tup, map_map. f_equal.
    apply map_ext_in. intros x Hx. apply IH. pose proof (sizes_In _ _ Hx). lia.
Qed.

Lemma canon_idem t : canon (canon t) = canon t.
Proof. apply (canon_idem_n (src_size t)). apply le_n. Qed.

Lemma map_canon_idem args : map canon (map canon args) = map canon args.
Proof. rewrite map_map. apply map_ext. apply canon_idem. Qed.

Lemma cs_canon_args_n args : forall n c, (src_size c <= n)%nat ->
  canon (subst_src (map canon args) c) = canon (subst_src args c).
Proof.
  induction n as [|n IH]; intros c Hsz; [destruct c; cbn [src_size] in Hsz; lia|].
  destruct c as [i|d' xs|x|x|len x|xs|p|x|x|x|a b|a b|x|x|x|st lsb]; cbn [src_size] in Hsz;
    try reflexivity;
    try (cbn [subst_src canon]; rewrite (IH x) by lia; reflexivity);
    try (cbn [subst_src canon]; rewrite (IH a), (IH b) by lia; reflexivity).
  - cbn [subst_src]. pose proof (map_nth canon args (SParam i) i) as E. cbn [canon] in E. rewrite E.
    apply canon_idem.
  - change (S (sizes xs) <= S n)%nat in Hsz. rewrite !subst_app, !canon_app, !map_map. f_equal.
    apply map_ext_in. intros x Hx. apply IH. pose proof (sizes_In _ _ Hx). lia.
  - change (S (sizes xs) <= S n)%nat in Hsz. rewrite !subst_tup, !canon_tup, !map_map. f_equal.
    apply map_ext_in. intros x Hx. apply IH. pose proof (sizes_In _ _ Hx). lia.
Qed.

Lemma cs_canon_args args c : canon (subst_src (map canon args) c) = canon (subst_src args c).
Proof. apply (cs_canon_args_n args (src_size c)). apply le_n. Qed.

Lemma instantiation_cf_canon defs d args :
  instantiation_cf defs d (map canon args) = instantiation_cf defs d args.
Proof.
  unfold instantiation_cf. cbv zeta. rewrite map_canon_idem. f_equal. f_equal.
  apply forallb_ext_local. intros ft. f_equal.
  apply forallb_ext_local. intros c. rewrite cs_canon_args. reflexivity.
Qed.

(** when the observed tokens are the model's tokens, the checker accepts (every definition all of
    whose interned instantiations are coincidence-free is found at its path, and its stripped item
    is the checker's [expected_of]) *)
Theorem prop_source_roundtrip_of_model (c : c05_case) (otp : bool -> tpath) teq m toks :
  let defs := pg_defs (c5_prog c) in
  let r := tg_reg (c5_tg c) in
  let s := settings_of (tg_spec (c5_tg c)) in
  let L := label_at (c5_labels c) in
  RegistryOf defs L r ->
  (forall sd, In sd defs -> def_okb s sd = true) ->
  prelude_okb s = true -> order_resolves s otp -> render_okb s defs = true ->
  (forall d1 d2 sd1 sd2,
     nth_error defs d1 = Some sd1 -> nth_error defs d2 = Some sd2 -> sd_path sd1 = sd_path sd2 -> d1 = d2) ->
  (forall k sd, nth_error defs k = Some sd -> cf_def c k sd = true ->
     forallb (fun f => no_cow_cow (sf_ty f)) (def_sfields sd) = true /\ box_names_okb defs sd = true /\
     forallb (fun f => apps_okb defs (sf_ty f) && field_conv_okb f) (def_sfields sd) = true /\
     (forall lsb, sd_path sd <> order_path_of lsb) /\
     (forall lsb, def_mentions_order sd lsb = true ->
                  tpath_pty (ProgramSkel.alloc_segs s) (otp lsb) = bits_order_pty lsb) /\
     (exists id args, L id = Some (SApp k args)) /\
     (forall id args, L id = Some (SApp k args) ->
        (exists args', In args' (insts_of c k) /\ args = map canon args') /\
        compact_fields_okb defs sd args = true)) ->
  generate r s teq = Ok m -> emit_module s m = Ok toks -> items_plain s m = true ->
  tg_gen (c5_tg c) = OOk toks ->
  prop_source_roundtrip c = true.
Proof.
  intros defs r s L HR Hdefs Hprel Hord Hrender Hpaths Hper Hgen Hemit Hplain Hobs.
  unfold prop_source_roundtrip. rewrite Hobs.
  pose proof (emit_parses s m toks Hemit Hplain) as Hparse. fold s in Hparse. rewrite Hparse.
  apply forallb_forall. intros [k sd] Hin. cbn [fst snd].
  destruct (cf_def c k sd) eqn:Ecf; [|reflexivity].
  unfold defs_indexed in Hin. apply combine_seq_nth in Hin as [_ Hnth]. rewrite Nat.sub_0_r in Hnth.
  destruct (Hper k sd Hnth Ecf) as (Hfrag & Hbox & Hconv & Hnom & Hbits & (id & args & Hl) & Hinst).
  assert (Hinst' : forall id0 args0, L id0 = Some (SApp k args0) ->
            instantiation_cf defs sd args0 = true /\ map canon args0 = args0 /\ compact_fields_okb defs sd args0 = true).
  { intros id0 args0 Hl0. destruct (Hinst id0 args0 Hl0) as ((args' & Hin0 & ->) & Hco).
    split; [|split; [apply map_canon_idem|exact Hco]]. rewrite instantiation_cf_canon. unfold cf_def in Ecf.
    destruct (insts_of c k) as [|a l] eqn:Ei; [discriminate|].
    rewrite forallb_forall in Ecf. apply Ecf. exact Hin0. }
  destruct (source_roundtrip_module defs L r s otp HR Hdefs Hprel Hord Hrender Hpaths k sd Hnth Hfrag Hbox Hconv
              Hnom Hinst' teq m Hgen id args toks Hl Hemit Hplain) as (pm & it & Hpm & Hlook & Hstrip).
  rewrite Hparse in Hpm. inversion Hpm; subst pm. rewrite Hlook, Hstrip.
  rewrite (expected_of_source_settings defs s otp sd Hbits). apply pitem_eqb_refl.
Qed.

(** the harness substitutes the bit-order markers by [::bits::order::{Lsb0,Msb0}]: the reading
    hypothesis of [expected_of_source_settings] / [prop_source_roundtrip_of_model] *)
Lemma bits_order_reading (otp : bool -> tpath) lsb :
  otp lsb = TPath (abs_path ["bits"; "order"; if lsb then "Lsb0" else "Msb0"]) [] ->
  forall asegs, tpath_pty asegs (otp lsb) = bits_order_pty lsb.
Proof. intros H asegs. rewrite H. destruct lsb; reflexivity. Qed.

(** * 8. the hypotheses as one boolean ([hyp_emission_theorem], Corr/RunC05Emit.v) *)
Lemma nth_combine_seq {A} (l : list A) : forall start k x,
  nth_error l k = Some x -> In ((start + k)%nat, x) (combine (seq start (List.length l)) l).
Proof.
  induction l as [|a l IH]; intros start k x H; [destruct k; discriminate|].
  cbn [List.length seq combine]. destruct k as [|k]; cbn [nth_error] in H.
  - inversion H; subst. left. rewrite Nat.add_0_r. reflexivity.
  - right. replace (start + S k)%nat with (S start + k)%nat by lia. apply IH. exact H.
Qed.

Lemma paths_nodupb_nth : forall (l : list (list string)),
  paths_nodupb l = true -> forall i j p, nth_error l i = Some p -> nth_error l j = Some p -> i = j.
Proof.
  induction l as [|q l IH]; intros H i j p Hi Hj; [destruct i; discriminate|].
  cbn [paths_nodupb] in H. apply andb_prop in H as [Hq Hl]. apply negb_true_iff in Hq.
  assert (Hnot : forall n, nth_error l n = Some q -> False).
  { intros n Hn. apply nth_error_In in Hn.
    assert (E : existsb (list_eqb String.eqb q) l = true).
    { apply existsb_exists. exists q. split; [exact Hn|]. apply list_eqb_refl. apply String.eqb_refl. }
    congruence. }
  destruct i as [|i], j as [|j]; cbn [nth_error] in Hi, Hj.
  - reflexivity.
  - exfalso. inversion Hi; subst. eapply Hnot; eauto.
  - exfalso. inversion Hj; subst. eapply Hnot; eauto.
  - f_equal. eapply IH; eauto.
Qed.

Lemma list_eqb_str_neq p q : negb (list_eqb String.eqb p q) = true -> p <> q.
Proof.
  intros H E. subst q. rewrite (list_eqb_refl String.eqb String.eqb_refl) in H. discriminate.
Qed.

Lemma label_at_In labels id x : label_at labels id = Some x -> In (Some x) labels.
Proof.
  unfold label_at. destruct (nth_error labels (N.to_nat id)) as [o|] eqn:E; [|discriminate].
  intros ->. eapply nth_error_In; eauto.
Qed.

Lemma In_label_at labels x : In (Some x) labels -> exists id, label_at labels id = Some x.
Proof.
  intros H. apply In_nth_error in H as (n & Hn). exists (N.of_nat n).
  unfold label_at. rewrite Nat2N.id, Hn. reflexivity.
Qed.

Lemma order_subst_b_sound s lsb :
  order_subst_b s lsb = true ->
  forall asegs, tpath_pty asegs (order_tp_of s lsb) = bits_order_pty lsb.
Proof.
  unfold order_subst_b. intros H. apply bits_order_reading.
  destruct (order_tp_of s lsb) as [|toks [|x l]| | | | | |]; try discriminate.
  apply (list_eqb_sound String.eqb) in H; [|intros a b; apply String.eqb_eq]. rewrite H. reflexivity.
Qed.

Lemma def_emission_okb_sound c k sd :
  def_emission_okb c k sd = true ->
  let defs := pg_defs (c5_prog c) in
  let s := settings_of (tg_spec (c5_tg c)) in
  let L := label_at (c5_labels c) in
  forallb (fun f => no_cow_cow (sf_ty f)) (def_sfields sd) = true /\ box_names_okb defs sd = true /\
  forallb (fun f => apps_okb defs (sf_ty f) && field_conv_okb f) (def_sfields sd) = true /\
  (forall lsb, sd_path sd <> order_path_of lsb) /\
  (forall lsb, def_mentions_order sd lsb = true ->
               tpath_pty (ProgramSkel.alloc_segs s) (order_tp_of s lsb) = bits_order_pty lsb) /\
  (exists id args, L id = Some (SApp k args)) /\
  (forall id args, L id = Some (SApp k args) ->
     (exists args', In args' (insts_of c k) /\ args = map canon args') /\
     compact_fields_okb defs sd args = true).
Proof.
  unfold def_emission_okb. intros H. cbv zeta in H |- *.
  apply andb_prop in H as [H Hall]. apply andb_prop in H as [H Hex]. apply andb_prop in H as [H Hbits].
  apply andb_prop in H as [H Hm0]. apply andb_prop in H as [H Hm1]. apply andb_prop in H as [H Hconv].
  apply andb_prop in H as [Hfrag Hbox].
  split; [exact Hfrag|]. split; [exact Hbox|]. split; [exact Hconv|]. split; [|split; [|split]].
  - intros [|]; apply list_eqb_str_neq; assumption.
  - intros lsb Hm. rewrite forallb_forall in Hbits.
    assert (Hin : In lsb [true; false]) by (destruct lsb; cbn; auto).
    specialize (Hbits lsb Hin). rewrite Hm in Hbits. cbn [negb orb] in Hbits.
    apply order_subst_b_sound. exact Hbits.
  - apply existsb_exists in Hex as (o & Hin & Ho).
    destruct o as [[i|k' a|x|x|len x|xs|p|x|x|x|a b|a b|x|x|x|st lsb]|]; try discriminate Ho.
    apply Nat.eqb_eq in Ho. subst k'. destruct (In_label_at _ _ Hin) as (id & Hid). exists id, a. exact Hid.
  - intros id args Hl. apply label_at_In in Hl. rewrite forallb_forall in Hall. specialize (Hall _ Hl).
    cbv beta iota in Hall. rewrite Nat.eqb_refl in Hall. apply andb_prop in Hall as [He Hco].
    split; [|exact Hco]. apply existsb_exists in He as (args' & Hin' & He).
    apply src_eqb_sound in He. exists args'. split; [exact Hin'|]. congruence.
Qed.

Lemma emission_static_okb_sound c :
  emission_static_okb c = true ->
  let defs := pg_defs (c5_prog c) in
  let r := tg_reg (c5_tg c) in
  let s := settings_of (tg_spec (c5_tg c)) in
  let L := label_at (c5_labels c) in
  RegistryOf defs L r /\ (forall sd, In sd defs -> def_okb s sd = true) /\
  prelude_okb s = true /\ order_resolves s (order_tp_of s) /\ render_okb s defs = true /\
  (forall d1 d2 sd1 sd2,
     nth_error defs d1 = Some sd1 -> nth_error defs d2 = Some sd2 -> sd_path sd1 = sd_path sd2 -> d1 = d2) /\
  (forall k sd, nth_error defs k = Some sd -> cf_def c k sd = true -> def_emission_okb c k sd = true).
Proof.
  unfold emission_static_okb. intros H. cbv zeta in H |- *.
  apply andb_prop in H as [H Hper]. apply andb_prop in H as [H Hnd]. apply andb_prop in H as [H Hrender].
  apply andb_prop in H as [H Hord]. apply andb_prop in H as [H Hprel]. apply andb_prop in H as [H Hdefs].
  apply andb_prop in H as [Hreg Hnodocs].
  split; [apply registry_ofb_sound; assumption|].
  split; [rewrite forallb_forall in Hdefs; exact Hdefs|].
  split; [exact Hprel|]. split; [apply order_resolvesb_sound; exact Hord|]. split; [exact Hrender|]. split.
  - intros d1 d2 sd1 sd2 H1 H2 E.
    apply (paths_nodupb_nth _ Hnd d1 d2 (sd_path sd1)).
    + apply map_nth_error. exact H1.
    + rewrite E. apply map_nth_error. exact H2.
  - intros k sd Hn Hcf. rewrite forallb_forall in Hper.
    specialize (Hper (k, sd)). cbn [fst snd] in Hper. rewrite Hcf in Hper. apply Hper.
    unfold defs_indexed. apply (nth_combine_seq _ 0%nat k sd Hn).
Qed.

(** on every case on which the boolean holds and the observed outcome of generation is the model's
    ([corr_gen]), the checker [prop_source_roundtrip] accepts *)
Theorem hyp_emission_sound c :
  hyp_emission_theorem c = true -> corr_gen (c5_tg c) = true -> prop_source_roundtrip c = true.
Proof.
  unfold hyp_emission_theorem, corr_gen, model_gen, model_items.
  set (r := tg_reg (c5_tg c)). set (s := settings_of (tg_spec (c5_tg c))).
  intros Hh Hcorr.
  assert (Hnot : forall o : obs tokens,
            (forall t, o <> OOk t) -> obs_eqb tokens_eqb o (tg_gen (c5_tg c)) = true ->
            prop_source_roundtrip c = true).
  { intros o Ho Heq. unfold prop_source_roundtrip. destruct (tg_gen (c5_tg c)) as [t| |]; try reflexivity.
    destruct o as [t'| |]; try discriminate Heq. exfalso. apply (Ho t'). reflexivity. }
  destruct (generate r s (Equal.types_equal r)) as [m|e|msg] eqn:Eg; cbn [bind] in Hcorr.
  - destruct (emit_module s m) as [toks|e|msg] eqn:Ee.
    + apply andb_prop in Hh as [Hplain Hstatic]. cbn [obs_of] in Hcorr.
      destruct (tg_gen (c5_tg c)) as [t| |] eqn:Eo; try discriminate Hcorr. cbn [obs_eqb] in Hcorr.
      apply (list_eqb_sound String.eqb) in Hcorr; [|intros a b; apply String.eqb_eq]. subst t.
      destruct (emission_static_okb_sound c Hstatic) as (HR & Hdefs & Hprel & Hord & Hrender & Hpaths & Hper).
      apply (prop_source_roundtrip_of_model c (order_tp_of s) (Equal.types_equal r) m toks HR Hdefs Hprel Hord
               Hrender Hpaths); try assumption.
      intros k sd Hn Hcf. apply (def_emission_okb_sound c k sd (Hper k sd Hn Hcf)).
    + apply (Hnot (obs_of (Err e))); [|exact Hcorr]. intros t. destruct e; discriminate.
    + apply (Hnot (obs_of (Panic msg))); [|exact Hcorr]. intros t. discriminate.
  - apply (Hnot (obs_of (Err e))); [|exact Hcorr]. intros t. destruct e; discriminate.
  - apply (Hnot (obs_of (Panic msg))); [|exact Hcorr]. intros t. discriminate.
Qed.

(** * 9. all instantiations of one definition print one and the same item (up to derives / docs):
    [one_item_full] (C05_one_item) carried through the emission; no plainness needed *)
Theorem one_stripped_item defs L r s (otp : bool -> tpath) :
  RegistryOf defs L r -> (forall sd, In sd defs -> def_okb s sd = true) ->
  prelude_okb s = true -> order_resolves s otp ->
  forall d sd, nth_error defs d = Some sd ->
  forallb (fun f => no_cow_cow (sf_ty f)) (def_sfields sd) = true -> box_names_okb defs sd = true ->
  forall args1 args2 t1 t2 flat1 flat2 ir1 ir2,
  instantiation_cf defs sd args1 = true -> map canon args1 = args1 -> compact_fields_okb defs sd args1 = true ->
  instantiation_cf defs sd args2 = true -> map canon args2 = args2 -> compact_fields_okb defs sd args2 = true ->
  entry_of defs L r (SApp d args1) t1 -> entry_of defs L r (SApp d args2) t2 ->
  create_type_ir r s t1 flat1 = Ok (Some ir1) -> create_type_ir r s t2 flat2 = Ok (Some ir2) ->
  strip_item (item_of_ir s ir1) = strip_item (item_of_ir s ir2).
Proof.
  intros HR Hdefs Hprel Hord d sd Hsd Hfrag Hbox args1 args2 t1 t2 flat1 flat2 ir1 ir2
         Hcf1 Hcan1 Hco1 Hcf2 Hcan2 Hco2 He1 He2 Hc1 Hc2.
  rewrite <- (strip_item_erase s ir1), <- (strip_item_erase s ir2).
  rewrite (one_item_full defs L r s otp HR Hdefs Hprel Hord d sd Hsd Hfrag Hbox args1 args2 t1 t2 flat1 flat2 ir1 ir2
             Hcf1 Hcan1 Hco1 Hcf2 Hcan2 Hco2 He1 He2 Hc1 Hc2).
  reflexivity.
Qed.
