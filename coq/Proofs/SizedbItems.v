(** The by-value edges of the generated items ([item_edge], Model/Sized.v) are edges of the graph
    the run-time checker [sizedb] explores on the tree [pmod_of_items s m] (which, by
    C02_emit_parses, is the parse of the emitted tokens) - for every exposure table.  With the
    soundness of the search (Proofs/SizedbSound.v): when [sizedb] accepts that tree, the generated
    items have no by-value cycle. *)
From Coq Require Import List NArith String Bool Lia.
From V Require Import Base.Util Base.Strings Base.Result Model.Registry Model.Settings Model.Subst
  Model.TypePath Model.Derives Model.Generate Model.Emit Model.WellFormed
  Checkers.Parse Checkers.Sem Model.Unparse Model.UnparseClosed Model.Sized
  Proofs.TpMap Proofs.ParseTy Proofs.ParseClosed Proofs.SizedbSound.
Import ListNotations.
Open Scope string_scope. Open Scope list_scope.

(** ** heads *)
Lemma heap_head_shape alloc names :
  is_heap_head alloc names = true ->
  exists h1 h2, names = alloc ++ [h1; h2] /\ In h1 ["vec"; "boxed"; "string"; "collections"].
Proof.
  unfold is_heap_head. intros H. apply existsb_exists in H as (h & Hin & E).
  apply names_eqb_eq in E. subst names. unfold heap_heads in Hin. cbn [In] in Hin.
  repeat (destruct Hin as [<-|Hin]; [eexists _, _; split; [reflexivity|cbn [In]; tauto]|]).
  destruct Hin.
Qed.

Lemma three_not_heap alloc a b c :
  ~ In b ["vec"; "boxed"; "string"; "collections"] -> is_heap_head alloc [a; b; c] = false.
Proof.
  intros Hb. destruct (is_heap_head alloc [a; b; c]) eqn:E; [|reflexivity]. exfalso.
  apply heap_head_shape in E as (h1 & h2 & E & Hh).
  destruct alloc as [|x [|y l]]; cbn [app] in E.
  - discriminate.
  - inversion E; subst. exact (Hb Hh).
  - inversion E as [[Ea Eb Ec]]. destruct l as [|z [|z' l]]; discriminate.
Qed.

Definition transparent_names : list (list string) :=
  [["core"; "option"; "Option"]; ["core"; "result"; "Result"]; ["core"; "ops"; "Range"];
   ["core"; "ops"; "RangeInclusive"]].

Lemma transparent_toks_segs toks :
  transparent_toksb toks = true ->
  exists names, In names transparent_names /\ path_segs toks = Some (true, names).
Proof.
  unfold transparent_toksb, transparent_paths. intros H. apply existsb_exists in H as (p & Hin & E).
  apply (list_eqb_sound String.eqb) in E; [|intros x y Hxy; apply String.eqb_eq; exact Hxy].
  subst p. cbn [In] in Hin.
  repeat (destruct Hin as [<-|Hin];
          [eexists; split; [|vm_compute; reflexivity]; cbn [In transparent_names]; tauto|]).
  destruct Hin.
Qed.

Lemma transparent_names_heads alloc names :
  In names transparent_names -> is_heap_head alloc names = false /\ is_transparent_head alloc names = true.
Proof.
  unfold transparent_names. cbn [In].
  intros [<-|[<-|[<-|[<-|[]]]]]; (split; [apply three_not_heap; cbn [In]; intros H;
    repeat (destruct H as [H|H]; [discriminate H|]); exact H|]);
    unfold is_transparent_head; cbn [existsb];
    repeat match goal with
           | |- context [names_eqb ?a ?b] =>
               let v := eval vm_compute in (names_eqb a b) in
               change (names_eqb a b) with v
           end; reflexivity.
Qed.

Section Atoms.
  Variables (root : string) (alloc : list string) (compact : option (list string)) (cut_heap : bool).
  Variable mx : pmod.

  Notation bv := (byval root alloc compact cut_heap mx).

  (** the body of [byval] on a path, with the per-segment atoms as an argument *)
  Definition byval_body (leading : bool) (segs : list (string * list pty))
             (per_seg : list (list (list bv_atom))) : list bv_atom :=
    let names := map fst segs in
    let last_args := last per_seg [] in
    let all_args := List.concat (List.concat per_seg) in
    if leading then
      if is_heap_head alloc names then (if cut_heap then [] else all_args)
      else if is_transparent_head alloc names then all_args
      else if is_compact_head compact names then all_args
      else []
    else
      match segs with
      | [(n, [])] => [BVParam n]
      | _ =>
          match names with
          | r0 :: p =>
              if String.eqb r0 root then
                match p with
                | [] => []
                | _ =>
                    BVItem p ::
                    match lookup_item mx p with
                    | Some it =>
                        List.concat (map (fun ga : string * list bv_atom =>
                                       if String.eqb (fst ga) "" then [] else snd ga)
                                    (combine (pi_generics it) last_args))
                    | None => all_args
                    end
                end
              else if is_compact_head compact names then all_args
              else []
          | [] => []
          end
      end.

  Lemma byval_PPath l segs :
    bv (PPath l segs) = byval_body l segs (map (fun sa => map bv (snd sa)) segs).
  Proof.
    assert (E : forall sg : list (string * list pty),
      (fix go (x : list (string * list pty)) : list (list (list bv_atom)) :=
         match x with
         | [] => []
         | (_, aa) :: x' =>
             (fix go2 (p : list pty) : list (list bv_atom) :=
                match p with [] => [] | u :: p' => bv u :: go2 p' end) aa :: go x'
         end) sg = map (fun sa => map bv (snd sa)) sg).
    { induction sg as [|[n aa] sg IH]; [reflexivity|]. cbn [map snd]. rewrite <- IH. reflexivity. }
    rewrite <- E. reflexivity.
  Qed.

  Lemma byval_PTuple xs : bv (PTuple xs) = flat_map bv xs.
  Proof. reflexivity. Qed.

  Lemma byval_PArray x n : bv (PArray x n) = bv x.
  Proof. reflexivity. Qed.

  (** paths built by [mk_ppath] *)
  Lemma mk_names pre x (args : list pty) : map fst (map seg0 pre ++ [(x, args)]) = pre ++ [x].
  Proof.
    rewrite map_app, map_map. cbn [map fst seg0]. f_equal.
    rewrite <- (map_id pre) at 2. apply map_ext. reflexivity.
  Qed.

  Lemma all_args_in pre x args u a :
    In u args -> In a (bv u) ->
    In a (List.concat (List.concat (map (fun sa => map bv (snd sa)) (map seg0 pre ++ [(x, args)])))).
  Proof.
    intros Hu Ha. apply in_concat. exists (bv u). split; [|exact Ha].
    apply in_concat. exists (map bv args). split; [|apply in_map; exact Hu].
    rewrite map_app. apply in_or_app. right. left. reflexivity.
  Qed.

  Lemma not_single {A} (segs : list (string * list pty)) (a : string -> A) (b : A) :
    (forall n, segs <> [(n, [])]) ->
    match segs with [(n, [])] => a n | _ => b end = b.
  Proof.
    intros H. destruct segs as [|[n [|u aa]] [|s2 segs']]; try reflexivity.
    exfalso. exact (H n eq_refl).
  Qed.

  (** a leading path with a transparent or compact head passes its arguments through *)
  Lemma byval_leading_args pre x args u a :
    is_heap_head alloc (pre ++ [x]) = false ->
    is_transparent_head alloc (pre ++ [x]) = true \/ is_compact_head compact (pre ++ [x]) = true ->
    In u args -> In a (bv u) -> In a (bv (PPath true (map seg0 pre ++ [(x, args)]))).
  Proof.
    intros Hh Ht Hu Ha. rewrite byval_PPath. unfold byval_body. cbv zeta. rewrite mk_names, Hh.
    pose proof (all_args_in pre x args u a Hu Ha) as Hin.
    destruct (is_transparent_head alloc (pre ++ [x])); [exact Hin|].
    destruct Ht as [Ht|Ht]; [discriminate|]. rewrite Ht. exact Hin.
  Qed.

  (** a path rooted at the types module is an item atom *)
  Lemma byval_rooted pre x args p :
    pre ++ [x] = root :: p -> p <> [] ->
    In (BVItem p) (bv (PPath false (map seg0 pre ++ [(x, args)]))).
  Proof.
    intros E Hp. rewrite byval_PPath. unfold byval_body. cbv zeta. rewrite mk_names, E.
    rewrite not_single.
    - rewrite String.eqb_refl. destruct p as [|p0 p']; [congruence|]. left. reflexivity.
    - intros n Hn. destruct pre as [|y pre].
      + cbn [app] in E. inversion E; subst. congruence.
      + cbn [map app] in Hn. inversion Hn as [[Hy Hrest]].
        destruct pre; discriminate.
  Qed.

  (** a relative path with a compact head that is not rooted passes its arguments through *)
  Lemma byval_rel_compact pre x args u a :
    args <> [] -> hd_error (pre ++ [x]) <> Some root ->
    is_compact_head compact (pre ++ [x]) = true ->
    In u args -> In a (bv u) -> In a (bv (PPath false (map seg0 pre ++ [(x, args)]))).
  Proof.
    intros Hne Hr Hc Hu Ha. rewrite byval_PPath. unfold byval_body. cbv zeta. rewrite mk_names.
    pose proof (all_args_in pre x args u a Hu Ha) as Hin.
    rewrite not_single.
    - destruct (pre ++ [x]) as [|r0 p] eqn:E; [destruct pre; discriminate|].
      destruct (String.eqb r0 root) eqn:Er.
      + apply String.eqb_eq in Er. subst r0. exfalso. apply Hr. reflexivity.
      + rewrite Hc. exact Hin.
    - intros n Hn. destruct pre as [|y pre].
      + cbn [map app] in Hn. inversion Hn. congruence.
      + cbn [map app] in Hn. inversion Hn as [[Hy Hrest]]. destruct pre; discriminate.
  Qed.

  (** ** types *)
  Variable alloc_toks : tokens.

  (** the compact wrapper path [c] of a nested [Compact<..>] is read by the checker as a wrapper
      that holds its argument by value *)
  Definition compact_seen (c : tokens) : Prop :=
    exists l segs, path_segs c = Some (l, segs) /\
      is_compact_head compact segs = true /\
      (l = true -> is_heap_head alloc segs = false) /\
      (l = false -> hd_error segs <> Some root).

  Lemma byval_item_node : root <> ":" -> forall t,
    tp_plain t = true ->
    (forall i c, In (TCompact i false c) (subpaths t) -> compact_seen c) ->
    forall pb ps, pb <> [] -> In (TPath (rel_path (root :: pb)) ps) (bv_subpaths t) ->
    In (BVItem pb) (bv (ir_pty alloc_toks t)).
  Proof.
    intros Hroot.
    induction t as [p|ptoks params IH|o IH|n o IH|es IH|p|i f c IH|o st b IHo IHst] using tpath_ind';
      intros Hp Hc pb ps Hpb Hin; cbn [bv_subpaths] in Hin; try (destruct Hin; fail).
    - cbn [tp_plain] in Hp. apply andb_prop in Hp as [Hpp Hps]. unfold plain_path in Hpp.
      destruct (path_segs ptoks) as [[l segs]|] eqn:Es; [|discriminate].
      destruct (path_segs_spec _ _ _ Es) as (Et & Hne & _).
      change (ir_pty alloc_toks (TPath ptoks params))
        with (mk_ppath (path_segs ptoks) [] (map (ir_pty alloc_toks) params)).
      rewrite Es.
      destruct (mk_ppath_some l segs [] (map (ir_pty alloc_toks) params)) as (pre & x & Epx & ->);
        [rewrite app_nil_r; exact Hne|]. rewrite app_nil_r in Epx.
      destruct Hin as [E|Hin].
      + injection E as E1 E2. rewrite E1 in Et. destruct l.
        * exfalso. unfold print_path in Et. destruct segs as [|s0 segs]; [congruence|].
          cbn [abs_path flat_map app rel_path] in Et. inversion Et. congruence.
        * unfold print_path in Et.
          change (rel_path (root :: pb) = rel_path segs) in Et.
          apply ParseClosed.rel_path_inj in Et. subst segs.
          apply byval_rooted; [symmetry; exact Epx|exact Hpb].
      + destruct (transparent_toksb ptoks) eqn:Ett; [|destruct Hin].
        destruct (transparent_toks_segs _ Ett) as (names & Hn & Es').
        rewrite Es in Es'. assert (El : l = true) by congruence.
        assert (Esg : segs = names) by congruence. clear Es'. subst l.
        destruct (transparent_names_heads alloc names Hn) as [Hh Htr].
        apply in_flat_map in Hin as (c & Hcin & Hin).
        rewrite Forall_forall in IH. rewrite forallb_forall in Hps.
        apply (byval_leading_args pre x _ (ir_pty alloc_toks c)).
        * rewrite <- Epx, Esg. exact Hh.
        * left. rewrite <- Epx, Esg. exact Htr.
        * apply in_map. exact Hcin.
        * refine (IH c Hcin (Hps c Hcin) _ pb ps Hpb Hin).
          intros i0 c0 Hi0. apply (Hc i0 c0). cbn [subpaths]. right. apply in_flat_map.
          exists c. split; assumption.
    - cbn [tp_plain] in Hp. cbn [ir_pty]. rewrite byval_PArray.
      refine (IH Hp _ pb ps Hpb Hin).
      intros i0 c0 Hi0. apply (Hc i0 c0). cbn [subpaths]. right. exact Hi0.
    - cbn [tp_plain] in Hp.
      change (ir_pty alloc_toks (TTuple es)) with (PTuple (map (ir_pty alloc_toks) es)).
      rewrite byval_PTuple. apply in_flat_map in Hin as (c & Hcin & Hin).
      rewrite Forall_forall in IH. rewrite forallb_forall in Hp.
      apply in_flat_map. exists (ir_pty alloc_toks c). split; [apply in_map; exact Hcin|].
      refine (IH c Hcin (Hp c Hcin) _ pb ps Hpb Hin).
      intros i0 c0 Hi0. apply (Hc i0 c0). cbn [subpaths]. right. apply in_flat_map.
      exists c. split; assumption.
    - cbn [tp_plain] in Hp. apply andb_prop in Hp as [Hpc Hpi].
      assert (Hsub : forall i0 c0, In (TCompact i0 false c0) (subpaths i) -> compact_seen c0).
      { intros i0 c0 Hi0. apply (Hc i0 c0). cbn [subpaths]. right. exact Hi0. }
      specialize (IH Hpi Hsub pb ps Hpb Hin).
      cbn [ir_pty]. destruct f; [exact IH|].
      destruct (Hc i c (or_introl eq_refl)) as (l & segs & Es & Hch & Hlt & Hlf).
      rewrite Es. destruct (path_segs_spec _ _ _ Es) as (_ & Hne & _).
      destruct (mk_ppath_some l segs [] [ir_pty alloc_toks i]) as (pre & x & Epx & ->);
        [rewrite app_nil_r; exact Hne|]. rewrite app_nil_r in Epx.
      destruct l.
      + apply (byval_leading_args pre x _ (ir_pty alloc_toks i)).
        * rewrite <- Epx. apply Hlt. reflexivity.
        * right. rewrite <- Epx. exact Hch.
        * left. reflexivity.
        * exact IH.
      + apply (byval_rel_compact pre x _ (ir_pty alloc_toks i)).
        * discriminate.
        * rewrite <- Epx. apply Hlf. reflexivity.
        * rewrite <- Epx. exact Hch.
        * left. reflexivity.
        * exact IH.
  Qed.
End Atoms.

(** ** items *)
Lemma bv_subpaths_sub : forall t x, In x (bv_subpaths t) -> In x (subpaths t).
Proof.
  induction t as [p|ptoks params IH|o IH|n o IH|es IH|p|i f c IH|o st b IHo IHst] using tpath_ind';
    intros x Hin; cbn [bv_subpaths] in Hin; try (destruct Hin; fail).
  - destruct Hin as [<-|Hin]; [left; reflexivity|].
    destruct (transparent_toksb ptoks); [|destruct Hin].
    apply in_flat_map in Hin as (c & Hc & Hin). cbn [subpaths]. right. apply in_flat_map.
    exists c. split; [exact Hc|]. rewrite Forall_forall in IH. exact (IH c Hc x Hin).
  - cbn [subpaths]. right. exact (IH x Hin).
  - apply in_flat_map in Hin as (c & Hc & Hin). cbn [subpaths]. right. apply in_flat_map.
    exists c. split; [exact Hc|]. rewrite Forall_forall in IH. exact (IH c Hc x Hin).
  - cbn [subpaths]. right. exact (IH x Hin).
Qed.

Section Items.
  Variable s : settings.
  Variable m : items.
  Variables (alloc : list string) (compact : option (list string)) (cut_heap : bool).
  Hypothesis Hclosed : ir_closed s m.
  Hypothesis Hplain : items_plain s m = true.
  Hypothesis Hroot : s_root s <> ":".
  (** every nested compact wrapper path of a field is seen by the checker as a by-value wrapper *)
  Hypothesis Hcompact : forall p id ir, In (p, (id, ir)) m ->
    forall f, In f (kind_fields (ti_kind ir)) ->
    forall i c, In (TCompact i false c) (subpaths (fi_path f)) ->
    compact_seen (s_root s) alloc compact c.

  Lemma item_edge_bedge mx pa pb :
    item_edge s m pa pb ->
    bedge (s_root s) alloc compact cut_heap (pmod_of_items s m) mx pa pb.
  Proof.
    intros (id & ir & f & params & Hm & Hf & Hbox & Hnode).
    pose proof (items_get_In_some m pa (id, ir) Hm) as Hin.
    destruct Hclosed as (_ & _ & _ & _ & Hitems).
    destruct (Hitems pa id ir Hin) as (_ & _ & (Hfields & _)).
    destruct (Hfields f Hf) as (_ & Hnodes).
    assert (Hpb : pb <> []).
    { pose proof (Hnodes _ (bv_subpaths_sub _ _ Hnode)) as Hnc. cbn [node_closed] in Hnc.
      destruct Hnc as (p' & id' & ir' & Ep & Hg' & _).
      { cbn [rel_path hd_is]. apply String.eqb_refl. }
      apply ParseClosed.rel_path_inj in Ep. inversion Ep; subst p'.
      apply items_get_In_some in Hg'. destruct (Hitems pb id' ir' Hg') as (Hne & _). exact Hne. }
    unfold bedge, bsucc, byval_succ. rewrite (lookup_items s m Hclosed pa id ir Hm).
    apply in_flat_map. exists (BVItem pb). split; [|left; reflexivity].
    unfold item_atoms. apply in_concat.
    exists (byval (s_root s) alloc compact cut_heap mx (field_pty s f)). split.
    - apply in_map. rewrite item_field_types_eq. apply in_or_app. left. apply in_map. exact Hf.
    - unfold field_pty, fi_emit_boxed. rewrite Hbox. cbn [andb].
      assert (Hpl : tp_plain (fi_path f) = true).
      { unfold items_plain in Hplain. rewrite forallb_forall in Hplain.
        specialize (Hplain _ Hin). cbn [snd] in Hplain.
        destruct (ir_plain_fields s ir Hplain) as [_ Hfl]. exact (Hfl f Hf). }
      apply (byval_item_node (s_root s) alloc compact cut_heap mx (alloc_tokens (s_alloc s)) Hroot
                             (fi_path f) Hpl (Hcompact pa id ir Hin f Hf) pb params Hpb Hnode).
  Qed.

  (** when the checker accepts the tree of the generated items, they have no by-value cycle *)
  Theorem sizedb_items_acyclic :
    sizedb (s_root s) alloc compact cut_heap (pmod_of_items s m) = true ->
    forall n p, ~ walk (item_edge s m) n p p.
  Proof.
    intros Hs n p W. apply (sizedb_sound _ _ _ _ _ Hs n p).
    revert W. generalize p at 1 3. generalize p.
    induction n as [|n IH]; intros a b W; cbn [walk] in *.
    - apply item_edge_bedge. exact W.
    - destruct W as (c & Hac & W). exists c. split; [apply item_edge_bedge; exact Hac|].
      apply IH. exact W.
  Qed.
End Items.
