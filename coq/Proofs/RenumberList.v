(** A duplicate-free list of in-range images is a renumbering (C17 examples):
    [perm_listb l = true] makes [pi_of_list l] a renumbering of [0, length l);
    the example permutations; the example registry has unique item paths. *)
From Coq Require Import List NArith String Bool Lia.
From V Require Import Base.Strings Base.Result Model.Registry Model.Settings Model.Subst
  Model.TypePath Model.Derives Model.Generate Model.Emit Model.Equal Model.Switches
  Model.Renumber Model.Inputs Model.ExamplesTG.
Import ListNotations.

(** ** positions [0, n) *)
Lemma seqN_length' n : List.length (seqN n) = n.
Proof. unfold seqN. rewrite map_length, seq_length. reflexivity. Qed.

Lemma in_seqN' n i : In i (seqN n) <-> (i < N.of_nat n)%N.
Proof.
  unfold seqN. rewrite in_map_iff. split.
  - intros (k & Hk & Hin). apply in_seq in Hin. lia.
  - intros H. exists (N.to_nat i). split; [apply N2Nat.id|]. apply in_seq. lia.
Qed.

(** ** what [perm_listb] decides *)
Lemma nodupb_NoDup : forall l : list N,
  (fix nodup (l : list N) : bool :=
     match l with [] => true | x :: l' => negb (existsb (N.eqb x) l') && nodup l' end) l = true ->
  NoDup l.
Proof.
  induction l as [|x l IH]; intros H; [constructor|].
  apply andb_true_iff in H as [Hx Hl]. constructor; [|apply IH; exact Hl].
  intros Hin. apply negb_true_iff in Hx.
  assert (E : existsb (N.eqb x) l = true).
  { apply existsb_exists. exists x. split; [exact Hin|apply N.eqb_refl]. }
  rewrite E in Hx. discriminate.
Qed.

Lemma perm_listb_spec l :
  perm_listb l = true ->
  (forall x, In x l -> (x < N.of_nat (List.length l))%N) /\ NoDup l.
Proof.
  unfold perm_listb. intros H. apply andb_true_iff in H as [Hr Hn]. split.
  - intros x Hx. rewrite forallb_forall in Hr. apply N.ltb_lt. apply Hr; exact Hx.
  - apply nodupb_NoDup; exact Hn.
Qed.

(** ** [pi_of_list] inside and outside the range *)
Lemma pi_of_list_in l i d :
  (N.to_nat i < List.length l)%nat -> pi_of_list l i = nth (N.to_nat i) l d.
Proof. intros H. unfold pi_of_list. apply nth_indep; exact H. Qed.

Lemma pi_of_list_out l i :
  (List.length l <= N.to_nat i)%nat -> pi_of_list l i = i.
Proof. intros H. unfold pi_of_list. apply nth_overflow; exact H. Qed.

Lemma pi_of_list_in_range l i :
  (forall x, In x l -> (x < N.of_nat (List.length l))%N) ->
  (N.to_nat i < List.length l)%nat -> (pi_of_list l i < N.of_nat (List.length l))%N.
Proof.
  intros Hr H. rewrite (pi_of_list_in l i 0%N H). apply Hr. apply nth_In; exact H.
Qed.

Theorem renumbering_of_list l :
  perm_listb l = true -> renumbering (N.of_nat (List.length l)) (pi_of_list l).
Proof.
  intros Hp. apply perm_listb_spec in Hp as [Hr Hnd].
  unfold renumbering. split; [|split].
  - (* injective *)
    intros i j E.
    destruct (PeanoNat.Nat.lt_ge_cases (N.to_nat i) (List.length l)) as [Hi|Hi];
      destruct (PeanoNat.Nat.lt_ge_cases (N.to_nat j) (List.length l)) as [Hj|Hj].
    + rewrite (pi_of_list_in l i 0%N Hi), (pi_of_list_in l j 0%N Hj) in E.
      apply N2Nat.inj. exact (proj1 (NoDup_nth l 0%N) Hnd _ _ Hi Hj E).
    + pose proof (pi_of_list_in_range l i Hr Hi) as Hlt.
      rewrite (pi_of_list_out l j Hj) in E. lia.
    + pose proof (pi_of_list_in_range l j Hr Hj) as Hlt.
      rewrite (pi_of_list_out l i Hi) in E. lia.
    + rewrite (pi_of_list_out l i Hi), (pi_of_list_out l j Hj) in E. exact E.
  - (* range *)
    intros i.
    destruct (PeanoNat.Nat.lt_ge_cases (N.to_nat i) (List.length l)) as [Hi|Hi].
    + pose proof (pi_of_list_in_range l i Hr Hi) as Hlt. split; intros _; [exact Hlt|lia].
    + rewrite (pi_of_list_out l i Hi). reflexivity.
  - (* onto *)
    intros j Hj.
    assert (Hin : In j l).
    { apply (NoDup_length_incl Hnd (l' := seqN (List.length l))).
      - rewrite seqN_length'. apply le_n.
      - intros x Hx. apply in_seqN'. apply Hr; exact Hx.
      - apply in_seqN'; exact Hj. }
    destruct (In_nth l j 0%N Hin) as (k & Hk & E).
    exists (N.of_nat k).
    assert (Hk' : (N.to_nat (N.of_nat k) < List.length l)%nat) by (rewrite Nat2N.id; exact Hk).
    rewrite (pi_of_list_in l (N.of_nat k) 0%N Hk'). rewrite Nat2N.id. exact E.
Qed.

(** ** the example permutations *)
Example ex_pi_renumbering : renumbering (N.of_nat (List.length ex_reg)) ex_pi.
Proof. exact (renumbering_of_list ex_pi_list eq_refl). Qed.

Example ex_pi1_renumbering : renumbering (N.of_nat (List.length ex_reg1)) ex_pi1.
Proof. exact (renumbering_of_list ex_pi1_list eq_refl). Qed.

(** ** the one-instantiation example registry has one entry per item path *)
Example ex_reg1_unique : unique_item_paths ex_reg1 ex_set.
Proof.
  intros e1 e2 H1 H2.
  unfold ex_reg1 in H1, H2. cbn [In] in H1, H2.
  repeat destruct H1 as [H1|H1]; try contradiction;
    repeat destruct H2 as [H2|H2]; try contradiction;
    subst e1 e2; intros I1 I2 P; try reflexivity;
    try (vm_compute in I1; discriminate I1);
    try (vm_compute in I2; discriminate I2);
    try (vm_compute in P; discriminate P).
Qed.
