(** Facts about the one-step identity normal form [ident1] (Model/Program1.v): it is a normal form
    for exactly the key scale-info interns by ([tid_key]); it refines [canon]; the
    coincidence-freeness of an instantiation on ids ([instantiation_cf1]) is implied by the one on
    [canon] forms ([instantiation_cf]). *)
From Coq Require Import List NArith String Bool Lia Arith.
From V Require Import Base.Util Base.Strings Base.Result Model.Registry Model.Program Model.ProgramSkel Model.Program1
  Proofs.SourceRoundTrip Proofs.RegistryOfSound.
Import ListNotations.
Open Scope string_scope. Open Scope list_scope.

(** ** [ident1] and the interning key *)
Definition key_src (k : tkey) : src :=
  match k with
  | KTy a => if identity_moves a then SBox a else a
  | KSlice a => SVec a
  | KStr => SPrimT PStr
  end.

Lemma key_src_tid_key t : key_src (tid_key t) = ident1 t.
Proof. destruct t; try reflexivity. destruct p; reflexivity. Qed.

Lemma tid_key_ident1 t : tid_key (ident1 t) = tid_key t.
Proof.
  destruct t; try reflexivity. cbn [ident1]. destruct (identity_moves t) eqn:E; [reflexivity|].
  destruct t; try discriminate E; try reflexivity. destruct p; try discriminate E; reflexivity.
Qed.

(** two source types are interned under one id exactly when their [ident1] forms coincide *)
Theorem ident1_key a b : ident1 a = ident1 b <-> tid_key a = tid_key b.
Proof.
  split; intros H.
  - rewrite <- (tid_key_ident1 a), <- (tid_key_ident1 b), H. reflexivity.
  - rewrite <- !key_src_tid_key, H. reflexivity.
Qed.

Lemma ident1_idem t : ident1 (ident1 t) = ident1 t.
Proof. apply ident1_key. apply tid_key_ident1. Qed.

Lemma canon_ident1 t : canon (ident1 t) = canon t.
Proof. destruct t; try reflexivity. cbn [ident1]. destruct (identity_moves t); reflexivity. Qed.

Lemma peel1_ident1 t : peel1 (ident1 t) = peel1 t.
Proof. destruct t; try reflexivity. cbn [ident1]. destruct (identity_moves t); reflexivity. Qed.

Lemma ident1_facts t : canon (ident1 t) = canon t /\ ident1 (ident1 t) = ident1 t /\ peel1 (ident1 t) = peel1 t.
Proof. exact (conj (canon_ident1 t) (conj (ident1_idem t) (peel1_ident1 t))). Qed.

Lemma ident1_canon_eq a b : ident1 a = ident1 b -> canon a = canon b.
Proof. intros H. rewrite <- (canon_ident1 a), <- (canon_ident1 b), H. reflexivity. Qed.

(** one step only: [Box<Box<T>>] keeps both boxes, [Box<T>] over a derived type loses its box *)
Example ident1_box_box t : ident1 (SBox (SBox t)) = SBox (SBox t).
Proof. reflexivity. Qed.
Example ident1_box_app d xs : ident1 (SBox (SApp d xs)) = SApp d xs.
Proof. reflexivity. Qed.
Example ident1_vec_box t : ident1 (SVec (SBox t)) = SVec (SBox t) /\ ident1 (SVecDeque (SBox t)) = SVec (SBox t).
Proof. split; reflexivity. Qed.
Example ident1_box_vec t : ident1 (SBox (SVec t)) <> ident1 (SVec t).
Proof. discriminate. Qed.
Example ident1_box_string : ident1 (SBox (SPrimT PStr)) <> ident1 (SPrimT PStr).
Proof. discriminate. Qed.

(** ** [instantiation_cf] implies [instantiation_cf1] *)
Lemma liveL_map (f : src -> src) : forall xs ps, liveL (map f xs) ps = map f (liveL xs ps).
Proof.
  induction xs as [|x xs IH]; intros ps; [reflexivity|].
  destruct ps as [|[n0 sk0] ps]; [reflexivity|].
  unfold liveL. cbn [map combine flat_map fst snd]. fold (liveL (map f xs) ps). fold (liveL xs ps).
  rewrite IH, map_app. destruct sk0; reflexivity.
Qed.

Lemma existsb_src_map_inv (g : src -> src) y l :
  existsb (src_eqb y) (map g l) = true -> exists x, In x l /\ y = g x.
Proof.
  intros H. apply existsb_exists in H as (z & Hz & E). apply src_eqb_sound in E. subst z.
  apply in_map_iff in Hz as (x & Hx & Hin). exists x. split; [exact Hin|symmetry; exact Hx].
Qed.

Lemma nodupb_map_weaken (f g : src -> src) :
  (forall x y, g x = g y -> f x = f y) ->
  forall l, nodupb (map f l) = true -> nodupb (map g l) = true.
Proof.
  intros Hfg. induction l as [|x l IH]; intros H; [reflexivity|].
  cbn [map nodupb] in *. apply andb_prop in H as [H1 H2]. rewrite (IH H2), andb_true_r.
  apply negb_true_iff. apply negb_true_iff in H1.
  destruct (existsb (src_eqb (g x)) (map g l)) eqn:E; [|reflexivity].
  apply existsb_src_map_inv in E as (y & Hy & E). apply Hfg in E.
  rewrite <- H1. symmetry. apply existsb_exists. exists (f y). split; [apply in_map; exact Hy|].
  rewrite E. apply src_eqb_refl.
Qed.

Lemma cf1_unfold defs d args :
  instantiation_cf1 defs d args =
  skipped_unused defs d &&
  (nodupb (liveL (map ident1 args) (sd_params d)) &&
   forallb (fun ft =>
              negb (wrapper_on_param defs ft) &&
              forallb (fun c => is_param c ||
                                negb (existsb (src_eqb (ident1 (subst_src args c))) (liveL (map ident1 args) (sd_params d))))
                      (components defs ft)) (def_field_types d)).
Proof. reflexivity. Qed.

Theorem cf_cf1 defs d args : instantiation_cf defs d args = true -> instantiation_cf1 defs d args = true.
Proof.
  intros H. destruct (cf_inv _ _ _ H) as (H1 & H2 & H3). rewrite cf1_unfold, H1. cbn [andb].
  rewrite liveL_map in H2. rewrite liveL_map.
  rewrite (nodupb_map_weaken canon ident1 ident1_canon_eq _ H2). cbn [andb].
  apply forallb_forall. intros ft Hft. destruct (H3 ft Hft) as (Hw & Hc). rewrite Hw. cbn [negb andb].
  apply forallb_forall. intros c Hcin. destruct (is_param c) eqn:Ep; [reflexivity|]. cbn [orb].
  apply negb_true_iff.
  destruct (existsb (src_eqb (ident1 (subst_src args c))) (map ident1 (liveL args (sd_params d)))) eqn:E; [|reflexivity].
  exfalso. apply existsb_src_map_inv in E as (a & Ha & E). apply ident1_canon_eq in E.
  apply (Hc c Hcin Ep (canon a)); [rewrite liveL_map; apply in_map; exact Ha|exact E].
Qed.
