(** characterising lemmas of [syn_type_path_key] (the model of [syn::parse_str::<TypePath>]
    on a joined registry path); later proofs depend on these, not on the definition *)
From Coq Require Import List String Bool.
From V Require Import Base.Util Base.Result Base.Strings Model.Derives.
Import ListNotations.
Open Scope string_scope.

Lemma ident_okb_path_seg x : ident_okb x = true -> path_seg_okb x = true.
Proof.
  unfold ident_okb, path_seg_okb. intros H. apply andb_prop in H as [H Hk]. rewrite H, Hk. reflexivity.
Qed.

Lemma path_seg_lexb x : path_seg_okb x = true -> ident_lexb x = true.
Proof.
  unfold path_seg_okb. intros H. apply andb_prop in H as [H _]. apply andb_prop in H as [H _]. exact H.
Qed.

Lemma forallb_seg_lexb l : forallb path_seg_okb l = true -> forallb ident_lexb l = true.
Proof.
  intros H. rewrite forallb_forall in *. intros x Hx. apply path_seg_lexb. apply H. exact Hx.
Qed.

Lemma ident_okb_nonempty x : ident_okb x = true -> x <> "".
Proof. intros H E; subst x. discriminate. Qed.

Lemma forallb_okb_seg l : forallb ident_okb l = true -> forallb path_seg_okb l = true.
Proof.
  intros H. rewrite forallb_forall in *. intros x Hx. apply ident_okb_path_seg. apply H. exact Hx.
Qed.

(** outcome: [Ok (path_key p)] or [Err ESynParse], never a panic *)
Lemma syn_key_cases p :
  syn_type_path_key p = Ok (path_key p) \/ syn_type_path_key p = Err ESynParse.
Proof.
  unfold syn_type_path_key. destruct p as [|a p]; [right; reflexivity|].
  repeat match goal with
         | |- context [if ?b then _ else _] => destruct b
         | |- context [match ?x with _ => _ end] => destruct x
         end; auto.
Qed.

Lemma syn_key_ok_eq p k : syn_type_path_key p = Ok k -> p <> [] /\ k = path_key p.
Proof.
  intros H. split.
  - intros E; subst p. discriminate.
  - destruct (syn_key_cases p) as [E|E]; rewrite E in H; inversion H; reflexivity.
Qed.

Lemma syn_key_err p e : syn_type_path_key p = Err e -> e = ESynParse.
Proof.
  intros H. destruct (syn_key_cases p) as [E|E]; rewrite E in H; inversion H; reflexivity.
Qed.

Lemma syn_key_no_panic p m : syn_type_path_key p <> Panic m.
Proof.
  intros H. destruct (syn_key_cases p) as [E|E]; rewrite E in H; discriminate.
Qed.

(** on well-formed paths (every segment an identifier) the key exists *)
Lemma syn_key_wf p : p <> [] -> forallb ident_okb p = true -> syn_type_path_key p = Ok (path_key p).
Proof.
  intros Hp H. destruct p as [|a p']; [congruence|]. unfold syn_type_path_key.
  assert (Ha : a <> "").
  { apply ident_okb_nonempty. cbn [forallb] in H. apply andb_prop in H as [H _]. exact H. }
  rewrite (forallb_okb_seg _ H).
  destruct a as [|c a']; [congruence|]. reflexivity.
Qed.
