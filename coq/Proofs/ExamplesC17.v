(** C17: the theorems of Proofs/Equivariance.v evaluated on a concrete registry
    (generic struct with two instantiations and a generic enum in nested modules,
    a sequence, a compact field) and a concrete permutation of its ids. *)
From Coq Require Import List NArith String Bool Permutation.
From V Require Import Base.Strings Base.Result Model.Registry Model.Settings Model.Subst
  Model.TypePath Model.Derives Model.Generate Model.Emit Model.Equal Model.Switches Model.Renumber
  Model.Inputs Model.ExamplesTG Model.Shape Model.Families Model.ExamplesFam
  Proofs.GenProofs Proofs.ItemsCanonical Proofs.RenumberPerm Proofs.Equivariance Proofs.RenumberList
  Proofs.PermFamilies.
Import ListNotations.
Open Scope string_scope. Open Scope list_scope. Open Scope N_scope.

(** lookup in the renumbered registry *)
Example ex_resolve_renumber :
  Forall (fun id => resolve (renumber ex_pi ex_reg) (ex_pi id) =
                    option_map (rename_ty ex_pi) (resolve ex_reg id)) [0; 1; 2; 3; 4; 5; 6; 7; 8; 9] /\
  renumber ex_pi ex_reg <> ex_reg.
Proof. split; [repeat constructor|intros H; discriminate H]. Qed.

(** resolution of [a::Top]'s field types, in both registries *)
Example ex_resolve_equivariant :
  resolve_type_path (renumber ex_pi ex_reg) ex_set (ex_pi 5) =
  rmap_e ex_pi (map_ids ex_pi) (resolve_type_path ex_reg ex_set 5) /\
  is_ok (resolve_type_path ex_reg ex_set 5) = true /\
  resolve_rec (renumber ex_pi ex_reg) ex_set 9 (ex_pi 2) true
              (map (rename_tpi ex_pi) [mk_tpi 0 "T" 0]) None =
  rmap_e ex_pi (map_ids ex_pi) (resolve_rec ex_reg ex_set 9 2 true [mk_tpi 0 "T" 0] None).
Proof. vm_compute. repeat split; reflexivity. Qed.


(** the IR of the generic enum (entry 4) and its tokens *)
Example ex_create_type_ir_equivariant :
  let t := snd (nth 4 ex_reg dummy_entry) in
  create_type_ir (renumber ex_pi ex_reg) ex_set (rename_ty ex_pi t) ex_flat =
  rmap_e ex_pi (option_map (rename_ir ex_pi)) (create_type_ir ex_reg ex_set t ex_flat) /\
  match create_type_ir ex_reg ex_set t ex_flat with
  | Ok (Some ir) =>
      type_ir_tokens ex_set (rename_ir ex_pi ir) = type_ir_tokens ex_set ir /\
      is_ok (type_ir_tokens ex_set ir) = true /\ rename_ir ex_pi ir <> ir
  | _ => False
  end.
Proof. vm_compute. repeat split; try reflexivity. intros H; discriminate H. Qed.

(** the full C17 statement on the registry with TWO instantiations of [a::b::Wrap]
    (a skeleton-consistent family; not covered by the partial theorem) *)
Example ex_permutation_tokens_two_instantiations :
  gen_emit (renumber ex_pi ex_reg) ex_set (types_equal (renumber ex_pi ex_reg)) =
  gen_emit ex_reg ex_set (types_equal ex_reg) /\
  is_ok (gen_emit ex_reg ex_set (types_equal ex_reg)) = true.
Proof. vm_compute. split; reflexivity. Qed.

(** the partial theorem applied: its hypotheses hold for [ex_reg1], [ex_pi1], [ex_set] *)
Example ex_permutation_tokens_partial m1 m2 :
  generate ex_reg1 ex_set (types_equal ex_reg1) = Ok m1 ->
  generate (renumber ex_pi1 ex_reg1) ex_set (types_equal (renumber ex_pi1 ex_reg1)) = Ok m2 ->
  emit_module ex_set m1 = emit_module ex_set m2.
Proof.
  intros H1 H2.
  exact (permutation_tokens_partial ex_pi1 ex_reg1 ex_set ex_pi1_renumbering _ _ m1 m2 eq_refl
                                    ex_reg1_unique H1 H2).
Qed.

Example ex_permutation_tokens_partial_ok :
  is_ok (generate ex_reg1 ex_set (types_equal ex_reg1)) = true /\
  is_ok (generate (renumber ex_pi1 ex_reg1) ex_set (types_equal (renumber ex_pi1 ex_reg1))) = true /\
  renumber ex_pi1 ex_reg1 <> ex_reg1.
Proof. vm_compute. repeat split; try reflexivity. intros H; discriminate H. Qed.

(** insertion order *)
Example ex_items_insert_canonical :
  let ir := mk_ti [] [] derives_empty false (KStruct (mk_ci "X" CNoFields [])) in
  let a := (["a"; "b"; "X"], (1, ir)) in
  let b := (["a"; "X"], (2, ir)) in
  let c := (["b"; "X"], (3, ir)) in
  insert_all [a; b; c] [] = insert_all [c; a; b] [] /\ insert_all [a; b; c] [] = [b; a; c].
Proof. vm_compute. split; reflexivity. Qed.

(** ** the full theorem (same-path families, recursive derives) *)
Example ex_pi_swap_renumbering : renumbering (N.of_nat (List.length ex_reg)) ex_pi_swap.
Proof. exact (renumbering_of_list ex_pi_swap_list eq_refl). Qed.

(** the hypotheses of [permutation_tokens] hold for [ex_reg] (two instantiations of
    [a::b::Wrap]) with the recursive-derive settings [ex_set_rec] *)
Example ex_family_hypotheses :
  skeleton_consistentb ex_reg ex_set_rec = true /\ docs_consistentb ex_reg ex_set_rec = true /\
  derives_functionalb ex_set_rec = true /\
  is_ok (generate ex_reg ex_set_rec (types_equal ex_reg)) = true /\
  is_ok (generate (renumber ex_pi_swap ex_reg) ex_set_rec (types_equal (renumber ex_pi_swap ex_reg))) = true.
Proof. vm_compute. repeat split; reflexivity. Qed.

(** ... the swap really changes which member is first, and the recursive derives arrive *)
Example ex_family_swapped :
  first_eligible ex_reg ex_set_rec ["a"; "b"; "Wrap"] = Some (nth 2 ex_reg dummy_entry) /\
  option_map fst (first_eligible (renumber ex_pi_swap ex_reg) ex_set_rec ["a"; "b"; "Wrap"]) = Some 5 /\
  ex_pi_swap 3 = 5 /\
  match gen_emit ex_reg ex_set_rec (types_equal ex_reg) with
  | Ok t => has "PartialEq" t && has "Hash" t && has "Eq" t && has "serde" t
  | _ => false
  end = true.
Proof. vm_compute. repeat split; reflexivity. Qed.

Example ex_permutation_tokens_family m1 m2 :
  generate ex_reg ex_set_rec (types_equal ex_reg) = Ok m1 ->
  generate (renumber ex_pi_swap ex_reg) ex_set_rec (types_equal (renumber ex_pi_swap ex_reg)) = Ok m2 ->
  emit_module ex_set_rec m1 = emit_module ex_set_rec m2.
Proof.
  destruct ex_family_hypotheses as (H1 & H2 & H3 & _).
  exact (permutation_tokens_b ex_pi_swap ex_reg ex_set_rec _ _ m1 m2 ex_pi_swap_renumbering H1 H2 H3).
Qed.

(** [docs_consistent] cannot be dropped: a family whose members differ in their docs only is
    skeleton-consistent ([erase_ids] forgets docs), both runs are [Ok], and the outputs differ *)
Example ex_docs_needed :
  skeleton_consistentb ex_reg_docs ex_set = true /\ docs_consistentb ex_reg_docs ex_set = false /\
  is_ok (gen_emit ex_reg_docs ex_set (types_equal ex_reg_docs)) = true /\
  is_ok (gen_emit (renumber ex_pi_swap ex_reg_docs) ex_set (types_equal (renumber ex_pi_swap ex_reg_docs))) = true /\
  gen_emit (renumber ex_pi_swap ex_reg_docs) ex_set (types_equal (renumber ex_pi_swap ex_reg_docs)) <>
  gen_emit ex_reg_docs ex_set (types_equal ex_reg_docs).
Proof. vm_compute. repeat split; try reflexivity. intros H; discriminate H. Qed.

Lemma family_hypotheses_satisfiable :
  exists pi r s,
    renumbering (N.of_nat (List.length r)) pi /\
    skeleton_consistentb r s = true /\ docs_consistentb r s = true /\ derives_functionalb s = true /\
    dr_recursive (s_dreg s) <> [] /\ ~ unique_item_paths r s /\
    is_ok (generate r s (types_equal r)) = true /\
    is_ok (generate (renumber pi r) s (types_equal (renumber pi r))) = true.
Proof.
  exists ex_pi_swap, ex_reg, ex_set_rec.
  destruct ex_family_hypotheses as (H1 & H2 & H3 & H4 & H5).
  split; [exact ex_pi_swap_renumbering|]. repeat (split; [assumption|]).
  split; [discriminate|]. split; [|split; assumption].
  intros Hu.
  assert (E : nth 2 ex_reg dummy_entry = nth 3 ex_reg dummy_entry).
  { apply Hu; [cbn; tauto|cbn; tauto|reflexivity|reflexivity|reflexivity]. }
  discriminate E.
Qed.

Lemma docs_hypothesis_needed :
  exists pi r s,
    renumbering (N.of_nat (List.length r)) pi /\ skeleton_consistent r s /\ derives_functional s /\
    exists m1 m2, generate r s (types_equal r) = Ok m1 /\
                  generate (renumber pi r) s (types_equal (renumber pi r)) = Ok m2 /\
                  emit_module s m1 <> emit_module s m2.
Proof.
  exists ex_pi_swap, ex_reg_docs, ex_set.
  split; [exact (renumbering_of_list ex_pi_swap_list eq_refl)|].
  split; [apply ShapeBool.skeleton_consistentb_sound; vm_compute; reflexivity|].
  split; [apply derives_functionalb_sound; vm_compute; reflexivity|].
  destruct (generate ex_reg_docs ex_set (types_equal ex_reg_docs)) as [m1|e|m] eqn:G1;
    [|vm_compute in G1; discriminate G1|vm_compute in G1; discriminate G1].
  destruct (generate (renumber ex_pi_swap ex_reg_docs) ex_set (types_equal (renumber ex_pi_swap ex_reg_docs)))
    as [m2|e|m] eqn:G2; [|vm_compute in G2; discriminate G2|vm_compute in G2; discriminate G2].
  exists m1, m2. split; [reflexivity|]. split; [reflexivity|].
  vm_compute in G1. vm_compute in G2. inversion G1; subst m1. inversion G2; subst m2.
  vm_compute. intros H; discriminate H.
Qed.

(** ** restriction (Proofs/Restriction.v) *)
From V Require Import Proofs.Restriction.

Example ex_pi_keep_renumbering : renumbering (N.of_nat (List.length ex_reg)) ex_pi_keep.
Proof. exact (renumbering_of_list ex_pi_keep_list eq_refl). Qed.

(** the sub-registry retained from [a::c::E]: 5 entries, closed, ids = positions; the two runs
    are [Ok]; the retained module has the items [a::b::Wrap] and [a::c::E] (not [a::Top]) *)
Example ex_restriction_hypotheses :
  List.length (restrict ex_pi_keep ex_keep_k ex_reg) = 5%nat /\
  closed_reg (restrict ex_pi_keep ex_keep_k ex_reg) = true /\
  ids_consistent (restrict ex_pi_keep ex_keep_k ex_reg) = true /\
  skeleton_consistentb ex_reg ex_set_rec2 = true /\ docs_consistentb ex_reg ex_set_rec2 = true /\
  derives_functionalb ex_set_rec2 = true /\
  no_outside_rootsb (dr_recursive (s_dreg ex_set_rec2)) (dropped ex_pi_keep ex_keep_k ex_reg) = true /\
  rmap (map fst) (generate ex_reg ex_set_rec2 (types_equal ex_reg)) =
    Ok [["a"; "Top"]; ["a"; "b"; "Wrap"]; ["a"; "c"; "E"]] /\
  rmap (map fst) (generate (restrict ex_pi_keep ex_keep_k ex_reg) ex_set_rec2
                           (types_equal (restrict ex_pi_keep ex_keep_k ex_reg))) =
    Ok [["a"; "b"; "Wrap"]; ["a"; "c"; "E"]].
Proof. vm_compute. repeat split; reflexivity. Qed.

Example ex_restriction_tokens m m' :
  generate ex_reg ex_set_rec2 (types_equal ex_reg) = Ok m ->
  generate (restrict ex_pi_keep ex_keep_k ex_reg) ex_set_rec2
           (types_equal (restrict ex_pi_keep ex_keep_k ex_reg)) = Ok m' ->
  forall p id' ir', items_get m' p = Some (id', ir') ->
    exists id ir, items_get m p = Some (id, ir) /\
                  type_ir_tokens ex_set_rec2 ir' = type_ir_tokens ex_set_rec2 ir.
Proof.
  destruct ex_restriction_hypotheses as (_ & _ & _ & H1 & H2 & H3 & H4 & _).
  exact (restriction_tokens_b ex_pi_keep ex_keep_k ex_reg ex_set_rec2 _ _ m m'
                              ex_pi_keep_renumbering H1 H2 H3 H4).
Qed.

Lemma restriction_hypotheses_satisfiable :
  exists pi k r s,
    renumbering (N.of_nat (List.length r)) pi /\
    skeleton_consistentb r s = true /\ docs_consistentb r s = true /\ derives_functionalb s = true /\
    no_outside_rootsb (dr_recursive (s_dreg s)) (dropped pi k r) = true /\
    dr_recursive (s_dreg s) <> [] /\ (List.length (restrict pi k r) < List.length r)%nat /\
    is_ok (generate r s (types_equal r)) = true /\
    is_ok (generate (restrict pi k r) s (types_equal (restrict pi k r))) = true.
Proof.
  exists ex_pi_keep, ex_keep_k, ex_reg, ex_set_rec2.
  destruct ex_restriction_hypotheses as (Hl & _ & _ & H1 & H2 & H3 & H4 & G & G').
  split; [exact ex_pi_keep_renumbering|]. repeat (split; [assumption|]).
  split; [discriminate|]. split; [rewrite Hl; cbn; repeat constructor|].
  split.
  - destruct (generate ex_reg ex_set_rec2 (types_equal ex_reg)); [reflexivity|discriminate G|discriminate G].
  - destruct (generate (restrict ex_pi_keep ex_keep_k ex_reg) ex_set_rec2
                       (types_equal (restrict ex_pi_keep ex_keep_k ex_reg)));
      [reflexivity|discriminate G'|discriminate G'].
Qed.
