(** C17: the theorems of Proofs/Equivariance.v evaluated on a concrete registry
    (generic struct with two instantiations and a generic enum in nested modules,
    a sequence, a compact field) and a concrete permutation of its ids. *)
From Coq Require Import List NArith String Bool Permutation.
From V Require Import Base.Strings Base.Result Model.Registry Model.Settings Model.Subst
  Model.TypePath Model.Derives Model.Generate Model.Emit Model.Equal Model.Switches Model.Renumber
  Model.Inputs Model.ExamplesTG
  Proofs.GenProofs Proofs.ItemsCanonical Proofs.RenumberPerm Proofs.Equivariance Proofs.RenumberList.
Import ListNotations.
Open Scope string_scope. Open Scope list_scope. Open Scope N_scope.

(** lookup in the renumbered registry *)
Example ex_resolve_renumber :
  Forall (fun id => resolve (renumber ex_pi ex_reg) (ex_pi id) =
                    option_map (rename_ty ex_pi) (resolve ex_reg id)) [0; 1; 2; 3; 4; 5; 6; 7; 8; 9] /\
  renumber ex_pi ex_reg <> ex_reg.
Proof. split; [repeat constructor|intros H; discriminate H]. Qed.

(** resolution of [a::Top]'s field types, in both registries *)
Example ex_resolve_equivariant :
  resolve_type_path (renumber ex_pi ex_reg) ex_set (ex_pi 5) =
  rmap_e ex_pi (map_ids ex_pi) (resolve_type_path ex_reg ex_set 5) /\
  is_ok (resolve_type_path ex_reg ex_set 5) = true /\
  resolve_rec (renumber ex_pi ex_reg) ex_set 9 (ex_pi 2) true
              (map (rename_tpi ex_pi) [mk_tpi 0 "T" 0]) None =
  rmap_e ex_pi (map_ids ex_pi) (resolve_rec ex_reg ex_set 9 2 true [mk_tpi 0 "T" 0] None).
Proof. vm_compute. repeat split; reflexivity. Qed.


(** the IR of the generic enum (entry 4) and its tokens *)
Example ex_create_type_ir_equivariant :
  let t := snd (nth 4 ex_reg dummy_entry) in
  create_type_ir (renumber ex_pi ex_reg) ex_set (rename_ty ex_pi t) ex_flat =
  rmap_e ex_pi (option_map (rename_ir ex_pi)) (create_type_ir ex_reg ex_set t ex_flat) /\
  match create_type_ir ex_reg ex_set t ex_flat with
  | Ok (Some ir) =>
      type_ir_tokens ex_set (rename_ir ex_pi ir) = type_ir_tokens ex_set ir /\
      is_ok (type_ir_tokens ex_set ir) = true /\ rename_ir ex_pi ir <> ir
  | _ => False
  end.
Proof. vm_compute. repeat split; try reflexivity. intros H; discriminate H. Qed.

(** the full C17 statement on the registry with TWO instantiations of [a::b::Wrap]
    (a skeleton-consistent family; not covered by the partial theorem) *)
Example ex_permutation_tokens_two_instantiations :
  gen_emit (renumber ex_pi ex_reg) ex_set (types_equal (renumber ex_pi ex_reg)) =
  gen_emit ex_reg ex_set (types_equal ex_reg) /\
  is_ok (gen_emit ex_reg ex_set (types_equal ex_reg)) = true.
Proof. vm_compute. split; reflexivity. Qed.

(** the partial theorem applied: its hypotheses hold for [ex_reg1], [ex_pi1], [ex_set] *)
Example ex_permutation_tokens_partial m1 m2 :
  generate ex_reg1 ex_set (types_equal ex_reg1) = Ok m1 ->
  generate (renumber ex_pi1 ex_reg1) ex_set (types_equal (renumber ex_pi1 ex_reg1)) = Ok m2 ->
  emit_module ex_set m1 = emit_module ex_set m2.
Proof.
  intros H1 H2.
  exact (permutation_tokens_partial ex_pi1 ex_reg1 ex_set ex_pi1_renumbering _ _ m1 m2 eq_refl
                                    ex_reg1_unique H1 H2).
Qed.

Example ex_permutation_tokens_partial_ok :
  is_ok (generate ex_reg1 ex_set (types_equal ex_reg1)) = true /\
  is_ok (generate (renumber ex_pi1 ex_reg1) ex_set (types_equal (renumber ex_pi1 ex_reg1))) = true /\
  renumber ex_pi1 ex_reg1 <> ex_reg1.
Proof. vm_compute. repeat split; try reflexivity. intros H; discriminate H. Qed.

(** insertion order *)
Example ex_items_insert_canonical :
  let ir := mk_ti [] [] derives_empty false (KStruct (mk_ci "X" CNoFields [])) in
  let a := (["a"; "b"; "X"], (1, ir)) in
  let b := (["a"; "X"], (2, ir)) in
  let c := (["b"; "X"], (3, ir)) in
  insert_all [a; b; c] [] = insert_all [c; a; b] [] /\ insert_all [a; b; c] [] = [b; a; c].
Proof. vm_compute. split; reflexivity. Qed.
