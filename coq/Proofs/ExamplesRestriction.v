(** C17, restriction outcome (Proofs/RestrictionOutcome.v) on the concrete registry of
    Model/ExamplesTG.v: the hypotheses of [restriction_outcome] are satisfiable with the real
    comparison [types_equal], and the converse direction is false (a dropped entry is the one
    that makes the full generation fail). *)
From Coq Require Import List NArith String Bool.
From V Require Import Base.Strings Base.Result Model.Registry Model.Settings Model.Subst
  Model.TypePath Model.Derives Model.Generate Model.Emit Model.Equal Model.Switches Model.Renumber
  Model.Inputs Model.ExamplesTG Model.Shape Model.Families Model.ExamplesFam
  Proofs.GenProofs Proofs.ItemsCanonical Proofs.RenumberPerm Proofs.Equivariance Proofs.RenumberList
  Proofs.PermFamilies Proofs.Restriction Proofs.ExamplesC17 Proofs.RestrictionOutcome.
Import ListNotations.
Open Scope string_scope. Open Scope list_scope. Open Scope N_scope.

(** the theorem applied with the real comparison oracle of the restricted registry *)
Example ex_restriction_outcome :
  exists m m',
    generate ex_reg ex_set_rec2 (types_equal ex_reg) = Ok m /\
    generate (restrict ex_pi_keep ex_keep_k ex_reg) ex_set_rec2
             (types_equal (restrict ex_pi_keep ex_keep_k ex_reg)) = Ok m' /\
    forall p id' ir', items_get m' p = Some (id', ir') ->
      exists id ir, items_get m p = Some (id, ir) /\
                    type_ir_tokens ex_set_rec2 ir' = type_ir_tokens ex_set_rec2 ir.
Proof.
  destruct ex_restriction_hypotheses as (_ & Hcl & _ & H1 & H2 & H3 & H4 & _).
  destruct (generate ex_reg ex_set_rec2 (types_equal ex_reg)) as [m|e|msg] eqn:G;
    [|vm_compute in G; discriminate G|vm_compute in G; discriminate G].
  exists m.
  destruct (restriction_outcome_b ex_pi_keep ex_keep_k ex_reg ex_set_rec2 (types_equal ex_reg)
              (types_equal (restrict ex_pi_keep ex_keep_k ex_reg)) m
              ex_pi_keep_renumbering H1 H2 H3 H4 Hcl) as (m' & G' & T).
  - apply fam_equalb_sound. vm_compute. reflexivity.
  - exact G.
  - exists m'. split; [reflexivity|]. split; [exact G'|exact T].
Qed.

(** the converse fails: the full registry has one more entry, a primitive whose path [9bad] is
    not a [syn] type path; with a recursive derive rule in the settings the flattening parses the
    path of EVERY entry and fails on it.  The entry is dropped by the restriction.  The restricted
    registry (= [ex_reg1]) is closed and generates, every hypothesis of [restriction_outcome]
    holds, the full generation fails for EVERY comparison oracle *)
Definition ex_reg_bad : registry :=
  ex_reg1 ++ [ (7, mk_ty ["9bad"] [] (TDPrimitive PU8) []) ].
Definition ex_pi_id_list : list N := [0; 1; 2; 3; 4; 5; 6; 7].
Definition ex_pi_id : N -> N := pi_of_list ex_pi_id_list.

Lemma restriction_outcome_converse_refuted :
  exists pi k r s,
    renumbering (N.of_nat (List.length r)) pi /\
    skeleton_consistentb r s = true /\ docs_consistentb r s = true /\ derives_functionalb s = true /\
    no_outside_rootsb (dr_recursive (s_dreg s)) (dropped pi k r) = true /\
    closed_reg (restrict pi k r) = true /\
    fam_equal (restrict pi k r) s (types_equal (restrict pi k r)) /\
    is_ok (generate (restrict pi k r) s (types_equal (restrict pi k r))) = true /\
    (forall teq, is_ok (generate r s teq) = false).
Proof.
  exists ex_pi_id, 7%nat, ex_reg_bad, ex_set_rec2.
  split; [exact (renumbering_of_list ex_pi_id_list eq_refl)|].
  split; [vm_compute; reflexivity|]. split; [vm_compute; reflexivity|].
  split; [vm_compute; reflexivity|]. split; [vm_compute; reflexivity|].
  split; [vm_compute; reflexivity|].
  split; [apply fam_equalb_sound; vm_compute; reflexivity|].
  split; [vm_compute; reflexivity|].
  intros teq. vm_compute. reflexivity.
Qed.

Lemma restriction_outcome_satisfiable :
  exists pi k r s,
    renumbering (N.of_nat (List.length r)) pi /\
    skeleton_consistentb r s = true /\ docs_consistentb r s = true /\ derives_functionalb s = true /\
    no_outside_rootsb (dr_recursive (s_dreg s)) (dropped pi k r) = true /\
    closed_reg (restrict pi k r) = true /\
    fam_equalb (restrict pi k r) s (types_equal (restrict pi k r)) = true /\
    (List.length (restrict pi k r) < List.length r)%nat /\
    is_ok (generate r s (types_equal r)) = true.
Proof.
  exists ex_pi_keep, ex_keep_k, ex_reg, ex_set_rec2.
  split; [exact ex_pi_keep_renumbering|]. vm_compute. repeat split; try reflexivity.
  repeat constructor.
Qed.
