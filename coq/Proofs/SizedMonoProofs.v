(** [mono_acyclicb] (Model/SizedMono.v) decides acyclicity of the monomorphic by-value graph on
    registry ids ([mono_edge]): DESIGN 3.1 clause 9 as a boolean. *)
From Coq Require Import List NArith String Bool Lia.
From V Require Import Base.Util Base.Strings Base.Result Model.Registry Model.Settings Model.Subst
  Model.TypePath Model.Generate Model.WellFormed Model.Shape Model.Sized Model.SizedReg Model.SizedMono
  Proofs.RankGraph.
From V Require Proofs.ParseClosed.
Import ListNotations.
Open Scope string_scope. Open Scope list_scope. Open Scope nat_scope.

Lemma id_key_inj a b : id_key a = id_key b -> a = b.
Proof. unfold id_key. intros H. inversion H as [H0]. exact (ParseClosed.N_to_string_inj a b H0). Qed.

Lemma mono_edge_graph r s a b : mono_edge r s a b -> graph_edge (mono_graph r s) (id_key a) (id_key b).
Proof.
  intros (t & Hin & Hb). exists (map id_key (mono_succs r s t)). split.
  - unfold mono_graph. apply in_map_iff. exists (a, t). split; [reflexivity|exact Hin].
  - apply in_map. exact Hb.
Qed.

Lemma graph_mono_edge r s k z a :
  graph_edge (mono_graph r s) k z -> k = id_key a -> exists b, z = id_key b /\ mono_edge r s a b.
Proof.
  intros (succs & Hin & Hz) Hk. unfold mono_graph in Hin.
  apply in_map_iff in Hin as ([a' t] & E & Hin). cbn [fst snd] in E. inversion E as [[Ek Es]].
  rewrite Hk in Ek. apply id_key_inj in Ek. subst a'. rewrite <- Es in Hz.
  apply in_map_iff in Hz as (b & <- & Hb). exists b. split; [reflexivity|]. exists t. split; assumption.
Qed.

Lemma graph_walk_mono r s : forall n k z a,
  walk (graph_edge (mono_graph r s)) n k z -> k = id_key a ->
  exists b, z = id_key b /\ walk (mono_edge r s) n a b.
Proof.
  induction n as [|n IH]; intros k z a W Hk; cbn [walk] in W.
  - exact (graph_mono_edge r s k z a W Hk).
  - destruct W as (c & Hkc & W). destruct (graph_mono_edge r s k c a Hkc Hk) as (b & Hc & Hab).
    destruct (IH c z b W Hc) as (d & Hz & Wd). exists d. split; [exact Hz|]. exists b. split; assumption.
Qed.

Lemma mono_walk_graph r s : forall n a b,
  walk (mono_edge r s) n a b -> walk (graph_edge (mono_graph r s)) n (id_key a) (id_key b).
Proof.
  induction n as [|n IH]; intros a b W; cbn [walk] in *.
  - apply mono_edge_graph. exact W.
  - destruct W as (c & Hac & W). exists (id_key c). split; [apply mono_edge_graph; exact Hac|].
    apply IH. exact W.
Qed.

Theorem mono_acyclicb_iff r s :
  mono_acyclicb r s = true <-> (forall n a, ~ walk (mono_edge r s) n a a).
Proof.
  unfold mono_acyclicb. cbv zeta. split.
  - intros H n a W. apply (rank_okb_acyclic _ _ H n (id_key a)). apply mono_walk_graph. exact W.
  - intros Hac. apply rank_okb_complete. intros n p W.
    assert (Hsrc : exists a, p = id_key a).
    { assert (He : exists c, graph_edge (mono_graph r s) p c).
      { destruct n as [|n]; cbn [walk] in W; [exists p; exact W|].
        destruct W as (c & Hpc & _). exists c. exact Hpc. }
      destruct He as (c & succs & Hin & _). unfold mono_graph in Hin.
      apply in_map_iff in Hin as ([a t] & E & _). cbn [fst snd] in E. inversion E. exists a. reflexivity. }
    destruct Hsrc as (a & Hp). destruct (graph_walk_mono r s n p p a W Hp) as (b & Hb & Wb).
    rewrite Hp in Hb. apply id_key_inj in Hb. subst b. exact (Hac n a Wb).
Qed.
