(** C09: the switches that replace one token LIST by another (alloc path, compact path, bits
    path).  One logical-relation proof through the whole pipeline, for an arbitrary relation
    [R] on token lists that is reflexive and closed under concatenation:

      settings_rel R s1 s2  ->  res_rel R (gen_emit r s1 teq) (gen_emit r s2 teq)

    (printing, field / item / module emission, prelude table, substitutes - including the
    Specified ones, whose argument tokens end up inside the path tokens -, path resolution,
    IR construction, the generation loop).  The three frames are the instances
    [R := frame_rel a1 a2]. *)
From Coq Require Import List NArith String Bool Lia.
From V Require Import Base.Util Base.Strings Base.Result Model.Registry Model.Settings Model.Subst
  Model.TypePath Model.Derives Model.Generate Model.Emit Model.Equal Model.Switches Model.Inputs
  Proofs.GenProofs Proofs.TpMap Proofs.ItemsCanonical Proofs.SubstMap Proofs.Equivariance.
Import ListNotations.
Open Scope string_scope. Open Scope list_scope.

(** ** relational versions of [bind] and [mapM] *)
Lemma bind_rel {A A' B B'} (P : A -> A' -> Prop) (Q : B -> B' -> Prop)
      (x : result A) (y : result A') (f : A -> result B) (g : A' -> result B') :
  res_rel P x y -> (forall a a', P a a' -> res_rel Q (f a) (g a')) ->
  res_rel Q (bind x f) (bind y g).
Proof.
  destruct x as [a|e|m], y as [a'|e'|m']; cbn [res_rel bind]; intros H Hf; try contradiction; auto.
Qed.

Lemma mapM_rel {A A' B B'} (Q : B -> B' -> Prop) (f : A -> result B) (g : A' -> result B') l1 l2 :
  Forall2 (fun x y => res_rel Q (f x) (g y)) l1 l2 ->
  res_rel (Forall2 Q) (mapM f l1) (mapM g l2).
Proof.
  induction 1 as [|x y l1 l2 Hxy _ IH]; [constructor|].
  rewrite !mapM_cons. eapply bind_rel; [exact Hxy|]. intros b b' Hb.
  eapply bind_rel; [exact IH|]. intros bs bs' Hbs. cbn [res_rel]. constructor; assumption.
Qed.

Lemma Forall2_same {A} (P : A -> A -> Prop) l : (forall x, In x l -> P x x) -> Forall2 P l l.
Proof.
  induction l as [|x l IH]; intros H; constructor.
  - apply H. left; reflexivity.
  - apply IH. intros y Hy. apply H. right; exact Hy.
Qed.

Lemma Forall_Forall2 {A B} (P : A -> B -> Prop) (Q : A -> B -> Prop) l1 l2 :
  Forall (fun x => forall y, P x y -> Q x y) l1 -> Forall2 P l1 l2 -> Forall2 Q l1 l2.
Proof.
  intros HF H. induction H as [|x y l1 l2 Hxy _ IH]; [constructor|].
  inversion HF; subst. constructor; auto.
Qed.

Lemma Forall2_impl {A B} (P Q : A -> B -> Prop) l1 l2 :
  (forall x y, P x y -> Q x y) -> Forall2 P l1 l2 -> Forall2 Q l1 l2.
Proof. intros H. induction 1; constructor; auto. Qed.

Lemma res_rel_ok {A B} (R : A -> B -> Prop) x y a :
  res_rel R x y -> x = Ok a -> exists b, y = Ok b /\ R a b.
Proof.
  intros H E. subst x. destruct y as [b|e|m]; cbn [res_rel] in H; try contradiction. eauto.
Qed.

Section Rel.
  Variable R : tokens -> tokens -> Prop.
  Hypothesis R_refl : forall l, R l l.
  Hypothesis R_app : forall x1 x2 y1 y2, R x1 x2 -> R y1 y2 -> R (x1 ++ y1) (x2 ++ y2).

  Lemma R_cons x l1 l2 : R l1 l2 -> R (x :: l1) (x :: l2).
  Proof. intros H. change (R ([x] ++ l1) ([x] ++ l2)). apply R_app; [apply R_refl|exact H]. Qed.

  Ltac rtok := repeat first [ assumption | apply R_refl | apply R_app | apply R_cons ].

  Lemma R_concat l1 l2 : Forall2 R l1 l2 -> R (List.concat l1) (List.concat l2).
  Proof. induction 1; cbn [List.concat]; rtok. Qed.

  Lemma R_sep_by sep l1 l2 : Forall2 R l1 l2 -> R (sep_by sep l1) (sep_by sep l2).
  Proof.
    induction 1 as [|x y l1 l2 Hxy Hl IH]; [apply R_refl|].
    destruct Hl as [|x' y' l1' l2' Hxy' Hl']; cbn [sep_by]; [exact Hxy|].
    cbn [sep_by] in IH. rtok.
  Qed.

  Lemma R_flat_comma l1 l2 :
    Forall2 R l1 l2 -> R (flat_map (fun e => e ++ [","]) l1) (flat_map (fun e => e ++ [","]) l2).
  Proof. induction 1; cbn [flat_map]; rtok. Qed.

  (** ** printing a path *)
  Lemma prim_tokens_rel al1 al2 p : R al1 al2 -> res_rel R (prim_tokens al1 p) (prim_tokens al2 p).
  Proof. intros H. destruct p; cbn [prim_tokens res_rel]; rtok; reflexivity. Qed.

  Lemma tpath_rel_tuple_or_array t1 t2 :
    tpath_rel R t1 t2 -> WellFormed.tuple_or_array t1 = WellFormed.tuple_or_array t2.
  Proof. destruct 1; reflexivity. Qed.

  Theorem tp_tokens_rel al1 al2 : R al1 al2 -> forall t1 t2,
    tpath_rel R t1 t2 -> res_rel R (tp_tokens al1 t1) (tp_tokens al2 t2).
  Proof.
    intros Hal.
    induction t1 as [p|ptoks params IH|o IH|len o IH|els IH|p|i f cp IH|o st b IHo IHs]
                    using tpath_ind'; intros t2 H; inversion H; subst; clear H.
    - cbn [tp_tokens res_rel]. apply R_refl.
    - rewrite !tp_tokens_TPath. eapply bind_rel.
      + apply mapM_rel. eapply Forall_Forall2; [exact IH|eassumption].
      + intros ps ps' Hps. destruct Hps as [|x y l1 l2 Hxy Hl]; cbn [res_rel]; [assumption|].
        pose proof (R_sep_by [","] (x :: l1) (y :: l2) (Forall2_cons _ _ Hxy Hl)). rtok.
    - rewrite !tp_tokens_TVec. eapply bind_rel; [apply IH; eassumption|].
      intros a a' Ha. cbn [res_rel]. rtok.
    - rewrite !tp_tokens_TArray. eapply bind_rel; [apply IH; eassumption|].
      intros a a' Ha. cbn [res_rel]. rtok.
    - rewrite !tp_tokens_TTuple. eapply bind_rel.
      + apply mapM_rel. eapply Forall_Forall2; [exact IH|eassumption].
      + intros ps ps' Hps. cbn [res_rel]. pose proof (R_flat_comma _ _ Hps). rtok.
    - cbn [tp_tokens]. apply prim_tokens_rel; exact Hal.
    - rewrite !tp_tokens_TCompact. eapply bind_rel; [apply IH; eassumption|].
      intros a a' Ha.
      match goal with Hr : tpath_rel R i _ |- _ => rewrite <- (tpath_rel_tuple_or_array _ _ Hr) end.
      destruct f; [destruct (WellFormed.tuple_or_array i)|]; cbn [andb res_rel]; rtok; reflexivity.
    - rewrite !tp_tokens_TBitVec. eapply bind_rel; [apply IHo; eassumption|].
      intros a a' Ha. eapply bind_rel; [apply IHs; eassumption|].
      intros c c' Hc. cbn [res_rel]. rtok.
  Qed.

  (** ** emission of fields, items, modules *)
  Section EmitRel.
    Variable s1 s2 : settings.
    Hypothesis Hal : R (alloc_tokens (s_alloc s1)) (alloc_tokens (s_alloc s2)).
    Hypothesis Hroot : s_root s1 = s_root s2.

    Lemma field_tokens_rel f1 f2 :
      fi_rel R f1 f2 -> res_rel R (field_tokens s1 f1) (field_tokens s2 f2).
    Proof.
      intros (Hp & Hc & Hb). unfold field_tokens. eapply bind_rel; [apply tp_tokens_rel; eassumption|].
      intros t t' Ht. unfold fi_emit_boxed. rewrite Hb, Hc.
      destruct (fi_boxed f2 && negb (fi_compact f2)); cbn [res_rel]; rtok.
    Qed.

    Lemma compact_attr_of_rel c f1 f2 : fi_rel R f1 f2 -> compact_attr_of c f1 = compact_attr_of c f2.
    Proof. intros (_ & Hc & _). unfold compact_attr_of. rewrite Hc. reflexivity. Qed.

    Lemma struct_field_tokens_rel k1 k2 ph c :
      ckind_rel R k1 k2 -> res_rel R (struct_field_tokens s1 k1 ph c) (struct_field_tokens s2 k2 ph c).
    Proof.
      intros H. destruct H as [|fs1 fs2 Hfs|fs1 fs2 Hfs]; unfold struct_field_tokens.
      - destruct ph; cbn [res_rel]; apply R_refl.
      - eapply bind_rel.
        + apply mapM_rel. eapply Forall2_impl; [|exact Hfs].
          intros [n1 f1] [n2 f2] [Hn Hf]. cbn [fst snd] in Hn, Hf. subst n2.
          eapply bind_rel; [apply field_tokens_rel; exact Hf|]. intros t t' Ht. cbn [res_rel].
          rewrite (compact_attr_of_rel c f1 f2 Hf). rtok.
        + intros l l' Hl. cbn [res_rel]. pose proof (R_concat _ _ Hl). rtok.
      - eapply bind_rel.
        + apply mapM_rel. eapply Forall2_impl; [|exact Hfs].
          intros f1 f2 Hf.
          eapply bind_rel; [apply field_tokens_rel; exact Hf|]. intros t t' Ht. cbn [res_rel].
          rewrite (compact_attr_of_rel c f1 f2 Hf). rtok.
        + intros l l' Hl. cbn [res_rel]. pose proof (R_concat _ _ Hl). rtok.
    Qed.

    Lemma enum_field_tokens_rel k1 k2 c :
      ckind_rel R k1 k2 -> res_rel R (enum_field_tokens s1 k1 c) (enum_field_tokens s2 k2 c).
    Proof.
      intros H. destruct H as [|fs1 fs2 Hfs|fs1 fs2 Hfs]; unfold enum_field_tokens.
      - cbn [res_rel]; apply R_refl.
      - eapply bind_rel.
        + apply mapM_rel. eapply Forall2_impl; [|exact Hfs].
          intros [n1 f1] [n2 f2] [Hn Hf]. cbn [fst snd] in Hn, Hf. subst n2.
          eapply bind_rel; [apply field_tokens_rel; exact Hf|]. intros t t' Ht. cbn [res_rel].
          rewrite (compact_attr_of_rel c f1 f2 Hf). rtok.
        + intros l l' Hl. cbn [res_rel]. pose proof (R_concat _ _ Hl). rtok.
      - eapply bind_rel.
        + apply mapM_rel. eapply Forall2_impl; [|exact Hfs].
          intros f1 f2 Hf.
          eapply bind_rel; [apply field_tokens_rel; exact Hf|]. intros t t' Ht. cbn [res_rel].
          rewrite (compact_attr_of_rel c f1 f2 Hf). rtok.
        + intros l l' Hl. cbn [res_rel]. pose proof (R_concat _ _ Hl). rtok.
    Qed.

    Theorem type_ir_tokens_rel a b :
      ir_rel R a b -> res_rel R (type_ir_tokens s1 a) (type_ir_tokens s2 b).
    Proof.
      destruct a as [pa ua da ca ka], b as [pb ub db cb kb]. unfold ir_rel.
      cbn [ti_params ti_unused ti_derives ti_codec ti_kind]. intros (Hp & Hu & Hd & Hc & Hk).
      subst pb ub db cb. unfold type_ir_tokens. cbn [ti_params ti_unused ti_derives ti_codec ti_kind].
      destruct Hk as [c1 c2 (Hn & Hkk & Hdocs)|n d vs1 vs2 Hvs].
      - eapply bind_rel; [apply struct_field_tokens_rel; exact Hkk|].
        intros f f' Hf. cbn [res_rel]. rewrite Hn, Hdocs.
        assert (Hsemi : match ci_kind c1 with CNoFields | CUnnamed _ => [";"] | CNamed _ => [] end =
                        match ci_kind c2 with CNoFields | CUnnamed _ => [";"] | CNamed _ => [] end).
        { destruct Hkk; reflexivity. }
        rewrite Hsemi. rtok.
      - eapply bind_rel.
        + apply mapM_rel. eapply Forall2_impl; [|exact Hvs].
          intros [i1 c1] [i2 c2] [Hi (Hn & Hkk & Hdocs)]. cbn [fst snd] in Hi, Hn, Hkk, Hdocs. subst i2.
          eapply bind_rel; [apply enum_field_tokens_rel; exact Hkk|].
          intros f f' Hf. cbn [res_rel]. rewrite Hn, Hdocs. rtok.
        + intros l l' Hl. cbn [res_rel]. pose proof (R_concat _ _ Hl). rtok.
    Qed.

    (** module tree *)
    Definition entry_rel2 (e1 e2 : entry) : Prop :=
      fst e1 = fst e2 /\ res_rel R (type_ir_tokens s1 (snd (snd e1))) (type_ir_tokens s2 (snd (snd e2))).

    Lemma child_names_rel es1 es2 : Forall2 entry_rel2 es1 es2 -> child_names es1 = child_names es2.
    Proof.
      intros H. induction H as [|e1 e2 l1 l2 [Hf _] _ IH]; [reflexivity|].
      unfold child_names in *. cbn [fold_right]. rewrite Hf, IH. reflexivity.
    Qed.

    Lemma under_rel h es1 es2 :
      Forall2 entry_rel2 es1 es2 -> Forall2 entry_rel2 (under h es1) (under h es2).
    Proof.
      intros H. induction H as [|[p1 x1] [p2 x2] l1 l2 [Hf Ht] _ IH]; [constructor|].
      cbn [fst snd] in Hf, Ht. subst p2. unfold under in *. cbn [flat_map fst snd].
      destruct p1 as [|h' [|h2 tl]]; cbn [app]; try exact IH.
      destruct (String.eqb h h'); cbn [app]; [|exact IH].
      constructor; [|exact IH]. split; [reflexivity|exact Ht].
    Qed.

    Lemma here_rel es1 es2 :
      Forall2 entry_rel2 es1 es2 -> Forall2 entry_rel2 (here es1) (here es2).
    Proof.
      intros H. induction H as [|[p1 x1] [p2 x2] l1 l2 [Hf Ht] _ IH]; [constructor|].
      cbn [fst snd] in Hf, Ht. subst p2. unfold here in *. cbn [filter fst].
      destruct p1 as [|h' [|h2 tl]]; try exact IH.
      constructor; [|exact IH]. split; [reflexivity|exact Ht].
    Qed.

    Lemma module_tokens_rel : forall fuel name es1 es2,
      Forall2 entry_rel2 es1 es2 ->
      res_rel R (module_tokens s1 fuel name es1) (module_tokens s2 fuel name es2).
    Proof.
      induction fuel as [|fuel IH]; intros name es1 es2 H; [reflexivity|].
      cbn [module_tokens]. rewrite (child_names_rel _ _ H).
      eapply bind_rel.
      - apply mapM_rel. apply Forall2_same. intros h _. apply IH. apply under_rel; exact H.
      - intros mods mods' Hm. eapply bind_rel.
        + apply mapM_rel. eapply Forall2_impl; [|apply here_rel; exact H].
          intros e1 e2 [_ Ht]. exact Ht.
        + intros tys tys' Ht. cbn [res_rel]. rewrite Hroot.
          pose proof (R_concat _ _ Hm). pose proof (R_concat _ _ Ht). rtok.
    Qed.

    Lemma max_depth_rel m1 m2 : items_rel R m1 m2 -> max_depth m1 = max_depth m2.
    Proof.
      intros H. induction H as [|e1 e2 l1 l2 (Hf & _) _ IH]; [reflexivity|].
      unfold max_depth in *. cbn [fold_right]. rewrite Hf, IH. reflexivity.
    Qed.

    Theorem emit_module_rel m1 m2 :
      items_rel R m1 m2 -> res_rel R (emit_module s1 m1) (emit_module s2 m2).
    Proof.
      intros H. unfold emit_module. rewrite (max_depth_rel _ _ H), Hroot.
      apply module_tokens_rel.
      induction H as [|e1 e2 l1 l2 (Hf & _ & Hir) _ IH]; cbn [map]; constructor; [|exact IH].
      split; cbn [fst snd]; [exact Hf|]. apply type_ir_tokens_rel; exact Hir.
    Qed.
  End EmitRel.

  (** ** the prelude table and [from_type_def_path] *)
  Definition table_rel (t1 t2 : list (string * tokens)) : Prop :=
    Forall2 (fun x y => fst x = fst y /\ R (snd x) (snd y)) t1 t2.

  Lemma assoc_str_rel t1 t2 k :
    table_rel t1 t2 -> opt_rel R (assoc_str t1 k) (assoc_str t2 k).
  Proof.
    induction 1 as [|[k1 v1] [k2 v2] l1 l2 [Hk Hv] _ IH]; [exact I|].
    cbn [fst snd] in Hk, Hv. subst k2. cbn [assoc_str]. destruct (String.eqb k k1); [exact Hv|exact IH].
  Qed.

  Lemma prelude_table_rel al1 al2 : R al1 al2 -> table_rel (prelude_table al1) (prelude_table al2).
  Proof.
    intros H. unfold prelude_table, table_rel.
    repeat (constructor; [split; [reflexivity|cbn [snd]; rtok]|]). constructor.
  Qed.

  Lemma from_type_def_path_rel path root al1 al2 :
    R al1 al2 -> res_rel R (from_type_def_path path root al1) (from_type_def_path path root al2).
  Proof.
    intros H. unfold from_type_def_path. destruct path as [|x [|y l]].
    - reflexivity.
    - pose proof (assoc_str_rel _ _ x (prelude_table_rel _ _ H)) as Ha.
      destruct (assoc_str (prelude_table al1) x), (assoc_str (prelude_table al2) x);
        cbn [opt_rel] in Ha; try contradiction; cbn [res_rel]; [exact Ha|reflexivity].
    - destruct (forallb path_seg_okb (x :: y :: l)); cbn [res_rel]; [apply R_refl|reflexivity].
  Qed.

  (** ** Specified substitutes: the argument tokens are spliced into the printed path *)
  Section Replace.
    Variable ps1 ps2 : list (string * tokens).
    Hypothesis Hps : table_rel ps1 ps2.

    Lemma print_segs_rel l :
      Forall (fun x => R (print_pargs (replace_pargs ps1 (snd x))) (print_pargs (replace_pargs ps2 (snd x)))) l ->
      forall first, R (print_segs (rsegs ps1 l) first) (print_segs (rsegs ps2 l) first).
    Proof.
      induction 1 as [|[id a] l Hx Hl IH]; intros first; [apply R_refl|].
      cbn [rsegs map fst snd print_segs] in *. fold (rsegs ps1 l). fold (rsegs ps2 l).
      pose proof (IH false). rtok.
    Qed.

    Lemma print_gargs_rel l :
      Forall (fun g => R (print_garg (replace_garg ps1 g)) (print_garg (replace_garg ps2 g))) l ->
      forall first, R (print_gargs (map (replace_garg ps1) l) first) (print_gargs (map (replace_garg ps2) l) first).
    Proof.
      induction 1 as [|g l Hx Hl IH]; intros first; [apply R_refl|].
      cbn [map print_gargs]. pose proof (IH false). rtok.
    Qed.

    Lemma print_replace_rel_all :
      (forall t, R (print_gtype (replace_gtype_segs ps1 t)) (print_gtype (replace_gtype_segs ps2 t))) /\
      (forall a, R (print_pargs (replace_pargs ps1 a)) (print_pargs (replace_pargs ps2 a))) /\
      (forall g, R (print_garg (replace_garg ps1 g)) (print_garg (replace_garg ps2 g))).
    Proof.
      apply sm_g_ind.
      - intros q lead segs HF. rewrite !replace_gtype_path, !print_gtype_path.
        pose proof (print_segs_rel segs HF true). rtok.
      - intros toks. apply R_refl.
      - apply R_refl.
      - intros args HF. rewrite !replace_pargs_angle, !print_pargs_angle.
        pose proof (print_gargs_rel args HF true). rtok.
      - intros toks. apply R_refl.
      - intros t IHt. destruct t as [q lead segs|toks].
        + rewrite !replace_garg_path.
          destruct (get_ident (GTPath q lead segs)) as [id|].
          * pose proof (assoc_str_rel _ _ id Hps) as Ha.
            destruct (assoc_str ps1 id), (assoc_str ps2 id); cbn [opt_rel] in Ha; try contradiction.
            -- cbn [print_garg print_gtype]. exact Ha.
            -- cbn [print_garg]. apply IHt.
          * cbn [print_garg]. apply IHt.
        + apply R_refl.
      - intros toks. apply R_refl.
    Qed.

    Lemma print_replace_spath_rel sp :
      R (print_spath (replace_spath ps1 sp)) (print_spath (replace_spath ps2 sp)).
    Proof. rewrite !print_spath_replace_eq. apply (proj1 print_replace_rel_all). Qed.
  End Replace.

  (** ** substitutes and path resolution *)
  Section ResolveRel.
    Variable r : registry.
    Variable s1 s2 : settings.
    Hypothesis HS : settings_rel R s1 s2.

    Let Hal : R (alloc_tokens (s_alloc s1)) (alloc_tokens (s_alloc s2)).
    Proof. exact (proj1 (proj2 (proj2 (proj2 (proj2 (proj2 (proj2 HS))))))). Qed.

    Lemma sm_sel_rel params1 params2 m :
      Forall2 (tpath_rel R) params1 params2 ->
      Forall2 (fun x y : string * tpath => fst x = fst y /\ tpath_rel R (snd x) (snd y))
              (sm_sel params1 m) (sm_sel params2 m).
    Proof.
      intros H. unfold sm_sel. induction m as [|[id idx] m IH]; [constructor|].
      cbn [flat_map]. apply Forall2_app; [|exact IH].
      assert (G : forall (l1 l2 : list tpath) n, Forall2 (tpath_rel R) l1 l2 ->
                  opt_rel (tpath_rel R) (nth_error l1 n) (nth_error l2 n)).
      { intros l1 l2 n HF. revert n. induction HF as [|a b l1 l2 Hab _ IHF]; intros [|n]; cbn [nth_error opt_rel]; auto. }
      specialize (G _ _ idx H).
      destruct (nth_error params1 idx), (nth_error params2 idx); cbn [opt_rel] in G; try contradiction.
      - constructor; [split; [reflexivity|exact G]|constructor].
      - constructor.
    Qed.

    Lemma repl_rel sel1 sel2 :
      Forall2 (fun x y : string * tpath => fst x = fst y /\ tpath_rel R (snd x) (snd y)) sel1 sel2 ->
      res_rel table_rel (mapM (sm_tok_pair (alloc_tokens (s_alloc s1))) sel1)
                        (mapM (sm_tok_pair (alloc_tokens (s_alloc s2))) sel2).
    Proof.
      intros H. apply mapM_rel. eapply Forall2_impl; [|exact H].
      intros [i1 p1] [i2 p2] [Hi Hp]. cbn [fst snd] in Hi, Hp. subst i2. unfold sm_tok_pair.
      eapply bind_rel; [apply tp_tokens_rel; eassumption|]. intros t t' Ht. cbn [res_rel fst snd].
      split; [reflexivity|exact Ht].
    Qed.

    Lemma for_path_with_params_rel path params1 params2 :
      Forall2 (tpath_rel R) params1 params2 ->
      opt_rel (res_rel (tpath_rel R)) (for_path_with_params s1 path params1)
                                      (for_path_with_params s2 path params2).
    Proof.
      intros H. rewrite !for_path_with_params_eq.
      replace (s_subs s2) with (s_subs s1) by (apply HS).
      destruct (subs_get (s_subs s1) path) as [sub|]; [|exact I]. cbn [opt_rel].
      destruct (su_map sub) as [|m].
      - cbn [res_rel]. constructor; [apply R_refl|exact H].
      - pose proof (sm_sel_rel _ _ m H) as Hsel.
        destruct Hsel as [|x y l1 l2 Hxy Hl].
        + cbn [res_rel]. constructor; [apply R_refl|constructor].
        + eapply bind_rel; [apply repl_rel; constructor; eassumption|].
          intros ps1 ps2 Hps. cbn [res_rel]. constructor; [|constructor].
          apply print_replace_spath_rel; exact Hps.
    Qed.

    Lemma type_path_maybe_rel path params1 params2 :
      Forall2 (tpath_rel R) params1 params2 ->
      res_rel (tpath_rel R) (type_path_maybe_with_substitutes s1 path params1)
                            (type_path_maybe_with_substitutes s2 path params2).
    Proof.
      intros H. unfold type_path_maybe_with_substitutes.
      pose proof (for_path_with_params_rel path _ _ H) as Hf.
      destruct (for_path_with_params s1 path params1), (for_path_with_params s2 path params2);
        cbn [opt_rel] in Hf; try contradiction; [exact Hf|].
      replace (s_root s2) with (s_root s1) by (apply HS).
      eapply bind_rel; [apply from_type_def_path_rel; exact Hal|].
      intros p p' Hp. cbn [res_rel]. constructor; assumption.
    Qed.

    Theorem resolve_rec_rel : forall fuel id is_field parents orig,
      res_rel (tpath_rel R) (resolve_rec r s1 fuel id is_field parents orig)
                            (resolve_rec r s2 fuel id is_field parents orig).
    Proof.
      induction fuel as [|fuel IH]; intros id is_field parents orig; [reflexivity|].
      rewrite !SubstMap.resolve_rec_S.
      destruct (find_parent parents id orig) as [p|]; [constructor|].
      destruct (resolve_type r id) as [t0|e|m]; cbn [bind]; [|reflexivity|reflexivity].
      match goal with |- res_rel _ (bind ?x _) (bind ?x _) => destruct x as [t|e|m] end;
        cbn [bind]; [|reflexivity|reflexivity].
      assert (Hmap : forall l, res_rel (Forall2 (tpath_rel R))
                       (mapM (fun i => resolve_rec r s1 fuel i false parents None) l)
                       (mapM (fun i => resolve_rec r s2 fuel i false parents None) l)).
      { intros l. apply mapM_rel. apply Forall2_same. intros i _. apply IH. }
      eapply bind_rel; [apply Hmap|]. intros ps ps' Hps.
      destruct (t_def t) as [fs|vs|e|len e|es|p|e|st o].
      - apply type_path_maybe_rel; exact Hps.
      - apply type_path_maybe_rel; exact Hps.
      - eapply bind_rel; [apply IH|]. intros i i' Hi. constructor; exact Hi.
      - eapply bind_rel; [apply IH|]. intros i i' Hi. constructor; exact Hi.
      - eapply bind_rel; [apply Hmap|]. intros l l' Hl. constructor; exact Hl.
      - constructor.
      - eapply bind_rel; [apply IH|]. intros i i' Hi.
        pose proof (proj1 (proj2 (proj2 (proj2 (proj2 (proj2 (proj2 (proj2 HS)))))))) as Hc.
        destruct (s_compact s1), (s_compact s2); cbn [opt_rel] in Hc; try contradiction;
          [|reflexivity]. constructor; assumption.
      - pose proof (proj2 (proj2 (proj2 (proj2 (proj2 (proj2 (proj2 (proj2 HS)))))))) as Hb.
        destruct (s_bits s1), (s_bits s2); cbn [opt_rel] in Hb; try contradiction; [|reflexivity].
        eapply bind_rel; [apply IH|]. intros x x' Hx.
        eapply bind_rel; [apply IH|]. intros y y' Hy. constructor; assumption.
    Qed.
  End ResolveRel.

  (** ** IR construction and the generation loop *)
  Lemma flat_map_Forall2 {A B C} (f : A -> list C) (g : B -> list C) l1 l2 :
    Forall2 (fun x y => f x = g y) l1 l2 -> flat_map f l1 = flat_map g l2.
  Proof. induction 1 as [|x y l1 l2 Hxy _ IH]; [reflexivity|]. cbn [flat_map]. rewrite Hxy, IH. reflexivity. Qed.

  Lemma parent_params_rel : forall t1 t2, tpath_rel R t1 t2 -> parent_params t1 = parent_params t2.
  Proof.
    induction t1 as [p|ptoks params IH|o IH|len o IH|els IH|p|i f cp IH|o st b IHo IHs]
                    using tpath_ind'; intros t2 H; inversion H; subst; clear H.
    - reflexivity.
    - rewrite !parent_params_TPath. apply flat_map_Forall2.
      eapply Forall_Forall2; [exact IH|eassumption].
    - cbn [parent_params]. apply IH; assumption.
    - cbn [parent_params]. apply IH; assumption.
    - rewrite !parent_params_TTuple. apply flat_map_Forall2.
      eapply Forall_Forall2; [exact IH|eassumption].
    - reflexivity.
    - cbn [parent_params]. apply IH; assumption.
    - cbn [parent_params]. f_equal; [apply IHo|apply IHs]; assumption.
  Qed.

  Lemma is_compact_rel t1 t2 : tpath_rel R t1 t2 -> is_compact t1 = is_compact t2.
  Proof. destruct 1; reflexivity. Qed.
  Lemma is_uint_rel t1 t2 : tpath_rel R t1 t2 -> is_uint_up_to_u128 t1 = is_uint_up_to_u128 t2.
  Proof. destruct 1; reflexivity. Qed.

  Lemma could_derive_rel k1 k2 :
    ckind_rel R k1 k2 -> could_derive_as_compact k1 = could_derive_as_compact k2.
  Proof.
    destruct 1 as [|fs1 fs2 H|fs1 fs2 H]; [reflexivity| |].
    - destruct H as [|[n1 f1] [n2 f2] l1 l2 [_ (Hp & _)] Hl]; [reflexivity|].
      destruct Hl; [|reflexivity]. cbn [could_derive_as_compact snd] in *. apply is_uint_rel; exact Hp.
    - destruct H as [|f1 f2 l1 l2 (Hp & _) Hl]; [reflexivity|].
      destruct Hl; [|reflexivity]. cbn [could_derive_as_compact]. apply is_uint_rel; exact Hp.
  Qed.

  Section GenRel.
    Variable r : registry.
    Variable s1 s2 : settings.
    Hypothesis HS : settings_rel R s1 s2.

    Lemma docs_rel docs : docs_from_scale_info s1 docs = docs_from_scale_info s2 docs.
    Proof. unfold docs_from_scale_info. replace (s_docs s2) with (s_docs s1) by (apply HS). reflexivity. Qed.

    Lemma field_ir_of_rel params f :
      res_rel (fi_rel R) (field_ir_of r s1 params f) (field_ir_of r s2 params f).
    Proof.
      unfold field_ir_of, resolve_field_type_path. eapply bind_rel.
      - apply (resolve_rec_rel r s1 s2 HS).
      - intros p p' Hp. cbn [res_rel]. unfold fi_rel. cbn [fi_path fi_compact fi_boxed].
        split; [exact Hp|]. split; [apply is_compact_rel; exact Hp|reflexivity].
    Qed.

    Definition ku_rel (x y : ckind * list tparam_ir) : Prop :=
      ckind_rel R (fst x) (fst y) /\ snd x = snd y.

    Lemma cck_rel fs params unused :
      res_rel ku_rel (create_composite_ir_kind r s1 fs params unused)
                     (create_composite_ir_kind r s2 fs params unused).
    Proof.
      unfold create_composite_ir_kind. destruct fs as [|f0 fs0]; [split; [constructor|reflexivity]|].
      remember (f0 :: fs0) as fs eqn:E. clear E f0 fs0.
      destruct (negb (all_named fs || all_unnamed fs)); [reflexivity|].
      destruct (all_named fs).
      - eapply bind_rel.
        + apply (mapM_rel (fun x y : string * field_ir => fst x = fst y /\ fi_rel R (snd x) (snd y))).
          apply Forall2_same. intros f _.
          destruct (parse_ident (match f_name f with Some n => n | None => "" end)) as [id|e|m];
            cbn [bind]; [|reflexivity|reflexivity].
          eapply bind_rel; [apply field_ir_of_rel|]. intros fi fi' Hfi. cbn [res_rel fst snd].
          split; [reflexivity|exact Hfi].
        + intros l l' Hl. cbn [res_rel]. split; cbn [fst snd]; [constructor; exact Hl|].
          f_equal. apply flat_map_Forall2. eapply Forall2_impl; [|exact Hl].
          intros x y [_ (Hp & _)]. apply parent_params_rel; exact Hp.
      - eapply bind_rel.
        + apply (mapM_rel (fi_rel R)). apply Forall2_same. intros f _. apply field_ir_of_rel.
        + intros l l' Hl. cbn [res_rel]. split; cbn [fst snd]; [constructor; exact Hl|].
          f_equal. apply flat_map_Forall2. eapply Forall2_impl; [|exact Hl].
          intros x y (Hp & _). apply parent_params_rel; exact Hp.
    Qed.

    Definition vu_rel (x y : list (N * composite_ir) * list tparam_ir) : Prop :=
      Forall2 (fun a b : N * composite_ir => fst a = fst b /\ ci_rel R (snd a) (snd b)) (fst x) (fst y) /\
      snd x = snd y.

    Lemma variants_ir_rel params : forall vs unused,
      res_rel vu_rel (Switches.variants_ir r s1 params vs unused) (Switches.variants_ir r s2 params vs unused).
    Proof.
      induction vs as [|v vs IH]; intros unused; cbn [Switches.variants_ir].
      - split; [constructor|reflexivity].
      - destruct (parse_ident (v_name v)) as [vn|e|m]; cbn [bind]; [|reflexivity|reflexivity].
        eapply bind_rel; [apply cck_rel|]. intros ku ku' [Hk Hu]. rewrite Hu.
        eapply bind_rel; [apply IH|]. intros rest rest' [Hr Hru]. cbn [res_rel]. split; cbn [fst snd].
        + constructor; [|exact Hr]. cbn [fst snd]. split; [reflexivity|].
          unfold ci_rel. cbn [ci_name ci_kind ci_docs]. split; [reflexivity|]. split; [exact Hk|apply docs_rel].
        + exact Hru.
    Qed.

    Theorem create_type_ir_rel t flat :
      res_rel (opt_rel (ir_rel R)) (create_type_ir r s1 t flat) (create_type_ir r s2 t flat).
    Proof.
      rewrite !Equivariance.create_type_ir_unfold.
      destruct (negb (is_composite_or_variant (t_def t))); [exact I|].
      destruct (path_ident (t_path t)) as [nm|]; [|reflexivity].
      destruct (parse_ident nm) as [name|e|m]; cbn [bind]; [|reflexivity|reflexivity].
      eapply (bind_rel (fun x y : kind_ir * bool * list tparam_ir =>
                          kind_rel R (fst (fst x)) (fst (fst y)) /\ snd (fst x) = snd (fst y) /\ snd x = snd y)).
      - destruct (t_def t) as [fs|vs| | | | | |]; try reflexivity.
        + eapply bind_rel; [apply cck_rel|]. intros ku ku' [Hk Hu]. cbn [res_rel fst snd].
          split; [|split; [apply could_derive_rel; exact Hk|exact Hu]].
          constructor. unfold ci_rel. cbn [ci_name ci_kind ci_docs].
          split; [reflexivity|]. split; [exact Hk|apply docs_rel].
        + eapply bind_rel; [apply variants_ir_rel|]. intros vu vu' [Hv Hu]. cbn [res_rel fst snd].
          split; [|split; [reflexivity|exact Hu]]. rewrite docs_rel. constructor. exact Hv.
      - intros [[k1 c1] u1] [[k2 c2] u2] (Hk & Hc & Hu). cbn [fst snd] in Hk, Hc, Hu. subst c2 u2.
        destruct (resolve_derives_for_type flat t) as [d|e|m]; cbn [bind]; [|reflexivity|reflexivity].
        cbn [res_rel opt_rel]. unfold ir_rel. cbn [ti_params ti_unused ti_derives ti_codec ti_kind].
        split; [reflexivity|]. split; [reflexivity|]. split.
        + unfold add_as_compact. replace (s_compact_as s2) with (s_compact_as s1) by (apply HS). reflexivity.
        + split; [apply HS|exact Hk].
    Qed.

    Definition item_rel (v1 v2 : N * type_ir) : Prop := fst v1 = fst v2 /\ ir_rel R (snd v1) (snd v2).

    Lemma items_get_rel (m1 m2 : items) p :
      items_rel R m1 m2 -> opt_rel item_rel (items_get m1 p) (items_get m2 p).
    Proof.
      induction 1 as [|[k1 v1] [k2 v2] l1 l2 (Hk & Hi & Hir) _ IH]; [exact I|].
      cbn [fst snd] in Hk, Hi, Hir. subst k2. cbn [items_get].
      destruct (path_eqb k1 p); [split; assumption|exact IH].
    Qed.

    Lemma items_insert_rel (m1 m2 : items) p v1 v2 :
      items_rel R m1 m2 -> item_rel v1 v2 -> items_rel R (items_insert m1 p v1) (items_insert m2 p v2).
    Proof.
      intros H [Hi Hir]. induction H as [|[k1 w1] [k2 w2] l1 l2 (Hk & Hwi & Hwr) Hl IH].
      - cbn [items_insert]. constructor; [|constructor]. cbn [fst snd]. auto.
      - cbn [fst snd] in Hk, Hwi, Hwr. subst k2. cbn [items_insert].
        destruct (path_compare p k1).
        + constructor; [cbn [fst snd]; auto|exact Hl].
        + constructor; [cbn [fst snd]; auto|]. constructor; [cbn [fst snd]; auto|exact Hl].
        + constructor; [cbn [fst snd]; auto|exact IH].
    Qed.

    Theorem gen_loop_rel teq flat : forall l acc1 acc2,
      items_rel R acc1 acc2 ->
      res_rel (items_rel R) (gen_loop r s1 teq flat l acc1) (gen_loop r s2 teq flat l acc2).
    Proof.
      induction l as [|[id t] l IH]; intros acc1 acc2 Hacc; [exact Hacc|].
      rewrite !gen_loop_cons. replace (s_subs s2) with (s_subs s1) by (apply HS).
      destruct (subs_contains (s_subs s1) (t_path t)); [apply IH; exact Hacc|].
      destruct (namespace (t_path t)) as [|n0 ns]; [apply IH; exact Hacc|].
      eapply bind_rel; [apply create_type_ir_rel|]. intros o o' Ho.
      destruct o as [ir|], o' as [ir'|]; cbn [opt_rel] in Ho; try contradiction; [|apply IH; exact Hacc].
      destruct (forallb ident_lexb (n0 :: ns)); [|reflexivity].
      pose proof (items_get_rel _ _ (t_path t) Hacc) as Hg.
      destruct (items_get acc1 (t_path t)) as [[o1 x1]|], (items_get acc2 (t_path t)) as [[o2 x2]|];
        cbn [opt_rel] in Hg; try contradiction.
      - destruct Hg as [Ho12 _]. cbn [fst] in Ho12. subst o2.
        destruct (teq id o1) as [[|]|e|m]; cbn [bind]; try reflexivity. apply IH; exact Hacc.
      - apply IH. apply items_insert_rel; [exact Hacc|]. split; [reflexivity|exact Ho].
    Qed.

    Theorem generate_rel teq :
      res_rel (items_rel R) (generate r s1 teq) (generate r s2 teq).
    Proof.
      unfold generate. destruct (sanity_pass r) as [u|e|m]; cbn [bind]; [|reflexivity|reflexivity].
      replace (s_dreg s2) with (s_dreg s1) by (apply HS).
      destruct (flatten (s_dreg s1) r) as [flat|e|m]; cbn [bind]; [|reflexivity|reflexivity].
      apply gen_loop_rel. constructor.
    Qed.

    Theorem gen_emit_rel teq : res_rel R (gen_emit r s1 teq) (gen_emit r s2 teq).
    Proof.
      unfold gen_emit. eapply bind_rel; [apply generate_rel|]. intros m m' Hm.
      apply emit_module_rel; [apply HS|apply HS|exact Hm].
    Qed.
  End GenRel.
End Rel.

(** ** the three frames as instances *)
Lemma frame_rel_closed a1 a2 :
  (forall l, frame_rel a1 a2 l l) /\
  (forall x1 x2 y1 y2, frame_rel a1 a2 x1 x2 -> frame_rel a1 a2 y1 y2 -> frame_rel a1 a2 (x1 ++ y1) (x2 ++ y2)).
Proof. split; [apply fr_same|apply fr_app]. Qed.

Lemma opt_rel_same {A} (R : A -> A -> Prop) (o : option A) : (forall x, R x x) -> opt_rel R o o.
Proof. intros H. destruct o; cbn; auto. Qed.

Lemma settings_rel_alloc a1 a2 s :
  settings_rel (frame_rel (alloc_tokens a1) (alloc_tokens a2)) (set_alloc a1 s) (set_alloc a2 s).
Proof.
  unfold settings_rel, set_alloc. cbn. repeat (split; [reflexivity|]).
  split; [apply fr_switch|]. split; apply opt_rel_same; apply fr_same.
Qed.

Lemma settings_rel_compact c1 c2 s :
  settings_rel (frame_rel c1 c2) (set_compact (Some c1) s) (set_compact (Some c2) s).
Proof.
  unfold settings_rel, set_compact. cbn. repeat (split; [reflexivity|]).
  split; [apply fr_same|]. split; [apply fr_switch|]. apply opt_rel_same; apply fr_same.
Qed.

Lemma settings_rel_bits b1 b2 s :
  settings_rel (frame_rel b1 b2) (set_bits (Some b1) s) (set_bits (Some b2) s).
Proof.
  unfold settings_rel, set_bits. cbn. repeat (split; [reflexivity|]).
  split; [apply fr_same|]. split; [apply opt_rel_same; apply fr_same|]. apply fr_switch.
Qed.

Theorem alloc_frame r s a1 a2 teq :
  res_rel (frame_rel (alloc_tokens a1) (alloc_tokens a2))
          (gen_emit r (set_alloc a1 s) teq) (gen_emit r (set_alloc a2 s) teq).
Proof.
  apply gen_emit_rel; [apply fr_same|apply fr_app|apply settings_rel_alloc].
Qed.

Theorem compact_frame r s c1 c2 teq :
  res_rel (frame_rel c1 c2)
          (gen_emit r (set_compact (Some c1) s) teq) (gen_emit r (set_compact (Some c2) s) teq).
Proof.
  apply gen_emit_rel; [apply fr_same|apply fr_app|apply settings_rel_compact].
Qed.

Theorem bits_frame r s b1 b2 teq :
  res_rel (frame_rel b1 b2)
          (gen_emit r (set_bits (Some b1) s) teq) (gen_emit r (set_bits (Some b2) s) teq).
Proof.
  apply gen_emit_rel; [apply fr_same|apply fr_app|apply settings_rel_bits].
Qed.

(** all three at once *)
Theorem list_switches_frame r s a1 a2 c1 c2 b1 b2 teq :
  res_rel (frame_rel3 (alloc_tokens a1) (alloc_tokens a2) c1 c2 b1 b2)
          (gen_emit r (set_alloc a1 (set_compact (Some c1) (set_bits (Some b1) s))) teq)
          (gen_emit r (set_alloc a2 (set_compact (Some c2) (set_bits (Some b2) s))) teq).
Proof.
  apply gen_emit_rel; [apply fr3_same|apply fr3_app|].
  unfold settings_rel, set_alloc, set_compact, set_bits. cbn. repeat (split; [reflexivity|]).
  split; [apply fr3_alloc|]. split; [apply fr3_compact|apply fr3_bits].
Qed.

(** the statements the end-to-end frame is assembled from, for the alloc switch *)
Theorem alloc_frame_tp_tokens a1 a2 t1 t2 :
  tpath_rel (frame_rel a1 a2) t1 t2 -> res_rel (frame_rel a1 a2) (tp_tokens a1 t1) (tp_tokens a2 t2).
Proof. apply tp_tokens_rel; [apply fr_same|apply fr_app|apply fr_switch]. Qed.

Theorem alloc_frame_resolve r s a1 a2 fuel id is_field parents orig :
  res_rel (tpath_rel (frame_rel (alloc_tokens a1) (alloc_tokens a2)))
          (resolve_rec r (set_alloc a1 s) fuel id is_field parents orig)
          (resolve_rec r (set_alloc a2 s) fuel id is_field parents orig).
Proof. apply resolve_rec_rel; [apply fr_same|apply fr_app|apply settings_rel_alloc]. Qed.

Theorem alloc_frame_generate r s a1 a2 teq :
  res_rel (items_rel (frame_rel (alloc_tokens a1) (alloc_tokens a2)))
          (generate r (set_alloc a1 s) teq) (generate r (set_alloc a2 s) teq).
Proof. apply generate_rel; [apply fr_same|apply fr_app|apply settings_rel_alloc]. Qed.

(** ** what an alignment entails *)
(** switching a path to itself changes nothing *)
Lemma frame_rel_id a l1 l2 : frame_rel a a l1 l2 -> l1 = l2.
Proof. induction 1; congruence. Qed.

(** every token of the second output is a token of the first output or of the new path
    (and symmetrically): nothing else changes *)
Lemma frame_rel_tokens a1 a2 l1 l2 :
  frame_rel a1 a2 l1 l2 ->
  (forall w, In w l2 -> In w l1 \/ In w a2) /\ (forall w, In w l1 -> In w l2 \/ In w a1).
Proof.
  induction 1 as [l| |x1 x2 y1 y2 _ [IHx1 IHx2] _ [IHy1 IHy2]].
  - split; intros w Hw; left; exact Hw.
  - split; intros w Hw; right; exact Hw.
  - split; intros w Hw; apply in_app_or in Hw as [Hw|Hw].
    + destruct (IHx1 w Hw); [left; apply in_or_app; left|right]; assumption.
    + destruct (IHy1 w Hw); [left; apply in_or_app; right|right]; assumption.
    + destruct (IHx2 w Hw); [left; apply in_or_app; left|right]; assumption.
    + destruct (IHy2 w Hw); [left; apply in_or_app; right|right]; assumption.
Qed.

(** the alignment is a sequence of blocks: [l1 = concat (map fst bs)], [l2 = concat (map snd bs)]
    where every block is a pair of equal lists or the pair [(a1, a2)] *)
Lemma frame_rel_blocks a1 a2 l1 l2 :
  frame_rel a1 a2 l1 l2 ->
  exists bs : list (tokens * tokens),
    l1 = List.concat (map fst bs) /\ l2 = List.concat (map snd bs) /\
    Forall (fun b => fst b = snd b \/ b = (a1, a2)) bs.
Proof.
  induction 1 as [l| |x1 x2 y1 y2 _ (bx & Ex1 & Ex2 & Fx) _ (by_ & Ey1 & Ey2 & Fy)].
  - exists [(l, l)]. cbn. rewrite app_nil_r. repeat split. constructor; [left; reflexivity|constructor].
  - exists [(a1, a2)]. cbn. rewrite !app_nil_r. repeat split. constructor; [right; reflexivity|constructor].
  - exists (bx ++ by_). rewrite !map_app, !concat_app. subst. repeat split.
    apply Forall_app. split; assumption.
Qed.

(** ** the frames on a concrete registry (Model/ExamplesFrames.v) *)
From V Require Import Model.ExamplesFrames.

Example exf_alloc_outputs :
  match gen_emit exf_reg (set_alloc AStd exf_set) (types_equal exf_reg),
        gen_emit exf_reg (set_alloc exf_alloc2 exf_set) (types_equal exf_reg) with
  | Ok t1, Ok t2 =>
      (* the substituted argument carries the alloc path inside the path tokens *)
      occurs ["ext"; ":"; ":"; "W"; "<"; ":"; ":"; "std"; ":"; ":"; "vec"; ":"; ":"; "Vec"] t1 &&
      occurs ["ext"; ":"; ":"; "W"; "<"; ":"; ":"; "my"; ":"; ":"; "alloc"; ":"; ":"; "vec"; ":"; ":"; "Vec"] t2 &&
      occurs [":"; ":"; "my"; ":"; ":"; "alloc"; ":"; ":"; "string"; ":"; ":"; "String"] t2 &&
      occurs [":"; ":"; "my"; ":"; ":"; "alloc"; ":"; ":"; "boxed"; ":"; ":"; "Box"] t2 &&
      negb (existsb (String.eqb "std") t2) && negb (list_eqb String.eqb t1 t2)
  | _, _ => false
  end = true.
Proof. vm_compute. reflexivity. Qed.

Example exf_alloc_frame :
  res_rel (frame_rel (alloc_tokens AStd) (alloc_tokens exf_alloc2))
          (gen_emit exf_reg (set_alloc AStd exf_set) (types_equal exf_reg))
          (gen_emit exf_reg (set_alloc exf_alloc2 exf_set) (types_equal exf_reg)).
Proof. apply alloc_frame. Qed.

Example exf_compact_bits_outputs :
  match gen_emit exf_reg exf_set (types_equal exf_reg),
        gen_emit exf_reg (set_compact (Some exf_compact2) exf_set) (types_equal exf_reg),
        gen_emit exf_reg (set_bits (Some exf_bits2) exf_set) (types_equal exf_reg) with
  | Ok t0, Ok t1, Ok t2 =>
      negb (list_eqb String.eqb t0 t1) && negb (list_eqb String.eqb t0 t2) &&
      occurs (exf_compact2 ++ ["<"]) t1 && occurs (exf_bits2 ++ ["<"]) t2 && occurs [":"; ":"; "bits"; ":"; ":"; "DecodedBits"; "<"] t0
  | _, _, _ => false
  end = true.
Proof. vm_compute. reflexivity. Qed.
