(** Soundness of the boolean checkers of Model/Shape.v: [skeleton_consistentb],
    [root_freshb]. *)
From Coq Require Import List NArith String Bool Lia.
From V Require Import Base.Util Base.Strings Base.Result Model.Registry Model.Settings Model.Subst
  Model.TypePath Model.Derives Model.Generate Model.Equal Model.Shape Proofs.GenProofs
  Proofs.FidelityBase.
Import ListNotations.
Open Scope string_scope. Open Scope list_scope.

Lemma tpi_eqb_sound a b : tpi_eqb a b = true -> a = b.
Proof.
  unfold tpi_eqb. intros H. apply andb_prop in H as [H H3]. apply andb_prop in H as [H1 H2].
  apply N.eqb_eq in H1, H3. apply String.eqb_eq in H2. destruct a, b; cbn in *; congruence.
Qed.

Definition tpaths_eqb :=
  fix go (la lb : list tpath) {struct la} : bool :=
    match la, lb with
    | [], [] => true
    | x :: la', y :: lb' => tpath_eqb x y && go la' lb'
    | _, _ => false
    end.

Lemma tpaths_eqb_sound la :
  Forall (fun x => forall y, tpath_eqb x y = true -> x = y) la ->
  forall lb, tpaths_eqb la lb = true -> la = lb.
Proof.
  induction 1 as [|x la Hx _ IH]; intros [|y lb] H; cbn [tpaths_eqb] in H; try discriminate; auto.
  apply andb_prop in H as [H1 H2]. f_equal; auto.
Qed.

Lemma tpath_eqb_sound : forall a bb, tpath_eqb a bb = true -> a = bb.
Proof.
  induction a using tpath_ind'; intros bb E; destruct bb; cbn [tpath_eqb] in E; try discriminate.
  - apply tpi_eqb_sound in E. congruence.
  - apply andb_prop in E as [H1 H2]. apply toks_eqb_eq in H1.
    fold tpaths_eqb in H2. apply tpaths_eqb_sound in H2; [congruence|assumption].
  - f_equal; auto.
  - apply andb_prop in E as [H1 H2]. apply N.eqb_eq in H1. f_equal; auto.
  - fold tpaths_eqb in E. apply tpaths_eqb_sound in E; [congruence|assumption].
  - apply prim_eqb_eq in E. congruence.
  - apply andb_prop in E as [E H3]. apply andb_prop in E as [H1 H2].
    apply toks_eqb_eq in H3. apply Bool.eqb_prop in H2. f_equal; auto.
  - apply andb_prop in E as [E H3]. apply andb_prop in E as [H1 H2].
    apply toks_eqb_eq in H3. f_equal; auto.
Qed.

Lemma fi_eqb_sound a b : fi_eqb a b = true -> a = b.
Proof.
  unfold fi_eqb. intros H. apply andb_prop in H as [H H3]. apply andb_prop in H as [H1 H2].
  apply tpath_eqb_sound in H1. apply Bool.eqb_prop in H2, H3. destruct a, b; cbn in *; congruence.
Qed.

Lemma strs_eqb_sound a b : list_eqb String.eqb a b = true -> a = b.
Proof. apply list_eqb_sound. intros x y. apply String.eqb_eq. Qed.

Lemma ckind_eqb_sound a b : ckind_eqb a b = true -> a = b.
Proof.
  destruct a as [|x|x], b as [|y|y]; cbn [ckind_eqb]; intros H; try discriminate; auto.
  - f_equal. revert H. apply list_eqb_sound. intros [n1 f1] [n2 f2] H. cbn [fst snd] in H.
    apply andb_prop in H as [H1 H2]. apply String.eqb_eq in H1. apply fi_eqb_sound in H2. congruence.
  - f_equal. revert H. apply list_eqb_sound. apply fi_eqb_sound.
Qed.

Lemma ci_eqb_sound a b : ci_eqb a b = true -> a = b.
Proof.
  unfold ci_eqb. intros H. apply andb_prop in H as [H H3]. apply andb_prop in H as [H1 H2].
  apply String.eqb_eq in H1. apply ckind_eqb_sound in H2. apply strs_eqb_sound in H3.
  destruct a, b; cbn in *; congruence.
Qed.

Lemma kind_eqb_sound a b : kind_eqb a b = true -> a = b.
Proof.
  destruct a as [x|n1 d1 v1], b as [y|n2 d2 v2]; cbn [kind_eqb]; intros H; try discriminate.
  - apply ci_eqb_sound in H. congruence.
  - apply andb_prop in H as [H H3]. apply andb_prop in H as [H1 H2].
    apply String.eqb_eq in H1. apply strs_eqb_sound in H2.
    assert (v1 = v2); [|congruence]. revert H3. apply list_eqb_sound. intros [i1 c1] [i2 c2] H.
    cbn [fst snd] in H. apply andb_prop in H as [Ha Hb]. apply N.eqb_eq in Ha.
    apply ci_eqb_sound in Hb. congruence.
Qed.

Lemma skel_eqb_sound a b :
  skel_eqb (erase_ids a) (erase_ids b) = true -> erase_ids a = erase_ids b.
Proof.
  unfold skel_eqb, erase_ids. cbn [ti_params ti_unused ti_codec ti_kind]. intros H.
  apply andb_prop in H as [H H4]. apply andb_prop in H as [H H3]. apply andb_prop in H as [H1 H2].
  apply (list_eqb_sound _ tpi_eqb_sound) in H1, H2. apply Bool.eqb_prop in H3.
  apply kind_eqb_sound in H4. congruence.
Qed.

Theorem skeleton_consistentb_sound r s :
  skeleton_consistentb r s = true -> skeleton_consistent r s.
Proof.
  unfold skeleton_consistentb, skeleton_consistent. intros H id X id0 X0 Hin He Hfirst.
  rewrite forallb_forall in H. specialize (H (id, X) Hin). cbn [snd] in H.
  rewrite He, Hfirst in H. cbn [snd] in H. unfold skeleton.
  destruct (create_type_ir r s X flat0) as [[a|]|e|msg]; try discriminate.
  destruct (create_type_ir r s X0 flat0) as [[b|]|e|msg]; try discriminate.
  apply skel_eqb_sound in H. congruence.
Qed.

Lemma hd_isb_false t x : hd_isb t x = false -> hd_error t <> Some x.
Proof.
  destruct t as [|y t]; cbn; [discriminate|]. intros H E. inversion E; subst.
  rewrite String.eqb_refl in H. discriminate.
Qed.

Theorem root_freshb_sound s : root_freshb s = true -> root_fresh s.
Proof.
  unfold root_freshb, root_fresh. intros H.
  apply andb_prop in H as [H H4]. apply andb_prop in H as [H H3]. apply andb_prop in H as [H1 H2].
  apply negb_true_iff in H1, H2, H3. repeat split.
  - intros E. rewrite E in H1. discriminate.
  - intros E. rewrite E in H2. discriminate.
  - apply hd_isb_false. assumption.
  - intros k sub Hin. rewrite forallb_forall in H4. specialize (H4 (k, sub) Hin). cbn [snd] in H4.
    apply negb_true_iff in H4. apply hd_isb_false. assumption.
Qed.
