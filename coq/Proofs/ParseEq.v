(** C02 (emit-parses), part 0: unfolding equations of the independent reader
    [Checkers/Parse.v] in [eqb] form (the reader matches tokens against string literals;
    each equation is proved once by case analysis on the characters of the unknown token). *)
From Coq Require Import List NArith String Ascii Bool Lia Arith.
From V Require Import Base.Util Base.Strings Base.Result Model.Registry Model.Settings Model.Subst
  Model.TypePath Model.Derives Model.Generate Model.Emit Model.WellFormed Checkers.Parse
  Model.Unparse Proofs.TpMap.
Import ListNotations.
Open Scope string_scope. Open Scope list_scope.

(** ** matching an unknown token against literals: equations in [eqb] form *)

Ltac dchar c := destruct c as [[|] [|] [|] [|] [|] [|] [|] [|]].
Ltac dlit0 t := idtac.
Ltac dlit_step t k :=
  let c := fresh "c" in
  let s0 := fresh "s" in
  destruct t as [|c s0]; [try reflexivity | dchar c; try reflexivity; k s0].
Ltac dlit1 t := dlit_step t dlit0.
Ltac dlit2 t := dlit_step t dlit1.
Ltac dlit3 t := dlit_step t dlit2.
Ltac dlit4 t := dlit_step t dlit3.
Ltac dlit5 t := dlit_step t dlit4.

(** the loops of [parse_ty] / [parse_segs] as named functions (convertible) *)
Definition tup_loop (fuel' : nat) :=
  fix tup_loop (f : nat) (toks : tokens) (acc : list pty) : option (pty * tokens) :=
  match f with
  | O => None
  | S f' =>
      match toks with
      | ")" :: rest => Some (PTuple (rev acc), rest)
      | _ =>
          match parse_ty fuel' toks with
          | Some (t, "," :: rest) => tup_loop f' rest (t :: acc)
          | Some (t, ")" :: rest) => Some (PTuple (rev (t :: acc)), rest)
          | _ => None
          end
      end
  end.

Definition after_args (fuel' : nat) (leading : bool) (id : string)
           (acc : list (string * list pty)) (args : list pty) (rest : tokens)
  : option (pty * tokens) :=
  match rest with
  | ":" :: ":" :: rest' => parse_segs fuel' leading rest' ((id, args) :: acc)
  | _ => Some (PPath leading (rev ((id, args) :: acc)), rest)
  end.

Definition args_loop (fuel' : nat) (leading : bool) (id : string)
         (acc : list (string * list pty)) :=
  fix args_loop (f : nat) (toks : tokens) (a : list pty) : option (pty * tokens) :=
  match f with
  | O => None
  | S f' =>
      match toks with
      | ">" :: rest => after_args fuel' leading id acc (rev a) rest
      | _ =>
          match parse_ty fuel' toks with
          | Some (t, "," :: rest) => args_loop f' rest (t :: a)
          | Some (t, ">" :: rest) => after_args fuel' leading id acc (rev (t :: a)) rest
          | _ => None
          end
      end
  end.

Lemma parse_ty_tuple fuel' r : parse_ty (S fuel') ("(" :: r) = tup_loop fuel' fuel' r [].
Proof. reflexivity. Qed.

Lemma parse_ty_array fuel' r :
  parse_ty (S fuel') ("[" :: r) =
  match parse_ty fuel' r with
  | Some (el, ";" :: len :: "]" :: rest) => Some (PArray el len, rest)
  | _ => None
  end.
Proof. reflexivity. Qed.

Lemma parse_ty_abs fuel' r : parse_ty (S fuel') (":" :: ":" :: r) = parse_segs fuel' true r [].
Proof. reflexivity. Qed.

Lemma parse_segs_eq fuel' leading id r acc :
  parse_segs (S fuel') leading (id :: r) acc =
  if is_punct id then None
  else match r with
       | "<" :: r' => args_loop fuel' leading id acc fuel' r' []
       | _ => after_args fuel' leading id acc [] r
       end.
Proof. reflexivity. Qed.

Lemma parse_ty_ident fuel' id r :
  is_punct id = false -> parse_ty (S fuel') (id :: r) = parse_segs fuel' false (id :: r) [].
Proof. intros H. dlit2 id; vm_compute in H; discriminate H. Qed.

Lemma tup_loop_S fuel' f toks acc :
  tup_loop fuel' (S f) toks acc =
  if hd_is ")" toks then Some (PTuple (rev acc), tl toks)
  else match parse_ty fuel' toks with
       | Some (t, "," :: rest) => tup_loop fuel' f rest (t :: acc)
       | Some (t, ")" :: rest) => Some (PTuple (rev (t :: acc)), rest)
       | _ => None
       end.
Proof. destruct toks as [|t r]; [reflexivity|]. dlit2 t. Qed.

Lemma args_loop_S fuel' leading id acc f toks a :
  args_loop fuel' leading id acc (S f) toks a =
  if hd_is ">" toks then after_args fuel' leading id acc (rev a) (tl toks)
  else match parse_ty fuel' toks with
       | Some (t, "," :: rest) => args_loop fuel' leading id acc f rest (t :: a)
       | Some (t, ">" :: rest) => after_args fuel' leading id acc (rev (t :: a)) rest
       | _ => None
       end.
Proof. destruct toks as [|t r]; [reflexivity|]. dlit2 t. Qed.

Definition starts_cc (rest : tokens) : bool := hd_is ":" rest && hd_is ":" (tl rest).

Lemma after_args_S fuel' leading id acc args rest :
  after_args fuel' leading id acc args rest =
  if starts_cc rest then parse_segs fuel' leading (tl (tl rest)) ((id, args) :: acc)
  else Some (PPath leading (rev ((id, args) :: acc)), rest).
Proof.
  unfold after_args, starts_cc. destruct rest as [|t r]; [reflexivity|].
  dlit2 t. destruct r as [|t2 r2]; [reflexivity|]. dlit2 t2.
Qed.

Lemma parse_segs_S fuel' leading id r acc :
  is_punct id = false ->
  parse_segs (S fuel') leading (id :: r) acc =
  if hd_is "<" r then args_loop fuel' leading id acc fuel' (tl r) []
  else after_args fuel' leading id acc [] r.
Proof.
  intros H. rewrite parse_segs_eq, H. destruct r as [|t r2]; [reflexivity|]. dlit2 t.
Qed.

(** ** attributes, [pub], the tail of a struct item, the module body *)
Lemma parse_attrs_S fuel' toks :
  parse_attrs (S fuel') toks =
  if hd_is "#" toks && hd_is "[" (tl toks) then
    match until_close 0 (tl (tl toks)) with
    | Some (inner, rest) => let '(l, rest') := parse_attrs fuel' rest in (inner :: l, rest')
    | None => ([], toks)
    end
  else ([], toks).
Proof.
  destruct toks as [|t r]; [reflexivity|]. dlit2 t.
  destruct r as [|t2 r2]; [reflexivity|]. dlit2 t2.
Qed.

Lemma strip_pub_S toks :
  strip_pub toks = if hd_is "pub" toks then (true, tl toks) else (false, toks).
Proof. destruct toks as [|t r]; [reflexivity|]. dlit4 t. Qed.

Definition struct_finish (attrs : list tokens) (name : string) (gs : list string)
           (x : option (pbody * tokens)) : option (pitem * tokens) :=
  match x with
  | Some (b, ";" :: rest) => Some (mk_pitem attrs false name gs b [] true, rest)
  | Some (b, rest) => Some (mk_pitem attrs false name gs b [] false, rest)
  | None => None
  end.

Lemma struct_finish_S attrs name gs b rest :
  struct_finish attrs name gs (Some (b, rest)) =
  if hd_is ";" rest then Some (mk_pitem attrs false name gs b [] true, tl rest)
  else Some (mk_pitem attrs false name gs b [] false, rest).
Proof. destruct rest as [|t r]; [reflexivity|]. dlit2 t. Qed.

Definition mod_body (fuel' fuel : nat) (name root : string) :=
  fix body (f : nat) (toks : tokens) (mods : list pmod) (items : list pitem)
    : option (pmod * tokens) :=
    match f with
    | O => None
    | S f' =>
        match toks with
        | "}" :: rest => Some (PMod name root (rev mods) (rev items), rest)
        | "pub" :: "mod" :: _ =>
            match parse_mod fuel' toks with
            | Some (m, rest) => body f' rest (m :: mods) items
            | None => None
            end
        | _ =>
            match parse_item fuel toks with
            | Some (it, rest) => body f' rest mods (it :: items)
            | None => None
            end
        end
    end.

Lemma parse_mod_eq fuel' name root r :
  parse_mod (S fuel') ("pub" :: "mod" :: name :: "{" :: "use" :: "super" :: ":" :: ":" :: root :: ";" :: r) =
  mod_body fuel' (S fuel') name root fuel' r [] [].
Proof. reflexivity. Qed.

Lemma mod_body_S fuel' fuel name root f toks mods items :
  mod_body fuel' fuel name root (S f) toks mods items =
  if hd_is "}" toks then Some (PMod name root (rev mods) (rev items), tl toks)
  else if hd_is "pub" toks && hd_is "mod" (tl toks) then
    match parse_mod fuel' toks with
    | Some (m, rest) => mod_body fuel' fuel name root f rest (m :: mods) items
    | None => None
    end
  else
    match parse_item fuel toks with
    | Some (it, rest) => mod_body fuel' fuel name root f rest mods (it :: items)
    | None => None
    end.
Proof.
  destruct toks as [|t r]; [reflexivity|]. dlit4 t.
  destruct r as [|t2 r2]; [reflexivity|]. dlit4 t2.
Qed.
