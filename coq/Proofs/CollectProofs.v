(** C08 [collect_correct]: the model of [collect_type_ids] (depth-first traversal
    with a threaded visited set, derives.rs:277-327) computes exactly the set of
    ids reachable in the registry graph, and never runs out of fuel / never hits
    the [expect] panic on a closed registry. *)
From Coq Require Import List NArith String Bool Lia FinFun.
From V Require Import Base.Strings Base.Result Model.Registry Model.Settings Model.Derives
  Model.Reach.
Import ListNotations.
Open Scope string_scope. Open Scope list_scope.

(** ** the traversal, one level at a time *)
Fixpoint collect_list (fuel : nat) (r : registry) (l : list N) (vis : list N)
  : result (list N) :=
  match l with
  | [] => Ok vis
  | c :: l' => let* vis' := collect_ids fuel r c vis in collect_list fuel r l' vis'
  end.

Lemma collect_ids_S fuel r id visited :
  collect_ids (S fuel) r id visited =
  if mem_N id visited then Ok visited
  else match resolve r id with
       | None => Panic "Should contain this id, if Registry not corrupted"
       | Some t => collect_list fuel r (collect_children t) (id :: visited)
       end.
Proof.
  cbn [collect_ids]. destruct (mem_N id visited); [reflexivity|].
  destruct (resolve r id) as [t|]; [|reflexivity].
  generalize (id :: visited). generalize (collect_children t).
  induction l as [|c l IH]; intros vis; cbn [collect_list]; [reflexivity|].
  destruct (collect_ids fuel r c vis); cbn [bind]; auto.
Qed.

Lemma mem_N_In x l : mem_N x l = true <-> In x l.
Proof.
  unfold mem_N. rewrite existsb_exists. split.
  - intros (y & Hy & E). apply N.eqb_eq in E. subst; exact Hy.
  - intros H. exists x. split; [exact H|apply N.eqb_refl].
Qed.

Lemma mem_N_false x l : mem_N x l = false <-> ~ In x l.
Proof.
  rewrite <- mem_N_In. destruct (mem_N x l); split; congruence.
Qed.

(** ** reachability *)
Lemma reach_trans r a b c : reach r a b -> reach r b c -> reach r a c.
Proof.
  intros H; induction H as [a|a b' c' He Hr IH]; intros H2; [exact H2|].
  eapply reach_step; [exact He|]. apply IH; exact H2.
Qed.

Lemma reach_edge r a b : edge r a b -> reach r a b.
Proof. intros H. eapply reach_step; [exact H|apply reach_refl]. Qed.

Lemma reach_snoc r a b c : reach r a b -> edge r b c -> reach r a c.
Proof. intros H1 H2. eapply reach_trans; [exact H1|apply reach_edge; exact H2]. Qed.

(** a set that contains the start and is closed under edges contains everything reachable *)
Lemma reach_closed_set r (S : N -> Prop) a :
  S a -> (forall x y, S x -> edge r x y -> S y) -> forall x, reach r a x -> S x.
Proof.
  intros Ha Hc x H. induction H as [a|a b c He Hr IH]; [exact Ha|].
  apply IH. eapply Hc; eauto.
Qed.

(** the edge relation, spelled out *)
Lemma in_param_ids t b :
  In b (param_ids t) <-> exists p, In p (t_params t) /\ tp_ty p = Some b.
Proof.
  unfold param_ids. rewrite in_flat_map. split.
  - intros (p & Hp & Hb). exists p. split; [exact Hp|].
    destruct (tp_ty p) as [i|]; cbn in Hb; [|tauto]. destruct Hb as [->|[]]. reflexivity.
  - intros (p & Hp & E). exists p. split; [exact Hp|]. rewrite E. left; reflexivity.
Qed.

Theorem edge_edge_spec r a b : edge r a b <-> edge_spec r a b.
Proof.
  unfold edge, edge_spec, collect_children.
  split; intros (t & Ht & H); exists t; (split; [exact Ht|]).
  - apply in_app_or in H as [H|H]; [left; apply in_param_ids; exact H|right].
    destruct (t_def t) as [fs|vs|e|len e|es|p|e|st o]; cbn [def_ids] in H.
    + apply in_map_iff in H as (f & E & Hf). exists f; auto.
    + apply in_flat_map in H as (v & Hv & H). apply in_map_iff in H as (f & E & Hf).
      exists v, f; auto.
    + destruct H as [H|[]]; exact H.
    + destruct H as [H|[]]; exact H.
    + exact H.
    + destruct H.
    + destruct H as [H|[]]; exact H.
    + destruct H.
  - apply in_or_app. destruct H as [H|H]; [left; apply in_param_ids; exact H|right].
    destruct (t_def t) as [fs|vs|e|len e|es|p|e|st o]; cbn [def_ids].
    + destruct H as (f & Hf & E). apply in_map_iff. exists f; auto.
    + destruct H as (v & f & Hv & Hf & E). apply in_flat_map. exists v. split; [exact Hv|].
      apply in_map_iff. exists f; auto.
    + left; exact H.
    + left; exact H.
    + exact H.
    + destruct H.
    + left; exact H.
    + destruct H.
Qed.

(** ** partial correctness of the traversal (any registry, any fuel) *)
Record dfs_post (r : registry) (roots : list N) (V V' : list N) : Prop := mk_dfs_post {
  dp_ext : exists new, V' = new ++ V;
  dp_roots : forall c, In c roots -> In c V';
  dp_sound : forall x, In x V' -> In x V \/
                                  (resolve r x <> None /\ exists c, In c roots /\ reach r c x);
  dp_closed : forall x y, In x V' -> ~ In x V -> edge r x y -> In y V';
  dp_nodup : NoDup V -> NoDup V' }.

Lemma dp_incl r roots V V' : dfs_post r roots V V' -> forall x, In x V -> In x V'.
Proof. intros [(new & ->) _ _ _ _] x Hx. apply in_or_app; right; exact Hx. Qed.

Lemma In_dec_N (x : N) l : In x l \/ ~ In x l.
Proof. destruct (mem_N x l) eqn:E; [left; apply mem_N_In|right; apply mem_N_false]; exact E. Qed.

Lemma collect_list_post_from fuel r
  (IH : forall id V V', collect_ids fuel r id V = Ok V' -> dfs_post r [id] V V') :
  forall l V V', collect_list fuel r l V = Ok V' -> dfs_post r l V V'.
Proof.
  induction l as [|c l IHl]; intros V V' H; cbn [collect_list] in H.
  - inversion H; subst V'. constructor.
    + exists []; reflexivity.
    + intros c [].
    + intros x Hx; left; exact Hx.
    + intros x y Hx Hn; contradiction.
    + auto.
  - apply bind_ok in H as (V1 & H1 & H2).
    pose proof (IH _ _ _ H1) as P1. pose proof (IHl _ _ H2) as P2.
    constructor.
    + destruct (dp_ext _ _ _ _ P1) as (n1 & ->). destruct (dp_ext _ _ _ _ P2) as (n2 & ->).
      exists (n2 ++ n1). rewrite app_assoc. reflexivity.
    + intros c' [<-|Hc].
      * eapply dp_incl; [exact P2|]. apply (dp_roots _ _ _ _ P1). left; reflexivity.
      * apply (dp_roots _ _ _ _ P2); exact Hc.
    + intros x Hx. destruct (dp_sound _ _ _ _ P2 x Hx) as [Hx1|(Hres & c' & Hc' & Hr)].
      * destruct (dp_sound _ _ _ _ P1 x Hx1) as [Hv|(Hres & c' & Hc' & Hr)]; [left; exact Hv|].
        right. split; [exact Hres|]. exists c'. destruct Hc' as [<-|[]]. split; [left; reflexivity|exact Hr].
      * right. split; [exact Hres|]. exists c'. split; [right; exact Hc'|exact Hr].
    + intros x y Hx Hn He. destruct (In_dec_N x V1) as [Hx1|Hx1].
      * eapply dp_incl; [exact P2|]. eapply (dp_closed _ _ _ _ P1); eauto.
      * eapply (dp_closed _ _ _ _ P2); eauto.
    + intros ND. apply (dp_nodup _ _ _ _ P2), (dp_nodup _ _ _ _ P1), ND.
Qed.

Lemma collect_ids_post : forall fuel r id V V',
  collect_ids fuel r id V = Ok V' -> dfs_post r [id] V V'.
Proof.
  induction fuel as [|fuel IH]; intros r id V V' H; [cbn in H; discriminate|].
  rewrite collect_ids_S in H.
  destruct (mem_N id V) eqn:M.
  - inversion H; subst V'. apply mem_N_In in M. constructor.
    + exists []; reflexivity.
    + intros c [<-|[]]; exact M.
    + intros x Hx; left; exact Hx.
    + intros x y Hx Hn; contradiction.
    + auto.
  - apply mem_N_false in M.
    destruct (resolve r id) as [t|] eqn:R; [|discriminate].
    pose proof (collect_list_post_from fuel r (IH r) _ _ _ H) as P.
    assert (Hid : In id V') by (eapply dp_incl; [exact P|left; reflexivity]).
    constructor.
    + destruct (dp_ext _ _ _ _ P) as (new & ->). exists (new ++ [id]).
      rewrite <- app_assoc. reflexivity.
    + intros c [<-|[]]; exact Hid.
    + intros x Hx. destruct (dp_sound _ _ _ _ P x Hx) as [[<-|Hv]|(Hres & c & Hc & Hr)].
      * right. split; [congruence|]. exists id. split; [left; reflexivity|apply reach_refl].
      * left; exact Hv.
      * right. split; [exact Hres|]. exists id. split; [left; reflexivity|].
        eapply reach_step; [|exact Hr]. exists t; auto.
    + intros x y Hx Hn He. destruct (N.eq_dec x id) as [->|Ne].
      * destruct He as (t' & R' & Hy). rewrite R in R'. inversion R'; subst t'.
        apply (dp_roots _ _ _ _ P); exact Hy.
      * eapply (dp_closed _ _ _ _ P); eauto. intros [E|Hv]; [apply Ne; auto|contradiction].
    + intros ND. apply (dp_nodup _ _ _ _ P). constructor; assumption.
Qed.

(** whenever the traversal returns, it returns exactly the reachable set, without repetition *)
Theorem collect_type_ids_exact r id l :
  collect_type_ids r id = Ok l -> NoDup l /\ forall x, In x l <-> reach r id x.
Proof.
  unfold collect_type_ids. intros H. apply collect_ids_post in H.
  split; [apply (dp_nodup _ _ _ _ H); constructor|].
  intros x; split.
  - intros Hx. destruct (dp_sound _ _ _ _ H x Hx) as [[]|(_ & c & [<-|[]] & Hr)]. exact Hr.
  - apply (reach_closed_set r (fun y => In y l)).
    + apply (dp_roots _ _ _ _ H). left; reflexivity.
    + intros a b Ha He. eapply (dp_closed _ _ _ _ H); eauto.
Qed.

(** ** fuel sufficiency and absence of the panic on closed registries *)
Lemma resolve_some_lt r id t : resolve r id = Some t -> (N.to_nat id < List.length r)%nat.
Proof.
  unfold resolve. intros H. apply nth_error_Some. destruct (nth_error r (N.to_nat id)); congruence.
Qed.

Lemma resolve_lt_some r id : (N.to_nat id < List.length r)%nat -> exists t, resolve r id = Some t.
Proof.
  unfold resolve. intros H. apply nth_error_Some in H.
  destruct (nth_error r (N.to_nat id)) as [[i t]|]; [exists t; reflexivity|congruence].
Qed.

Lemma closed_children r id t c :
  closed_reg r = true -> resolve r id = Some t -> In c (collect_children t) ->
  (N.to_nat c < List.length r)%nat.
Proof.
  unfold closed_reg, resolve. intros Hc Hr Hin.
  destruct (nth_error r (N.to_nat id)) as [[i t']|] eqn:E; [|discriminate].
  inversion Hr; subst t'. apply nth_error_In in E.
  rewrite forallb_forall in Hc. specialize (Hc _ E). cbn [snd] in Hc.
  rewrite forallb_forall in Hc.
  assert (Hin' : In c (param_ids t ++ def_ids (t_def t))).
  { unfold collect_children in Hin. apply in_app_or in Hin as [H|H]; apply in_or_app; [left; exact H|right].
    destruct (t_def t); try exact H. destruct H. }
  specialize (Hc _ Hin'). apply N.ltb_lt in Hc. lia.
Qed.

(** pigeonhole: a repetition-free list of valid ids is no longer than the registry *)
Lemma bounded_nodup_length (l : list N) n :
  NoDup l -> (forall x, In x l -> (N.to_nat x < n)%nat) -> (List.length l <= n)%nat.
Proof.
  intros ND B.
  assert (ND' : NoDup (map N.to_nat l)).
  { apply FinFun.Injective_map_NoDup; [|exact ND]. intros a b E. apply N2Nat.inj; exact E. }
  pose proof (NoDup_incl_length ND' (l' := seq 0 n)) as H.
  rewrite map_length, seq_length in H. apply H.
  intros y Hy. apply in_map_iff in Hy as (x & <- & Hx). apply in_seq. specialize (B x Hx). lia.
Qed.

Definition bounded (r : registry) (V : list N) : Prop :=
  forall x, In x V -> (N.to_nat x < List.length r)%nat.

Lemma post_bounded r roots V V' :
  dfs_post r roots V V' -> bounded r V -> bounded r V'.
Proof.
  intros P B x Hx. destruct (dp_sound _ _ _ _ P x Hx) as [Hv|(Hres & _)]; [apply B; exact Hv|].
  destruct (resolve r x) as [t|] eqn:E; [|congruence]. eapply resolve_some_lt; eauto.
Qed.

Lemma post_length r roots V V' : dfs_post r roots V V' -> (List.length V <= List.length V')%nat.
Proof. intros P. destruct (dp_ext _ _ _ _ P) as (new & ->). rewrite app_length. lia. Qed.

Lemma collect_list_total_from fuel r (Hc : closed_reg r = true)
  (IH : forall id V, (N.to_nat id < List.length r)%nat -> NoDup V -> bounded r V ->
                     (List.length r < fuel + List.length V)%nat ->
                     exists V', collect_ids fuel r id V = Ok V') :
  forall l V, (forall c, In c l -> (N.to_nat c < List.length r)%nat) -> NoDup V -> bounded r V ->
              (List.length r < fuel + List.length V)%nat ->
              exists V', collect_list fuel r l V = Ok V'.
Proof.
  induction l as [|c l IHl]; intros V Hl ND B F; cbn [collect_list]; [eauto|].
  destruct (IH c V (Hl c (or_introl eq_refl)) ND B F) as (V1 & H1). rewrite H1. cbn [bind].
  pose proof (collect_ids_post _ _ _ _ _ H1) as P1.
  apply IHl.
  - intros c' Hc'. apply Hl; right; exact Hc'.
  - apply (dp_nodup _ _ _ _ P1); exact ND.
  - eapply post_bounded; eauto.
  - pose proof (post_length _ _ _ _ P1). lia.
Qed.

Lemma collect_ids_total : forall fuel r id V,
  closed_reg r = true -> (N.to_nat id < List.length r)%nat -> NoDup V -> bounded r V ->
  (List.length r < fuel + List.length V)%nat ->
  exists V', collect_ids fuel r id V = Ok V'.
Proof.
  induction fuel as [|fuel IH]; intros r id V Hc Hid ND B F.
  - exfalso. pose proof (bounded_nodup_length V _ ND B). lia.
  - rewrite collect_ids_S. destruct (mem_N id V) eqn:M; [eauto|]. apply mem_N_false in M.
    destruct (resolve_lt_some r id Hid) as (t & R). rewrite R.
    assert (ND' : NoDup (id :: V)) by (constructor; assumption).
    assert (B' : bounded r (id :: V)) by (intros x [<-|Hx]; [exact Hid|apply B; exact Hx]).
    apply (collect_list_total_from fuel r Hc (fun id' V0 H1 H2 H3 H4 => IH r id' V0 Hc H1 H2 H3 H4)).
    + intros c Hin. eapply closed_children; eauto.
    + exact ND'.
    + exact B'.
    + cbn [List.length]. lia.
Qed.

(** C08 [collect_correct] *)
Theorem collect_correct r id :
  closed_reg r = true -> (id < N.of_nat (List.length r))%N ->
  exists l, collect_type_ids r id = Ok l /\ NoDup l /\ forall x, In x l <-> reach r id x.
Proof.
  intros Hc Hid.
  destruct (collect_ids_total (S (List.length r)) r id [] Hc) as (l & H).
  - lia.
  - constructor.
  - intros x [].
  - cbn [List.length]. lia.
  - exists l. split; [exact H|]. apply collect_type_ids_exact; exact H.
Qed.

(** the result is a function of the reachable set only: two successful runs from
    ids with the same reachable sets return the same set *)
Corollary collect_type_ids_root r id l : collect_type_ids r id = Ok l -> In id l.
Proof. intros H. apply (collect_type_ids_exact _ _ _ H). apply reach_refl. Qed.

(** on a closed registry everything reachable from a valid id is a valid id *)
Lemma reach_valid r a b :
  closed_reg r = true -> (N.to_nat a < List.length r)%nat -> reach r a b ->
  (N.to_nat b < List.length r)%nat.
Proof.
  intros Hc Ha H. induction H as [a|a b c (t & R & Hin) Hr IH]; [exact Ha|].
  apply IH. eapply closed_children; eauto.
Qed.
