(** C01: wire fidelity at the level of the IR.  The core theorem ([resolve_shape]) reads
    every arm of [resolve_type_path_recurse] as a congruence between the Rust-side and
    the registry-side shape; a matched parent parameter is bound, in the substitution
    of actual arguments, to a type expression with the shape of that very id. *)
From Coq Require Import List NArith String Bool Lia Wf_nat.
From V Require Import Base.Util Base.Strings Base.Result Model.Registry Model.Settings Model.Subst
  Model.TypePath Model.Derives Model.Generate Model.Equal Model.Shape Proofs.GenProofs
  Proofs.FidelityBase.
From V Require Import Proofs.SynKey.
Import ListNotations.
Open Scope string_scope. Open Scope list_scope.

(** ** the IR of one entry *)
Definition variants_go (r : registry) (s : settings) (params : list tparam_ir) :=
  fix go (l : list variant) (unused : list tparam_ir)
    : result (list (N * composite_ir) * list tparam_ir) :=
    match l with
    | [] => Ok ([], unused)
    | v :: l' =>
        let* vn := parse_ident (v_name v) in
        let* ku := create_composite_ir_kind r s (v_fields v) params unused in
        let* rest := go l' (snd ku) in
        Ok ((v_index v, mk_ci vn (fst ku) (docs_from_scale_info s (v_docs v))) :: fst rest,
            snd rest)
    end.

Lemma parse_ident_ok x y : parse_ident x = Ok y -> y = x.
Proof. unfold parse_ident. destruct (ident_okb x); intros H; inversion H; reflexivity. Qed.

Lemma create_type_ir_inv r s t flat ir :
  create_type_ir r s t flat = Ok (Some ir) ->
  ti_params ir = params_from_scale_info (t_params t) /\
  ((exists fs name docs k u,
       t_def t = TDComposite fs /\ ti_kind ir = KStruct (mk_ci name k docs) /\
       create_composite_ir_kind r s fs (params_from_scale_info (t_params t))
                                (params_from_scale_info (t_params t)) = Ok (k, u)) \/
   (exists vs name docs l u,
       t_def t = TDVariant vs /\ ti_kind ir = KEnum name docs l /\
       variants_go r s (params_from_scale_info (t_params t)) vs
                   (params_from_scale_info (t_params t)) = Ok (l, u))).
Proof.
  intros H. unfold create_type_ir in H.
  destruct (negb (is_composite_or_variant (t_def t))); [discriminate|].
  destruct (path_ident (t_path t)) as [nm|]; [|discriminate].
  apply bind_ok in H as (name & _ & H).
  apply bind_ok in H as ([[kind cdac] unused] & Hk & H).
  apply bind_ok in H as (d & _ & H). inversion H; subst; clear H. cbn [ti_params ti_kind].
  split; [reflexivity|].
  destruct (t_def t) as [fs|vs| | | | | |]; try discriminate.
  - left. apply bind_ok in Hk as ([k u] & Hc & Hk). cbn [fst snd] in Hk.
    exists fs, name, (docs_from_scale_info s (t_docs t)), k, u. inversion Hk; subst. auto.
  - right. apply bind_ok in Hk as ([l u] & Hc & Hk). cbn [fst snd] in Hk.
    exists vs, name, (docs_from_scale_info s (t_docs t)), l, u. inversion Hk; subst. auto.
Qed.

Section KindShapes.
  Variable r : registry.
  Variable s : settings.
  Variable sh : tpath -> shape.
  Variable g : N -> shape.
  Variable P : list tparam_ir.

  Definition fld_of (f : field) : fshape := (f_name f, is_boxed_gen f, g (f_ty f)).

  Lemma ckind_shapes fs u k u' :
    create_composite_ir_kind r s fs P u = Ok (k, u') ->
    (forall f fp, In f fs -> resolve_field_type_path r s (f_ty f) P (f_type_name f) = Ok fp ->
                  sh fp = g (f_ty f)) ->
    field_shapes sh k = map fld_of fs.
  Proof.
    intros H Hf. unfold create_composite_ir_kind in H.
    destruct fs as [|f0 fs0]; [inversion H; reflexivity|].
    set (fs := f0 :: fs0) in *.
    destruct (all_named fs || all_unnamed fs) eqn:Hnu; cbn [negb] in H; [|discriminate].
    destruct (all_named fs) eqn:Hn.
    - apply bind_ok in H as (l & Hl & H). inversion H; subst. cbn [field_shapes].
      apply map_Forall2_eq. apply mapM_ok_Forall2 in Hl.
      eapply Forall2_impl_In; [exact Hl|]. cbn beta. intros f x Hin Hx.
      apply bind_ok in Hx as (id & Hid & Hx). apply bind_ok in Hx as (fi & Hfi & Hx).
      inversion Hx; subst. cbn [fst snd].
      unfold all_named in Hn. rewrite forallb_forall in Hn. specialize (Hn f Hin).
      destruct (f_name f) as [nm|] eqn:Hnm; [|discriminate].
      apply parse_ident_ok in Hid. subst id.
      unfold field_ir_of in Hfi. apply bind_ok in Hfi as (p & Hp & Hfi). inversion Hfi; subst.
      cbn [fi_boxed fi_path]. unfold fld_of. rewrite Hnm, (Hf f p Hin Hp). reflexivity.
    - cbn [orb] in Hnu. apply bind_ok in H as (l & Hl & H). inversion H; subst. cbn [field_shapes].
      apply map_Forall2_eq. apply mapM_ok_Forall2 in Hl.
      eapply Forall2_impl_In; [exact Hl|]. cbn beta. intros f x Hin Hx.
      unfold all_unnamed in Hnu. rewrite forallb_forall in Hnu. specialize (Hnu f Hin).
      destruct (f_name f) as [nm|] eqn:Hnm; [discriminate|].
      unfold field_ir_of in Hx. apply bind_ok in Hx as (p & Hp & Hx). inversion Hx; subst.
      cbn [fi_boxed fi_path]. unfold fld_of. rewrite Hnm, (Hf f p Hin Hp). reflexivity.
  Qed.

  Lemma variants_shapes : forall vs u l u',
    variants_go r s P vs u = Ok (l, u') ->
    (forall v f fp, In v vs -> In f (v_fields v) ->
                    resolve_field_type_path r s (f_ty f) P (f_type_name f) = Ok fp ->
                    sh fp = g (f_ty f)) ->
    map (fun x => (ci_name (snd x), fst x, field_shapes sh (ci_kind (snd x)))) l =
    map (fun v => (v_name v, v_index v, map fld_of (v_fields v))) vs.
  Proof.
    induction vs as [|v vs IH]; intros u l u' H Hf.
    - cbn in H. inversion H; reflexivity.
    - cbn [variants_go] in H. fold (variants_go r s P) in H.
      apply bind_ok in H as (vn & Hvn & H). apply bind_ok in H as ([k u1] & Hk & H).
      apply bind_ok in H as ([rest u2] & Hrest & H). cbn [fst snd] in H, Hrest.
      inversion H; subst. cbn [map fst snd ci_name ci_kind].
      apply parse_ident_ok in Hvn. subst vn.
      rewrite (ckind_shapes _ _ _ _ Hk) by (intros f fp Hin; apply (Hf v f fp); [left; reflexivity|assumption]).
      f_equal. eapply IH; [exact Hrest|]. intros v' f fp Hv'. apply Hf. right; assumption.
  Qed.
End KindShapes.

(** ** the core: every arm of the resolution is a congruence of shapes *)
Section Core.
  Variable r : registry.
  Variable s : settings.
  Variable m : items.

  (** all the proof needs to know about the generated items: the path of an
      item-eligible entry names an item that is, up to the concrete ids stored in its
      parameters, the IR of that very entry *)
  Definition items_ok : Prop :=
    forall id X, resolve r id = Some X -> item_eligible s X = true ->
      forallb ident_lexb (t_path X) = true ->
      exists ir irX flat,
        find_item m s (rel_path (s_root s :: t_path X)) = Some ir /\
        create_type_ir r s X flat = Ok (Some irX) /\
        erase_ids ir = erase_ids irX.

  Hypothesis Hitems : items_ok.
  Hypothesis Hfresh : root_fresh s.

  (** the substitution [sg] binds every parameter of [P] to a type expression that has,
      to every depth up to [n], the registry shape of the id the parameter stands for *)
  Definition sigma_ok (n : nat) (P : list tparam_ir) (sg : sigma) : Prop :=
    forall p, In p P -> exists a, sigma_get sg (tpi_idx p) = Some a /\
      forall k, (k <= n)%nat -> shape_rust m s k a = shape_reg r s k (tpi_id p).

  Lemma sigma_ok_le n k P sg : (k <= n)%nat -> sigma_ok n P sg -> sigma_ok k P sg.
  Proof.
    intros Hle H p Hin. destruct (H p Hin) as (a & Ha & Hk). exists a. split; [assumption|].
    intros j Hj. apply Hk. lia.
  Qed.

  Lemma find_parent_some P id orig p :
    find_parent P id orig = Some p -> In p P /\ tpi_id p = id.
  Proof.
    unfold find_parent. intros H. apply find_some in H as [Hin H].
    apply andb_prop in H as [H _]. apply N.eqb_eq in H. auto.
  Qed.

  Lemma namespace_two a b l : namespace (a :: b :: l) <> [].
  Proof. unfold namespace. cbn [removelast]. destruct l; discriminate. Qed.

  Theorem resolve_shape : forall n fuel id isf P orig fp sg,
    resolve_rec r s fuel id isf P orig = Ok fp -> sigma_ok n P sg ->
    shape_rust m s n (subst_tpath sg fp) = shape_reg r s n id.
  Proof.
    induction n as [n IHn] using lt_wf_ind. intros fuel id isf P orig fp sg H Hsg.
    destruct n as [|n']; [reflexivity|].
    destruct fuel as [|fuel']; [discriminate|].
    rewrite resolve_rec_S in H.
    destruct (find_parent P id orig) as [p|] eqn:Hfp.
    { (* a parent parameter *)
      inversion H; subst fp. apply find_parent_some in Hfp as [Hin Hid].
      destruct (Hsg p Hin) as (a & Ha & Hk). cbn [subst_tpath]. rewrite Ha, <- Hid. apply Hk. lia. }
    apply bind_ok in H as (t0 & Ht0 & H). apply bind_ok in H as (t & Ht & H).
    apply bind_ok in H as (params & Hparams & H).
    destruct (entry_body_spec r id t0 t Ht0 Ht) as (Hbody & id' & Hid').
    (* sub-resolutions at lower depth *)
    assert (Hsub : forall k e a, (k <= n')%nat -> resolve_rec r s fuel' e false P None = Ok a ->
                     shape_rust m s k (subst_tpath sg a) = shape_reg r s k e).
    { intros k e a Hk He. eapply (IHn k); [lia|exact He|]. eapply sigma_ok_le; [|exact Hsg]. lia. }
    assert (Hsubs : forall k es l, (k <= n')%nat ->
                     mapM (fun i => resolve_rec r s fuel' i false P None) es = Ok l ->
                     map (shape_rust m s k) (map (subst_tpath sg) l) = map (shape_reg r s k) es).
    { intros k es l Hk Hl. rewrite map_map. apply map_Forall2_eq. apply mapM_ok_Forall2 in Hl.
      eapply Forall2_impl_In; [exact Hl|]. cbn beta. intros e a _ He. eapply Hsub; eauto. }
    cbn [shape_reg]. rewrite Hbody.
    destruct (t_def t) as [fs|vs|e|len e|es|pr|e|store order] eqn:Hdef.
    1,2: (* Composite / Variant *)
      unfold type_path_maybe_with_substitutes, for_path_with_params in H;
      unfold named_shape;
      destruct (subs_get (s_subs s) (t_path t)) as [sub|] eqn:Hsubst.
    1,3: (* substituted *)
      destruct (subs_get_In _ _ _ Hsubst) as (kk & Hin);
      destruct Hfresh as (Hc & Hlt & Ha & Hs); specialize (Hs kk sub Hin);
      destruct (su_map sub) as [|mp];
      [ inversion H; subst fp; cbn [subst_tpath shape_rust];
        rewrite (find_item_none m s _ Hs); f_equal; apply Hsubs; [lia|assumption]
      | match type of H with
        | match ?sel with _ => _ end = _ => destruct sel as [|x sel'] eqn:Hsel
        end;
        [ inversion H; subst fp; cbn [subst_tpath shape_rust map];
          rewrite (find_item_none m s _ Hs); reflexivity
        | apply bind_ok in H as (repl & _ & H); inversion H; subst fp;
          cbn [subst_tpath shape_rust map];
          rewrite (find_item_none m s _
                     (until_lt_hd _ _ _ Hlt (until_lt_replace repl (su_path sub)) Hs));
          rewrite until_lt_replace; reflexivity ] ].
    1,2: (* not substituted: prelude or item *)
      apply bind_ok in H as (ptoks & Hp & H); inversion H; subst fp; clear H;
      unfold from_type_def_path in Hp;
      destruct (t_path t) as [|a0 [|a1 pl]] eqn:Hpath; [discriminate| |].
    1,3: (* prelude *)
      destruct (assoc_str (prelude_table (alloc_tokens (s_alloc s))) a0) as [tk|] eqn:Htk;
      [|discriminate]; inversion Hp; subst ptoks;
      destruct Hfresh as (Hc & Hlt & Ha & Hs);
      cbn [subst_tpath shape_rust];
      rewrite (find_item_none m s _ (prelude_hd _ _ _ _ Hc Ha Htk)); f_equal;
      apply Hsubs; [lia|assumption].
    1,2: (* a generated item *)
      destruct (forallb path_seg_okb (a0 :: a1 :: pl)) eqn:Hlex; [|discriminate];
      apply forallb_seg_lexb in Hlex;
      assert (Hpt : ptoks = rel_path (s_root s :: t_path t)) by (rewrite Hpath; congruence);
      subst ptoks; clear Hp; rewrite <- Hpath in Hlex;
      assert (Helig : item_eligible s t = true)
        by (unfold item_eligible, subs_contains; rewrite Hdef, Hpath, Hsubst;
            destruct (namespace (a0 :: a1 :: pl)) eqn:Hns;
            [exfalso; exact (namespace_two _ _ _ Hns)|reflexivity]);
      destruct (Hitems id' t Hid' Helig Hlex) as (ir & irX & flat & Hfind & Hir & Herase);
      cbn [subst_tpath shape_rust]; rewrite Hfind;
      rewrite (item_shape_erase_eq m s n' ir irX _ Herase);
      destruct (create_type_ir_inv r s t flat irX Hir) as (HP & Hkind);
      unfold item_shape_with; rewrite HP;
      set (PX := params_from_scale_info (t_params t)) in *;
      set (sg' := mk_sigma PX (map (subst_tpath sg) params));
      assert (Hsg' : sigma_ok n' PX sg')
        by (intros p Hin;
            assert (HF : Forall2 (fun q a => resolve_rec r s fuel' (tpi_id q) false P None = Ok a)
                                 PX params)
              by (apply mapM_ok_Forall2 in Hparams; rewrite param_ids_params in Hparams;
                  fold PX in Hparams; apply Forall2_map_l in Hparams; exact Hparams);
            destruct (sigma_get_combine (subst_tpath sg) PX params HF (params_nodup _) p Hin)
              as (a & Ha & Hra);
            exists (subst_tpath sg a); split; [exact Ha|];
            intros k Hk; eapply Hsub; [lia|exact Hra]);
      assert (Hfields : forall f fp', resolve_field_type_path r s (f_ty f) PX (f_type_name f) = Ok fp' ->
                          shape_rust m s n' (subst_tpath sg' fp') = shape_reg r s n' (f_ty f))
        by (intros f fp' Hf; eapply (IHn n'); [lia|exact Hf|exact Hsg']).
    - (* struct *)
      destruct Hkind as [(fs' & name & docs & k & u & Hd & Hk & Hc)|(vs' & name & docs & l & u & Hd & _)];
        [|congruence].
      assert (fs' = fs) by congruence. subst fs'. rewrite Hk. cbn [kind_shape ci_kind]. f_equal.
      apply (ckind_shapes r s _ (shape_reg r s n') PX fs PX k u Hc).
      intros f fp' _. apply Hfields.
    - (* enum *)
      destruct Hkind as [(fs' & name & docs & k & u & Hd & _)|(vs' & name & docs & l & u & Hd & Hk & Hc)];
        [congruence|].
      assert (vs' = vs) by congruence. subst vs'. rewrite Hk. cbn [kind_shape]. f_equal.
      apply (variants_shapes r s _ (shape_reg r s n') PX vs PX l u Hc).
      intros v f fp' _ _. apply Hfields.
    - (* sequence *)
      apply bind_ok in H as (i & Hi & H). inversion H; subst fp. cbn [subst_tpath shape_rust].
      f_equal. eapply Hsub; eauto.
    - (* array *)
      apply bind_ok in H as (i & Hi & H). inversion H; subst fp. cbn [subst_tpath shape_rust].
      f_equal. eapply Hsub; eauto.
    - (* tuple *)
      apply bind_ok in H as (l & Hl & H). inversion H; subst fp. cbn [subst_tpath shape_rust].
      f_equal. apply Hsubs; [lia|assumption].
    - (* primitive *)
      inversion H; subst fp. reflexivity.
    - (* compact *)
      apply bind_ok in H as (i & Hi & H). destruct (s_compact s) as [c|]; [|discriminate].
      inversion H; subst fp. cbn [subst_tpath shape_rust]. f_equal. eapply Hsub; eauto.
    - (* bit sequence *)
      destruct (s_bits s) as [b|]; [|discriminate].
      apply bind_ok in H as (o & Ho & H). apply bind_ok in H as (st & Hst & H).
      inversion H; subst fp. cbn [subst_tpath shape_rust]. f_equal; eapply Hsub; eauto.
  Qed.
End Core.
