(** Proofs about the description model (C13): totality / termination on
    well-formed registries, cyclic ones included, and the whitespace clause. *)
From Coq Require Import List NArith String Bool Lia.
From V Require Import Base.Util Base.Result Base.Strings Model.Registry Model.Format
  Model.Describe Proofs.FormatProofs.
Import ListNotations.

(** ** generic facts *)
Lemma mapM_total {A B} (f : A -> result B) l :
  (forall x, In x l -> exists y, f x = Ok y) -> exists ys, mapM f l = Ok ys.
Proof.
  induction l as [|x l IH]; intros H; cbn [mapM].
  - eauto.
  - destruct (H x (or_introl eq_refl)) as [y Hy]. rewrite Hy. cbn [bind].
    destruct IH as [ys Hys]; [intros; apply H; right; assumption|].
    rewrite Hys. cbn [bind]. eauto.
Qed.

Lemma filter_length_le {A} (f g : A -> bool) l :
  (forall x, In x l -> g x = true -> f x = true) ->
  (List.length (filter g l) <= List.length (filter f l))%nat.
Proof.
  induction l as [|x l IH]; intros H; cbn [filter]; [lia|].
  assert (IH' := IH (fun y Hy => H y (or_intror Hy))).
  destruct (g x) eqn:Hg.
  - rewrite (H x (or_introl eq_refl) Hg). cbn [List.length]. lia.
  - destruct (f x); cbn [List.length]; lia.
Qed.

Lemma filter_length_lt {A} (f g : A -> bool) l x :
  In x l -> f x = true -> g x = false ->
  (forall y, In y l -> g y = true -> f y = true) ->
  (List.length (filter g l) < List.length (filter f l))%nat.
Proof.
  induction l as [|y l IH]; intros Hin Hf Hg H; [destruct Hin|].
  cbn [filter]. destruct Hin as [->|Hin].
  - rewrite Hf, Hg. cbn [List.length].
    pose proof (filter_length_le f g l (fun z Hz => H z (or_intror Hz))). lia.
  - assert (IH' := IH Hin Hf Hg (fun z Hz => H z (or_intror Hz))).
    destruct (g y) eqn:Hgy.
    + rewrite (H y (or_introl eq_refl) Hgy). cbn [List.length]. lia.
    + destruct (f y); cbn [List.length]; lia.
Qed.

(** ** the cache *)
Definition ext (c c' : cache) : Prop :=
  forall i, cache_mem c i = true -> cache_mem c' i = true.

Lemma ext_refl c : ext c c.
Proof. intros i H; exact H. Qed.

Lemma ext_trans a b c : ext a b -> ext b c -> ext a c.
Proof. intros H1 H2 i H; auto. Qed.

Lemma cache_mem_put c id v i :
  cache_mem (cache_put c id v) i = (N.eqb id i || cache_mem c i).
Proof.
  unfold cache_mem, cache_put. cbn [cache_get].
  destruct (N.eqb id i); reflexivity.
Qed.

Lemma ext_put c id v : ext c (cache_put c id v).
Proof. intros i H. rewrite cache_mem_put, H. apply orb_true_r. Qed.

Lemma all_named_unnamed_excl fs :
  fs <> [] -> all_named fs && all_unnamed fs = false.
Proof.
  destruct fs as [|f fs]; [congruence|]. intros _.
  unfold all_named, all_unnamed. cbn [forallb]. destruct (f_name f); cbn.
  - rewrite andb_false_r. reflexivity.
  - reflexivity.
Qed.

(** ** the policy, over an abstract [transformer.resolve] that succeeds on the
    ids satisfying [okc] in every cache extending [c0] *)
Section PolicyTotal.
  Variable r : registry.
  Variable name_of : ty -> result string.
  Variable rec : cache -> N -> result (string * cache).
  Variable okc : N -> Prop.
  Variable c0 : cache.
  Hypothesis Hrec : forall c ch, okc ch -> ext c0 c ->
    exists s c', rec c ch = Ok (s, c') /\ ext c c'.

  Lemma mapS_total {A} (f : cache -> A -> result (string * cache)) (P : A -> Prop) :
    (forall c x, P x -> ext c0 c -> exists s c', f c x = Ok (s, c') /\ ext c c') ->
    forall l c, (forall x, In x l -> P x) -> ext c0 c ->
      exists ds c', mapS f c l = Ok (ds, c') /\ ext c c'.
  Proof.
    intros Hf. induction l as [|x l IH]; intros c HP Hc; cbn [mapS].
    - exists [], c. split; [reflexivity|apply ext_refl].
    - destruct (Hf c x (HP x (or_introl eq_refl)) Hc) as (s & c1 & E1 & X1).
      rewrite E1. cbn [bind].
      destruct (IH c1 (fun y Hy => HP y (or_intror Hy)) (ext_trans _ _ _ Hc X1))
        as (ds & c2 & E2 & X2).
      rewrite E2. cbn [bind]. exists (s :: ds), c2. split; [reflexivity|].
      eapply ext_trans; eassumption.
  Qed.

  Lemma field_desc_total c f :
    okc (f_ty f) -> ext c0 c ->
    exists s c', field_desc rec c f = Ok (s, c') /\ ext c c'.
  Proof.
    intros Hok Hc. unfold field_desc.
    destruct (Hrec c (f_ty f) Hok Hc) as (s & c1 & E & X). rewrite E. cbn [bind].
    eexists _, c1. split; [reflexivity|exact X].
  Qed.

  Lemma fields_desc_total c fs :
    fields_okb fs = true -> (forall f, In f fs -> okc (f_ty f)) -> ext c0 c ->
    exists s c', fields_desc rec c fs = Ok (s, c') /\ ext c c'.
  Proof.
    intros Hok Hch Hc. unfold fields_desc.
    destruct fs as [|f0 fs0] eqn:Efs.
    - exists "()"%string, c. split; [reflexivity|apply ext_refl].
    - rewrite <- Efs in *.
      assert (Hne : fs <> []) by (rewrite Efs; discriminate).
      pose proof (all_named_unnamed_excl fs Hne) as Hex.
      unfold fields_okb in Hok.
      destruct (mapS_total (field_desc rec) (fun f => okc (f_ty f))
                  (fun c' x Hx Hc' => field_desc_total c' x Hx Hc') fs c Hch Hc)
        as (ds & c1 & E & X).
      destruct (all_named fs), (all_unnamed fs); cbn in Hok, Hex; try discriminate;
        cbn [andb negb]; rewrite E; cbn [bind]; eexists _, c1; (split; [reflexivity|exact X]).
  Qed.

  Lemma variant_desc_total c v :
    fields_okb (v_fields v) = true -> (forall f, In f (v_fields v) -> okc (f_ty f)) -> ext c0 c ->
    exists s c', variant_desc rec c v = Ok (s, c') /\ ext c c'.
  Proof.
    intros Hok Hch Hc. unfold variant_desc.
    destruct (fields_desc_total c (v_fields v) Hok Hch Hc) as (s & c1 & E & X).
    rewrite E. cbn [bind]. eexists _, c1. split; [reflexivity|exact X].
  Qed.

  Lemma typedef_desc_total c d :
    def_fields_okb d = true -> (forall ch, In ch (def_ids d) -> okc ch) -> ext c0 c ->
    exists s c', typedef_desc rec c d = Ok (s, c') /\ ext c c'.
  Proof.
    intros Hok Hch Hc. destruct d as [fs|vs|e|len e|ts|p|e|store order];
      cbn [typedef_desc def_ids def_fields_okb] in *.
    - apply fields_desc_total; auto.
      intros f Hf. apply Hch. apply in_map. exact Hf.
    - destruct (mapS_total (variant_desc rec)
                  (fun v => fields_okb (v_fields v) = true /\
                            forall f, In f (v_fields v) -> okc (f_ty f))
                  (fun c' v Hv Hc' => variant_desc_total c' v (proj1 Hv) (proj2 Hv) Hc')
                  vs c) as (ds & c1 & E & X); auto.
      { intros v Hv. split.
        - rewrite forallb_forall in Hok. apply Hok; exact Hv.
        - intros f Hf. apply Hch. apply in_flat_map. exists v. split; [exact Hv|].
          apply in_map. exact Hf. }
      rewrite E. cbn [bind]. eexists _, c1. split; [reflexivity|exact X].
    - destruct (Hrec c e (Hch e (or_introl eq_refl)) Hc) as (s & c1 & E & X).
      rewrite E. cbn [bind]. eexists _, c1. split; [reflexivity|exact X].
    - destruct (Hrec c e (Hch e (or_introl eq_refl)) Hc) as (s & c1 & E & X).
      rewrite E. cbn [bind]. eexists _, c1. split; [reflexivity|exact X].
    - destruct (mapS_total rec okc Hrec ts c Hch Hc) as (ds & c1 & E & X).
      rewrite E. cbn [bind]. eexists _, c1. split; [reflexivity|exact X].
    - eexists _, c. split; [reflexivity|apply ext_refl].
    - destruct (Hrec c e (Hch e (or_introl eq_refl)) Hc) as (s & c1 & E & X).
      rewrite E. cbn [bind]. eexists _, c1. split; [reflexivity|exact X].
    - destruct (Hrec c order (Hch order (or_intror (or_introl eq_refl))) Hc) as (o & c1 & E1 & X1).
      rewrite E1. cbn [bind].
      destruct (Hrec c1 store (Hch store (or_introl eq_refl)) (ext_trans _ _ _ Hc X1))
        as (s & c2 & E2 & X2).
      rewrite E2. cbn [bind]. eexists _, c2. split; [reflexivity|].
      eapply ext_trans; eassumption.
  Qed.

  Lemma ty_desc_total c t :
    (is_named t = true -> exists s, name_of t = Ok s) ->
    def_fields_okb (t_def t) = true -> (forall ch, In ch (def_ids (t_def t)) -> okc ch) ->
    ext c0 c ->
    exists s c', ty_desc name_of rec c t = Ok (s, c') /\ ext c c'.
  Proof.
    intros Hname Hok Hch Hc. unfold ty_desc.
    assert (exists nm, (if is_named t then name_of t else Ok ""%string) = Ok nm) as [nm Enm].
    { destruct (is_named t); [apply Hname; reflexivity|eauto]. }
    rewrite Enm. cbn [bind].
    destruct (typedef_desc_total c (t_def t) Hok Hch Hc) as (s & c1 & E & X).
    rewrite E. cbn [bind]. eexists _, c1. split; [reflexivity|exact X].
  Qed.
End PolicyTotal.

(** ** registries *)
Section Registry.
  Variable r : registry.
  Let n := List.length r.

  Lemma resolve_lt id : (id < N.of_nat n)%N -> exists t, resolve r id = Some t.
  Proof.
    intros H. unfold resolve. destruct (nth_error r (N.to_nat id)) as [[x t]|] eqn:E; [eauto|].
    apply nth_error_None in E. subst n. lia.
  Qed.

  Lemma resolve_nth id t :
    resolve r id = Some t -> exists x, nth_error r (N.to_nat id) = Some (x, t).
  Proof.
    unfold resolve. destruct (nth_error r (N.to_nat id)) as [[x t']|]; intros H; inversion H; eauto.
  Qed.

  Lemma resolve_in id t : resolve r id = Some t -> exists x, In (x, t) r.
  Proof.
    intros H. destruct (resolve_nth id t H) as [x Hx]. exists x. eapply nth_error_In; eassumption.
  Qed.

  Lemma resolve_some_lt id t : resolve r id = Some t -> (id < N.of_nat n)%N.
  Proof.
    intros H. destruct (resolve_nth id t H) as [x Hx].
    assert (N.to_nat id < List.length r)%nat by (apply nth_error_Some; congruence).
    subst n. lia.
  Qed.

  Lemma closed_spec id t ch :
    closed_reg r = true -> resolve r id = Some t ->
    In ch (param_ids t ++ def_ids (t_def t)) -> (ch < N.of_nat n)%N.
  Proof.
    intros Hc Hr Hin. destruct (resolve_in id t Hr) as [x Hx].
    unfold closed_reg in Hc. rewrite forallb_forall in Hc. specialize (Hc _ Hx). cbn [snd] in Hc.
    rewrite forallb_forall in Hc. specialize (Hc _ Hin). apply N.ltb_lt in Hc. exact Hc.
  Qed.

  Lemma fields_ok_spec id t :
    fields_all_okb r = true -> resolve r id = Some t -> def_fields_okb (t_def t) = true.
  Proof.
    intros Hf Hr. destruct (resolve_in id t Hr) as [x Hx].
    unfold fields_all_okb in Hf. rewrite forallb_forall in Hf. apply (Hf _ Hx).
  Qed.

  Lemma rank_ok_from_spec rk m : forall l i k e,
    rank_ok_from rk m i l = true -> nth_error l k = Some e ->
    (rk (i + N.of_nat k) < m)%N /\
    forall c, In c (anon_edges (snd e)) -> (rk c < rk (i + N.of_nat k))%N.
  Proof.
    induction l as [|e0 l IH]; intros i k e H Hn.
    - destruct k; discriminate.
    - cbn [rank_ok_from] in H. apply andb_prop in H as [H H3]. apply andb_prop in H as [H1 H2].
      destruct k as [|k]; cbn [nth_error] in Hn.
      + inversion Hn; subst e0. replace (i + N.of_nat 0)%N with i by lia. split.
        * apply N.ltb_lt; exact H1.
        * intros c Hc. rewrite forallb_forall in H2. apply N.ltb_lt. apply H2; exact Hc.
      + replace (i + N.of_nat (S k))%N with (i + 1 + N.of_nat k)%N by lia.
        apply IH; assumption.
  Qed.

  Lemma rank_ok_spec rk id t :
    rank_okb r rk = true -> resolve r id = Some t ->
    (rk id < N.of_nat n)%N /\ forall c, In c (anon_edges t) -> (rk c < rk id)%N.
  Proof.
    intros H Hr. destruct (resolve_nth id t Hr) as [x Hx].
    destruct (rank_ok_from_spec rk _ _ _ _ _ H Hx) as [A B].
    replace (0 + N.of_nat (N.to_nat id))%N with id in * by lia.
    split; [exact A|exact B].
  Qed.

  (** *** well-formedness, with an arbitrary rank function as witness *)
  Variable rk : N -> N.
  Hypothesis Hclosed : closed_reg r = true.
  Hypothesis Hfields : fields_all_okb r = true.
  Hypothesis Hrank : rank_okb r rk = true.

  Lemma name_edges_closed id t ch :
    resolve r id = Some t -> In ch (name_edges t) -> (ch < N.of_nat n)%N.
  Proof.
    intros Hr Hin. apply (closed_spec id t ch Hclosed Hr). apply in_or_app.
    unfold name_edges in Hin.
    destruct (t_def t) eqn:Ed; cbn [def_ids]; try (right; exact Hin); try (destruct Hin);
      destruct (is_named t); try (destruct Hin); left; exact Hin.
  Qed.

  (** *** [type_name_with_type_params] terminates: fuel above the rank *)
  Lemma tname_total : forall fuel id t,
    resolve r id = Some t -> (N.to_nat (rk id) < fuel)%nat -> exists s, tname r fuel t = Ok s.
  Proof.
    induction fuel as [|f IH]; intros id t Hr Hf; [lia|].
    destruct (rank_ok_spec rk id t Hrank Hr) as [_ Hdec].
    assert (Hof : forall c, In c (name_edges t) ->
              exists s, match resolve r c with
                        | Some t' => tname r f t'
                        | None => Panic unwrap_none
                        end = Ok s).
    { intros c Hc.
      destruct (resolve_lt c (name_edges_closed id t c Hr Hc)) as [t' Ht']. rewrite Ht'.
      apply (IH c t' Ht').
      assert (rk c < rk id)%N by (apply Hdec; unfold anon_edges; apply in_or_app; left; exact Hc).
      lia. }
    cbn [tname]. unfold name_edges in Hof.
    destruct (t_def t) as [fs|vs|e|len e|ts|p|e|store order] eqn:Ed.
    - destruct (path_ident (t_path t)) as [ident|] eqn:Ep; [|eauto].
      assert (Hn : is_named t = true) by (unfold is_named; rewrite Ep; reflexivity).
      rewrite Hn in Hof.
      match goal with |- context [mapM ?g (t_params t)] =>
        destruct (mapM_total g (t_params t)) as [ps Eps] end.
      { intros p Hp. destruct (tp_ty p) as [i|] eqn:Ei; [|eauto].
        apply Hof. unfold param_ids. apply in_flat_map. exists p. split; [exact Hp|].
        rewrite Ei. left; reflexivity. }
      rewrite Eps. cbn [bind]. destruct (String.eqb _ _); eauto.
    - destruct (path_ident (t_path t)) as [ident|] eqn:Ep; [|eauto].
      assert (Hn : is_named t = true) by (unfold is_named; rewrite Ep; reflexivity).
      rewrite Hn in Hof.
      match goal with |- context [mapM ?g (t_params t)] =>
        destruct (mapM_total g (t_params t)) as [ps Eps] end.
      { intros p Hp. destruct (tp_ty p) as [i|] eqn:Ei; [|eauto].
        apply Hof. unfold param_ids. apply in_flat_map. exists p. split; [exact Hp|].
        rewrite Ei. left; reflexivity. }
      rewrite Eps. cbn [bind]. destruct (String.eqb _ _); eauto.
    - destruct (Hof e (or_introl eq_refl)) as [s Es]. rewrite Es. cbn [bind]. eauto.
    - destruct (Hof e (or_introl eq_refl)) as [s Es]. rewrite Es. cbn [bind]. eauto.
    - match goal with |- context [mapM ?g ts] =>
        destruct (mapM_total g ts) as [ds Eds] end.
      { intros c Hc. apply Hof; exact Hc. }
      rewrite Eds. cbn [bind]. eauto.
    - eauto.
    - destruct (Hof e (or_introl eq_refl)) as [s Es]. rewrite Es. cbn [bind]. eauto.
    - eauto.
  Qed.

  (** *** the measure: named ids not yet in the cache *)
  Definition all_ids : list N := map N.of_nat (seq 0 n).
  Definition named_id (i : N) : bool :=
    match resolve r i with Some t => is_named t | None => false end.
  Definition unmarked (c : cache) : nat :=
    List.length (filter (fun i => named_id i && negb (cache_mem c i)) all_ids).

  Lemma all_ids_in id : (id < N.of_nat n)%N -> In id all_ids.
  Proof.
    intros H. unfold all_ids. apply in_map_iff. exists (N.to_nat id). split; [lia|].
    apply in_seq. lia.
  Qed.

  Lemma unmarked_mono c c' : ext c c' -> (unmarked c' <= unmarked c)%nat.
  Proof.
    intros H. unfold unmarked. apply filter_length_le. intros x _ Hx.
    apply andb_prop in Hx as [A B]. rewrite A. cbn [andb].
    destruct (cache_mem c x) eqn:E; [|reflexivity].
    rewrite (H x E) in B. discriminate.
  Qed.

  Lemma unmarked_put c c' id t v :
    resolve r id = Some t -> is_named t = true -> cache_mem c id = false ->
    ext (cache_put c id v) c' -> (unmarked c' < unmarked c)%nat.
  Proof.
    intros Hr Hn Hm Hx. unfold unmarked.
    apply filter_length_lt with (x := id).
    - apply all_ids_in. eapply resolve_some_lt; eassumption.
    - unfold named_id. rewrite Hr, Hn, Hm. reflexivity.
    - assert (cache_mem c' id = true) as ->.
      { apply Hx. rewrite cache_mem_put, N.eqb_refl. reflexivity. }
      apply andb_false_r.
    - intros y _ Hy. apply andb_prop in Hy as [A B]. rewrite A. cbn [andb].
      destruct (cache_mem c y) eqn:E; [|reflexivity].
      assert (cache_mem c' y = true) as E'.
      { apply Hx. rewrite cache_mem_put, E. apply orb_true_r. }
      rewrite E' in B. discriminate.
  Qed.

  Lemma unmarked_pos c id t :
    resolve r id = Some t -> is_named t = true -> cache_mem c id = false ->
    (1 <= unmarked c)%nat.
  Proof.
    intros Hr Hn Hm.
    pose proof (unmarked_put c (cache_put c id CRec) id t CRec Hr Hn Hm (ext_refl _)). lia.
  Qed.

  (** *** [Transformer::resolve] terminates and succeeds *)
  Lemma dresolve_total nf : (n < nf)%nat -> forall fuel c id,
    (id < N.of_nat n)%N ->
    (unmarked c * n + N.to_nat (rk id) < fuel)%nat ->
    exists s c', dresolve r nf fuel c id = Ok (s, c') /\ ext c c'.
  Proof.
    intros Hnf. induction fuel as [|f IH]; intros c id Hid Hm; [lia|].
    destruct (resolve_lt id Hid) as [t Hr].
    destruct (rank_ok_spec rk id t Hrank Hr) as [Hrk Hdec].
    assert (Hname : exists s, tname r nf t = Ok s).
    { apply (tname_total nf id t Hr). lia. }
    assert (Hby : exists s c', (let* nm := tname r nf t in Ok (nm, c)) = Ok (s, c') /\ ext c c').
    { destruct Hname as [s Es]. rewrite Es. cbn [bind]. exists s, c. split; [reflexivity|apply ext_refl]. }
    (* expansion, given that every child can be resolved in every later cache *)
    assert (Hexp : (forall c1 ch, In ch (def_ids (t_def t)) -> ext (cache_put c id CRec) c1 ->
                      exists s c', dresolve r nf f c1 ch = Ok (s, c') /\ ext c1 c') ->
              exists s c',
                (let* (d, c') := ty_desc (tname r nf) (dresolve r nf f) (cache_put c id CRec) t in
                 Ok (d, cache_put c' id (CDone d))) = Ok (s, c') /\ ext c c').
    { intros Hch.
      destruct (ty_desc_total (tname r nf) (dresolve r nf f)
                  (fun ch => In ch (def_ids (t_def t))) (cache_put c id CRec)
                  (fun c1 ch H1 H2 => Hch c1 ch H1 H2)
                  (cache_put c id CRec) t (fun _ => Hname)
                  (fields_ok_spec id t Hfields Hr) (fun ch H => H) (ext_refl _))
        as (s & c1 & E & X).
      rewrite E. cbn [bind]. eexists _, _. split; [reflexivity|].
      eapply ext_trans; [apply ext_put|]. eapply ext_trans; [exact X|apply ext_put]. }
    assert (Hchild_lt : forall ch, In ch (def_ids (t_def t)) -> (ch < N.of_nat n)%N).
    { intros ch Hch. apply (closed_spec id t ch Hclosed Hr). apply in_or_app. right; exact Hch. }
    cbn [dresolve]. rewrite Hr.
    destruct (is_named t) eqn:Hn.
    - (* named: by name when in the cache, otherwise marked and expanded once *)
      destruct (cache_get c id) as [[|s0]|] eqn:Eg; [exact Hby|exact Hby|].
      assert (Hmem : cache_mem c id = false) by (unfold cache_mem; rewrite Eg; reflexivity).
      apply Hexp. intros c1 ch Hch Hx. apply IH; [apply Hchild_lt; exact Hch|].
      pose proof (unmarked_put c c1 id t CRec Hr Hn Hmem Hx) as Hlt.
      destruct (resolve_lt ch (Hchild_lt ch Hch)) as [tc Htc].
      destruct (rank_ok_spec rk ch tc Hrank Htc) as [Hrkc _].
      assert (unmarked c1 * n + n <= unmarked c * n)%nat by nia.
      lia.
    - (* unnamed: replay when computed, otherwise descend along a rank-decreasing edge *)
      assert (Hanon : exists s c',
                (let* (d, c') := ty_desc (tname r nf) (dresolve r nf f) (cache_put c id CRec) t in
                 Ok (d, cache_put c' id (CDone d))) = Ok (s, c') /\ ext c c').
      { apply Hexp. intros c1 ch Hch Hx. apply IH; [apply Hchild_lt; exact Hch|].
        assert (unmarked c1 <= unmarked c)%nat.
        { apply unmarked_mono. eapply ext_trans; [apply ext_put|exact Hx]. }
        assert (rk ch < rk id)%N.
        { apply Hdec. unfold anon_edges. apply in_or_app. right. rewrite Hn. exact Hch. }
        assert (unmarked c1 * n <= unmarked c * n)%nat by nia.
        lia. }
      destruct (cache_get c id) as [[|s0]|] eqn:Eg; [exact Hanon| |exact Hanon].
      exists s0, c. split; [reflexivity|apply ext_refl].
  Qed.

  Lemma unmarked_le c : (unmarked c <= n)%nat.
  Proof.
    unfold unmarked.
    assert (H : forall (g : N -> bool) l, (List.length (filter g l) <= List.length l)%nat).
    { intros g l. induction l as [|x l IH]; cbn [filter List.length]; [lia|].
      destruct (g x); cbn [List.length]; lia. }
    eapply PeanoNat.Nat.le_trans; [apply H|].
    unfold all_ids. rewrite map_length, seq_length. lia.
  Qed.

  Theorem describe_total_rank id :
    (id < N.of_nat n)%N -> exists s, describe r id = Ok s.
  Proof.
    intros Hid. unfold describe, describe_with.
    destruct (resolve_lt id Hid) as [t Hr].
    destruct (rank_ok_spec rk id t Hrank Hr) as [Hrk _].
    assert (Hnf : (n < name_fuel r)%nat) by (unfold name_fuel; fold n; lia).
    destruct (dresolve_total (name_fuel r) Hnf (desc_fuel r) [] id Hid)
      as (s & c' & E & _).
    { unfold desc_fuel. fold n. pose proof (unmarked_le []). nia. }
    rewrite E. cbn [bind]. eauto.
  Qed.
End Registry.

(** ** C13_total *)
Theorem describe_total r :
  wf_descb r = true ->
  forall id, (id < N.of_nat (List.length r))%N -> exists s, describe r id = Ok s.
Proof.
  intros H id Hid. unfold wf_descb in H.
  apply andb_prop in H as [H H3]. apply andb_prop in H as [H1 H2].
  eapply describe_total_rank; eassumption.
Qed.

Theorem describe_total_witness r (rk : N -> N) :
  closed_reg r = true -> fields_all_okb r = true -> rank_okb r rk = true ->
  forall id, (id < N.of_nat (List.length r))%N -> exists s, describe r id = Ok s.
Proof. intros; eapply describe_total_rank; eassumption. Qed.

Theorem describe_fmt_total r :
  wf_descb r = true ->
  forall id, (id < N.of_nat (List.length r))%N ->
    exists s, describe r id = Ok s /\ describe_fmt r id = Ok (format_text s).
Proof.
  intros H id Hid. destruct (describe_total r H id Hid) as [s E].
  exists s. split; [exact E|]. unfold describe_fmt. rewrite E. reflexivity.
Qed.

(** ** C13_format_ws: corollary of C15 *)
Theorem describe_format_ws r id s l :
  describe r id = Ok s -> describe_fmt r id = Ok l ->
  strip_ws l = strip_ws (utf8_decode s) /\ ws_ins (utf8_decode s) l.
Proof.
  intros E F. unfold describe_fmt in F. rewrite E in F. cbn [bind] in F. inversion F; subst l.
  unfold format_text, format_impl. split.
  - apply format_with_strip.
  - apply format_with_ws_ins.
Qed.

(** outcomes agree: the formatted call fails exactly like the unformatted one *)
Theorem describe_fmt_same_outcome r id :
  match describe r id with
  | Ok s => describe_fmt r id = Ok (format_text s)
  | Err e => describe_fmt r id = Err e
  | Panic m => describe_fmt r id = Panic m
  end.
Proof. unfold describe_fmt. destruct (describe r id); reflexivity. Qed.

(** ** the transformer policy, one step (building blocks of the lockstep reading) *)
Lemma dresolve_named_revisit r nf f c id t :
  resolve r id = Some t -> is_named t = true -> cache_mem c id = true ->
  dresolve r nf (S f) c id = (let* nm := tname r nf t in Ok (nm, c)).
Proof.
  intros Hr Hn Hm. cbn [dresolve]. rewrite Hr, Hn. unfold cache_mem in Hm.
  destruct (cache_get c id) as [[|s]|]; try discriminate; reflexivity.
Qed.

Lemma dresolve_unnamed_replay r nf f c id t s0 :
  resolve r id = Some t -> is_named t = false -> cache_get c id = Some (CDone s0) ->
  dresolve r nf (S f) c id = Ok (s0, c).
Proof. intros Hr Hn Hg. cbn [dresolve]. rewrite Hr, Hn, Hg. reflexivity. Qed.

Lemma dresolve_first_visit r nf f c id t s c' :
  resolve r id = Some t -> cache_mem c id = false ->
  dresolve r nf (S f) c id = Ok (s, c') ->
  exists nm body c1,
    (if is_named t then tname r nf t else Ok ""%string) = Ok nm /\
    typedef_desc (dresolve r nf f) (cache_put c id CRec) (t_def t) = Ok (body, c1) /\
    s = (def_prefix (t_def t) ++ nm ++ body)%string /\
    c' = cache_put c1 id (CDone s).
Proof.
  intros Hr Hm H. cbn [dresolve] in H. rewrite Hr in H. unfold cache_mem in Hm.
  destruct (cache_get c id); [discriminate|].
  apply bind_ok in H as ([d c1] & E & H). inversion H; subst s c'. clear H.
  unfold ty_desc in E. apply bind_ok in E as (nm & Enm & E).
  apply bind_ok in E as ([body c2] & Eb & E). inversion E; subst d c1.
  exists nm, body, c2. repeat split; assumption.
Qed.

(** ** non-vacuity: a cyclic registry (mutual recursion through Vec, Option,
    Box and a tuple that shares one unnamed id) satisfies the hypotheses *)
Open Scope string_scope.
Definition ex_field (n : string) (t : N) (tn : option string) : field := mk_field (Some n) t tn [].
Definition ex_registry : registry :=
  [ (0, mk_ty ["m"; "A"] [] (TDComposite [ex_field "b" 1 (Some "Vec<B>")]) []);
    (1, mk_ty [] [] (TDSequence 2) []);
    (2, mk_ty ["m"; "B"] []
          (TDComposite [ex_field "a" 3 (Some "Box<Option<A>>"); ex_field "t" 4 None;
                        ex_field "k" 5 None]) []);
    (3, mk_ty ["Option"] [mk_tparam "T" (Some 0)]
          (TDVariant [mk_variant "None" [] 0 []; mk_variant "Some" [mk_field None 0 None []] 1 []]) []);
    (4, mk_ty [] [] (TDTuple [1; 1]) []);
    (5, mk_ty [] [] (TDArray 3 6) []);
    (6, mk_ty [] [] (TDCompact 7) []);
    (7, mk_ty [] [] (TDPrimitive PU32) []) ]%N.

Example ex_wf : wf_descb ex_registry = true.
Proof. vm_compute. reflexivity. Qed.

Example ex_describe :
  describe ex_registry 0 =
  Ok "struct A{b: Vec<struct B{a: Box<enum Option<A>{None,Some(A)}>,t: (Vec<B>,Vec<B>),k: [Compact<u32>; 3]}>}".
Proof. vm_compute. reflexivity. Qed.

(** the id lies on a cycle: A -> Vec<B> -> B -> Option<A> -> A *)
Example ex_cyclic :
  In 1%N (def_ids (t_def (snd (nth 0 ex_registry (0%N, mk_ty [] [] (TDTuple []) []))))) /\
  In 2%N (def_ids (t_def (snd (nth 1 ex_registry (0%N, mk_ty [] [] (TDTuple []) []))))) /\
  In 3%N (def_ids (t_def (snd (nth 2 ex_registry (0%N, mk_ty [] [] (TDTuple []) []))))) /\
  In 0%N (def_ids (t_def (snd (nth 3 ex_registry (0%N, mk_ty [] [] (TDTuple []) []))))).
Proof. cbn. tauto. Qed.

Example ex_total_all_ids :
  forallb (fun i => is_ok (describe ex_registry (N.of_nat i))) (seq 0 (List.length ex_registry)) = true.
Proof. vm_compute. reflexivity. Qed.

Example ex_format_ws :
  match describe ex_registry 0, describe_fmt ex_registry 0 with
  | Ok s, Ok l => list_eqb N.eqb (strip_ws l) (strip_ws (utf8_decode s))
  | _, _ => false
  end = true.
Proof. vm_compute. reflexivity. Qed.

(** outside the class: an unprotected cycle (a sequence of itself) exhausts the fuel
    (the implementation overflows its stack), a missing id is an error *)
Example ex_unprotected_cycle :
  describe [(0%N, mk_ty [] [] (TDSequence 0) [])] 0 = Err EOutOfFuel
  /\ wf_descb [(0%N, mk_ty [] [] (TDSequence 0) [])] = false.
Proof. vm_compute. split; reflexivity. Qed.
