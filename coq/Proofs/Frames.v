(** C09: the switches are honoured and orthogonal.  Assembly of
    Proofs/FramesIR.v (IR-level orthogonality of docs / codec),
    Proofs/EmitMap.v (the emitter commutes with token renamings),
    Proofs/SubstMap.v (so does path resolution) and Proofs/FramesGen.v (so does
    the whole generation) into the C09 statements. *)
From Coq Require Import List NArith String Bool Lia.
From V Require Import Base.Strings Base.Result Model.Registry Model.Settings Model.Subst
  Model.TypePath Model.Derives Model.Generate Model.Emit Model.Equal Model.Switches Model.Inputs
  Proofs.GenProofs Proofs.TpMap Proofs.SubstMap Proofs.EmitMap Proofs.FramesIR Proofs.FramesGen.
Import ListNotations.
Open Scope string_scope. Open Scope list_scope.

(** ** words the generator never makes up (given the switches) *)
Lemma In_existsb w l : In w l -> existsb (String.eqb w) l = true.
Proof. intros H. apply existsb_exists. exists w. split; [exact H|apply String.eqb_refl]. Qed.

Ltac not_gen_lit_tac H :=
  destruct H as [H|[(n & H)|[(n & H)|[(n & H)|(x & H)]]]];
  [ apply In_existsb in H; vm_compute in H; discriminate H
  | cbn in H; discriminate H
  | unfold N_to_string in H; destruct (N.to_uint n); cbn in H; discriminate H
  | unfold N_to_string in H; destruct (N.to_uint n); cbn in H; discriminate H
  | unfold lit_string in H; discriminate H ].

Lemma std_not_gen_lit d c : ~ gen_lit d c "std".
Proof. intros H. destruct d, c; not_gen_lit_tac H. Qed.

Lemma doc_not_gen_lit c : ~ gen_lit false c "doc".
Proof. intros H. destruct c; not_gen_lit_tac H. Qed.

Lemma codec_not_gen_lit d : ~ gen_lit d false "codec".
Proof. intros H. destruct d; not_gen_lit_tac H. Qed.

Lemma gen_lit_mono d c w : gen_lit false false w -> gen_lit d c w.
Proof.
  intros [H|H]; [left|right; exact H].
  unfold lits_of in *. cbn [app] in H. rewrite app_nil_r in H. apply in_or_app. left. exact H.
Qed.

(** ** docs stripped: the inputs stored in the IR are unchanged *)
Lemma ir_inputs_strip_docs ir : ir_inputs (strip_docs_ir ir) = ir_inputs ir.
Proof.
  unfold ir_inputs, strip_docs_ir. cbn [ti_derives ti_kind]. f_equal.
  destruct (ti_kind ir) as [c|name docs vs]; [reflexivity|].
  cbn [strip_docs_kind kind_inputs]. f_equal.
  induction vs as [|v vs IH]; [reflexivity|]. cbn [map flat_map]. rewrite IH. reflexivity.
Qed.

(** ** item level (the emitter alone; inputs = the tokens stored in the IR) *)
Theorem docs_off_no_doc_attr s ir toks :
  type_ir_tokens s (strip_docs_ir ir) = Ok toks ->
  ~ In "doc" (alloc_tokens (s_alloc s) ++ ir_inputs ir) ->
  ~ In "doc" toks.
Proof.
  intros H Hn. apply (type_ir_tokens_from false s (strip_docs_ir ir) toks "doc" H).
  - intros _. apply strip_docs_ir_empty.
  - apply doc_not_gen_lit.
  - rewrite ir_inputs_strip_docs. exact Hn.
Qed.

Theorem codec_off_no_codec_attr s ir toks :
  ti_codec ir = false ->
  type_ir_tokens s ir = Ok toks ->
  ~ In "codec" (alloc_tokens (s_alloc s) ++ ir_inputs ir) ->
  ~ In "codec" toks.
Proof.
  intros Hc H Hn. apply (type_ir_tokens_from true s ir toks "codec" H).
  - discriminate.
  - rewrite Hc. apply codec_not_gen_lit.
  - exact Hn.
Qed.

Theorem no_std_item s a ir toks :
  s_alloc s = ACustom a ->
  type_ir_tokens s ir = Ok toks ->
  ~ In "std" (a ++ ir_inputs ir) ->
  ~ In "std" toks.
Proof.
  intros Ha H Hn. apply (type_ir_tokens_from true s ir toks "std" H).
  - discriminate.
  - apply std_not_gen_lit.
  - rewrite Ha. exact Hn.
Qed.

Theorem no_std_path a t toks :
  tp_tokens a t = Ok toks -> ~ In "std" (a ++ tpath_inputs t) -> ~ In "std" toks.
Proof. intros H Hn. apply (tp_tokens_from a t toks "std" H); [apply std_not_gen_lit|exact Hn]. Qed.

(** ** codec on: every variant starts with its index attribute, every compact field with its marker *)
Theorem codec_on_variants s ir name docs vs toks :
  ti_codec ir = true -> ti_kind ir = KEnum name docs vs -> type_ir_tokens s ir = Ok toks ->
  exists (bodies : list tokens) ignore,
    Forall2 (fun (v : N * composite_ir) body =>
               exists fields,
                 enum_field_tokens s (ci_kind (snd v)) true = Ok fields /\
                 body = codec_index (fst v) ++ doc_tokens (ci_docs (snd v)) ++
                        [ci_name (snd v)] ++ fields ++ [","]) vs bodies /\
    toks = derives_tokens (ti_derives ir) ++ doc_tokens docs ++ ["pub"; "enum"; name] ++
           type_params_tokens (ti_params ir) ++ ["{"] ++ List.concat bodies ++ ignore ++ ["}"].
Proof.
  intros Hc Hk H.
  destruct (type_ir_tokens_enum_decomp s ir name docs vs toks Hk H) as (bodies & ignore & HF & Ht).
  rewrite Hc in HF. exists bodies, ignore. split; [exact HF|exact Ht].
Qed.

(** ** the whole pipeline (generation, then emission) commutes with a renaming of tokens
    that fixes the generator's literals, the registry's identifiers and the user tokens *)
Theorem gen_emit_map phi r s1 s2 teq :
  gen_frame phi r s1 s2 -> phi_ok phi (s_docs s1) (s_codec s1) ->
  gen_emit r s2 teq = rmap (map phi) (gen_emit r s1 teq).
Proof.
  intros HF Hok. unfold gen_emit. rewrite (generate_map phi r s1 s2 teq HF).
  destruct (generate r s1 teq) as [m|e|msg] eqn:G; [|reflexivity|reflexivity].
  cbn [rmap bind].
  destruct HF as (HR & Hd & Hc & Hdr & Hca & Hids & Hders & Hcas).
  destruct HR as (_ & _ & Hroot & Halloc & _).
  apply (emit_module_map phi (s_docs s1) (s_codec s1) s1 s2 m Hok).
  - exact (generate_item_ok r s1 teq m G).
  - intros e seg He Hs. apply Hids. exact (generate_keys_idents r s1 teq m G e seg He Hs).
  - exact Halloc.
  - exact Hroot.
Qed.

Lemma in_user_tokens_parts s w :
  In w (flat_map derives_inputs (derives_list (s_dreg s))) \/
  In w (flat_map (fun kv => print_spath (su_path (snd kv))) (s_subs s)) \/
  In w (match s_compact s with Some t => t | None => [] end) \/
  In w (match s_bits s with Some t => t | None => [] end) \/
  In w (match s_compact_as s with Some k => snd k | None => [] end) ->
  In w (user_tokens s).
Proof.
  unfold user_tokens. rewrite !in_app_iff. tauto.
Qed.

Lemma gen_frame_intro phi r s1 s2 :
  phi_ok phi false false ->
  s_subs s2 = s_subs s1 -> s_docs s2 = s_docs s1 -> s_codec s2 = s_codec s1 ->
  s_dreg s2 = s_dreg s1 -> s_compact_as s2 = s_compact_as s1 ->
  s_compact s2 = s_compact s1 -> s_bits s2 = s_bits s1 -> s_alloc s2 = s_alloc s1 ->
  s_root s2 = phi (s_root s1) ->
  (forall x, In x (alloc_tokens (s_alloc s1) ++ user_tokens s1 ++ registry_idents r) -> phi x = x) ->
  gen_frame phi r s1 s2.
Proof.
  intros Hok Hsubs Hdocs Hcodec Hdreg Hcas Hcomp Hbits Halloc Hroot Hfix.
  assert (Hu : forall x, In x (user_tokens s1) -> phi x = x).
  { intros x Hx. apply Hfix. apply in_or_app. right. apply in_or_app. left. exact Hx. }
  assert (Hr : forall x, In x (registry_idents r) -> phi x = x).
  { intros x Hx. apply Hfix. apply in_or_app. right. apply in_or_app. right. exact Hx. }
  unfold gen_frame, resolve_frame. repeat split; try assumption.
  - rewrite Halloc. symmetry. apply map_fixed. intros x Hx. apply Hfix, in_or_app. left. exact Hx.
  - rewrite Hcomp. destruct (s_compact s1) as [c|] eqn:E; [|reflexivity]. cbn [option_map]. f_equal.
    symmetry. apply map_fixed. intros x Hx. apply Hu, in_user_tokens_parts.
    right; right; left. rewrite E. exact Hx.
  - rewrite Hbits. destruct (s_bits s1) as [c|] eqn:E; [|reflexivity]. cbn [option_map]. f_equal.
    symmetry. apply map_fixed. intros x Hx. apply Hu, in_user_tokens_parts.
    right; right; right; left. rewrite E. exact Hx.
  - intros e seg He Hs. apply Hr. unfold registry_idents. apply in_flat_map. exists e.
    split; [exact He|]. apply in_or_app. left. exact Hs.
  - intros k v x Hkv Hx. apply Hu, in_user_tokens_parts. right; left.
    apply in_flat_map. exists (k, v). split; [exact Hkv|exact Hx].
  - intros w Hw. apply Hu, in_user_tokens_parts. left. exact Hw.
  - intros w Hw. apply Hu, in_user_tokens_parts. right; right; right; right. exact Hw.
Qed.

(** ** ONE lemma: every token of the output is a generator literal or one of the inputs *)
Theorem gen_tokens_from r s teq toks w :
  gen_emit r s teq = Ok toks ->
  ~ gen_lit (s_docs s) (s_codec s) w ->
  ~ In w (gen_inputs r s) ->
  ~ In w toks.
Proof.
  intros H Hnl Hni Hin.
  set (phi := rename_tok w (sm_fresh w)).
  assert (Hfix : forall x, In x (gen_inputs r s) -> phi x = x).
  { intros x Hx. unfold phi. apply em_rename_other. intros E. subst x. contradiction. }
  assert (HF : gen_frame phi r s s).
  { apply gen_frame_intro; try reflexivity.
    - apply em_rename_phi_ok. intros Hl. apply Hnl, gen_lit_mono, Hl.
    - symmetry. apply Hfix. left. reflexivity.
    - intros x Hx. apply Hfix. right. exact Hx. }
  assert (Hok : phi_ok phi (s_docs s) (s_codec s)) by (apply em_rename_phi_ok; exact Hnl).
  pose proof (gen_emit_map phi r s s teq HF Hok) as E. rewrite H in E. cbn [rmap bind] in E.
  apply em_ok_inj in E.
  pose proof (sm_map_eq_fixed phi toks E w Hin) as Hw.
  unfold phi in Hw. rewrite em_rename_same in Hw. exact (sm_fresh_neq w Hw).
Qed.

(** three corollaries of the one lemma *)
Theorem no_std r s a teq toks :
  s_alloc s = ACustom a -> gen_emit r s teq = Ok toks ->
  ~ In "std" (s_root s :: a ++ user_tokens s ++ registry_idents r) -> ~ In "std" toks.
Proof.
  intros Ha H Hn. apply (gen_tokens_from r s teq toks "std" H); [apply std_not_gen_lit|].
  unfold gen_inputs. rewrite Ha. exact Hn.
Qed.

Theorem docs_off_no_doc r s teq toks :
  s_docs s = false -> gen_emit r s teq = Ok toks -> ~ In "doc" (gen_inputs r s) -> ~ In "doc" toks.
Proof.
  intros Hd H Hn. apply (gen_tokens_from r s teq toks "doc" H); [|exact Hn].
  rewrite Hd. apply doc_not_gen_lit.
Qed.

Theorem codec_off_no_codec r s teq toks :
  s_codec s = false -> gen_emit r s teq = Ok toks -> ~ In "codec" (gen_inputs r s) -> ~ In "codec" toks.
Proof.
  intros Hc H Hn. apply (gen_tokens_from r s teq toks "codec" H); [|exact Hn].
  rewrite Hc. apply codec_not_gen_lit.
Qed.

(** ** renaming the root module: nothing changes except the root token *)
Theorem root_rename r s root2 teq :
  ~ gen_lit (s_docs s) (s_codec s) (s_root s) ->
  ~ In (s_root s) (alloc_tokens (s_alloc s) ++ user_tokens s ++ registry_idents r) ->
  gen_emit r (set_root root2 s) teq = rmap (map (rename_tok (s_root s) root2)) (gen_emit r s teq).
Proof.
  intros Hnl Hni.
  apply gen_emit_map; [|apply em_rename_phi_ok; exact Hnl].
  apply gen_frame_intro; try reflexivity.
  - apply em_rename_phi_ok. intros Hl. apply Hnl, gen_lit_mono, Hl.
  - cbn [set_root s_root]. symmetry. apply em_rename_same.
  - intros x Hx. apply em_rename_other. intros E. subst x. contradiction.
Qed.
