(** C09: the switches are honoured and orthogonal.  Assembly of
    Proofs/FramesIR.v (IR-level orthogonality of docs / codec),
    Proofs/EmitMap.v (the emitter commutes with token renamings),
    Proofs/SubstMap.v (so does path resolution) and Proofs/FramesGen.v (so does
    the whole generation) into the C09 statements. *)
From Coq Require Import List NArith String Bool Lia.
From V Require Import Base.Strings Base.Result Model.Registry Model.Settings Model.Subst
  Model.TypePath Model.Derives Model.Generate Model.Emit Model.Equal Model.Switches Model.Inputs
  Proofs.GenProofs Proofs.TpMap Proofs.SubstMap Proofs.EmitMap Proofs.FramesIR.
Import ListNotations.
Open Scope string_scope. Open Scope list_scope.

(** ** words the generator never makes up (given the switches) *)
Lemma In_existsb w l : In w l -> existsb (String.eqb w) l = true.
Proof. intros H. apply existsb_exists. exists w. split; [exact H|apply String.eqb_refl]. Qed.

Ltac not_gen_lit_tac H :=
  destruct H as [H|[(n & H)|[(n & H)|[(n & H)|(x & H)]]]];
  [ apply In_existsb in H; vm_compute in H; discriminate H
  | cbn in H; discriminate H
  | unfold N_to_string in H; destruct (N.to_uint n); cbn in H; discriminate H
  | unfold N_to_string in H; destruct (N.to_uint n); cbn in H; discriminate H
  | unfold lit_string in H; discriminate H ].

Lemma std_not_gen_lit d c : ~ gen_lit d c "std".
Proof. intros H. destruct d, c; not_gen_lit_tac H. Qed.

Lemma doc_not_gen_lit c : ~ gen_lit false c "doc".
Proof. intros H. destruct c; not_gen_lit_tac H. Qed.

Lemma codec_not_gen_lit d : ~ gen_lit d false "codec".
Proof. intros H. destruct d; not_gen_lit_tac H. Qed.

Lemma gen_lit_mono d c w : gen_lit false false w -> gen_lit d c w.
Proof.
  intros [H|H]; [left|right; exact H].
  unfold lits_of in *. cbn [app] in H. rewrite app_nil_r in H. apply in_or_app. left. exact H.
Qed.

(** ** docs stripped: the inputs stored in the IR are unchanged *)
Lemma ir_inputs_strip_docs ir : ir_inputs (strip_docs_ir ir) = ir_inputs ir.
Proof.
  unfold ir_inputs, strip_docs_ir. cbn [ti_derives ti_kind]. f_equal.
  destruct (ti_kind ir) as [c|name docs vs]; [reflexivity|].
  cbn [strip_docs_kind kind_inputs]. f_equal.
  induction vs as [|v vs IH]; [reflexivity|]. cbn [map flat_map]. rewrite IH. reflexivity.
Qed.

(** ** item level (the emitter alone; inputs = the tokens stored in the IR) *)
Theorem docs_off_no_doc_attr s ir toks :
  type_ir_tokens s (strip_docs_ir ir) = Ok toks ->
  ~ In "doc" (alloc_tokens (s_alloc s) ++ ir_inputs ir) ->
  ~ In "doc" toks.
Proof.
  intros H Hn. apply (type_ir_tokens_from false s (strip_docs_ir ir) toks "doc" H).
  - intros _. apply strip_docs_ir_empty.
  - apply doc_not_gen_lit.
  - rewrite ir_inputs_strip_docs. exact Hn.
Qed.

Theorem codec_off_no_codec_attr s ir toks :
  ti_codec ir = false ->
  type_ir_tokens s ir = Ok toks ->
  ~ In "codec" (alloc_tokens (s_alloc s) ++ ir_inputs ir) ->
  ~ In "codec" toks.
Proof.
  intros Hc H Hn. apply (type_ir_tokens_from true s ir toks "codec" H).
  - discriminate.
  - rewrite Hc. apply codec_not_gen_lit.
  - exact Hn.
Qed.

Theorem no_std_item s a ir toks :
  s_alloc s = ACustom a ->
  type_ir_tokens s ir = Ok toks ->
  ~ In "std" (a ++ ir_inputs ir) ->
  ~ In "std" toks.
Proof.
  intros Ha H Hn. apply (type_ir_tokens_from true s ir toks "std" H).
  - discriminate.
  - apply std_not_gen_lit.
  - rewrite Ha. exact Hn.
Qed.

Theorem no_std_path a t toks :
  tp_tokens a t = Ok toks -> ~ In "std" (a ++ tpath_inputs t) -> ~ In "std" toks.
Proof. intros H Hn. apply (tp_tokens_from a t toks "std" H); [apply std_not_gen_lit|exact Hn]. Qed.

(** ** codec on: every variant starts with its index attribute, every compact field with its marker *)
Theorem codec_on_variants s ir name docs vs toks :
  ti_codec ir = true -> ti_kind ir = KEnum name docs vs -> type_ir_tokens s ir = Ok toks ->
  exists (bodies : list tokens) ignore,
    Forall2 (fun (v : N * composite_ir) body =>
               exists fields,
                 enum_field_tokens s (ci_kind (snd v)) true = Ok fields /\
                 body = codec_index (fst v) ++ doc_tokens (ci_docs (snd v)) ++
                        [ci_name (snd v)] ++ fields ++ [","]) vs bodies /\
    toks = derives_tokens (ti_derives ir) ++ doc_tokens docs ++ ["pub"; "enum"; name] ++
           type_params_tokens (ti_params ir) ++ ["{"] ++ List.concat bodies ++ ignore ++ ["}"].
Proof.
  intros Hc Hk H.
  destruct (type_ir_tokens_enum_decomp s ir name docs vs toks Hk H) as (bodies & ignore & HF & Ht).
  rewrite Hc in HF. exists bodies, ignore. split; [exact HF|exact Ht].
Qed.
