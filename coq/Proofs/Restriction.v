(** C17, restriction half: a registry restricted to a PREFIX of its entries (what remains of
    scale-info's [retain] once the retained entries have been moved to the front by a
    renumbering, which [C17_permutation_tokens] covers) generates, for every path it still has,
    an item with the same tokens.

    No closedness or consistency hypothesis is needed: both generations are [Ok]; a successful
    resolution / traversal in the prefix is a successful one, with the same result, in the whole
    registry (more entries, more fuel); the kept item of a path of the prefix is the IR of the
    same entry in both runs (first insertion wins and the prefix comes first).  The derive sets
    agree when no entry OUTSIDE the prefix is the root of a recursive derive rule (such settings
    are rejected for the sub-registry by settings validation, C11). *)
From Coq Require Import List NArith String Bool Lia.
From V Require Import Base.Util Base.Strings Base.Result Model.Registry Model.Settings Model.Subst
  Model.TypePath Model.Derives Model.Generate Model.Emit Model.Equal Model.WellFormed Model.Shape
  Model.Switches Model.Renumber Model.Families
  Proofs.GenProofs Proofs.TpMap Proofs.ItemsCanonical Proofs.SortDedup Proofs.KeepFirst Proofs.FidelityGen
  Proofs.ResolveTotal Proofs.GenTotal Proofs.RenumberPerm Proofs.Equivariance Proofs.PermFamilies.
Import ListNotations.
Open Scope string_scope. Open Scope list_scope.

Lemma mapM_ok_impl {A B} (f g : A -> result B) l ys :
  (forall x y, In x l -> f x = Ok y -> g x = Ok y) -> mapM f l = Ok ys -> mapM g l = Ok ys.
Proof.
  revert ys. induction l as [|x l IH]; intros ys H Hm; [exact Hm|].
  rewrite mapM_cons in Hm |- *. apply bind_ok in Hm as (y & Hy & Hm). apply bind_ok in Hm as (ys' & Hys & Hm).
  rewrite (H x y (or_introl eq_refl) Hy). cbn [bind].
  rewrite (IH ys' (fun x0 y0 Hin => H x0 y0 (or_intror Hin)) Hys). exact Hm.
Qed.

Section Prefix.
  Variable r1 r2 : registry.
  Variable s : settings.
  Let r := r1 ++ r2.

  Lemma resolve_prefix id t : resolve r1 id = Some t -> resolve r id = Some t.
  Proof.
    unfold resolve, r. intros H.
    destruct (nth_error r1 (N.to_nat id)) as [[i0 t0]|] eqn:E; [|discriminate].
    rewrite nth_error_app1 by (apply nth_error_Some; congruence). rewrite E. exact H.
  Qed.

  Lemma resolve_type_prefix id t : resolve_type r1 id = Ok t -> resolve_type r id = Ok t.
  Proof.
    unfold resolve_type. destruct (resolve r1 id) as [t'|] eqn:E; [|discriminate].
    rewrite (resolve_prefix _ _ E). auto.
  Qed.

  Lemma cow_step_prefix t0 t : ResolveTotal.cow_step r1 t0 = Ok t -> ResolveTotal.cow_step r t0 = Ok t.
  Proof.
    rewrite !ResolveTotal.cow_step_eq. destruct (ResolveTotal.is_cow (path_ident (t_path t0))); [|auto].
    destruct (t_params t0) as [|p0 ps]; [discriminate|].
    destruct (tp_ty p0); [apply resolve_type_prefix|discriminate].
  Qed.

  (** a successful resolution in the prefix is the same successful resolution in the whole *)
  Theorem resolve_rec_prefix : forall (f1 f : nat) id isf parents orig t,
    (f1 <= f)%nat -> resolve_rec r1 s f1 id isf parents orig = Ok t ->
    resolve_rec r s f id isf parents orig = Ok t.
  Proof.
    induction f1 as [|f1 IH]; intros f id isf parents orig t Hle H; [discriminate|].
    destruct f as [|f]; [lia|]. rewrite ResolveTotal.resolve_rec_S in H |- *.
    destruct (find_parent parents id orig); [exact H|].
    apply bind_ok in H as (t0 & H0 & H). rewrite (resolve_type_prefix _ _ H0). cbn [bind].
    apply bind_ok in H as (t1 & H1 & H). rewrite (cow_step_prefix _ _ H1). cbn [bind].
    assert (Hle' : (f1 <= f)%nat) by lia.
    assert (Hm : forall l ys, mapM (fun i => resolve_rec r1 s f1 i false parents None) l = Ok ys ->
                              mapM (fun i => resolve_rec r s f i false parents None) l = Ok ys).
    { intros l ys. apply mapM_ok_impl. intros x y _. apply IH; exact Hle'. }
    apply bind_ok in H as (ps & Hps & H). rewrite (Hm _ _ Hps). cbn [bind].
    unfold resolve_def in *. destruct (t_def t1) as [fs|vs|e|len e|es|p|e|st o]; try exact H.
    - apply bind_ok in H as (i & Hi & H). rewrite (IH _ _ _ _ _ _ Hle' Hi). exact H.
    - apply bind_ok in H as (i & Hi & H). rewrite (IH _ _ _ _ _ _ Hle' Hi). exact H.
    - apply bind_ok in H as (l & Hl & H). rewrite (Hm _ _ Hl). exact H.
    - apply bind_ok in H as (i & Hi & H). rewrite (IH _ _ _ _ _ _ Hle' Hi). exact H.
    - destruct (s_bits s); [|discriminate].
      apply bind_ok in H as (x & Hx & H). rewrite (IH _ _ _ _ _ _ Hle' Hx). cbn [bind].
      apply bind_ok in H as (y & Hy & H). rewrite (IH _ _ _ _ _ _ Hle' Hy). exact H.
  Qed.

  Lemma fuel0_prefix : (fuel0 r1 <= fuel0 r)%nat.
  Proof. unfold fuel0, r. rewrite app_length. lia. Qed.

  Lemma field_ir_of_prefix params f fi :
    field_ir_of r1 s params f = Ok fi -> field_ir_of r s params f = Ok fi.
  Proof.
    unfold field_ir_of, resolve_field_type_path. intros H. apply bind_ok in H as (p & Hp & H).
    rewrite (resolve_rec_prefix _ _ _ _ _ _ _ fuel0_prefix Hp). exact H.
  Qed.

  Lemma cck_prefix fs params unused x :
    create_composite_ir_kind r1 s fs params unused = Ok x ->
    create_composite_ir_kind r s fs params unused = Ok x.
  Proof.
    unfold create_composite_ir_kind. destruct fs as [|f0 fs0]; [auto|].
    remember (f0 :: fs0) as fs eqn:E. clear E f0 fs0.
    destruct (negb (all_named fs || all_unnamed fs)); [auto|].
    destruct (all_named fs); intros H; apply bind_ok in H as (l & Hl & H).
    - erewrite mapM_ok_impl; [exact H| |exact Hl]. intros f y _ Hy.
      apply bind_ok in Hy as (id & Hid & Hy). rewrite Hid. cbn [bind].
      apply bind_ok in Hy as (fi & Hfi & Hy). rewrite (field_ir_of_prefix _ _ _ Hfi). exact Hy.
    - erewrite mapM_ok_impl; [exact H| |exact Hl]. intros f y _ Hy. apply field_ir_of_prefix; exact Hy.
  Qed.

  Lemma variants_ir_prefix params : forall vs unused x,
    Switches.variants_ir r1 s params vs unused = Ok x -> Switches.variants_ir r s params vs unused = Ok x.
  Proof.
    induction vs as [|v vs IH]; intros unused x H; cbn [Switches.variants_ir] in *; [exact H|].
    apply bind_ok in H as (vn & Hvn & H). rewrite Hvn. cbn [bind].
    apply bind_ok in H as (ku & Hku & H). rewrite (cck_prefix _ _ _ _ Hku). cbn [bind].
    apply bind_ok in H as (rest & Hrest & H). rewrite (IH _ _ Hrest). exact H.
  Qed.

  Theorem create_type_ir_prefix t flat o :
    create_type_ir r1 s t flat = Ok o -> create_type_ir r s t flat = Ok o.
  Proof.
    rewrite !Equivariance.create_type_ir_unfold.
    destruct (negb (is_composite_or_variant (t_def t))); [auto|].
    destruct (path_ident (t_path t)) as [nm|]; [|auto].
    intros H. apply bind_ok in H as (name & Hn & H). rewrite Hn. cbn [bind].
    apply bind_ok in H as (kcu & Hk & H).
    assert (Hk' : match t_def t with
                  | TDComposite fs =>
                      let* ku := create_composite_ir_kind r s fs (params_from_scale_info (t_params t))
                                                          (params_from_scale_info (t_params t)) in
                      Ok (KStruct (mk_ci name (fst ku) (docs_from_scale_info s (t_docs t))),
                          could_derive_as_compact (fst ku), snd ku)
                  | TDVariant vs =>
                      let* vu := Switches.variants_ir r s (params_from_scale_info (t_params t)) vs
                                                      (params_from_scale_info (t_params t)) in
                      Ok (KEnum name (docs_from_scale_info s (t_docs t)) (fst vu), false, snd vu)
                  | _ => Panic "unreachable"
                  end = Ok kcu).
    { destruct (t_def t) as [fs|vs| | | | | |]; try discriminate.
      - apply bind_ok in Hk as (ku & Hku & Hk). rewrite (cck_prefix _ _ _ _ Hku). exact Hk.
      - apply bind_ok in Hk as (vu & Hvu & Hk). rewrite (variants_ir_prefix _ _ _ _ Hvu). exact Hk. }
    rewrite Hk'. cbn [bind]. exact H.
  Qed.

  (** traversal *)
  Theorem collect_ids_prefix : forall (f1 f : nat) id vis v,
    (f1 <= f)%nat -> collect_ids f1 r1 id vis = Ok v -> collect_ids f r id vis = Ok v.
  Proof.
    induction f1 as [|f1 IH]; intros f id vis v Hle H; [discriminate|].
    destruct f as [|f]; [lia|]. rewrite collect_ids_S in H |- *.
    destruct (mem_N id vis); [exact H|].
    destruct (resolve r1 id) as [t|] eqn:E; [|discriminate]. rewrite (resolve_prefix _ _ E).
    revert H. generalize (id :: vis) as w. generalize (collect_children t) as l.
    induction l as [|c l IHl]; intros w H; cbn [collect_list] in *; [exact H|].
    apply bind_ok in H as (w' & Hw & H). rewrite (IH f c w w' ltac:(lia) Hw). cbn [bind]. apply IHl; exact H.
  Qed.

  Lemma collect_type_ids_prefix id v :
    collect_type_ids r1 id = Ok v -> collect_type_ids r id = Ok v.
  Proof.
    unfold collect_type_ids. apply collect_ids_prefix. unfold r. rewrite app_length. lia.
  Qed.
End Prefix.

(** the ids a traversal returns are resolvable (or were already in the visited list) *)
Lemma collect_ids_resolvable r : forall fuel id vis v,
  collect_ids fuel r id vis = Ok v ->
  forall x, In x v -> In x vis \/ exists t, resolve r x = Some t.
Proof.
  induction fuel as [|fuel IH]; intros id vis v H x Hx; [discriminate|].
  rewrite collect_ids_S in H. destruct (mem_N id vis); [inversion H; subst; left; exact Hx|].
  destruct (resolve r id) as [t|] eqn:E; [|discriminate].
  assert (G : forall l w v', collect_list (collect_ids fuel r) l w = Ok v' ->
            forall y, In y v' -> In y w \/ exists t', resolve r y = Some t').
  { induction l as [|c l IHl]; intros w v' Hl y Hy; cbn [collect_list] in Hl.
    - inversion Hl; subst. left; exact Hy.
    - apply bind_ok in Hl as (w' & Hw & Hl). destruct (IHl _ _ Hl y Hy) as [Hin|Hr]; [|right; exact Hr].
      exact (IH c w w' Hw y Hin). }
  destruct (G _ _ _ H x Hx) as [[Heq|Hin]|Hr]; [subst x; right; eauto|left; exact Hin|right; exact Hr].
Qed.

(** every root with a recursive rule was traversed successfully *)
Lemma flatten_go_roots dr r : forall keys acc acc',
  flatten_go dr r keys acc = Ok acc' ->
  forall root kr d, In (root, Some kr) keys -> kmap_get (dr_recursive dr) kr = Some d ->
  exists ids, collect_type_ids r root = Ok ids.
Proof.
  induction keys as [|[id [k|]] keys IH]; intros acc acc' H root kr d Hin Hk; cbn [flatten_go] in H.
  - destruct Hin.
  - destruct Hin as [E|Hin].
    + inversion E; subst id k. rewrite Hk in H. apply bind_ok in H as (ids & Hc & _). eauto.
    + destruct (kmap_get (dr_recursive dr) k).
      * apply bind_ok in H as (ids & _ & H). eapply IH; eauto.
      * eapply IH; eauto.
  - destruct Hin as [E|Hin]; [discriminate E|]. eapply IH; eauto.
Qed.

(** no entry outside the prefix is the root of a recursive derive rule *)
Definition no_outside_roots (rec : kmap) (r2 : registry) : Prop :=
  forall id t k, In (id, t) r2 -> key_opt t = Some k -> kmap_get rec k = None.

Section PrefixDerives.
  Variable r1 r2 : registry.
  Variable s : settings.
  Let r := r1 ++ r2.
  Hypothesis Hc1 : ids_consistent r1 = true.
  Hypothesis Hc : ids_consistent r = true.
  Hypothesis Hout : no_outside_roots (dr_recursive (s_dreg s)) r2.

  Variable flat1 flat : flat_registry.
  Hypothesis Hf1 : flatten (s_dreg s) r1 = Ok flat1.
  Hypothesis Hf : flatten (s_dreg s) r = Ok flat.

  Lemma rec_in_prefix proj k x :
    rec_in proj r (dr_recursive (s_dreg s)) k x <-> rec_in proj r1 (dr_recursive (s_dreg s)) k x.
  Proof.
    split.
    - intros (root & troot & kr & d & ids & i & ti & Hroot & Hkr & Hd & Hcc & Hi & Hti & Hk & Hx).
      assert (Hroot1 : In (root, troot) r1).
      { unfold r in Hroot. apply in_app_or in Hroot as [H|H]; [exact H|].
        rewrite (Hout _ _ _ H Hkr) in Hd. discriminate. }
      (* the traversal succeeded in the prefix *)
      assert (Hids1 : exists ids1, collect_type_ids r1 root = Ok ids1).
      { pose proof Hf1 as F. rewrite flatten_eq in F.
        destruct (dr_recursive (s_dreg s)) as [|x0 rec0] eqn:Erec; [cbn in Hd; discriminate|].
        rewrite <- Erec in *. apply bind_ok in F as (keys & Hkeys & F). apply bind_ok in F as (acc & Hacc & _).
        apply flatten_keys_eq in Hkeys. subst keys.
        eapply (flatten_go_roots _ _ _ _ _ Hacc root kr d); [|exact Hd].
        apply in_map_iff. exists (root, troot). cbn [fst snd]. split; [rewrite Hkr; reflexivity|exact Hroot1]. }
      destruct Hids1 as (ids1 & Hcc1).
      pose proof (collect_type_ids_prefix r1 r2 root ids1 Hcc1) as Hcc'. fold r in Hcc'.
      assert (ids1 = ids) by congruence. subst ids1.
      (* the reached entry lies in the prefix *)
      unfold collect_type_ids in Hcc1.
      destruct (collect_ids_resolvable r1 _ _ _ _ Hcc1 i Hi) as [[]|(ti1 & Hr1)].
      pose proof (resolve_prefix r1 r2 i ti1 Hr1) as Hr. fold r in Hr.
      pose proof (ids_consistent_In r i ti Hc Hti) as Hr'. assert (ti1 = ti) by congruence. subst ti1.
      assert (Hti1 : In (i, ti) r1).
      { apply FidelityGen.resolve_In; [apply first_bad_none_iff; exact Hc1|exact Hr1]. }
      exists root, troot, kr, d, ids, i, ti. repeat split; auto.
    - intros (root & troot & kr & d & ids & i & ti & Hroot & Hkr & Hd & Hcc & Hi & Hti & Hk & Hx).
      exists root, troot, kr, d, ids, i, ti.
      split; [unfold r; apply in_or_app; left; exact Hroot|]. split; [exact Hkr|]. split; [exact Hd|].
      split; [apply (collect_type_ids_prefix r1 r2); exact Hcc|]. split; [exact Hi|].
      split; [unfold r; apply in_or_app; left; exact Hti|]. split; assumption.
  Qed.

  Lemma item_derives_tokens_prefix key c :
    derives_functional s ->
    derives_tokens (item_derives s flat1 key c) = derives_tokens (item_derives s flat key c).
  Proof.
    intros [Fd Fa].
    assert (Ud : forall a b, d_derives (derives_union a b) = d_derives a ++ d_derives b) by reflexivity.
    assert (Ua : forall a b, d_attrs (derives_union a b) = d_attrs a ++ d_attrs b) by reflexivity.
    assert (Sd : forall x, In x (d_derives (resolve_derives flat1 key)) <->
                           In x (d_derives (resolve_derives flat key))).
    { intros x. rewrite (flatten_sem d_derives Ud eq_refl _ _ _ Hc1 Hf1),
                        (flatten_sem d_derives Ud eq_refl _ _ _ Hc Hf).
      fold r. rewrite rec_in_prefix. reflexivity. }
    assert (Sa : forall x, In x (d_attrs (resolve_derives flat1 key)) <->
                           In x (d_attrs (resolve_derives flat key))).
    { intros x. rewrite (flatten_sem d_attrs Ua eq_refl _ _ _ Hc1 Hf1),
                        (flatten_sem d_attrs Ua eq_refl _ _ _ Hc Hf).
      fold r. rewrite rec_in_prefix. reflexivity. }
    assert (Subd : forall rr fl, ids_consistent rr = true -> flatten (s_dreg s) rr = Ok fl ->
              forall x, In x (d_derives (item_derives s fl key c)) -> In x (all_derives s)).
    { intros rr fl Hcr Hfr x Hx. apply in_item_derives in Hx. unfold all_derives. apply in_or_app.
      destruct Hx as [Hx|[_ Hx]].
      - left. exact (flatten_sub d_derives Ud eq_refl s rr fl key x Hcr Hfr Hx).
      - right. rewrite Hx. left; reflexivity. }
    assert (Suba : forall rr fl, ids_consistent rr = true -> flatten (s_dreg s) rr = Ok fl ->
              forall x, In x (d_attrs (item_derives s fl key c)) -> In x (all_attrs s)).
    { intros rr fl Hcr Hfr x Hx. rewrite attrs_item_derives in Hx.
      exact (flatten_sub d_attrs Ua eq_refl s rr fl key x Hcr Hfr Hx). }
    apply derives_tokens_canonical.
    - eapply key_functional_sub; [|exact Fd]. intros x Hx. apply in_app_or in Hx as [Hx|Hx].
      + exact (Subd r1 flat1 Hc1 Hf1 x Hx).
      + exact (Subd r flat Hc Hf x Hx).
    - eapply key_functional_sub; [|exact Fa]. intros x Hx. apply in_app_or in Hx as [Hx|Hx].
      + exact (Suba r1 flat1 Hc1 Hf1 x Hx).
      + exact (Suba r flat Hc Hf x Hx).
    - intros x. rewrite !in_item_derives, Sd. reflexivity.
    - intros x. rewrite !attrs_item_derives. apply Sa.
  Qed.
End PrefixDerives.

(** ** the restriction theorem for a prefix *)
Theorem prefix_tokens r1 r2 s teq1 teq m1 m :
  derives_functional s -> no_outside_roots (dr_recursive (s_dreg s)) r2 ->
  generate r1 s teq1 = Ok m1 -> generate (r1 ++ r2) s teq = Ok m ->
  forall p id ir1, items_get m1 p = Some (id, ir1) ->
    exists ir, items_get m p = Some (id, ir) /\ type_ir_tokens s ir1 = type_ir_tokens s ir.
Proof.
  intros Hdf Hout G1 G p id ir1 E1.
  assert (Hc1 : ids_consistent r1 = true).
  { apply first_bad_none_iff. eapply generate_sanity; exact G1. }
  assert (Hc : ids_consistent (r1 ++ r2) = true).
  { apply first_bad_none_iff. eapply generate_sanity; exact G. }
  pose proof G1 as H1. pose proof G as H. unfold generate in H1, H.
  apply bind_ok in H1 as (u1 & _ & H1). apply bind_ok in H1 as (flat1 & Hf1 & H1).
  apply bind_ok in H as (u & _ & H). apply bind_ok in H as (flat & Hf & H).
  (* the kept item of [p] in the prefix run is the IR of the first eligible entry of the prefix *)
  rewrite (gen_loop_first r1 s teq1 flat1 r1 [] m1 H1 p) in E1. cbn [items_get] in E1.
  unfold first_item in E1.
  destruct (first_eligible r1 s p) as [[id0 X0]|] eqn:F1; [|discriminate].
  destruct (create_type_ir r1 s X0 flat1) as [[ir0|]|e|msg] eqn:C1; try discriminate.
  inversion E1; subst id0 ir0; clear E1.
  (* ... and that entry is the first eligible entry of the whole registry too *)
  assert (F : first_eligible (r1 ++ r2) s p = Some (id, X0)).
  { unfold first_eligible in *. rewrite find_app, F1. reflexivity. }
  destruct (first_eligible_some _ _ _ _ _ F) as (Hin & Hp & Hel).
  destruct (gen_loop_all_ok (r1 ++ r2) s teq flat (r1 ++ r2) [] m H id X0 Hin Hel) as (ir & C).
  exists ir. split.
  - rewrite (gen_loop_first (r1 ++ r2) s teq flat (r1 ++ r2) [] m H p). cbn [items_get].
    unfold first_item. rewrite F, C. reflexivity.
  - pose proof (create_type_ir_prefix r1 r2 s X0 flat1 _ C1) as C1'.
    destruct (create_type_ir_flat (r1 ++ r2) s X0 flat flat1 ir C) as (ir' & C' & He).
    assert (ir' = ir1) by congruence. subst ir'.
    destruct (create_type_ir_facts _ _ _ _ _ C1') as (D1 & key1 & K1 & Dv1).
    destruct (create_type_ir_facts _ _ _ _ _ C) as (D2 & key2 & K2 & Dv2).
    assert (key2 = key1) by congruence. subst key2.
    apply type_ir_tokens_skel; [exact He|congruence|].
    rewrite Dv1, Dv2.
    assert (Ek : cdac_of (ti_kind ir1) = cdac_of (ti_kind ir)).
    { rewrite <- (cdac_of_erase (ti_kind ir1)), <- (cdac_of_erase (ti_kind ir)).
      change (erase_kind (ti_kind ir1)) with (ti_kind (erase_ids ir1)).
      change (erase_kind (ti_kind ir)) with (ti_kind (erase_ids ir)). rewrite He. reflexivity. }
    rewrite Ek. apply (item_derives_tokens_prefix r1 r2 s Hc1 Hc Hout flat1 flat Hf1 Hf); exact Hdf.
Qed.

(** ** a successful generation stays successful after a renumbering when [types_equal] is
    replaced by the oracle that judges everything equal (the permutation theorem holds for
    arbitrary oracles, so this run can serve as the intermediate one) *)
Definition teq_true : N -> N -> result bool := fun _ _ => Ok true.

Lemma mapM_ok_each {A B} (f : A -> result B) l ys :
  mapM f l = Ok ys -> forall x, In x l -> exists y, f x = Ok y.
Proof.
  revert ys. induction l as [|a l IH]; intros ys H x Hx; [destruct Hx|].
  rewrite mapM_cons in H. apply bind_ok in H as (y & Hy & H). apply bind_ok in H as (ys' & Hys & _).
  destruct Hx as [<-|Hx]; [eauto|eapply IH; eauto].
Qed.

Lemma flatten_go_ok dr rr : forall keys acc,
  (forall root kr d, In (root, Some kr) keys -> kmap_get (dr_recursive dr) kr = Some d ->
                     exists ids, collect_type_ids rr root = Ok ids) ->
  exists acc', flatten_go dr rr keys acc = Ok acc'.
Proof.
  induction keys as [|[id [k|]] keys IH]; intros acc H; cbn [flatten_go].
  - eauto.
  - destruct (kmap_get (dr_recursive dr) k) as [d|] eqn:Ek.
    + destruct (H id k d (or_introl eq_refl) Ek) as (ids & Hids). rewrite Hids. cbn [bind].
      apply IH. intros root kr d' Hin. apply H. right; exact Hin.
    + apply IH. intros root kr d' Hin. apply H. right; exact Hin.
  - apply IH. intros root kr d' Hin. apply H. right; exact Hin.
Qed.

Lemma gen_loop_lex r s teq flat : forall l acc m,
  gen_loop r s teq flat l acc = Ok m ->
  forall id t ir, In (id, t) l -> eligible s t = true ->
    create_type_ir r s t flat = Ok (Some ir) -> forallb ident_lexb (namespace (t_path t)) = true.
Proof.
  induction l as [|[id0 t0] l IH]; intros acc m H id t ir Hin He Hc; [destruct Hin|].
  rewrite gen_loop_cons in H. destruct Hin as [Heq|Hin].
  - inversion Heq; subst id0 t0. unfold eligible in He.
    apply andb_true_iff in He as [He1 He2]. apply negb_true_iff in He1. rewrite He1 in H.
    destruct (namespace (t_path t)) as [|n0 ns]; [discriminate|].
    rewrite Hc in H. cbn [bind] in H.
    destruct (forallb ident_lexb (n0 :: ns)); [reflexivity|discriminate].
  - destruct (subs_contains (s_subs s) (t_path t0)); [eapply IH; eauto|].
    destruct (namespace (t_path t0)) as [|n0 ns]; [eapply IH; eauto|].
    destruct (create_type_ir r s t0 flat) as [[ir0|]|e|msg]; cbn [bind] in H; try discriminate;
      [|eapply IH; eauto].
    destruct (forallb ident_lexb (n0 :: ns)); [|discriminate].
    destruct (items_get acc (t_path t0)) as [[other ir']|].
    + destruct (teq id0 other) as [[|]|e|msg]; cbn [bind] in H; try discriminate. eapply IH; eauto.
    + eapply IH; eauto.
Qed.

Lemma gen_loop_permissive rr s flat : forall l acc,
  (forall id t, In (id, t) l -> eligible s t = true ->
     exists o, create_type_ir rr s t flat = Ok o /\
               (forall ir, o = Some ir -> forallb ident_lexb (namespace (t_path t)) = true)) ->
  exists m, gen_loop rr s teq_true flat l acc = Ok m.
Proof.
  induction l as [|[id t] l IH]; intros acc H; [cbn; eauto|].
  assert (Hl : forall id0 t0, In (id0, t0) l -> eligible s t0 = true ->
             exists o, create_type_ir rr s t0 flat = Ok o /\
                       (forall ir, o = Some ir -> forallb ident_lexb (namespace (t_path t0)) = true)).
  { intros id0 t0 Hin. apply (H id0 t0). right; exact Hin. }
  rewrite gen_loop_cons.
  destruct (subs_contains (s_subs s) (t_path t)) eqn:Es; [apply IH; exact Hl|].
  destruct (namespace (t_path t)) as [|n0 ns] eqn:En; [apply IH; exact Hl|].
  destruct (H id t (or_introl eq_refl)) as (o & Ho & Hlex).
  { unfold eligible. rewrite Es, En. reflexivity. }
  rewrite Ho. cbn [bind]. destruct o as [ir|]; [|apply IH; exact Hl].
  rewrite En in Hlex. rewrite (Hlex ir eq_refl).
  destruct (items_get acc (t_path t)) as [[other ir']|]; [|apply IH; exact Hl].
  unfold teq_true at 1. cbn [bind]. apply IH; exact Hl.
Qed.

Section OkTransfer.
  Variable pi : N -> N.
  Variable r : registry.
  Variable s : settings.
  Hypothesis Hpi : renumbering (N.of_nat (List.length r)) pi.
  Let r' := renumber pi r.

  Lemma flatten_key_rename e y :
    flatten_key e = Ok y -> flatten_key (rename_entry pi e) = Ok (pi (fst y), snd y).
  Proof.
    destruct e as [id t]. unfold rename_entry, flatten_key. cbn [fst snd].
    change (t_path (rename_ty pi t)) with (t_path t). destruct (t_path t) as [|a p].
    - intros H; inversion H; reflexivity.
    - intros H. apply bind_ok in H as (k & Hk & H). rewrite Hk. cbn [bind]. inversion H; reflexivity.
  Qed.

  Lemma flatten_ok_renumber flat :
    ids_consistent r = true -> flatten (s_dreg s) r = Ok flat ->
    exists flat', flatten (s_dreg s) r' = Ok flat'.
  Proof.
    intros Hc Hf. rewrite flatten_eq in Hf |- *.
    destruct (dr_recursive (s_dreg s)) as [|x0 rec0] eqn:Erec; [eauto|].
    apply bind_ok in Hf as (keys & Hkeys & Hf). apply bind_ok in Hf as (acc & Hacc & _).
    destruct (mapM_total flatten_key (fun _ => True) r') as (keys' & Hkeys' & _).
    { intros e' He'. apply (in_renumber pi r _ Hpi) in He' as (e & He & ->).
      destruct (mapM_ok_each _ _ _ Hkeys e He) as (y & Hy).
      rewrite (flatten_key_rename _ _ Hy). eauto. }
    rewrite Hkeys'. cbn [bind].
    pose proof (flatten_keys_eq _ _ Hkeys) as Ek. pose proof (flatten_keys_eq _ _ Hkeys') as Ek'.
    destruct (flatten_go_ok (s_dreg s) r' keys' []) as (acc' & Hacc').
    { intros root' kr d Hin Hd. subst keys'. apply in_map_iff in Hin as ([root0 troot'] & E & Hin).
      cbn [fst snd] in E. inversion E; subst root0; clear E.
      apply (in_renumber pi r _ Hpi) in Hin as ([root troot] & Hin & E).
      unfold rename_entry in E. cbn [fst snd] in E. inversion E; subst root' troot'; clear E.
      change (key_opt (rename_ty pi troot)) with (key_opt troot) in H1.
      destruct (flatten_go_roots _ _ _ _ _ Hacc root kr d) as (ids & Hids); [|exact Hd|].
      - subst keys. apply in_map_iff. exists (root, troot). cbn [fst snd]. split; [rewrite H1; reflexivity|exact Hin].
      - exists (map pi ids). unfold r'. rewrite (collect_type_ids_renumber pi r Hpi), Hids. reflexivity. }
    rewrite Hacc'. cbn [bind]. eauto.
  Qed.

  Theorem generate_ok_renumber teq m :
    generate r s teq = Ok m -> exists m2, generate r' s teq_true = Ok m2.
  Proof.
    intros G.
    assert (Hc : ids_consistent r = true).
    { apply first_bad_none_iff. eapply generate_sanity; exact G. }
    pose proof (renumber_ids_consistent pi r Hpi Hc) as Hc'. fold r' in Hc'.
    pose proof G as H. unfold generate in H.
    apply bind_ok in H as (u & _ & H). apply bind_ok in H as (flat1 & Hf1 & H).
    destruct (flatten_ok_renumber flat1 Hc Hf1) as (flat2 & Hf2).
    unfold generate. rewrite sanity_pass_spec. apply first_bad_none_iff in Hc'. rewrite Hc'. cbn [bind].
    rewrite Hf2. cbn [bind].
    apply gen_loop_permissive. intros id' t' Hin' Hel'.
    apply (in_renumber pi r _ Hpi) in Hin' as ([id t] & Hin & E).
    unfold rename_entry in E. cbn [fst snd] in E. inversion E; subst id' t'; clear E.
    change (eligible s (rename_ty pi t)) with (eligible s t) in Hel'.
    change (t_path (rename_ty pi t)) with (t_path t).
    unfold r'. rewrite (create_type_ir_renumber pi r s Hpi).
    destruct (is_composite_or_variant (t_def t)) eqn:Ecv.
    - assert (Hie : item_eligible s t = true).
      { unfold item_eligible. rewrite Ecv. unfold eligible in Hel'.
        apply andb_prop in Hel' as [A B]. rewrite A, B. reflexivity. }
      destruct (gen_loop_all_ok r s teq flat1 r [] m H id t Hin Hie) as (ir1 & C1).
      destruct (create_type_ir_flat r s t flat1 flat2 ir1 C1) as (ir2 & C2 & _).
      rewrite C2. cbn [rmap_e option_map]. eexists. split; [reflexivity|].
      intros ir _. exact (gen_loop_lex r s teq flat1 r [] m H id t ir1 Hin Hel' C1).
    - rewrite (create_type_ir_not_cv r s t flat2 Ecv). cbn [rmap_e option_map].
      eexists. split; [reflexivity|]. intros ir E. discriminate E.
  Qed.
End OkTransfer.

(** ** restriction = renumbering + prefix *)
Theorem restriction_tokens pi k r s teq teq' m m' :
  renumbering (N.of_nat (List.length r)) pi ->
  skeleton_consistent r s -> docs_consistent r s -> derives_functional s ->
  no_outside_roots (dr_recursive (s_dreg s)) (dropped pi k r) ->
  generate r s teq = Ok m ->
  generate (restrict pi k r) s teq' = Ok m' ->
  forall p id' ir', items_get m' p = Some (id', ir') ->
    exists id ir, items_get m p = Some (id, ir) /\ type_ir_tokens s ir' = type_ir_tokens s ir.
Proof.
  intros Hpi Hsk Hdc Hdf Hout G G' p id' ir' E'.
  destruct (generate_ok_renumber pi r s Hpi teq m G) as (m2 & G2).
  assert (Esplit : renumber pi r = restrict pi k r ++ dropped pi k r).
  { unfold restrict, dropped. symmetry. apply firstn_skipn. }
  rewrite Esplit in G2.
  destruct (prefix_tokens _ _ s teq' teq_true m' m2 Hdf Hout G' G2 p id' ir' E') as (ir2 & E2 & T2).
  rewrite <- Esplit in G2.
  destruct (permutation_items pi r s Hpi teq teq_true m m2 Hsk Hdc Hdf G G2) as [K K'].
  destruct (K' p id' ir2 E2) as ([id ir] & E).
  destruct (K p id ir E) as (id2 & ir2' & E2' & T).
  assert (ir2' = ir2) by congruence. subst ir2'.
  exists id, ir. split; [exact E|]. congruence.
Qed.

(** boolean form of [no_outside_roots] *)
Definition no_outside_rootsb (rec : kmap) (r2 : registry) : bool :=
  forallb (fun e => match key_opt (snd e) with
                    | Some k => match kmap_get rec k with None => true | Some _ => false end
                    | None => true
                    end) r2.

Lemma no_outside_rootsb_sound rec r2 : no_outside_rootsb rec r2 = true -> no_outside_roots rec r2.
Proof.
  unfold no_outside_rootsb, no_outside_roots. rewrite forallb_forall. intros H id t k Hin Hk.
  specialize (H (id, t) Hin). cbn [snd] in H. rewrite Hk in H.
  destruct (kmap_get rec k); [discriminate|reflexivity].
Qed.

Theorem restriction_tokens_b pi k r s teq teq' m m' :
  renumbering (N.of_nat (List.length r)) pi ->
  skeleton_consistentb r s = true -> docs_consistentb r s = true -> derives_functionalb s = true ->
  no_outside_rootsb (dr_recursive (s_dreg s)) (dropped pi k r) = true ->
  generate r s teq = Ok m ->
  generate (restrict pi k r) s teq' = Ok m' ->
  forall p id' ir', items_get m' p = Some (id', ir') ->
    exists id ir, items_get m p = Some (id, ir) /\ type_ir_tokens s ir' = type_ir_tokens s ir.
Proof.
  intros Hpi H1 H2 H3 H4. apply restriction_tokens; auto.
  - apply ShapeBool.skeleton_consistentb_sound; exact H1.
  - apply docs_consistentb_sound; exact H2.
  - apply derives_functionalb_sound; exact H3.
  - apply no_outside_rootsb_sound; exact H4.
Qed.
