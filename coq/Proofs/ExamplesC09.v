(** C09: the theorems of Proofs/Frames.v evaluated on the concrete registry of
    Model/ExamplesTG.v (generic struct with two instantiations, generic enum in
    nested modules, Vec, compact field; custom alloc path). *)
From Coq Require Import List NArith String Bool.
From V Require Import Base.Strings Base.Result Model.Registry Model.Settings Model.Subst
  Model.TypePath Model.Derives Model.Generate Model.Emit Model.Equal Model.Switches Model.Inputs
  Model.ExamplesTG.
Import ListNotations.
Open Scope string_scope. Open Scope list_scope. Open Scope N_scope.


Example ex_docs_orthogonal :
  generate ex_reg (set_docs false ex_set) ex_teq =
  rmap (map_items strip_docs_ir) (generate ex_reg ex_set ex_teq) /\
  is_ok (generate ex_reg ex_set ex_teq) = true /\
  generate ex_reg (set_docs false ex_set) ex_teq <> generate ex_reg ex_set ex_teq.
Proof. vm_compute. repeat split; try reflexivity. intros H; discriminate H. Qed.

Example ex_codec_orthogonal :
  generate ex_reg (set_codec false ex_set) ex_teq =
  rmap (map_items (set_codec_ir false)) (generate ex_reg ex_set ex_teq).
Proof. vm_compute. reflexivity. Qed.

(** custom alloc path: [Vec] is rooted at it and [std] appears nowhere; the inputs are clean *)
Example ex_no_std :
  has "std" (gen_inputs ex_reg ex_set) = false /\
  match gen_emit ex_reg ex_set ex_teq with
  | Ok toks => has "std" toks = false /\ has "alloc" toks = true /\ has "Vec" toks = true
  | _ => False
  end.
Proof. vm_compute. repeat split; reflexivity. Qed.

Example ex_docs_off_no_doc :
  has "doc" (gen_inputs ex_reg ex_set) = false /\
  match gen_emit ex_reg (set_docs false ex_set) ex_teq, gen_emit ex_reg ex_set ex_teq with
  | Ok off, Ok on => has "doc" off = false /\ has "doc" on = true
  | _, _ => False
  end.
Proof. vm_compute. repeat split; reflexivity. Qed.

Example ex_codec_off_no_codec :
  has "codec" (gen_inputs ex_reg ex_set) = false /\
  match gen_emit ex_reg (set_codec false ex_set) ex_teq, gen_emit ex_reg ex_set ex_teq with
  | Ok off, Ok on => has "codec" off = false /\ has "codec" on = true /\ has "compact" on = true
  | _, _ => False
  end.
Proof. vm_compute. repeat split; reflexivity. Qed.

Example ex_root_rename :
  has "root" (alloc_tokens (s_alloc ex_set) ++ user_tokens ex_set ++ registry_idents ex_reg) = false /\
  gen_emit ex_reg (set_root "types" ex_set) ex_teq =
  rmap (map (rename_tok "root" "types")) (gen_emit ex_reg ex_set ex_teq) /\
  gen_emit ex_reg (set_root "types" ex_set) ex_teq <> gen_emit ex_reg ex_set ex_teq.
Proof. vm_compute. repeat split; try reflexivity. intros H; discriminate H. Qed.

(** docs on: the enum (entry 4) carries exactly the registry's doc lines and indices *)
Example ex_docs_exact :
  match create_type_ir ex_reg ex_set (snd (nth 4 ex_reg (0, mk_ty [] [] (TDTuple []) [])))
                       (mk_flat (dr_default (s_dreg ex_set)) []) with
  | Ok (Some ir) =>
      match ti_kind ir with
      | KEnum name docs vs =>
          docs = ["enum doc"; "line 2"] /\ map (fun x => ci_docs (snd x)) vs = [["variant A"]; []] /\
          map fst vs = [0; 3]
      | _ => False
      end
  | _ => False
  end.
Proof. vm_compute. repeat split; reflexivity. Qed.
