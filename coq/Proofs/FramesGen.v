(** C09: IR construction and the whole generation commute with a token renaming
    [phi] that fixes the generator's literals, the registry's identifiers and
    the user tokens. *)
From Coq Require Import List NArith String Bool Lia.
From V Require Import Base.Strings Base.Result Model.Registry Model.Settings Model.Subst Model.TypePath Model.Derives Model.Generate Model.Emit Model.Equal Model.Switches Model.Inputs Proofs.GenProofs Proofs.TpMap Proofs.SubstMap Proofs.FramesIR.
Import ListNotations.
Open Scope string_scope. Open Scope list_scope.

(** * A. derives of a flattened registry come from the settings *)
Definition fg_from (dr : derives_registry) (x : kt) : Prop :=
  exists d, In d (derives_list dr) /\ In x (d_derives d ++ d_attrs d).
Definition fg_good (dr : derives_registry) (d : derives) : Prop :=
  forall x, In x (d_derives d ++ d_attrs d) -> fg_from dr x.
Definition fg_smap_good (dr : derives_registry) (m : list (string * derives)) : Prop :=
  Forall (fun kd => fg_good dr (snd kd)) m.

Lemma fg_good_member dr d : In d (derives_list dr) -> fg_good dr d.
Proof. intros H x Hx. exists d. split; assumption. Qed.

Lemma fg_good_union dr a b : fg_good dr a -> fg_good dr b -> fg_good dr (derives_union a b).
Proof.
  intros Ha Hb x Hx. unfold derives_union in Hx. cbn [d_derives d_attrs] in Hx.
  apply in_app_iff in Hx as [Hx|Hx]; apply in_app_iff in Hx as [Hx|Hx].
  - apply Ha, in_or_app; left; exact Hx.
  - apply Hb, in_or_app; left; exact Hx.
  - apply Ha, in_or_app; right; exact Hx.
  - apply Hb, in_or_app; right; exact Hx.
Qed.

Lemma fg_smap_extend_good dr : forall m k d,
  fg_smap_good dr m -> fg_good dr d -> fg_smap_good dr (smap_extend m k d).
Proof.
  unfold fg_smap_good.
  induction m as [|[k' d'] m IH]; intros k d Hm Hd; cbn [smap_extend].
  - constructor; [exact Hd|constructor].
  - inversion Hm as [|? ? Hk' Hm']; subst. destruct (String.eqb k' k).
    + constructor; [|exact Hm']. cbn [snd] in *. apply fg_good_union; assumption.
    + constructor; [exact Hk'|]. apply IH; assumption.
Qed.

Lemma fg_smap_get_good dr : forall m k d,
  fg_smap_good dr m -> smap_get m k = Some d -> fg_good dr d.
Proof.
  unfold fg_smap_good.
  induction m as [|[k' d'] m IH]; intros k d Hm Hg; cbn [smap_get] in Hg; [discriminate|].
  inversion Hm as [|? ? Hk' Hm']; subst. destruct (String.eqb k' k).
  - inversion Hg; subst. exact Hk'.
  - eapply IH; eauto.
Qed.

Lemma fg_kmap_get_in : forall (m : kmap) k d, kmap_get m k = Some d -> In d (map snd m).
Proof.
  induction m as [|[k' d'] m IH]; intros k d H; cbn [kmap_get] in H; [discriminate|].
  cbn [map snd]. destruct (String.eqb (k_key k') k).
  - inversion H; subst. left; reflexivity.
  - right. eapply IH; exact H.
Qed.

Lemma fg_flat_of_specific_good dr : fg_smap_good dr (flat_of_specific (dr_specific dr)).
Proof.
  unfold fg_smap_good, flat_of_specific. apply Forall_forall. intros kd Hin.
  apply in_map_iff in Hin as ([k d] & E & Hin). subst kd. cbn [snd].
  apply fg_good_member. unfold derives_list. right. apply in_or_app. left.
  apply in_map_iff. exists (k, d). split; [reflexivity|exact Hin].
Qed.

Lemma fg_go_good dr (r : registry) (rc : kmap) :
  (forall k d, kmap_get rc k = Some d -> fg_good dr d) ->
  forall (l : list (N * option string)) (acc acc' : list (N * derives)),
  Forall (fun p => fg_good dr (snd p)) acc ->
  (fix go (l : list (N * option string)) (acc : list (N * derives))
         : result (list (N * derives)) :=
         match l with
         | [] => Ok acc
         | (id, None) :: l' => go l' acc
         | (id, Some k) :: l' =>
             match kmap_get rc k with
             | None => go l' acc
             | Some d =>
                 let* ids := collect_type_ids r id in
                 go l' (acc ++ map (fun i => (i, d)) ids)
             end
         end) l acc = Ok acc' ->
  Forall (fun p => fg_good dr (snd p)) acc'.
Proof.
  intros Hrc. induction l as [|[id [k|]] l IH]; intros acc acc' Hacc H.
  - inversion H; subst; exact Hacc.
  - cbn [bind] in H. destruct (kmap_get rc k) as [d|] eqn:Ek.
    + apply bind_ok in H as (ids & _ & H). eapply IH; [|exact H].
      apply Forall_app. split; [exact Hacc|]. apply Forall_forall. intros p Hp.
      apply in_map_iff in Hp as (i & E & _). subst p. cbn [snd]. eapply Hrc; exact Ek.
    + eapply IH; eauto.
  - cbn [bind] in H. eapply IH; eauto.
Qed.

Lemma fg_fold_good dr (key_of : N -> option string) :
  forall (acc : list (N * derives)) (m : list (string * derives)),
  Forall (fun p => fg_good dr (snd p)) acc -> fg_smap_good dr m ->
  fg_smap_good dr
    (fold_left (fun m '(id, d) => match key_of id with
                                  | Some k => smap_extend m k d
                                  | None => m
                                  end) acc m).
Proof.
  induction acc as [|[id d] acc IH]; intros m Hacc Hm; cbn [fold_left]; [exact Hm|].
  inversion Hacc as [|? ? Hd Hacc']; subst. apply IH; [exact Hacc'|].
  destruct (key_of id); [apply fg_smap_extend_good; assumption|exact Hm].
Qed.

Lemma fg_flatten_good dr r flat :
  flatten dr r = Ok flat ->
  fl_default flat = dr_default dr /\ fg_smap_good dr (fl_specific flat).
Proof.
  unfold flatten. intros H. destruct (dr_recursive dr) as [|kd rc] eqn:Erec.
  - inversion H; subst. cbn [fl_default fl_specific].
    split; [reflexivity|apply fg_flat_of_specific_good].
  - apply bind_ok in H as (keys & _ & H). cbv zeta in H.
    apply bind_ok in H as (acc & Hacc & H).
    inversion H; subst; clear H. cbn [fl_default fl_specific]. split; [reflexivity|].
    apply fg_fold_good; [|apply fg_flat_of_specific_good].
    eapply (fg_go_good dr r (kd :: rc)); [|constructor|exact Hacc].
    intros k d Hk. apply fg_good_member. rewrite <- Erec in Hk. apply fg_kmap_get_in in Hk.
    unfold derives_list. right. apply in_or_app; right; exact Hk.
Qed.

Lemma flatten_derives_from dr r flat key x :
  flatten dr r = Ok flat ->
  In x (d_derives (resolve_derives flat key) ++ d_attrs (resolve_derives flat key)) ->
  exists d, In d (derives_list dr) /\ In x (d_derives d ++ d_attrs d).
Proof.
  intros Hf. destruct (fg_flatten_good dr r flat Hf) as [Hd Hs].
  assert (G : fg_good dr (resolve_derives flat key)).
  { unfold resolve_derives. rewrite Hd.
    destruct (smap_get (fl_specific flat) key) as [d|] eqn:E.
    - apply fg_good_union; [apply fg_good_member; left; reflexivity|].
      eapply fg_smap_get_good; eauto.
    - apply fg_good_member; left; reflexivity. }
  intros Hx. exact (G x Hx).
Qed.

Lemma fg_map_kt_fixed phi (l : list kt) :
  (forall w, In w (flat_map snd l) -> phi w = w) -> map (map_kt phi) l = l.
Proof.
  induction l as [|[k t] l IH]; intros H; [reflexivity|].
  cbn [map]. unfold map_kt at 1. cbn [fst snd].
  rewrite (map_fixed phi t)
    by (intros w Hw; apply H; cbn [flat_map snd]; apply in_or_app; left; exact Hw).
  rewrite IH by (intros w Hw; apply H; cbn [flat_map snd]; apply in_or_app; right; exact Hw).
  reflexivity.
Qed.

Lemma map_derives_fixed phi d :
  (forall w, In w (derives_inputs d) -> phi w = w) -> map_derives phi d = d.
Proof.
  intros H. destruct d as [ds ats]. unfold map_derives, derives_inputs in *.
  cbn [d_derives d_attrs] in *.
  rewrite (fg_map_kt_fixed phi ds) by (intros w Hw; apply H, in_or_app; left; exact Hw).
  rewrite (fg_map_kt_fixed phi ats) by (intros w Hw; apply H, in_or_app; right; exact Hw).
  reflexivity.
Qed.

Lemma fg_derives_inputs_iff d w :
  In w (derives_inputs d) <-> exists x, In x (d_derives d ++ d_attrs d) /\ In w (snd x).
Proof.
  unfold derives_inputs. rewrite in_app_iff, !in_flat_map. split.
  - intros [(x & Hx & Hw)|(x & Hx & Hw)]; exists x; (split; [|exact Hw]); apply in_or_app;
      [left|right]; exact Hx.
  - intros (x & Hx & Hw). apply in_app_iff in Hx as [Hx|Hx]; [left|right]; exists x; split; assumption.
Qed.

Lemma fg_resolve_inputs_from dr r flat key w :
  flatten dr r = Ok flat -> In w (derives_inputs (resolve_derives flat key)) ->
  In w (flat_map derives_inputs (derives_list dr)).
Proof.
  intros Hf Hw. apply fg_derives_inputs_iff in Hw as (x & Hx & Hw).
  destruct (flatten_derives_from dr r flat key x Hf Hx) as (d & Hd & Hxd).
  apply in_flat_map. exists d. split; [exact Hd|].
  apply fg_derives_inputs_iff. exists x. split; assumption.
Qed.

Lemma resolve_derives_fixed phi s r flat key :
  flatten (s_dreg s) r = Ok flat ->
  (forall w, In w (flat_map derives_inputs (derives_list (s_dreg s))) -> phi w = w) ->
  map_derives phi (resolve_derives flat key) = resolve_derives flat key.
Proof.
  intros Hf H. apply map_derives_fixed. intros w Hw. apply H.
  eapply fg_resolve_inputs_from; eauto.
Qed.

Lemma fg_add_as_compact_inputs s d w :
  In w (derives_inputs (add_as_compact s d)) ->
  In w (derives_inputs d) \/ In w (match s_compact_as s with Some k => snd k | None => [] end).
Proof.
  unfold add_as_compact. destruct (s_compact_as s) as [k|]; [|intros H; left; exact H].
  unfold derives_inputs. cbn [d_derives d_attrs]. rewrite !in_app_iff, !in_flat_map.
  intros [(x & Hx & Hw)|H].
  - apply in_app_iff in Hx as [Hx|Hx].
    + left. left. exists x. split; assumption.
    + destruct Hx as [Hx|[]]. subst x. right. exact Hw.
  - left. right. exact H.
Qed.

Lemma add_as_compact_fixed phi s r flat key :
  flatten (s_dreg s) r = Ok flat ->
  (forall w, In w (flat_map derives_inputs (derives_list (s_dreg s))) -> phi w = w) ->
  (forall w, In w (match s_compact_as s with Some k => snd k | None => [] end) -> phi w = w) ->
  map_derives phi (add_as_compact s (resolve_derives flat key)) =
  add_as_compact s (resolve_derives flat key).
Proof.
  intros Hf H Hc. apply map_derives_fixed. intros w Hw.
  apply fg_add_as_compact_inputs in Hw as [Hw|Hw]; [|apply Hc; exact Hw].
  apply H. eapply fg_resolve_inputs_from; eauto.
Qed.

(** * B. the IR *)
Lemma fg_parent_params_go l :
  (fix go (l : list tpath) := match l with [] => [] | x :: l' => parent_params x ++ go l' end) l
  = flat_map parent_params l.
Proof. induction l as [|x l IH]; [reflexivity|]. cbn [flat_map]. rewrite <- IH. reflexivity. Qed.

Lemma fg_parent_params_TPath ptoks params :
  parent_params (TPath ptoks params) = flat_map parent_params params.
Proof. rewrite <- fg_parent_params_go. reflexivity. Qed.
Lemma fg_parent_params_TTuple els : parent_params (TTuple els) = flat_map parent_params els.
Proof. rewrite <- fg_parent_params_go. reflexivity. Qed.

Lemma fg_flat_map_map_Forall {A B C} (f : B -> list C) (f' : A -> list C) (g : A -> B) l :
  Forall (fun x => f (g x) = f' x) l -> flat_map f (map g l) = flat_map f' l.
Proof.
  induction 1 as [|x l Hx Hl IH]; [reflexivity|]. cbn [map flat_map]. rewrite Hx, IH. reflexivity.
Qed.

Lemma parent_params_map_tpath phi t : parent_params (map_tpath phi t) = parent_params t.
Proof.
  induction t as [p|ptoks params IH|o IH|len o IH|els IH|p|i f cp IH|o st b IHo IHs]
                 using tpath_ind'; cbn [map_tpath].
  - reflexivity.
  - rewrite !fg_parent_params_TPath. apply fg_flat_map_map_Forall. exact IH.
  - exact IH.
  - exact IH.
  - rewrite !fg_parent_params_TTuple. apply fg_flat_map_map_Forall. exact IH.
  - reflexivity.
  - exact IH.
  - cbn [parent_params]. rewrite IHo, IHs. reflexivity.
Qed.

Lemma is_compact_map_tpath phi t : is_compact (map_tpath phi t) = is_compact t.
Proof. destruct t; reflexivity. Qed.
Lemma is_uint_map_tpath phi t : is_uint_up_to_u128 (map_tpath phi t) = is_uint_up_to_u128 t.
Proof. destruct t; reflexivity. Qed.

Lemma fg_could_derive_map phi k :
  could_derive_as_compact (map_ckind phi k) = could_derive_as_compact k.
Proof.
  destruct k as [|[|[n f] [|x l]]|[|f [|x l]]];
    cbn [map_ckind map could_derive_as_compact fst snd]; try reflexivity;
    cbn [map_fi fi_path]; apply is_uint_map_tpath.
Qed.

(** membership in [registry_idents] *)
Lemma fg_in_path (r : registry) id t seg :
  In (id, t) r -> In seg (t_path t) -> In seg (registry_idents r).
Proof.
  intros Hin Hs. unfold registry_idents. apply in_flat_map. exists (id, t).
  split; [exact Hin|]. cbn [snd]. apply in_or_app. left. exact Hs.
Qed.

Lemma fg_in_fields fs f n : In f fs -> f_name f = Some n -> In n (fields_idents fs).
Proof.
  intros Hin En. unfold fields_idents. apply in_flat_map. exists f. split; [exact Hin|].
  rewrite En. left. reflexivity.
Qed.

Lemma fg_in_composite (r : registry) id t fs f n :
  In (id, t) r -> t_def t = TDComposite fs -> In f fs -> f_name f = Some n ->
  In n (registry_idents r).
Proof.
  intros Hin Hd Hf En. unfold registry_idents. apply in_flat_map. exists (id, t).
  split; [exact Hin|]. cbn [snd]. apply in_or_app. right. rewrite Hd.
  eapply fg_in_fields; eauto.
Qed.

Lemma fg_in_variant_name (r : registry) id t vs v :
  In (id, t) r -> t_def t = TDVariant vs -> In v vs -> In (v_name v) (registry_idents r).
Proof.
  intros Hin Hd Hv. unfold registry_idents. apply in_flat_map. exists (id, t).
  split; [exact Hin|]. cbn [snd]. apply in_or_app. right. rewrite Hd.
  apply in_flat_map. exists v. split; [exact Hv|]. left. reflexivity.
Qed.

Lemma fg_in_variant_field (r : registry) id t vs v f n :
  In (id, t) r -> t_def t = TDVariant vs -> In v vs -> In f (v_fields v) -> f_name f = Some n ->
  In n (registry_idents r).
Proof.
  intros Hin Hd Hv Hf En. unfold registry_idents. apply in_flat_map. exists (id, t).
  split; [exact Hin|]. cbn [snd]. apply in_or_app. right. rewrite Hd.
  apply in_flat_map. exists v. split; [exact Hv|]. right. eapply fg_in_fields; eauto.
Qed.

Lemma fg_last_in : forall (p : list string) d, p <> [] -> In (last p d) p.
Proof.
  induction p as [|a p IH]; intros d Hne; [congruence|].
  destruct p as [|b p]; [left; reflexivity|].
  right. change (last (a :: b :: p) d) with (last (b :: p) d). apply IH. discriminate.
Qed.

Lemma fg_path_ident_in p nm : path_ident p = Some nm -> In nm p.
Proof.
  unfold path_ident. destruct p as [|a p]; [discriminate|].
  intros H. assert (E : nm = last (a :: p) "") by congruence.
  rewrite E. apply fg_last_in. discriminate.
Qed.

Section Frame.
  Variable phi : string -> string.
  Variable r : registry.
  Variable s1 s2 : settings.
  Hypothesis HF : gen_frame phi r s1 s2.

  Lemma fg_frame_resolve : resolve_frame phi r s1 s2.
  Proof. exact (proj1 HF). Qed.

  Lemma fg_docs_eq docs : docs_from_scale_info s2 docs = docs_from_scale_info s1 docs.
  Proof.
    destruct HF as (_ & Hdocs & _). unfold docs_from_scale_info. rewrite Hdocs. reflexivity.
  Qed.

  Lemma field_ir_of_map params f :
    field_ir_of r s2 params f = rmap (map_fi phi) (field_ir_of r s1 params f).
  Proof.
    unfold field_ir_of.
    rewrite (resolve_field_type_path_map phi r s1 s2 _ _ _ fg_frame_resolve).
    destruct (resolve_field_type_path r s1 (f_ty f) params (f_type_name f)) as [p|e|m];
      [|reflexivity|reflexivity].
    cbn [rmap bind]. unfold map_fi. cbn [fi_path fi_compact fi_boxed].
    rewrite is_compact_map_tpath. reflexivity.
  Qed.

  Lemma create_composite_ir_kind_map fs params unused :
    (forall f n, In f fs -> f_name f = Some n -> phi n = n) ->
    create_composite_ir_kind r s2 fs params unused =
    rmap (fun ku => (map_ckind phi (fst ku), snd ku))
         (create_composite_ir_kind r s1 fs params unused).
  Proof.
    intros Hn. unfold create_composite_ir_kind. destruct fs as [|f0 fs0]; [reflexivity|].
    cbv beta iota. set (fs := f0 :: fs0) in *. clearbody fs.
    destruct (negb (all_named fs || all_unnamed fs)); [reflexivity|].
    destruct (all_named fs) eqn:Han.
    - assert (E : mapM (fun f => let* id := parse_ident (match f_name f with Some n => n | None => "" end) in
                                 let* fi := field_ir_of r s2 params f in Ok (id, fi)) fs =
                  rmap (map (fun x => (phi (fst x), map_fi phi (snd x))))
                       (mapM (fun f => let* id := parse_ident (match f_name f with Some n => n | None => "" end) in
                                       let* fi := field_ir_of r s1 params f in Ok (id, fi)) fs)).
      { apply mapM_rmap_all. intros f Hin.
        unfold all_named in Han. rewrite forallb_forall in Han. specialize (Han f Hin).
        destruct (f_name f) as [n|] eqn:En; [|discriminate].
        unfold parse_ident. destruct (ident_okb n); [|reflexivity]. cbn [bind].
        rewrite field_ir_of_map.
        destruct (field_ir_of r s1 params f) as [fi|e|m]; [|reflexivity|reflexivity].
        cbn [rmap bind fst snd]. rewrite (Hn f n Hin En). reflexivity. }
      rewrite E. clear E.
      match goal with |- context [mapM ?F fs] => destruct (mapM F fs) as [lst|e|m] end;
        [|reflexivity|reflexivity].
      cbn [rmap bind fst snd map_ckind]. do 3 f_equal.
      apply fg_flat_map_map_Forall. apply Forall_forall. intros x _.
      cbn [snd map_fi fi_path]. apply parent_params_map_tpath.
    - rewrite (mapM_rmap_all (field_ir_of r s1 params) (field_ir_of r s2 params) (map_fi phi) fs)
        by (intros f _; apply field_ir_of_map).
      destruct (mapM (field_ir_of r s1 params) fs) as [lst|e|m]; [|reflexivity|reflexivity].
      cbn [rmap bind fst snd map_ckind]. do 3 f_equal.
      apply fg_flat_map_map_Forall. apply Forall_forall. intros x _.
      cbn [map_fi fi_path]. apply parent_params_map_tpath.
  Qed.

  Lemma variants_ir_map params : forall vs unused,
    (forall v, In v vs -> phi (v_name v) = v_name v /\
                          forall f n, In f (v_fields v) -> f_name f = Some n -> phi n = n) ->
    variants_ir r s2 params vs unused =
    rmap (fun x => (map (fun y => (fst y, map_ci phi (snd y))) (fst x), snd x))
         (variants_ir r s1 params vs unused).
  Proof.
    induction vs as [|v vs IH]; intros unused Hv; [reflexivity|].
    rewrite !variants_ir_cons.
    destruct (Hv v (or_introl eq_refl)) as [Hvn Hvf].
    unfold parse_ident. destruct (ident_okb (v_name v)); [|reflexivity]. cbn [bind].
    rewrite (create_composite_ir_kind_map _ _ _ Hvf).
    destruct (create_composite_ir_kind r s1 (v_fields v) params unused) as [[k u]|e|m];
      [|reflexivity|reflexivity].
    cbn [rmap bind fst snd]. rewrite IH by (intros v' Hv'; apply Hv; right; exact Hv').
    destruct (variants_ir r s1 params vs u) as [[cs u']|e|m]; [|reflexivity|reflexivity].
    cbn [rmap bind fst snd map]. unfold map_ci. cbn [ci_name ci_kind ci_docs].
    rewrite Hvn, fg_docs_eq. reflexivity.
  Qed.

  Lemma fg_final_derives flat key (cd : bool) :
    flatten (s_dreg s1) r = Ok flat ->
    map_derives phi (if cd then add_as_compact s1 (resolve_derives flat key)
                     else resolve_derives flat key) =
    if cd then add_as_compact s2 (resolve_derives flat key) else resolve_derives flat key.
  Proof.
    intros Hfl. destruct HF as (_ & _ & _ & _ & Hcas & _ & Hder & Hck).
    assert (Ea : forall d, add_as_compact s2 d = add_as_compact s1 d).
    { intros d. unfold add_as_compact. rewrite Hcas. reflexivity. }
    rewrite Ea. destruct cd.
    - eapply add_as_compact_fixed; eauto.
    - eapply resolve_derives_fixed; eauto.
  Qed.

  Lemma create_type_ir_map id t flat :
    In (id, t) r -> flatten (s_dreg s1) r = Ok flat ->
    create_type_ir r s2 t flat = rmap (option_map (map_ir phi)) (create_type_ir r s1 t flat).
  Proof.
    intros Hin Hfl. pose proof HF as (HR & Hdocs & Hcodec & Hdreg & Hcas & Hreg & Hder & Hck).
    rewrite !create_type_ir_eq.
    destruct (negb (is_composite_or_variant (t_def t))); [reflexivity|].
    destruct (path_ident (t_path t)) as [nm|] eqn:Epi; [|reflexivity].
    assert (Hnm : phi nm = nm).
    { apply Hreg. eapply fg_in_path; [exact Hin|]. apply fg_path_ident_in; exact Epi. }
    unfold parse_ident. destruct (ident_okb nm); [|reflexivity]. cbn [bind].
    destruct (t_def t) as [fs|vs| | | | | |] eqn:Edef; try reflexivity.
    - rewrite (create_composite_ir_kind_map fs)
        by (intros f n Hf En; apply Hreg; eapply fg_in_composite; eauto).
      destruct (create_composite_ir_kind r s1 fs _ _) as [[k u]|e|m]; cbn [rmap bind fst snd];
        [|reflexivity|reflexivity].
      rewrite fg_could_derive_map.
      unfold resolve_derives_for_type.
      destruct (syn_type_path_key (t_path t)) as [key|e|m]; cbn [bind rmap];
        [|reflexivity|reflexivity].
      cbn [option_map]. unfold map_ir. cbn [ti_params ti_unused ti_derives ti_codec ti_kind map_kind].
      unfold map_ci. cbn [ci_name ci_kind ci_docs].
      rewrite Hnm, Hcodec, fg_docs_eq, (fg_final_derives flat key _ Hfl). reflexivity.
    - rewrite (variants_ir_map _ vs).
      2:{ intros v Hv. split.
          - apply Hreg. eapply fg_in_variant_name; eauto.
          - intros f n Hf En. apply Hreg. eapply fg_in_variant_field; eauto. }
      destruct (variants_ir r s1 _ vs _) as [[cs u]|e|m]; cbn [rmap bind fst snd];
        [|reflexivity|reflexivity].
      unfold resolve_derives_for_type.
      destruct (syn_type_path_key (t_path t)) as [key|e|m]; cbn [bind rmap];
        [|reflexivity|reflexivity].
      cbn [option_map]. unfold map_ir. cbn [ti_params ti_unused ti_derives ti_codec ti_kind map_kind].
      rewrite Hnm, Hcodec, fg_docs_eq.
      rewrite (resolve_derives_fixed phi s1 r flat key Hfl Hder). reflexivity.
  Qed.
End Frame.

(** * C. generation *)
Lemma gen_loop_transport_in r s s' teq flat (f : type_ir -> type_ir) :
  s_subs s' = s_subs s ->
  forall l,
    (forall id t, In (id, t) l ->
       create_type_ir r s' t flat = rmap (option_map f) (create_type_ir r s t flat)) ->
    forall acc,
      gen_loop r s' teq flat l (map_items f acc) = rmap (map_items f) (gen_loop r s teq flat l acc).
Proof.
  intros Hsubs. induction l as [|[id t] l IH]; intros Hc acc.
  - rewrite !gen_loop_nil. reflexivity.
  - pose proof (IH (fun id' t' H' => Hc id' t' (or_intror H'))) as IH'. clear IH.
    rewrite !gen_loop_cons. rewrite Hsubs.
    destruct (subs_contains (s_subs s) (t_path t)); [apply IH'|].
    destruct (namespace (t_path t)) as [|n0 ns]; [apply IH'|].
    rewrite (Hc id t (or_introl eq_refl)).
    destruct (create_type_ir r s t flat) as [[ir|]|e|msg]; rewrite ?rmap_ok;
      cbn [bind option_map]; try reflexivity; [|apply IH'].
    destruct (forallb ident_lexb (n0 :: ns)); [|reflexivity].
    rewrite items_get_map_items.
    destruct (items_get acc (t_path t)) as [[other ir']|]; cbn [option_map fst snd].
    + destruct (teq id other) as [[|]|e|msg]; cbn [bind]; try reflexivity. apply IH'.
    + rewrite <- IH'. rewrite items_insert_map_items. reflexivity.
Qed.

Theorem generate_map phi r s1 s2 teq :
  gen_frame phi r s1 s2 ->
  generate r s2 teq = rmap (map_items (map_ir phi)) (generate r s1 teq).
Proof.
  intros HF. pose proof HF as (HR & _ & _ & Hdreg & _).
  pose proof HR as (_ & Hsubs & _).
  rewrite !generate_unfold. rewrite Hdreg.
  destruct (sanity_pass r) as [u|e|m]; [|reflexivity|reflexivity]. cbn [bind].
  destruct (flatten (s_dreg s1) r) as [flat|e|m] eqn:Hfl; [|reflexivity|reflexivity]. cbn [bind].
  assert (Hc : forall id t, In (id, t) r ->
             create_type_ir r s2 t flat = rmap (option_map (map_ir phi)) (create_type_ir r s1 t flat)).
  { intros id t Hin. eapply create_type_ir_map; eauto. }
  exact (gen_loop_transport_in r s1 s2 teq flat (map_ir phi) Hsubs r Hc []).
Qed.

Lemma fg_gen_loop_keys_Forall r s teq flat (Q : list string -> Prop) : forall l acc m,
  (forall id t, In (id, t) l -> Q (t_path t)) ->
  Forall (fun e : list string * (N * type_ir) => Q (fst e)) acc ->
  gen_loop r s teq flat l acc = Ok m ->
  Forall (fun e : list string * (N * type_ir) => Q (fst e)) m.
Proof.
  induction l as [|[id t] l IH]; intros acc m HQ Hacc H.
  - rewrite gen_loop_nil in H. inversion H; subst; exact Hacc.
  - assert (HQ' : forall id' t', In (id', t') l -> Q (t_path t'))
      by (intros id' t' H'; eapply HQ; right; exact H').
    rewrite gen_loop_cons in H.
    destruct (subs_contains (s_subs s) (t_path t)); [eapply IH; eauto|].
    destruct (namespace (t_path t)) as [|n0 ns]; [eapply IH; eauto|].
    destruct (create_type_ir r s t flat) as [[ir|]|e|msg]; cbn [bind] in H;
      try discriminate; [|eapply IH; eauto].
    destruct (forallb ident_lexb (n0 :: ns)); [|discriminate].
    destruct (items_get acc (t_path t)) as [[other ir']|].
    + destruct (teq id other) as [[|]|e|msg]; cbn [bind] in H; try discriminate.
      eapply IH; eauto.
    + eapply IH; [exact HQ'| |exact H].
      apply (items_insert_Forall (fun e => Q (fst e))); [exact Hacc|].
      cbn [fst]. eapply HQ. left. reflexivity.
Qed.

Theorem generate_keys_idents r s teq m :
  generate r s teq = Ok m ->
  forall e seg, In e m -> In seg (fst e) -> In seg (registry_idents r).
Proof.
  intros H. rewrite generate_unfold in H.
  apply bind_ok in H as (u & _ & H). apply bind_ok in H as (flat & _ & H).
  pose proof (fg_gen_loop_keys_Forall r s teq flat
                (fun p => forall seg, In seg p -> In seg (registry_idents r)) r [] m) as G.
  assert (GF : Forall (fun e : list string * (N * type_ir) =>
                         forall seg, In seg (fst e) -> In seg (registry_idents r)) m).
  { apply G; [|constructor|exact H]. intros id t Hin seg Hs. eapply fg_in_path; eauto. }
  rewrite Forall_forall in GF. intros e seg He Hs. exact (GF e He seg Hs).
Qed.
