(* stub *)
