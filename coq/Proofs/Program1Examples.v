(** The labelling discipline of real registries ([RegistryOf1], Model/Program1.v) and the
    hypotheses of the [..1] theorems of C05 evaluated on concrete programs: a registry with
    identity duplicates ([id1_*]), and the example programs of Model/ProgramExamples.v. *)
From Coq Require Import List NArith String Bool.
From V Require Import Base.Util Base.Strings Base.Result Model.Registry Model.Settings Model.Subst Model.TypePath Model.Derives Model.Generate Model.WellFormed Checkers.Parse Checkers.Sem
  Model.Equal Model.Shape Model.Program Model.ProgramSkel Model.ProgramTeq Model.ProgramExamples Model.Program1
  Proofs.SourceRoundTrip Proofs.RegistryOfSound Proofs.Ident1 Proofs.SourceRoundTrip1 Proofs.SourceSkeleton1
  Proofs.SourceReading Proofs.RegistryOf1Sound.
Import ListNotations.
Open Scope string_scope. Open Scope N_scope.

(** the fields of the IR read as parsed types, on real registries (Proofs/SourceReading.v
    [fields_read_as_source] with [RegistryOf1]) *)
Theorem fields_read_as_source1 defs L r s (otp : bool -> tpath) :
  RegistryOf1 defs L r -> (forall sd, In sd defs -> def_okb s sd = true) ->
  prelude_okb s = true -> order_resolves s otp -> render_okb s defs = true ->
  forall d sd args, nth_error defs d = Some sd ->
  instantiation_cf1 defs sd args = true ->
  forallb (fun f => no_cow_cow (sf_ty f)) (def_sfields sd) = true ->
  compact_fields_okb1 defs sd args = true -> box_names_okb defs sd = true ->
  forallb (fun f => apps_okb defs (sf_ty f) && field_conv_okb f) (def_sfields sd) = true ->
  forall t, entry_of1 defs L r (SApp d args) t ->
  forall flat ir, create_type_ir r s t flat = Ok (Some ir) ->
  Forall2 (fun sf fi =>
             fi_pty (alloc_segs s) fi =
             field_pty defs (s_root s) (alloc_segs s) (segs_lead_of (opt_toks (s_compact s)))
                       (segs_lead_of (opt_toks (s_bits s))) (fun lsb => tpath_pty (alloc_segs s) (otp lsb)) sf)
          (def_sfields sd) (kind_fields (ti_kind ir)).
Proof.
  intros HR Hdefs Hprel Hord Hrender d sd args Hsd Hcf Hfrag Hco Hbox Hconv t Hent flat ir Hc.
  destruct (skeleton_is_source1 defs L r s otp HR Hdefs Hprel Hord d sd args Hsd Hcf Hfrag Hco Hbox t Hent flat ir Hc)
    as (_ & Hfields).
  rewrite forallb_forall in Hconv.
  eapply Forall2_impl_In; [|exact Hfields]. intros sf fi Hin H. cbv beta in H.
  destruct (andb_prop _ _ (Hconv sf Hin)) as [Ha Hb].
  rewrite <- fi_pty_erase, H. apply field_reading; assumption.
Qed.

(** ** [i::Ids<T> { a: Vec<Box<Vec<T>>>, b: Vec<Vec<T>>, d: VecDeque<Box<u8>>, e: Vec<u8>, r: T }] at [u16] *)
Definition id1_sd : sdef := nth 0 id1_defs pe_default.

(** the labels the interner records, in [ident1] form: [RegistryOf1] holds *)
Lemma id1_registry_of1b : registry_of1b id1_defs id1_labels id1_reg = true.
Proof. vm_compute. reflexivity. Qed.

Lemma id1_RegistryOf1 : RegistryOf1 id1_defs (label_at id1_labels) id1_reg.
Proof. apply registry_of1b_sound; vm_compute; reflexivity. Qed.

(** the same labels in [canon] form: every entry is still the derive's entry for its label, but
    three pairs of ids share a label: [RegistryOf] does not hold *)
Lemma id1_canon_labels_not_injective :
  registry_entries_ofb id1_defs id1_canon_labels id1_reg = true /\
  labels_injectiveb id1_canon_labels = false /\
  registry_ofb id1_defs id1_canon_labels id1_reg = false /\
  label_at id1_canon_labels 2 = label_at id1_canon_labels 4 /\
  label_at id1_canon_labels 3 = label_at id1_canon_labels 5 /\
  label_at id1_canon_labels 6 = label_at id1_canon_labels 8.
Proof. repeat split; vm_compute; reflexivity. Qed.

Lemma id1_not_RegistryOf : ~ RegistryOf id1_defs (label_at id1_canon_labels) id1_reg.
Proof. intros (_ & _ & H). specialize (H 2 4 _ eq_refl eq_refl). discriminate H. Qed.

(** every hypothesis of [C05_skeleton_is_source1] holds at [u16], the IR exists and its erased
    form IS [ir_of_source] (recomputed here) *)
Lemma id1_hypotheses :
  (prelude_okb ex5_s = true /\ order_resolves ex5_s ex5_otp) /\
  (forall sd, In sd id1_defs -> def_okb ex5_s sd = true) /\
  nth_error id1_defs 0 = Some id1_sd /\
  forallb (fun f => no_cow_cow (sf_ty f)) (def_sfields id1_sd) = true /\ box_names_okb id1_defs id1_sd = true /\
  instantiation_cf1 id1_defs id1_sd [SPrimT PU16] = true /\
  compact_fields_okb1 id1_defs id1_sd [SPrimT PU16] = true /\
  label_at id1_labels 0 = Some (SApp 0 [SPrimT PU16]) /\ resolve id1_reg 0 = Some (id1_ids 1 2 4 6 8) /\
  (exists ir, create_type_ir id1_reg ex5_s (id1_ids 1 2 4 6 8) flat0 = Ok (Some ir) /\
              erase_ids ir = ir_of_source id1_defs ex5_s ex5_otp id1_sd) /\
  is_ok (generate id1_reg ex5_s (types_equal id1_reg)) = true.
Proof.
  split.
  { split; [vm_compute; reflexivity|apply order_resolvesb_sound; vm_compute; reflexivity]. }
  split.
  { intros sd [<-|[]]. vm_compute. reflexivity. }
  repeat split; try (vm_compute; reflexivity).
  eexists. split; vm_compute; reflexivity.
Qed.

(** ** the example programs of Model/ProgramExamples.v and Proofs/SourceRoundTrip.v: the restated
    coincidence-freeness holds wherever the old one was shown to hold *)
Lemma examples_cf1 :
  instantiation_cf1 ex5_defs ex5_sd [SPrimT PU16; SPrimT PStr] = true /\
  instantiation_cf1 ex5_defs ex5_sd [SPrimT PBool; SPrimT PStr] = true /\
  compact_fields_okb1 ex5_defs ex5_sd [SPrimT PU16; SPrimT PStr] = true /\
  compact_fields_okb1 ex5_defs ex5_sd [SPrimT PBool; SPrimT PStr] = true /\
  instantiation_cf1 ex6_defs ex6_sd [SPrimT PU16] = true /\ instantiation_cf1 ex6_defs ex6_sd [SPrimT PBool] = true /\
  compact_fields_okb1 ex6_defs ex6_sd [SPrimT PU16] = true /\ compact_fields_okb1 ex6_defs ex6_sd [SPrimT PBool] = true /\
  instantiation_cf1 ex7_defs ex7_sd [SPrimT PU16] = true /\ instantiation_cf1 ex7_defs ex7_sd [SPrimT PBool] = true /\
  instantiation_cf1 f19_defs (nth 0 f19_defs pe_default) [SPrimT PU8; SVec (SPrimT PU8)] = true /\
  instantiation_cf1 f19_defs (nth 0 f19_defs pe_default) [SPrimT PU16; SVec (SPrimT PU16)] = true /\
  instantiation_cf1 f19_defs (nth 1 f19_defs pe_default) [SPrimT PU8] = true /\
  instantiation_cf1 f19b_defs (nth 0 f19b_defs pe_default) f19b_args1 = true /\
  instantiation_cf1 f19b_defs (nth 0 f19b_defs pe_default) f19b_args2 = true.
Proof. repeat split; vm_compute; reflexivity. Qed.

(** programs without a Box below the top of a type: the [canon] labels are the [ident1] labels *)
Lemma examples_registry_of1b :
  registry_of1b ex6_defs ex6_labels ex6_reg = true /\ registry_of1b ex7_defs ex7_labels ex7_reg = true /\
  registry_of1b f19_defs f19_labels f19_reg = true /\ registry_of1b f19b_defs f19b_labels f19b_reg = true.
Proof. repeat split; vm_compute; reflexivity. Qed.

(** ** [RegistryOf] does not imply [RegistryOf1] for the same labelling, and the right labelling is
    no function of the old one: the registry of [a::Foo<T, #[skip] U> { x: T, y: Box<Vec<T>>, .. }]
    (ex5) satisfies [RegistryOf] with the [canon] label [Vec<u16>] on id 2, and [RegistryOf1] with
    the label [Box<Vec<u16>>] (the entry is registered under the TypeId of [Vec<u16>], not of
    [[u16]]); had the field been written [Vec<T>], the registry and the [canon] labelling would be
    the same and the [ident1] label [Vec<u16>] *)
Definition ex5_labels1 : list (option src) :=
  [Some (SApp 0 [SPrimT PU16; SPrimT PStr]); Some (SPrimT PU16); Some (SBox (SVec (SPrimT PU16)));
   Some (SCompactT (SPrimT PU32)); Some (SPrimT PU32);
   Some (SApp 0 [SPrimT PBool; SPrimT PStr]); Some (SPrimT PBool); Some (SBox (SVec (SPrimT PBool)))].

Lemma ex5_RegistryOf1 : RegistryOf1 ex5_defs (label_at ex5_labels1) ex5_reg.
Proof. apply registry_of1b_sound; vm_compute; reflexivity. Qed.

Lemma ex5_canon_labels_not_RegistryOf1 : ~ RegistryOf1 ex5_defs ex5_L ex5_reg.
Proof.
  intros (H & _ & _). destruct (H 0 (SApp 0%nat [SPrimT PU16; SPrimT PStr]) eq_refl) as (_ & t & Hr & He).
  vm_compute in Hr. inversion Hr; subst t. clear Hr.
  unfold entry_of1 in He. cbn [peel1 unbox content_of1] in He.
  destruct He as (sd & Hsd & _ & _ & _ & Hbody). cbn [nth_error ex5_defs] in Hsd. inversion Hsd; subst sd.
  cbn [sd_body] in Hbody. destruct Hbody as (fl & Hfl & HF). cbn [ex5_foo t_def] in Hfl. inversion Hfl; subst fl.
  inversion HF as [|? ? ? ? _ HF1]; subst. inversion HF1 as [|? ? ? ? Hy _]; subst.
  destruct Hy as (_ & Hlab & _). vm_compute in Hlab. discriminate Hlab.
Qed.

Lemma ex5_examples :
  label_at ex5_labels 2 = Some (canon (SBox (SVec (SPrimT PU16)))) /\
  label_at ex5_labels1 2 = Some (ident1 (SBox (SVec (SPrimT PU16)))) /\
  registry_of1b ex5_defs ex5_labels ex5_reg = false /\ registry_ofb ex5_defs ex5_labels1 ex5_reg = false.
Proof. repeat split; vm_compute; reflexivity. Qed.

(** ** what [RegistryOf] describes beyond the agreement of [canon] and [ident1] is no registry of
    scale-info: [a::Foo<T> { x: Vec<Box<T>>, y: Vec<T> }] at [u16] with ONE sequence entry for both
    fields (what an interner that identifies types up to [canon] produces) satisfies [RegistryOf],
    and NO labelling makes it a [RegistryOf1] registry (the id of the shared entry would have to
    carry the labels [Vec<Box<a>>] and [Vec<a>]) *)
Definition leg_defs : list sdef :=
  [mk_sdef ["a"; "Foo"] [("T", false)]
           (SBStruct [mk_sfield (Some "x") (SVec (SBox (SParam 0))) false true;
                      mk_sfield (Some "y") (SVec (SParam 0)) false true])].
Definition leg_foo : ty :=
  mk_ty ["a"; "Foo"] [mk_tparam "T" (Some 1)]
        (TDComposite [id1_fld "x" 2 "Vec<Box<T>>"; id1_fld "y" 2 "Vec<T>"]) [].
Definition leg_reg : registry := [(0, leg_foo); (1, mk_ty [] [] (TDPrimitive PU16) []); (2, id1_seq 1)].
Definition leg_labels : list (option src) :=
  [Some (SApp 0 [SPrimT PU16]); Some (SPrimT PU16); Some (SVec (SPrimT PU16))].

Lemma leg_RegistryOf : RegistryOf leg_defs (label_at leg_labels) leg_reg.
Proof. apply registry_ofb_sound; vm_compute; reflexivity. Qed.

Lemma box_no_fixpoint : forall t, SBox t <> t.
Proof. induction t; intros H; try discriminate H. injection H as H. exact (IHt H). Qed.

Lemma leg_no_RegistryOf1 : forall L, ~ RegistryOf1 leg_defs L leg_reg.
Proof.
  intros L (H1 & H2 & _).
  destruct (L 0) as [c|] eqn:El.
  2:{ destruct (H2 0 leg_foo eq_refl El) as (lsb & Hp & _). destruct lsb; discriminate Hp. }
  destruct (H1 0 c El) as (_ & t & Hr & He). vm_compute in Hr. inversion Hr; subst t. clear Hr.
  unfold entry_of1 in He. destruct (peel1 c) as [i|d xs|x|x|len x|xs|p|x|x|x|a b|a b|x|x|x|st lsb]; cbn [content_of1] in He.
  - exact He.
  - destruct He as (sd & Hsd & _ & Hlen & _ & Hbody).
    destruct d as [|d]; [|destruct d; discriminate Hsd]. cbn [nth_error leg_defs] in Hsd. inversion Hsd; subst sd. clear Hsd.
    cbn [sd_params List.length] in Hlen. destruct xs as [|a [|]]; try discriminate Hlen.
    cbn [sd_body] in Hbody. destruct Hbody as (fl & Hfl & HF). cbn [leg_foo t_def] in Hfl. inversion Hfl; subst fl. clear Hfl.
    inversion HF as [|? ? ? ? Hx HF1]; subst. inversion HF1 as [|? ? ? ? Hy _]; subst.
    destruct Hx as (_ & Hx & _). destruct Hy as (_ & Hy & _).
    unfold lab1 in Hx, Hy. cbn in Hx, Hy. rewrite Hx in Hy. inversion Hy as [E]. exact (box_no_fixpoint a E).
  - destruct He as (e & (Hp & _) & _). discriminate Hp.
  - exact He.
  - destruct He as (e & (Hp & _) & _). discriminate Hp.
  - destruct He as (e & (Hp & _) & _). discriminate Hp.
  - destruct He as (Hp & _). discriminate Hp.
  - destruct He as (e & (Hp & _) & _). discriminate Hp.
  - exact He.
  - destruct He as (e & _ & Hp & _). discriminate Hp.
  - destruct He as (x & y & _ & _ & Hp & _). discriminate Hp.
  - destruct He as (ik & iv & iseq & _ & _ & _ & Hp & _). discriminate Hp.
  - destruct He as (e & iseq & _ & _ & Hp & _). discriminate Hp.
  - destruct He as (e & _ & Hp & _). discriminate Hp.
  - destruct He as (e & _ & Hp & _). discriminate Hp.
  - destruct He as (ist & io & ot & (Hp & _) & _). discriminate Hp.
Qed.

Lemma leg_example : RegistryOf leg_defs (label_at leg_labels) leg_reg /\ forall L, ~ RegistryOf1 leg_defs L leg_reg.
Proof. exact (conj leg_RegistryOf leg_no_RegistryOf1). Qed.

(** ** completeness of [types_equal] on a real registry with identity duplicates:
    [a::Pt<T> { x: T, ys: Vec<T> }] (fragment [teq_program_okb]) at [Vec<Box<u16>>] and at [Vec<u16>]
    - two instantiations with one [canon] form, registered separately by scale-info, as are
    [Vec<Box<u16>>] / [Vec<u16>] and [Vec<Vec<Box<u16>>>] / [Vec<Vec<u16>>] *)
Definition tq1_defs : list sdef :=
  [mk_sdef ["a"; "Pt"] [("T", false)]
           (SBStruct [mk_sfield (Some "x") (SParam 0) false true;
                      mk_sfield (Some "ys") (SVec (SParam 0)) false true])].
Definition tq1_sd : sdef := nth 0 tq1_defs pe_default.
Definition tq1_pt (t ys : N) : ty :=
  mk_ty ["a"; "Pt"] [mk_tparam "T" (Some t)] (TDComposite [id1_fld "x" t "T"; id1_fld "ys" ys "Vec<T>"]) [].
Definition tq1_reg : registry :=
  [(0, tq1_pt 1 3); (1, id1_seq 2); (2, mk_ty [] [] (TDPrimitive PU16) []); (3, id1_seq 1);
   (4, tq1_pt 5 6); (5, id1_seq 2); (6, id1_seq 5)].
Definition tq1_args1 : list src := [SVec (SBox (SPrimT PU16))].
Definition tq1_args2 : list src := [SVec (SPrimT PU16)].
Definition tq1_raw_labels : list (option src) :=
  [Some (SApp 0 tq1_args1); Some (SVec (SBox (SPrimT PU16))); Some (SBox (SPrimT PU16));
   Some (SVec (SVec (SBox (SPrimT PU16))));
   Some (SApp 0 tq1_args2); Some (SVec (SPrimT PU16)); Some (SVec (SVec (SPrimT PU16)))].
Definition tq1_labels : list (option src) := ident1_labels tq1_raw_labels.

Lemma tq1_RegistryOf1 : RegistryOf1 tq1_defs (label_at tq1_labels) tq1_reg.
Proof. apply registry_of1b_sound; vm_compute; reflexivity. Qed.

Lemma tq1_facts :
  labels_injectiveb (map (fun o => match o with Some c => Some (canon c) | None => None end) tq1_raw_labels) = false /\
  nth_error tq1_defs 0 = Some tq1_sd /\ teq_program_okb tq1_sd = true /\
  instantiation_cf1 tq1_defs tq1_sd tq1_args1 = true /\ instantiation_cf1 tq1_defs tq1_sd tq1_args2 = true /\
  label_at tq1_labels 0 = Some (SApp 0 tq1_args1) /\ label_at tq1_labels 4 = Some (SApp 0 tq1_args2) /\
  map canon tq1_args1 = map canon tq1_args2 /\
  types_equal_res tq1_reg 0 4 = Ok true /\
  is_ok (generate tq1_reg ex5_s (types_equal tq1_reg)) = true.
Proof. repeat split; vm_compute; reflexivity. Qed.

Lemma tq1_example :
  RegistryOf1 tq1_defs (label_at tq1_labels) tq1_reg /\
  labels_injectiveb (map (fun o => match o with Some c => Some (canon c) | None => None end) tq1_raw_labels) = false /\
  nth_error tq1_defs 0 = Some tq1_sd /\ teq_program_okb tq1_sd = true /\
  instantiation_cf1 tq1_defs tq1_sd tq1_args1 = true /\ instantiation_cf1 tq1_defs tq1_sd tq1_args2 = true /\
  label_at tq1_labels 0 = Some (SApp 0 tq1_args1) /\ label_at tq1_labels 4 = Some (SApp 0 tq1_args2) /\
  map canon tq1_args1 = map canon tq1_args2 /\
  types_equal_res tq1_reg 0 4 = Ok true /\
  is_ok (generate tq1_reg ex5_s (types_equal tq1_reg)) = true.
Proof. exact (conj tq1_RegistryOf1 tq1_facts). Qed.
