(** C10: the independent descent of the run-time checkers [prop_missing_path] /
    [prop_missing_id_paths] ([descent_step], [descent_rounds], [path_verdict] of Corr/CheckTG.v)
    computes the reachability relation [reaches_missing] of Model/MissingId.v, and therefore - by
    [missing_id_resolve] - its verdict is the outcome of the MODEL's [resolve_type_path] on every
    registry of the class [resolvable_but]: the checker and the theorem say the same thing.

    Part A: [descent_rounds] is a correct worklist closure (for any registry and settings): when it
    answers [Some fails], [fails] is exactly the set of failures raised at the ids reachable from
    the frontier along [descent_step] edges.
    Part B: on [parents = []] the edges of [descent_step] are the edges of [reaches_missing] and
    its [FMissing] failures are the constructors [RM_here] / [RM_cow].
    Part C: the verdict. *)
From Coq Require Import List NArith String Ascii Bool Lia Arith.
From V Require Import Base.Strings Base.Result Model.Registry Model.Settings Model.Subst
  Model.TypePath Model.Derives Model.Generate Model.WellFormed Model.MissingId
  Proofs.ResolveTotal Proofs.MissingId Corr.CheckTG.
Import ListNotations.
Open Scope string_scope. Open Scope list_scope.

(** ** Part A: the closure *)
Section Closure.
  Variable r : registry.
  Variable s : settings.

  Definition dchild (x c : N) : Prop := In c (snd (descent_step r s x)).
  Definition dfails (x : N) (f : dfail) : Prop := In f (fst (descent_step r s x)).

  Inductive dreach : N -> N -> Prop :=
  | dreach_refl x : dreach x x
  | dreach_step x c y : dchild x c -> dreach c y -> dreach x y.

  Lemma dreach_snoc x y z : dreach x y -> dchild y z -> dreach x z.
  Proof.
    induction 1 as [x|x c y Hc _ IH]; intros Hz.
    - eapply dreach_step; [exact Hz|apply dreach_refl].
    - eapply dreach_step; [exact Hc|apply IH; exact Hz].
  Qed.

  Lemma existsb_eqb_In x l : existsb (N.eqb x) l = true <-> In x l.
  Proof.
    rewrite existsb_exists. split.
    - intros (y & Hy & E). apply N.eqb_eq in E. subst. exact Hy.
    - intros H. exists x. split; [exact H|apply N.eqb_refl].
  Qed.

  Lemma nodup_keep_In : forall l seen x, In x (nodup_keep seen l) <-> In x l /\ ~ In x seen.
  Proof.
    induction l as [|a l IH]; intros seen x; cbn [nodup_keep]; [tauto|].
    destruct (existsb (N.eqb a) seen) eqn:E.
    - apply existsb_eqb_In in E. rewrite IH. split.
      + intros (H1 & H2). split; [right; exact H1|exact H2].
      + intros ([<-|H1] & H2); [contradiction|auto].
    - assert (Hn : ~ In a seen).
      { intros H. apply existsb_eqb_In in H. congruence. }
      cbn [In]. rewrite IH. cbn [In]. split.
      + intros [<-|(H1 & H2)]; [auto|]. split; [right; exact H1|intros H; apply H2; right; exact H].
      + intros ([<-|H1] & H2); [left; reflexivity|].
        destruct (N.eq_dec a x) as [->|Hne]; [left; reflexivity|].
        right. split; [exact H1|]. intros [E'|H]; [contradiction|contradiction].
  Qed.

  (** the sources of the closure: [roots] *)
  Definition closure_inv (roots visited frontier : list N) (fails : list dfail) : Prop :=
    (forall x, In x roots -> In x visited \/ In x frontier) /\
    (forall v c, In v visited -> dchild v c -> In c visited \/ In c frontier) /\
    (forall v f, In v visited -> dfails v f -> In f fails) /\
    (forall x, In x visited \/ In x frontier -> exists x0, In x0 roots /\ dreach x0 x) /\
    (forall f, In f fails -> exists x0 v, In x0 roots /\ dreach x0 v /\ dfails v f).

  Lemma descent_rounds_closure roots : forall n visited frontier fails fails',
    closure_inv roots visited frontier fails ->
    descent_rounds n r s [] visited frontier fails = Some fails' ->
    (forall f, In f fails' -> exists x0 v, In x0 roots /\ dreach x0 v /\ dfails v f) /\
    (forall x0 v f, In x0 roots -> dreach x0 v -> dfails v f -> In f fails').
  Proof.
    induction n as [|n IH]; intros visited frontier fails fails' (I0 & I1 & I2 & I3 & I4) H.
    - cbn [descent_rounds app] in H.
      destruct (nodup_keep visited frontier) as [|a todo] eqn:Et; [|discriminate].
      inversion H; subst fails'. clear H.
      assert (Hfv : forall x, In x frontier -> In x visited).
      { intros x Hx. destruct (in_dec N.eq_dec x visited) as [Hv|Hv]; [exact Hv|].
        assert (Hin : In x (nodup_keep visited frontier)) by (apply nodup_keep_In; auto).
        rewrite Et in Hin. destruct Hin. }
      split; [exact I4|].
      intros x0 v f Hx0 Hr Hf.
      assert (Hv : In v visited).
      { assert (Hx0v : In x0 visited) by (destruct (I0 _ Hx0); auto).
        clear Hx0. induction Hr as [x|x c y Hc _ IHr]; [exact Hx0v|].
        apply IHr; [exact Hf|]. destruct (I1 _ _ Hx0v Hc); auto. }
      exact (I2 _ _ Hv Hf).
    - cbn [descent_rounds app] in H.
      destruct (nodup_keep visited frontier) as [|a todo'] eqn:Et.
      + inversion H; subst fails'. clear H.
        assert (Hfv : forall x, In x frontier -> In x visited).
        { intros x Hx. destruct (in_dec N.eq_dec x visited) as [Hv|Hv]; [exact Hv|].
          assert (Hin : In x (nodup_keep visited frontier)) by (apply nodup_keep_In; auto).
          rewrite Et in Hin. destruct Hin. }
        split; [exact I4|].
        intros x0 v f Hx0 Hr Hf.
        assert (Hv : In v visited).
        { assert (Hx0v : In x0 visited) by (destruct (I0 _ Hx0); auto).
          clear Hx0. induction Hr as [x|x c y Hc _ IHr]; [exact Hx0v|].
          apply IHr; [exact Hf|]. destruct (I1 _ _ Hx0v Hc); auto. }
        exact (I2 _ _ Hv Hf).
      + set (todo := a :: todo') in *.
        assert (Htodo : forall x, In x todo <-> In x frontier /\ ~ In x visited).
        { intros x. rewrite <- Et. apply nodup_keep_In. }
        assert (Hfront : forall x, In x frontier -> In x (todo ++ visited)).
        { intros x Hx. apply in_or_app. destruct (in_dec N.eq_dec x visited) as [Hv|Hv]; [right; exact Hv|].
          left. apply Htodo. auto. }
        apply (IH (todo ++ visited) (flat_map snd (map (descent_step r s) todo))
                  (flat_map fst (map (descent_step r s) todo) ++ fails) fails'); [|exact H].
        split; [|split; [|split; [|split]]].
        * intros x Hx. left. destruct (I0 _ Hx) as [Hv|Hf]; [apply in_or_app; right; exact Hv|apply Hfront; exact Hf].
        * intros v c Hv Hc. apply in_app_or in Hv as [Hv|Hv].
          -- right. apply in_flat_map. exists (descent_step r s v). split; [apply in_map; exact Hv|exact Hc].
          -- left. destruct (I1 _ _ Hv Hc) as [Hcv|Hcf]; [apply in_or_app; right; exact Hcv|apply Hfront; exact Hcf].
        * intros v f Hv Hf. apply in_or_app. apply in_app_or in Hv as [Hv|Hv].
          -- left. apply in_flat_map. exists (descent_step r s v). split; [apply in_map; exact Hv|exact Hf].
          -- right. exact (I2 _ _ Hv Hf).
        * intros x [Hx|Hx].
          -- apply I3. apply in_app_or in Hx as [Hx|Hx]; [right; apply Htodo in Hx; tauto|left; exact Hx].
          -- apply in_flat_map in Hx as (st & Hst & Hx). apply in_map_iff in Hst as (v & <- & Hv).
             destruct (I3 v) as (x0 & Hx0 & Hr); [right; apply Htodo in Hv; tauto|].
             exists x0. split; [exact Hx0|]. eapply dreach_snoc; [exact Hr|exact Hx].
        * intros f Hf. apply in_app_or in Hf as [Hf|Hf]; [|apply I4; exact Hf].
          apply in_flat_map in Hf as (st & Hst & Hf). apply in_map_iff in Hst as (v & <- & Hv).
          destruct (I3 v) as (x0 & Hx0 & Hr); [right; apply Htodo in Hv; tauto|].
          exists x0, v. auto.
  Qed.

  (** from one root *)
  Theorem descent_rounds_spec n id fails :
    descent_rounds n r s [] [] [id] [] = Some fails ->
    forall f, In f fails <-> exists v, dreach id v /\ dfails v f.
  Proof.
    intros H.
    destruct (descent_rounds_closure [id] n [] [id] [] fails) as (S1 & S2); [|exact H|].
    { split; [intros x Hx; right; exact Hx|]. split; [intros v c []|]. split; [intros v f []|].
      split; [|intros f []].
      intros x [[]|[<-|[]]]. exists id. split; [left; reflexivity|apply dreach_refl]. }
    intros f. split.
    - intros Hf. destruct (S1 f Hf) as (x0 & v & [<-|[]] & Hr & Hv). exists v. auto.
    - intros (v & Hr & Hv). apply (S2 id v f); [left; reflexivity|exact Hr|exact Hv].
  Qed.
End Closure.

(** ** Part B: the edges and failures of [descent_step] against [reaches_missing] (no parents) *)
Section Edges.
  Variable r : registry.
  Variable s : settings.

  Lemma cow_named_is_cow t : cow_named t = is_cow (path_ident (t_path t)).
  Proof. unfold cow_named. rewrite is_cow_path_ident. destruct (t_path t); reflexivity. Qed.

  Lemma find_parent_nil id orig : find_parent [] id orig = None.
  Proof. reflexivity. Qed.

  Definition step_ids (t : ty) : list N :=
    flat_map (fun p => match tp_ty p with Some i => [i] | None => [] end) (t_params t).

  Lemma step_ids_param_ids t : step_ids t = param_ids t.
  Proof. reflexivity. Qed.

  (** the children listed for a looked-through entry are among its non-field ids *)
  Definition step_def (t : ty) : list dfail * list N :=
    match t_def t with
    | TDComposite _ | TDVariant _ | TDPrimitive _ => ([], step_ids t)
    | TDSequence e | TDArray _ e => ([], step_ids t ++ [e])
    | TDTuple es => ([], step_ids t ++ es)
    | TDCompact e => (match s_compact s with None => [FCompact] | Some _ => [] end, step_ids t ++ [e])
    | TDBitSeq st od =>
        match s_bits s with
        | None => ([FBits], step_ids t)
        | Some _ => ([], step_ids t ++ [od; st])
        end
    end.

  Lemma step_children_nonfield t : forall c, In c (snd (step_def t)) -> In c (nonfield_ids t).
  Proof.
    unfold nonfield_ids, step_def. rewrite step_ids_param_ids.
    destruct (t_def t) as [ | | | | | | |st od]; cbn [snd def_ids]; intros c Hc;
      try (apply in_or_app; left; exact Hc);
      try (apply in_app_or in Hc as [Hc|Hc]; apply in_or_app; [left; exact Hc|right; exact Hc]).
    destruct (s_bits s); cbn [snd] in Hc.
    - apply in_app_or in Hc as [Hc|Hc]; apply in_or_app; [left; exact Hc|right].
      destruct Hc as [<-|[<-|[]]]; [right; left; reflexivity|left; reflexivity].
    - apply in_or_app; left; exact Hc.
  Qed.

  Lemma descent_step_unfold x :
    descent_step r s x =
    match resolve r x with
    | None => ([FMissing x], [])
    | Some t0 =>
        match (if is_cow (path_ident (t_path t0)) then
                 match t_params t0 with
                 | p0 :: _ =>
                     match tp_ty p0 with
                     | Some i => match resolve r i with Some t => inl t | None => inr (FMissing i) end
                     | None => inr FOther
                     end
                 | [] => inr FOther
                 end
               else inl t0 : ty + dfail) with
        | inr f => ([f], [])
        | inl t => step_def t
        end
    end.
  Proof.
    unfold descent_step. destruct (resolve r x) as [t0|]; [|reflexivity].
    rewrite cow_named_is_cow. reflexivity.
  Qed.

  (** an edge of the checker is an edge of the relation *)
  Lemma dchild_edge x c :
    dchild r s x c ->
    exists t0 t, resolve r x = Some t0 /\ cow_target r t0 = Some t /\ In c (nonfield_ids t).
  Proof.
    unfold dchild. rewrite descent_step_unfold.
    destruct (resolve r x) as [t0|] eqn:E0; [|intros []].
    destruct (is_cow (path_ident (t_path t0))) eqn:Ec.
    - destruct (t_params t0) as [|p0 ps] eqn:Ep; [intros []|].
      destruct (tp_ty p0) as [i|] eqn:Ei; [|intros []].
      destruct (resolve r i) as [t|] eqn:Er; [|intros []].
      intros Hc. exists t0, t. split; [reflexivity|].
      split; [rewrite cow_target_eq', Ec, Ep, Ei; exact Er|].
      apply step_children_nonfield. exact Hc.
    - intros Hc. exists t0, t0. split; [reflexivity|].
      split; [rewrite cow_target_eq', Ec; reflexivity|].
      apply step_children_nonfield. exact Hc.
  Qed.

  (** an [FMissing] failure of the checker is [RM_here] or [RM_cow] *)
  Lemma dfails_missing_at parents x m' orig :
    find_parent parents x orig = None ->
    dfails r s x (FMissing m') -> reaches_missing r parents x orig m'.
  Proof.
    intros Hfp. unfold dfails. rewrite descent_step_unfold.
    destruct (resolve r x) as [t0|] eqn:E0.
    2:{ intros [E|[]]. inversion E; subst. apply RM_here; [exact Hfp|exact E0]. }
    destruct (is_cow (path_ident (t_path t0))) eqn:Ecow.
    - destruct (t_params t0) as [|p0 ps] eqn:Ep; [intros [E|[]]; discriminate|].
      destruct (tp_ty p0) as [i|] eqn:Ei; [|intros [E|[]]; discriminate].
      destruct (resolve r i) as [t|] eqn:Er.
      + intros Hf. exfalso. unfold step_def in Hf.
        destruct (t_def t); cbn [fst] in Hf; try (destruct Hf; fail).
        * destruct (s_compact s); [destruct Hf|destruct Hf as [E|[]]; discriminate].
        * destruct (s_bits s); [destruct Hf|destruct Hf as [E|[]]; discriminate].
      + intros [E|[]]. inversion E; subst.
        eapply RM_cow; [exact Hfp|exact E0| |exact Er].
        rewrite cow_inner_eq, Ecow, Ep. exact Ei.
    - intros Hf. exfalso. unfold step_def in Hf.
      destruct (t_def t0); cbn [fst] in Hf; try (destruct Hf; fail).
      * destruct (s_compact s); [destruct Hf|destruct Hf as [E|[]]; discriminate].
      * destruct (s_bits s); [destruct Hf|destruct Hf as [E|[]]; discriminate].
  Qed.

  Lemma dfails_missing x m' orig :
    dfails r s x (FMissing m') -> reaches_missing r [] x orig m'.
  Proof. apply dfails_missing_at. reflexivity. Qed.

  (** soundness of the checker's reachability: any registry, any settings *)
  Lemma dreach_reaches x v m' :
    dreach r s x v -> dfails r s v (FMissing m') -> forall orig, reaches_missing r [] x orig m'.
  Proof.
    induction 1 as [x|x c y Hc _ IH]; intros Hf orig.
    - apply dfails_missing. exact Hf.
    - destruct (dchild_edge _ _ Hc) as (t0 & t & E0 & Et & Hin).
      eapply RM_child; [reflexivity|exact E0|exact Et|exact Hin|apply IH; exact Hf].
  Qed.
End Edges.

(** ** Part C: on the class, completeness and the verdict *)
Section Verdict.
  Variable r : registry.
  Variable s : settings.
  Variable rank : N -> nat.
  Variable m : N.
  Hypothesis Hres : resolvable_but r s rank m.

  (** an edge of the relation is an edge of the checker (needs the bits path for a BitSequence
      entry and a typed first parameter for a Cow entry: both part of the class) *)
  Lemma edge_dchild x t0 t c :
    resolve r x = Some t0 -> cow_target r t0 = Some t -> In c (nonfield_ids t) -> dchild r s x c.
  Proof.
    destruct Hres as (_ & _ & _ & Hent & (Hcomp & Hbits) & _).
    intros E0 Et Hc. unfold dchild. rewrite descent_step_unfold, E0.
    rewrite cow_target_eq' in Et.
    assert (Hsrc : exists id', resolve r id' = Some t).
    { destruct (is_cow (path_ident (t_path t0))).
      - destruct (t_params t0) as [|p0 ps]; [discriminate|].
        destruct (tp_ty p0) as [i|]; [|discriminate]. eauto.
      - inversion Et; subst. eauto. }
    destruct Hsrc as (id' & Hid').
    assert (Hgoal : In c (snd (step_def s t))).
    { unfold nonfield_ids in Hc. rewrite <- step_ids_param_ids in Hc. unfold step_def.
      destruct (t_def t) as [ | | | | | | |st od] eqn:Ed; cbn [snd def_ids] in *;
        try (rewrite app_nil_r in Hc; exact Hc); try exact Hc.
      pose proof (Hbits _ _ _ _ Hid' Ed) as Hb. destruct (s_bits s); [|contradiction].
      cbn [snd]. apply in_app_or in Hc as [Hc|Hc]; apply in_or_app; [left; exact Hc|right].
      destruct Hc as [<-|[<-|[]]]; [right; left; reflexivity|left; reflexivity]. }
    destruct (is_cow (path_ident (t_path t0))).
    - destruct (t_params t0) as [|p0 ps]; [discriminate|].
      destruct (tp_ty p0) as [i|]; [|discriminate]. rewrite Et. exact Hgoal.
    - inversion Et; subst. exact Hgoal.
  Qed.

  Lemma reaches_dreach : forall x orig m',
    reaches_missing r [] x orig m' -> exists v, dreach r s x v /\ dfails r s v (FMissing m').
  Proof.
    intros x orig m' H.
    induction H as [x orig _ Hn|x orig t0 m' _ Ht0 Hc1 Hc2|x orig t0 t c m' _ Ht0 Hct Hc _ IH].
    - exists x. split; [apply dreach_refl|]. unfold dfails. rewrite descent_step_unfold, Hn. left; reflexivity.
    - exists x. split; [apply dreach_refl|]. unfold dfails. rewrite descent_step_unfold, Ht0.
      rewrite cow_inner_eq in Hc1. destruct (is_cow (path_ident (t_path t0))); [|discriminate].
      destruct (t_params t0) as [|p0 ps]; [discriminate|]. rewrite Hc1, Hc2. left; reflexivity.
    - destruct IH as (v & Hr & Hf). exists v. split; [|exact Hf].
      eapply dreach_step; [eapply edge_dchild; eassumption|exact Hr].
  Qed.

  (** on the class the checker raises no other failure at an id the descent can reach *)
  Lemma dfails_only_missing x f :
    (in_reg r x \/ x = m) -> dfails r s x f -> exists m', f = FMissing m'.
  Proof.
    destruct Hres as (_ & _ & _ & Hent & (Hcomp & Hbits) & _).
    intros _. unfold dfails. rewrite descent_step_unfold.
    destruct (resolve r x) as [t0|] eqn:E0; [|intros [<-|[]]; eauto].
    pose proof (Hent _ _ E0) as He0. unfold resolvable_entryb in He0.
    apply andb_prop in He0 as [He0 _]. apply andb_prop in He0 as [Hcow0 _].
    rewrite cow_okb_eq in Hcow0.
    assert (Hdef : forall id' t, resolve r id' = Some t -> In f (fst (step_def s t)) -> False).
    { intros id' t Ht Hf. unfold step_def in Hf. destruct (t_def t) as [ | | | | | |e|st od] eqn:Ed; cbn [fst] in Hf; try (destruct Hf; fail).
      - pose proof (Hcomp _ _ _ Ht Ed) as Hc. destruct (s_compact s); [destruct Hf|contradiction].
      - pose proof (Hbits _ _ _ _ Ht Ed) as Hb. destruct (s_bits s); [destruct Hf|contradiction]. }
    destruct (is_cow (path_ident (t_path t0))).
    - unfold first_param_typed in Hcow0.
      destruct (t_params t0) as [|p0 ps]; [discriminate|].
      destruct (tp_ty p0) as [i|]; [|discriminate].
      destruct (resolve r i) as [t|] eqn:Er.
      + intros Hf. exfalso. exact (Hdef i t Er Hf).
      + intros [<-|[]]. eauto.
    - intros Hf. exfalso. exact (Hdef x t0 E0 Hf).
  Qed.

  Lemma dreach_in_class : forall x v, dreach r s x v -> (in_reg r x \/ x = m) -> (in_reg r v \/ v = m).
  Proof.
    induction 1 as [x|x c y Hc _ IH]; intros Hx; [exact Hx|]. apply IH.
    destruct (dchild_edge _ _ _ _ Hc) as (t0 & t & E0 & Et & Hin).
    assert (Hsrc : exists id', resolve r id' = Some t).
    { rewrite cow_target_eq' in Et. destruct (is_cow (path_ident (t_path t0))).
      - destruct (t_params t0) as [|p0 ps]; [discriminate|].
        destruct (tp_ty p0) as [i|]; [|discriminate]. eauto.
      - inversion Et; subst. eauto. }
    destruct Hsrc as (id' & Hid'). destruct Hres as (_ & Hcl & _).
    eapply Hcl; [exact Hid'|]. apply nonfield_ids_incl; exact Hin.
  Qed.

  (** the failures collected from one root are [FMissing m] only, and there is one iff the root
      reaches [m] *)
  Theorem descent_rounds_reaches n id fails :
    (in_reg r id \/ id = m) ->
    descent_rounds n r s [] [] [id] [] = Some fails ->
    (forall f, In f fails -> f = FMissing m) /\
    (fails <> [] <-> reaches_missing r [] id None m).
  Proof.
    intros Hid H. pose proof (descent_rounds_spec r s n id fails H) as Spec.
    assert (Hall : forall f, In f fails -> f = FMissing m).
    { intros f Hf. apply Spec in Hf as (v & Hr & Hv).
      destruct (dfails_only_missing v f (dreach_in_class _ _ Hr Hid) Hv) as (m' & ->).
      pose proof (dreach_reaches r s id v m' Hr Hv None) as Hrm.
      rewrite (reaches_missing_is_m r s rank m Hres [] id None m' Hid Hrm). reflexivity. }
    split; [exact Hall|]. split.
    - intros Hne. destruct fails as [|f l]; [congruence|].
      pose proof (Hall f (or_introl eq_refl)) as ->.
      destruct (proj1 (Spec (FMissing m)) (or_introl eq_refl)) as (v & Hr & Hv).
      exact (dreach_reaches r s id v m Hr Hv None).
    - intros Hrm E. subst fails. destruct (reaches_dreach id None m Hrm) as (v & Hr & Hv).
      assert (Hin : In (FMissing m) []) by (apply Spec; exists v; auto). destruct Hin.
  Qed.

  Lemma forallb_dfail_all f l : (forall x, In x l -> x = f) -> forallb (dfail_eqb f) l = true.
  Proof.
    intros H. apply forallb_forall. intros x Hx. rewrite (H x Hx).
    destruct f; cbn [dfail_eqb]; try reflexivity. apply N.eqb_refl.
  Qed.

  (** the verdict of the run-time checker is the outcome of the model: a clean verdict means
      [resolve_type_path] succeeds, a failing verdict names [m] and [resolve_type_path] fails with
      [TypeNotFound m]; [DUnsure] (round budget exhausted) claims nothing *)
  Theorem path_verdict_model id :
    (in_reg r id \/ id = m) ->
    match path_verdict r s id with
    | DClean => ~ reaches_missing r [] id None m /\ exists t, resolve_type_path r s id = Ok t
    | DFail f => f = FMissing m /\ reaches_missing r [] id None m /\
                 resolve_type_path r s id = Err (ETypeNotFound m)
    | DUnsure => True
    end.
  Proof.
    intros Hid. unfold path_verdict.
    destruct (descent_rounds (descent_budget r) r s [] [] [id] []) as [fails|] eqn:E; [|exact I].
    destruct (descent_rounds_reaches _ _ _ Hid E) as (Hall & Hiff).
    destruct (missing_id_resolve r s rank m Hres id Hid) as (Herr & Hok).
    unfold verdict_of. destruct fails as [|f l].
    - assert (Hn : ~ reaches_missing r [] id None m) by (intros Hrm; apply Hiff in Hrm; congruence).
      split; [exact Hn|]. destruct (Hok Hn) as (t & Ht & _). eauto.
    - pose proof (Hall f (or_introl eq_refl)) as ->.
      rewrite forallb_dfail_all by (intros x Hx; apply Hall; right; exact Hx).
      assert (Hrm : reaches_missing r [] id None m) by (apply Hiff; discriminate).
      split; [reflexivity|]. split; [exact Hrm|apply Herr; exact Hrm].
  Qed.
End Verdict.
