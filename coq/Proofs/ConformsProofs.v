(** C14, lockstep half: every example the model returns is an instance ([Model.Conforms.conforms])
    of the type the generator emits for the id, and the boolean reader [conf_ir] is sound for the
    relation.

    1. what an IR tells a literal ([sig_of_ir]) is invariant under [erase_ids] and is determined
       by the registry entry the IR was built from;
    2. [skeleton_consistent] + "first insertion wins" ([generate_lookup]): the item stored at an
       entry's path has the signature of the entry's OWN IR, in particular the same answer to
       "has unused parameters" (this is where F15 is excluded);
    3. induction along the two fuels of [resolve_go] / [ty_go]; the cache is irrelevant for the
       VALUE returned (computed entries are never read back);
    4. soundness of the reader. *)
From Coq Require Import List NArith ZArith Bool String Ascii Lia.
From V Require Import Base.Util Base.Strings Base.Result Model.Registry Model.Settings Model.Subst
  Model.TypePath Model.Derives Model.Generate Model.Shape Model.RngWords Model.ExampleRust
  Model.Conforms Proofs.GenProofs Proofs.FidelityGen Proofs.GenTotal Proofs.ExampleValueProofs
  Proofs.ExampleRustProofs Proofs.ExampleRustTotal.
Import ListNotations.
Open Scope list_scope.

(** ** 1. signatures *)
Definition sig_of_kind (k : kind_ir) (mk : bool) : item_sig :=
  match k with
  | KStruct c => ISStruct (layout_of_ckind (ci_kind c)) mk
  | KEnum _ _ vs => ISEnum (map (fun x => (ci_name (snd x), layout_of_ckind (ci_kind (snd x)))) vs)
  end.

Lemma sig_of_ir_kind ir : sig_of_ir ir = sig_of_kind (ti_kind ir) (has_marker ir).
Proof. unfold sig_of_ir, sig_of_kind. destruct (ti_kind ir); reflexivity. Qed.

Lemma layout_erase k : layout_of_ckind (erase_ckind k) = layout_of_ckind k.
Proof.
  destruct k as [|l|l]; cbn [erase_ckind layout_of_ckind]; [reflexivity| |].
  - rewrite map_map. cbn [fst]. reflexivity.
  - rewrite map_length. reflexivity.
Qed.

Lemma sig_of_kind_erase k mk : sig_of_kind (erase_kind k) mk = sig_of_kind k mk.
Proof.
  destruct k as [c|nm d vs]; cbn [erase_kind sig_of_kind].
  - destruct c as [nm k d]. unfold erase_ci. cbn. rewrite layout_erase. reflexivity.
  - rewrite map_map. f_equal. apply map_ext. intros [i c].
    destruct c as [nm' k d']. unfold erase_ci. cbn. rewrite layout_erase. reflexivity.
Qed.

Lemma map_nil_iff {A B} (f : A -> B) l l' :
  map f l = map f l' -> match l with [] => false | _ => true end = match l' with [] => false | _ => true end.
Proof. destruct l, l'; cbn; intros H; try discriminate; reflexivity. Qed.

Lemma sig_of_ir_erase a b : erase_ids a = erase_ids b -> sig_of_ir a = sig_of_ir b.
Proof.
  unfold erase_ids. intros H. injection H as _ Hu _ Hk.
  rewrite !sig_of_ir_kind. rewrite <- (sig_of_kind_erase (ti_kind a)), <- (sig_of_kind_erase (ti_kind b)).
  rewrite Hk. f_equal. unfold has_marker. eapply map_nil_iff; eauto.
Qed.

(** the layout of the IR kind built from a field list *)
Lemma parse_ident_ok x y : parse_ident x = Ok y -> y = x.
Proof. unfold parse_ident. destruct (ident_okb x); intros H; inversion H; reflexivity. Qed.

Lemma all_named_unnamed_nil fs : all_named fs = true -> all_unnamed fs = true -> fs = [].
Proof.
  destruct fs as [|f fs]; [reflexivity|]. cbn [all_named all_unnamed forallb].
  destruct (f_name f); cbn; discriminate.
Qed.

Lemma cck_layout r s fs params unused k u :
  create_composite_ir_kind r s fs params unused = Ok (k, u) ->
  layout_of_fields fs = Some (layout_of_ckind k).
Proof.
  unfold create_composite_ir_kind, layout_of_fields. destruct fs as [|f0 fs0]; [intros H; inversion H; reflexivity|].
  set (fs := f0 :: fs0).
  destruct (all_named fs) eqn:An; cbn [orb negb].
  - intros H. apply bind_ok in H as (l & Hl & H). inversion H; subst. cbn [layout_of_ckind]. f_equal. f_equal.
    clear H An. revert l Hl. generalize fs. induction fs1 as [|f fs1 IH]; intros l Hl; cbn [mapM] in Hl.
    + inversion Hl; reflexivity.
    + apply bind_ok in Hl as ([n fi] & Hy & Hl). apply bind_ok in Hl as (ys & Hys & Hl).
      inversion Hl; subst. cbn [map fst]. f_equal; [|apply IH; exact Hys].
      apply bind_ok in Hy as (n' & Hn & Hy). apply bind_ok in Hy as (fi' & _ & Hy).
      inversion Hy; subst. apply parse_ident_ok in Hn. symmetry; exact Hn.
  - destruct (all_unnamed fs) eqn:Au; cbn [negb]; [|discriminate].
    intros H. apply bind_ok in H as (l & Hl & H). inversion H; subst. cbn [layout_of_ckind].
    rewrite (mapM_ok_length _ _ _ Hl). reflexivity.
Qed.

Lemma variants_sigs r s params : forall vs unused l u,
  variants_ir r s params vs unused = Ok (l, u) ->
  Forall2 (fun v sg => fst sg = v_name v /\ layout_of_fields (v_fields v) = Some (snd sg)) vs
          (map (fun x : N * composite_ir => (ci_name (snd x), layout_of_ckind (ci_kind (snd x)))) l).
Proof.
  induction vs as [|v vs IH]; intros unused l u H.
  - cbn in H. inversion H; subst. constructor.
  - rewrite variants_ir_cons in H.
    apply bind_ok in H as (vn & Hvn & H). apply bind_ok in H as ([k u1] & Hk & H).
    apply bind_ok in H as ([l' u'] & Hrest & H). cbn [fst snd] in *. inversion H; subst.
    cbn [map snd fst ci_name ci_kind]. constructor; [|eapply IH; eauto].
    cbn [fst snd]. split; [eapply parse_ident_ok; eauto|eapply cck_layout; eauto].
Qed.

(** the signature of an entry's own IR, read off the registry entry *)
Definition entry_sig_ok (t : ty) (sg : item_sig) (mk : bool) : Prop :=
  match t_def t with
  | TDComposite fs => exists L, layout_of_fields fs = Some L /\ sg = ISStruct L mk
  | TDVariant vs =>
      exists sigs, sg = ISEnum sigs /\
        Forall2 (fun v x => fst x = v_name v /\ layout_of_fields (v_fields v) = Some (snd x)) vs sigs
  | _ => False
  end.

Lemma create_type_ir_sig r s t flat ir :
  create_type_ir r s t flat = Ok (Some ir) -> entry_sig_ok t (sig_of_ir ir) (has_marker ir).
Proof.
  intros H. rewrite create_type_ir_eq in H.
  destruct (negb (is_composite_or_variant (t_def t))); [discriminate|]. cbv zeta in H.
  destruct (path_ident (t_path t)) as [nm|]; [|discriminate].
  apply bind_ok in H as (name & _ & H).
  apply bind_ok in H as ([[kind cdac] unused] & Hk & H).
  apply bind_ok in H as (d & _ & H). inversion H; subst; clear H.
  unfold entry_sig_ok. rewrite sig_of_ir_kind. cbn [ti_kind].
  destruct (t_def t) as [fs|vs| | | | | | ]; try discriminate.
  - apply bind_ok in Hk as ([k u] & Hc & Hk). cbn [fst snd] in Hk. inversion Hk; subst.
    cbn [sig_of_kind ci_kind]. eexists. split; [eapply cck_layout; eauto|reflexivity].
  - apply bind_ok in Hk as ([l u] & Hc & Hk). cbn [fst snd] in Hk. inversion Hk; subst.
    cbn [sig_of_kind]. eexists. split; [reflexivity|]. eapply variants_sigs; eauto.
Qed.

(** ** 2. the item at an entry's path has the signature of the entry's own IR *)
Lemma item_of_entry r s teq m :
  generate r s teq = Ok m -> skeleton_consistent r s ->
  forall id X, In (id, X) r -> item_eligible s X = true ->
  exists id0 ir0 irX,
    items_get m (t_path X) = Some (id0, ir0) /\
    create_type_ir r s X (mk_flat derives_empty []) = Ok (Some irX) /\
    sig_of_ir ir0 = sig_of_ir irX.
Proof.
  intros Hgen Hsk id X Hin He.
  destruct (generate_lookup r s teq m Hgen id X Hin He)
    as (id0 & X0 & ir0 & flat & Hfirst & Hflat & Hir0 & Hget).
  destruct (create_type_ir_flat r s X0 flat flat0 ir0 Hir0) as (ir0' & Hir0' & Her).
  pose proof (Hsk id X id0 X0 Hin He Hfirst) as Hs. unfold skeleton in Hs. rewrite Hir0' in Hs.
  change (mk_flat derives_empty []) with flat0.
  destruct (create_type_ir r s X flat0) as [[irX|]|e|msg]; try discriminate.
  inversion Hs as [Hs']. exists id0, ir0, irX. split; [exact Hget|]. split; [reflexivity|].
  apply sig_of_ir_erase. congruence.
Qed.
