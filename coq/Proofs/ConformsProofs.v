(** C14, lockstep half: every example the model returns is an instance ([Model.Conforms.conforms])
    of the type the generator emits for the id, and the boolean reader [conf_ir] is sound for the
    relation.

    1. what an IR tells a literal ([sig_of_ir]) is invariant under [erase_ids] and is determined
       by the registry entry the IR was built from;
    2. [skeleton_consistent] + "first insertion wins" ([generate_lookup]): the item stored at an
       entry's path has the signature of the entry's OWN IR, in particular the same answer to
       "has unused parameters" (this is where F15 is excluded);
    3. induction along the two fuels of [resolve_go] / [ty_go]; the cache is irrelevant for the
       VALUE returned (computed entries are never read back);
    4. soundness of the reader. *)
From Coq Require Import List NArith ZArith Bool String Ascii Lia.
From V Require Import Base.Util Base.Strings Base.Result Model.Registry Model.Settings Model.Subst
  Model.TypePath Model.Derives Model.Generate Model.Shape Model.RngWords Model.ExampleRust
  Model.Equal Model.Conforms Proofs.ShapeBool Proofs.GenProofs Proofs.FidelityGen Proofs.GenTotal Proofs.ExampleValueProofs
  Proofs.ExampleRustProofs Proofs.ExampleRustTotal.
From V Require Proofs.SynKey.
Import ListNotations.
Open Scope list_scope.

(** ** 1. signatures *)
Definition sig_of_kind (k : kind_ir) (mk : bool) : item_sig :=
  match k with
  | KStruct c => ISStruct (layout_of_ckind (ci_kind c)) mk
  | KEnum _ _ vs => ISEnum (map (fun x => (ci_name (snd x), layout_of_ckind (ci_kind (snd x)))) vs)
  end.

Lemma sig_of_ir_kind ir : sig_of_ir ir = sig_of_kind (ti_kind ir) (has_marker ir).
Proof. unfold sig_of_ir, sig_of_kind. destruct (ti_kind ir); reflexivity. Qed.

Lemma layout_erase k : layout_of_ckind (erase_ckind k) = layout_of_ckind k.
Proof.
  destruct k as [|l|l]; cbn [erase_ckind layout_of_ckind]; [reflexivity| |].
  - rewrite map_map. cbn [fst]. reflexivity.
  - rewrite map_length. reflexivity.
Qed.

Lemma sig_of_kind_erase k mk : sig_of_kind (erase_kind k) mk = sig_of_kind k mk.
Proof.
  destruct k as [c|nm d vs]; cbn [erase_kind sig_of_kind].
  - destruct c as [nm k d]. unfold erase_ci. cbn. rewrite layout_erase. reflexivity.
  - rewrite map_map. f_equal. apply map_ext. intros [i c].
    destruct c as [nm' k d']. unfold erase_ci. cbn. rewrite layout_erase. reflexivity.
Qed.

Lemma map_nil_iff {A B} (f : A -> B) l l' :
  map f l = map f l' -> match l with [] => false | _ => true end = match l' with [] => false | _ => true end.
Proof. destruct l, l'; cbn; intros H; try discriminate; reflexivity. Qed.

Lemma sig_of_ir_erase a b : erase_ids a = erase_ids b -> sig_of_ir a = sig_of_ir b.
Proof.
  unfold erase_ids. intros H. injection H as _ Hu _ Hk.
  rewrite !sig_of_ir_kind. rewrite <- (sig_of_kind_erase (ti_kind a)), <- (sig_of_kind_erase (ti_kind b)).
  rewrite Hk. f_equal. unfold has_marker. eapply map_nil_iff; eauto.
Qed.

(** the layout of the IR kind built from a field list *)
Lemma parse_ident_ok x y : parse_ident x = Ok y -> y = x.
Proof. unfold parse_ident. destruct (ident_okb x); intros H; inversion H; reflexivity. Qed.

Lemma all_named_unnamed_nil fs : all_named fs = true -> all_unnamed fs = true -> fs = [].
Proof.
  destruct fs as [|f fs]; [reflexivity|]. cbn [all_named all_unnamed forallb].
  destruct (f_name f); cbn; discriminate.
Qed.

Lemma cck_layout r s fs params unused k u :
  create_composite_ir_kind r s fs params unused = Ok (k, u) ->
  layout_of_fields fs = Some (layout_of_ckind k).
Proof.
  unfold create_composite_ir_kind, layout_of_fields. destruct fs as [|f0 fs0]; [intros H; inversion H; reflexivity|].
  set (fs := f0 :: fs0).
  destruct (all_named fs) eqn:An; cbn [orb negb].
  - intros H. apply bind_ok in H as (l & Hl & H). inversion H; subst. cbn [layout_of_ckind]. f_equal. f_equal.
    clear H An. revert l Hl. generalize fs. induction fs1 as [|f fs1 IH]; intros l Hl; cbn [mapM] in Hl.
    + inversion Hl; reflexivity.
    + apply bind_ok in Hl as ([n fi] & Hy & Hl). apply bind_ok in Hl as (ys & Hys & Hl).
      inversion Hl; subst. cbn [map fst]. f_equal; [|apply IH; exact Hys].
      apply bind_ok in Hy as (n' & Hn & Hy). apply bind_ok in Hy as (fi' & _ & Hy).
      inversion Hy; subst. apply parse_ident_ok in Hn. symmetry; exact Hn.
  - destruct (all_unnamed fs) eqn:Au; cbn [negb]; [|discriminate].
    intros H. apply bind_ok in H as (l & Hl & H). inversion H; subst. cbn [layout_of_ckind].
    rewrite (mapM_ok_length _ _ _ Hl). reflexivity.
Qed.

Lemma variants_sigs r s params : forall vs unused l u,
  variants_ir r s params vs unused = Ok (l, u) ->
  Forall2 (fun v sg => fst sg = v_name v /\ layout_of_fields (v_fields v) = Some (snd sg)) vs
          (map (fun x : N * composite_ir => (ci_name (snd x), layout_of_ckind (ci_kind (snd x)))) l).
Proof.
  induction vs as [|v vs IH]; intros unused l u H.
  - cbn in H. inversion H; subst. constructor.
  - rewrite variants_ir_cons in H.
    apply bind_ok in H as (vn & Hvn & H). apply bind_ok in H as ([k u1] & Hk & H).
    apply bind_ok in H as ([l' u'] & Hrest & H). cbn [fst snd] in *. inversion H; subst.
    cbn [map snd fst ci_name ci_kind]. constructor; [|eapply IH; eauto].
    cbn [fst snd]. split; [eapply parse_ident_ok; eauto|eapply cck_layout; eauto].
Qed.

(** the signature of an entry's own IR, read off the registry entry *)
Definition entry_sig_ok (t : ty) (sg : item_sig) (mk : bool) : Prop :=
  match t_def t with
  | TDComposite fs => exists L, layout_of_fields fs = Some L /\ sg = ISStruct L mk
  | TDVariant vs =>
      exists sigs, sg = ISEnum sigs /\
        Forall2 (fun v x => fst x = v_name v /\ layout_of_fields (v_fields v) = Some (snd x)) vs sigs
  | _ => False
  end.

Lemma create_type_ir_sig r s t flat ir :
  create_type_ir r s t flat = Ok (Some ir) -> entry_sig_ok t (sig_of_ir ir) (has_marker ir).
Proof.
  intros H. rewrite create_type_ir_eq in H.
  destruct (negb (is_composite_or_variant (t_def t))); [discriminate|]. cbv zeta in H.
  destruct (path_ident (t_path t)) as [nm|]; [|discriminate].
  apply bind_ok in H as (name & _ & H).
  apply bind_ok in H as ([[kind cdac] unused] & Hk & H).
  apply bind_ok in H as (d & _ & H). inversion H; subst; clear H.
  unfold entry_sig_ok. rewrite sig_of_ir_kind. cbn [ti_kind].
  destruct (t_def t) as [fs|vs| | | | | | ]; try discriminate.
  - apply bind_ok in Hk as ([k u] & Hc & Hk). cbn [fst snd] in Hk. inversion Hk; subst.
    cbn [sig_of_kind ci_kind]. eexists. split; [eapply cck_layout; eauto|reflexivity].
  - apply bind_ok in Hk as ([l u] & Hc & Hk). cbn [fst snd] in Hk. inversion Hk; subst.
    cbn [sig_of_kind]. eexists. split; [reflexivity|]. eapply variants_sigs; eauto.
Qed.

(** ** 2. the item at an entry's path has the signature of the entry's own IR *)
Lemma item_of_entry r s teq m :
  generate r s teq = Ok m -> skeleton_consistent r s ->
  forall id X, In (id, X) r -> item_eligible s X = true ->
  exists id0 ir0 irX,
    items_get m (t_path X) = Some (id0, ir0) /\
    create_type_ir r s X (mk_flat derives_empty []) = Ok (Some irX) /\
    sig_of_ir ir0 = sig_of_ir irX.
Proof.
  intros Hgen Hsk id X Hin He.
  destruct (generate_lookup r s teq m Hgen id X Hin He)
    as (id0 & X0 & ir0 & flat & Hfirst & Hflat & Hir0 & Hget).
  destruct (create_type_ir_flat r s X0 flat flat0 ir0 Hir0) as (ir0' & Hir0' & Her).
  pose proof (Hsk id X id0 X0 Hin He Hfirst) as Hs. unfold skeleton in Hs. rewrite Hir0' in Hs.
  change (mk_flat derives_empty []) with flat0.
  destruct (create_type_ir r s X flat0) as [[irX|]|e|msg]; try discriminate.
  inversion Hs as [Hs']. exists id0, ir0, irX. split; [exact Hget|]. split; [reflexivity|].
  apply sig_of_ir_erase. congruence.
Qed.

(** ** 3. the model: inversion of the state monad *)
Lemma xbind_ok {A B} (x : M A) (f : A -> M B) st b st' :
  mbind x f st = XOk (b, st') -> exists a st1, x st = XOk (a, st1) /\ f a st1 = XOk (b, st').
Proof.
  unfold mbind. destruct (x st) as [[a st1]|e|msg]; intros H; try discriminate. eauto.
Qed.

Lemma xret_ok {A} (a b : A) st st' : mret a st = XOk (b, st') -> b = a.
Proof. unfold mret. intros H; inversion H; reflexivity. Qed.

Lemma xlift_ok {A} (x : result A) st a st' : lift x st = XOk (a, st') -> x = Ok a.
Proof.
  unfold lift. destruct x as [a0|e|msg]; intros H; try discriminate.
  - inversion H; reflexivity.
  - destruct e; discriminate.
Qed.

Lemma xdraw_ok {A} (d : rng A) st a st' : mdraw d st = XOk (a, st') -> exists ws', d (snd st) = Drawn a ws'.
Proof.
  unfold mdraw. destruct (d (snd st)) as [a0 ws'|]; intros H; [|discriminate].
  inversion H; subst. eauto.
Qed.

Lemma xchoose_unwrap_ok {A} (l : list A) st a st' : choose_unwrap l st = XOk (a, st') -> In a l.
Proof.
  unfold choose_unwrap. intros H. apply xbind_ok in H as (o & st1 & H1 & H).
  apply xdraw_ok in H1 as (ws' & H1). destruct o as [a0|]; [|discriminate].
  apply xret_ok in H. subst. eapply choose_in; eauto.
Qed.

Lemma xformat_ident_ok x st y st' : format_ident x st = XOk (y, st') -> y = x.
Proof. unfold format_ident. destruct (ident_lexb x); [apply xret_ok|discriminate]. Qed.

Definition Sat {A} (P : A -> Prop) (x : M A) : Prop :=
  forall st v st', x st = XOk (v, st') -> P v.

Lemma xmmapM_ok {A B} (P : A -> B -> Prop) (f : A -> M B) : forall l,
  (forall x, In x l -> Sat (P x) (f x)) -> Sat (Forall2 P l) (mmapM f l).
Proof.
  induction l as [|x l IH]; intros Hf st v st' H; cbn [mmapM] in H.
  - apply xret_ok in H. subst. constructor.
  - apply xbind_ok in H as (y & st1 & Hy & H). apply xbind_ok in H as (ys & st2 & Hys & H).
    apply xret_ok in H. subst. constructor.
    + eapply Hf; [left; reflexivity|exact Hy].
    + eapply IH; [|exact Hys]. intros x' Hx'. apply Hf. right; exact Hx'.
Qed.

(** ** primitives *)
Lemma prim_example_lit p : Sat (fun v => forall rest, prim_lit p (v ++ rest) rest) (prim_example p).
Proof.
  intros st v st' H rest.
  assert (Hs : forall bits n, (0 < bits)%N -> (n < 2 ^ bits)%N ->
               (- Z.of_N (2 ^ (bits - 1)) <= to_signed bits n < Z.of_N (2 ^ (bits - 1)))%Z).
  { intros bits n Hb Hn. pose proof (to_signed_in bits n Hb Hn) as Hi. unfold ExampleValue.in_signed in Hi.
    apply andb_prop in Hi as [H1 H2]. apply Z.leb_le in H1. apply Z.ltb_lt in H2. split; assumption. }
  destruct p; cbn [prim_example] in H; apply xbind_ok in H as (a & st1 & H1 & H);
    apply xret_ok in H; subst v; cbn [prim_lit].
  - (* bool *) destruct a; [left|right]; reflexivity.
  - (* char *) apply xchoose_unwrap_ok in H1. unfold example_chars in H1. cbn [In] in H1.
    repeat (destruct H1 as [<-|H1]; [eexists; split; [|reflexivity]; reflexivity|]). destruct H1.
  - (* str *) apply xchoose_unwrap_ok in H1. unfold example_strings in H1. cbn [In] in H1.
    repeat (destruct H1 as [<-|H1]; [eexists; split; [|reflexivity]; reflexivity|]). destruct H1.
  - apply xdraw_ok in H1 as (ws' & H1). apply gen_u8_range in H1. exists a. split; [exact H1|reflexivity].
  - apply xdraw_ok in H1 as (ws' & H1). apply gen_u16_range in H1. exists a. split; [exact H1|reflexivity].
  - apply xdraw_ok in H1 as (ws' & H1). apply gen_u32_range in H1. exists a. split; [exact H1|reflexivity].
  - apply xdraw_ok in H1 as (ws' & H1). apply gen_u64_range in H1. exists a. split; [exact H1|reflexivity].
  - apply xdraw_ok in H1 as (ws' & H1). apply gen_u128_range in H1. exists a. split; [exact H1|reflexivity].
  - apply xdraw_ok in H1 as (ws' & H1).
    apply (gen_repeat_ok (fun b => b < 256)%N) in H1 as [L F]; [|intros ws0 a0 r0; apply gen_u8_range].
    exists a. split; [exact L|]. split; [exact F|reflexivity].
  - apply xdraw_ok in H1 as (ws' & H1). apply rng_map_inv in H1 as (n & H1 & ->).
    apply gen_u8_range in H1. eexists. split; [apply Hs; [reflexivity|exact H1]|reflexivity].
  - apply xdraw_ok in H1 as (ws' & H1). apply rng_map_inv in H1 as (n & H1 & ->).
    apply gen_u16_range in H1. eexists. split; [apply Hs; [reflexivity|exact H1]|reflexivity].
  - apply xdraw_ok in H1 as (ws' & H1). apply rng_map_inv in H1 as (n & H1 & ->).
    apply gen_u32_range in H1. eexists. split; [apply Hs; [reflexivity|exact H1]|reflexivity].
  - apply xdraw_ok in H1 as (ws' & H1). apply rng_map_inv in H1 as (n & H1 & ->).
    apply gen_u64_range in H1. eexists. split; [apply Hs; [reflexivity|exact H1]|reflexivity].
  - apply xdraw_ok in H1 as (ws' & H1). apply rng_map_inv in H1 as (n & H1 & ->).
    apply gen_u128_range in H1. eexists. split; [apply Hs; [reflexivity|exact H1]|reflexivity].
  - apply xdraw_ok in H1 as (ws' & H1).
    apply (gen_repeat_ok (fun b => b < 256)%N) in H1 as [L F]; [|intros ws0 a0 r0; apply gen_u8_range].
    exists a. split; [exact L|]. split; [exact F|reflexivity].
Qed.

(** ** the implementation's heuristic [type_def_is_copy] (the model's [is_copy]) is a SUBSET of the
    specification's [copy_ty]: it additionally refuses arrays longer than 32.  Same fuel. *)
Lemma is_copy_copy_ty (r : registry) : forall fuel id t st st',
  lookup r id = Some t -> is_copy r fuel (t_def t) st = XOk (true, st') -> copy_ty r fuel id = true.
Proof.
  induction fuel as [|fuel IH]; intros id t st st' L H; [discriminate H|].
  cbn [copy_ty]. rewrite L. cbn [is_copy] in H.
  destruct (t_def t) as [fs|vs|e|len e|l|p|e|bs bo] eqn:D.
  - apply xret_ok in H. discriminate H.
  - apply xret_ok in H. discriminate H.
  - apply xret_ok in H. discriminate H.
  - apply xbind_ok in H as (te & st1 & Hte & H). unfold resolve_type_m in Hte.
    destruct (lookup r e) as [te'|] eqn:Le; [|discriminate Hte]. apply xret_ok in Hte. subst te'.
    destruct (len <=? 32)%N; [|apply xret_ok in H; discriminate H].
    exact (IH e te st1 st' Le H).
  - clear D. revert st H. induction l as [|i l IHl]; intros st H; [reflexivity|].
    apply xbind_ok in H as (te & st1 & Hte & H). unfold resolve_type_m in Hte.
    destruct (lookup r i) as [te'|] eqn:Le; [|discriminate Hte]. apply xret_ok in Hte. subst te'.
    apply xbind_ok in H as (b & st2 & Hb & H).
    destruct b; [|apply xret_ok in H; discriminate H].
    cbn [forallb]. rewrite (IH i te st1 st2 Le Hb). cbn [andb]. eapply IHl. exact H.
  - apply xret_ok in H. destruct p; cbn in H; try discriminate H; reflexivity.
  - apply xbind_ok in H as (te & st1 & Hte & H). unfold resolve_type_m in Hte.
    destruct (lookup r e) as [te'|] eqn:Le; [|discriminate Hte]. apply xret_ok in Hte. subst te'.
    exact (IH e te st1 st' Le H).
  - apply xret_ok in H. discriminate H.
Qed.

(** for the fuel the model uses ([copy_fuel] = number of entries + 1 = the fuel of [copy_tyb]) *)
Lemma model_copy_is_copy (r : registry) id t st st' :
  lookup r id = Some t -> is_copy r (copy_fuel r) (t_def t) st = XOk (true, st') -> copy_tyb r id = true.
Proof. unfold copy_tyb, copy_fuel. apply is_copy_copy_ty. Qed.

Section Main.
  Variable r : registry.
  Variable s : settings.
  Variable teq : N -> N -> result bool.
  Variable m : items.
  Hypothesis Hgen : generate r s teq = Ok m.
  Hypothesis Hsk : skeleton_consistent r s.

  Notation conf := (conforms r s m).

  (** [v] is an instance of [id] in front of every continuation *)
  Definition Inst (id : N) (v : tokens) : Prop := forall rest, conf id (v ++ rest) rest.

  Lemma wrap_value f v : Inst (f_ty f) v -> forall rest, conf_value conf f (wrap_compact f v ++ rest) rest.
  Proof.
    intros Hv rest. unfold wrap_compact. destruct (explicit_compact f) eqn:E.
    - rewrite <- !List.app_assoc. cbn [app]. apply cv_compact; [exact E|]. apply Hv.
    - apply cv_plain; [exact E|apply Hv].
  Qed.

  Definition field_tokens (f : field) (y : tokens) : Prop :=
    exists v, Inst (f_ty f) v /\ y = [field_label f; ":"] ++ wrap_compact f v ++ [","].

  Lemma named_field_ok rec f : (forall j, Sat (Inst j) (rec j)) -> Sat (field_tokens f) (named_field rec f).
  Proof.
    intros Hrec st y st' H. unfold named_field in H. unfold field_tokens, field_label.
    destruct (f_name f) as [n|]; [|discriminate].
    apply xbind_ok in H as (i & st1 & Hi & H). apply xformat_ident_ok in Hi. subst i.
    apply xbind_ok in H as (v & st2 & Hv & H). apply xret_ok in H. subst y.
    exists v. split; [eapply Hrec; eauto|reflexivity].
  Qed.

  Lemma named_concat : forall fs l,
    Forall2 field_tokens fs l ->
    forall rest, conf_named conf (map field_label fs) fs (List.concat l ++ rest) rest.
  Proof.
    induction 1 as [|f y fs l (v & Hv & ->) _ IH]; intros rest; cbn [map List.concat app].
    - constructor.
    - rewrite <- !List.app_assoc. cbn [app]. eapply cn_cons; [|apply IH].
      apply wrap_value. exact Hv.
  Qed.

  Definition value_tokens (f : field) (y : tokens) : Prop :=
    exists v, Inst (f_ty f) v /\ y = wrap_compact f v ++ [","].

  Lemma unnamed_field_ok rec f : (forall j, Sat (Inst j) (rec j)) -> Sat (value_tokens f) (unnamed_field rec f).
  Proof.
    intros Hrec st y st' H. unfold unnamed_field in H.
    apply xbind_ok in H as (v & st2 & Hv & H). apply xret_ok in H. subst y.
    exists v. split; [eapply Hrec; eauto|reflexivity].
  Qed.

  Lemma unnamed_concat : forall fs l,
    Forall2 value_tokens fs l ->
    forall rest, conf_unnamed conf (List.length fs) fs (List.concat l ++ rest) rest.
  Proof.
    induction 1 as [|f y fs l (v & Hv & ->) _ IH]; intros rest; cbn [List.length List.concat app].
    - constructor.
    - rewrite <- !List.app_assoc. cbn [app]. eapply cu_cons; [|apply IH]. apply wrap_value. exact Hv.
  Qed.

  Lemma fields_example_shape rec fs u :
    (forall j, Sat (Inst j) (rec j)) ->
    Sat (fun f => exists L, layout_of_fields fs = Some L /\
                            (forall rest, conf_shape conf L u fs (f ++ rest) rest) /\
                            (f = [] -> fs = []))
        (fields_example rec fs u).
  Proof.
    intros Hrec st f st' H. unfold fields_example in H. unfold layout_of_fields.
    destruct (all_named fs) eqn:An; destruct (all_unnamed fs) eqn:Au.
    - pose proof (all_named_unnamed_nil fs An Au) as ->. apply xret_ok in H. subst f.
      exists LUnit. split; [reflexivity|]. split; [|reflexivity]. intros rest.
      destruct u; [|apply cs_unit]. rewrite <- !List.app_assoc. cbn [app]. apply cs_unit_marker.
    - apply xbind_ok in H as (l & st1 & Hl & H). apply xret_ok in H. subst f.
      apply (xmmapM_ok field_tokens) in Hl; [|intros f _; apply named_field_ok; exact Hrec].
      destruct fs as [|f0 fs0]; [discriminate|]. eexists. split; [reflexivity|]. split; [|discriminate].
      intros rest. cbn [app]. apply cs_named. rewrite <- !List.app_assoc.
      replace ((if u then ["__ignore"; ":"] ++ marker_path else []) ++ ["}"] ++ rest)
        with (named_marker u ++ "}" :: rest) by (destruct u; reflexivity).
      apply named_concat. exact Hl.
    - apply xbind_ok in H as (l & st1 & Hl & H). apply xret_ok in H. subst f.
      apply (xmmapM_ok value_tokens) in Hl; [|intros f _; apply unnamed_field_ok; exact Hrec].
      destruct fs as [|f0 fs0]; [discriminate|]. eexists. split; [reflexivity|]. split; [|discriminate].
      intros rest. cbn [app]. apply cs_unnamed. rewrite <- !List.app_assoc.
      replace ((if u then marker_path else []) ++ [")"] ++ rest)
        with (unnamed_marker u ++ ")" :: rest) by (destruct u; reflexivity).
      apply unnamed_concat. exact Hl.
    - discriminate.
  Qed.

  (** [n] copies joined by commas *)
  Lemma copies_sep e x : Inst e x -> forall len rest, conf_sep conf e len (copies len x ++ rest) rest.
  Proof.
    intros Hx len rest. unfold copies.
    assert (K : forall k rest0,
               conf_sep conf e (N.of_nat k) (sep_by [","%string] (Nat.iter k (fun acc => x :: acc) []) ++ rest0) rest0).
    { induction k as [|k IHk]; intros rest0.
      - cbn. apply sep_0.
      - destruct k as [|k'].
        + cbn. apply sep_1. apply Hx.
        + rewrite Nat2N.inj_succ. specialize (IHk rest0).
          change (Nat.iter (S (S k')) (fun acc => x :: acc) [])
            with (x :: x :: Nat.iter k' (fun acc => x :: acc) []).
          change (Nat.iter (S k') (fun acc => x :: acc) [])
            with (x :: Nat.iter k' (fun acc => x :: acc) []) in IHk.
          cbn [sep_by] in *. rewrite <- !List.app_assoc. cbn [app].
          eapply sep_S; [lia|apply Hx|exact IHk]. }
    rewrite N2Nat.inj_iter. specialize (K (N.to_nat len) rest). rewrite N2Nat.id in K. exact K.
  Qed.

  Lemma tuple_concat : forall ts l,
    Forall2 Inst ts l ->
    forall rest, conf_tuple conf ts (flat_map (fun v => v ++ [","]) l ++ rest) rest.
  Proof.
    induction 1 as [|i v ts l Hv _ IH]; intros rest; cbn [flat_map app].
    - constructor.
    - rewrite <- !List.app_assoc. cbn [app]. eapply ct_cons; [apply Hv|apply IH].
  Qed.

  Lemma lookup_In id t : lookup r id = Some t -> In (id, t) r.
  Proof.
    intros L. apply resolve_In; [eapply generate_sanity; eauto|apply lookup_resolve; exact L].
  Qed.

  Lemma unused_is_marker t u :
    has_unused_type_params r s t = Ok u ->
    forall irX, create_type_ir r s t (mk_flat derives_empty []) = Ok (Some irX) -> u = has_marker irX.
  Proof.
    unfold has_unused_type_params. intros H irX E. rewrite E in H. cbn [bind] in H.
    inversion H. reflexivity.
  Qed.

  Lemma option_none_shape (p : tokens) vi (f : tokens) :
    list_eqb String.eqb (p ++ [":"; ":"; vi] ++ f) ["Option"; ":"; ":"; "None"]%string = true ->
    p = ["Option"%string] /\ vi = "None"%string /\ f = [].
  Proof.
    intros H.
    assert (E : p ++ [":"; ":"; vi] ++ f = ["Option"; ":"; ":"; "None"]%string).
    { revert H. generalize (p ++ [":"; ":"; vi] ++ f) as a. generalize ["Option"; ":"; ":"; "None"]%string as b.
      intros b a. revert b. induction a as [|x a IH]; intros [|y b]; cbn [list_eqb]; try discriminate; [reflexivity|].
      intros H. apply andb_prop in H as [H1 H2]. apply String.eqb_eq in H1. subst. f_equal. apply IH. exact H2. }
    destruct p as [|p0 p]; cbn [app] in E; [discriminate E|].
    injection E as E0 E. subst p0.
    destruct p as [|p1 p]; cbn [app] in E.
    { injection E as Evi Ef. subst. auto. }
    injection E as E1 E.
    destruct p as [|p2 p]; cbn [app] in E; [discriminate E|].
    injection E as E2 E.
    destruct p as [|p3 p]; cbn [app] in E; [discriminate E|].
    injection E as E3 E. destruct p; discriminate E.
  Qed.

  Lemma ty_go_inst (rec : N -> M tokens) :
    (forall j, Sat (Inst j) (rec j)) ->
    forall fi id t, lookup r id = Some t -> Sat (Inst id) (ty_go r s rec fi id t).
  Proof.
    intros Hrec. induction fi as [|fi IH]; intros id t L st v st' H; [discriminate|].
    cbn [ty_go] in H. destruct (t_def t) eqn:D.
    - (* composite *)
      destruct (cow_inner t) as [inner|] eqn:Ec; unfold cow_inner in Ec; rewrite Ec in H.
      { intros rest. eapply c_cow; eauto; eapply Hrec; eauto. }
      apply xbind_ok in H as (p & st1 & Hp & H). apply xlift_ok in Hp.
      apply xbind_ok in H as (u & st2 & Hu & H). apply xlift_ok in Hu.
      apply xbind_ok in H as (f & st3 & Hf & H). apply xret_ok in H. subst v.
      apply (fields_example_shape rec fs u Hrec) in Hf as (L0 & HL0 & Hshape & _).
      intros rest. rewrite <- List.app_assoc.
      destruct (item_eligible s t) eqn:El.
      + destruct (item_of_entry r s teq m Hgen Hsk id t (lookup_In id t L) El)
          as (id0 & ir0 & irX & Hget & HirX & Hsig).
        pose proof (create_type_ir_sig _ _ _ _ _ HirX) as Hes. unfold entry_sig_ok in Hes. rewrite D in Hes.
        destruct Hes as (L1 & HL1 & Hs1). rewrite HL0 in HL1. inversion HL1; subst L1.
        rewrite (unused_is_marker t u Hu irX HirX) in *.
        eapply c_struct_item; eauto. congruence.
      + eapply c_struct_foreign; eauto.
    - (* variant *)
      apply xbind_ok in H as (p & st1 & Hp & H). apply xlift_ok in Hp.
      apply xbind_ok in H as (o & st2 & Ho & H). apply xdraw_ok in Ho as (ws' & Ho).
      destruct o as [vr|]; [|discriminate]. apply choose_in in Ho.
      apply xbind_ok in H as (vi & st3 & Hvi & H). apply xformat_ident_ok in Hvi. subst vi.
      apply xbind_ok in H as (f & st4 & Hf & H). apply xret_ok in H.
      apply (fields_example_shape rec (v_fields vr) false Hrec) in Hf as (L0 & HL0 & Hshape & Hnil).
      destruct (list_eqb String.eqb (p ++ [":"; ":"; v_name vr] ++ f) ["Option"; ":"; ":"; "None"]%string) eqn:EN.
      { apply option_none_shape in EN as (-> & Hvn & ->). subst v. intros rest. cbn [app].
        eapply c_none; eauto. }
      subst v. intros rest. rewrite <- !List.app_assoc. cbn [app].
      destruct (item_eligible s t) eqn:El.
      + destruct (item_of_entry r s teq m Hgen Hsk id t (lookup_In id t L) El)
          as (id0 & ir0 & irX & Hget & HirX & Hsig).
        pose proof (create_type_ir_sig _ _ _ _ _ HirX) as Hes. unfold entry_sig_ok in Hes. rewrite D in Hes.
        destruct Hes as (sigs & Hs1 & HF).
        assert (Hin : In (v_name vr, L0) sigs).
        { clear - HF Ho HL0. induction HF as [|v0 x vs0 sigs0 [Hx1 Hx2] _ IHF]; [destruct Ho|].
          destruct Ho as [->|Ho]; [left|right; apply IHF; exact Ho].
          destruct x as [xn xl]. cbn [fst snd] in *. subst xn. congruence. }
        eapply c_variant_item; eauto. congruence.
      + eapply c_variant_foreign; eauto.
    - (* sequence *)
      apply xbind_ok in H as (te & st1 & Hte & H). unfold resolve_type_m in Hte.
      destruct (lookup r t0) as [te'|] eqn:Le; [|discriminate]. apply xret_ok in Hte. subst te'.
      apply xbind_ok in H as (a & st2 & Ha & H). apply xbind_ok in H as (b & st3 & Hb & H).
      apply xret_ok in H. subst v. intros rest.
      pose proof (IH t0 te Le _ _ _ Ha) as HA. pose proof (IH t0 te Le _ _ _ Hb) as HB.
      rewrite <- !List.app_assoc. cbn [app]. eapply c_seq with (n := 2%N); eauto.
      change 2%N with (N.succ 1). eapply sep_S; [lia|apply HA|]. apply sep_1. apply HB.
    - (* array *)
      apply xbind_ok in H as (te & st1 & Hte & H). unfold resolve_type_m in Hte.
      destruct (lookup r t0) as [te'|] eqn:Le; [|discriminate]. apply xret_ok in Hte. subst te'.
      apply xbind_ok in H as (item & st2 & Hitem & H). apply xbind_ok in H as (cp & st3 & Hcp & H).
      apply xret_ok in H. subst v. intros rest.
      pose proof (IH t0 te Le _ _ _ Hitem) as HI.
      destruct cp; rewrite <- !List.app_assoc; cbn [app].
      + eapply c_array_repeat; [exact L|exact D| |apply HI].
        right. exact (model_copy_is_copy r t0 te _ _ Le Hcp).
      + eapply c_array_list; eauto; apply copies_sep; exact HI.
    - (* tuple *)
      apply xbind_ok in H as (l & st1 & Hl & H). apply xret_ok in H. subst v.
      apply (xmmapM_ok Inst) in Hl; [|intros j _; apply Hrec].
      intros rest. rewrite <- !List.app_assoc. cbn [app]. eapply c_tuple; eauto;
      apply tuple_concat; exact Hl.
    - (* primitive *)
      intros rest. eapply c_prim; eauto; eapply prim_example_lit; eauto.
    - (* compact *)
      intros rest. eapply c_compact; eauto; eapply Hrec; eauto.
    - (* bit sequence *)
      apply xret_ok in H. subst v. intros rest. eapply c_bits; eauto.
  Qed.

  Lemma resolve_go_inst : forall fo id, Sat (Inst id) (resolve_go r s fo id).
  Proof.
    induction fo as [|fo IH]; intros id st v st' H; [discriminate|].
    cbn [resolve_go] in H. destruct (lookup r id) as [t|] eqn:L; [|discriminate].
    assert (K : forall st1, match ty_go r s (resolve_go r s fo) (inner_fuel r) id t st1 with
                            | XOk (v0, s') => XOk (v0, (cache_set id (CComputed v0) (fst s'), snd s'))
                            | XErr e => XErr e
                            | XPanic msg => XPanic msg
                            end = XOk (v, st') -> Inst id v).
    { intros st1 K. destruct (ty_go r s (resolve_go r s fo) (inner_fuel r) id t st1) as [[v0 s']|e|msg] eqn:E;
        try discriminate. inversion K; subst. eapply ty_go_inst; eauto. }
    destruct (cache_get (fst st) id) as [[|v0]|]; [discriminate| |]; eapply K; exact H.
  Qed.

  Theorem example_conforms id ws ts : example_rust r s id ws = XOk ts -> conf id ts [].
  Proof.
    unfold example_rust, example_run. intros H.
    destruct (resolve_go r s (outer_fuel r) id ([], ws)) as [[v st']|e|msg] eqn:E; try discriminate.
    inversion H; subst. pose proof (resolve_go_inst _ _ _ _ _ E []) as K. rewrite app_nil_r in K. exact K.
  Qed.
End Main.

Theorem example_conforms_checked (r : registry) (s : settings) (m : items) :
  generate r s (Equal.types_equal r) = Ok m -> skeleton_consistentb r s = true ->
  forall id ws ts, example_rust r s id ws = XOk ts -> conforms r s m id ts [].
Proof.
  intros Hg Hs. apply (example_conforms r s (Equal.types_equal r) m Hg).
  apply ShapeBool.skeleton_consistentb_sound. exact Hs.
Qed.

(** ** 4. soundness of the boolean reader *)
Lemma repeat_okb_sound r len e : repeat_okb r len e = true -> repeat_ok r len e.
Proof.
  unfold repeat_okb, repeat_ok. intros H. apply orb_prop in H as [H|H]; [left; apply N.leb_le; exact H|right; exact H].
Qed.

Lemma repeat_okb_complete r len e : repeat_ok r len e -> repeat_okb r len e = true.
Proof.
  unfold repeat_okb, repeat_ok. intros [H|H]; [apply N.leb_le in H; rewrite H; reflexivity|rewrite H; apply orb_true_r].
Qed.

Lemma expect_ok x ts rest : expect x ts = Some rest -> ts = x :: rest.
Proof.
  unfold expect. destruct ts as [|t ts']; [discriminate|]. destruct (String.eqb t x) eqn:E; [|discriminate].
  apply String.eqb_eq in E. intros H; inversion H; subst; reflexivity.
Qed.

Lemma expects_ok : forall xs ts rest, expects xs ts = Some rest -> ts = xs ++ rest.
Proof.
  induction xs as [|x xs IH]; intros ts rest H; cbn [expects] in H.
  - inversion H; reflexivity.
  - destruct (expect x ts) as [t1|] eqn:E; [|discriminate]. apply expect_ok in E. subst ts.
    cbn [app]. f_equal. apply IH. exact H.
Qed.

Lemma read_unsigned_sound suffix bits ts rest :
  read_unsigned suffix bits ts = Some rest -> unsigned_lit suffix bits ts rest.
Proof.
  unfold read_unsigned, unsigned_lit. destruct ts as [|t ts']; [discriminate|].
  destruct (String.eqb t (lit_u suffix (digits_value t 0)) && (digits_value t 0 <? 2 ^ bits)%N) eqn:E; [|discriminate].
  apply andb_prop in E as [E1 E2]. apply String.eqb_eq in E1. apply N.ltb_lt in E2.
  intros H; inversion H; subst. eexists. split; [exact E2|]. f_equal. exact E1.
Qed.

Lemma read_signed_sound suffix bits ts rest :
  read_signed suffix bits ts = Some rest -> signed_lit suffix bits ts rest.
Proof.
  unfold read_signed, signed_lit. set (z := match ts with [] => 0%Z | _ => _ end). clearbody z.
  destruct ((- Z.of_N (2 ^ (bits - 1)) <=? z)%Z && (z <? Z.of_N (2 ^ (bits - 1)))%Z) eqn:E; [|discriminate].
  apply andb_prop in E as [E1 E2]. apply Z.leb_le in E1. apply Z.ltb_lt in E2.
  intros H. apply expects_ok in H. exists z. split; [split; assumption|exact H].
Qed.

Lemma read_bytes32_sound ts rest : read_bytes32 ts = Some rest -> bytes32_lit ts rest.
Proof.
  unfold read_bytes32, bytes32_lit. set (b := map _ _). clearbody b.
  destruct (Nat.eqb (List.length b) 32 && forallb (fun n => (n <? 256)%N) b) eqn:E; [|discriminate].
  apply andb_prop in E as [E1 E2]. apply Nat.eqb_eq in E1.
  intros H. apply expects_ok in H. exists b. split; [exact E1|]. split; [|exact H].
  apply Forall_forall. intros x Hx. rewrite forallb_forall in E2. apply N.ltb_lt. apply E2. exact Hx.
Qed.

Lemma read_prim_sound p ts rest : read_prim p ts = Some rest -> prim_lit p ts rest.
Proof.
  destruct p; cbn [read_prim prim_lit]; try apply read_unsigned_sound; try apply read_signed_sound;
    try apply read_bytes32_sound.
  - destruct (expect "true" ts) as [r1|] eqn:E.
    + intros H; inversion H; subst. left. apply expect_ok. exact E.
    + intros H. right. apply expect_ok. exact H.
  - destruct ts as [|t ts']; [discriminate|]. destruct t as [|c0 [|c t']]; try discriminate.
    destruct (alnum c && String.eqb (String c0 (String c t')) (quote_with "'" (String c ""))) eqn:E; [|discriminate].
    apply andb_prop in E as [E1 E2]. apply String.eqb_eq in E2.
    intros H; inversion H; subst. exists c. split; [exact E1|]. f_equal. exact E2.
  - destruct ts as [|t ts']; [discriminate|].
    set (x := match t with EmptyString => EmptyString | String _ x' => string_removelast x' end). clearbody x.
    destruct (all_chars alnum x && String.eqb t (quote_with """" x)) eqn:E; [|discriminate].
    apply andb_prop in E as [E1 E2]. apply String.eqb_eq in E2.
    intros H. apply expects_ok in H. subst ts'. exists x. split; [exact E1|]. f_equal. exact E2.
Qed.

Section ReaderSound.
  Variable C : N -> tokens -> option tokens.
  Variable P : N -> tokens -> tokens -> Prop.
  Hypothesis HC : forall i ts rest, C i ts = Some rest -> P i ts rest.

  Lemma read_value_sound f ts rest : read_value C f ts = Some rest -> conf_value P f ts rest.
  Proof.
    unfold read_value. destruct (explicit_compact f) eqn:E.
    - destruct (expects ["Compact"; "("]%string ts) as [t1|] eqn:E1; [|discriminate].
      apply expects_ok in E1. subst ts.
      destruct (C (f_ty f) t1) as [t2|] eqn:E2; [|discriminate].
      intros H. apply expect_ok in H. subst t2. cbn [app]. apply cv_compact; [exact E|apply HC; exact E2].
    - intros H. apply cv_plain; [exact E|apply HC; exact H].
  Qed.

  Lemma read_named_sound : forall ns fs ts rest,
    read_named C ns fs ts = Some rest -> conf_named P ns fs ts rest.
  Proof.
    induction ns as [|n ns IH]; intros fs ts rest H; destruct fs as [|f fs]; cbn [read_named] in H;
      try discriminate.
    - inversion H; subst. constructor.
    - destruct (expects [n; ":"%string] ts) as [t1|] eqn:E1; [|discriminate]. apply expects_ok in E1. subst ts.
      destruct (read_value C f t1) as [t2|] eqn:E2; [|discriminate].
      destruct (expect "," t2) as [t3|] eqn:E3; [|discriminate]. apply expect_ok in E3. subst t2.
      cbn [app]. eapply cn_cons; [apply read_value_sound; exact E2|apply IH; exact H].
  Qed.

  Lemma read_unnamed_sound : forall k fs ts rest,
    read_unnamed C k fs ts = Some rest -> conf_unnamed P k fs ts rest.
  Proof.
    induction k as [|k IH]; intros fs ts rest H; destruct fs as [|f fs]; cbn [read_unnamed] in H;
      try discriminate.
    - inversion H; subst. constructor.
    - destruct (read_value C f ts) as [t2|] eqn:E2; [|discriminate].
      destruct (expect "," t2) as [t3|] eqn:E3; [|discriminate]. apply expect_ok in E3. subst t2.
      eapply cu_cons; [apply read_value_sound; exact E2|apply IH; exact H].
  Qed.

  Definition agrees (mk : option bool) (b : bool) : Prop := forall b', mk = Some b' -> b = b'.

  Lemma read_close_sound wm close mk ts rest :
    read_close wm close mk ts = Some rest ->
    exists b, agrees mk b /\ ts = (if b then wm else []) ++ close :: rest.
  Proof.
    unfold read_close. destruct mk as [[|]|].
    - intros H. apply expects_ok in H. exists true. split; [intros b' E; inversion E; reflexivity|].
      rewrite H, <- List.app_assoc. reflexivity.
    - intros H. apply expect_ok in H. exists false. split; [intros b' E; inversion E; reflexivity|exact H].
    - destruct (expects (wm ++ [close]) ts) as [r1|] eqn:E.
      + intros H; inversion H; subst. apply expects_ok in E. exists true. split; [intros b' E'; discriminate|].
        rewrite E, <- List.app_assoc. reflexivity.
      + intros H. apply expect_ok in H. exists false. split; [intros b' E'; discriminate|exact H].
  Qed.

  Lemma unit_marker_sound ts rest :
    expects ("(" :: marker_path ++ [")"])%string ts = Some rest -> conf_shape P LUnit true [] ts rest.
  Proof.
    intros H. apply expects_ok in H. subst ts. cbn [app]. rewrite <- List.app_assoc. cbn [app].
    apply cs_unit_marker.
  Qed.

  Lemma read_shape_sound L mk fs ts rest :
    read_shape C L mk fs ts = Some rest -> exists b, agrees mk b /\ conf_shape P L b fs ts rest.
  Proof.
    unfold read_shape. destruct L as [|ns|k].
    - destruct fs as [|f fs]; [|discriminate].
      pose proof unit_marker_sound as Hm.
      destruct mk as [[|]|].
      + intros H. exists true. split; [intros b' E; inversion E; reflexivity|apply Hm; exact H].
      + intros H; inversion H; subst. exists false. split; [intros b' E; inversion E; reflexivity|apply cs_unit].
      + destruct (expects ("(" :: marker_path ++ [")"])%string ts) as [r1|] eqn:E.
        * intros H; inversion H; subst. exists true. split; [intros b' E'; discriminate|apply Hm; exact E].
        * intros H; inversion H; subst. exists false. split; [intros b' E'; discriminate|apply cs_unit].
    - destruct (expect "{" ts) as [t1|] eqn:E1; [|discriminate]. apply expect_ok in E1. subst ts.
      destruct (read_named C ns fs t1) as [t2|] eqn:E2; [|discriminate].
      intros H. apply read_close_sound in H as (b & Hb & ->). exists b. split; [exact Hb|].
      apply cs_named. apply read_named_sound in E2. destruct b; exact E2.
    - destruct (expect "(" ts) as [t1|] eqn:E1; [|discriminate]. apply expect_ok in E1. subst ts.
      destruct (read_unnamed C k fs t1) as [t2|] eqn:E2; [|discriminate].
      intros H. apply read_close_sound in H as (b & Hb & ->). exists b. split; [exact Hb|].
      apply cs_unnamed. apply read_unnamed_sound in E2. destruct b; exact E2.
  Qed.

  Lemma read_sep_sound e : forall fuel ts n k rest,
    read_sep C fuel e ts n = Some (k, rest) ->
    exists j, (k = n + j)%N /\ (0 < j)%N /\ conf_sep P e j ts rest.
  Proof.
    induction fuel as [|fuel IH]; intros ts n k rest H; [discriminate|]. cbn [read_sep] in H.
    destruct (C e ts) as [t1|] eqn:E1; [|discriminate].
    destruct (expect "," t1) as [t2|] eqn:E2.
    - apply expect_ok in E2. subst t1. apply IH in H as (j & Hk & Hj & Hsep).
      exists (N.succ j). split; [lia|]. split; [lia|]. eapply sep_S; [exact Hj|apply HC; exact E1|exact Hsep].
    - inversion H; subst. exists 1%N. split; [reflexivity|]. split; [lia|]. apply sep_1. apply HC. exact E1.
  Qed.

  Lemma read_tuple_sound : forall l ts rest, read_tuple C l ts = Some rest -> conf_tuple P l ts rest.
  Proof.
    induction l as [|i l IH]; intros ts rest H; cbn [read_tuple] in H.
    - inversion H; subst. constructor.
    - destruct (C i ts) as [t1|] eqn:E1; [|discriminate].
      destruct (expect "," t1) as [t2|] eqn:E2; [|discriminate]. apply expect_ok in E2. subst t1.
      eapply ct_cons; [apply HC; exact E1|apply IH; exact H].
  Qed.
End ReaderSound.

Section IrSound.
  Variable r : registry.
  Variable s : settings.
  Variable m : items.

  Lemma variant_general_sound fuel id t vs p ts rest :
    (forall i ts0 rest0, conf_ir r s m fuel i ts0 = Some rest0 -> conforms r s m i ts0 rest0) ->
    lookup r id = Some t -> t_def t = TDVariant vs -> path_omit_generics r s id = Ok p ->
    match expects p ts with
    | Some t1 =>
        match expects [":"; ":"]%string t1 with
        | Some (vn :: t2) =>
            match find (fun v => String.eqb (v_name v) vn) vs with
            | Some v =>
                if item_eligible s t then
                  match items_get m (t_path t) with
                  | Some (_, ir) =>
                      match sig_of_ir ir with
                      | ISEnum sigs =>
                          match find (fun x => String.eqb (fst x) vn) sigs with
                          | Some (_, L) => read_shape (conf_ir r s m fuel) L (Some false) (v_fields v) t2
                          | None => None
                          end
                      | ISStruct _ _ => None
                      end
                  | None => None
                  end
                else
                  match layout_of_fields (v_fields v) with
                  | Some L => read_shape (conf_ir r s m fuel) L (Some false) (v_fields v) t2
                  | None => None
                  end
            | None => None
            end
        | _ => None
        end
    | None => None
    end = Some rest -> conforms r s m id ts rest.
  Proof.
    intros IH L D Ep H.
    destruct (expects p ts) as [t1|] eqn:E1; [|discriminate]. apply expects_ok in E1. subst ts.
    destruct (expects [":"; ":"]%string t1) as [[|vn t2]|] eqn:E2; try discriminate.
    apply expects_ok in E2. subst t1. cbn [app].
    destruct (find (fun v => String.eqb (v_name v) vn) vs) as [v|] eqn:Fv; [|discriminate].
    apply find_some in Fv as [Hin Hvn]. apply String.eqb_eq in Hvn. subst vn.
    destruct (item_eligible s t) eqn:El.
    - destruct (items_get m (t_path t)) as [[id0 ir]|] eqn:G; [|discriminate].
      destruct (sig_of_ir ir) as [|sigs] eqn:Sg; [discriminate|].
      destruct (find (fun x => String.eqb (fst x) (v_name v)) sigs) as [[n' L0]|] eqn:Fs; [|discriminate].
      apply find_some in Fs as [Hs Hn]. cbn [fst] in Hn. apply String.eqb_eq in Hn. subst n'.
      apply (read_shape_sound _ _ IH) in H as (b & Hb & Hshape).
      rewrite (Hb false eq_refl) in Hshape. eapply c_variant_item; eauto.
    - destruct (layout_of_fields (v_fields v)) as [L0|] eqn:Lf; [|discriminate].
      apply (read_shape_sound _ _ IH) in H as (b & Hb & Hshape).
      rewrite (Hb false eq_refl) in Hshape. eapply c_variant_foreign; eauto.
  Qed.

  Theorem conf_ir_sound : forall fuel id ts rest,
    conf_ir r s m fuel id ts = Some rest -> conforms r s m id ts rest.
  Proof.
    induction fuel as [|fuel IH]; intros id ts rest H; [discriminate|].
    cbn [conf_ir] in H. destruct (lookup r id) as [t|] eqn:L; [|discriminate].
    destruct (t_def t) eqn:D.
    - (* composite *)
      destruct (cow_inner t) as [inner|] eqn:Ec; [eapply c_cow; eauto|].
      destruct (path_omit_generics r s id) as [p|e|msg] eqn:Ep; try discriminate.
      destruct (expects p ts) as [t1|] eqn:E1; [|discriminate]. apply expects_ok in E1. subst ts.
      destruct (item_eligible s t) eqn:El.
      + destruct (items_get m (t_path t)) as [[id0 ir]|] eqn:G; [|discriminate].
        destruct (sig_of_ir ir) as [L0 mk|] eqn:Sg; [|discriminate].
        apply (read_shape_sound _ _ IH) in H as (b & Hb & Hshape).
        rewrite (Hb mk eq_refl) in Hshape. eapply c_struct_item; eauto.
      + destruct (layout_of_fields fs) as [L0|] eqn:Lf; [|discriminate].
        apply (read_shape_sound _ _ IH) in H as (b & Hb & Hshape). eapply c_struct_foreign; eauto.
    - (* variant *)
      destruct (path_omit_generics r s id) as [p|e|msg] eqn:Ep; try discriminate.
      pose proof (variant_general_sound fuel id t vs p ts rest IH L D Ep) as HG.
      destruct (list_eqb String.eqb p ["Option"%string] && existsb is_none_variant vs) eqn:EN; [|exact (HG H)].
      destruct (expect "None" ts) as [r1|] eqn:E1; [|exact (HG H)].
      inversion H; subst r1. apply expect_ok in E1. subst ts.
      apply andb_prop in EN as [EN1 EN2].
      apply (list_eqb_sound String.eqb (fun x y => proj1 (String.eqb_eq x y))) in EN1. subst p.
      apply existsb_exists in EN2 as (v & Hin & Hv). unfold is_none_variant in Hv.
      apply andb_prop in Hv as [Hv1 Hv2]. apply String.eqb_eq in Hv1.
      eapply c_none; eauto. destruct (v_fields v); [reflexivity|discriminate].
    - (* sequence *)
      destruct (expects ["vec"; "!"; "["]%string ts) as [t1|] eqn:E1; [|discriminate].
      apply expects_ok in E1. subst ts. cbn [app].
      destruct (expect "]" t1) as [r1|] eqn:E2.
      + inversion H; subst r1. apply expect_ok in E2. subst t1. eapply c_seq; eauto. apply sep_0.
      + destruct (read_sep (conf_ir r s m fuel) (S (List.length t1)) t0 t1 0) as [[k t2]|] eqn:Es; [|discriminate].
        apply (read_sep_sound _ _ IH) in Es as (j & _ & _ & Hsep).
        apply expect_ok in H. subst t2. eapply c_seq; eauto.
    - (* array *)
      destruct (expect "[" ts) as [t1|] eqn:E1; [|discriminate]. apply expect_ok in E1. subst ts.
      destruct (expect "]" t1) as [r1|] eqn:E2.
      + destruct (N.eqb len 0) eqn:E0; [|discriminate]. apply N.eqb_eq in E0. subst len.
        inversion H; subst r1. apply expect_ok in E2. subst t1. eapply c_array_list; eauto. apply sep_0.
      + destruct (conf_ir r s m fuel t0 t1) as [t2|] eqn:Ee; [|discriminate]. apply IH in Ee.
        destruct (expect ";" t2) as [t3|] eqn:E3.
        * apply expect_ok in E3. subst t2.
          destruct (repeat_okb r len t0) eqn:Erp; [|discriminate].
          apply expects_ok in H. subst t3. cbn [app] in Ee.
          eapply c_array_repeat; eauto. apply repeat_okb_sound. exact Erp.
        * destruct (expect "," t2) as [t3'|] eqn:E4.
          -- apply expect_ok in E4. subst t2.
             destruct (read_sep (conf_ir r s m fuel) (S (List.length t3')) t0 t3' 0) as [[k t4]|] eqn:Es; [|discriminate].
             apply (read_sep_sound _ _ IH) in Es as (j & Hk & Hj & Hsep).
             destruct (N.eqb (N.succ k) len) eqn:Ek; [|discriminate]. apply N.eqb_eq in Ek.
             apply expect_ok in H. subst t4. eapply c_array_list; eauto.
             replace len with (N.succ j) by lia. eapply sep_S; eauto.
          -- destruct (N.eqb len 1) eqn:E1'; [|discriminate]. apply N.eqb_eq in E1'. subst len.
             apply expect_ok in H. subst t2. eapply c_array_list; eauto. apply sep_1. exact Ee.
    - (* tuple *)
      destruct (expect "(" ts) as [t1|] eqn:E1; [|discriminate]. apply expect_ok in E1. subst ts.
      destruct (read_tuple (conf_ir r s m fuel) ts0 t1) as [t2|] eqn:E2; [|discriminate].
      apply (read_tuple_sound _ _ IH) in E2. apply expect_ok in H. subst t2. eapply c_tuple; eauto.
    - (* primitive *) eapply c_prim; eauto. apply read_prim_sound. exact H.
    - (* compact *) eapply c_compact; eauto.
    - (* bits *) apply expects_ok in H. subst ts. eapply c_bits; eauto.
  Qed.

  Theorem conforms_irb_sound id ts : conforms_irb r s m id ts = true -> conforms r s m id ts [].
  Proof.
    unfold conforms_irb. destruct (conf_ir r s m (conf_fuel r ts) id ts) as [[|x rest]|] eqn:E; try discriminate.
    intros _. eapply conf_ir_sound; eauto.
  Qed.
End IrSound.

(** ** 5. the literal path of an item-eligible entry is the LOCATION of its item in the module:
    [root :: <entry path>], i.e. the key under which [conforms] looks the item up *)
Definition plain_tok (t : string) : Prop :=
  tok_open t = false /\ tok_close t = false /\ String.eqb t "<" = false.

Lemma ident_plain t : ident_lexb t = true -> plain_tok t.
Proof.
  intros H. unfold plain_tok, tok_open, tok_close.
  assert (K : forall x, ident_lexb x = false -> String.eqb t x = false).
  { intros x Hx. destruct (String.eqb t x) eqn:E; [|reflexivity]. apply String.eqb_eq in E. congruence. }
  rewrite !K by reflexivity. repeat split; reflexivity.
Qed.

Lemma omit_go_plain : forall l x, Forall plain_tok l ->
  omit_generics_go 0 (l ++ x) = l ++ omit_generics_go 0 x.
Proof.
  induction l as [|t l IH]; intros x H; [reflexivity|]. inversion H as [|t' l' (H1 & H2 & H3) Hl]; subst.
  cbn [app omit_generics_go]. rewrite H1, H2, H3. cbn [andb]. f_equal. apply IH. exact Hl.
Qed.

Lemma rel_path_plain root path :
  ident_lexb root = true -> forallb ident_lexb path = true -> Forall plain_tok (rel_path (root :: path)).
Proof.
  intros Hr Hp. cbn [rel_path]. constructor; [apply ident_plain; exact Hr|].
  induction path as [|x path IH]; cbn [flat_map app]; [constructor|].
  cbn [forallb] in Hp. apply andb_prop in Hp as [Hx Hp].
  assert (Hc : plain_tok ":") by (repeat split; reflexivity).
  constructor; [exact Hc|]. constructor; [exact Hc|]. constructor; [apply ident_plain; exact Hx|apply IH; exact Hp].
Qed.

Theorem eligible_literal_path r s id X p :
  resolve r id = Some X -> item_eligible s X = true -> path_ident (t_path X) <> Some "Cow"%string ->
  ident_lexb (s_root s) = true ->
  path_omit_generics r s id = Ok p -> p = rel_path (s_root s :: t_path X).
Proof.
  intros Hres He Hcow Hroot Hp. unfold path_omit_generics in Hp.
  apply bind_ok in Hp as (t & Ht & Hp). apply bind_ok in Hp as (toks & Htoks & Hp). inversion Hp; subst p. clear Hp.
  unfold resolve_type_path, fuel0 in Ht. rewrite FidelityBase.resolve_rec_S in Ht.
  unfold find_parent in Ht. cbn [find] in Ht.
  assert (Hrt : resolve_type r id = Ok X) by (unfold resolve_type; rewrite Hres; reflexivity).
  rewrite Hrt in Ht. cbn [bind] in Ht.
  rewrite FidelityBase.cow_case_if, (FidelityBase.is_cow_false _ Hcow) in Ht. cbn [bind] in Ht.
  apply bind_ok in Ht as (params & Hparams & Ht).
  unfold item_eligible in He. apply andb_prop in He as [He Hns]. apply andb_prop in He as [Hcv Hsub].
  apply negb_true_iff in Hsub.
  assert (Ht' : type_path_maybe_with_substitutes s (t_path X) params = Ok t).
  { destruct (t_def X); cbn in Hcv; try discriminate; exact Ht. }
  clear Ht. unfold type_path_maybe_with_substitutes, for_path_with_params in Ht'.
  assert (Hpt : subs_get (s_subs s) (t_path X) = None /\ exists a0 a1 pl, t_path X = a0 :: a1 :: pl).
  { unfold subs_contains in Hsub. destruct (t_path X) as [|a0 [|a1 pl]]; try discriminate Hns.
    split; [|eauto]. destruct (subs_get (s_subs s) (a0 :: a1 :: pl)); [discriminate|reflexivity]. }
  destruct Hpt as (Hsg & a0 & a1 & pl & Hpath). rewrite Hsg in Ht'.
  apply bind_ok in Ht' as (ptoks & Hpk & Ht'). unfold from_type_def_path in Hpk. rewrite Hpath in Hpk.
  destruct (forallb path_seg_okb (a0 :: a1 :: pl)) eqn:Hlex; [|discriminate].
  apply SynKey.forallb_seg_lexb in Hlex.
  assert (Hptoks : ptoks = rel_path (s_root s :: t_path X)) by (rewrite Hpath; congruence).
  subst ptoks.
  assert (Hteq : t = TPath (rel_path (s_root s :: t_path X)) params) by congruence.
  subst t. clear Hpk Ht'. rewrite <- Hpath in Hlex.
  pose proof (rel_path_plain (s_root s) (t_path X) Hroot Hlex) as Hplain.
  remember (rel_path (s_root s :: t_path X)) as P eqn:EP. clear EP.
  cbn [tp_tokens] in Htoks. apply bind_ok in Htoks as (ps & _ & Htoks).
  unfold omit_generics. destruct ps as [|p0 ps]; injection Htoks as <-.
  - pose proof (omit_go_plain _ [] Hplain) as K. cbn [omit_generics_go] in K.
    rewrite !List.app_nil_r in K. exact K.
  - rewrite (omit_go_plain _ _ Hplain). cbn. apply List.app_nil_r.
Qed.

(** ** 6. registries whose item paths are unique are skeleton consistent (no same-path families,
    hence no F15): C14_conforms without the consistency hypothesis *)
Definition unique_item_paths (r : registry) (s : settings) : Prop :=
  forall id X id' X', In (id, X) r -> In (id', X') r ->
    item_eligible s X = true -> item_eligible s X' = true -> t_path X = t_path X' -> X = X'.

Lemma unique_paths_consistent r s : unique_item_paths r s -> skeleton_consistent r s.
Proof.
  intros Hu id X id0 X0 Hin He Hfirst.
  apply first_eligible_some in Hfirst as (Hin0 & Hp0 & He0).
  rewrite (Hu id X id0 X0 Hin Hin0 He He0 (eq_sym Hp0)). reflexivity.
Qed.

Theorem example_conforms_unique (r : registry) (s : settings) (teq : N -> N -> result bool) (m : items) :
  generate r s teq = Ok m -> unique_item_paths r s ->
  forall id ws ts, example_rust r s id ws = XOk ts -> conforms r s m id ts [].
Proof.
  intros Hg Hu. apply (example_conforms r s teq m Hg). apply unique_paths_consistent. exact Hu.
Qed.

(** ** 7. the repeat form is NOT available for an array of >= 2 elements of a non-[Copy] type:
    every derivation of [conforms] for such an entry ends with the explicit-list constructor *)
Lemma lookup_fun r id (t t' : ty) : lookup r id = Some t -> lookup r id = Some t' -> t' = t.
Proof. intros H H'. rewrite H in H'. inversion H'; reflexivity. Qed.

Theorem repeat_needs_copy (r : registry) (s : settings) (m : items) id t len e ts rest :
  conforms r s m id ts rest ->
  lookup r id = Some t -> t_def t = TDArray len e -> (2 <= len)%N -> copy_tyb r e = false ->
  exists ts', ts = "["%string :: ts' /\ conf_sep (conforms r s m) e len ts' ("]"%string :: rest).
Proof.
  intros H L D Hlen Hnc.
  inversion H as [id' t' p ts0 rest0 L' D' Hp
                 |id' t' e' ts0 rest0 L' D' hc
                 |id' t' st o rest0 L' D'
                 |id' t' e' n ts0 rest0 L' D' hs
                 |id' t' len' e' ts0 rest0 L' D' Hrp hc
                 |id' t' len' e' ts0 rest0 L' D' hs
                 |id' t' l ts0 rest0 L' D' ht
                 |id' t' fs inner ts0 rest0 L' D' Hcow hc
                 |id' t' fs p id0 ir Ly mk ts0 rest0 L' D' Hcow He Hp Hg Hsig hsh
                 |id' t' fs p Ly mk ts0 rest0 L' D' Hcow He Hp Hl hsh
                 |id' t' vs v p id0 ir sigs Ly ts0 rest0 L' D' Hv He Hp Hg Hsig Hin hsh
                 |id' t' vs v p Ly ts0 rest0 L' D' Hv He Hp Hl hsh
                 |id' t' vs v rest0 L' D' Hv Hn Hf Hp]; subst;
    pose proof (lookup_fun r id t t' L L'); subst t'; rewrite D in D'; try discriminate D'.
  - (* repeat form: excluded *)
    inversion D'; subst. exfalso. destruct Hrp as [Hle|Hcp]; [lia|congruence].
  - (* explicit list *)
    inversion D'; subst. eexists. split; [reflexivity|exact hs].
Qed.

(** token shape: the first element is followed by a comma (and [len - 1] more elements), not by
    the [; <len>usize ]] of the repeat form *)
Corollary repeat_needs_copy_tokens (r : registry) (s : settings) (m : items) id t len e ts rest :
  conforms r s m id ts rest ->
  lookup r id = Some t -> t_def t = TDArray len e -> (2 <= len)%N -> copy_tyb r e = false ->
  exists ts' mid, ts = "["%string :: ts' /\ conforms r s m e ts' (","%string :: mid) /\
                  conf_sep (conforms r s m) e (N.pred len) mid ("]"%string :: rest).
Proof.
  intros H L D Hlen Hnc. destruct (repeat_needs_copy r s m id t len e ts rest H L D Hlen Hnc) as (ts' & -> & Hs).
  inversion Hs as [fin0|ts0 fin0 Hc|n ts0 mid fin0 Hn Hc Hs']; subst; try lia.
  exists ts', mid. split; [reflexivity|]. split; [exact Hc|]. rewrite N.pred_succ. exact Hs'.
Qed.
