(** Proofs about the formatter model (C15, used by C13). *)
From Coq Require Import List NArith ZArith Bool Lia.
From V Require Import Model.Format.
Import ListNotations.
Open Scope N_scope.

Definition is_ws (c : N) : bool := (c =? c_space) || (c =? c_nl).

(** [ws_ins s out]: [out] is [s] with only spaces / newlines inserted. *)
Inductive ws_ins : list N -> list N -> Prop :=
| wi_nil : ws_ins [] []
| wi_keep c s o : ws_ins s o -> ws_ins (c :: s) (c :: o)
| wi_ws w s o : is_ws w = true -> ws_ins s o -> ws_ins s (w :: o).

Definition strip_ws (l : list N) : list N := filter (fun c => negb (is_ws c)) l.

Lemma ws_ins_all_ws l : forallb is_ws l = true -> ws_ins [] l.
Proof.
  induction l as [|c l IH]; cbn; intro H; [constructor|].
  apply andb_prop in H as [Hc Hl]. apply wi_ws; auto.
Qed.

Lemma ws_ins_app a x b y : ws_ins a x -> ws_ins b y -> ws_ins (a ++ b) (x ++ y).
Proof.
  intros Hax Hby; induction Hax; cbn; auto.
  - apply wi_keep; auto.
  - apply wi_ws; auto.
Qed.

Lemma ws_ins_strip s o : ws_ins s o -> strip_ws o = strip_ws s.
Proof.
  induction 1 as [|c s o H IH|w s o Hw H IH]; cbn; auto.
  - unfold strip_ws in *. destruct (is_ws c); cbn; congruence.
  - unfold strip_ws in *. rewrite Hw; cbn; auto.
Qed.

Lemma ws_ins_length s o : ws_ins s o -> (length s <= length o)%nat.
Proof. induction 1; cbn; lia. Qed.

Lemma indentation_ws i : forallb is_ws (indentation i) = true.
Proof.
  unfold indentation. induction (4 * Z.to_nat i)%nat as [|n IH]; cbn; auto.
Qed.

Lemma nl_indent_ws i : forallb is_ws (nl_indent i) = true.
Proof. unfold nl_indent; cbn. apply indentation_ws. Qed.

(** a chunk is [ws* ++ [ch] ++ ws*] *)
Definition chunk_ok (ch : N) (chunk : list N) : Prop :=
  exists pre post, chunk = pre ++ ch :: post
                   /\ forallb is_ws pre = true /\ forallb is_ws post = true.

Lemma chunk_ok_ins ch chunk : chunk_ok ch chunk -> ws_ins [ch] chunk.
Proof.
  intros (pre & post & -> & Hpre & Hpost).
  change [ch] with ([] ++ [ch]).
  apply ws_ins_app; [apply ws_ins_all_ws; auto|].
  apply wi_keep. apply ws_ins_all_ws; auto.
Qed.

Section WithOracle.
  Variable O : Type.
  Variable decide : O -> N -> N -> list N -> bool * O.

  Lemma step_chunk st o ch rest :
    chunk_ok ch (fst (fst (step O decide st o ch rest))).
  Proof.
    unfold step.
    repeat match goal with
    | |- context [if ?b then _ else _] => destruct b
    | |- context [match tuples st with _ => _ end] => destruct (tuples st) as [|[] ?]
    | |- context [match angles st with _ => _ end] => destruct (angles st) as [|[] ?]
    | |- context [let '(_, _) := decide ?a ?b ?c ?d in _] => destruct (decide a b c d) as [[] ?]
    end; cbn [fst snd].
    all: first
      [ solve [exists [c_space], (nl_indent (indent st + 1)); repeat split; auto using nl_indent_ws]
      | solve [exists (nl_indent (indent st - 1)), []; repeat split; auto using nl_indent_ws]
      | solve [exists [], (nl_indent (indent st + 1)); repeat split; auto using nl_indent_ws]
      | solve [exists [], (nl_indent (indent st)); repeat split; auto using nl_indent_ws]
      | solve [exists [], [c_space]; repeat split; auto]
      | solve [exists [], []; repeat split; auto] ].
  Qed.

  Theorem format_from_ws_ins : forall input st o,
    ws_ins input (format_from O decide st o input).
  Proof.
    induction input as [|ch rest IH]; intros st o; cbn [format_from]; [constructor|].
    pose proof (step_chunk st o ch rest) as Hc.
    destruct (step O decide st o ch rest) as [[chunk st'] o']; cbn [fst] in Hc.
    change (ch :: rest) with ([ch] ++ rest).
    apply ws_ins_app; [apply chunk_ok_ins; auto | apply IH].
  Qed.

  Theorem format_with_ws_ins o input : ws_ins input (format_with O decide o input).
  Proof. apply format_from_ws_ins. Qed.

  Theorem format_with_strip o input :
    strip_ws (format_with O decide o input) = strip_ws input.
  Proof. apply ws_ins_strip, format_with_ws_ins. Qed.

  (** ** the indent level never leaves [-n, n] after n characters *)
  Fixpoint run_n (n : nat) (st : fstate) (o : O) (input : list N) : fstate :=
    match n, input with
    | S n', ch :: rest =>
        let '(_, st', o') := step O decide st o ch rest in run_n n' st' o' rest
    | _, _ => st
    end.

  Lemma step_indent st o ch rest :
    (Z.abs (indent (snd (fst (step O decide st o ch rest))) - indent st) <= 1)%Z.
  Proof.
    unfold step.
    repeat match goal with
    | |- context [if ?b then _ else _] => destruct b
    | |- context [match tuples st with _ => _ end] => destruct (tuples st) as [|[] ?]
    | |- context [match angles st with _ => _ end] => destruct (angles st) as [|[] ?]
    | |- context [let '(_, _) := decide ?a ?b ?c ?d in _] => destruct (decide a b c d) as [[] ?]
    end; cbn [fst snd indent]; lia.
  Qed.

  Lemma run_n_indent : forall n st o input,
    (Z.abs (indent (run_n n st o input) - indent st) <= Z.of_nat (Nat.min n (length input)))%Z.
  Proof.
    induction n as [|n IH]; intros st o input; cbn [run_n]; [cbn; lia|].
    destruct input as [|ch rest]; [cbn; lia|].
    pose proof (step_indent st o ch rest) as Hs.
    destruct (step O decide st o ch rest) as [[chunk st'] o']; cbn [fst snd] in Hs.
    specialize (IH st' o' rest). cbn [length]. rewrite <- Nat.succ_min_distr. lia.
  Qed.

  Theorem indent_bounded n o input :
    (Z.abs (indent (run_n n init_fstate o input)) <= Z.of_nat (length input))%Z.
  Proof.
    pose proof (run_n_indent n init_fstate o input) as H. cbn [indent init_fstate] in H. lia.
  Qed.

  (** output length bound: each character adds at most 2 + 4*(|input|+1) *)
End WithOracle.

(** Boolean checker for [ws_ins].  Greedy matching (keep a character whenever
    it can be kept) is complete: if the kept character [c] is itself
    whitespace and the derivation treated the equal output character as
    inserted, the derivation can be re-arranged to keep it. *)
Fixpoint ws_insb (s o : list N) : bool :=
  match o with
  | [] => match s with [] => true | _ => false end
  | x :: o' =>
      match s with
      | [] => is_ws x && ws_insb [] o'
      | c :: s' => if c =? x then ws_insb s' o' else is_ws x && ws_insb s o'
      end
  end.

Lemma ws_insb_sound : forall o s, ws_insb s o = true -> ws_ins s o.
Proof.
  induction o as [|x o' IH]; intros s H; cbn in H.
  - destruct s; [constructor|discriminate].
  - destruct s as [|c s'].
    + apply andb_prop in H as [Hw H]. apply wi_ws; auto.
    + destruct (N.eqb_spec c x) as [->|Hne].
      * apply wi_keep; auto.
      * apply andb_prop in H as [Hw H]. apply wi_ws; auto.
Qed.

Lemma ws_ins_skip_ws : forall o c s, is_ws c = true -> ws_ins (c :: s) o -> ws_ins s o.
Proof.
  induction o as [|x o' IH]; intros c s Hc H; inversion H; subst.
  - apply wi_ws; auto.
  - apply wi_ws; [assumption|]. apply IH with c; assumption.
Qed.

Lemma ws_insb_complete : forall o s, ws_ins s o -> ws_insb s o = true.
Proof.
  induction o as [|x o' IH]; intros s H; cbn.
  - inversion H; auto.
  - destruct s as [|c s'].
    + inversion H as [| |w s0 o0 Hw H0]; subst. rewrite Hw. cbn. auto.
    + destruct (N.eqb_spec c x) as [->|Hne].
      * inversion H as [|c0 s0 o0 H0|w s0 o0 Hw H0]; subst; auto.
        apply IH. apply ws_ins_skip_ws with x; assumption.
      * inversion H as [|c0 s0 o0 H0|w s0 o0 Hw H0]; subst; [congruence|].
        rewrite Hw. cbn. auto.
Qed.
