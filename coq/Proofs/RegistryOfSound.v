(** Soundness of the boolean [registry_ofb] (the checker the harness evaluates on every interned
    program, Corr/RunC05.v) w.r.t. the relation [RegistryOf] the C05 / C04 theorems are stated on. *)
From Coq Require Import List NArith String Bool Lia Arith.
From V Require Import Base.Util Base.Strings Base.Result Model.Registry Model.Program Model.ProgramTeq
  Proofs.SourceRoundTrip.
Import ListNotations.
Open Scope string_scope. Open Scope list_scope.

Lemma src_eqb_list_eq p q :
  (fix go (p q : list src) := match p, q with
                              | [], [] => true
                              | u :: p', v :: q' => src_eqb u v && go p' q'
                              | _, _ => false
                              end) p q = src_list_eqb p q.
Proof. reflexivity. Qed.

Lemma src_eqb_sound_n : forall n a b, (src_size a <= n)%nat -> src_eqb a b = true -> a = b.
Proof.
  induction n as [|n IH]; intros a b Hs H; [destruct a; cbn [src_size] in Hs; lia|].
  assert (Hl : forall p q, (sizes p <= n)%nat -> src_list_eqb p q = true -> p = q).
  { induction p as [|u p IHp]; intros [|v q] Hp Hq; cbn [src_list_eqb] in Hq; try discriminate; [reflexivity|].
    cbn [sizes] in Hp. apply andb_prop in Hq as [H1 H2]. f_equal; [apply IH; [lia|exact H1]|apply IHp; [lia|exact H2]]. }
  destruct a, b; cbn [src_eqb] in H; try discriminate H; cbn [src_size] in Hs.
  - apply Nat.eqb_eq in H. congruence.
  - rewrite src_eqb_list_eq in H. apply andb_prop in H as [H1 H2]. apply Nat.eqb_eq in H1. subst.
    f_equal. apply Hl; [|exact H2]. change (S (sizes args) <= S n)%nat in Hs. lia.
  - f_equal. apply IH; [lia|exact H].
  - f_equal. apply IH; [lia|exact H].
  - apply andb_prop in H as [H1 H2]. apply N.eqb_eq in H1. subst. f_equal. apply IH; [lia|exact H2].
  - rewrite src_eqb_list_eq in H. f_equal. apply Hl; [|exact H]. change (S (sizes ts) <= S n)%nat in Hs. lia.
  - apply prim_eqb_eq in H. congruence.
  - f_equal. apply IH; [lia|exact H].
  - f_equal. apply IH; [lia|exact H].
  - f_equal. apply IH; [lia|exact H].
  - apply andb_prop in H as [H1 H2]. f_equal; apply IH; (lia || assumption).
  - apply andb_prop in H as [H1 H2]. f_equal; apply IH; (lia || assumption).
  - f_equal. apply IH; [lia|exact H].
  - f_equal. apply IH; [lia|exact H].
  - f_equal. apply IH; [lia|exact H].
  - apply andb_prop in H as [H1 H2]. apply prim_eqb_eq in H1. apply eqb_prop in H2. congruence.
Qed.

Lemma src_eqb_sound a b : src_eqb a b = true -> a = b.
Proof. apply (src_eqb_sound_n (src_size a)). lia. Qed.

Lemma forall2b_Forall2 {A B} (f : A -> B -> bool) : forall la lb,
  forall2b f la lb = true -> Forall2 (fun a b => f a b = true) la lb.
Proof.
  induction la as [|a la IH]; intros [|b lb] H; cbn [forall2b] in H; try discriminate; constructor.
  - apply andb_prop in H as [H _]. exact H.
  - apply IH. apply andb_prop in H as [_ H]. exact H.
Qed.

Lemma Forall2_nth {A B} (R : A -> B -> Prop) la lb k a :
  Forall2 R la lb -> nth_error la k = Some a -> exists b, nth_error lb k = Some b /\ R a b.
Proof.
  intros H. revert k. induction H as [|x y la lb Hxy _ IH]; intros k Hk; [destruct k; discriminate|].
  destruct k as [|k]; cbn [nth_error] in *; [inversion Hk; subst; eauto|auto].
Qed.

Lemma Forall2_nth_r {A B} (R : A -> B -> Prop) la lb k b :
  Forall2 R la lb -> nth_error lb k = Some b -> exists a, nth_error la k = Some a /\ R a b.
Proof.
  intros H. revert k. induction H as [|x y la lb Hxy _ IH]; intros k Hk; [destruct k; discriminate|].
  destruct k as [|k]; cbn [nth_error] in *; [inversion Hk; subst; eauto|auto].
Qed.

Lemma option_eqb_str a b : option_eqb String.eqb a b = true -> a = b.
Proof. destruct a, b; cbn [option_eqb]; intros H; try discriminate; [apply String.eqb_eq in H; congruence|reflexivity]. Qed.
Lemma option_eqb_N a b : option_eqb N.eqb a b = true -> a = b.
Proof. destruct a, b; cbn [option_eqb]; intros H; try discriminate; [apply N.eqb_eq in H; congruence|reflexivity]. Qed.

Lemma tparam_eqb_sound a b : tparam_eqb a b = true -> a = b.
Proof.
  unfold tparam_eqb. intros H. apply andb_prop in H as [H1 H2]. apply String.eqb_eq in H1. apply option_eqb_N in H2.
  destruct a, b; cbn in *; congruence.
Qed.

Lemma forall2b_eq {A} (f : A -> A -> bool) : (forall a b, f a b = true -> a = b) ->
  forall la lb, forall2b f la lb = true -> la = lb.
Proof.
  intros Hf. induction la as [|a la IH]; intros [|b lb] H; cbn [forall2b] in H; try discriminate; [reflexivity|].
  apply andb_prop in H as [H1 H2]. f_equal; auto.
Qed.

Lemma shape_b_sound t path params : shape_b t path params = true -> t_path t = path /\ t_params t = params.
Proof.
  unfold shape_b, path_is_b. intros H. apply andb_prop in H as [H1 H2]. split.
  - apply (list_eqb_sound String.eqb); [intros x y; apply String.eqb_eq|exact H1].
  - apply (forall2b_eq tparam_eqb tparam_eqb_sound). exact H2.
Qed.

Lemma field_eqb0_sound a b : field_nodocs a = true -> f_docs b = [] -> field_eqb0 a b = true -> a = b.
Proof.
  unfold field_eqb0, field_nodocs, ostr_eqb. intros Hd Hb H. apply andb_prop in H as [H H3]. apply andb_prop in H as [H1 H2].
  apply option_eqb_str in H1. apply option_eqb_str in H3. apply N.eqb_eq in H2.
  destruct a as [an at_ atn ad], b as [bn bt btn bd]; cbn in *. destruct ad; [|discriminate]. congruence.
Qed.

Lemma fields_eqb0_sound : forall la lb, forallb field_nodocs la = true -> Forall (fun b => f_docs b = []) lb ->
  forall2b field_eqb0 la lb = true -> la = lb.
Proof.
  induction la as [|a la IH]; intros [|b lb] Hd Hb H; cbn [forall2b] in H; try discriminate; [reflexivity|].
  cbn [forallb] in Hd. apply andb_prop in Hd as [Hd1 Hd2]. inversion Hb as [|? ? Hb1 Hb2]; subst. apply andb_prop in H as [He1 He2].
  f_equal; [apply field_eqb0_sound; assumption|apply IH; assumption].
Qed.

Lemma composite_b_sound t fs :
  def_nodocs (t_def t) = true -> Forall (fun b => f_docs b = []) fs -> composite_b t fs = true -> t_def t = TDComposite fs.
Proof.
  unfold composite_b. intros Hd Hb H. destruct (t_def t); try discriminate. cbn [def_nodocs] in Hd.
  f_equal. apply fields_eqb0_sound; assumption.
Qed.

Lemma variant_b_sound t vs :
  def_nodocs (t_def t) = true -> Forall (fun v => v_docs v = [] /\ Forall (fun b => f_docs b = []) (v_fields v)) vs ->
  variant_b t vs = true -> t_def t = TDVariant vs.
Proof.
  unfold variant_b. intros Hd Hb H. destruct (t_def t) as [|l| | | | | |]; try discriminate. cbn [def_nodocs] in Hd. f_equal.
  revert vs Hb H. induction l as [|a l IH]; intros [|b vs] Hb H; cbn [forall2b] in H; try discriminate; [reflexivity|].
  cbn [forallb] in Hd. apply andb_prop in Hd as [Hd1 Hd2]. apply andb_prop in Hd1 as [Hda Hdf].
  inversion Hb as [|? ? (Hvb & Hfb) Hb']; subst. apply andb_prop in H as [H1 H2].
  f_equal; [|apply IH; assumption].
  unfold variant_eqb0 in H1. apply andb_prop in H1 as [H1 H5]. apply andb_prop in H1 as [H3 H4].
  apply String.eqb_eq in H3. apply N.eqb_eq in H4. apply (fields_eqb0_sound _ _ Hdf Hfb) in H5.
  destruct a as [an af ai ad], b as [bn bf bi bd]; cbn in *. destruct ad; [|discriminate]. congruence.
Qed.

Lemma order_markerb_sound lsb t : order_markerb lsb t = true -> order_marker lsb t.
Proof.
  unfold order_markerb, order_marker. intros H. apply andb_prop in H as [H1 H2].
  apply shape_b_sound in H1 as [Hp Hps]. split; [exact Hp|]. split; [exact Hps|].
  unfold composite_b in H2. destruct (t_def t) as [l| | | | | | |]; try discriminate. destruct l; [reflexivity|discriminate].
Qed.

Section Sound.
  Variable defs : list sdef.
  Variable labels : list (option src).
  Variable r : registry.
  Let L := label_at labels.

  Lemma labb_sound id c : labb labels id c = true -> lab L id c.
  Proof.
    unfold labb, lab, L. destruct (label_at labels id) as [y|]; [|discriminate]. intros H.
    apply src_eqb_sound in H. congruence.
  Qed.

  Lemma field_ofb_sound pnames args sf f : field_ofb defs labels pnames args sf f = true -> field_of defs L pnames args sf f.
  Proof.
    unfold field_ofb, field_of, ostr_eqb. intros H. apply andb_prop in H as [H H3]. apply andb_prop in H as [H1 H2].
    apply option_eqb_str in H1. apply option_eqb_str in H3. apply labb_sound in H2. auto.
  Qed.

  Lemma param_ofb_sound pa tp : param_ofb labels pa tp = true -> param_of L pa tp.
  Proof.
    unfold param_ofb, param_of. intros H. apply andb_prop in H as [H1 H2]. apply String.eqb_eq in H1. split; [exact H1|].
    destruct (tp_ty tp) as [id|].
    - apply andb_prop in H2 as [H2 H3]. apply negb_true_iff in H2. rewrite H2. exists id. split; [reflexivity|apply labb_sound; exact H3].
    - rewrite H2. reflexivity.
  Qed.

  Lemma Forall2_impl' {A B} (R R' : A -> B -> Prop) la lb :
    (forall a b, R a b -> R' a b) -> Forall2 R la lb -> Forall2 R' la lb.
  Proof. intros H. induction 1; constructor; auto. Qed.

  Lemma plain_docs e : Forall (fun b => f_docs b = []) [plain_field e].
  Proof. repeat constructor. Qed.

  Lemma entry_ofb_sound c t :
    match t_path t with [_] => def_nodocs (t_def t) | _ => true end = true ->
    entry_ofb defs labels r c t = true -> entry_of defs L r c t.
  Proof.
    intros Hnd H. destruct c; cbn [entry_ofb] in H; cbn [entry_of]; try discriminate H.
    - (* SApp *)
      destruct (nth_error defs d) as [sd|] eqn:Esd; [|discriminate]. exists sd. split; [reflexivity|].
      apply andb_prop in H as [H H4]. apply andb_prop in H as [H H3]. apply andb_prop in H as [H1 H2].
      apply (list_eqb_sound String.eqb) in H1; [|intros x y; apply String.eqb_eq]. apply Nat.eqb_eq in H2.
      split; [exact H1|]. split; [exact H2|]. split.
      { apply forall2b_Forall2 in H3. eapply Forall2_impl'; [|exact H3]. intros a b. apply param_ofb_sound. }
      cbv zeta in H4 |- *. destruct (sd_body sd) as [fs|vs].
      + destruct (t_def t) as [fl| | | | | | |]; try discriminate. exists fl. split; [reflexivity|].
        apply forall2b_Forall2 in H4. eapply Forall2_impl'; [|exact H4]. intros a b. apply field_ofb_sound.
      + destruct (t_def t) as [|vl| | | | | |]; try discriminate. exists vl. split; [reflexivity|].
        apply forall2b_Forall2 in H4. eapply Forall2_impl'; [|exact H4]. intros v vr Hv. cbv beta in Hv.
        apply andb_prop in Hv as [Hv Hf]. apply andb_prop in Hv as [Hn Hi].
        apply String.eqb_eq in Hn. apply N.eqb_eq in Hi. split; [exact Hn|]. split; [exact Hi|].
        apply forall2b_Forall2 in Hf. eapply Forall2_impl'; [|exact Hf]. intros a b. apply field_ofb_sound.
    - apply andb_prop in H as [H1 H2]. apply shape_b_sound in H1 as [Hp Hps].
      destruct (t_def t) as [| |e| | | | |] eqn:Ed; try discriminate. exists e. split; [repeat split; assumption|apply labb_sound; exact H2].
    - apply andb_prop in H as [H1 H2]. apply shape_b_sound in H1 as [Hp Hps].
      destruct (t_def t) as [| | |m e| | | |] eqn:Ed; try discriminate. apply andb_prop in H2 as [H2 H3]. apply N.eqb_eq in H2. subst m.
      exists e. split; [repeat split; assumption|apply labb_sound; exact H3].
    - apply andb_prop in H as [H1 H2]. apply shape_b_sound in H1 as [Hp Hps].
      destruct (t_def t) as [| | | |es| | |] eqn:Ed; try discriminate. exists es. split; [repeat split; assumption|].
      apply forall2b_Forall2 in H2. eapply Forall2_impl'; [|exact H2]. intros a b. apply labb_sound.
    - apply andb_prop in H as [H1 H2]. apply shape_b_sound in H1 as [Hp Hps].
      destruct (t_def t) as [| | | | |q| |] eqn:Ed; try discriminate. apply prim_eqb_eq in H2. subst q. repeat split; assumption.
    - apply andb_prop in H as [H1 H2]. apply shape_b_sound in H1 as [Hp Hps].
      destruct (t_def t) as [| | | | | |e|] eqn:Ed; try discriminate. exists e. split; [repeat split; assumption|apply labb_sound; exact H2].
    - (* SOpt *)
      destruct (t_params t) as [|tp [|]] eqn:Eps; try discriminate. destruct (tp_ty tp) as [e|] eqn:Ety; [|discriminate].
      apply andb_prop in H as [H H3]. apply andb_prop in H as [H1 H2]. apply shape_b_sound in H2 as [Hp Hps].
      rewrite Hp in Hnd. exists e. split; [apply labb_sound; exact H1|]. split; [exact Hp|]. split; [congruence|].
      apply variant_b_sound; [exact Hnd| |exact H3]. repeat constructor.
    - (* SRes *)
      destruct (map tp_ty (t_params t)) as [|[x|] [|[y|] [|]]] eqn:Eps; try discriminate.
      apply andb_prop in H as [H H4]. apply andb_prop in H as [H H3]. apply andb_prop in H as [H1 H2].
      apply shape_b_sound in H3 as [Hp Hps]. rewrite Hp in Hnd.
      exists x, y. split; [apply labb_sound; exact H1|]. split; [apply labb_sound; exact H2|]. split; [exact Hp|]. split; [exact Hps|].
      apply variant_b_sound; [exact Hnd| |exact H4]. repeat constructor.
    - (* SBTreeMap *)
      destruct (map tp_ty (t_params t)) as [|[ik|] [|[iv|] [|]]] eqn:Eps; try discriminate.
      destruct (t_def t) as [[|f [|]]| | | | | | |] eqn:Ed; try discriminate.
      apply andb_prop in H as [H H5]. apply andb_prop in H as [H H4]. apply andb_prop in H as [H H3]. apply andb_prop in H as [H1 H2].
      apply shape_b_sound in H4 as [Hp Hps]. rewrite Hp in Hnd.
      exists ik, iv, (f_ty f). split; [apply labb_sound; exact H1|]. split; [apply labb_sound; exact H2|].
      split; [apply labb_sound; exact H3|]. split; [exact Hp|]. split; [exact Hps|].
      rewrite <- Ed. apply composite_b_sound; [rewrite Ed; exact Hnd|apply plain_docs|exact H5].
    - (* SBTreeSet *)
      destruct (map tp_ty (t_params t)) as [|[e|] [|]] eqn:Eps; try discriminate.
      destruct (t_def t) as [[|f [|]]| | | | | | |] eqn:Ed; try discriminate.
      apply andb_prop in H as [H H4]. apply andb_prop in H as [H H3]. apply andb_prop in H as [H1 H2].
      apply shape_b_sound in H3 as [Hp Hps]. rewrite Hp in Hnd.
      exists e, (f_ty f). split; [apply labb_sound; exact H1|]. split; [apply labb_sound; exact H2|].
      split; [exact Hp|]. split; [exact Hps|].
      rewrite <- Ed. apply composite_b_sound; [rewrite Ed; exact Hnd|apply plain_docs|exact H4].
    - (* SCow *)
      destruct (map tp_ty (t_params t)) as [|[e|] [|]] eqn:Eps; try discriminate.
      apply andb_prop in H as [H H3]. apply andb_prop in H as [H1 H2].
      apply shape_b_sound in H2 as [Hp Hps]. rewrite Hp in Hnd.
      exists e. split; [apply labb_sound; exact H1|]. split; [exact Hp|]. split; [exact Hps|].
      apply composite_b_sound; [exact Hnd|apply plain_docs|exact H3].
    - (* SRange *)
      destruct (map tp_ty (t_params t)) as [|[e|] [|]] eqn:Eps; try discriminate.
      apply andb_prop in H as [H H3]. apply andb_prop in H as [H1 H2].
      apply shape_b_sound in H2 as [Hp Hps]. rewrite Hp in Hnd.
      exists e. split; [apply labb_sound; exact H1|]. split; [exact Hp|]. split; [exact Hps|].
      apply composite_b_sound; [exact Hnd|repeat constructor|exact H3].
    - (* SBitVec *)
      apply andb_prop in H as [H1 H2]. apply shape_b_sound in H1 as [Hp Hps].
      destruct (t_def t) as [| | | | | | |ist io] eqn:Ed; try discriminate.
      apply andb_prop in H2 as [H2 H3].
      destruct (label_at labels io) eqn:Elio; [discriminate|]. destruct (resolve r io) as [ot|] eqn:Eot; [|discriminate].
      exists ist, io, ot. split; [repeat split; assumption|]. split; [apply labb_sound; exact H2|].
      split; [exact Elio|]. split; [exact Eot|apply order_markerb_sound; exact H3].
  Qed.

  Lemma nodup_labels_inj : forall (l : list (option src)) i j c,
    (fix nodup (l : list (option src)) : bool :=
       match l with
       | [] => true
       | None :: l' => nodup l'
       | Some c :: l' => negb (existsb (fun o => match o with Some c' => src_eqb c c' | None => false end) l') && nodup l'
       end) l = true ->
    nth_error l i = Some (Some c) -> nth_error l j = Some (Some c) -> i = j.
  Proof.
    induction l as [|o l IH]; intros i j c Hn Hi Hj; [destruct i; discriminate|].
    assert (Htail : forall k, nth_error l k = Some (Some c) -> o = Some c -> False).
    { intros k Hk ->. apply andb_prop in Hn as [Hn _]. apply negb_true_iff in Hn.
      assert (E : existsb (fun o => match o with Some c' => src_eqb c c' | None => false end) l = true).
      { apply existsb_exists. exists (Some c). split; [eapply nth_error_In; eauto|apply src_eqb_refl]. }
      congruence. }
    assert (Hn' : (fix nodup (l : list (option src)) : bool :=
       match l with
       | [] => true
       | None :: l' => nodup l'
       | Some c :: l' => negb (existsb (fun o => match o with Some c' => src_eqb c c' | None => false end) l') && nodup l'
       end) l = true).
    { destruct o; [apply andb_prop in Hn as [_ Hn]|]; exact Hn. }
    destruct i as [|i], j as [|j]; cbn [nth_error] in Hi, Hj.
    - reflexivity.
    - exfalso. inversion Hi. eapply Htail; eauto.
    - exfalso. inversion Hj. eapply Htail; eauto.
    - f_equal. eapply IH; eauto.
  Qed.

  (** the part of [RegistryOf] that holds of EVERY registry scale-info derives (the injectivity of
      the [canon] labels does not: Model/Program.v [labels_injectiveb]); [registry_entries_ofb],
      evaluated on every generated case as [corr_registry_of], is sound for it *)
  Definition RegistryEntriesOf : Prop :=
    (forall id c, L id = Some c -> exists t, resolve r id = Some t /\ entry_of defs L r c t) /\
    (forall id t, resolve r id = Some t -> L id = None -> exists lsb, order_marker lsb t).

  Theorem registry_entries_ofb_sound :
    registry_entries_ofb defs labels r = true -> prelude_nodocs_b r = true -> RegistryEntriesOf.
  Proof.
    unfold registry_entries_ofb. intros H Hnd. apply andb_prop in H as [H1 H2].
    apply Nat.eqb_eq in H1. apply forall2b_Forall2 in H2.
    unfold prelude_nodocs_b in Hnd. rewrite forallb_forall in Hnd.
    split.
    - intros id c Hl. unfold L, label_at in Hl.
      destruct (nth_error labels (N.to_nat id)) as [o|] eqn:El; [|discriminate]. subst o.
      destruct (Forall2_nth _ _ _ _ _ H2 El) as ([i t] & Hr & He). cbn [snd] in He.
      exists t. split; [unfold resolve; rewrite Hr; reflexivity|].
      apply entry_ofb_sound; [|exact He]. apply (Hnd (i, t)). eapply nth_error_In; eauto.
    - intros id t Hr Hl. unfold resolve in Hr.
      destruct (nth_error r (N.to_nat id)) as [[i t']|] eqn:Er; [|discriminate]. inversion Hr; subst t'.
      destruct (Forall2_nth_r _ _ _ _ _ H2 Er) as (o & Ho & He). cbn [snd] in He.
      unfold L, label_at in Hl. rewrite Ho in Hl. subst o.
      apply orb_prop in He as [He|He]; [exists true|exists false]; apply order_markerb_sound; exact He.
  Qed.

  (** soundness of the checker evaluated on every generated / compiled program *)
  Theorem registry_ofb_sound :
    registry_ofb defs labels r = true -> prelude_nodocs_b r = true -> RegistryOf defs L r.
  Proof.
    unfold registry_ofb, registry_entries_ofb, labels_injectiveb. intros H Hnd.
    apply andb_prop in H as [H H3]. apply andb_prop in H as [H1 H2].
    apply Nat.eqb_eq in H1. apply forall2b_Forall2 in H2.
    unfold prelude_nodocs_b in Hnd. rewrite forallb_forall in Hnd.
    split; [|split].
    - intros id c Hl. unfold L, label_at in Hl.
      destruct (nth_error labels (N.to_nat id)) as [o|] eqn:El; [|discriminate]. subst o.
      destruct (Forall2_nth _ _ _ _ _ H2 El) as ([i t] & Hr & He). cbn [snd] in He.
      exists t. split; [unfold resolve; rewrite Hr; reflexivity|].
      apply entry_ofb_sound; [|exact He]. apply (Hnd (i, t)). eapply nth_error_In; eauto.
    - intros id t Hr Hl. unfold resolve in Hr.
      destruct (nth_error r (N.to_nat id)) as [[i t']|] eqn:Er; [|discriminate]. inversion Hr; subst t'.
      destruct (Forall2_nth_r _ _ _ _ _ H2 Er) as (o & Ho & He). cbn [snd] in He.
      unfold L, label_at in Hl. rewrite Ho in Hl. subst o.
      apply orb_prop in He as [He|He]; [exists true|exists false]; apply order_markerb_sound; exact He.
    - intros i j c Hi Hj. unfold L, label_at in Hi, Hj.
      destruct (nth_error labels (N.to_nat i)) as [oi|] eqn:Ei; [|discriminate].
      destruct (nth_error labels (N.to_nat j)) as [oj|] eqn:Ej; [|discriminate]. subst oi oj.
      apply N2Nat.inj. eapply nodup_labels_inj; eauto.
  Qed.
End Sound.
