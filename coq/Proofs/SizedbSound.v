(** Soundness of the run-time checker [sizedb] (Checkers/Sem.v, C02 "every cycle between
    generated types passes through heap indirection") with respect to ITS OWN by-value successor
    function: when [sizedb] answers [true] on a parsed module, no walk along [byval_succ] (with the
    exposure table the checker computes) returns to its start.  This is a statement about the
    depth-first search (grey stack, black list, fuel) and the fold over the items, for every
    parsed module; it says nothing about the generator. *)
From Coq Require Import List NArith String Bool Lia.
From V Require Import Base.Util Base.Strings Model.Registry Model.Settings Model.Subst
  Checkers.Parse Checkers.Sem Model.Sized.
Import ListNotations.
Open Scope string_scope. Open Scope list_scope.

Lemma names_eqb_eq a b : names_eqb a b = true <-> a = b.
Proof.
  unfold names_eqb. split.
  - apply list_eqb_sound. intros x y H. apply String.eqb_eq. exact H.
  - intros ->. apply list_eqb_refl. apply String.eqb_refl.
Qed.

Lemma mem_path_In p l : mem_path p l = true <-> In p l.
Proof.
  unfold mem_path. rewrite existsb_exists. split.
  - intros (x & Hx & E). apply names_eqb_eq in E. subst. exact Hx.
  - intros H. exists p. split; [exact H|apply names_eqb_eq; reflexivity].
Qed.

(** ** items found by [lookup_item] are listed by [all_items] *)
Lemma pmod_ind' (P : pmod -> Prop) :
  (forall n u mods items, Forall P mods -> P (PMod n u mods items)) -> forall m, P m.
Proof.
  intros H. fix IH 1. intros [n u mods items]. apply H.
  exact ((fix go (l : list pmod) : Forall P l :=
            match l with
            | [] => Forall_nil P
            | c :: l' => Forall_cons c (IH c) (go l')
            end) mods).
Qed.

Lemma find_item_some is n it : find_item is n = Some it -> In it is /\ pi_name it = n.
Proof.
  induction is as [|i is IH]; cbn [find_item]; intros H; [discriminate|].
  destruct (teq n (pi_name i)) eqn:E.
  - inversion H; subst. split; [left; reflexivity|]. apply String.eqb_eq in E. symmetry. exact E.
  - destruct (IH H) as [A B]. split; [right; exact A|exact B].
Qed.

Lemma lookup_all_items : forall m p it prefix,
  lookup_item m p = Some it -> In (prefix ++ p, it) (all_items m prefix).
Proof.
  induction m as [n u mods items HF] using pmod_ind'. intros p it prefix H.
  destruct p as [|x [|y rest]].
  - cbn in H. discriminate.
  - cbn [lookup_item] in H. apply find_item_some in H as [Hin Hn]. cbn [all_items].
    apply in_or_app. left. apply in_map_iff. exists it. split; [rewrite Hn; reflexivity|exact Hin].
  - cbn [lookup_item] in H. cbn [all_items]. apply in_or_app. right.
    revert H. induction HF as [|c ms Hc HF IH]; intros H; [discriminate|].
    destruct c as [n' u' ms' is']. destruct (teq x n') eqn:E.
    + apply String.eqb_eq in E. subst n'. apply in_or_app. left.
      specialize (Hc (y :: rest) it (prefix ++ [x]) H). rewrite <- app_assoc in Hc. exact Hc.
    + apply in_or_app. right. apply IH. exact H.
Qed.

Section Dfs.
  Variables (root : string) (alloc : list string) (compact : option (list string)) (cut_heap : bool).
  Variables (m mx : pmod).

  Definition bsucc (v : list string) : list (list string) :=
    byval_succ root alloc compact cut_heap m mx v.
  Definition bedge (a b : list string) : Prop := In b (bsucc a).

  Definition acyclic_at (x : list string) : Prop := forall n, ~ walk bedge n x x.
  Definition closed_set (D : list (list string)) : Prop :=
    forall x y, In x D -> bedge x y -> In y D.
  Definition good (D : list (list string)) : Prop :=
    closed_set D /\ forall x, In x D -> acyclic_at x.

  Lemma closed_walk D : closed_set D -> forall n x z, In x D -> walk bedge n x z -> In z D.
  Proof.
    intros Hc. induction n as [|n IH]; intros x z Hx W; cbn [walk] in W.
    - exact (Hc x z Hx W).
    - destruct W as (c & Hxc & W). exact (IH c z (Hc x c Hx Hxc) W).
  Qed.

  Definition go_succs (f : list (list string) -> list string -> option (list (list string))) :=
    fix go (ws : list (list string)) (done : list (list string)) : option (list (list string)) :=
      match ws with
      | [] => Some done
      | w :: ws' => match f done w with None => None | Some d => go ws' d end
      end.

  Lemma sized_dfs_S fuel stack done v :
    sized_dfs root alloc compact cut_heap m (S fuel) mx stack done v =
    if mem_path v done then Some done
    else if mem_path v stack then None
    else match go_succs (fun d w => sized_dfs root alloc compact cut_heap m fuel mx (v :: stack) d w)
                        (bsucc v) done with
         | None => None
         | Some d => Some (v :: d)
         end.
  Proof. reflexivity. Qed.

  Definition post (stack done : list (list string)) (v : list string) (d : list (list string)) : Prop :=
    good d /\ (forall x, In x done -> In x d) /\ In v d /\
    (forall x, In x d -> In x done \/ ~ In x stack).

  Lemma dfs_spec : forall fuel stack done v d,
    sized_dfs root alloc compact cut_heap m fuel mx stack done v = Some d -> good done ->
    post stack done v d.
  Proof.
    induction fuel as [|fuel IH]; intros stack done v d H Hg; [discriminate|].
    rewrite sized_dfs_S in H.
    destruct (mem_path v done) eqn:Md.
    { inversion H; subst. apply mem_path_In in Md. split; [exact Hg|]. split; [auto|].
      split; [exact Md|]. intros x Hx. left. exact Hx. }
    destruct (mem_path v stack) eqn:Ms; [discriminate|].
    match type of H with
    | match ?g with _ => _ end = _ => destruct g as [d'|] eqn:Hgo; [|discriminate]
    end.
    inversion H; subst d. clear H.
    assert (Hloop : forall ws done0 d0,
      go_succs (fun d w => sized_dfs root alloc compact cut_heap m fuel mx (v :: stack) d w) ws done0 = Some d0 ->
      good done0 ->
      good d0 /\ (forall x, In x done0 -> In x d0) /\ (forall w, In w ws -> In w d0) /\
      (forall x, In x d0 -> In x done0 \/ ~ In x (v :: stack))).
    { induction ws as [|w ws IHw]; intros done0 d0 Hgo0 Hg0; cbn [go_succs] in Hgo0.
      - inversion Hgo0; subst. split; [exact Hg0|]. split; [auto|]. split; [intros w []|].
        intros x Hx. left. exact Hx.
      - destruct (sized_dfs root alloc compact cut_heap m fuel mx (v :: stack) done0 w) as [d1|] eqn:Hd;
          [|discriminate].
        destruct (IH _ _ _ _ Hd Hg0) as (Hg1 & Hi1 & Hw1 & Hs1).
        destruct (IHw _ _ Hgo0 Hg1) as (Hg2 & Hi2 & Hw2 & Hs2).
        split; [exact Hg2|]. split; [auto|]. split.
        + intros w' [<-|Hw']; [apply Hi2; exact Hw1|apply Hw2; exact Hw'].
        + intros x Hx. destruct (Hs2 x Hx) as [Hx1|Hn]; [|right; exact Hn]. exact (Hs1 x Hx1). }
    destruct (Hloop _ _ _ Hgo Hg) as (Hg' & Hi' & Hw' & Hs').
    assert (Hv : ~ In v d').
    { intros Hin. destruct (Hs' v Hin) as [Hd|Hn].
      - apply mem_path_In in Hd. congruence.
      - apply Hn. left. reflexivity. }
    destruct Hg' as [Hc Ha].
    split; [split|split; [|split]].
    - intros x y [<-|Hx] Hxy; [right; apply Hw'; exact Hxy|right; exact (Hc x y Hx Hxy)].
    - intros x [<-|Hx]; [|exact (Ha x Hx)].
      intros n W. apply Hv. destruct n as [|n]; cbn [walk] in W.
      + apply Hw'. exact W.
      + destruct W as (c & Hvc & W). apply (closed_walk d' Hc n c v); [apply Hw'; exact Hvc|exact W].
    - intros x Hx. right. apply Hi'. exact Hx.
    - left. reflexivity.
    - intros x [<-|Hx].
      + right. intros Hin. apply mem_path_In in Hin. congruence.
      + destruct (Hs' x Hx) as [Hd|Hn]; [left; exact Hd|right]. intros Hin. apply Hn. right. exact Hin.
  Qed.

  Definition fold_step (fuel : nat) (acc : option (list (list string))) (pit : list string * pitem) :=
    match acc with
    | None => None
    | Some done => sized_dfs root alloc compact cut_heap m fuel mx [] done (fst pit)
    end.

  Lemma fold_none fuel (items : list (list string * pitem)) : fold_left (fold_step fuel) items None = None.
  Proof. induction items as [|a items IH]; [reflexivity|exact IH]. Qed.

  Lemma fold_spec fuel : forall (items : list (list string * pitem)) done D,
    fold_left (fold_step fuel) items (Some done) = Some D -> good done ->
    good D /\ (forall x, In x done -> In x D) /\ (forall pit, In pit items -> In (fst pit) D).
  Proof.
    induction items as [|pit items IH]; intros done D H Hg; cbn [fold_left] in H.
    - inversion H; subst. split; [exact Hg|]. split; [auto|]. intros pit [].
    - cbn [fold_step] in H.
      destruct (sized_dfs root alloc compact cut_heap m fuel mx [] done (fst pit)) as [d1|] eqn:Hd.
      + destruct (dfs_spec _ _ _ _ _ Hd Hg) as (Hg1 & Hi1 & Hv1 & _).
        destruct (IH _ _ H Hg1) as (Hg2 & Hi2 & Hall).
        split; [exact Hg2|]. split; [auto|].
        intros pit' [<-|Hin]; [apply Hi2; exact Hv1|exact (Hall pit' Hin)].
      + rewrite fold_none in H. discriminate.
  Qed.
End Dfs.

(** the checker's verdict [true] means: the by-value graph the checker explores has no cycle *)
Theorem sizedb_sound root alloc compact cut_heap m :
  sizedb root alloc compact cut_heap m = true ->
  forall n p,
    ~ walk (bedge root alloc compact cut_heap m (exposure root alloc compact cut_heap m)) n p p.
Proof.
  intros H n p W. unfold sizedb in H. cbv zeta in H.
  set (mx := exposure root alloc compact cut_heap m) in *.
  set (fuel := S (S (List.length (all_items m [])))) in *.
  change (match fold_left (fold_step root alloc compact cut_heap m mx fuel) (all_items m []) (Some [])
          with Some _ => true | None => false end = true) in H.
  destruct (fold_left (fold_step root alloc compact cut_heap m mx fuel) (all_items m []) (Some []))
    as [D|] eqn:HF; [|discriminate].
  assert (Hg0 : good root alloc compact cut_heap m mx []).
  { split; [intros x y []|intros x []]. }
  destruct (fold_spec _ _ _ _ _ _ _ _ _ _ HF Hg0) as ((Hc & Ha) & _ & Hall).
  assert (Hsucc : exists c, bedge root alloc compact cut_heap m mx p c).
  { destruct n as [|n]; cbn [walk] in W; [exists p; exact W|].
    destruct W as (c & Hpc & _). exists c. exact Hpc. }
  destruct Hsucc as (c & Hpc). unfold bedge, bsucc, byval_succ in Hpc.
  destruct (lookup_item m p) as [it|] eqn:Hl; [|destruct Hpc].
  pose proof (lookup_all_items m p it [] Hl) as Hin. cbn [app] in Hin.
  specialize (Hall (p, it) Hin). cbn [fst] in Hall.
  exact (Ha p Hall n W).
Qed.
