(** C10, the missing-id clause for [generate_types_mod]: in a registry of the class [generable_but]
    (well-formed except for references to ONE missing id [m]) with unique item paths and no
    recursive derives, generation answers [Err (ETypeNotFound m)] exactly when a field of some
    item-eligible entry reaches [m] ([entry_reaches_missing]) and succeeds otherwise.  Every
    failure that can occur is the same one, so neither the order of the entries nor the order of
    the fields matters. *)
From Coq Require Import List NArith String Ascii Bool Lia Arith.
From V Require Import Base.Strings Base.Result Model.Registry Model.Settings Model.Subst
  Model.TypePath Model.Derives Model.Generate Model.Emit Model.WellFormed Model.Renumber Model.MissingId
  Proofs.GenProofs Proofs.ResolveTotal Proofs.GenTotal Proofs.RenumberPerm Proofs.MissingId.
Import ListNotations.
Open Scope string_scope. Open Scope list_scope.

Lemma mapM_outcome {A B} (f : A -> result B) e (P Q : A -> Prop) (R : B -> Prop) l :
  (forall x, In x l -> (f x = Err e /\ P x) \/ (exists y, f x = Ok y /\ R y /\ Q x)) ->
  (mapM f l = Err e /\ exists x, In x l /\ P x) \/
  (exists ys, mapM f l = Ok ys /\ Forall R ys /\ forall x, In x l -> Q x).
Proof.
  induction l as [|a l IH]; intros H; cbn [mapM].
  - right. exists []. split; [reflexivity|]. split; [constructor|intros x []].
  - destruct (H a (or_introl eq_refl)) as [(Ea & Pa)|(y & Ey & Ry & Qa)].
    + left. rewrite Ea. split; [reflexivity|]. exists a. split; [left; reflexivity|exact Pa].
    + rewrite Ey. cbn [bind].
      destruct IH as [(El & x & Hx & Px)|(ys & El & Rys & Hq)]; [intros x Hx; apply H; right; exact Hx| |].
      * left. rewrite El. split; [reflexivity|]. exists x. split; [right; exact Hx|exact Px].
      * right. rewrite El. cbn [bind]. exists (y :: ys). split; [reflexivity|].
        split; [constructor; assumption|]. intros x [<-|Hx]; [exact Qa|apply Hq; exact Hx].
Qed.

Section GenMissing.
  Variable r : registry.
  Variable s : settings.
  Variable rank : N -> nat.
  Variable m : N.
  Hypothesis Hgen : generable_but r s rank m.

  Let Hres : resolvable_but r s rank m := proj1 (proj2 Hgen).

  Definition freach (params : list tparam_ir) (f : field) : Prop :=
    reaches_missing r params (f_ty f) (f_type_name f) m.

  Lemma field_ir_of_outcome params f :
    (in_reg r (f_ty f) \/ f_ty f = m) ->
    (field_ir_of r s params f = Err (ETypeNotFound m) /\ freach params f) \/
    (exists fi, field_ir_of r s params f = Ok fi /\ tokenizable (fi_path fi) = true /\ ~ freach params f).
  Proof.
    intros Hin. unfold field_ir_of, resolve_field_type_path, freach.
    destruct (outcome_fuel0 r s rank m Hres (f_ty f) true params (f_type_name f) Hin)
      as [(E & R)|(t & E & Pt & Hn)].
    - left. rewrite E. split; [reflexivity|exact R].
    - right. rewrite E. cbn [bind]. eexists; split; [reflexivity|]. split; [exact Pt|apply Hn].
  Qed.

  Lemma cck_outcome fs params unused :
    fields_okb fs = true -> (forall f, In f fs -> in_reg r (f_ty f) \/ f_ty f = m) ->
    (create_composite_ir_kind r s fs params unused = Err (ETypeNotFound m) /\
     exists f, In f fs /\ freach params f) \/
    (exists ku, create_composite_ir_kind r s fs params unused = Ok ku /\
                (forall f, In f (ckind_fields (fst ku)) -> tokenizable (fi_path f) = true) /\
                forall f, In f fs -> ~ freach params f).
  Proof.
    intros Hok Hin. destruct fs as [|f0 fs0].
    { right. exists (CNoFields, unused). split; [reflexivity|]. split; [intros f []|intros f []]. }
    unfold create_composite_ir_kind. remember (f0 :: fs0) as fs eqn:Efs. clear Efs.
    unfold fields_okb in Hok. apply andb_prop in Hok as [Hna Hnm]. rewrite Hna. cbn [negb].
    unfold field_names_okb in Hnm. rewrite forallb_forall in Hnm.
    destruct (all_named fs) eqn:En.
    - unfold all_named in En. rewrite forallb_forall in En.
      destruct (mapM_outcome
                  (fun f => let* id := parse_ident (match f_name f with Some n => n | None => "" end) in
                            let* fi := field_ir_of r s params f in Ok (id, fi))
                  (ETypeNotFound m) (freach params) (fun f => ~ freach params f)
                  (fun x : string * field_ir => tokenizable (fi_path (snd x)) = true) fs)
        as [(E & f & Hf & Rf)|(l & E & Rl & Hq)].
      { intros f Hf. specialize (En _ Hf). specialize (Hnm _ Hf).
        destruct (f_name f) as [nm|]; [|discriminate]. unfold parse_ident. rewrite Hnm. cbn [bind].
        destruct (field_ir_of_outcome params f (Hin _ Hf)) as [(Ef & Rf)|(fi & Ef & Pf & Nf)].
        - left. rewrite Ef. split; [reflexivity|exact Rf].
        - right. rewrite Ef. cbn [bind]. eexists; split; [reflexivity|]. split; [exact Pf|exact Nf]. }
      + left. rewrite E. split; [reflexivity|]. exists f. auto.
      + right. rewrite E. cbn [bind]. eexists; split; [reflexivity|]. split; [|exact Hq].
        cbn [fst ckind_fields]. intros f Hf. apply in_map_iff in Hf as (x & <- & Hx).
        rewrite Forall_forall in Rl. apply Rl. exact Hx.
    - destruct (mapM_outcome (field_ir_of r s params) (ETypeNotFound m) (freach params)
                             (fun f => ~ freach params f)
                             (fun x : field_ir => tokenizable (fi_path x) = true) fs)
        as [(E & f & Hf & Rf)|(l & E & Rl & Hq)].
      { intros f Hf. destruct (field_ir_of_outcome params f (Hin _ Hf)) as [(Ef & Rf)|(fi & Ef & Pf & Nf)].
        - left. split; [exact Ef|exact Rf].
        - right. exists fi. split; [exact Ef|]. split; [exact Pf|exact Nf]. }
      + left. rewrite E. split; [reflexivity|]. exists f. auto.
      + right. rewrite E. cbn [bind]. eexists; split; [reflexivity|]. split; [|exact Hq].
        cbn [fst ckind_fields]. intros f Hf. rewrite Forall_forall in Rl. apply Rl. exact Hf.
  Qed.

  Lemma variants_ir_outcome params : forall vs unused,
    (forall v, In v vs -> ident_okb (v_name v) = true /\ fields_okb (v_fields v) = true /\
                          forall f, In f (v_fields v) -> in_reg r (f_ty f) \/ f_ty f = m) ->
    (variants_ir r s params vs unused = Err (ETypeNotFound m) /\
     exists f, In f (flat_map v_fields vs) /\ freach params f) \/
    (exists lu, variants_ir r s params vs unused = Ok lu /\
                (forall f, In f (flat_map (fun v => ckind_fields (ci_kind (snd v))) (fst lu)) ->
                           tokenizable (fi_path f) = true) /\
                forall f, In f (flat_map v_fields vs) -> ~ freach params f).
  Proof.
    induction vs as [|v vs IH]; intros unused Hvs.
    - right. exists ([], unused). split; [reflexivity|]. split; [intros f []|intros f []].
    - rewrite variants_ir_cons. destruct (Hvs v (or_introl eq_refl)) as (Hn & Hf & Hin).
      unfold parse_ident. rewrite Hn. cbn [bind].
      destruct (cck_outcome (v_fields v) params unused Hf Hin) as [(E & f & Hff & Rf)|(ku & E & Pk & Hq)].
      + left. rewrite E. split; [reflexivity|]. exists f. split; [|exact Rf].
        cbn [flat_map]. apply in_or_app; left; exact Hff.
      + rewrite E. cbn [bind].
        destruct (IH (snd ku)) as [(E2 & f & Hff & Rf)|(lu & E2 & Pl & Hq2)].
        { intros v' Hv'. apply Hvs. right; exact Hv'. }
        * left. rewrite E2. split; [reflexivity|]. exists f. split; [|exact Rf].
          cbn [flat_map]. apply in_or_app; right; exact Hff.
        * right. rewrite E2. cbn [bind]. eexists; split; [reflexivity|]. split.
          -- intros f Hfi. cbn [fst flat_map snd ci_kind] in Hfi.
             apply in_app_or in Hfi as [Hfi|Hfi]; [apply Pk; exact Hfi|apply Pl; exact Hfi].
          -- intros f Hff. cbn [flat_map] in Hff. apply in_app_or in Hff as [Hff|Hff]; auto.
  Qed.

  Lemma create_type_ir_outcome id t flat :
    resolve r id = Some t ->
    (create_type_ir r s t flat = Err (ETypeNotFound m) /\ entry_reaches_missing r t m /\
     is_composite_or_variant (t_def t) = true) \/
    (exists o, create_type_ir r s t flat = Ok o /\ ~ entry_reaches_missing r t m /\
               (forall ir, o = Some ir -> is_composite_or_variant (t_def t) = true /\ ir_tokenizable ir)).
  Proof.
    intros Hr. pose proof Hgen as (_ & _ & Hitem & _). pose proof Hres as (_ & Hcl & _).
    pose proof (Hitem _ _ Hr) as Hi. unfold item_entryb in Hi.
    rewrite create_type_ir_eq. unfold entry_reaches_missing, entry_fields.
    destruct (is_composite_or_variant (t_def t)) eqn:Ecv; cbn [negb].
    2:{ right. exists None. split; [reflexivity|]. split; [|intros ir Hir; discriminate Hir].
        intros (f & Hf & _). destruct (t_def t); try discriminate Ecv; destruct Hf. }
    assert (Hp : t_path t <> [] /\ forallb ident_okb (t_path t) = true /\ def_fields_okb (t_def t) = true).
    { destruct (t_def t); try discriminate Ecv; apply andb_prop in Hi as [Hi1 Hi2];
        (destruct (t_path t); [discriminate|]); (split; [discriminate|split; assumption]). }
    destruct Hp as (Hne & Hid & Hdf).
    assert (Hpi : path_ident (t_path t) = Some (last (t_path t) "")).
    { unfold path_ident. destruct (t_path t); [congruence|reflexivity]. }
    rewrite Hpi. unfold parse_ident.
    assert (Hl : ident_okb (last (t_path t) "") = true).
    { rewrite forallb_forall in Hid. apply Hid. apply last_In. exact Hne. }
    rewrite Hl. cbn [bind].
    assert (Hd : exists d, resolve_derives_for_type flat t = Ok d).
    { unfold resolve_derives_for_type. rewrite (syn_key_ok _ Hne Hid). cbn [bind]. eauto. }
    destruct Hd as (d & Hd).
    assert (Hids : forall c, In c (def_ids (t_def t)) -> in_reg r c \/ c = m).
    { intros c Hc. eapply Hcl; [exact Hr|]. apply in_or_app; right; exact Hc. }
    destruct (t_def t) as [fs|vs| | | | | | ] eqn:Ed; try discriminate Ecv.
    - cbn [def_fields_okb] in Hdf.
      destruct (cck_outcome fs (params_from_scale_info (t_params t)) (params_from_scale_info (t_params t)) Hdf)
        as [(E & f & Hf & Rf)|(ku & E & Pk & Hq)].
      { intros f Hf. apply Hids. cbn [def_ids]. apply in_map. exact Hf. }
      + left. rewrite E. split; [reflexivity|]. split; [exists f; auto|reflexivity].
      + right. rewrite E. cbn [bind fst snd]. rewrite Hd. cbn [bind].
        eexists; split; [reflexivity|]. split.
        * intros (f & Hf & Rf). exact (Hq f Hf Rf).
        * intros ir Hir. split; [reflexivity|]. inversion Hir; subst.
          unfold ir_tokenizable. cbn [ti_kind kind_fields ci_kind]. exact Pk.
    - cbn [def_fields_okb] in Hdf. rewrite forallb_forall in Hdf.
      destruct (variants_ir_outcome (params_from_scale_info (t_params t)) vs (params_from_scale_info (t_params t)))
        as [(E & f & Hf & Rf)|(lu & E & Pl & Hq)].
      { intros v Hv. specialize (Hdf _ Hv). apply andb_prop in Hdf as [H1 H2].
        split; [exact H1|]. split; [exact H2|].
        intros f Hf. apply Hids. cbn [def_ids]. apply in_flat_map. exists v. split; [exact Hv|].
        apply in_map. exact Hf. }
      + left. rewrite E. split; [reflexivity|]. split; [exists f; auto|reflexivity].
      + right. rewrite E. cbn [bind fst snd]. rewrite Hd. cbn [bind].
        eexists; split; [reflexivity|]. split.
        * intros (f & Hf & Rf). exact (Hq f Hf Rf).
        * intros ir Hir. split; [reflexivity|]. inversion Hir; subst.
          unfold ir_tokenizable. cbn [ti_kind kind_fields]. exact Pl.
  Qed.

  (** ** the loop *)
  Variable teq : N -> N -> result bool.
  Hypothesis Huniq : unique_item_paths r s.

  Definition bad_in (l : registry) : Prop :=
    exists e, In e l /\ item_entry s (snd e) = true /\ entry_reaches_missing r (snd e) m.

  (** every kept item comes from an item-eligible entry of the already processed prefix *)
  Definition acc_from (pre : registry) (acc : items) : Prop :=
    forall p id ir, In (p, (id, ir)) acc ->
      ir_tokenizable ir /\ exists t, In (id, t) pre /\ t_path t = p /\ item_entry s t = true.

  Lemma items_get_In' : forall (acc : items) p v, items_get acc p = Some v -> In (p, v) acc.
  Proof.
    induction acc as [|[k v'] acc IH]; intros p v H; cbn [items_get] in H; [discriminate|].
    destruct (path_eqb k p) eqn:E.
    - apply path_eqb_eq in E. inversion H; subst. left; reflexivity.
    - right. apply IH. exact H.
  Qed.

  Lemma items_insert_In' : forall (acc : items) p v x,
    In x (items_insert acc p v) -> x = (p, v) \/ In x acc.
  Proof.
    induction acc as [|[k v'] acc IH]; intros p v x H; cbn [items_insert] in H.
    - destruct H as [<-|[]]. left; reflexivity.
    - destruct (path_compare p k).
      + right; exact H.
      + destruct H as [<-|H]; [left; reflexivity|right; exact H].
      + destruct H as [<-|H]; [right; left; reflexivity|].
        destruct (IH _ _ _ H) as [->|H']; [left; reflexivity|right; right; exact H'].
  Qed.

  Lemma gen_loop_outcome flat : forall l pre acc,
    r = pre ++ l -> acc_from pre acc ->
    (gen_loop r s teq flat l acc = Err (ETypeNotFound m) /\ bad_in l) \/
    (exists items, gen_loop r s teq flat l acc = Ok items /\ ~ bad_in l /\
                   forall p id ir, In (p, (id, ir)) items -> ir_tokenizable ir).
  Proof.
    pose proof Hgen as (Hids & _ & Hitem & _).
    induction l as [|[id t] l IH]; intros pre acc Hr Hacc.
    - right. exists acc. split; [reflexivity|]. split; [intros (e & [] & _)|].
      intros p id ir Hi. exact (proj1 (Hacc p id ir Hi)).
    - rewrite gen_loop_cons.
      assert (Hin : In (id, t) r) by (rewrite Hr; apply in_or_app; right; left; reflexivity).
      pose proof (ids_consistent_In _ _ _ Hids Hin) as Hres_id.
      assert (Hr' : r = (pre ++ [(id, t)]) ++ l) by (rewrite <- app_assoc; exact Hr).
      assert (Hacc' : acc_from (pre ++ [(id, t)]) acc).
      { intros p i ir Hi. destruct (Hacc p i ir Hi) as (Htk & t' & Hp & Hq). split; [exact Htk|]. exists t'.
        split; [apply in_or_app; left; exact Hp|exact Hq]. }
      (* an entry that is not turned into an item does not count *)
      assert (Hskip : item_entry s t = false ->
                (gen_loop r s teq flat l acc = Err (ETypeNotFound m) /\ bad_in ((id, t) :: l)) \/
                (exists items, gen_loop r s teq flat l acc = Ok items /\ ~ bad_in ((id, t) :: l) /\
                               forall p id ir, In (p, (id, ir)) items -> ir_tokenizable ir)).
      { intros Hni. destruct (IH _ acc Hr' Hacc') as [(E & e & He & Hb)|(items & E & Hn & Htk)].
        - left. split; [exact E|]. exists e. split; [right; exact He|exact Hb].
        - right. exists items. split; [exact E|]. split; [|exact Htk]. intros (e & [<-|He] & Hie & Hb).
          + cbn [snd] in Hie. congruence.
          + apply Hn. exists e. auto. }
      unfold item_entry in Hskip.
      destruct (subs_contains (s_subs s) (t_path t)) eqn:Esub; [apply Hskip; reflexivity|].
      destruct (namespace (t_path t)) as [|n0 ns] eqn:Ens; [apply Hskip; reflexivity|].
      cbn [negb andb] in Hskip.
      destruct (create_type_ir_outcome id t flat Hres_id) as [(E & Rt & Hcv)|(o & E & Nt & Hcv)].
      + left. rewrite E. split; [reflexivity|]. exists (id, t). split; [left; reflexivity|].
        cbn [snd]. split; [|exact Rt]. unfold item_entry. rewrite Esub, Ens, Hcv. reflexivity.
      + rewrite E. cbn [bind]. destruct o as [ir|].
        2:{ (* no item: recurse; the entry does not reach [m] *)
            destruct (IH _ acc Hr' Hacc') as [(E2 & e & He & Hb)|(items & E2 & Hn & Htk)].
            - left. split; [exact E2|]. exists e. split; [right; exact He|exact Hb].
            - right. exists items. split; [exact E2|]. split; [|exact Htk]. intros (e & [<-|He] & Hie & Hb).
              + cbn [snd] in Hb. contradiction.
              + apply Hn. exists e. auto. }
        destruct (Hcv ir eq_refl) as (Hcv' & Hirtok).
        assert (Hie : item_entry s t = true).
        { unfold item_entry. rewrite Esub, Ens, Hcv'. reflexivity. }
        assert (Hlex : forallb ident_lexb (n0 :: ns) = true).
        { pose proof (Hitem _ _ Hres_id) as Hi. unfold item_entryb in Hi.
          assert (Hid : forallb ident_okb (t_path t) = true).
          { destruct (t_def t); try discriminate Hcv'; apply andb_prop in Hi as [Hi1 _];
              (destruct (t_path t); [discriminate|exact Hi1]). }
          rewrite <- Ens. unfold namespace. rewrite forallb_forall in *. intros x Hx.
          apply ident_okb_lexb. apply Hid.
          assert (Hne : t_path t <> []). { intros E0. rewrite E0 in Ens. discriminate. }
          rewrite (app_removelast_last "" Hne). apply in_or_app. left; exact Hx. }
        rewrite Hlex.
        destruct (items_get acc (t_path t)) as [[other ir']|] eqn:G.
        { (* impossible: the path was taken by an EARLIER item-eligible entry *)
          exfalso. apply items_get_In' in G. destruct (Hacc _ _ _ G) as (_ & t' & Hpre & Hp' & Hie').
          assert (Hin' : In (other, t') r) by (rewrite Hr; apply in_or_app; left; exact Hpre).
          pose proof (Huniq (other, t') (id, t) Hin' Hin Hie' Hie Hp') as Eq. inversion Eq; subst other t'.
          (* the same id at two positions *)
          apply In_nth_error in Hpre as (k & Hk).
          pose proof (proj1 (ids_consistent_iff r) Hids) as Hpos.
          assert (Hk1 : nth_error r k = Some (id, t)).
          { rewrite Hr. rewrite nth_error_app1; [exact Hk|]. apply nth_error_Some. congruence. }
          assert (Hk2 : nth_error r (List.length pre) = Some (id, t)).
          { rewrite Hr. rewrite nth_error_app2 by lia. rewrite Nat.sub_diag. reflexivity. }
          pose proof (Hpos _ _ Hk1) as P1. pose proof (Hpos _ _ Hk2) as P2. cbn [fst] in P1, P2.
          assert (k < List.length pre)%nat by (apply nth_error_Some; congruence). lia. }
        destruct (IH (pre ++ [(id, t)]) (items_insert acc (t_path t) (id, ir)) Hr')
          as [(E2 & e & He & Hb)|(items & E2 & Hn & Htk)].
        { intros p i ir0 Hi. apply items_insert_In' in Hi as [Eq|Hi].
          - inversion Eq; subst. split; [exact Hirtok|]. exists t.
            split; [apply in_or_app; right; left; reflexivity|].
            split; [reflexivity|exact Hie].
          - apply Hacc' in Hi. exact Hi. }
        * left. split; [exact E2|]. exists e. split; [right; exact He|exact Hb].
        * right. exists items. split; [exact E2|]. split; [|exact Htk]. intros (e & [<-|He] & Hie2 & Hb).
          -- cbn [snd] in Hb. contradiction.
          -- apply Hn. exists e. auto.
  Qed.

  Theorem missing_id_generate :
    dr_recursive (s_dreg s) = [] ->
    ((exists e, In e r /\ item_entry s (snd e) = true /\ entry_reaches_missing r (snd e) m) ->
     generate r s teq = Err (ETypeNotFound m)) /\
    (~ (exists e, In e r /\ item_entry s (snd e) = true /\ entry_reaches_missing r (snd e) m) ->
     exists items, generate r s teq = Ok items /\ exists toks, emit_module s items = Ok toks).
  Proof.
    intros Hrec. pose proof Hgen as (Hids & _).
    unfold generate. rewrite sanity_pass_spec.
    pose proof (proj2 (first_bad_none_iff r) Hids) as Hfb. rewrite Hfb. cbn [bind].
    unfold flatten. rewrite Hrec. cbn [bind].
    destruct (gen_loop_outcome (mk_flat (dr_default (s_dreg s)) (flat_of_specific (dr_specific (s_dreg s))))
                               r [] [] eq_refl) as [(E & Hb)|(items & E & Hn & Htk)].
    { intros p id ir []. }
    - split; [intros _; exact E|intros Hc; exfalso; exact (Hc Hb)].
    - split; [intros Hc; exfalso; exact (Hn Hc)|]. intros _. exists items. split; [exact E|].
      apply emit_module_total. exact Htk.
  Qed.
End GenMissing.
