(** [RegistryOf] (labels in [canon] form) against [RegistryOf1] (labels in [ident1] form).
    The old discipline implies the new one FOR THE SAME LABELLING exactly when [canon] has nothing
    to do on the field types of the interned instantiations beyond the one identity step
    ([fields_ident1_canon]: no Box / VecDeque below the top of a closed field type, no Box on top
    of Vec / VecDeque / String / Box).  Otherwise it does not (Proofs/Program1Examples.v
    [ex5_canon_labels_not_RegistryOf1]), and the registries the old discipline describes beyond
    that condition are not registries scale-info produces. *)
From Coq Require Import List NArith String Bool Lia Arith.
From V Require Import Base.Util Base.Strings Base.Result Model.Registry Model.Program Model.ProgramTeq
  Model.ProgramExamples Model.Program1 Proofs.SourceRoundTrip Proofs.RegistryOfSound Proofs.Ident1.
Import ListNotations.
Open Scope string_scope. Open Scope list_scope.

Section Compare.
  Variable defs : list sdef.
  Variable L : N -> option src.
  Variable r : registry.
  Hypothesis HR : RegistryOf defs L r.

  (** on the closed field types of every labelled instantiation [canon] and [ident1] agree *)
  Definition fields_ident1_canon : Prop :=
    forall id d args sd sf,
      L id = Some (SApp d args) -> nth_error defs d = Some sd -> In sf (def_sfields sd) ->
      let c := subst_src args (sf_ty sf) in
      let c' := canon (subst_src args (sf_ty sf)) in
      (if sf_compact_attr sf then SCompactT c' else c') = ident1 (if sf_compact_attr sf then SCompactT c else c).

  (** a label of the old discipline has no Box / VecDeque on top *)
  Lemma label_top_plain id x : L id = Some x -> ident1 x = x /\ peel1 x = x.
  Proof.
    intros H. destruct HR as (H1 & _ & _). destruct (H1 _ _ H) as (t & _ & He).
    destruct x; cbn [entry_of] in He; try (split; reflexivity); destruct He.
  Qed.

  Lemma lab_lab1 e x : lab L e x -> lab1 L e x.
  Proof. unfold lab, lab1. intros H. rewrite (proj1 (label_top_plain _ _ H)). exact H. Qed.

  Lemma Forall2_impl_c {A B} (R R' : A -> B -> Prop) la lb :
    (forall a b, In a la -> R a b -> R' a b) -> Forall2 R la lb -> Forall2 R' la lb.
  Proof.
    intros H HF. induction HF as [|a b la lb Hab _ IH]; constructor.
    - apply H; [left; reflexivity|exact Hab].
    - apply IH. intros a' b' Ha'. apply H. right; exact Ha'.
  Qed.

  Theorem RegistryOf_RegistryOf1 : fields_ident1_canon -> RegistryOf1 defs L r.
  Proof.
    intros Hf. destruct HR as (H1 & H2 & H3). split; [|split; [exact H2|exact H3]].
    intros id c Hl. destruct (label_top_plain _ _ Hl) as (Hn & Hp). split; [exact Hn|].
    destruct (H1 _ _ Hl) as (t & Hr & He). exists t. split; [exact Hr|].
    unfold entry_of1. rewrite Hp.
    destruct c; cbn [entry_of] in He; cbn [content_of1]; try exact He.
    - (* SApp *)
      destruct He as (sd & Hsd & Hpath & Hlen & Hps & Hbody). exists sd.
      split; [exact Hsd|]. split; [exact Hpath|]. split; [exact Hlen|]. split.
      { eapply Forall2_impl_c; [|exact Hps]. intros pa tp _ (Hnm & Hty). split; [exact Hnm|].
        destruct (snd (fst pa)); [exact Hty|]. destruct Hty as (i & Hi & Hlab). exists i. split; [exact Hi|apply lab_lab1; exact Hlab]. }
      cbv zeta in Hbody |- *.
      assert (Hfield : forall sf f, In sf (def_sfields sd) ->
                field_of defs L (map fst (sd_params sd)) args sf f -> field_of1 defs L (map fst (sd_params sd)) args sf f).
      { intros sf f Hin (Hn1 & Hlab & Htn). split; [exact Hn1|]. split; [|exact Htn].
        unfold lab in Hlab. unfold lab1. cbv zeta in Hlab |- *.
        rewrite <- (Hf id d args sd sf Hl Hsd Hin). exact Hlab. }
      unfold def_sfields in Hfield. destruct (sd_body sd) as [fs|vs].
      + destruct Hbody as (fl & Hd & HF). exists fl. split; [exact Hd|].
        eapply Forall2_impl_c; [|exact HF]. intros sf f Hin. apply Hfield. exact Hin.
      + destruct Hbody as (vl & Hd & HF). exists vl. split; [exact Hd|].
        eapply Forall2_impl_c; [|exact HF]. intros v vr Hv (Hvn & Hvi & Hvf). split; [exact Hvn|]. split; [exact Hvi|].
        eapply Forall2_impl_c; [|exact Hvf]. intros sf f Hin. apply Hfield.
        apply in_flat_map. exists v. split; assumption.
    - destruct He as (e & Hb & Hlab). exists e. split; [exact Hb|apply lab_lab1; exact Hlab].
    - destruct He as (e & Hb & Hlab). exists e. split; [exact Hb|apply lab_lab1; exact Hlab].
    - destruct He as (es & Hb & Hlab). exists es. split; [exact Hb|].
      eapply Forall2_impl_c; [|exact Hlab]. intros a b _. apply lab_lab1.
    - destruct He as (e & Hb & Hlab). exists e. split; [exact Hb|apply lab_lab1; exact Hlab].
    - destruct He as (e & Hlab & Hrest). exists e. split; [apply lab_lab1; exact Hlab|exact Hrest].
    - destruct He as (x & y & Hx & Hy & Hrest). exists x, y.
      split; [apply lab_lab1; exact Hx|]. split; [apply lab_lab1; exact Hy|exact Hrest].
    - destruct He as (ik & iv & iseq & Hk & Hv & Hs & Hrest). exists ik, iv, iseq.
      split; [apply lab_lab1; exact Hk|]. split; [apply lab_lab1; exact Hv|]. split; [apply lab_lab1; exact Hs|exact Hrest].
    - destruct He as (e & iseq & Hx & Hs & Hrest). exists e, iseq.
      split; [apply lab_lab1; exact Hx|]. split; [apply lab_lab1; exact Hs|exact Hrest].
    - destruct He as (e & Hlab & Hrest). exists e. split; [apply lab_lab1; exact Hlab|exact Hrest].
    - destruct He as (e & Hlab & Hrest). exists e. split; [apply lab_lab1; exact Hlab|exact Hrest].
  Qed.
End Compare.

(** the condition as a boolean on a list labelling *)
Definition fields_ident1_canonb (defs : list sdef) (labels : list (option src)) : bool :=
  forallb (fun o => match o with
                    | Some (SApp d args) =>
                        match nth_error defs d with
                        | Some sd =>
                            forallb (fun sf : sfield =>
                                       let c := subst_src args (sf_ty sf) in
                                       src_eqb (if sf_compact_attr sf then SCompactT (canon c) else canon c)
                                               (ident1 (if sf_compact_attr sf then SCompactT c else c)))
                                    (def_sfields sd)
                        | None => true
                        end
                    | _ => true
                    end) labels.

Lemma fields_ident1_canonb_sound defs labels :
  fields_ident1_canonb defs labels = true -> fields_ident1_canon defs (label_at labels).
Proof.
  intros H id d args sd sf Hl Hsd Hin. unfold fields_ident1_canonb in H. rewrite forallb_forall in H.
  unfold label_at in Hl. destruct (nth_error labels (N.to_nat id)) as [o|] eqn:En; [|discriminate]. subst o.
  specialize (H _ (nth_error_In _ _ En)). cbv beta iota in H. rewrite Hsd in H.
  rewrite forallb_forall in H. specialize (H sf Hin). cbv zeta in H |- *. apply src_eqb_sound in H. exact H.
Qed.

(** the example programs of Model/ProgramExamples.v satisfy the condition; the first example
    ([y: Box<Vec<T>>], Proofs/SourceRoundTrip.v) does not *)
Lemma fields_ident1_canonb_sound_examples :
  forall defs labels,
    fields_ident1_canonb defs labels = true -> fields_ident1_canon defs (label_at labels) /\
    (fields_ident1_canonb ex6_defs ex6_labels = true /\ fields_ident1_canonb ex7_defs ex7_labels = true /\
     fields_ident1_canonb f19_defs f19_labels = true /\ fields_ident1_canonb f19b_defs f19b_labels = true /\
     fields_ident1_canonb ex5_defs ex5_labels = false).
Proof.
  intros defs labels H. split; [exact (fields_ident1_canonb_sound defs labels H)|].
  repeat split; vm_compute; reflexivity.
Qed.
