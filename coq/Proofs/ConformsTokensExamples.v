(** C14: the token-level reader [conformsb] evaluated on the parse of the model's own emission
    (registry of Proofs/ConformsExamples.v), the scope [reader_scopeb] evaluated on it, near misses,
    the F15 witness, and witnesses that the clauses of the scope cannot be dropped. *)
From Coq Require Import List NArith ZArith Bool String.
From V Require Import Base.Util Base.Result Model.Registry Model.Settings Model.Subst Model.TypePath
  Model.Derives Model.Generate Model.Emit Model.Equal Model.Shape Model.RngWords Model.ExampleRust Model.Conforms
  Checkers.Parse Model.Unparse Corr.RunTG Corr.RunC14
  Proofs.ShapeBool Proofs.ExampleRustProofs Proofs.ConformsProofs Proofs.ConformsExamples Proofs.ConformsTokens.
Import ListNotations.
Open Scope string_scope. Open Scope list_scope. Open Scope N_scope.

Definition cdemo_toks : tokens :=
  match emit_module demo_settings cdemo_items with Ok t => t | _ => [] end.

Example cdemo_emits : emit_module demo_settings cdemo_items = Ok cdemo_toks.
Proof. vm_compute. reflexivity. Qed.

Example cdemo_plain : items_plain demo_settings cdemo_items = true.
Proof. vm_compute. reflexivity. Qed.

Example cdemo_scope : reader_scopeb cdemo demo_settings cdemo_items = true.
Proof. vm_compute. reflexivity. Qed.

Example cdemo_paths_plain : literal_paths_plainb cdemo demo_settings = true.
Proof. vm_compute. reflexivity. Qed.

(** the parse of the emitted tokens is the tree computed from the IR (instance of C02_emit_parses) *)
Example cdemo_parses : parse_module cdemo_toks = Some (pmod_of_items demo_settings cdemo_items).
Proof. vm_compute. reflexivity. Qed.

(** the independent reader on the parse of the model's emission and the model's resolved paths *)
Definition reads (id : N) (ts : tokens) : bool :=
  conformsb cdemo (s_root demo_settings) (parse_module cdemo_toks) (model_paths cdemo demo_settings) id ts.

Example cdemo_all_read :
  forallb (fun id => match example_rust cdemo demo_settings id cwords with
                     | XOk t => reads id t && negb (existsb (String.eqb empty_str_lit) t)
                     | _ => false
                     end) [0; 1; 2; 3; 4; 5; 6; 7; 8; 9; 10; 11; 12; 13] = true.
Proof. vm_compute. reflexivity. Qed.

(** corrupted examples are refused: marker dropped, generics left in the path, a foreign field
    name, a literal of the wrong type, a 1-tuple without its comma, a wrong array length, the
    Compact wrapper dropped, a variant of another enum *)
Example cdemo_corrupted :
  let pH := ["types"; ":"; ":"; "a"; ":"; ":"; "H"] in
  let pE := ["types"; ":"; ":"; "a"; ":"; ":"; "E"] in
  let pC := ["types"; ":"; ":"; "a"; ":"; ":"; "C"] in
  let t1 := ["("; "8u16"; ","; ")"] in
  reads 1 (pG ++ ["("] ++ marker ++ [")"]) = true /\
  reads 1 pG = false /\
  reads 1 (["types"; ":"; ":"; "a"; ":"; ":"; "G"; "<"; "u16"; ">"] ++ ["("] ++ marker ++ [")"]) = false /\
  reads 7 (pH ++ ["{"; "x"; ":"; "-"; "5i8"; ","; "__ignore"; ":"] ++ marker ++ ["}"]) = true /\
  reads 7 (pH ++ ["{"; "x"; ":"; "-"; "5i8"; ","; "}"]) = false /\
  reads 7 (pH ++ ["{"; "y"; ":"; "-"; "5i8"; ","; "__ignore"; ":"] ++ marker ++ ["}"]) = false /\
  reads 7 (pH ++ ["{"; "x"; ":"; "5u8"; ","; "__ignore"; ":"] ++ marker ++ ["}"]) = false /\
  reads 3 t1 = true /\
  reads 3 ["("; "8u16"; ")"] = false /\
  reads 4 (["["] ++ t1 ++ [";"; "3usize"; "]"]) = true /\
  reads 4 (["["] ++ t1 ++ [";"; "2usize"; "]"]) = false /\
  reads 6 (pC ++ ["("; "Compact"; "("; "24064u16"; ")"; ","; ")"]) = true /\
  reads 6 (pC ++ ["("; "24064u16"; ","; ")"]) = false /\
  reads 2 (pE ++ [":"; ":"; "A"]) = true /\
  reads 2 (pE ++ [":"; ":"; "Some"; "("; "8u16"; ","; ")"]) = false.
Proof. vm_compute. repeat split; reflexivity. Qed.

(** the theorem [conforms_tokens_full] applies to this registry: all its hypotheses hold *)
Lemma conforms_tokens_nonvacuous :
  exists (r : registry) (s : settings) (m : items) (toks : tokens) (id : N) (ws : words) (ts : tokens),
    generate r s (types_equal r) = Ok m /\ skeleton_consistent r s /\ reader_scopeb r s m = true /\
    literal_paths_plainb r s = true /\
    items_plain s m = true /\ emit_module s m = Ok toks /\
    example_rust r s id ws = XOk ts /\ In "PhantomData" ts /\
    conformsb r (s_root s) (parse_module toks) (model_paths r s) id ts = true.
Proof.
  exists cdemo, demo_settings, cdemo_items, cdemo_toks, 1, cwords, (pG ++ ["("] ++ marker ++ [")"]).
  assert (Hsk : skeleton_consistent cdemo demo_settings) by (apply skeleton_consistentb_sound; exact cdemo_consistent).
  assert (Hx : example_rust cdemo demo_settings 1 cwords = XOk (pG ++ ["("] ++ marker ++ [")"])) by apply ex_unit_marker.
  split; [exact cdemo_generates|]. split; [exact Hsk|]. split; [exact cdemo_scope|].
  split; [exact cdemo_paths_plain|].
  split; [exact cdemo_plain|]. split; [exact cdemo_emits|]. split; [exact Hx|].
  split; [vm_compute; tauto|].
  exact (conforms_tokens_full cdemo demo_settings _ cdemo_items cdemo_toks cdemo_generates Hsk cdemo_scope
           cdemo_paths_plain cdemo_plain cdemo_emits 1 cwords _ Hx).
Qed.

(** ** the known finding F15 (converse direction on the witness): the model's example of the second
    same-path entry is refused by the token-level reader on the parse of the model's emission, in
    agreement with [~ conforms] ([f15_not_conforms]) *)
Definition f15_toks : tokens :=
  match emit_module demo_settings f15_items with Ok t => t | _ => [] end.

Example f15_refused :
  emit_module demo_settings f15_items = Ok f15_toks /\
  example_rust f15_reg demo_settings 3 [7] = XOk f15_ts /\
  conformsb f15_reg (s_root demo_settings) (parse_module f15_toks) (model_paths f15_reg demo_settings) 3 f15_ts = false /\
  conforms_irb f15_reg demo_settings f15_items 3 f15_ts = false /\
  conformsb f15_reg (s_root demo_settings) (parse_module f15_toks) (model_paths f15_reg demo_settings) 2
            (["types"; ":"; ":"; "a"; ":"; ":"; "G"; "{"; "v"; ":"; "("; "7u8"; ","; ")"; ","; "__ignore"; ":"] ++ marker ++ ["}"]) = true.
Proof. vm_compute. repeat split; reflexivity. Qed.

(** ** the clauses of [reader_scopeb] and the token condition cannot be dropped: in each case the
    relation holds ([conforms_irb] is sound for it) and the token-level reader refuses *)

(** [Cow<Cow<u8>>]: the reader's fuel (number of tokens + 1) is used up by the two [Cow] levels *)
Definition cowcow : registry :=
  [ (0, mk_ty [] [] (TDPrimitive PU8) []);
    (1, mk_ty ["Cow"] [mk_tparam "T" (Some 0)] (TDComposite []) []);
    (2, mk_ty ["Cow"] [mk_tparam "T" (Some 1)] (TDComposite []) []) ].

Example scope_needs_flat_cow :
  generate cowcow demo_settings (types_equal cowcow) = Ok [] /\
  reader_scopeb cowcow demo_settings [] = false /\
  example_rust cowcow demo_settings 2 [5] = XOk ["5u8"] /\
  conforms_irb cowcow demo_settings [] 2 ["5u8"] = true /\
  conformsb cowcow "types" (Some (pmod_of_items demo_settings [])) (model_paths cowcow demo_settings) 2 ["5u8"] = false /\
  conformsb cowcow "types" (Some (pmod_of_items demo_settings [])) (model_paths cowcow demo_settings) 1 ["5u8"] = true.
Proof. vm_compute. repeat split; reflexivity. Qed.

(** the empty string literal: an instance for the relation, refused by the reader's [quoted] *)
Definition strreg : registry := [ (0, mk_ty [] [] (TDPrimitive PStr) []) ].

Example token_condition_needed :
  conforms_irb strreg demo_settings [] 0 [empty_str_lit; "."; "into"; "("; ")"] = true /\
  conformsb strreg "types" (Some (pmod_of_items demo_settings [])) (model_paths strreg demo_settings) 0
            [empty_str_lit; "."; "into"; "("; ")"] = false /\
  conformsb strreg "types" (Some (pmod_of_items demo_settings [])) (model_paths strreg demo_settings) 0
            ["""Foo"""; "."; "into"; "("; ")"] = true.
Proof. vm_compute. repeat split; reflexivity. Qed.

(** a struct field called [__ignore] is taken for the marker slot by the reader *)
Definition ignreg : registry :=
  [ (0, mk_ty [] [] (TDPrimitive PU8) []);
    (1, mk_ty ["a"; "S"] [] (TDComposite [mk_field (Some "__ignore") 0 (Some "u8") []]) []) ].
Definition ign_items : items := match generate ignreg demo_settings (types_equal ignreg) with Ok m => m | _ => [] end.

Example scope_needs_no_ignore_field :
  generate ignreg demo_settings (types_equal ignreg) = Ok ign_items /\
  reader_scopeb ignreg demo_settings ign_items = false /\
  let ts := ["types"; ":"; ":"; "a"; ":"; ":"; "S"; "{"; "__ignore"; ":"; "5u8"; ","; "}"] in
  example_rust ignreg demo_settings 1 [5] = XOk ts /\
  conforms_irb ignreg demo_settings ign_items 1 ts = true /\
  conformsb ignreg "types" (Some (pmod_of_items demo_settings ign_items)) (model_paths ignreg demo_settings) 1 ts = false.
Proof. vm_compute. repeat split; reflexivity. Qed.

(** the three witnesses bundled: a clause of the scope ([Cow] in [Cow]; a field called [__ignore]) resp.
    the token condition fails, the relation holds, and the token-level reader refuses *)
Lemma reader_scope_clauses_needed :
  (exists (r : registry) (s : settings) (m : items) (id : N) (ws : words) (ts : tokens),
     generate r s (types_equal r) = Ok m /\ skeleton_consistentb r s = true /\
     reader_scopeb r s m = false /\ example_rust r s id ws = XOk ts /\ conforms r s m id ts [] /\
     conformsb r (s_root s) (Some (pmod_of_items s m)) (model_paths r s) id ts = false /\
     ts = ["5u8"]) /\
  (exists (r : registry) (s : settings) (m : items) (id : N) (ws : words) (ts : tokens),
     generate r s (types_equal r) = Ok m /\ skeleton_consistentb r s = true /\
     reader_scopeb r s m = false /\ example_rust r s id ws = XOk ts /\ conforms r s m id ts [] /\
     conformsb r (s_root s) (Some (pmod_of_items s m)) (model_paths r s) id ts = false /\
     In "__ignore" ts) /\
  (exists (r : registry) (s : settings) (m : items) (id : N) (ts : tokens),
     generate r s (types_equal r) = Ok m /\ reader_scopeb r s m = true /\
     In empty_str_lit ts /\ conforms r s m id ts [] /\
     conformsb r (s_root s) (Some (pmod_of_items s m)) (model_paths r s) id ts = false).
Proof.
  split; [|split].
  - exists cowcow, demo_settings, [], 2, [5], ["5u8"].
    split; [vm_compute; reflexivity|]. split; [vm_compute; reflexivity|]. split; [vm_compute; reflexivity|].
    split; [vm_compute; reflexivity|]. split; [apply conforms_irb_sound; vm_compute; reflexivity|].
    split; vm_compute; reflexivity.
  - exists ignreg, demo_settings, ign_items, 1, [5],
      ["types"; ":"; ":"; "a"; ":"; ":"; "S"; "{"; "__ignore"; ":"; "5u8"; ","; "}"].
    split; [vm_compute; reflexivity|]. split; [vm_compute; reflexivity|]. split; [vm_compute; reflexivity|].
    split; [vm_compute; reflexivity|]. split; [apply conforms_irb_sound; vm_compute; reflexivity|].
    split; [vm_compute; reflexivity|]. vm_compute. tauto.
  - exists strreg, demo_settings, [], 0, [empty_str_lit; "."; "into"; "("; ")"].
    split; [vm_compute; reflexivity|]. split; [vm_compute; reflexivity|]. split; [left; reflexivity|].
    split; [apply conforms_irb_sound; vm_compute; reflexivity|]. vm_compute. reflexivity.
Qed.

(** F15, converse direction: where [skeleton_consistent] fails the model's example is refused by the
    token-level reader on the parse of the model's emission *)
Lemma f15_refused_by_reader :
  exists (r : registry) (s : settings) (m : items) (toks : tokens) (id : N) (ws : words) (ts : tokens),
    generate r s (types_equal r) = Ok m /\ skeleton_consistentb r s = false /\
    reader_scopeb r s m = true /\ emit_module s m = Ok toks /\
    example_rust r s id ws = XOk ts /\ ~ conforms r s m id ts [] /\
    conformsb r (s_root s) (parse_module toks) (model_paths r s) id ts = false.
Proof.
  exists f15_reg, demo_settings, f15_items, f15_toks, 3, [7], f15_ts.
  split; [exact f15_generates|]. split; [vm_compute; reflexivity|]. split; [vm_compute; reflexivity|].
  split; [apply f15_refused|]. split; [apply f15_refused|]. split; [exact f15_not_conforms|apply f15_refused].
Qed.

(** ** the array REPEAT form [[ e ; n ]] needs a [Copy] element type when n >= 2.
    [(String, u32)] is not [Copy]: the repeat form is refused by the token-level reader, by the
    model-side reader [conforms_irb], and is NOT an instance ([repeat_noncopy_not_instance]); the
    explicit list is accepted.  [(u8, u32)] is [Copy]: both forms are accepted.  A 1-element array
    may be written in either form whatever its element type.  [[u8; 40]] IS [Copy] for the
    specification ([copy_ty] has no length bound) although the implementation's heuristic says no
    (it prints the list form for [[[u8; 40]; 2]]; both forms are accepted). *)
Definition rpt_reg : registry :=
  [ (0, mk_ty [] [] (TDPrimitive PStr) []);
    (1, mk_ty [] [] (TDPrimitive PU32) []);
    (2, mk_ty [] [] (TDTuple [0; 1]) []);     (* (String, u32) *)
    (3, mk_ty [] [] (TDArray 3 2) []);        (* [(String, u32); 3] *)
    (4, mk_ty [] [] (TDPrimitive PU8) []);
    (5, mk_ty [] [] (TDTuple [4; 1]) []);     (* (u8, u32) *)
    (6, mk_ty [] [] (TDArray 3 5) []);        (* [(u8, u32); 3] *)
    (7, mk_ty [] [] (TDArray 1 2) []);        (* [(String, u32); 1] *)
    (8, mk_ty [] [] (TDArray 40 4) []);       (* [u8; 40] *)
    (9, mk_ty [] [] (TDArray 2 8) []) ].      (* [[u8; 40]; 2] *)

Definition rpt_a : tokens := ["("; """a"""; "."; "into"; "("; ")"; ","; "1u32"; ","; ")"].
Definition rpt_b : tokens := ["("; "1u8"; ","; "2u32"; ","; ")"].
Definition rpt_c : tokens := ["["; "1u8"; ";"; "40usize"; "]"].

Definition rpt_reads (id : N) (ts : tokens) : bool := conformsb rpt_reg "types" None [] id ts.
Definition rpt_accepts (id : N) (ts : tokens) : bool := conforms_irb rpt_reg demo_settings [] id ts.

Example rpt_copy :
  map (copy_tyb rpt_reg) [0; 1; 2; 3; 4; 5; 6; 7; 8; 9]
  = [false; true; false; false; true; true; true; false; true; true].
Proof. vm_compute. reflexivity. Qed.

Example rpt_reader :
  rpt_reads 3 (["["] ++ rpt_a ++ [";"; "3usize"; "]"]) = false /\
  rpt_reads 3 (["["] ++ rpt_a ++ [","] ++ rpt_a ++ [","] ++ rpt_a ++ ["]"]) = true /\
  rpt_reads 6 (["["] ++ rpt_b ++ [";"; "3usize"; "]"]) = true /\
  rpt_reads 6 (["["] ++ rpt_b ++ [","] ++ rpt_b ++ [","] ++ rpt_b ++ ["]"]) = true /\
  rpt_reads 7 (["["] ++ rpt_a ++ [";"; "1usize"; "]"]) = true /\
  rpt_reads 7 (["["] ++ rpt_a ++ ["]"]) = true /\
  rpt_reads 9 (["["] ++ rpt_c ++ [";"; "2usize"; "]"]) = true /\
  rpt_reads 9 (["["] ++ rpt_c ++ [","] ++ rpt_c ++ ["]"]) = true.
Proof. vm_compute. repeat split; reflexivity. Qed.

Example rpt_irb :
  rpt_accepts 3 (["["] ++ rpt_a ++ [";"; "3usize"; "]"]) = false /\
  rpt_accepts 3 (["["] ++ rpt_a ++ [","] ++ rpt_a ++ [","] ++ rpt_a ++ ["]"]) = true /\
  rpt_accepts 6 (["["] ++ rpt_b ++ [";"; "3usize"; "]"]) = true /\
  rpt_accepts 6 (["["] ++ rpt_b ++ [","] ++ rpt_b ++ [","] ++ rpt_b ++ ["]"]) = true /\
  rpt_accepts 7 (["["] ++ rpt_a ++ [";"; "1usize"; "]"]) = true /\
  rpt_accepts 9 (["["] ++ rpt_c ++ [";"; "2usize"; "]"]) = true.
Proof. vm_compute. repeat split; reflexivity. Qed.

(** what the model (= the implementation, [corr_example]) prints on this registry: the list for the
    non-copy element, the repeat form for the copy element, the list for [[[u8; 40]; 2]] *)
Example rpt_model :
  generate rpt_reg demo_settings (types_equal rpt_reg) = Ok [] /\
  example_rust rpt_reg demo_settings 3 [1; 2; 3; 4; 5; 6] =
    XOk (let a := ["("; """Foo"""; "."; "into"; "("; ")"; ","; "2u32"; ","; ")"] in
         ["["] ++ a ++ [","] ++ a ++ [","] ++ a ++ ["]"]) /\
  example_rust rpt_reg demo_settings 6 [1; 2; 3; 4; 5; 6] = XOk (["["] ++ rpt_b ++ [";"; "3usize"; "]"]) /\
  example_rust rpt_reg demo_settings 9 [1; 2; 3; 4; 5; 6] = XOk (["["] ++ rpt_c ++ [","] ++ rpt_c ++ ["]"]).
Proof. vm_compute. repeat split; reflexivity. Qed.

Ltac rlook :=
  repeat match goal with
  | L : lookup rpt_reg _ = Some _ |- _ => vm_compute in L; inversion L; subst; clear L
  end;
  repeat match goal with
  | D : t_def _ = _ |- _ => cbn in D; try discriminate D; inversion D; subst; clear D
  end.

(** the seeded bug's output shape is not an instance of [[(String, u32); 3]] *)
Lemma repeat_noncopy_not_instance :
  ~ conforms rpt_reg demo_settings [] 3 (["["] ++ rpt_a ++ [";"; "3usize"; "]"]) [].
Proof.
  intros H.
  destruct (repeat_needs_copy_tokens rpt_reg demo_settings [] 3 _ 3 2 _ [] H eq_refl eq_refl)
    as (ts' & mid & E & Hc & _); [vm_compute; discriminate|reflexivity|].
  unfold rpt_a in E. cbn [app] in E. inversion E; subst ts'; clear E H.
  inversion Hc; subst; rlook.
  match goal with S : conf_tuple _ _ _ _ |- _ => inversion S; subst; clear S end.
  match goal with S : conforms _ _ _ 0 _ _ |- _ => inversion S; subst; clear S; rlook end.
  match goal with S : prim_lit _ _ _ |- _ => cbn in S; destruct S as (x & _ & S); inversion S; subst; clear S end.
  match goal with S : conf_tuple _ _ _ _ |- _ => inversion S; subst; clear S end.
  match goal with S : conforms _ _ _ 1 _ _ |- _ => inversion S; subst; clear S; rlook end.
  match goal with S : prim_lit _ _ _ |- _ => cbn in S; destruct S as (n & _ & S); inversion S; subst; clear S end.
  match goal with S : conf_tuple _ [] _ _ |- _ => inversion S end.
Qed.

Lemma repeat_examples :
  copy_tyb rpt_reg 2 = false /\ copy_tyb rpt_reg 5 = true /\
  rpt_reads 3 (["["] ++ rpt_a ++ [";"; "3usize"; "]"]) = false /\
  rpt_reads 3 (["["] ++ rpt_a ++ [","] ++ rpt_a ++ [","] ++ rpt_a ++ ["]"]) = true /\
  rpt_reads 6 (["["] ++ rpt_b ++ [";"; "3usize"; "]"]) = true /\
  rpt_accepts 3 (["["] ++ rpt_a ++ [";"; "3usize"; "]"]) = false /\
  rpt_accepts 3 (["["] ++ rpt_a ++ [","] ++ rpt_a ++ [","] ++ rpt_a ++ ["]"]) = true /\
  rpt_accepts 6 (["["] ++ rpt_b ++ [";"; "3usize"; "]"]) = true /\
  ~ conforms rpt_reg demo_settings [] 3 (["["] ++ rpt_a ++ [";"; "3usize"; "]"]) [] /\
  conforms rpt_reg demo_settings [] 3 (["["] ++ rpt_a ++ [","] ++ rpt_a ++ [","] ++ rpt_a ++ ["]"]) [] /\
  conforms rpt_reg demo_settings [] 6 (["["] ++ rpt_b ++ [";"; "3usize"; "]"]) [].
Proof.
  split; [vm_compute; reflexivity|]. split; [vm_compute; reflexivity|].
  split; [apply rpt_reader|]. split; [apply rpt_reader|]. split; [apply rpt_reader|].
  split; [apply rpt_irb|]. split; [apply rpt_irb|]. split; [apply rpt_irb|].
  split; [exact repeat_noncopy_not_instance|].
  split; apply conforms_irb_sound; apply rpt_irb.
Qed.
