(** C14: the relation [Model.Conforms.conforms] on the generated IR implies acceptance by the
    INDEPENDENT token-level reader [Corr.RunC14.conformsb] run on the parse of the model's own
    emission ([pmod_of_items s m], which [C02_emit_parses] shows to be [parse_module] of the emitted
    tokens) and on the model's resolved paths.

    The reader is stricter than the relation in a few corners; they are collected in the decidable
    scope [reader_scopeb] (documented below, each clause necessary) and in one condition on the
    tokens (the empty string literal, which the relation allows and the reader's [quoted] does not). *)
From Coq Require Import List NArith ZArith Bool String Ascii Lia Arith DecimalString DecimalN.
From V Require Import Base.Util Base.Strings Base.Result Model.Registry Model.Settings Model.Subst
  Model.TypePath Model.Derives Model.Generate Model.Emit Model.Equal Model.Shape Model.RngWords
  Model.ExampleRust Model.Conforms Checkers.Parse Model.Unparse Model.UnparseClosed
  Corr.RunTG Corr.RunC14
  Proofs.GenProofs Proofs.FidelityBase Proofs.FidelityGen Proofs.SynKey Proofs.ClosedProofs
  Proofs.DedupGroups Proofs.ParseMod Proofs.ParseClosed Proofs.ExampleRustTotal Proofs.ConformsProofs.
Import ListNotations.
Open Scope string_scope. Open Scope list_scope.

(** * A. strings and literal tokens *)
Lemma sapp_assoc (a b c : string) : ((a ++ b) ++ c = a ++ (b ++ c))%string.
Proof. induction a as [|x a IH]; cbn; [reflexivity|rewrite IH; reflexivity]. Qed.

Lemma sapp_nil_r (a : string) : (a ++ "" = a)%string.
Proof. induction a as [|x a IH]; cbn; [reflexivity|rewrite IH; reflexivity]. Qed.

Lemma srev_go_acc : forall a acc, string_rev_go a acc = (string_rev_go a "" ++ acc)%string.
Proof.
  induction a as [|x a IH]; intros acc; cbn [string_rev_go]; [reflexivity|].
  rewrite (IH (String x acc)), (IH (String x "")), sapp_assoc. reflexivity.
Qed.

Lemma srev_cons x a : string_rev (String x a) = (string_rev a ++ String x "")%string.
Proof. unfold string_rev. cbn [string_rev_go]. apply srev_go_acc. Qed.

Lemma srev_app : forall a b, string_rev (a ++ b)%string = (string_rev b ++ string_rev a)%string.
Proof.
  induction a as [|x a IH]; intros b.
  - cbn. rewrite sapp_nil_r. reflexivity.
  - change (String x a ++ b)%string with (String x (a ++ b)%string).
    rewrite !srev_cons, IH, sapp_assoc. reflexivity.
Qed.

Lemma srev_invol : forall a, string_rev (string_rev a) = a.
Proof.
  induction a as [|x a IH]; [reflexivity|]. rewrite srev_cons, srev_app, IH. reflexivity.
Qed.

Lemma strip_go_prefix : forall a b,
  (fix go (a b : string) : option string :=
     match a with
     | EmptyString => Some (string_rev b)
     | String x a' => match b with
                      | String y b' => if Ascii.eqb x y then go a' b' else None
                      | EmptyString => None
                      end
     end) a (a ++ b)%string = Some (string_rev b).
Proof.
  induction a as [|x a IH]; intros b; [reflexivity|].
  cbn [String.append]. rewrite Ascii.eqb_refl. apply IH.
Qed.

Lemma strip_suffix_app d suf : strip_suffix suf (d ++ suf)%string = Some d.
Proof.
  unfold strip_suffix. rewrite srev_app, strip_go_prefix, srev_invol. reflexivity.
Qed.

(** decimal digits *)
Fixpoint uacc (u : Decimal.uint) (acc : N) : N :=
  match u with
  | Decimal.Nil => acc
  | Decimal.D0 l => uacc l (acc * 10 + 0)
  | Decimal.D1 l => uacc l (acc * 10 + 1)
  | Decimal.D2 l => uacc l (acc * 10 + 2)
  | Decimal.D3 l => uacc l (acc * 10 + 3)
  | Decimal.D4 l => uacc l (acc * 10 + 4)
  | Decimal.D5 l => uacc l (acc * 10 + 5)
  | Decimal.D6 l => uacc l (acc * 10 + 6)
  | Decimal.D7 l => uacc l (acc * 10 + 7)
  | Decimal.D8 l => uacc l (acc * 10 + 8)
  | Decimal.D9 l => uacc l (acc * 10 + 9)
  end%N.

Lemma digits_value_uint : forall u acc,
  RunC14.digits_value (NilEmpty.string_of_uint u) acc = Some (uacc u acc).
Proof.
  induction u as [|u IH|u IH|u IH|u IH|u IH|u IH|u IH|u IH|u IH|u IH]; intros acc;
    cbn [NilEmpty.string_of_uint RunC14.digits_value uacc]; [reflexivity|..];
    match goal with |- (if ?c then _ else _) = _ => replace c with true by (vm_compute; reflexivity) end;
    match goal with |- RunC14.digits_value _ (_ + ?k)%N = _ =>
      let k' := eval vm_compute in k in change k with k' end; apply IH.
Qed.

Lemma uacc_pos : forall u p, uacc u (Npos p) = Npos (Pos.of_uint_acc u p).
Proof.
  induction u as [|u IH|u IH|u IH|u IH|u IH|u IH|u IH|u IH|u IH|u IH]; intros p;
    cbn [uacc Pos.of_uint_acc]; [reflexivity|..];
    match goal with |- uacc _ ?a = Npos (Pos.of_uint_acc _ ?q) => replace a with (Npos q) by lia end;
    apply IH.
Qed.

Lemma uacc_zero : forall u, uacc u 0 = N.of_uint u.
Proof.
  induction u as [|u IH|u IH|u IH|u IH|u IH|u IH|u IH|u IH|u IH|u IH];
    cbn [uacc]; [reflexivity|..]; change (0 * 10)%N with 0%N; cbn [N.add].
  - exact IH.
  - apply (uacc_pos u 1).
  - apply (uacc_pos u 2).
  - apply (uacc_pos u 3).
  - apply (uacc_pos u 4).
  - apply (uacc_pos u 5).
  - apply (uacc_pos u 6).
  - apply (uacc_pos u 7).
  - apply (uacc_pos u 8).
  - apply (uacc_pos u 9).
Qed.

Lemma decimal_N_to_string n : decimal (N_to_string n) = Some n.
Proof.
  unfold decimal. pose proof (N_to_string_nonempty n) as Hne.
  destruct (N_to_string n) eqn:E; [congruence|]. rewrite <- E. unfold N_to_string.
  rewrite digits_value_uint, uacc_zero, DecimalN.Unsigned.of_to. reflexivity.
Qed.

Lemma lit_unsigned_ok suffix bits n :
  (n < 2 ^ bits)%N -> lit_unsigned suffix bits (lit_u suffix n) = true.
Proof.
  intros H. unfold lit_unsigned, lit_u. rewrite strip_suffix_app, decimal_N_to_string.
  apply N.ltb_lt. exact H.
Qed.

Lemma lit_magnitude_ok suffix bound n :
  (n <= bound)%N -> lit_magnitude suffix bound (N_to_string n ++ suffix)%string = true.
Proof.
  intros H. unfold lit_magnitude. rewrite strip_suffix_app, decimal_N_to_string.
  apply N.leb_le. exact H.
Qed.

(** a decimal literal with a (non-empty) suffix is none of the one-character tokens *)
Lemma lit_not_char (c : ascii) (d suf : string) x y z :
  suf = String x (String y z) -> (d ++ suf)%string <> String c "".
Proof.
  intros -> H. destruct d as [|a [|b d]]; cbn in H; inversion H.
Qed.

(** * B. matches on literal tokens, when the token is NOT the literal *)
Ltac bits a := destruct a as [[] [] [] [] [] [] [] []].

Lemma match_rbracket {X} (A : toks -> X) (B : X) (t0 : string) (l : toks) :
  t0 <> "]" -> match t0 :: l with "]" :: rest => A rest | _ => B end = B.
Proof.
  intros H. destruct t0 as [|a t0]; [reflexivity|].
  bits a; try reflexivity. destruct t0; [exfalso; apply H; reflexivity|reflexivity].
Qed.

Lemma match_minus {X} (A B : string -> toks -> X) (N0 : X) (t0 : string) (l : toks) :
  t0 <> "-" ->
  match t0 :: l with "-" :: t :: rest => A t rest | t :: rest => B t rest | [] => N0 end = B t0 l.
Proof.
  intros H. destruct t0 as [|a t0]; [reflexivity|].
  bits a; try reflexivity. destruct t0; [exfalso; apply H; reflexivity|reflexivity].
Qed.

Lemma match_lparen_unit {X} (A : X) (B : X) (ts : toks) :
  Unparse.hd_is "(" ts = false ->
  match ts with "(" :: _ => A | _ => B end = B.
Proof.
  intros H. destruct ts as [|t0 l]; [reflexivity|]. destruct t0 as [|a t0]; [reflexivity|].
  bits a; try reflexivity. destruct t0; [discriminate H|reflexivity].
Qed.

Lemma match_comma_drop (t0 : string) (l : toks) :
  t0 <> "," -> match t0 :: l with "," :: r2 => r2 | _ => t0 :: l end = t0 :: l.
Proof.
  intros H. destruct t0 as [|a t0]; [reflexivity|].
  bits a; try reflexivity. destruct t0; [exfalso; apply H; reflexivity|reflexivity].
Qed.

Lemma match_none {X} (A : toks -> X) (B : X) (ts : toks) (tp : list string) :
  Unparse.hd_is "None" ts = false \/ tp <> ["Option"] ->
  match ts, tp with "None" :: rest, ["Option"] => A rest | _, _ => B end = B.
Proof.
  intros H. destruct ts as [|t0 l]; [reflexivity|].
  destruct t0 as [|a t0]; [reflexivity|]. bits a; try reflexivity.
  destruct t0 as [|a t0]; [reflexivity|]. bits a; try reflexivity.
  destruct t0 as [|a t0]; [reflexivity|]. bits a; try reflexivity.
  destruct t0 as [|a t0]; [reflexivity|]. bits a; try reflexivity.
  destruct t0 as [|a t0]; [|reflexivity].
  destruct H as [H|H]; [discriminate H|].
  destruct tp as [|q tp]; [reflexivity|].
  destruct q as [|a q]; [reflexivity|]. bits a; try reflexivity.
  destruct q as [|a q]; [reflexivity|]. bits a; try reflexivity.
  destruct q as [|a q]; [reflexivity|]. bits a; try reflexivity.
  destruct q as [|a q]; [reflexivity|]. bits a; try reflexivity.
  destruct q as [|a q]; [reflexivity|]. bits a; try reflexivity.
  destruct q as [|a q]; [reflexivity|]. bits a; try reflexivity.
  destruct q as [|a q]; [|reflexivity].
  destruct tp; [exfalso; apply H; reflexivity|reflexivity].
Qed.

(** * C. the reader's inputs on the model's side, and its scope *)

(** the model's [resolve_type_path] of every id, by position (what [Corr.RunTG.corr_paths] compares
    with the observed paths) *)
Definition model_paths (r : registry) (s : settings) : list (obs tokens) :=
  map (fun i => obs_of (model_path r s i)) (ids_of r).

(** the empty string literal: allowed by the relation ([all_chars alnum ""]), refused by the
    reader ([quoted] wants a character between the quotes); the model never prints it *)
Definition empty_str_lit : string := quote_with """" "".

(** a [Cow<T>] entry, as both readers recognise it *)
Definition is_cow_ty (t : ty) : bool :=
  match t_def t with
  | TDComposite _ => match cow_inner t with Some _ => true | None => false end
  | _ => false
  end.

Fixpoint nodup_strb (l : list string) : bool :=
  match l with
  | [] => true
  | x :: l' => negb (existsb (String.eqb x) l') && nodup_strb l'
  end.

(** the literal path of an entry WITHOUT a generated item (prelude / substituted): non-empty, does
    not start with the tokens the reader tests first, and does not point under the root module *)
Definition foreign_path_okb (root : string) (p : tokens) : bool :=
  match p with
  | [] => false
  | x :: _ =>
      negb (String.eqb x "]") && negb (String.eqb x "None") &&
      match rel_segments p with
      | Some (y :: _) => negb (String.eqb y root)
      | _ => true
      end
  end.

Definition foreign_okb (r : registry) (s : settings) (id : N) (t : ty) : bool :=
  if item_eligible s t then true
  else match path_omit_generics r s id with
       | Ok p => foreign_path_okb (s_root s) p
       | _ => true
       end.

Definition entry_scopeb (r : registry) (s : settings) (id : N) (t : ty) : bool :=
  match t_def t with
  | TDComposite _ =>
      match cow_inner t with
      | Some inner =>
          (* the reader's fuel is the number of tokens + 1: [Cow] directly inside [Cow] (through
             compact wrappers) consumes fuel without consuming a token *)
          match strip_compact r (S (List.length r)) inner with
          | Some (_, t') => negb (is_cow_ty t')
          | None => true
          end
      | None => foreign_okb r s id t
      end
  | TDVariant vs =>
      (* an enum called [Cow] is resolved to its parameter; [find] takes the first variant of a name;
         [None] is only read for the prelude [Option] *)
      negb (match path_ident (t_path t) with Some n => String.eqb n "Cow" | None => false end) &&
      nodup_strb (map v_name vs) &&
      foreign_okb r s id t &&
      match path_omit_generics r s id with
      | Ok p => if list_eqb String.eqb p ["Option"] then list_eqb String.eqb (t_path t) ["Option"] else true
      | _ => true
      end
  | _ => true
  end.

(** the reader recognises the marker slot of an item by the field name [__ignore] (named) or by a
    type whose last segment is [PhantomData] (positional): no real field may look like that *)
Definition ckind_scopeb (s : settings) (k : ckind) : bool :=
  match k with
  | CNoFields => true
  | CNamed l => forallb (fun nf => negb (String.eqb (fst nf) "__ignore")) l
  | CUnnamed l => forallb (fun f => negb (is_marker_ty (field_pty s f))) l
  end.

Definition item_scopeb (s : settings) (ir : type_ir) : bool :=
  match ti_kind ir with
  | KStruct c => ckind_scopeb s (ci_kind c)
  | KEnum _ _ vs => forallb (fun ic => ckind_scopeb s (ci_kind (snd ic))) vs
  end.

Definition reader_scopeb (r : registry) (s : settings) (m : items) : bool :=
  ident_lexb (s_root s) &&
  forallb (fun e => entry_scopeb r s (fst e) (snd e)) r &&
  forallb (fun e => item_scopeb s (snd (snd e))) m.

(** * D. compact chains: the reader's bound [S (length r)] always suffices *)
Section Chain.
  Variable r : registry.
  Let len := List.length r.

  Lemma strip_S fuel id :
    strip_compact r (S fuel) id =
    match lookup r id with
    | None => None
    | Some t => match t_def t with TDCompact e => strip_compact r fuel e | _ => Some (id, t) end
    end.
  Proof. reflexivity. Qed.

  Lemma lookup_lt id t : lookup r id = Some t -> (N.to_nat id < len)%nat.
  Proof.
    unfold lookup. destruct (id <? N.of_nat (List.length r))%N eqn:E; [|discriminate].
    intros _. apply N.ltb_lt in E. unfold len. lia.
  Qed.

  Lemma bounded_nodup_length : forall (vis : list N),
    NoDup vis -> (forall v, In v vis -> (N.to_nat v < len)%nat) -> (List.length vis <= len)%nat.
  Proof.
    intros vis Hnd Hb.
    assert (Hn : NoDup (map N.to_nat vis)).
    { apply FinFun.Injective_map_NoDup; [|exact Hnd]. intros a b Hab. apply N2Nat.inj. exact Hab. }
    assert (Hi : incl (map N.to_nat vis) (seq 0 len)).
    { intros x Hx. apply in_map_iff in Hx as (v & <- & Hv). apply in_seq. specialize (Hb v Hv). lia. }
    pose proof (NoDup_incl_length Hn Hi) as Hl. rewrite map_length, seq_length in Hl. exact Hl.
  Qed.

  Lemma strip_bound : forall n id y (vis : list N),
    strip_compact r n id = Some y ->
    NoDup vis -> (forall v, In v vis -> (N.to_nat v < len)%nat) ->
    (forall v, In v vis -> forall k, strip_compact r k v = None \/
                                     exists j, (j < k)%nat /\ strip_compact r k v = strip_compact r j id) ->
    strip_compact r (S len - List.length vis) id = Some y.
  Proof.
    induction n as [|n IH]; intros id y vis H Hnd Hb Hreach; [discriminate H|].
    assert (Hnot : ~ In id vis).
    { intros Hin.
      assert (Hnone : forall k, strip_compact r k id = None).
      { induction k as [k IHk] using lt_wf_ind.
        destruct (Hreach id Hin k) as [E|(j & Hj & E)]; [exact E|]. rewrite E. apply IHk. exact Hj. }
      rewrite Hnone in H. discriminate H. }
    pose proof (bounded_nodup_length vis Hnd Hb) as Hlen.
    rewrite strip_S in H. destruct (lookup r id) as [t|] eqn:L; [|discriminate H].
    pose proof (lookup_lt id t L) as Hid.
    assert (Hnd' : NoDup (id :: vis)) by (constructor; assumption).
    assert (Hb' : forall v, In v (id :: vis) -> (N.to_nat v < len)%nat).
    { intros v [<-|Hv]; [exact Hid|apply Hb; exact Hv]. }
    pose proof (bounded_nodup_length (id :: vis) Hnd' Hb') as Hlen'. cbn [List.length] in Hlen'.
    replace (S len - List.length vis)%nat with (S (len - List.length vis)) by lia.
    rewrite strip_S, L.
    destruct (t_def t) as [fs|vs|e0|l0 e0|l0|p0|e|st0 o0] eqn:D; try exact H.
    replace (len - List.length vis)%nat with (S len - List.length (id :: vis))%nat by (cbn [List.length]; lia).
    apply (IH e y (id :: vis) H Hnd' Hb').
    intros v Hv k.
    assert (Hidk : forall k0, strip_compact r k0 id = None \/
                              exists j, (j < k0)%nat /\ strip_compact r k0 id = strip_compact r j e).
    { intros [|k0]; [left; reflexivity|]. right. exists k0. split; [lia|]. rewrite strip_S, L, D. reflexivity. }
    destruct Hv as [<-|Hv]; [apply Hidk|].
    destruct (Hreach v Hv k) as [E|(j & Hj & E)]; [left; exact E|].
    destruct (Hidk j) as [E'|(j' & Hj' & E')]; [left; congruence|].
    right. exists j'. split; [lia|congruence].
  Qed.

  Lemma strip_any_fuel n id y : strip_compact r n id = Some y -> strip_compact r (S len) id = Some y.
  Proof.
    intros H. pose proof (strip_bound n id y [] H (NoDup_nil _)) as K. cbn [List.length] in K.
    rewrite Nat.sub_0_r in K. apply K; intros v [].
  Qed.

  (** a compact entry is read as its inner type *)
  Lemma strip_compact_hop id t e :
    lookup r id = Some t -> t_def t = TDCompact e ->
    forall y, strip_compact r (S len) e = Some y -> strip_compact r (S len) id = Some y.
  Proof.
    intros L D y H. apply (strip_any_fuel (S (S len))). rewrite strip_S, L, D. exact H.
  Qed.

  Lemma strip_compact_self id t :
    lookup r id = Some t -> (forall e, t_def t <> TDCompact e) -> strip_compact r (S len) id = Some (id, t).
  Proof. intros L D. rewrite strip_S, L. destruct (t_def t); try reflexivity. exfalso. eapply D; reflexivity. Qed.
End Chain.

(** * E. an induction principle for the nested relation [conforms] *)
Section MapShapes.
  Variables C C' : N -> tokens -> tokens -> Prop.
  Variable f : forall i t u, C i t u -> C' i t u.

  Definition conf_value_map fld t u (h : conf_value C fld t u) : conf_value C' fld t u.
  Proof.
    destruct h as [ts rest e c|ts rest e c]; [apply cv_plain|apply cv_compact]; try exact e; apply f; exact c.
  Defined.

  Fixpoint conf_named_map ns fs t u (h : conf_named C ns fs t u) {struct h} : conf_named C' ns fs t u.
  Proof.
    destruct h as [rest|n ns f0 fs ts mid rest hv hn]; [apply cn_nil|].
    apply (cn_cons C' n ns f0 fs ts mid rest (conf_value_map _ _ _ hv) (conf_named_map _ _ _ _ hn)).
  Defined.

  Fixpoint conf_unnamed_map k fs t u (h : conf_unnamed C k fs t u) {struct h} : conf_unnamed C' k fs t u.
  Proof.
    destruct h as [rest|k f0 fs ts mid rest hv hn]; [apply cu_nil|].
    apply (cu_cons C' k f0 fs ts mid rest (conf_value_map _ _ _ hv) (conf_unnamed_map _ _ _ _ hn)).
  Defined.

  Definition conf_shape_map L mk fs t u (h : conf_shape C L mk fs t u) : conf_shape C' L mk fs t u.
  Proof.
    destruct h as [rest|rest|ns mk fs ts rest hn|k mk fs ts rest hu].
    - apply cs_unit.
    - apply cs_unit_marker.
    - apply cs_named. exact (conf_named_map _ _ _ _ hn).
    - apply cs_unnamed. exact (conf_unnamed_map _ _ _ _ hu).
  Defined.

  Fixpoint conf_sep_map e n t u (h : conf_sep C e n t u) {struct h} : conf_sep C' e n t u.
  Proof.
    destruct h as [rest|ts rest c|n ts mid rest Hn c hs].
    - apply sep_0.
    - apply sep_1. exact (f _ _ _ c).
    - apply (sep_S C' e n ts mid rest Hn (f _ _ _ c) (conf_sep_map _ _ _ _ hs)).
  Defined.

  Fixpoint conf_tuple_map l t u (h : conf_tuple C l t u) {struct h} : conf_tuple C' l t u.
  Proof.
    destruct h as [rest|i l ts mid rest c ht]; [apply ct_nil|].
    apply (ct_cons C' i l ts mid rest (f _ _ _ c) (conf_tuple_map _ _ _ ht)).
  Defined.
End MapShapes.

Section StrongInd.
  Variables (r : registry) (s : settings) (m : items).
  Variable P : N -> tokens -> tokens -> Prop.
  Let cf := conforms r s m.

  Hypothesis H_prim : forall id t p ts rest,
    lookup r id = Some t -> t_def t = TDPrimitive p -> prim_lit p ts rest -> P id ts rest.
  Hypothesis H_compact : forall id t e ts rest,
    lookup r id = Some t -> t_def t = TDCompact e -> P e ts rest -> P id ts rest.
  Hypothesis H_bits : forall id t st o rest,
    lookup r id = Some t -> t_def t = TDBitSeq st o -> P id (bits_example ++ rest) rest.
  Hypothesis H_seq : forall id t e n ts rest,
    lookup r id = Some t -> t_def t = TDSequence e ->
    conf_sep P e n ts ("]" :: rest) -> P id ("vec" :: "!" :: "[" :: ts) rest.
  Hypothesis H_array_repeat : forall id t len e ts rest,
    lookup r id = Some t -> t_def t = TDArray len e -> repeat_ok r len e ->
    P e ts (";" :: lit_u "usize" len :: "]" :: rest) -> P id ("[" :: ts) rest.
  Hypothesis H_array_list : forall id t len e ts rest,
    lookup r id = Some t -> t_def t = TDArray len e ->
    conf_sep P e len ts ("]" :: rest) -> P id ("[" :: ts) rest.
  Hypothesis H_tuple : forall id t l ts rest,
    lookup r id = Some t -> t_def t = TDTuple l ->
    conf_tuple P l ts (")" :: rest) -> P id ("(" :: ts) rest.
  Hypothesis H_cow : forall id t fs inner ts rest,
    lookup r id = Some t -> t_def t = TDComposite fs -> cow_inner t = Some inner ->
    P inner ts rest -> P id ts rest.
  Hypothesis H_struct_item : forall id t fs p id0 ir L mk ts rest,
    lookup r id = Some t -> t_def t = TDComposite fs -> cow_inner t = None ->
    item_eligible s t = true -> path_omit_generics r s id = Ok p ->
    items_get m (t_path t) = Some (id0, ir) -> sig_of_ir ir = ISStruct L mk ->
    conf_shape P L mk fs ts rest -> P id (p ++ ts) rest.
  Hypothesis H_struct_foreign : forall id t fs p L mk ts rest,
    lookup r id = Some t -> t_def t = TDComposite fs -> cow_inner t = None ->
    item_eligible s t = false -> path_omit_generics r s id = Ok p ->
    layout_of_fields fs = Some L ->
    conf_shape P L mk fs ts rest -> P id (p ++ ts) rest.
  Hypothesis H_variant_item : forall id t vs v p id0 ir sigs L ts rest,
    lookup r id = Some t -> t_def t = TDVariant vs -> In v vs ->
    item_eligible s t = true -> path_omit_generics r s id = Ok p ->
    items_get m (t_path t) = Some (id0, ir) -> sig_of_ir ir = ISEnum sigs ->
    In (v_name v, L) sigs ->
    conf_shape P L false (v_fields v) ts rest ->
    P id (p ++ ":" :: ":" :: v_name v :: ts) rest.
  Hypothesis H_variant_foreign : forall id t vs v p L ts rest,
    lookup r id = Some t -> t_def t = TDVariant vs -> In v vs ->
    item_eligible s t = false -> path_omit_generics r s id = Ok p ->
    layout_of_fields (v_fields v) = Some L ->
    conf_shape P L false (v_fields v) ts rest ->
    P id (p ++ ":" :: ":" :: v_name v :: ts) rest.
  Hypothesis H_none : forall id t vs v rest,
    lookup r id = Some t -> t_def t = TDVariant vs -> In v vs ->
    v_name v = "None" -> v_fields v = [] ->
    path_omit_generics r s id = Ok ["Option"] -> P id ("None" :: rest) rest.

  Fixpoint conforms_sind id ts rest (h : conforms r s m id ts rest) {struct h} : P id ts rest.
  Proof.
    destruct h as [id t p ts rest L D Hp
                  |id t e ts rest L D hc
                  |id t st o rest L D
                  |id t e n ts rest L D hs
                  |id t len e ts rest L D Hrp hc
                  |id t len e ts rest L D hs
                  |id t l ts rest L D ht
                  |id t fs inner ts rest L D Hcow hc
                  |id t fs p id0 ir Ly mk ts rest L D Hcow He Hp Hg Hsig hsh
                  |id t fs p Ly mk ts rest L D Hcow He Hp Hl hsh
                  |id t vs v p id0 ir sigs Ly ts rest L D Hv He Hp Hg Hsig Hin hsh
                  |id t vs v p Ly ts rest L D Hv He Hp Hl hsh
                  |id t vs v rest L D Hv Hn Hf Hp].
    - exact (H_prim id t p ts rest L D Hp).
    - exact (H_compact id t e ts rest L D (conforms_sind _ _ _ hc)).
    - exact (H_bits id t st o rest L D).
    - exact (H_seq id t e n ts rest L D (conf_sep_map _ P conforms_sind _ _ _ _ hs)).
    - exact (H_array_repeat id t len e ts rest L D Hrp (conforms_sind _ _ _ hc)).
    - exact (H_array_list id t len e ts rest L D (conf_sep_map _ P conforms_sind _ _ _ _ hs)).
    - exact (H_tuple id t l ts rest L D (conf_tuple_map _ P conforms_sind _ _ _ ht)).
    - exact (H_cow id t fs inner ts rest L D Hcow (conforms_sind _ _ _ hc)).
    - exact (H_struct_item id t fs p id0 ir Ly mk ts rest L D Hcow He Hp Hg Hsig
               (conf_shape_map _ P conforms_sind _ _ _ _ _ hsh)).
    - exact (H_struct_foreign id t fs p Ly mk ts rest L D Hcow He Hp Hl
               (conf_shape_map _ P conforms_sind _ _ _ _ _ hsh)).
    - exact (H_variant_item id t vs v p id0 ir sigs Ly ts rest L D Hv He Hp Hg Hsig Hin
               (conf_shape_map _ P conforms_sind _ _ _ _ _ hsh)).
    - exact (H_variant_foreign id t vs v p Ly ts rest L D Hv He Hp Hl
               (conf_shape_map _ P conforms_sind _ _ _ _ _ hsh)).
    - exact (H_none id t vs v rest L D Hv Hn Hf Hp).
  Qed.
End StrongInd.

(** * F. paths *)
Lemma before_generics_omit : forall ts d, before_generics d ts = omit_generics_go d ts.
Proof.
  induction ts as [|t ts IH]; intros d; [reflexivity|].
  cbn [before_generics omit_generics_go].
  change (is_open t) with (tok_open t). change (is_close t) with (tok_close t).
  destruct (tok_open t); [rewrite IH; reflexivity|].
  destruct (tok_close t); [rewrite IH; reflexivity|].
  destruct d as [|d]; cbn [Nat.eqb andb].
  - destruct (String.eqb t "<"); [reflexivity|]. cbn [andb]. rewrite IH. reflexivity.
  - rewrite Bool.andb_false_r, IH. reflexivity.
Qed.

Lemma ids_of_nth (r : registry) k :
  (k < List.length r)%nat -> nth_error (ids_of r) k = Some (N.of_nat k).
Proof.
  intros H. unfold ids_of. apply map_nth_error.
  rewrite (nth_error_nth' _ 0%nat) by (rewrite seq_length; exact H).
  rewrite seq_nth by exact H. reflexivity.
Qed.

Lemma observed_model_path r s id t p :
  lookup r id = Some t -> path_omit_generics r s id = Ok p ->
  observed_path (model_paths r s) id = Some p.
Proof.
  intros L Hp. pose proof (lookup_lt r id t L) as Hlt.
  unfold observed_path, model_paths. rewrite map_length. unfold ids_of at 1. rewrite map_length, seq_length.
  replace (id <? N.of_nat (List.length r))%N with true by (symmetry; apply N.ltb_lt; lia).
  rewrite (map_nth_error _ _ _ (ids_of_nth r _ Hlt)), N2Nat.id.
  unfold path_omit_generics in Hp. apply bind_ok in Hp as (tp & Htp & Hp).
  apply bind_ok in Hp as (tk & Htk & Hp). inversion Hp; subst p.
  unfold model_path. rewrite Htp. cbn [bind]. rewrite Htk. cbn [obs_of].
  rewrite before_generics_omit. reflexivity.
Qed.

Lemma expects_app : forall p ts, RunC14.expects p (p ++ ts) = Some ts.
Proof.
  induction p as [|x p IH]; intros ts; [reflexivity|].
  cbn [app RunC14.expects RunC14.expect]. rewrite String.eqb_refl. apply IH.
Qed.

Lemma ident_not_punct x : ident_lexb x = true -> is_punct x = false.
Proof.
  intros H. unfold is_punct.
  assert (K : forall y, ident_lexb y = false -> teq x y = false).
  { intros y Hy. unfold teq. destruct (String.eqb x y) eqn:E; [|reflexivity]. apply String.eqb_eq in E. congruence. }
  cbn [existsb]. rewrite !K by reflexivity. reflexivity.
Qed.

Lemma rel_segments_rel_path : forall l x,
  is_punct x = false -> forallb ident_lexb l = true ->
  rel_segments (rel_path (x :: l)) = Some (x :: l).
Proof.
  induction l as [|y l IH]; intros x Hx Hl.
  - cbn [rel_path flat_map rel_segments]. rewrite Hx. reflexivity.
  - cbn [forallb] in Hl. apply andb_prop in Hl as [Hy Hl].
    change (rel_path (x :: y :: l)) with (x :: ":" :: ":" :: rel_path (y :: l)).
    remember (rel_path (y :: l)) as q eqn:Eq.
    assert (Hq : rel_segments q = Some (y :: l)) by (subst q; apply IH; [apply ident_not_punct; exact Hy|exact Hl]).
    cbn [rel_segments]. rewrite Hx, Hq. reflexivity.
Qed.

(** the literal path of an item-eligible entry: [root :: path], every segment an identifier *)
Lemma eligible_literal_path_lex r s id X p :
  resolve r id = Some X -> item_eligible s X = true -> path_ident (t_path X) <> Some "Cow" ->
  ident_lexb (s_root s) = true ->
  path_omit_generics r s id = Ok p ->
  p = rel_path (s_root s :: t_path X) /\ forallb ident_lexb (t_path X) = true /\
  exists a0 a1 pl, t_path X = a0 :: a1 :: pl.
Proof.
  intros Hres He Hcow Hroot Hp.
  split; [exact (eligible_literal_path r s id X p Hres He Hcow Hroot Hp)|].
  unfold path_omit_generics in Hp.
  apply bind_ok in Hp as (t & Ht & Hp). clear Hp.
  unfold resolve_type_path, fuel0 in Ht. rewrite FidelityBase.resolve_rec_S in Ht.
  unfold find_parent in Ht. cbn [find] in Ht.
  assert (Hrt : resolve_type r id = Ok X) by (unfold resolve_type; rewrite Hres; reflexivity).
  rewrite Hrt in Ht. cbn [bind] in Ht.
  rewrite FidelityBase.cow_case_if, (FidelityBase.is_cow_false _ Hcow) in Ht. cbn [bind] in Ht.
  apply bind_ok in Ht as (params & Hparams & Ht).
  unfold item_eligible in He. apply andb_prop in He as [He Hns]. apply andb_prop in He as [Hcv Hsub].
  apply negb_true_iff in Hsub.
  assert (Ht' : type_path_maybe_with_substitutes s (t_path X) params = Ok t).
  { destruct (t_def X); cbn in Hcv; try discriminate; exact Ht. }
  clear Ht. unfold type_path_maybe_with_substitutes, for_path_with_params in Ht'.
  assert (Hpt : subs_get (s_subs s) (t_path X) = None /\ exists a0 a1 pl, t_path X = a0 :: a1 :: pl).
  { unfold subs_contains in Hsub. destruct (t_path X) as [|a0 [|a1 pl]]; try discriminate Hns.
    split; [|eauto]. destruct (subs_get (s_subs s) (a0 :: a1 :: pl)); [discriminate|reflexivity]. }
  destruct Hpt as (Hsg & a0 & a1 & pl & Hpath). rewrite Hsg in Ht'.
  apply bind_ok in Ht' as (ptoks & Hpk & Ht'). unfold from_type_def_path in Hpk. rewrite Hpath in Hpk.
  destruct (forallb path_seg_okb (a0 :: a1 :: pl)) eqn:Hlex; [|discriminate].
  apply SynKey.forallb_seg_lexb in Hlex. rewrite Hpath. split; [exact Hlex|eauto].
Qed.

(** a struct entry called [Cow] without a typed first parameter has no resolved path *)
Lemma cow_none_not_cow r s id t p :
  resolve r id = Some t -> cow_inner t = None -> path_omit_generics r s id = Ok p ->
  path_ident (t_path t) <> Some "Cow".
Proof.
  intros Hres Hci Hp Hcow.
  unfold path_omit_generics in Hp. apply bind_ok in Hp as (tp & Ht & _).
  unfold resolve_type_path, fuel0 in Ht. rewrite FidelityBase.resolve_rec_S in Ht.
  unfold find_parent in Ht. cbn [find] in Ht.
  assert (Hrt : resolve_type r id = Ok t) by (unfold resolve_type; rewrite Hres; reflexivity).
  rewrite Hrt in Ht. cbn [bind] in Ht.
  assert (Hic : FidelityBase.is_cow (t_path t) = true).
  { unfold FidelityBase.is_cow, cow_case. rewrite Hcow. reflexivity. }
  rewrite FidelityBase.cow_case_if, Hic in Ht.
  unfold cow_inner in Hci. rewrite Hcow in Hci.
  destruct (t_params t) as [|p0 ps]; [discriminate Ht|].
  cbv iota beta in Hci. rewrite Hci in Ht. discriminate Ht.
Qed.

(** * G. the slots the reader derives from a parsed item *)
Definition SF (f : field) : slot := SField (f_name f) f.

(** the shape demanded for layout [L]: the fields in order, then the marker slot iff [mk] *)
Definition item_shape (L : layout) (mk : bool) (fs : list field) : shape :=
  match L with
  | LUnit => if mk then ShTuple [SMarker false] else ShUnit
  | LNamed _ => ShNamed (map SF fs ++ if mk then [SMarker true] else [])
  | LUnnamed _ => ShTuple (map SF fs ++ if mk then [SMarker false] else [])
  end.

Lemma layout_unit_nil fs : layout_of_fields fs = Some LUnit -> fs = [].
Proof.
  destruct fs as [|f fs]; [reflexivity|]. unfold layout_of_fields.
  destruct (all_named (f :: fs)); [discriminate|]. destruct (all_unnamed (f :: fs)); discriminate.
Qed.

Lemma layout_named fs ns :
  layout_of_fields fs = Some (LNamed ns) -> all_named fs = true /\ map field_label fs = ns.
Proof.
  destruct fs as [|f fs]; [discriminate|]. unfold layout_of_fields.
  destruct (all_named (f :: fs)); [intros H; inversion H; split; reflexivity|].
  destruct (all_unnamed (f :: fs)); discriminate.
Qed.

Lemma layout_unnamed fs k :
  layout_of_fields fs = Some (LUnnamed k) -> all_unnamed fs = true /\ List.length fs = k.
Proof.
  destruct fs as [|f fs]; [discriminate|]. unfold layout_of_fields.
  destruct (all_named (f :: fs)); [discriminate|].
  destruct (all_unnamed (f :: fs)); [intros H; inversion H; split; reflexivity|discriminate].
Qed.

Lemma phantom_is_marker unused ph : phantom_pty unused = Some ph -> is_marker_ty ph = true.
Proof.
  destruct unused as [|p [|q l]]; cbn [phantom_pty]; intros H; inversion H; reflexivity.
Qed.

Lemma phantom_some_iff unused :
  phantom_pty unused = None <-> unused = [].
Proof. destruct unused as [|p [|q l]]; cbn [phantom_pty]; split; intros H; try reflexivity; discriminate. Qed.

Lemma slots_named (s : settings) codec pub : forall l fs tail tsl,
  all_named fs = true -> map field_label fs = map fst l ->
  forallb (fun nf : string * field_ir => negb (String.eqb (fst nf) "__ignore")) l = true ->
  slots_of_item true tail [] = Some tsl ->
  slots_of_item true
    (map (fun nf => mk_pfield (compact_attrs codec (snd nf)) pub (Some (fst nf)) (field_pty s (snd nf))) l ++ tail) fs
  = Some (map SF fs ++ tsl).
Proof.
  induction l as [|nf l IH]; intros fs tail tsl Han Hm Hig Ht.
  - destruct fs; [|discriminate Hm]. exact Ht.
  - destruct fs as [|f fs]; [discriminate Hm|].
    cbn [map] in Hm. inversion Hm as [[Hn Hm']].
    cbn [all_named forallb] in Han. apply andb_prop in Han as [Hf Han].
    cbn [forallb] in Hig. apply andb_prop in Hig as [Hi Hig]. apply negb_true_iff in Hi.
    cbn [map app slots_of_item pf_name]. rewrite Hi.
    unfold field_label in Hn. destruct (f_name f) as [n|] eqn:En; [|discriminate Hf]. subst n.
    cbn [option_eqb]. rewrite String.eqb_refl.
    rewrite (IH fs tail tsl Han Hm' Hig Ht). unfold SF at 2. rewrite En. reflexivity.
Qed.

Lemma slots_unnamed (s : settings) codec pub : forall (l : list field_ir) fs tail tsl,
  all_unnamed fs = true -> List.length fs = List.length l ->
  forallb (fun f => negb (is_marker_ty (field_pty s f))) l = true ->
  slots_of_item false tail [] = Some tsl ->
  slots_of_item false
    (map (fun f => mk_pfield (compact_attrs codec f) pub None (field_pty s f)) l ++ tail) fs
  = Some (map SF fs ++ tsl).
Proof.
  induction l as [|fi l IH]; intros fs tail tsl Han Hm Hig Ht.
  - destruct fs; [|discriminate Hm]. exact Ht.
  - destruct fs as [|f fs]; [discriminate Hm|].
    cbn [List.length] in Hm. inversion Hm as [Hm'].
    cbn [all_unnamed forallb] in Han. apply andb_prop in Han as [Hf Han].
    cbn [forallb] in Hig. apply andb_prop in Hig as [Hi Hig]. apply negb_true_iff in Hi.
    cbn [map app slots_of_item pf_name pf_ty]. rewrite Hi.
    destruct (f_name f) as [n|] eqn:En; [discriminate Hf|].
    cbn [option_eqb].
    rewrite (IH fs tail tsl Han Hm' Hig Ht). unfold SF at 2. rewrite En. reflexivity.
Qed.

Lemma shape_of_struct_body (s : settings) k unused codec fs :
  layout_of_fields fs = Some (layout_of_ckind k) -> ckind_scopeb s k = true ->
  shape_of_item (struct_body s k unused codec) fs =
  Some (item_shape (layout_of_ckind k) (match unused with [] => false | _ => true end) fs).
Proof.
  intros HL Hsc. destruct k as [|l|l]; cbn [layout_of_ckind] in HL; cbn [struct_body layout_of_ckind item_shape].
  - apply layout_unit_nil in HL. subst fs.
    destruct (phantom_pty unused) as [ph|] eqn:Eph.
    + pose proof (phantom_is_marker _ _ Eph) as Hm.
      assert (Hu : unused <> []) by (intros E; apply phantom_some_iff in E; congruence).
      destruct unused; [congruence|]. cbn [shape_of_item slots_of_item pf_ty]. rewrite Hm. reflexivity.
    + apply phantom_some_iff in Eph. subst unused. reflexivity.
  - apply layout_named in HL as [Han Hm]. cbn [ckind_scopeb] in Hsc. cbn [shape_of_item].
    unfold marker_fields. destruct (phantom_pty unused) as [ph|] eqn:Eph.
    + assert (Hu : unused <> []) by (intros E; apply phantom_some_iff in E; congruence).
      rewrite (slots_named s codec true l fs _ [SMarker true] Han Hm Hsc) by reflexivity.
      destruct unused; [congruence|reflexivity].
    + apply phantom_some_iff in Eph. subst unused.
      rewrite (slots_named s codec true l fs [] [] Han Hm Hsc) by reflexivity. reflexivity.
  - apply layout_unnamed in HL as [Han Hm]. cbn [ckind_scopeb] in Hsc. cbn [shape_of_item].
    unfold marker_fields. destruct (phantom_pty unused) as [ph|] eqn:Eph.
    + assert (Hu : unused <> []) by (intros E; apply phantom_some_iff in E; congruence).
      pose proof (phantom_is_marker _ _ Eph) as Hmk.
      rewrite (slots_unnamed s codec true l fs _ [SMarker false] Han Hm Hsc)
        by (cbn [slots_of_item pf_ty]; rewrite Hmk; reflexivity).
      destruct unused; [congruence|reflexivity].
    + apply phantom_some_iff in Eph. subst unused.
      rewrite (slots_unnamed s codec true l fs [] [] Han Hm Hsc) by reflexivity. reflexivity.
Qed.

Lemma shape_of_variant_body (s : settings) k codec fs :
  layout_of_fields fs = Some (layout_of_ckind k) -> ckind_scopeb s k = true ->
  shape_of_item (variant_body s k codec) fs = Some (item_shape (layout_of_ckind k) false fs).
Proof.
  intros HL Hsc. destruct k as [|l|l]; cbn [layout_of_ckind] in HL; cbn [variant_body layout_of_ckind item_shape].
  - apply layout_unit_nil in HL. subst fs. reflexivity.
  - apply layout_named in HL as [Han Hm]. cbn [ckind_scopeb] in Hsc. cbn [shape_of_item].
    pose proof (slots_named s codec false l fs [] [] Han Hm Hsc eq_refl) as K.
    rewrite app_nil_r in K. rewrite K. reflexivity.
  - apply layout_unnamed in HL as [Han Hm]. cbn [ckind_scopeb] in Hsc. cbn [shape_of_item].
    pose proof (slots_unnamed s codec false l fs [] [] Han Hm Hsc eq_refl) as K.
    rewrite app_nil_r in K. rewrite K. reflexivity.
Qed.

Lemma shape_of_registry_layout fs L :
  layout_of_fields fs = Some L -> shape_of_registry fs = Some (item_shape L false fs).
Proof.
  intros HL. destruct fs as [|f0 fs0]; [inversion HL; reflexivity|].
  unfold layout_of_fields in HL. unfold shape_of_registry.
  destruct (all_named (f0 :: fs0)) eqn:An.
  - inversion HL; subst L. cbn [item_shape]. rewrite app_nil_r. reflexivity.
  - destruct (all_unnamed (f0 :: fs0)) eqn:Au; [|discriminate HL].
    inversion HL; subst L. cbn [item_shape]. rewrite app_nil_r. f_equal. f_equal.
    apply map_ext_in. intros f Hf. unfold all_unnamed in Au. rewrite forallb_forall in Au.
    specialize (Au f Hf). unfold SF. destruct (f_name f); [discriminate Au|reflexivity].
Qed.

(** ** reading slot lists *)
Section SlotsC.
  Variable C : N -> toks -> option toks.

  Definition read_val (f : field) (r1 : toks) : option toks :=
    if field_explicit_compact f
    then obind (RunC14.expects ["Compact"; "("] r1)
               (fun r2 => obind (C (f_ty f) r2) (fun r3 => RunC14.expect ")" r3))
    else C (f_ty f) r1.

  Fixpoint read_slots_c (sls : list slot) (ts : toks) : option toks :=
    match sls with
    | [] => Some ts
    | sl :: rest =>
        obind (read_slot C sl ts) (fun r1 => obind (RunC14.expect "," r1) (fun r2 => read_slots_c rest r2))
    end.

  Lemma read_slots_app : forall l1 l2 ts, l2 <> [] ->
    read_slots C (l1 ++ l2) ts = obind (read_slots_c l1 ts) (fun r => read_slots C l2 r).
  Proof.
    induction l1 as [|sl l1 IH]; intros l2 ts Hne; [reflexivity|].
    cbn [app read_slots read_slots_c]. destruct (read_slot C sl ts) as [r1|]; [|reflexivity].
    cbn [obind]. destruct (l1 ++ l2) eqn:E.
    - apply app_eq_nil in E as [_ E]. contradiction.
    - rewrite <- E. destruct (RunC14.expect "," r1) as [r2|]; [|reflexivity]. cbn [obind]. apply IH. exact Hne.
  Qed.

  Lemma expect_inv x ts rest : RunC14.expect x ts = Some rest -> ts = x :: rest.
  Proof.
    unfold RunC14.expect. destruct ts as [|t l]; [discriminate|].
    destruct (String.eqb t x) eqn:E; [|discriminate]. apply String.eqb_eq in E. intros H; inversion H; subst; reflexivity.
  Qed.

  Lemma read_slots_of_c : forall l ts fin, read_slots_c l ts = Some fin -> read_slots C l ts = Some fin.
  Proof.
    induction l as [|sl l IH]; intros ts fin H; [exact H|].
    cbn [read_slots_c] in H. cbn [read_slots].
    destruct (read_slot C sl ts) as [r1|]; [|discriminate H]. cbn [obind] in *.
    destruct (RunC14.expect "," r1) as [r2|] eqn:E; [|discriminate H]. cbn [obind] in H.
    apply expect_inv in E. subst r1.
    destruct l as [|sl' l].
    - cbn [read_slots_c] in H. exact H.
    - change (RunC14.expect "," ("," :: r2)) with (Some r2). cbn [obind]. apply IH. exact H.
  Qed.

  Lemma read_slot_named n f ts : read_slot C (SField (Some n) f) (n :: ":" :: ts) = read_val f ts.
  Proof. unfold read_slot, RunC14.expects, RunC14.expect. rewrite String.eqb_refl. reflexivity. Qed.

  Lemma read_slot_unnamed f ts : read_slot C (SField None f) ts = read_val f ts.
  Proof. reflexivity. Qed.
End SlotsC.

(** * H. primitive literals *)
Lemma teq_neq (a b : string) : a <> b -> teq a b = false.
Proof. intros H. unfold teq. apply String.eqb_neq. exact H. Qed.

Lemma hd_is_lit (lit : string) (c : ascii) d suf x y z rest :
  suf = String x (String y z) -> lit = String c "" ->
  Unparse.hd_is lit ((d ++ suf)%string :: rest) = false.
Proof.
  intros Hs Hl. subst lit. cbn [Unparse.hd_is]. apply teq_neq. apply (lit_not_char c d suf x y z Hs).
Qed.

Lemma unsigned_read suffix bits ts rest x y z :
  suffix = String x (String y z) -> unsigned_lit suffix bits ts rest ->
  (match ts with t :: rest0 => if lit_unsigned suffix bits t then Some rest0 else None | [] => None end) = Some rest /\
  Unparse.hd_is "]" ts = false /\ exists e, e <> [] /\ ts = e ++ rest.
Proof.
  intros Hs (n & Hn & ->). rewrite (lit_unsigned_ok suffix bits n Hn). split; [reflexivity|]. split.
  - unfold lit_u. apply (hd_is_lit "]" "]"%char _ suffix x y z); [exact Hs|reflexivity].
  - exists [lit_u suffix n]. split; [discriminate|reflexivity].
Qed.

Lemma signed_read suffix bits ts rest x y z :
  suffix = String x (String y z) -> signed_lit suffix bits ts rest ->
  (match ts with
   | "-" :: t :: rest0 => if lit_magnitude suffix (2 ^ (bits - 1)) t then Some rest0 else None
   | t :: rest0 => if lit_magnitude suffix (2 ^ (bits - 1) - 1) t then Some rest0 else None
   | [] => None
   end) = Some rest /\
  Unparse.hd_is "]" ts = false /\ exists e, e <> [] /\ ts = e ++ rest.
Proof.
  intros Hs (v & [Hlo Hhi] & ->). unfold lit_i. destruct (v <? 0)%Z eqn:Ev.
  - apply Z.ltb_lt in Ev. cbn [app].
    rewrite lit_magnitude_ok by lia. split; [reflexivity|]. split; [reflexivity|].
    eexists [_; _]. split; [discriminate|reflexivity].
  - apply Z.ltb_ge in Ev. cbn [app].
    assert (Hne : (N_to_string (Z.to_N v) ++ suffix)%string <> "-") by (apply (lit_not_char "-"%char _ suffix x y z Hs)).
    pose proof (match_minus (fun t rest0 => if lit_magnitude suffix (2 ^ (bits - 1)) t then Some rest0 else None)
                         (fun t rest0 => if lit_magnitude suffix (2 ^ (bits - 1) - 1) t then Some rest0 else None)
                         None _ rest Hne) as K.
    split; [refine (eq_trans K _); cbv beta; rewrite lit_magnitude_ok by lia; reflexivity|]. split.
    + apply (hd_is_lit "]" "]"%char _ suffix x y z); [exact Hs|reflexivity].
    + eexists [_]. split; [discriminate|reflexivity].
Qed.

Lemma quoted_str x : x <> "" -> quoted """" (quote_with """" x) = true.
Proof.
  intros Hne. unfold quote_with. cbn [String.append quoted]. rewrite Ascii.eqb_refl. cbn [andb].
  rewrite srev_app. change (string_rev """") with """". cbn [String.append].
  destruct x as [|c x]; [congruence|]. rewrite srev_cons.
  destruct (string_rev x ++ String c "")%string as [|c' w] eqn:Ew.
  - destruct (string_rev x); discriminate Ew.
  - apply Ascii.eqb_refl.
Qed.

Definition u8_rd (x : toks) : option toks :=
  match x with t :: rest => if lit_unsigned "u8" 8 t then Some rest else None | [] => None end.

Lemma bytes_read : forall b tail,
  Forall (fun n => (n < 256)%N) b ->
  read_n_sep u8_rd (List.length b) (sep_by [","] (map (fun n => [lit_u "u8" n]) b) ++ tail) = Some tail.
Proof.
  induction b as [|n b IH]; intros tail H; [reflexivity|].
  inversion H as [|n' b' Hn Hb]; subst.
  assert (Hl : lit_unsigned "u8" 8 (lit_u "u8" n) = true) by (apply lit_unsigned_ok; exact Hn).
  destruct b as [|n2 b].
  - cbn [map sep_by List.length read_n_sep app u8_rd]. rewrite Hl. reflexivity.
  - change (List.length (n :: n2 :: b)) with (S (S (List.length b))).
    change (sep_by [","] (map (fun n => [lit_u "u8" n]) (n :: n2 :: b)))
      with ([lit_u "u8" n] ++ [","] ++ sep_by [","] (map (fun n => [lit_u "u8" n]) (n2 :: b))).
    cbn [app read_n_sep]. unfold u8_rd at 1. rewrite Hl. cbn [obind RunC14.expect].
    change (String.eqb "," ",") with true. cbv iota. cbn [obind].
    apply (IH tail Hb).
Qed.

Lemma prim_read p ts rest :
  prim_lit p ts rest ->
  (exists e, e <> [] /\ ts = e ++ rest) /\
  (~ In empty_str_lit ts -> RunC14.read_prim p ts = Some rest /\ Unparse.hd_is "]" ts = false).
Proof.
  intros H. destruct p; cbn [prim_lit] in H.
  - destruct H as [->| ->]; (split; [eexists [_]; split; [discriminate|reflexivity]|]); intros _; split; reflexivity.
  - destruct H as (c & Hc & ->). split; [eexists [_]; split; [discriminate|reflexivity]|]. intros _; split; reflexivity.
  - destruct H as (x & Hx & ->). split; [eexists [_;_;_;_;_]; split; [discriminate|reflexivity]|].
    intros Hn. assert (Hne : x <> "") by (intros ->; apply Hn; left; reflexivity).
    split; [|reflexivity].
    unfold RunC14.read_prim. cbv zeta. rewrite (quoted_str x Hne). reflexivity.
  - destruct (unsigned_read "u8" 8 ts rest _ _ _ eq_refl H) as (K1 & K2 & K3). split; [exact K3|]. intros _. split; [exact K1|exact K2].
  - destruct (unsigned_read "u16" 16 ts rest _ _ _ eq_refl H) as (K1 & K2 & K3). split; [exact K3|]. intros _. split; [exact K1|exact K2].
  - destruct (unsigned_read "u32" 32 ts rest _ _ _ eq_refl H) as (K1 & K2 & K3). split; [exact K3|]. intros _. split; [exact K1|exact K2].
  - destruct (unsigned_read "u64" 64 ts rest _ _ _ eq_refl H) as (K1 & K2 & K3). split; [exact K3|]. intros _. split; [exact K1|exact K2].
  - destruct (unsigned_read "u128" 128 ts rest _ _ _ eq_refl H) as (K1 & K2 & K3). split; [exact K3|]. intros _. split; [exact K1|exact K2].
  - destruct H as (b & Hl & Hb & ->). unfold u256_tokens. split.
    + exists ("[" :: sep_by [","] (map (fun n => [lit_u "u8" n]) b) ++ ["]"]). split; [discriminate|reflexivity].
    + intros _. split; [|reflexivity]. unfold RunC14.read_prim. cbv zeta.
      rewrite <- !app_assoc. cbn [app RunC14.expect]. change (String.eqb "[" "[") with true. cbv iota. cbn [obind].
      rewrite <- Hl. fold u8_rd. rewrite (bytes_read b _ Hb). reflexivity.
  - destruct (signed_read "i8" 8 ts rest _ _ _ eq_refl H) as (K1 & K2 & K3). split; [exact K3|]. intros _. split; [exact K1|exact K2].
  - destruct (signed_read "i16" 16 ts rest _ _ _ eq_refl H) as (K1 & K2 & K3). split; [exact K3|]. intros _. split; [exact K1|exact K2].
  - destruct (signed_read "i32" 32 ts rest _ _ _ eq_refl H) as (K1 & K2 & K3). split; [exact K3|]. intros _. split; [exact K1|exact K2].
  - destruct (signed_read "i64" 64 ts rest _ _ _ eq_refl H) as (K1 & K2 & K3). split; [exact K3|]. intros _. split; [exact K1|exact K2].
  - destruct (signed_read "i128" 128 ts rest _ _ _ eq_refl H) as (K1 & K2 & K3). split; [exact K3|]. intros _. split; [exact K1|exact K2].
  - destruct H as (b & Hl & Hb & ->). unfold u256_tokens. split.
    + exists ("[" :: sep_by [","] (map (fun n => [lit_u "u8" n]) b) ++ ["]"]). split; [discriminate|reflexivity].
    + intros _. split; [|reflexivity]. unfold RunC14.read_prim. cbv zeta.
      rewrite <- !app_assoc. cbn [app RunC14.expect]. change (String.eqb "[" "[") with true. cbv iota. cbn [obind].
      rewrite <- Hl. fold u8_rd. rewrite (bytes_read b _ Hb). reflexivity.
Qed.

(** * I. generic list facts *)
Lemma find_key_nodup {A} (key : A -> string) : forall (l : list A) x,
  NoDup (map key l) -> In x l -> find (fun y => String.eqb (key y) (key x)) l = Some x.
Proof.
  induction l as [|a l IH]; intros x Hnd Hin; [destruct Hin|].
  cbn [map] in Hnd. inversion Hnd as [|k ks Hnot Hnd']; subst.
  cbn [find]. destruct (String.eqb (key a) (key x)) eqn:E.
  - apply String.eqb_eq in E. destruct Hin as [->|Hin]; [reflexivity|].
    exfalso. apply Hnot. rewrite E. apply in_map. exact Hin.
  - destruct Hin as [->|Hin]; [rewrite String.eqb_refl in E; discriminate|]. apply IH; assumption.
Qed.

Lemma find_map_app {A B} (p : B -> bool) (g : A -> B) : forall (l : list A) tail x,
  find (fun y => p (g y)) l = Some x -> find p (map g l ++ tail) = Some (g x).
Proof.
  induction l as [|a l IH]; intros tail x H; [discriminate H|].
  cbn [find map app] in *. destruct (p (g a)); [inversion H; reflexivity|apply IH; exact H].
Qed.

Lemma nodup_strb_sound : forall l, nodup_strb l = true -> NoDup l.
Proof.
  induction l as [|x l IH]; intros H; [constructor|].
  cbn [nodup_strb] in H. apply andb_prop in H as [H1 H2]. apply negb_true_iff in H1.
  constructor; [|apply IH; exact H2].
  intros Hin. assert (K : existsb (String.eqb x) l = true).
  { apply existsb_exists. exists x. split; [exact Hin|apply String.eqb_refl]. }
  congruence.
Qed.

Lemma nodup_fst_functional {A B} (l : list (A * B)) a b b' :
  NoDup (map fst l) -> In (a, b) l -> In (a, b') l -> b = b'.
Proof.
  induction l as [|[a0 b0] l IH]; intros Hnd H1 H2; [destruct H1|].
  cbn [map fst] in Hnd. inversion Hnd as [|k ks Hnot Hnd']; subst.
  destruct H1 as [E1|H1], H2 as [E2|H2].
  - congruence.
  - inversion E1; subst. exfalso. apply Hnot. change a with (fst (a, b')). apply in_map. exact H2.
  - inversion E2; subst. exfalso. apply Hnot. change a with (fst (a, b)). apply in_map. exact H1.
  - apply IH; assumption.
Qed.

Lemma suffix_len {A} (ts e rest : list A) : ts = e ++ rest -> List.length ts = (List.length e + List.length rest)%nat.
Proof. intros ->. apply app_length. Qed.

Lemma notin_suffix {A} (x : A) (ts e rest : list A) : ts = e ++ rest -> ~ In x ts -> ~ In x rest.
Proof. intros -> H Hin. apply H. apply in_or_app. right. exact Hin. Qed.

Lemma all_named_names fs : all_named fs = true -> map Some (map field_label fs) = map f_name fs.
Proof.
  unfold all_named. induction fs as [|f fs IH]; intros H; [reflexivity|].
  cbn [forallb] in H. apply andb_prop in H as [Hf H]. cbn [map]. rewrite (IH H). f_equal.
  unfold field_label. destruct (f_name f); [reflexivity|discriminate Hf].
Qed.

(** closed readings of the marker slots *)
Lemma unit_marker_read C rest :
  RunC14.read_shape C (ShTuple [SMarker false]) ("(" :: marker_path ++ ")" :: rest) = Some rest.
Proof. reflexivity. Qed.

Lemma named_marker_read C rest :
  read_slots C [SMarker true] ("__ignore" :: ":" :: marker_path ++ "}" :: rest) = Some ("}" :: rest).
Proof. reflexivity. Qed.

Lemma unnamed_marker_read C rest :
  read_slots C [SMarker false] (marker_path ++ ")" :: rest) = Some (")" :: rest).
Proof. reflexivity. Qed.

(** without a generated item: the marker is optional *)
Lemma registry_shape_read C fs L mk ts rest :
  layout_of_fields fs = Some L ->
  RunC14.read_shape C (item_shape L mk fs) ts = Some rest ->
  (mk = true -> L <> LUnit -> RunC14.read_shape C (item_shape L false fs) ts = None) ->
  (L = LUnit -> mk = false -> Unparse.hd_is "(" ts = false) ->
  read_registry_shape C fs ts = Some rest.
Proof.
  intros HL Hr Hfirst Hunit. unfold read_registry_shape. rewrite (shape_of_registry_layout fs L HL).
  destruct L as [|ns|k]; destruct mk; cbn [item_shape] in *.
  - cbn [RunC14.read_shape] in Hr.
    destruct (RunC14.expect "(" ts) as [r1|] eqn:E1; [|discriminate Hr]. apply expect_inv in E1. subst ts.
    cbv iota. exact Hr.
  - rewrite (match_lparen_unit None (RunC14.read_shape C ShUnit ts) ts (Hunit eq_refl eq_refl)).
    rewrite Hr. reflexivity.
  - rewrite app_nil_r in *. rewrite (Hfirst eq_refl ltac:(discriminate)). exact Hr.
  - rewrite Hr. reflexivity.
  - rewrite app_nil_r in *. rewrite (Hfirst eq_refl ltac:(discriminate)). exact Hr.
  - rewrite Hr. reflexivity.
Qed.

(** * J. the tie *)
Section Tie.
  Variables (r : registry) (s : settings) (teq : N -> N -> result bool) (m : items).
  Hypothesis Hgen : generate r s teq = Ok m.
  Hypothesis Hsk : skeleton_consistent r s.
  Hypothesis Hscope : reader_scopeb r s m = true.

  Let root := s_root s.
  Let pm : option pmod := Some (pmod_of_items s m).
  Let paths := model_paths r s.
  Let len := List.length r.
  Notation CF := (conf r root pm paths).

  Lemma scope_root : ident_lexb root = true.
  Proof. unfold reader_scopeb in Hscope. apply andb_prop in Hscope as [H _]. apply andb_prop in H as [H _]. exact H. Qed.

  Lemma scope_entry id t : lookup r id = Some t -> entry_scopeb r s id t = true.
  Proof.
    intros L. pose proof (lookup_In r s teq m Hgen id t L) as Hin.
    unfold reader_scopeb in Hscope. apply andb_prop in Hscope as [H _]. apply andb_prop in H as [_ H].
    rewrite forallb_forall in H. exact (H (id, t) Hin).
  Qed.

  Lemma scope_item p id0 ir : items_get m p = Some (id0, ir) -> item_scopeb s ir = true.
  Proof.
    intros G. apply items_get_In_some in G.
    unfold reader_scopeb in Hscope. apply andb_prop in Hscope as [_ H].
    rewrite forallb_forall in H. exact (H (p, (id0, ir)) G).
  Qed.

  Lemma lookup_items_gen p id ir :
    items_get m p = Some (id, ir) -> lookup_item (pmod_of_items s m) p = Some (item_of_ir s ir).
  Proof.
    intros H. apply items_get_In_some in H. unfold pmod_of_items.
    destruct (generate_unique_names _ _ _ _ Hgen) as [Hsorted Hnd].
    apply (lookup_pmod s (S (max_depth m)) (s_root s) _ p (p, (p, ir))).
    - pose proof (max_depth_ge m _ H) as Hl. cbn [fst] in Hl. lia.
    - rewrite map_map. cbn [fst]. exact Hnd.
    - intros e He. apply in_map_iff in He as ([p' [id' ir']] & <- & Hin). cbn [fst snd].
      assert (Hget : items_get m p' = Some (id', ir')) by (apply (items_get_In_iff m Hsorted); exact Hin).
      destruct (generate_items_come_from_entries _ _ _ _ _ _ _ Hgen Hget) as (t & flat & _ & Hpath & _ & _ & Hc).
      destruct (create_type_ir_name_params _ _ _ _ _ Hc) as (Hne & Hlast & _). rewrite Hpath in *.
      split; [exact Hne|exact Hlast].
    - apply in_map_iff. exists (p, (id, ir)). split; [reflexivity|exact H].
    - reflexivity.
  Qed.

  (** the literal path of an item-eligible entry points at its item in the parsed module *)
  Lemma item_of_literal id t p id0 ir :
    lookup r id = Some t -> item_eligible s t = true -> path_ident (t_path t) <> Some "Cow" ->
    path_omit_generics r s id = Ok p -> items_get m (t_path t) = Some (id0, ir) ->
    item_of_path root pm p = Some (Some (item_of_ir s ir)) /\
    (exists x q, p = x :: q /\ x = root) /\ (exists a b l, t_path t = a :: b :: l).
  Proof.
    intros L He Hcow Hp G.
    destruct (eligible_literal_path_lex r s id t p (lookup_resolve r id t L) He Hcow scope_root Hp)
      as (-> & Hlex & (a & b & l & Epath)).
    split; [|split; [exists root, (flat_map (fun x => [":"; ":"; x]) (t_path t)); split; reflexivity|eauto]].
    unfold item_of_path. fold root.
    rewrite (rel_segments_rel_path (t_path t) root (ident_not_punct _ scope_root) Hlex).
    rewrite String.eqb_refl. unfold pm. rewrite Epath. rewrite <- Epath.
    rewrite (lookup_items_gen _ _ _ G). reflexivity.
  Qed.

  (** what the relation reads from the IR is what the reader reads from the parsed item *)
  Lemma struct_item_facts id t fs id0 ir L mk :
    lookup r id = Some t -> t_def t = TDComposite fs -> item_eligible s t = true ->
    items_get m (t_path t) = Some (id0, ir) -> sig_of_ir ir = ISStruct L mk ->
    layout_of_fields fs = Some L /\ pi_is_enum (item_of_ir s ir) = false /\
    shape_of_item (pi_body (item_of_ir s ir)) fs = Some (item_shape L mk fs).
  Proof.
    intros Lk D He G Hsig.
    destruct (item_of_entry r s teq m Hgen Hsk id t (lookup_In r s teq m Hgen id t Lk) He)
      as (id0' & ir0 & irX & G' & HirX & Hsg).
    rewrite G in G'. inversion G'; subst id0' ir0. clear G'.
    pose proof (create_type_ir_sig _ _ _ _ _ HirX) as Hes. unfold entry_sig_ok in Hes. rewrite D in Hes.
    destruct Hes as (L' & HL' & Hsx). rewrite <- Hsg, Hsig in Hsx. injection Hsx as EL Emk. subst L'.
    split; [exact HL'|].
    pose proof (scope_item _ _ _ G) as Hsc. unfold item_scopeb in Hsc.
    unfold sig_of_ir in Hsig. unfold item_of_ir.
    destruct (ti_kind ir) as [c|nm docs vsi]; [|discriminate Hsig].
    injection Hsig as HLc Hmk. cbn [pi_is_enum pi_body]. split; [reflexivity|].
    subst L mk. exact (shape_of_struct_body s (ci_kind c) (ti_unused ir) (ti_codec ir) fs HL' Hsc).
  Qed.

  Lemma variant_item_facts id t vs v id0 ir sigs L :
    lookup r id = Some t -> t_def t = TDVariant vs -> In v vs -> item_eligible s t = true ->
    items_get m (t_path t) = Some (id0, ir) -> sig_of_ir ir = ISEnum sigs -> In (v_name v, L) sigs ->
    layout_of_fields (v_fields v) = Some L /\ pi_is_enum (item_of_ir s ir) = true /\
    exists pv, find (fun pv => String.eqb (pv_name pv) (v_name v)) (pi_variants (item_of_ir s ir)) = Some pv /\
               shape_of_item (pv_body pv) (v_fields v) = Some (item_shape L false (v_fields v)).
  Proof.
    intros Lk D Hv He G Hsig Hin.
    destruct (item_of_entry r s teq m Hgen Hsk id t (lookup_In r s teq m Hgen id t Lk) He)
      as (id0' & ir0 & irX & G' & HirX & Hsg).
    rewrite G in G'. inversion G'; subst id0' ir0. clear G'.
    pose proof (create_type_ir_sig _ _ _ _ _ HirX) as Hes. unfold entry_sig_ok in Hes. rewrite D in Hes.
    destruct Hes as (sigs' & Hsx & HF). rewrite <- Hsg, Hsig in Hsx. inversion Hsx; subst sigs'. clear Hsx.
    pose proof (scope_entry id t Lk) as Hse. unfold entry_scopeb in Hse. rewrite D in Hse.
    apply andb_prop in Hse as [Hse _]. apply andb_prop in Hse as [Hse _]. apply andb_prop in Hse as [_ Hnd].
    apply nodup_strb_sound in Hnd.
    assert (Hnames : map fst sigs = map v_name vs).
    { clear -HF. induction HF as [|v0 x vs0 sg0 [Hx _] _ IH]; [reflexivity|]. cbn [map]. rewrite Hx, IH. reflexivity. }
    assert (Hnds : NoDup (map fst sigs)) by (rewrite Hnames; exact Hnd).
    destruct (Forall2_In_l _ _ _ _ HF Hv) as (x & Hx & Hxn & Hxl).
    assert (HLx : snd x = L).
    { destruct x as [xn xl]. cbn [fst snd] in *. subst xn. exact (nodup_fst_functional sigs _ _ _ Hnds Hx Hin). }
    rewrite HLx in Hxl. split; [exact Hxl|].
    pose proof (scope_item _ _ _ G) as Hsc. unfold item_scopeb in Hsc.
    unfold sig_of_ir in Hsig. unfold item_of_ir.
    destruct (ti_kind ir) as [c|nm docs vsi]; [discriminate Hsig|].
    inversion Hsig as [Hsigs]. cbn [pi_is_enum pi_variants]. split; [reflexivity|].
    rewrite <- Hsigs in Hin. apply in_map_iff in Hin as (ic & Hic & Hicin). inversion Hic as [[Hn HLc]].
    exists (variant_of s (ti_codec ir) ic). split.
    - rewrite <- ?Hn.
      apply (find_map_app (fun pv => String.eqb (pv_name pv) (ci_name (snd ic))) (variant_of s (ti_codec ir))).
      apply (find_key_nodup (fun y : N * composite_ir => ci_name (snd y)) vsi ic); [|exact Hicin].
      rewrite <- Hsigs in Hnds. rewrite map_map in Hnds. exact Hnds.
    - cbn [variant_of pv_body]. rewrite forallb_forall in Hsc. specialize (Hsc ic Hicin).
      assert (Hxl' : layout_of_fields (v_fields v) = Some (layout_of_ckind (ci_kind (snd ic)))) by congruence.
      rewrite (shape_of_variant_body s _ (ti_codec ir) _ Hxl' Hsc). congruence.
  Qed.

  (** ** fuel: a [Cow] consumes fuel without consuming a token *)
  Definition cw (id : N) : nat :=
    match strip_compact r (S len) id with
    | Some (_, t) => if is_cow_ty t then 1%nat else 0%nat
    | None => 0%nat
    end.

  Lemma cw_le1 id : (cw id <= 1)%nat.
  Proof. unfold cw. destruct (strip_compact r (S len) id) as [[i t]|]; [destruct (is_cow_ty t)|]; lia. Qed.

  Lemma cw_self id t :
    lookup r id = Some t -> (forall e, t_def t <> TDCompact e) ->
    cw id = if is_cow_ty t then 1%nat else 0%nat.
  Proof. intros L D. unfold cw, len. rewrite (strip_compact_self r id t L D). reflexivity. Qed.

  Lemma cw_hop id t e : lookup r id = Some t -> t_def t = TDCompact e -> cw id = cw e.
  Proof.
    intros L D. unfold cw, len. destruct (strip_compact r (S (List.length r)) e) as [y|] eqn:E.
    - rewrite (strip_compact_hop r id t e L D y E). reflexivity.
    - rewrite strip_S, L, D. destruct (strip_compact r (List.length r) e) as [y|] eqn:E'; [|reflexivity].
      apply strip_any_fuel in E'. congruence.
  Qed.

  Lemma conf_hop id t e fuel ts rest :
    lookup r id = Some t -> t_def t = TDCompact e -> CF fuel e ts = Some rest -> CF fuel id ts = Some rest.
  Proof.
    intros L D H. destruct fuel as [|f]; [discriminate H|]. cbn [conf] in *.
    destruct (strip_compact r (S (List.length r)) e) as [y|] eqn:E; [|discriminate H].
    rewrite (strip_compact_hop r id t e L D y E). exact H.
  Qed.

  Definition P (id : N) (ts rest : toks) : Prop :=
    (exists e, ts = e ++ rest) /\
    (Unparse.hd_is "(" rest = false -> ~ In empty_str_lit ts ->
     Unparse.hd_is "]" ts = false /\ (List.length rest < List.length ts + cw id)%nat /\
     forall fuel, (List.length ts + cw id <= fuel + List.length rest)%nat -> CF fuel id ts = Some rest).

  Section Children.
    Variable f : nat.

    Lemma child_read i ts fin :
      P i ts fin -> Unparse.hd_is "(" fin = false -> ~ In empty_str_lit ts ->
      (List.length ts + 1 <= f + List.length fin)%nat ->
      CF f i ts = Some fin /\ Unparse.hd_is "]" ts = false.
    Proof.
      intros [_ Hr] Hh Hn Hl. destruct (Hr Hh Hn) as (H1 & _ & K). split; [|exact H1].
      apply K. pose proof (cw_le1 i). lia.
    Qed.

    Lemma value_read fld ts fin :
      conf_value P fld ts fin ->
      (exists e, ts = e ++ fin) /\
      (Unparse.hd_is "(" fin = false -> ~ In empty_str_lit ts ->
       (List.length ts + 1 <= f + List.length fin)%nat -> read_val (CF f) fld ts = Some fin).
    Proof.
      intros [ts0 fin0 Hc HP|ts0 fin0 Hc HP].
      - split; [exact (proj1 HP)|]. intros Hh Hn Hl. unfold read_val.
        change (field_explicit_compact fld) with (explicit_compact fld). rewrite Hc.
        exact (proj1 (child_read _ _ _ HP Hh Hn Hl)).
      - destruct (proj1 HP) as (e & He). split.
        + exists ("Compact" :: "(" :: e ++ [")"]). rewrite He. cbn [app]. rewrite <- app_assoc. reflexivity.
        + intros Hh Hn Hl. unfold read_val.
          change (field_explicit_compact fld) with (explicit_compact fld). rewrite Hc.
          change (RunC14.expects ["Compact"; "("] ("Compact" :: "(" :: ts0)) with (Some ts0). cbn [obind].
          assert (Hn0 : ~ In empty_str_lit ts0) by (intros Hi; apply Hn; right; right; exact Hi).
          cbn [List.length] in Hl.
          destruct (child_read _ _ _ HP eq_refl Hn0 ltac:(cbn [List.length]; lia)) as [K _].
          rewrite K. reflexivity.
    Qed.

    Lemma named_read : forall ns fs ts fin,
      conf_named P ns fs ts fin -> map Some ns = map f_name fs ->
      (exists e, ts = e ++ fin) /\
      (Unparse.hd_is "(" fin = false -> ~ In empty_str_lit ts ->
       (List.length ts <= f + List.length fin)%nat -> read_slots_c (CF f) (map SF fs) ts = Some fin).
    Proof.
      induction 1 as [fin|n ns fld fs ts mid fin Hv Hnm IH]; intros Hnames.
      - split; [exists []; reflexivity|]. intros _ _ _. reflexivity.
      - cbn [map] in Hnames. injection Hnames as Hn0 Hnames.
        destruct (value_read _ _ _ Hv) as [(e1 & He1) Kv]. destruct (IH Hnames) as [(e2 & He2) Kn].
        split.
        + exists (n :: ":" :: e1 ++ "," :: e2). rewrite He1, He2. cbn [app]. rewrite <- app_assoc. reflexivity.
        + intros Hh Hn Hl.
          assert (Hnts : ~ In empty_str_lit ts) by (intros Hi; apply Hn; right; right; exact Hi).
          assert (Hnmid : ~ In empty_str_lit mid).
          { apply (notin_suffix _ _ _ _ He1) in Hnts. intros Hi. apply Hnts. right. exact Hi. }
          pose proof (suffix_len _ _ _ He1) as L1. pose proof (suffix_len _ _ _ He2) as L2.
          cbn [List.length] in L1, Hl.
          cbn [map read_slots_c]. unfold SF at 1. rewrite <- Hn0.
          rewrite read_slot_named.
          rewrite (Kv eq_refl Hnts ltac:(cbn [List.length]; lia)). cbn [obind].
          change (RunC14.expect "," ("," :: mid)) with (Some mid). cbn [obind].
          apply (Kn Hh Hnmid). lia.
    Qed.

    Lemma unnamed_read : forall k fs ts fin,
      conf_unnamed P k fs ts fin -> all_unnamed fs = true ->
      (exists e, ts = e ++ fin) /\
      (Unparse.hd_is "(" fin = false -> ~ In empty_str_lit ts ->
       (List.length ts <= f + List.length fin)%nat -> read_slots_c (CF f) (map SF fs) ts = Some fin).
    Proof.
      induction 1 as [fin|k fld fs ts mid fin Hv Hnm IH]; intros Hun.
      - split; [exists []; reflexivity|]. intros _ _ _. reflexivity.
      - cbn [all_unnamed forallb] in Hun. apply andb_prop in Hun as [Hf Hun].
        destruct (value_read _ _ _ Hv) as [(e1 & He1) Kv]. destruct (IH Hun) as [(e2 & He2) Kn].
        split.
        + exists (e1 ++ "," :: e2). rewrite He1, He2. rewrite <- app_assoc. reflexivity.
        + intros Hh Hnts Hl.
          assert (Hnmid : ~ In empty_str_lit mid).
          { apply (notin_suffix _ _ _ _ He1) in Hnts. intros Hi. apply Hnts. right. exact Hi. }
          pose proof (suffix_len _ _ _ He1) as L1. pose proof (suffix_len _ _ _ He2) as L2.
          cbn [List.length] in L1.
          cbn [map read_slots_c]. unfold SF at 1.
          destruct (f_name fld) as [nm|]; [discriminate Hf|].
          rewrite read_slot_unnamed.
          rewrite (Kv eq_refl Hnts ltac:(cbn [List.length]; lia)). cbn [obind].
          change (RunC14.expect "," ("," :: mid)) with (Some mid). cbn [obind].
          apply (Kn Hh Hnmid). lia.
    Qed.
  End Children.

  Section Children2.
    Variable f : nat.

    (** struct / variant bodies: the item form (marker exactly when [mk]) and the foreign form *)
    Lemma shape_read L mk fs ts rest :
      conf_shape P L mk fs ts rest -> layout_of_fields fs = Some L ->
      (exists e, ts = e ++ rest) /\
      (Unparse.hd_is "(" rest = false -> ~ In empty_str_lit ts ->
       (List.length ts <= f + List.length rest)%nat ->
       RunC14.read_shape (CF f) (item_shape L mk fs) ts = Some rest /\
       read_registry_shape (CF f) fs ts = Some rest).
    Proof.
      intros Hsh HL. destruct Hsh as [rest|rest|ns mk fs ts rest Hn|k mk fs ts rest Hu].
      - split; [exists []; reflexivity|]. intros Hh _ _.
        assert (K : RunC14.read_shape (CF f) (item_shape LUnit false []) rest = Some rest) by reflexivity.
        split; [exact K|].
        apply (registry_shape_read (CF f) [] LUnit false rest rest HL K); [discriminate|intros _ _; exact Hh].
      - split; [exists ("(" :: marker_path ++ [")"]); cbn [app]; rewrite <- app_assoc; reflexivity|]. intros _ _ _.
        assert (K : RunC14.read_shape (CF f) (item_shape LUnit true []) ("(" :: marker_path ++ ")" :: rest) = Some rest)
          by apply unit_marker_read.
        split; [exact K|].
        apply (registry_shape_read (CF f) [] LUnit true _ rest HL K); [intros _ Hc; congruence|discriminate].
      - destruct (layout_named _ _ HL) as [Han Hlab].
        assert (Hnames : map Some ns = map f_name fs) by (rewrite <- Hlab; apply all_named_names; exact Han).
        destruct (named_read f _ _ _ _ Hn Hnames) as [(e & He) K].
        split.
        { exists ("{" :: e ++ named_marker mk ++ ["}"]). rewrite He. cbn [app]. rewrite <- !app_assoc. reflexivity. }
        intros Hh Hnin Hl.
        assert (Hnts : ~ In empty_str_lit ts) by (intros Hi; apply Hnin; right; exact Hi).
        pose proof (suffix_len _ _ _ He) as L1. rewrite app_length in L1. cbn [List.length] in L1, Hl.
        assert (Kc : read_slots_c (CF f) (map SF fs) ts = Some (named_marker mk ++ "}" :: rest)).
        { apply K; [destruct mk; reflexivity|exact Hnts|rewrite app_length; cbn [List.length]; lia]. }
        destruct mk; cbn [named_marker app] in Kc.
        + assert (K1 : RunC14.read_shape (CF f) (item_shape (LNamed ns) true fs) ("{" :: ts) = Some rest).
          { cbn [item_shape RunC14.read_shape]. change (RunC14.expect "{" ("{" :: ts)) with (Some ts). cbn [obind].
            rewrite read_slots_app by discriminate. rewrite Kc. cbn [obind].
            change ("__ignore" :: ":" :: marker_path ++ "}" :: rest)
              with ("__ignore" :: ":" :: marker_path ++ "}" :: rest).
            rewrite (named_marker_read (CF f) rest). reflexivity. }
          split; [exact K1|].
          apply (registry_shape_read (CF f) fs (LNamed ns) true _ rest HL K1); [|discriminate].
          intros _ _. cbn [item_shape RunC14.read_shape]. change (RunC14.expect "{" ("{" :: ts)) with (Some ts).
          cbn [obind]. rewrite app_nil_r. rewrite (read_slots_of_c _ _ _ _ Kc). reflexivity.
        + assert (K1 : RunC14.read_shape (CF f) (item_shape (LNamed ns) false fs) ("{" :: ts) = Some rest).
          { cbn [item_shape RunC14.read_shape]. change (RunC14.expect "{" ("{" :: ts)) with (Some ts). cbn [obind].
            rewrite app_nil_r. rewrite (read_slots_of_c _ _ _ _ Kc). reflexivity. }
          split; [exact K1|].
          apply (registry_shape_read (CF f) fs (LNamed ns) false _ rest HL K1); discriminate.
      - destruct (layout_unnamed _ _ HL) as [Hau _].
        destruct (unnamed_read f _ _ _ _ Hu Hau) as [(e & He) K].
        split.
        { exists ("(" :: e ++ unnamed_marker mk ++ [")"]). rewrite He. cbn [app]. rewrite <- !app_assoc. reflexivity. }
        intros Hh Hnin Hl.
        assert (Hnts : ~ In empty_str_lit ts) by (intros Hi; apply Hnin; right; exact Hi).
        pose proof (suffix_len _ _ _ He) as L1. rewrite app_length in L1. cbn [List.length] in L1, Hl.
        assert (Kc : read_slots_c (CF f) (map SF fs) ts = Some (unnamed_marker mk ++ ")" :: rest)).
        { apply K; [destruct mk; reflexivity|exact Hnts|rewrite app_length; cbn [List.length]; lia]. }
        destruct mk; cbn [unnamed_marker app] in Kc.
        + assert (K1 : RunC14.read_shape (CF f) (item_shape (LUnnamed k) true fs) ("(" :: ts) = Some rest).
          { cbn [item_shape RunC14.read_shape]. change (RunC14.expect "(" ("(" :: ts)) with (Some ts). cbn [obind].
            rewrite read_slots_app by discriminate. rewrite Kc. cbn [obind].
            rewrite (unnamed_marker_read (CF f) rest). reflexivity. }
          split; [exact K1|].
          apply (registry_shape_read (CF f) fs (LUnnamed k) true _ rest HL K1); [|discriminate].
          intros _ _. cbn [item_shape RunC14.read_shape]. change (RunC14.expect "(" ("(" :: ts)) with (Some ts).
          cbn [obind]. rewrite app_nil_r. rewrite (read_slots_of_c _ _ _ _ Kc). reflexivity.
        + assert (K1 : RunC14.read_shape (CF f) (item_shape (LUnnamed k) false fs) ("(" :: ts) = Some rest).
          { cbn [item_shape RunC14.read_shape]. change (RunC14.expect "(" ("(" :: ts)) with (Some ts). cbn [obind].
            rewrite app_nil_r. rewrite (read_slots_of_c _ _ _ _ Kc). reflexivity. }
          split; [exact K1|].
          apply (registry_shape_read (CF f) fs (LUnnamed k) false _ rest HL K1); discriminate.
    Qed.
  End Children2.

  Lemma hd_is_false_neq lit t0 l : Unparse.hd_is lit (t0 :: l) = false -> t0 <> lit.
  Proof. cbn [Unparse.hd_is]. unfold Parse.teq. intros H E. subst t0. rewrite String.eqb_refl in H. discriminate. Qed.

  Lemma read_elems_step C fuel e t0 l k :
    t0 <> "]" ->
    read_elems C (S fuel) e (t0 :: l) k =
    obind (C e (t0 :: l))
          (fun r1 => match r1 with
                     | "," :: r2 => read_elems C fuel e r2 (k + 1)%N
                     | "]" :: rest => Some ((k + 1)%N, rest)
                     | _ => None
                     end).
  Proof. intros H. cbn [read_elems]. exact (match_rbracket (fun rest => Some (k, rest)) _ t0 l H). Qed.

  Section Children3.
    Variable f : nat.

    (** [e , e , .. e ]] : the element loop of sequences and arrays *)
    Lemma sep_read e : forall n ts fin,
      conf_sep P e n ts fin -> forall rest, fin = "]" :: rest -> (0 < n)%N ->
      (exists pre, ts = pre ++ fin) /\
      (~ In empty_str_lit ts -> (List.length ts + 1 <= f + List.length fin)%nat ->
       Unparse.hd_is "]" ts = false /\
       forall fuelE k, (List.length ts <= fuelE + List.length rest)%nat ->
                       read_elems (CF f) fuelE e ts k = Some ((k + n)%N, rest)).
    Proof.
      induction 1 as [fin|ts fin Hc|n ts mid fin Hn Hc Hs IH]; intros rest Efin Hpos; [lia| |].
      - destruct (proj1 Hc) as (pre & Hpre). split; [exists pre; exact Hpre|].
        intros Hnin Hl.
        assert (Hh : Unparse.hd_is "(" fin = false) by (subst fin; reflexivity).
        destruct (child_read f _ _ _ Hc Hh Hnin Hl) as [K Hhd]. split; [exact Hhd|].
        intros fuelE k Hf. pose proof (suffix_len _ _ _ Hpre) as L1. subst fin. cbn [List.length] in L1.
        destruct fuelE as [|fuelE]; [lia|].
        destruct ts as [|t0 l]; [cbn [List.length] in L1; lia|].
        rewrite (read_elems_step (CF f) fuelE e t0 l k (hd_is_false_neq _ _ _ Hhd)).
        rewrite K. reflexivity.
      - destruct (proj1 Hc) as (pre1 & Hpre1). destruct (IH rest Efin Hn) as [(pre2 & Hpre2) Kn].
        split; [exists (pre1 ++ "," :: pre2); rewrite Hpre1, Hpre2, <- app_assoc; reflexivity|].
        intros Hnin Hl.
        pose proof (suffix_len _ _ _ Hpre1) as L1. pose proof (suffix_len _ _ _ Hpre2) as L2.
        cbn [List.length] in L1.
        destruct (child_read f e ts ("," :: mid) Hc eq_refl Hnin ltac:(cbn [List.length]; lia)) as [K Hhd].
        split; [exact Hhd|].
        assert (Hnmid : ~ In empty_str_lit mid).
        { apply (notin_suffix _ _ _ _ Hpre1) in Hnin. intros Hi. apply Hnin. right. exact Hi. }
        destruct (Kn Hnmid ltac:(lia)) as [_ Kr].
        intros fuelE k Hf. subst fin. cbn [List.length] in L2.
        destruct fuelE as [|fuelE]; [lia|].
        destruct ts as [|t0 l]; [cbn [List.length] in L1; lia|].
        rewrite (read_elems_step (CF f) fuelE e t0 l k (hd_is_false_neq _ _ _ Hhd)).
        rewrite K. cbn [obind]. cbv iota. cbn [List.length] in L1, Hf.
        rewrite (Kr fuelE (k + 1)%N ltac:(lia)). f_equal. f_equal. lia.
    Qed.

    Lemma tuple_read : forall l ts fin,
      conf_tuple P l ts fin -> forall a1,
      (exists pre, ts = pre ++ fin) /\
      (~ In empty_str_lit ts -> (List.length ts <= f + List.length fin)%nat ->
       RunC14.read_tuple (CF f) l a1 ts = Some fin).
    Proof.
      induction 1 as [fin|i l ts mid fin Hc Ht IH]; intros a1.
      - split; [exists []; reflexivity|]. intros _ _. reflexivity.
      - destruct (proj1 Hc) as (pre1 & Hpre1). destruct (IH a1) as [(pre2 & Hpre2) Kn].
        split; [exists (pre1 ++ "," :: pre2); rewrite Hpre1, Hpre2, <- app_assoc; reflexivity|].
        intros Hnin Hl.
        pose proof (suffix_len _ _ _ Hpre1) as L1. pose proof (suffix_len _ _ _ Hpre2) as L2.
        cbn [List.length] in L1.
        destruct (child_read f i ts ("," :: mid) Hc eq_refl Hnin ltac:(cbn [List.length]; lia)) as [K _].
        assert (Hnmid : ~ In empty_str_lit mid).
        { apply (notin_suffix _ _ _ _ Hpre1) in Hnin. intros Hi. apply Hnin. right. exact Hi. }
        cbn [RunC14.read_tuple]. rewrite K. cbn [obind].
        destruct l as [|j l'].
        + inversion Ht; subst. destruct a1; reflexivity.
        + change (RunC14.expect "," ("," :: mid)) with (Some mid). cbn [obind].
          apply (Kn Hnmid). lia.
    Qed.
  End Children3.

  (** ** the cases *)
  Lemma root_not_rbracket : root <> "]".
  Proof. intros E. pose proof scope_root as H. rewrite E in H. discriminate H. Qed.

  Lemma notin_app_r (p ts : toks) : ~ In empty_str_lit (p ++ ts) -> ~ In empty_str_lit ts.
  Proof. intros H Hi. apply H. apply in_or_app. right. exact Hi. Qed.

  Lemma cw_plain id t :
    lookup r id = Some t -> (forall e, t_def t <> TDCompact e) -> is_cow_ty t = false -> cw id = 0%nat.
  Proof. intros L D Hc. rewrite (cw_self id t L D), Hc. reflexivity. Qed.

  Ltac enter L D :=
    cbn [conf];
    rewrite (strip_compact_self r _ _ L ltac:(intros e0; rewrite D; discriminate));
    rewrite D; cbv beta iota.

  Lemma case_prim id t p ts rest :
    lookup r id = Some t -> t_def t = TDPrimitive p -> prim_lit p ts rest -> P id ts rest.
  Proof.
    intros L D Hp. destruct (prim_read p ts rest Hp) as [(e & Hne & He) Kp].
    split; [exists e; exact He|]. intros Hh Hn. destruct (Kp Hn) as [Kr Khd].
    assert (Hcw : cw id = 0%nat).
    { apply (cw_plain id t L); [intros e0; rewrite D; discriminate|unfold is_cow_ty; rewrite D; reflexivity]. }
    pose proof (suffix_len _ _ _ He) as L1.
    assert (Hle : (0 < List.length e)%nat) by (destruct e; [congruence|cbn [List.length]; lia]).
    split; [exact Khd|]. split; [lia|]. intros fuel Hf. destruct fuel as [|f]; [lia|].
    enter L D. exact Kr.
  Qed.

  Lemma case_compact id t e ts rest :
    lookup r id = Some t -> t_def t = TDCompact e -> P e ts rest -> P id ts rest.
  Proof.
    intros L D [Hs Hr]. split; [exact Hs|]. intros Hh Hn. destruct (Hr Hh Hn) as (H1 & H2 & H3).
    rewrite (cw_hop id t e L D). split; [exact H1|]. split; [exact H2|].
    intros fuel Hf. apply (conf_hop id t e fuel ts rest L D). apply H3. exact Hf.
  Qed.

  Lemma case_bits id t st o rest :
    lookup r id = Some t -> t_def t = TDBitSeq st o -> P id (bits_example ++ rest) rest.
  Proof.
    intros L D. split; [exists bits_example; reflexivity|]. intros _ _.
    assert (Hcw : cw id = 0%nat).
    { apply (cw_plain id t L); [intros e0; rewrite D; discriminate|unfold is_cow_ty; rewrite D; reflexivity]. }
    split; [reflexivity|]. split; [rewrite app_length; cbn [bits_example List.length]; lia|].
    intros fuel Hf. destruct fuel as [|f]; [rewrite app_length in Hf; cbn [bits_example List.length] in Hf; lia|].
    enter L D. reflexivity.
  Qed.

  Lemma sep_zero e ts fin : conf_sep P e 0 ts fin -> ts = fin.
  Proof.
    intros H. inversion H as [fin0|ts0 fin0 Hc|n ts0 mid fin0 Hn Hc Hs]; subst; try reflexivity; exfalso; lia.
  Qed.

  Lemma case_seq id t e n ts rest :
    lookup r id = Some t -> t_def t = TDSequence e ->
    conf_sep P e n ts ("]" :: rest) -> P id ("vec" :: "!" :: "[" :: ts) rest.
  Proof.
    intros L D Hs.
    assert (Hcw : cw id = 0%nat).
    { apply (cw_plain id t L); [intros e0; rewrite D; discriminate|unfold is_cow_ty; rewrite D; reflexivity]. }
    destruct (N.eq_dec n 0) as [->|Hn0].
    - apply sep_zero in Hs. subst ts.
      split; [exists ["vec"; "!"; "["; "]"]; reflexivity|]. intros _ _.
      split; [reflexivity|]. split; [cbn [List.length]; lia|].
      intros fuel Hf. destruct fuel as [|f]; [cbn [List.length] in Hf; lia|].
      enter L D. reflexivity.
    - assert (Hpos : (0 < n)%N) by lia.
      split.
      + destruct (proj1 (sep_read 0 e n ts _ Hs rest eq_refl Hpos)) as (pre & Hpre).
        exists ("vec" :: "!" :: "[" :: pre ++ ["]"]). rewrite Hpre. cbn [app]. rewrite <- app_assoc. reflexivity.
      + intros _ Hnin. split; [reflexivity|].
        destruct (proj1 (sep_read 0 e n ts _ Hs rest eq_refl Hpos)) as (pre & Hpre).
        pose proof (suffix_len _ _ _ Hpre) as L1. cbn [List.length] in L1.
        split; [cbn [List.length]; lia|].
        intros fuel Hf. destruct fuel as [|f]; [cbn [List.length] in Hf; lia|].
        cbn [List.length] in Hf.
        destruct (sep_read f e n ts _ Hs rest eq_refl Hpos) as [_ K].
        assert (Hnts : ~ In empty_str_lit ts) by (intros Hi; apply Hnin; right; right; right; exact Hi).
        destruct (K Hnts ltac:(cbn [List.length]; lia)) as [_ Kr].
        enter L D.
        change (RunC14.expects ["vec"; "!"; "["] ("vec" :: "!" :: "[" :: ts)) with (Some ts). cbn [obind].
        rewrite (Kr (S (List.length ts)) 0%N ltac:(lia)). reflexivity.
  Qed.

  Lemma usize_ok len0 :
    (match strip_suffix "usize" (lit_u "usize" len0) with
     | Some d => option_eqb N.eqb (decimal d) (Some len0)
     | None => option_eqb N.eqb (decimal (lit_u "usize" len0)) (Some len0)
     end) = true.
  Proof.
    unfold lit_u. rewrite strip_suffix_app, decimal_N_to_string. cbn [option_eqb]. apply N.eqb_refl.
  Qed.

  Lemma case_array_repeat id t len0 e ts rest :
    lookup r id = Some t -> t_def t = TDArray len0 e -> repeat_ok r len0 e ->
    P e ts (";" :: lit_u "usize" len0 :: "]" :: rest) -> P id ("[" :: ts) rest.
  Proof.
    intros L D Hrp Hc. apply repeat_okb_complete in Hrp. unfold repeat_okb in Hrp.
    assert (Hcw : cw id = 0%nat).
    { apply (cw_plain id t L); [intros e0; rewrite D; discriminate|unfold is_cow_ty; rewrite D; reflexivity]. }
    destruct (proj1 Hc) as (pre & Hpre). pose proof (suffix_len _ _ _ Hpre) as L1. cbn [List.length] in L1.
    split.
    - exists ("[" :: pre ++ [";"; lit_u "usize" len0; "]"]). rewrite Hpre. cbn [app]. rewrite <- app_assoc. reflexivity.
    - intros _ Hnin. split; [reflexivity|]. split; [cbn [List.length]; lia|].
      intros fuel Hf. destruct fuel as [|f]; [cbn [List.length] in Hf; lia|]. cbn [List.length] in Hf.
      assert (Hnts : ~ In empty_str_lit ts) by (intros Hi; apply Hnin; right; exact Hi).
      destruct (child_read f e ts _ Hc eq_refl Hnts ltac:(cbn [List.length]; lia)) as [K Hhd].
      enter L D. change (RunC14.expect "[" ("[" :: ts)) with (Some ts). cbn [obind].
      destruct ts as [|t0 l]; [cbn [List.length] in L1; lia|].
      refine (eq_trans (match_rbracket (fun rest0 => if (len0 =? 0)%N then Some rest0 else None) _ t0 l
                          (hd_is_false_neq _ _ _ Hhd)) _).
      rewrite K. cbn [obind]. cbv beta iota zeta. rewrite usize_ok, Hrp. reflexivity.
  Qed.

  Lemma case_array_list id t len0 e ts rest :
    lookup r id = Some t -> t_def t = TDArray len0 e ->
    conf_sep P e len0 ts ("]" :: rest) -> P id ("[" :: ts) rest.
  Proof.
    intros L D Hs.
    assert (Hcw : cw id = 0%nat).
    { apply (cw_plain id t L); [intros e0; rewrite D; discriminate|unfold is_cow_ty; rewrite D; reflexivity]. }
    inversion Hs as [fin0|ts0 fin0 Hc|n ts0 mid fin0 Hn Hc Hs']; subst.
    - split; [exists ["["; "]"]; reflexivity|]. intros _ _. split; [reflexivity|]. split; [cbn [List.length]; lia|].
      intros fuel Hf. destruct fuel as [|f]; [cbn [List.length] in Hf; lia|].
      enter L D. reflexivity.
    - destruct (proj1 Hc) as (pre & Hpre). pose proof (suffix_len _ _ _ Hpre) as L1. cbn [List.length] in L1.
      split; [exists ("[" :: pre ++ ["]"]); rewrite Hpre; cbn [app]; rewrite <- app_assoc; reflexivity|].
      intros _ Hnin. split; [reflexivity|]. split; [cbn [List.length]; lia|].
      intros fuel Hf. destruct fuel as [|f]; [cbn [List.length] in Hf; lia|]. cbn [List.length] in Hf.
      assert (Hnts : ~ In empty_str_lit ts) by (intros Hi; apply Hnin; right; exact Hi).
      destruct (child_read f e ts _ Hc eq_refl Hnts ltac:(cbn [List.length]; lia)) as [K Hhd].
      enter L D. change (RunC14.expect "[" ("[" :: ts)) with (Some ts). cbn [obind].
      destruct ts as [|t0 l]; [cbn [List.length] in L1; lia|].
      refine (eq_trans (match_rbracket (fun rest0 => if (1 =? 0)%N then Some rest0 else None) _ t0 l
                          (hd_is_false_neq _ _ _ Hhd)) _).
      rewrite K. reflexivity.
    - destruct (proj1 Hc) as (pre & Hpre). pose proof (suffix_len _ _ _ Hpre) as L1. cbn [List.length] in L1.
      destruct (proj1 (sep_read 0 e n mid _ Hs' rest eq_refl Hn)) as (pre2 & Hpre2).
      pose proof (suffix_len _ _ _ Hpre2) as L2. cbn [List.length] in L2.
      split.
      { exists ("[" :: pre ++ "," :: pre2 ++ ["]"]). rewrite Hpre, Hpre2. cbn [app].
        rewrite <- !app_assoc. cbn [app]. rewrite <- app_assoc. reflexivity. }
      intros _ Hnin. split; [reflexivity|]. split; [cbn [List.length]; lia|].
      intros fuel Hf. destruct fuel as [|f]; [cbn [List.length] in Hf; lia|]. cbn [List.length] in Hf.
      assert (Hnts : ~ In empty_str_lit ts) by (intros Hi; apply Hnin; right; exact Hi).
      assert (Hnmid : ~ In empty_str_lit mid).
      { apply (notin_suffix _ _ _ _ Hpre) in Hnts. intros Hi. apply Hnts. right. exact Hi. }
      destruct (child_read f e ts _ Hc eq_refl Hnts ltac:(cbn [List.length]; lia)) as [K Hhd].
      destruct (sep_read f e n mid _ Hs' rest eq_refl Hn) as [_ Ks].
      destruct (Ks Hnmid ltac:(cbn [List.length]; lia)) as [_ Kr].
      enter L D. change (RunC14.expect "[" ("[" :: ts)) with (Some ts). cbn [obind].
      destruct ts as [|t0 l]; [cbn [List.length] in L1; lia|].
      refine (eq_trans (match_rbracket (fun rest0 => if (N.succ n =? 0)%N then Some rest0 else None) _ t0 l
                          (hd_is_false_neq _ _ _ Hhd)) _).
      rewrite K. cbn [obind]. cbv beta iota.
      rewrite (Kr (S (List.length mid)) 1%N ltac:(lia)). cbn [obind fst snd].
      replace (1 + n =? N.succ n)%N with true by (symmetry; apply N.eqb_eq; lia). reflexivity.
  Qed.

  Lemma case_tuple id t l ts rest :
    lookup r id = Some t -> t_def t = TDTuple l ->
    conf_tuple P l ts (")" :: rest) -> P id ("(" :: ts) rest.
  Proof.
    intros L D Ht.
    assert (Hcw : cw id = 0%nat).
    { apply (cw_plain id t L); [intros e0; rewrite D; discriminate|unfold is_cow_ty; rewrite D; reflexivity]. }
    destruct (proj1 (tuple_read 0 l ts _ Ht true)) as (pre & Hpre).
    pose proof (suffix_len _ _ _ Hpre) as L1. cbn [List.length] in L1.
    split; [exists ("(" :: pre ++ [")"]); rewrite Hpre; cbn [app]; rewrite <- app_assoc; reflexivity|].
    intros _ Hnin. split; [reflexivity|]. split; [cbn [List.length]; lia|].
    intros fuel Hf. destruct fuel as [|f]; [cbn [List.length] in Hf; lia|]. cbn [List.length] in Hf.
    assert (Hnts : ~ In empty_str_lit ts) by (intros Hi; apply Hnin; right; exact Hi).
    enter L D. change (RunC14.expect "(" ("(" :: ts)) with (Some ts). cbn [obind].
    destruct (tuple_read f l ts _ Ht (match l with [_] => true | _ => false end)) as [_ K].
    rewrite (K Hnts ltac:(cbn [List.length]; lia)). reflexivity.
  Qed.

  Lemma case_cow id t fs inner ts rest :
    lookup r id = Some t -> t_def t = TDComposite fs -> cow_inner t = Some inner ->
    P inner ts rest -> P id ts rest.
  Proof.
    intros L D Hcow [Hs Hr]. split; [exact Hs|]. intros Hh Hn. destruct (Hr Hh Hn) as (H1 & H2 & H3).
    assert (Hcw : cw id = 1%nat).
    { rewrite (cw_self id t L) by (intros e0; rewrite D; discriminate).
      unfold is_cow_ty. rewrite D, Hcow. reflexivity. }
    assert (Hci : cw inner = 0%nat).
    { pose proof (scope_entry id t L) as Hse. unfold entry_scopeb in Hse. rewrite D, Hcow in Hse.
      unfold cw, len. destruct (strip_compact r (S (List.length r)) inner) as [[i' t']|]; [|reflexivity].
      apply negb_true_iff in Hse. rewrite Hse. reflexivity. }
    destruct Hs as (e & He). pose proof (suffix_len _ _ _ He) as L1.
    rewrite Hcw. split; [exact H1|]. split; [lia|].
    intros fuel Hf. destruct fuel as [|f]; [lia|].
    enter L D. unfold cow_inner in Hcow. rewrite Hcow. apply H3. lia.
  Qed.

  Lemma foreign_item p :
    foreign_path_okb root p = true ->
    exists x q, p = x :: q /\ x <> "]" /\ x <> "None" /\ item_of_path root pm p = Some None.
  Proof.
    unfold foreign_path_okb. destruct p as [|x q]; [discriminate|]. intros H.
    apply andb_prop in H as [H H3]. apply andb_prop in H as [H1 H2].
    apply negb_true_iff in H1, H2. apply String.eqb_neq in H1, H2.
    exists x, q. split; [reflexivity|]. split; [exact H1|]. split; [exact H2|].
    unfold item_of_path. destruct (rel_segments (x :: q)) as [[|y l]|]; try reflexivity.
    apply negb_true_iff in H3. rewrite H3. reflexivity.
  Qed.

  Lemma foreign_scope id t p :
    lookup r id = Some t -> item_eligible s t = false -> path_omit_generics r s id = Ok p ->
    foreign_okb r s id t = true -> foreign_path_okb root p = true.
  Proof. intros L He Hp H. unfold foreign_okb in H. rewrite He, Hp in H. exact H. Qed.

  Lemma case_struct_item id t fs p id0 ir Ly mk ts rest :
    lookup r id = Some t -> t_def t = TDComposite fs -> cow_inner t = None ->
    item_eligible s t = true -> path_omit_generics r s id = Ok p ->
    items_get m (t_path t) = Some (id0, ir) -> sig_of_ir ir = ISStruct Ly mk ->
    conf_shape P Ly mk fs ts rest -> P id (p ++ ts) rest.
  Proof.
    intros L D Hcow He Hp Hg Hsig Hsh.
    assert (Hcw : cw id = 0%nat).
    { apply (cw_plain id t L); [intros e0; rewrite D; discriminate|unfold is_cow_ty; rewrite D, Hcow; reflexivity]. }
    destruct (struct_item_facts id t fs id0 ir Ly mk L D He Hg Hsig) as (HL & Henum & Hshape).
    pose proof (cow_none_not_cow r s id t p (lookup_resolve r id t L) Hcow Hp) as Hnc.
    destruct (item_of_literal id t p id0 ir L He Hnc Hp Hg) as (Hitem & (x & q & Ep & Ex) & _).
    subst p x.
    destruct (proj1 (shape_read 0 Ly mk fs ts rest Hsh HL)) as (e & He').
    pose proof (suffix_len _ _ _ He') as L1.
    split; [exists ((root :: q) ++ e); rewrite He', app_assoc; reflexivity|].
    intros Hh Hnin. split; [cbn [app Unparse.hd_is]; apply teq_neq; exact root_not_rbracket|].
    split; [rewrite app_length; cbn [List.length]; lia|].
    intros fuel Hf. destruct fuel as [|f]; [rewrite app_length in Hf; cbn [List.length] in Hf; lia|].
    rewrite app_length in Hf. cbn [List.length] in Hf.
    destruct (shape_read f Ly mk fs ts rest Hsh HL) as [_ K].
    destruct (K Hh (notin_app_r _ _ Hnin) ltac:(lia)) as [Kr _].
    enter L D. unfold cow_inner in Hcow. rewrite Hcow.
    unfold paths. rewrite (observed_model_path r s id t _ L Hp). cbn [obind].
    rewrite expects_app. cbn [obind]. rewrite Hitem, Henum, Hshape. cbn [obind]. exact Kr.
  Qed.

  Lemma case_struct_foreign id t fs p Ly mk ts rest :
    lookup r id = Some t -> t_def t = TDComposite fs -> cow_inner t = None ->
    item_eligible s t = false -> path_omit_generics r s id = Ok p ->
    layout_of_fields fs = Some Ly ->
    conf_shape P Ly mk fs ts rest -> P id (p ++ ts) rest.
  Proof.
    intros L D Hcow He Hp HL Hsh.
    assert (Hcw : cw id = 0%nat).
    { apply (cw_plain id t L); [intros e0; rewrite D; discriminate|unfold is_cow_ty; rewrite D, Hcow; reflexivity]. }
    pose proof (scope_entry id t L) as Hse. unfold entry_scopeb in Hse. rewrite D, Hcow in Hse.
    destruct (foreign_item p (foreign_scope id t p L He Hp Hse)) as (x & q & Ep & Hx1 & Hx2 & Hitem).
    subst p.
    destruct (proj1 (shape_read 0 Ly mk fs ts rest Hsh HL)) as (e & He').
    pose proof (suffix_len _ _ _ He') as L1.
    split; [exists ((x :: q) ++ e); rewrite He', app_assoc; reflexivity|].
    intros Hh Hnin. split; [cbn [app Unparse.hd_is]; apply teq_neq; exact Hx1|].
    split; [rewrite app_length; cbn [List.length]; lia|].
    intros fuel Hf. destruct fuel as [|f]; [rewrite app_length in Hf; cbn [List.length] in Hf; lia|].
    rewrite app_length in Hf. cbn [List.length] in Hf.
    destruct (shape_read f Ly mk fs ts rest Hsh HL) as [_ K].
    destruct (K Hh (notin_app_r _ _ Hnin) ltac:(lia)) as [_ Kr].
    enter L D. unfold cow_inner in Hcow. rewrite Hcow.
    unfold paths. rewrite (observed_model_path r s id t _ L Hp). cbn [obind].
    rewrite expects_app. cbn [obind]. rewrite Hitem. exact Kr.
  Qed.

  Lemma variant_scope id t vs :
    lookup r id = Some t -> t_def t = TDVariant vs ->
    path_ident (t_path t) <> Some "Cow" /\ NoDup (map v_name vs) /\ foreign_okb r s id t = true /\
    (path_omit_generics r s id = Ok ["Option"] -> t_path t = ["Option"]).
  Proof.
    intros L D. pose proof (scope_entry id t L) as Hse. unfold entry_scopeb in Hse. rewrite D in Hse.
    apply andb_prop in Hse as [Hse H4]. apply andb_prop in Hse as [Hse H3]. apply andb_prop in Hse as [H1 H2].
    split; [|split; [apply nodup_strb_sound; exact H2|split; [exact H3|]]].
    - intros E. rewrite E in H1. discriminate H1.
    - intros Hp. rewrite Hp in H4. cbn [list_eqb] in H4.
      change (String.eqb "Option" "Option") with true in H4. cbn [andb] in H4.
      apply (list_eqb_sound String.eqb (fun x y => proj1 (String.eqb_eq x y))). exact H4.
  Qed.

  Definition none_test (vs : list variant) : bool :=
    existsb (fun v => String.eqb (v_name v) "None" && match v_fields v with [] => true | _ => false end) vs.

  Lemma case_variant_item id t vs v p id0 ir sigs Ly ts rest :
    lookup r id = Some t -> t_def t = TDVariant vs -> In v vs ->
    item_eligible s t = true -> path_omit_generics r s id = Ok p ->
    items_get m (t_path t) = Some (id0, ir) -> sig_of_ir ir = ISEnum sigs ->
    In (v_name v, Ly) sigs ->
    conf_shape P Ly false (v_fields v) ts rest ->
    P id (p ++ ":" :: ":" :: v_name v :: ts) rest.
  Proof.
    intros L D Hv He Hp Hg Hsig Hin Hsh.
    assert (Hcw : cw id = 0%nat).
    { apply (cw_plain id t L); [intros e0; rewrite D; discriminate|unfold is_cow_ty; rewrite D; reflexivity]. }
    destruct (variant_scope id t vs L D) as (Hnc & Hnd & _ & _).
    destruct (variant_item_facts id t vs v id0 ir sigs Ly L D Hv He Hg Hsig Hin) as (HL & Henum & pv & Hfind & Hshape).
    destruct (item_of_literal id t p id0 ir L He Hnc Hp Hg) as (Hitem & (x & q & Ep & Ex) & (a & b & l & Epath)).
    subst p x.
    destruct (proj1 (shape_read 0 Ly false (v_fields v) ts rest Hsh HL)) as (e & He').
    pose proof (suffix_len _ _ _ He') as L1.
    split.
    { exists ((root :: q) ++ ":" :: ":" :: v_name v :: e). rewrite He'. rewrite <- app_assoc. reflexivity. }
    intros Hh Hnin. split; [cbn [app Unparse.hd_is]; apply teq_neq; exact root_not_rbracket|].
    split; [rewrite app_length; cbn [List.length]; lia|].
    intros fuel Hf. destruct fuel as [|f]; [rewrite app_length in Hf; cbn [List.length] in Hf; lia|].
    rewrite app_length in Hf. cbn [List.length] in Hf.
    destruct (shape_read f Ly false (v_fields v) ts rest Hsh HL) as [_ K].
    assert (Hnts : ~ In empty_str_lit ts).
    { apply notin_app_r in Hnin. intros Hi. apply Hnin. right; right; right. exact Hi. }
    destruct (K Hh Hnts ltac:(lia)) as [Kr _].
    enter L D.
    assert (Hno : t_path t <> ["Option"]) by (rewrite Epath; discriminate).
    set (B := obind (observed_path paths id) _).
    refine (eq_trans (match_none (fun rest0 : toks =>
                          if existsb (fun v0 : variant =>
                                        String.eqb (v_name v0) "None" &&
                                        match v_fields v0 with [] => true | _ => false end) vs
                          then Some rest0 else None) B
                        ((root :: q) ++ ":" :: ":" :: v_name v :: ts) (t_path t)
                        (or_intror Hno)) _). unfold B. clear B.
    unfold paths. rewrite (observed_model_path r s id t _ L Hp). cbn [obind].
    rewrite expects_app. cbn [obind app]. cbv beta iota.
    rewrite (find_key_nodup v_name vs v Hnd Hv).
    rewrite Hitem, Henum, Hfind, Hshape. cbn [obind]. exact Kr.
  Qed.

  Lemma case_variant_foreign id t vs v p Ly ts rest :
    lookup r id = Some t -> t_def t = TDVariant vs -> In v vs ->
    item_eligible s t = false -> path_omit_generics r s id = Ok p ->
    layout_of_fields (v_fields v) = Some Ly ->
    conf_shape P Ly false (v_fields v) ts rest ->
    P id (p ++ ":" :: ":" :: v_name v :: ts) rest.
  Proof.
    intros L D Hv He Hp HL Hsh.
    assert (Hcw : cw id = 0%nat).
    { apply (cw_plain id t L); [intros e0; rewrite D; discriminate|unfold is_cow_ty; rewrite D; reflexivity]. }
    destruct (variant_scope id t vs L D) as (_ & Hnd & Hfo & _).
    destruct (foreign_item p (foreign_scope id t p L He Hp Hfo)) as (x & q & Ep & Hx1 & Hx2 & Hitem).
    subst p.
    destruct (proj1 (shape_read 0 Ly false (v_fields v) ts rest Hsh HL)) as (e & He').
    pose proof (suffix_len _ _ _ He') as L1.
    split.
    { exists ((x :: q) ++ ":" :: ":" :: v_name v :: e). rewrite He'. rewrite <- app_assoc. reflexivity. }
    intros Hh Hnin. split; [cbn [app Unparse.hd_is]; apply teq_neq; exact Hx1|].
    split; [rewrite app_length; cbn [List.length]; lia|].
    intros fuel Hf. destruct fuel as [|f]; [rewrite app_length in Hf; cbn [List.length] in Hf; lia|].
    rewrite app_length in Hf. cbn [List.length] in Hf.
    destruct (shape_read f Ly false (v_fields v) ts rest Hsh HL) as [_ K].
    assert (Hnts : ~ In empty_str_lit ts).
    { apply notin_app_r in Hnin. intros Hi. apply Hnin. right; right; right. exact Hi. }
    destruct (K Hh Hnts ltac:(lia)) as [_ Kr].
    enter L D.
    assert (Hnn : Unparse.hd_is "None" ((x :: q) ++ ":" :: ":" :: v_name v :: ts) = false)
      by (cbn [app Unparse.hd_is]; apply teq_neq; exact Hx2).
    set (B := obind (observed_path paths id) _).
    refine (eq_trans (match_none (fun rest0 : toks =>
                          if existsb (fun v0 : variant =>
                                        String.eqb (v_name v0) "None" &&
                                        match v_fields v0 with [] => true | _ => false end) vs
                          then Some rest0 else None) B
                        ((x :: q) ++ ":" :: ":" :: v_name v :: ts) (t_path t)
                        (or_introl Hnn)) _). unfold B. clear B.
    unfold paths. rewrite (observed_model_path r s id t _ L Hp). cbn [obind].
    rewrite expects_app. cbn [obind app]. cbv beta iota.
    rewrite (find_key_nodup v_name vs v Hnd Hv).
    rewrite Hitem. exact Kr.
  Qed.

  Lemma case_none id t vs v rest :
    lookup r id = Some t -> t_def t = TDVariant vs -> In v vs ->
    v_name v = "None" -> v_fields v = [] ->
    path_omit_generics r s id = Ok ["Option"] -> P id ("None" :: rest) rest.
  Proof.
    intros L D Hv Hn Hf0 Hp.
    assert (Hcw : cw id = 0%nat).
    { apply (cw_plain id t L); [intros e0; rewrite D; discriminate|unfold is_cow_ty; rewrite D; reflexivity]. }
    destruct (variant_scope id t vs L D) as (_ & _ & _ & Hopt). specialize (Hopt Hp).
    split; [exists ["None"]; reflexivity|]. intros _ _. split; [reflexivity|].
    split; [cbn [List.length]; lia|].
    intros fuel Hf. destruct fuel as [|f]; [cbn [List.length] in Hf; lia|].
    enter L D. rewrite Hopt. cbv beta iota.
    assert (Hex : none_test vs = true).
    { apply existsb_exists. exists v. split; [exact Hv|]. rewrite Hn, Hf0. reflexivity. }
    unfold none_test in Hex. rewrite Hex. reflexivity.
  Qed.

  (** ** the relation implies acceptance by the reader's [conf], with explicit fuel *)
  Theorem conforms_P id ts rest : conforms r s m id ts rest -> P id ts rest.
  Proof.
    apply (conforms_sind r s m P).
    - exact case_prim.
    - exact case_compact.
    - exact case_bits.
    - exact case_seq.
    - exact case_array_repeat.
    - exact case_array_list.
    - exact case_tuple.
    - exact case_cow.
    - exact case_struct_item.
    - exact case_struct_foreign.
    - exact case_variant_item.
    - exact case_variant_foreign.
    - exact case_none.
  Qed.

  Theorem conformsb_of_conforms id ts :
    conforms r s m id ts [] -> ~ In empty_str_lit ts ->
    conformsb r (s_root s) (Some (pmod_of_items s m)) (model_paths r s) id ts = true.
  Proof.
    intros H Hn. destruct (conforms_P id ts [] H) as [_ K].
    destruct (K eq_refl Hn) as (_ & _ & Kf). unfold conformsb.
    fold root. fold pm. fold paths.
    rewrite (Kf (S (List.length ts))); [reflexivity|]. pose proof (cw_le1 id). cbn [List.length]. lia.
  Qed.
End Tie.

(** * K. through emission and parsing: the reader runs on [parse_module] of the emitted tokens *)
Theorem conformsb_of_ir (r : registry) (s : settings) (teq : N -> N -> result bool) (m : items) (toks : tokens) :
  generate r s teq = Ok m -> skeleton_consistent r s -> reader_scopeb r s m = true ->
  items_plain s m = true -> emit_module s m = Ok toks ->
  forall (id : N) (ts : tokens),
    conforms r s m id ts [] -> ~ In empty_str_lit ts ->
    conformsb r (s_root s) (parse_module toks) (model_paths r s) id ts = true.
Proof.
  intros Hg Hsk Hsc Hp He id ts Hc Hn. rewrite (emit_parses s m toks He Hp).
  exact (conformsb_of_conforms r s teq m Hg Hsk Hsc id ts Hc Hn).
Qed.

(** every Ok example of the model is accepted by the token-level reader on the parse of the model's
    own emission *)
Theorem conforms_tokens (r : registry) (s : settings) (teq : N -> N -> result bool) (m : items) (toks : tokens) :
  generate r s teq = Ok m -> skeleton_consistent r s -> reader_scopeb r s m = true ->
  items_plain s m = true -> emit_module s m = Ok toks ->
  forall (id : N) (ws : words) (ts : tokens),
    example_rust r s id ws = XOk ts -> ~ In empty_str_lit ts ->
    conformsb r (s_root s) (parse_module toks) (model_paths r s) id ts = true.
Proof.
  intros Hg Hsk Hsc Hp He id ws ts Hx Hn.
  apply (conformsb_of_ir r s teq m toks Hg Hsk Hsc Hp He id ts); [|exact Hn].
  exact (example_conforms r s teq m Hg Hsk id ws ts Hx).
Qed.

(** the explicit-fuel form, for every remainder [rest] that does not start a group *)
Theorem conf_of_conforms (r : registry) (s : settings) (teq : N -> N -> result bool) (m : items) :
  generate r s teq = Ok m -> skeleton_consistent r s -> reader_scopeb r s m = true ->
  forall (id : N) (ts rest : tokens),
    conforms r s m id ts rest -> Unparse.hd_is "(" rest = false -> ~ In empty_str_lit ts ->
    forall fuel, (List.length ts + 1 <= fuel + List.length rest)%nat ->
    conf r (s_root s) (Some (pmod_of_items s m)) (model_paths r s) fuel id ts = Some rest.
Proof.
  intros Hg Hsk Hsc id ts rest Hc Hh Hn fuel Hf.
  destruct (conforms_P r s teq m Hg Hsk Hsc id ts rest Hc) as [_ K].
  destruct (K Hh Hn) as (_ & _ & Kf). apply Kf. pose proof (cw_le1 r id). lia.
Qed.

(** * L. the model never prints the empty string literal *)
Definition noE (v : tokens) : bool := forallb (fun t => negb (String.eqb t empty_str_lit)) v.

(** no literal path contains the token [""] (path tokens are identifiers and punctuation in practice) *)
Definition literal_paths_plainb (r : registry) (s : settings) : bool :=
  forallb (fun i => match path_omit_generics r s i with Ok p => noE p | _ => true end) (ids_of r).

Lemma noE_app a b : noE (a ++ b) = noE a && noE b.
Proof. apply forallb_app. Qed.

Lemma noE_In v : noE v = true -> ~ In empty_str_lit v.
Proof.
  unfold noE. intros H Hi. rewrite forallb_forall in H. specialize (H _ Hi).
  rewrite String.eqb_refl in H. discriminate H.
Qed.

Lemma noE_concat : forall l, Forall (fun v => noE v = true) l -> noE (List.concat l) = true.
Proof.
  induction 1 as [|v l Hv _ IH]; [reflexivity|]. cbn [List.concat]. rewrite noE_app, Hv, IH. reflexivity.
Qed.

Lemma lit_ne_E d suf x y z : suf = String x (String y z) -> (x <> """"%char \/ z <> "") ->
  String.eqb (d ++ suf)%string empty_str_lit = false.
Proof.
  intros -> Hx. apply String.eqb_neq. intros H. unfold empty_str_lit, quote_with in H. cbn in H.
  destruct d as [|a [|b d]]; cbn in H; inversion H; subst.
  - destruct Hx as [Hx|Hx]; congruence.
  - destruct d; discriminate.
Qed.

Lemma ident_ne_E x : ident_lexb x = true -> String.eqb x empty_str_lit = false.
Proof. intros H. apply String.eqb_neq. intros ->. discriminate H. Qed.

Lemma noE_lit_u suf x y z n : suf = String x (String y z) -> (x <> """"%char \/ z <> "") ->
  noE [lit_u suf n] = true.
Proof. intros Hs Hx. cbn [noE forallb]. unfold lit_u. rewrite (lit_ne_E _ suf x y z Hs Hx). reflexivity. Qed.

Lemma noE_lit_i suf x y z v : suf = String x (String y z) -> (x <> """"%char \/ z <> "") ->
  noE (lit_i suf v) = true.
Proof.
  intros Hs Hx. unfold lit_i. destruct (v <? 0)%Z; cbn [noE forallb]; rewrite (lit_ne_E _ suf x y z Hs Hx); reflexivity.
Qed.

Lemma noE_lit_u8 n : noE [lit_u "u8" n] = true.
Proof. apply (noE_lit_u "u8" "u"%char "8"%char "" n eq_refl). left. discriminate. Qed.

Lemma lit_usize_ne_E n : String.eqb (lit_u "usize" n) empty_str_lit = false.
Proof. unfold lit_u. apply (lit_ne_E _ "usize" "u"%char "s"%char "ize" eq_refl). left. discriminate. Qed.

Lemma noE_u256 b : noE (u256_tokens b) = true.
Proof.
  unfold u256_tokens. rewrite !noE_app.
  assert (K : noE (sep_by [","] (map (fun n => [lit_u "u8" n]) b)) = true).
  { induction b as [|n b IH]; [reflexivity|]. destruct b as [|n2 b].
    - apply noE_lit_u8.
    - change (sep_by [","] (map (fun n => [lit_u "u8" n]) (n :: n2 :: b)))
        with ([lit_u "u8" n] ++ [","] ++ sep_by [","] (map (fun n => [lit_u "u8" n]) (n2 :: b))).
      rewrite !noE_app, IH, noE_lit_u8. reflexivity. }
  rewrite K. reflexivity.
Qed.

Lemma prim_example_noE p : Sat (fun v => noE v = true) (prim_example p).
Proof.
  intros st v st' H.
  destruct p; cbn [prim_example] in H; apply xbind_ok in H as (a & st1 & H1 & H);
    apply xret_ok in H; subst v.
  - destruct a; reflexivity.
  - apply xchoose_unwrap_ok in H1. unfold example_chars in H1. cbn [In] in H1.
    repeat (destruct H1 as [<-|H1]; [reflexivity|]). destruct H1.
  - apply xchoose_unwrap_ok in H1. unfold example_strings in H1. cbn [In] in H1.
    repeat (destruct H1 as [<-|H1]; [reflexivity|]). destruct H1.
  - apply (noE_lit_u "u8" "u"%char "8"%char "" a eq_refl). left; discriminate.
  - apply (noE_lit_u "u16" "u"%char "1"%char "6" a eq_refl). left; discriminate.
  - apply (noE_lit_u "u32" "u"%char "3"%char "2" a eq_refl). left; discriminate.
  - apply (noE_lit_u "u64" "u"%char "6"%char "4" a eq_refl). left; discriminate.
  - apply (noE_lit_u "u128" "u"%char "1"%char "28" a eq_refl). left; discriminate.
  - apply noE_u256.
  - apply (noE_lit_i "i8" "i"%char "8"%char "" a eq_refl). left; discriminate.
  - apply (noE_lit_i "i16" "i"%char "1"%char "6" a eq_refl). left; discriminate.
  - apply (noE_lit_i "i32" "i"%char "3"%char "2" a eq_refl). left; discriminate.
  - apply (noE_lit_i "i64" "i"%char "6"%char "4" a eq_refl). left; discriminate.
  - apply (noE_lit_i "i128" "i"%char "1"%char "28" a eq_refl). left; discriminate.
  - apply noE_u256.
Qed.

Section NoEmpty.
  Variables (r : registry) (s : settings).
  Hypothesis Hpaths : literal_paths_plainb r s = true.
  Let Q (v : tokens) : Prop := noE v = true.

  Lemma path_noE id t p : lookup r id = Some t -> path_omit_generics r s id = Ok p -> noE p = true.
  Proof.
    intros L Hp. pose proof (lookup_lt r id t L) as Hlt.
    unfold literal_paths_plainb in Hpaths. rewrite forallb_forall in Hpaths.
    assert (Hin : In id (ids_of r)).
    { unfold ids_of. apply in_map_iff. exists (N.to_nat id). split; [apply N2Nat.id|]. apply in_seq. lia. }
    specialize (Hpaths id Hin). rewrite Hp in Hpaths. exact Hpaths.
  Qed.

  Lemma wrap_noE f v : Q v -> Q (wrap_compact f v).
  Proof.
    unfold Q, wrap_compact. intros H. destruct (explicit_compact f); [|exact H].
    rewrite !noE_app, H. reflexivity.
  Qed.

  Lemma format_ident_lex x st y st' : format_ident x st = XOk (y, st') -> y = x /\ ident_lexb x = true.
  Proof.
    unfold format_ident. destruct (ident_lexb x) eqn:E; [|discriminate].
    intros H. apply xret_ok in H. split; [exact H|reflexivity].
  Qed.

  Lemma named_field_noE rec f : (forall j, Sat Q (rec j)) -> Sat Q (named_field rec f).
  Proof.
    intros Hrec st v st' H. unfold named_field in H. destruct (f_name f) as [n|]; [|discriminate].
    apply xbind_ok in H as (id & st1 & Hid & H). apply format_ident_lex in Hid as [-> Hlex].
    apply xbind_ok in H as (x & st2 & Hx & H). apply xret_ok in H. subst v.
    pose proof (wrap_noE f x (Hrec _ _ _ _ Hx)) as Hw. unfold Q in *.
    rewrite !noE_app, Hw. cbn [noE forallb]. rewrite (ident_ne_E n Hlex). reflexivity.
  Qed.

  Lemma unnamed_field_noE rec f : (forall j, Sat Q (rec j)) -> Sat Q (unnamed_field rec f).
  Proof.
    intros Hrec st v st' H. unfold unnamed_field in H.
    apply xbind_ok in H as (x & st2 & Hx & H). apply xret_ok in H. subst v.
    pose proof (wrap_noE f x (Hrec _ _ _ _ Hx)) as Hw. unfold Q in *.
    rewrite !noE_app, Hw. reflexivity.
  Qed.

  Lemma Forall2_right {A B} (R : B -> Prop) (l : list A) (l' : list B) :
    Forall2 (fun _ y => R y) l l' -> Forall R l'.
  Proof. induction 1; constructor; assumption. Qed.

  Lemma fields_example_noE rec fs u : (forall j, Sat Q (rec j)) -> Sat Q (fields_example rec fs u).
  Proof.
    intros Hrec st v st' H. unfold fields_example in H.
    destruct (all_named fs), (all_unnamed fs).
    - apply xret_ok in H. subst v. destruct u; reflexivity.
    - apply xbind_ok in H as (l & st1 & Hl & H). apply xret_ok in H. subst v.
      apply (xmmapM_ok (fun _ y => Q y)) in Hl; [|intros x _; apply named_field_noE; exact Hrec].
      apply Forall2_right in Hl. apply noE_concat in Hl. unfold Q. rewrite !noE_app, Hl.
      destruct u; reflexivity.
    - apply xbind_ok in H as (l & st1 & Hl & H). apply xret_ok in H. subst v.
      apply (xmmapM_ok (fun _ y => Q y)) in Hl; [|intros x _; apply unnamed_field_noE; exact Hrec].
      apply Forall2_right in Hl. apply noE_concat in Hl. unfold Q. rewrite !noE_app, Hl.
      destruct u; reflexivity.
    - discriminate H.
  Qed.

  Lemma copies_noE x : Q x -> forall len, Q (copies len x).
  Proof.
    intros Hx len. unfold copies. rewrite N2Nat.inj_iter. generalize (N.to_nat len). intros k.
    induction k as [|k IH]; [reflexivity|]. destruct k as [|k'].
    - cbn. unfold Q in Hx. exact Hx.
    - change (Nat.iter (S (S k')) (fun acc => x :: acc) [])
        with (x :: Nat.iter (S k') (fun acc => x :: acc) []).
      change (Nat.iter (S k') (fun acc => x :: acc) [])
        with (x :: Nat.iter k' (fun acc => x :: acc) []) in *.
      cbn [sep_by] in *. unfold Q in *. rewrite !noE_app, Hx. exact IH.
  Qed.

  Lemma flat_noE : forall l, Forall Q l -> Q (flat_map (fun v => v ++ [","]) l).
  Proof.
    induction 1 as [|v l Hv _ IH]; [reflexivity|]. cbn [flat_map]. unfold Q in *.
    rewrite !noE_app, Hv, IH. reflexivity.
  Qed.

  Lemma ty_go_noE (rec : N -> M tokens) :
    (forall j, Sat Q (rec j)) ->
    forall fi id t, lookup r id = Some t -> Sat Q (ty_go r s rec fi id t).
  Proof.
    intros Hrec. induction fi as [|fi IH]; intros id t L st v st' H; [discriminate|].
    cbn [ty_go] in H. destruct (t_def t) eqn:D.
    - destruct (cow_inner t) as [inner|] eqn:Ec; unfold cow_inner in Ec; rewrite Ec in H.
      { eapply Hrec; eauto. }
      apply xbind_ok in H as (p & st1 & Hp & H). apply xlift_ok in Hp.
      apply xbind_ok in H as (u & st2 & Hu & H).
      apply xbind_ok in H as (f & st3 & Hf & H). apply xret_ok in H. subst v.
      apply (fields_example_noE rec fs u Hrec) in Hf. unfold Q in *.
      rewrite noE_app, (path_noE id t p L Hp), Hf. reflexivity.
    - apply xbind_ok in H as (p & st1 & Hp & H). apply xlift_ok in Hp.
      apply xbind_ok in H as (o & st2 & Ho & H).
      destruct o as [vr|]; [|discriminate].
      apply xbind_ok in H as (vi & st3 & Hvi & H). apply format_ident_lex in Hvi as [-> Hlex].
      apply xbind_ok in H as (f & st4 & Hf & H). apply xret_ok in H.
      apply (fields_example_noE rec (v_fields vr) false Hrec) in Hf. unfold Q in *.
      destruct (list_eqb String.eqb (p ++ [":"; ":"; v_name vr] ++ f) ["Option"; ":"; ":"; "None"]%string);
        subst v; [reflexivity|].
      rewrite !noE_app, (path_noE id t p L Hp), Hf. cbn [noE forallb].
      rewrite (ident_ne_E _ Hlex). reflexivity.
    - apply xbind_ok in H as (te & st1 & Hte & H). unfold resolve_type_m in Hte.
      destruct (lookup r t0) as [te'|] eqn:Le; [|discriminate]. apply xret_ok in Hte. subst te'.
      apply xbind_ok in H as (a & st2 & Ha & H). apply xbind_ok in H as (b & st3 & Hb & H).
      apply xret_ok in H. subst v.
      pose proof (IH t0 te Le _ _ _ Ha) as HA. pose proof (IH t0 te Le _ _ _ Hb) as HB. unfold Q in *.
      rewrite !noE_app, HA, HB. reflexivity.
    - apply xbind_ok in H as (te & st1 & Hte & H). unfold resolve_type_m in Hte.
      destruct (lookup r t0) as [te'|] eqn:Le; [|discriminate]. apply xret_ok in Hte. subst te'.
      apply xbind_ok in H as (item & st2 & Hitem & H). apply xbind_ok in H as (cp & st3 & Hcp & H).
      apply xret_ok in H. subst v.
      pose proof (IH t0 te Le _ _ _ Hitem) as HI.
      destruct cp; unfold Q in *; rewrite !noE_app.
      + rewrite HI. cbn [noE forallb]. rewrite lit_usize_ne_E. reflexivity.
      + rewrite (copies_noE item HI len). reflexivity.
    - apply xbind_ok in H as (l & st1 & Hl & H). apply xret_ok in H. subst v.
      apply (xmmapM_ok (fun _ y => Q y)) in Hl; [|intros j _; apply Hrec].
      apply Forall2_right in Hl. apply flat_noE in Hl. unfold Q in *. rewrite !noE_app, Hl. reflexivity.
    - eapply prim_example_noE; eauto.
    - eapply Hrec; eauto.
    - apply xret_ok in H. subst v. reflexivity.
  Qed.

  Lemma resolve_go_noE : forall fo id, Sat Q (resolve_go r s fo id).
  Proof.
    induction fo as [|fo IH]; intros id st v st' H; [discriminate|].
    cbn [resolve_go] in H. destruct (lookup r id) as [t|] eqn:L; [|discriminate].
    assert (K : forall st1, match ty_go r s (resolve_go r s fo) (inner_fuel r) id t st1 with
                            | XOk (v0, s') => XOk (v0, (cache_set id (CComputed v0) (fst s'), snd s'))
                            | XErr e => XErr e
                            | XPanic msg => XPanic msg
                            end = XOk (v, st') -> Q v).
    { intros st1 K. destruct (ty_go r s (resolve_go r s fo) (inner_fuel r) id t st1) as [[v0 s']|e|msg] eqn:E;
        try discriminate. inversion K; subst. eapply ty_go_noE; eauto. }
    destruct (cache_get (fst st) id) as [[|v0]|]; [discriminate| |]; eapply K; exact H.
  Qed.

  Theorem example_no_empty_lit id ws ts : example_rust r s id ws = XOk ts -> ~ In empty_str_lit ts.
  Proof.
    unfold example_rust, example_run. intros H.
    destruct (resolve_go r s (outer_fuel r) id ([], ws)) as [[v st']|e|msg] eqn:E; try discriminate.
    inversion H; subst. apply noE_In. exact (resolve_go_noE _ _ _ _ _ E).
  Qed.
End NoEmpty.

(** every Ok example of the model is accepted by the token-level reader: no condition on the tokens *)
Theorem conforms_tokens_full (r : registry) (s : settings) (teq : N -> N -> result bool) (m : items) (toks : tokens) :
  generate r s teq = Ok m -> skeleton_consistent r s -> reader_scopeb r s m = true ->
  literal_paths_plainb r s = true ->
  items_plain s m = true -> emit_module s m = Ok toks ->
  forall (id : N) (ws : words) (ts : tokens),
    example_rust r s id ws = XOk ts ->
    conformsb r (s_root s) (parse_module toks) (model_paths r s) id ts = true.
Proof.
  intros Hg Hsk Hsc Hlp Hp He id ws ts Hx.
  exact (conforms_tokens r s teq m toks Hg Hsk Hsc Hp He id ws ts Hx (example_no_empty_lit r s Hlp id ws ts Hx)).
Qed.
