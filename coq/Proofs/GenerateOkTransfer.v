(** C17: generation with the REAL comparison stays successful under a renumbering of the registry
    when [types_equal] is an equivalence relation on every same-path family
    ([teq_equiv_on_families], Model/DedupPerm.v) - the "[Ok] implies [Ok]" the token theorems
    ([C17_permutation_tokens]) leave open.

    The loop compares every item-eligible entry with the FIRST earlier item-eligible entry of its
    path ([comparisons], C03_keep_first_or_error).  Which member is first depends on the order, but
    on an equivalence "all equal to the first" is "pairwise equal", and pairwise verdicts are
    carried over by [types_equal_res_renumber]. *)
From Coq Require Import List NArith String Bool Lia.
From V Require Import Base.Strings Base.Result Model.Registry Model.Settings Model.Subst
  Model.TypePath Model.Derives Model.Generate Model.Emit Model.Equal Model.Shape Model.DedupSpec
  Model.Renumber Model.DedupPerm
  Proofs.GenProofs Proofs.GenTotal Proofs.FidelityGen Proofs.KeepFirst Proofs.DedupGroups
  Proofs.RenumberPerm Proofs.Restriction Proofs.TeqEquivariance Proofs.DedupPerm.
Import ListNotations.
Open Scope list_scope.

(** ** the comparisons the loop performs *)
Lemma cmps_in s : forall l pre id id0 p,
  In (id, id0, p) (cmps s pre l) ->
  exists X X0, In (id, X) l /\ item_eligible s X = true /\ t_path X = p /\
               In (id0, X0) (pre ++ l) /\ item_eligible s X0 = true /\ t_path X0 = p.
Proof.
  induction l as [|[a A] l IH]; intros pre id id0 p H; [destruct H|].
  cbn [cmps] in H. apply in_app_or in H as [H|H].
  - destruct (item_eligible s A) eqn:Ea; [|destruct H].
    destruct (first_eligible pre s (t_path A)) as [[g G]|] eqn:Ef; [|destruct H].
    destruct H as [H|[]]. inversion H; subst id id0 p.
    apply first_eligible_some in Ef as (Hin & Hp & He).
    exists A, G. split; [left; reflexivity|]. split; [exact Ea|]. split; [reflexivity|].
    split; [apply in_or_app; left; exact Hin|]. split; [exact He|exact Hp].
  - destruct (IH _ _ _ _ H) as (X & X0 & H1 & H2 & H3 & H4 & H5 & H6).
    exists X, X0. split; [right; exact H1|]. split; [exact H2|]. split; [exact H3|].
    split; [rewrite <- app_assoc in H4; exact H4|]. split; [exact H5|exact H6].
Qed.

(** every item-eligible entry is the first of its path or is compared with it *)
Lemma cmps_covers s : forall l pre p f0 F,
  first_eligible (pre ++ l) s p = Some (f0, F) ->
  forall i X, In (i, X) l -> item_eligible s X = true -> t_path X = p ->
    (i, X) = (f0, F) \/ In (i, f0, p) (cmps s pre l).
Proof.
  induction l as [|[a A] l IH]; intros pre p f0 F Hf i X Hin He Hp; [destruct Hin|].
  cbn [cmps]. destruct Hin as [E|Hin].
  - inversion E; subst a A. rewrite He.
    unfold first_eligible in Hf. rewrite find_app in Hf. fold (first_eligible pre s p) in Hf.
    destruct (first_eligible pre s p) as [[g G]|] eqn:Eg.
    + inversion Hf; subst g G. right. apply in_or_app. left. rewrite Hp, Eg. left; reflexivity.
    + cbn [find snd] in Hf. rewrite Hp, path_eqb_refl, He in Hf. cbn [andb] in Hf.
      inversion Hf; subst. left; reflexivity.
  - assert (Hf' : first_eligible ((pre ++ [(a, A)]) ++ l) s p = Some (f0, F))
      by (rewrite <- app_assoc; exact Hf).
    destruct (IH _ _ _ _ Hf' i X Hin He Hp) as [E|H]; [left; exact E|right].
    apply in_or_app. right; exact H.
Qed.

Lemma item_eligible_rename pi s t : item_eligible s (rename_ty pi t) = item_eligible s t.
Proof.
  unfold item_eligible, rename_ty. cbn [t_path t_def]. rewrite is_composite_or_variant_rename. reflexivity.
Qed.

Lemma item_eligible_eligible s t : item_eligible s t = true -> eligible s t = true.
Proof.
  unfold item_eligible, eligible. intros H. apply andb_prop in H as [H Hn]. apply andb_prop in H as [_ Hs].
  rewrite Hs, Hn. reflexivity.
Qed.

Lemma item_eligible_namespaced s t : item_eligible s t = true -> namespace (t_path t) <> [].
Proof.
  unfold item_eligible. intros H. apply andb_prop in H as [_ Hn].
  destruct (namespace (t_path t)); [discriminate|discriminate].
Qed.

(** what a successful generation says about everything but the comparisons *)
Lemma generate_ok_parts r s teq m :
  generate r s teq = Ok m ->
  ids_consistent r = true /\ sanity_pass r = Ok tt /\
  exists flat, flatten (s_dreg s) r = Ok flat /\ all_ok r s flat r.
Proof.
  intros G. pose proof (generate_sanity _ _ _ _ G) as Hfb.
  split; [apply first_bad_none_iff; exact Hfb|]. split; [rewrite sanity_pass_spec, Hfb; reflexivity|].
  unfold generate in G. apply bind_ok in G as (u & _ & G). apply bind_ok in G as (flat & Hf & G).
  exists flat. split; [exact Hf|]. intros id X Hin He.
  destruct (gen_loop_all_ok r s teq flat r [] m G id X Hin He) as (ir & C).
  split; [eauto|]. exact (gen_loop_lex r s teq flat r [] m G id X ir Hin (item_eligible_eligible _ _ He) C).
Qed.

Lemma entry_at_of_in r id X : ids_consistent r = true -> In (id, X) r -> entry_at r id (t_path X).
Proof.
  intros Hc Hin. pose proof (ids_consistent_In r id X Hc Hin) as Hr. unfold resolve in Hr.
  destruct (nth_error r (N.to_nat id)) as [[i t]|] eqn:E; [|discriminate]. inversion Hr; subst.
  exists (i, X). split; [exact E|reflexivity].
Qed.

(** on an equivalence, "every comparison of the loop answers equal" is "all members of a family
    are pairwise equal" *)
Lemma comparisons_pairwise r s :
  ids_consistent r = true -> teq_equiv_on_families r ->
  Forall (fun c : cmp => types_equal r (fst (fst c)) (snd (fst c)) = Ok true) (comparisons r s) ->
  forall i X j Y, In (i, X) r -> In (j, Y) r ->
    item_eligible s X = true -> item_eligible s Y = true -> t_path X = t_path Y ->
    types_equal_res r i j = Ok true.
Proof.
  intros Hc Heq Hall i X j Y Hi Hj Hei Hej Hp.
  set (p := t_path X) in *.
  assert (Hns : namespace p <> []) by (apply (item_eligible_namespaced s X Hei)).
  destruct (find_exists (fun e : N * ty => path_eqb (t_path (snd e)) p && item_eligible s (snd e)) r (i, X) Hi)
    as ([f0 F] & Hf).
  { cbn [snd]. unfold p. rewrite path_eqb_refl, Hei. reflexivity. }
  fold (first_eligible r s p) in Hf.
  pose proof (first_eligible_some _ _ _ _ _ Hf) as (HinF & HpF & HeF).
  assert (Hto_first : forall k Z, In (k, Z) r -> item_eligible s Z = true -> t_path Z = p ->
                                  types_equal_res r k f0 = Ok true).
  { intros k Z Hk Hek Hpk.
    destruct (cmps_covers s r [] p f0 F Hf k Z Hk Hek Hpk) as [E|Hin].
    - inversion E; subst. apply types_equal_res_refl.
    - rewrite Forall_forall in Hall. exact (Hall _ Hin). }
  pose proof (Hto_first i X Hi Hei eq_refl) as Ei.
  pose proof (Hto_first j Y Hj Hej (eq_sym Hp)) as Ej.
  assert (Ati : entry_at r i p) by (apply entry_at_of_in; assumption).
  assert (Atj : entry_at r j p) by (rewrite Hp; apply entry_at_of_in; assumption).
  assert (Atf : entry_at r f0 p) by (rewrite <- HpF; apply entry_at_of_in; assumption).
  destruct (Heq p j f0 Atj Atf Hns) as (_ & Hsym & _).
  destruct (Heq p i f0 Ati Atf Hns) as (_ & _ & Htr).
  exact (Htr j Atj Ei (Hsym Ej)).
Qed.

Theorem generate_ok_transfer pi r s m :
  renumbering (N.of_nat (List.length r)) pi -> teq_equiv_on_families r ->
  generate r s (types_equal r) = Ok m ->
  exists m', generate (renumber pi r) s (types_equal (renumber pi r)) = Ok m'.
Proof.
  intros Hpi Heq G.
  destruct (generate_ok_parts _ _ _ _ G) as (Hc & Hs & flat & Hf & Hok).
  assert (Hall : Forall (fun c : cmp => types_equal r (fst (fst c)) (snd (fst c)) = Ok true) (comparisons r s)).
  { apply (generate_ok_iff r s (types_equal r) flat Hs Hf Hok). eauto. }
  destruct (generate_ok_renumber pi r s Hpi _ _ G) as (m2 & G2).
  destruct (generate_ok_parts _ _ _ _ G2) as (Hc' & Hs' & flat' & Hf' & Hok').
  apply (generate_ok_iff (renumber pi r) s (types_equal (renumber pi r)) flat' Hs' Hf' Hok').
  apply Forall_forall. intros [[id' id0'] p] Hin. cbn [fst snd].
  destruct (cmps_in s _ _ _ _ _ Hin) as (X' & X0' & H1 & H2 & H3 & H4 & H5 & H6).
  cbn [app] in H4.
  apply (in_renumber pi r _ Hpi) in H1 as ([i X] & Hi & Ei).
  apply (in_renumber pi r _ Hpi) in H4 as ([j Y] & Hj & Ej).
  unfold rename_entry in Ei, Ej. cbn [fst snd] in Ei, Ej. inversion Ei; subst id' X'. inversion Ej; subst id0' X0'.
  rewrite item_eligible_rename in H2, H5.
  change (t_path (rename_ty pi X)) with (t_path X) in H3.
  change (t_path (rename_ty pi Y)) with (t_path Y) in H6.
  unfold types_equal. rewrite (types_equal_res_renumber pi r Hpi).
  apply (comparisons_pairwise r s Hc Heq Hall i X j Y Hi Hj H2 H5). congruence.
Qed.

(** with the token theorem: a successful generation stays successful AND token-identical *)
From V Require Import Model.Families Proofs.PermFamilies.

Theorem permutation_outcome pi r s m1 :
  renumbering (N.of_nat (List.length r)) pi ->
  skeleton_consistent r s -> docs_consistent r s -> derives_functional s ->
  teq_equiv_on_familiesb r = true ->
  generate r s (types_equal r) = Ok m1 ->
  exists m2, generate (renumber pi r) s (types_equal (renumber pi r)) = Ok m2 /\
             emit_module s m1 = emit_module s m2.
Proof.
  intros Hpi Hsk Hdc Hdf Hb G.
  destruct (generate_ok_transfer pi r s m1 Hpi (teq_equiv_on_familiesb_sound r Hb) G) as (m2 & G2).
  exists m2. split; [exact G2|].
  exact (permutation_tokens pi r s Hpi _ _ m1 m2 Hsk Hdc Hdf G G2).
Qed.

(** the hypotheses are satisfiable with a two-member family whose members the renumbering swaps *)
From V Require Import Model.ExamplesTG Model.ExamplesFam Proofs.ExamplesC17.

Example permutation_outcome_satisfiable :
  exists pi r s,
    renumbering (N.of_nat (List.length r)) pi /\
    skeleton_consistentb r s = true /\ docs_consistentb r s = true /\ derives_functionalb s = true /\
    teq_equiv_on_familiesb r = true /\ ~ unique_item_paths r s /\
    is_ok (generate r s (types_equal r)) = true.
Proof.
  exists ex_pi_swap, ex_reg, ex_set_rec.
  destruct ex_family_hypotheses as (H1 & H2 & H3 & H4 & H5).
  split; [exact ex_pi_swap_renumbering|]. split; [exact H1|]. split; [exact H2|]. split; [exact H3|].
  split; [vm_compute; reflexivity|]. split; [|exact H4].
  intros Hu.
  assert (E : nth 2 ex_reg dummy_entry = nth 3 ex_reg dummy_entry).
  { apply Hu; [cbn; tauto|cbn; tauto|reflexivity|reflexivity|reflexivity]. }
  discriminate E.
Qed.

(** ** a semantic class on which the hypothesis holds: program-derived registries of the fragment
    of [C04_program_untouched_partial] (Proofs/TeqComplete.v): all entries carrying one namespaced
    path are judged equal, so [types_equal] is trivially an equivalence on every family *)
From V Require Import Model.Program Model.ProgramSkel Model.ProgramTeq Proofs.TeqComplete.

Theorem program_teq_equiv defs L r :
  RegistryOf defs L r ->
  (forall sd, In sd defs -> teq_program_okb sd = true /\ forall lsb, sd_path sd <> order_path_of lsb) ->
  (forall d1 d2 sd1 sd2,
     nth_error defs d1 = Some sd1 -> nth_error defs d2 = Some sd2 -> sd_path sd1 = sd_path sd2 -> d1 = d2) ->
  (forall id d args sd,
     L id = Some (SApp d args) -> nth_error defs d = Some sd ->
     instantiation_cf defs sd args = true /\ map canon args = args) ->
  teq_equiv_on_families r.
Proof.
  intros HR Hdefs Hpaths Hinst.
  assert (Heq : forall p i j, entry_at r i p -> entry_at r j p -> namespace p <> [] ->
                              types_equal_res r i j = Ok true).
  { intros p i j (ei & Hi & Hpi) (ej & Hj & Hpj) Hns.
    assert (Ri : resolve r i = Some (snd ei)) by (unfold resolve; rewrite Hi; destruct ei; reflexivity).
    assert (Rj : resolve r j = Some (snd ej)) by (unfold resolve; rewrite Hj; destruct ej; reflexivity).
    apply (namespaced_equal defs L r HR Hdefs Hpaths Hinst i j (snd ei) (snd ej) Ri Rj).
    - rewrite Hpi. exact Hns.
    - congruence. }
  intros p i j Hi Hj Hns. split; [exists true; apply (Heq p); assumption|].
  split; [intros _; apply (Heq p); assumption|]. intros k Hk _ _. apply (Heq p); assumption.
Qed.
