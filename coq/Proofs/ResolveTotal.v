(** Termination (fuel sufficiency) and totality of path resolution on the
    class [resolvable] of Model/WellFormed.v, soundness of the boolean checks
    ([wf_regb], [supportedb], [rank_ok]) w.r.t. the Prop class, and the
    single-fault lemmas of C10. *)
From Coq Require Import List NArith String Ascii Bool Lia Arith.
From V Require Import Base.Strings Base.Result Model.Registry Model.Settings Model.Subst
  Model.TypePath Model.Derives Model.Generate Model.WellFormed.
Import ListNotations.
Open Scope string_scope. Open Scope list_scope.

(** ** generic facts *)
Lemma mapM_total {A B} (f : A -> result B) (P : B -> Prop) l :
  (forall x, In x l -> exists y, f x = Ok y /\ P y) ->
  exists ys, mapM f l = Ok ys /\ Forall P ys.
Proof.
  induction l as [|x l IH]; intros H; cbn [mapM].
  - exists []. split; [reflexivity|constructor].
  - destruct (H x (or_introl eq_refl)) as (y & Hy & Py).
    destruct IH as (ys & Hys & Pys). { intros x' Hx'. apply H. right; assumption. }
    exists (y :: ys). rewrite Hy. cbn [bind]. rewrite Hys. cbn [bind].
    split; [reflexivity|constructor; assumption].
Qed.

Lemma mapM_ok_In {A B} (f : A -> result B) l ys y :
  mapM f l = Ok ys -> In y ys -> exists x, In x l /\ f x = Ok y.
Proof.
  revert ys; induction l as [|x l IH]; cbn [mapM]; intros ys H Hy.
  - inversion H; subst. destruct Hy.
  - apply bind_ok in H as (y0 & Hy0 & H). apply bind_ok in H as (ys' & Hys & H).
    inversion H; subst. destruct Hy as [->|Hy].
    + exists x. split; [left; reflexivity|assumption].
    + destruct (IH _ Hys Hy) as (x' & Hx' & Hf). exists x'. split; [right; assumption|assumption].
Qed.

Lemma resolve_in_reg r id : in_reg r id -> exists t, resolve r id = Some t.
Proof.
  unfold in_reg, resolve. intros H.
  destruct (nth_error r (N.to_nat id)) as [[i t]|] eqn:E; [eauto|].
  apply nth_error_None in E. lia.
Qed.

Lemma resolve_some_in_reg r id t : resolve r id = Some t -> in_reg r id.
Proof.
  unfold in_reg, resolve. intros H.
  assert (Hn : nth_error r (N.to_nat id) <> None).
  { destruct (nth_error r (N.to_nat id)); [discriminate|discriminate]. }
  apply nth_error_Some in Hn. lia.
Qed.

Lemma resolve_In r id t : resolve r id = Some t -> exists i, In (i, t) r.
Proof.
  unfold resolve. destruct (nth_error r (N.to_nat id)) as [[i t']|] eqn:E; intros H; inversion H; subst.
  exists i. eapply nth_error_In; eauto.
Qed.

Lemma closed_reg_closed r : closed_reg r = true -> closed r.
Proof.
  unfold closed_reg, closed. intros H id t c Hr Hc.
  destruct (resolve_In _ _ _ Hr) as (i & Hin).
  rewrite forallb_forall in H. specialize (H _ Hin). cbn [snd] in H.
  rewrite forallb_forall in H. specialize (H _ Hc). apply N.ltb_lt in H. exact H.
Qed.

Lemma forallb_entries_ok (P : ty -> bool) r :
  forallb (fun e => P (snd e)) r = true -> entries_ok P r.
Proof.
  intros H id t Hr. destruct (resolve_In _ _ _ Hr) as (i & Hin).
  rewrite forallb_forall in H. exact (H _ Hin).
Qed.

Lemma nonfield_ids_incl t c : In c (nonfield_ids t) -> In c (param_ids t ++ def_ids (t_def t)).
Proof.
  unfold nonfield_ids. intros H. apply in_app_or in H. apply in_or_app.
  destruct H as [H|H]; [left; assumption|right].
  destruct (t_def t); cbn in H; try contradiction; exact H.
Qed.

(** ** an induction principle for paths (nested lists) *)
Section TpathInd.
  Variable P : tpath -> Prop.
  Hypothesis HParam : forall p, P (TParam p).
  Hypothesis HPath : forall toks ps, Forall P ps -> P (TPath toks ps).
  Hypothesis HVec : forall o, P o -> P (TVec o).
  Hypothesis HArray : forall n o, P o -> P (TArray n o).
  Hypothesis HTuple : forall es, Forall P es -> P (TTuple es).
  Hypothesis HPrim : forall p, P (TPrim p).
  Hypothesis HCompact : forall i f c, P i -> P (TCompact i f c).
  Hypothesis HBitVec : forall o st b, P o -> P st -> P (TBitVec o st b).

  Fixpoint tpath_ind' (t : tpath) : P t :=
    match t with
    | TParam p => HParam p
    | TPath toks ps =>
        HPath toks ps ((fix go (l : list tpath) : Forall P l :=
                          match l with
                          | [] => Forall_nil P
                          | x :: l' => Forall_cons x (tpath_ind' x) (go l')
                          end) ps)
    | TVec o => HVec o (tpath_ind' o)
    | TArray n o => HArray n o (tpath_ind' o)
    | TTuple es =>
        HTuple es ((fix go (l : list tpath) : Forall P l :=
                      match l with
                      | [] => Forall_nil P
                      | x :: l' => Forall_cons x (tpath_ind' x) (go l')
                      end) es)
    | TPrim p => HPrim p
    | TCompact i f c => HCompact i f c (tpath_ind' i)
    | TBitVec o st b => HBitVec o st b (tpath_ind' o) (tpath_ind' st)
    end.
End TpathInd.

(** ** [tp_tokens] is total on paths without 256-bit primitives *)
Lemma tp_go_mapM alloc l :
  (fix go (l : list tpath) : result (list tokens) :=
     match l with
     | [] => Ok []
     | x :: l' => let* y := tp_tokens alloc x in let* ys := go l' in Ok (y :: ys)
     end) l = mapM (tp_tokens alloc) l.
Proof.
  induction l as [|x l IH]; [reflexivity|]. cbn [mapM]. rewrite <- IH. reflexivity.
Qed.

Lemma tp_tokens_TPath alloc ptoks params :
  tp_tokens alloc (TPath ptoks params) =
  let* ps := mapM (tp_tokens alloc) params in
  match ps with
  | [] => Ok ptoks
  | _ => Ok (ptoks ++ ["<"] ++ sep_by [","] ps ++ [">"])
  end.
Proof. rewrite <- tp_go_mapM. reflexivity. Qed.

Lemma tp_tokens_TTuple alloc els :
  tp_tokens alloc (TTuple els) =
  let* es := mapM (tp_tokens alloc) els in
  Ok (["("] ++ flat_map (fun e => e ++ [","]) es ++ [")"]).
Proof. rewrite <- tp_go_mapM. reflexivity. Qed.

Lemma forallb_Forall {A} (f : A -> bool) l : forallb f l = true <-> Forall (fun x => f x = true) l.
Proof. rewrite forallb_forall, Forall_forall. tauto. Qed.

(** [tokenizable] implies [no256] (the invariant the earlier statements mention) *)
Lemma tokenizable_no256 : forall t, tokenizable t = true -> no256 t = true.
Proof.
  induction t as [p|toks ps IH|o IH|n o IH|es IH|p|i f c IH|o st b IHo IHst] using tpath_ind';
    cbn [tokenizable no256]; intros H; try reflexivity; try exact H; auto.
  - apply forallb_Forall in H. apply forallb_Forall. rewrite Forall_forall in *. auto.
  - apply forallb_Forall in H. apply forallb_Forall. rewrite Forall_forall in *. auto.
  - apply andb_prop in H as [H _]. auto.
  - apply andb_prop in H as [H1 H2]. rewrite (IHo H1), (IHst H2). reflexivity.
Qed.

Lemma tp_tokens_TCompact_eq alloc i f c :
  tp_tokens alloc (TCompact i f c) =
  let* t := tp_tokens alloc i in
  if f && tuple_or_array i then Panic "compact field: inner type is not a type path"
  else if f then Ok t else Ok (c ++ ["<"] ++ t ++ [">"]).
Proof.
  cbn [tp_tokens]. destruct (tp_tokens alloc i); cbn [bind]; [|reflexivity|reflexivity].
  destruct f; [|reflexivity]. destruct i; reflexivity.
Qed.

Lemma tp_tokens_ok alloc : forall t, tokenizable t = true -> exists toks, tp_tokens alloc t = Ok toks.
Proof.
  induction t as [p|toks ps IH|o IH|n o IH|es IH|p|i f c IH|o st b IHo IHst] using tpath_ind';
    intros Hn.
  - eexists; reflexivity.
  - rewrite tp_tokens_TPath. cbn [tokenizable] in Hn. apply forallb_Forall in Hn.
    destruct (mapM_total (tp_tokens alloc) (fun _ => True) ps) as (ys & Hys & _).
    { intros x Hx. rewrite Forall_forall in IH, Hn. destruct (IH x Hx (Hn x Hx)) as (y & Hy). eauto. }
    rewrite Hys. cbn [bind]. destruct ys; eexists; reflexivity.
  - cbn [tokenizable] in Hn. destruct (IH Hn) as (y & Hy). cbn [tp_tokens]. rewrite Hy. cbn [bind].
    eexists; reflexivity.
  - cbn [tokenizable] in Hn. destruct (IH Hn) as (y & Hy). cbn [tp_tokens]. rewrite Hy. cbn [bind].
    eexists; reflexivity.
  - rewrite tp_tokens_TTuple. cbn [tokenizable] in Hn. apply forallb_Forall in Hn.
    destruct (mapM_total (tp_tokens alloc) (fun _ => True) es) as (ys & Hys & _).
    { intros x Hx. rewrite Forall_forall in IH, Hn. destruct (IH x Hx (Hn x Hx)) as (y & Hy). eauto. }
    rewrite Hys. cbn [bind]. eexists; reflexivity.
  - cbn [tokenizable] in Hn. destruct p; cbn in Hn; try discriminate; eexists; reflexivity.
  - cbn [tokenizable] in Hn. apply andb_prop in Hn as [Hi Hf]. apply negb_true_iff in Hf.
    destruct (IH Hi) as (y & Hy). rewrite tp_tokens_TCompact_eq, Hy, Hf. cbn [bind].
    destruct f; eexists; reflexivity.
  - cbn [tokenizable] in Hn. apply andb_prop in Hn as [Ho Hst].
    destruct (IHo Ho) as (y & Hy). destruct (IHst Hst) as (z & Hz).
    cbn [tp_tokens]. rewrite Hy. cbn [bind]. rewrite Hz. cbn [bind]. eexists; reflexivity.
Qed.

(** ... and conversely: [tokenizable] is exactly the class on which [tp_tokens] is [Ok] *)
Lemma mapM_ok_all {A B} (f : A -> result B) l ys :
  mapM f l = Ok ys -> forall x, In x l -> exists y, f x = Ok y.
Proof.
  revert ys; induction l as [|a l IH]; cbn [mapM]; intros ys H x Hx; [destruct Hx|].
  apply bind_ok in H as (y0 & Hy0 & H). apply bind_ok in H as (ys' & Hys & _).
  destruct Hx as [<-|Hx]; [eauto|]. eapply IH; eauto.
Qed.

Lemma tp_tokens_ok_inv alloc : forall t toks, tp_tokens alloc t = Ok toks -> tokenizable t = true.
Proof.
  induction t as [p|ptoks ps IH|o IH|n o IH|es IH|p|i f c IH|o st b IHo IHst] using tpath_ind';
    intros toks H; cbn [tokenizable].
  - reflexivity.
  - rewrite tp_tokens_TPath in H. apply bind_ok in H as (ys & Hys & _).
    apply forallb_Forall. rewrite Forall_forall in *. intros x Hx.
    destruct (mapM_ok_all _ _ _ Hys x Hx) as (y & Hy). eapply IH; eauto.
  - cbn [tp_tokens] in H. apply bind_ok in H as (y & Hy & _). eapply IH; eauto.
  - cbn [tp_tokens] in H. apply bind_ok in H as (y & Hy & _). eapply IH; eauto.
  - rewrite tp_tokens_TTuple in H. apply bind_ok in H as (ys & Hys & _).
    apply forallb_Forall. rewrite Forall_forall in *. intros x Hx.
    destruct (mapM_ok_all _ _ _ Hys x Hx) as (y & Hy). eapply IH; eauto.
  - cbn [tp_tokens] in H. destruct p; cbn in H; try discriminate; reflexivity.
  - rewrite tp_tokens_TCompact_eq in H. apply bind_ok in H as (y & Hy & H).
    rewrite (IH _ Hy). destruct (f && tuple_or_array i); [discriminate|reflexivity].
  - cbn [tp_tokens] in H. apply bind_ok in H as (y & Hy & H). apply bind_ok in H as (z & Hz & _).
    rewrite (IHo _ Hy), (IHst _ Hz). reflexivity.
Qed.

(** ** the ["Cow"] pattern as a boolean test *)
Definition is_cow (o : option string) : bool :=
  match o with Some nm => String.eqb nm "Cow" | None => false end.

Ltac bit b := destruct b; try reflexivity.

Lemma cow_match {A} (o : option string) (a b : A) :
  match o with Some "Cow" => a | _ => b end = if is_cow o then a else b.
Proof.
  destruct o as [nm|]; [|reflexivity]. unfold is_cow.
  destruct nm as [|[b0 b1 b2 b3 b4 b5 b6 b7] nm]; [reflexivity|].
  bit b0. bit b1. bit b2. bit b3. bit b4. bit b5. bit b6. bit b7.
  destruct nm as [|[b0 b1 b2 b3 b4 b5 b6 b7] nm]; [reflexivity|].
  bit b0. bit b1. bit b2. bit b3. bit b4. bit b5. bit b6. bit b7.
  destruct nm as [|[b0 b1 b2 b3 b4 b5 b6 b7] nm]; [reflexivity|].
  bit b0. bit b1. bit b2. bit b3. bit b4. bit b5. bit b6. bit b7.
  destruct nm; reflexivity.
Qed.

Lemma cow_okb_eq t :
  cow_okb t = if is_cow (path_ident (t_path t)) then first_param_typed t else true.
Proof. unfold cow_okb. apply cow_match. Qed.

(** ** one unfolding of [resolve_rec] as an equation *)
Definition cow_step (r : registry) (t0 : ty) : result ty :=
  match path_ident (t_path t0) with
  | Some "Cow" =>
      match t_params t0 with
      | [] => Panic "index out of bounds"
      | p0 :: _ =>
          match tp_ty p0 with
          | None => Err EInvalidType
          | Some inner => resolve_type r inner
          end
      end
  | _ => Ok t0
  end.

Definition resolve_def (r : registry) (s : settings) (fuel' : nat) (is_field : bool)
  (parents : list tparam_ir) (t : ty) (params : list tpath) : result tpath :=
  match t_def t with
  | TDComposite _ | TDVariant _ => type_path_maybe_with_substitutes s (t_path t) params
  | TDPrimitive p => Ok (TPrim p)
  | TDArray len e => let* i := resolve_rec r s fuel' e false parents None in Ok (TArray len i)
  | TDSequence e => let* i := resolve_rec r s fuel' e false parents None in Ok (TVec i)
  | TDTuple es => let* l := mapM (fun i => resolve_rec r s fuel' i false parents None) es in
                  Ok (TTuple l)
  | TDCompact e =>
      let* i := resolve_rec r s fuel' e false parents None in
      match s_compact s with
      | None => Err ECompactPathNone
      | Some c => Ok (TCompact i is_field c)
      end
  | TDBitSeq store order =>
      match s_bits s with
      | None => Err EBitsPathNone
      | Some b =>
          let* o := resolve_rec r s fuel' order false parents None in
          let* st := resolve_rec r s fuel' store false parents None in
          Ok (TBitVec o st b)
      end
  end.

Lemma resolve_rec_S r s fuel' id is_field parents orig :
  resolve_rec r s (S fuel') id is_field parents orig =
  match find_parent parents id orig with
  | Some p => Ok (TParam p)
  | None =>
      let* t0 := resolve_type r id in
      let* t := cow_step r t0 in
      let* params := mapM (fun i => resolve_rec r s fuel' i false parents None) (param_ids t) in
      resolve_def r s fuel' is_field parents t params
  end.
Proof. reflexivity. Qed.

Lemma cow_step_eq r t0 :
  cow_step r t0 =
  if is_cow (path_ident (t_path t0)) then
    match t_params t0 with
    | [] => Panic "index out of bounds"
    | p0 :: _ =>
        match tp_ty p0 with
        | None => Err EInvalidType
        | Some inner => resolve_type r inner
        end
    end
  else Ok t0.
Proof. unfold cow_step. apply cow_match. Qed.

(** ** the prelude table *)
Lemma assoc_str_none {A} (l : list (string * A)) k :
  assoc_str l k = None -> existsb (String.eqb k) (map fst l) = false.
Proof.
  induction l as [|[k' v] l IH]; cbn [assoc_str map fst existsb]; intros H; [reflexivity|].
  destruct (String.eqb k k'); [discriminate|]. cbn [orb]. auto.
Qed.

Lemma prelude_names_alloc alloc : map fst (prelude_table alloc) = prelude_names.
Proof. reflexivity. Qed.

Definition path_cond (p : list string) : bool :=
  match p with
  | [] => false
  | [i] => existsb (String.eqb i) prelude_names
  | _ => forallb path_seg_okb p
  end.

Lemma from_type_def_path_total path root alloc :
  path_cond path = true -> exists toks, from_type_def_path path root alloc = Ok toks.
Proof.
  destruct path as [|a [|b l]]; intros H; [discriminate| |].
  - cbn [from_type_def_path]. destruct (assoc_str (prelude_table alloc) a) eqn:E; [eauto|].
    apply assoc_str_none in E. rewrite prelude_names_alloc in E. cbn [path_cond] in H. congruence.
  - cbn [path_cond] in H. cbn [from_type_def_path]. rewrite H. eauto.
Qed.

Lemma path_okb_cond t :
  path_okb t = true -> is_composite_or_variant (t_def t) = true -> path_cond (t_path t) = true.
Proof.
  unfold path_okb, path_cond. destruct (t_def t); cbn [is_composite_or_variant]; intros H Hc;
    try discriminate; destruct (t_path t) as [|a [|b l]]; exact H.
Qed.

(** ** substitution is total on paths that can be printed *)
Section Maybe.
  Variable s : settings.

  Lemma for_path_total path params x :
    Forall (fun p => tokenizable p = true) params ->
    for_path_with_params s path params = Some x ->
    exists t, x = Ok t /\ tokenizable t = true.
  Proof.
    intros Hps. unfold for_path_with_params.
    destruct (subs_get (s_subs s) path) as [sub|]; [|discriminate].
    intros Hx. inversion Hx as [Hx']; clear Hx Hx'.
    destruct (su_map sub) as [|m].
    - eexists; split; [reflexivity|]. cbn [tokenizable]. apply forallb_Forall. exact Hps.
    - remember (flat_map (fun '(id, idx) => match nth_error params idx with
                                             | Some p => [(id, p)]
                                             | None => []
                                             end) m) as sel eqn:Esel.
      assert (Hsel : forall y, In y sel -> tokenizable (snd y) = true).
      { intros y Hy. subst sel. apply in_flat_map in Hy as ([id idx] & _ & Hy).
        destruct (nth_error params idx) as [p|] eqn:En; [|destruct Hy].
        destruct Hy as [<-|[]]. cbn [snd]. apply nth_error_In in En.
        rewrite Forall_forall in Hps. auto. }
      destruct sel as [|y0 sel']; [eexists; split; reflexivity|].
      destruct (mapM_total (fun '(id, p) => let* t := tp_tokens (alloc_tokens (s_alloc s)) p in Ok (id, t))
                           (fun _ => True) (y0 :: sel')) as (ys & Hys & _).
      { intros [id p] Hy. specialize (Hsel _ Hy). cbn [snd] in Hsel.
        destruct (tp_tokens_ok (alloc_tokens (s_alloc s)) p Hsel) as (toks & Ht).
        rewrite Ht. cbn [bind]. eauto. }
      rewrite Hys. cbn [bind]. eexists; split; reflexivity.
  Qed.

  Lemma maybe_subst_total path params :
    path_cond path = true -> Forall (fun p => tokenizable p = true) params ->
    exists t, type_path_maybe_with_substitutes s path params = Ok t /\ tokenizable t = true.
  Proof.
    intros Hp Hps. unfold type_path_maybe_with_substitutes.
    destruct (for_path_with_params s path params) as [x|] eqn:E.
    - exact (for_path_total _ _ _ Hps E).
    - destruct (from_type_def_path_total path (s_root s) (alloc_tokens (s_alloc s)) Hp) as (toks & Ht).
      rewrite Ht. cbn [bind]. eexists; split; [reflexivity|]. cbn [tokenizable].
      apply forallb_Forall. exact Hps.
  Qed.

  (** a (substituted) definition path is a [TPath], never a tuple / an array *)
  Lemma maybe_subst_shape path params t :
    type_path_maybe_with_substitutes s path params = Ok t -> tuple_or_array t = false.
  Proof.
    unfold type_path_maybe_with_substitutes, for_path_with_params.
    destruct (subs_get (s_subs s) path) as [sub|].
    - destruct (su_map sub) as [|m].
      + intros H; inversion H; reflexivity.
      + destruct (flat_map _ m) as [|y0 sel'].
        * intros H; inversion H; reflexivity.
        * intros H. apply bind_ok in H as (repl & _ & H). inversion H; reflexivity.
    - intros H. apply bind_ok in H as (p & _ & H). inversion H; reflexivity.
  Qed.
End Maybe.

(** ** fuel sufficiency: resolution terminates and succeeds on [resolvable] *)
Section Total.
  Variable r : registry.
  Variable s : settings.
  Variable rank : N -> nat.
  Hypothesis Hres : resolvable r s rank.

  Lemma cow_step_total id t0 :
    resolve r id = Some t0 ->
    exists t id', cow_step r t0 = Ok t /\ resolve r id' = Some t /\ rank id' <= rank id.
  Proof.
    destruct Hres as (Hcl & (Hrk & _) & Hent & _). intros Ht0.
    pose proof (Hent _ _ Ht0) as He. unfold resolvable_entryb in He.
    apply andb_prop in He as [He _]. apply andb_prop in He as [He _].
    rewrite cow_okb_eq in He. rewrite cow_step_eq.
    destruct (is_cow (path_ident (t_path t0))).
    - unfold first_param_typed in He.
      destruct (t_params t0) as [|p0 ps] eqn:Ep; [discriminate|].
      destruct (tp_ty p0) as [inner|] eqn:Ei; [|discriminate].
      assert (Hin : In inner (param_ids t0)).
      { unfold param_ids. rewrite Ep. cbn [flat_map]. rewrite Ei. left; reflexivity. }
      assert (Hreg : in_reg r inner).
      { eapply Hcl; [exact Ht0|]. apply in_or_app; left; exact Hin. }
      destruct (resolve_in_reg _ _ Hreg) as (t & Ht).
      exists t, inner. unfold resolve_type. rewrite Ht. split; [reflexivity|]. split; [reflexivity|].
      apply Nat.lt_le_incl. eapply Hrk; [exact Ht0|]. unfold nonfield_ids. apply in_or_app; left; exact Hin.
    - exists t0, id. split; [reflexivity|]. split; [assumption|]. apply Nat.le_refl.
  Qed.

  (** a resolution result that is a tuple / an array comes from a Tuple / Array entry (after
      the one-level [Cow] look-through): parents give [TParam], definitions give [TPath] *)
  Lemma cow_target_eq t0 :
    cow_target r t0 =
    if is_cow (path_ident (t_path t0)) then
      match t_params t0 with
      | [] => None
      | p0 :: _ =>
          match tp_ty p0 with
          | None => None
          | Some inner => resolve r inner
          end
      end
    else Some t0.
  Proof. unfold cow_target. apply cow_match. Qed.

  Lemma cow_step_target t0 t : cow_step r t0 = Ok t -> cow_target r t0 = Some t.
  Proof.
    rewrite cow_step_eq, cow_target_eq.
    destruct (is_cow (path_ident (t_path t0))); [|intros H; inversion H; reflexivity].
    destruct (t_params t0) as [|p0 ps]; [discriminate|].
    destruct (tp_ty p0) as [inner|]; [|discriminate].
    unfold resolve_type. destruct (resolve r inner); [|discriminate]. intros H; inversion H; reflexivity.
  Qed.

  Lemma resolve_rec_shape fuel id is_field parents orig x :
    resolve_rec r s fuel id is_field parents orig = Ok x -> tuple_or_array x = true ->
    exists t0 t, resolve r id = Some t0 /\ cow_target r t0 = Some t /\
                 tuple_or_array_def (t_def t) = true.
  Proof.
    destruct fuel as [|fuel]; [discriminate|]. rewrite resolve_rec_S.
    destruct (find_parent parents id orig) as [p|].
    { intros H; inversion H; subst. discriminate. }
    intros H Hx. apply bind_ok in H as (t0 & Ht0 & H). apply bind_ok in H as (t & Ht & H).
    apply bind_ok in H as (params & _ & H).
    unfold resolve_type in Ht0. destruct (resolve r id) as [t0'|] eqn:Er; [|discriminate].
    inversion Ht0; subst t0'. exists t0, t. split; [reflexivity|]. split; [apply cow_step_target; exact Ht|].
    unfold resolve_def in H. destruct (t_def t) as [fs|vs|e|len e|es|p|e|store order]; cbn [tuple_or_array_def];
      try reflexivity.
    - rewrite (maybe_subst_shape _ _ _ _ H) in Hx. discriminate.
    - rewrite (maybe_subst_shape _ _ _ _ H) in Hx. discriminate.
    - apply bind_ok in H as (i & _ & H). inversion H; subst. discriminate.
    - inversion H; subst. discriminate.
    - apply bind_ok in H as (i & _ & H). destruct (s_compact s); [|discriminate]. inversion H; subst. discriminate.
    - destruct (s_bits s); [|discriminate]. apply bind_ok in H as (o & _ & H).
      apply bind_ok in H as (st & _ & H). inversion H; subst. discriminate.
  Qed.

  Lemma resolve_rec_tokenizable : forall fuel id is_field parents orig,
    in_reg r id -> rank id < fuel ->
    exists t, resolve_rec r s fuel id is_field parents orig = Ok t /\ tokenizable t = true.
  Proof.
    destruct Hres as (Hcl & (Hrk & _) & Hent & (Hcomp & Hbits) & Hci).
    induction fuel as [|fuel IH]; intros id is_field parents orig Hin Hlt; [lia|].
    rewrite resolve_rec_S.
    destruct (find_parent parents id orig) as [p|]; [exists (TParam p); split; reflexivity|].
    destruct (resolve_in_reg r id Hin) as (t0 & Ht0).
    unfold resolve_type. rewrite Ht0. cbn [bind].
    destruct (cow_step_total id t0 Ht0) as (t & id' & Hcs & Ht & Hle).
    rewrite Hcs. cbn [bind].
    assert (Hch : forall c, In c (nonfield_ids t) ->
              exists x, resolve_rec r s fuel c false parents None = Ok x /\ tokenizable x = true).
    { intros c Hc. apply IH.
      - eapply Hcl; [exact Ht|]. apply nonfield_ids_incl; exact Hc.
      - pose proof (Hrk _ _ _ Ht Hc) as Hr1. lia. }
    destruct (mapM_total (fun i => resolve_rec r s fuel i false parents None)
                         (fun x => tokenizable x = true) (param_ids t)) as (params & Hps & Pps).
    { intros c Hc. apply Hch. unfold nonfield_ids. apply in_or_app; left; exact Hc. }
    rewrite Hps. cbn [bind].
    pose proof (Hent _ _ Ht) as He. unfold resolvable_entryb in He.
    apply andb_prop in He as [He H256]. apply andb_prop in He as [_ Hpath].
    assert (Hd : forall c, In c (match t_def t with
                                 | TDComposite _ | TDVariant _ => []
                                 | d => def_ids d
                                 end) ->
              exists x, resolve_rec r s fuel c false parents None = Ok x /\ tokenizable x = true).
    { intros c Hc. apply Hch. unfold nonfield_ids. apply in_or_app; right; exact Hc. }
    unfold resolve_def. unfold no256_defb in H256.
    destruct (t_def t) as [fs|vs|e|len e|es|p|e|store order] eqn:Ed.
    - apply maybe_subst_total; [|exact Pps]. apply path_okb_cond; [exact Hpath|]. rewrite Ed. reflexivity.
    - apply maybe_subst_total; [|exact Pps]. apply path_okb_cond; [exact Hpath|]. rewrite Ed. reflexivity.
    - destruct (Hd e) as (x & Hx & Px); [left; reflexivity|]. rewrite Hx. cbn [bind].
      eexists; split; [reflexivity|exact Px].
    - destruct (Hd e) as (x & Hx & Px); [left; reflexivity|]. rewrite Hx. cbn [bind].
      eexists; split; [reflexivity|exact Px].
    - destruct (mapM_total (fun i => resolve_rec r s fuel i false parents None)
                           (fun x => tokenizable x = true) es) as (l & Hl & Pl).
      { intros c Hc. apply Hd. exact Hc. }
      rewrite Hl. cbn [bind]. eexists; split; [reflexivity|]. cbn [tokenizable]. apply forallb_Forall. exact Pl.
    - eexists; split; [reflexivity|]. cbn [tokenizable]. exact H256.
    - destruct (Hd e) as (x & Hx & Px); [left; reflexivity|]. rewrite Hx. cbn [bind].
      pose proof (Hcomp _ _ _ Ht Ed) as Hc. destruct (s_compact s) as [c|]; [|contradiction].
      eexists; split; [reflexivity|]. cbn [tokenizable]. rewrite Px. cbn [andb].
      destruct is_field; [|reflexivity]. cbn [andb].
      destruct (tuple_or_array x) eqn:Etx; [|reflexivity]. exfalso.
      destruct (resolve_rec_shape _ _ _ _ _ _ Hx Etx) as (u0 & u & Hu0 & Hu & Hdu).
      pose proof (Hci _ _ Ht) as Hk. unfold compact_inner_ok_at in Hk.
      rewrite Ed, Hu0, Hu, Hdu in Hk. discriminate.
    - pose proof (Hbits _ _ _ _ Ht Ed) as Hb. destruct (s_bits s) as [b|]; [|contradiction].
      destruct (Hd order) as (x & Hx & Px); [right; left; reflexivity|].
      destruct (Hd store) as (y & Hy & Py); [left; reflexivity|].
      rewrite Hx. cbn [bind]. rewrite Hy. cbn [bind].
      eexists; split; [reflexivity|]. cbn [tokenizable]. rewrite Px, Py. reflexivity.
  Qed.

  (** the earlier form: no 256-bit primitive in the result *)
  Lemma resolve_rec_total : forall fuel id is_field parents orig,
    in_reg r id -> rank id < fuel ->
    exists t, resolve_rec r s fuel id is_field parents orig = Ok t /\ no256 t = true.
  Proof.
    intros fuel id is_field parents orig Hin Hlt.
    destruct (resolve_rec_tokenizable fuel id is_field parents orig Hin Hlt) as (t & Ht & Hk).
    exists t. split; [exact Ht|apply tokenizable_no256; exact Hk].
  Qed.

  (** the pinned form: with the fuel the model starts from *)
  Theorem resolve_total : forall id, in_reg r id ->
    forall parents orig is_field,
    exists t, resolve_rec r s (fuel0 r) id is_field parents orig = Ok t /\
              exists toks, tp_tokens (alloc_tokens (s_alloc s)) t = Ok toks.
  Proof.
    intros id Hin parents orig is_field.
    destruct Hres as (_ & (_ & Hb) & _).
    destruct (resolve_rec_tokenizable (fuel0 r) id is_field parents orig Hin) as (t & Ht & Hn).
    { unfold fuel0. pose proof (Hb _ Hin). lia. }
    exists t. split; [exact Ht|]. apply tp_tokens_ok. exact Hn.
  Qed.
End Total.

(** ** soundness of the boolean checks w.r.t. the Prop classes *)
Lemma ident_okb_lexb x : ident_okb x = true -> ident_lexb x = true.
Proof.
  unfold ident_okb. intros H. apply andb_prop in H as [H _]. apply andb_prop in H as [H _]. exact H.
Qed.

Lemma ident_okb_seg x : ident_okb x = true -> path_seg_okb x = true.
Proof.
  unfold ident_okb, path_seg_okb. intros H. apply andb_prop in H as [H Hk]. rewrite H, Hk. reflexivity.
Qed.

Lemma path_seg_okb_lexb x : path_seg_okb x = true -> ident_lexb x = true.
Proof.
  unfold path_seg_okb. intros H. apply andb_prop in H as [H _]. apply andb_prop in H as [H _]. exact H.
Qed.

Lemma forallb_impl {A} (f g : A -> bool) l :
  (forall x, f x = true -> g x = true) -> forallb f l = true -> forallb g l = true.
Proof.
  intros Hfg H. rewrite forallb_forall in *. intros x Hx. apply Hfg. apply H. exact Hx.
Qed.

Lemma prelude_names_ident : forallb ident_okb prelude_names = true.
Proof. vm_compute. reflexivity. Qed.

Lemma prelude_name_okb i : existsb (String.eqb i) prelude_names = true -> ident_okb i = true.
Proof.
  intros H. apply existsb_exists in H as (x & Hx & E). apply String.eqb_eq in E; subst.
  pose proof prelude_names_ident as P. rewrite forallb_forall in P. auto.
Qed.

(** the two shapes an entry of a well-formed registry can have *)
Lemma entry_wfb_cases t :
  entry_wfb t = true ->
  (is_composite_or_variant (t_def t) = true /\ def_fields_okb (t_def t) = true /\
   ((exists i, t_path t = [i] /\ existsb (String.eqb i) prelude_names = true /\
               (String.eqb i "Cow" = true -> first_param_typed t = true)) \/
    (exists a b l, t_path t = a :: b :: l /\ forallb ident_okb (t_path t) = true /\
                   String.eqb (last (t_path t) "") "Cow" = false)))
  \/ (is_composite_or_variant (t_def t) = false /\ t_path t = [] /\ no256_defb t = true).
Proof.
  unfold entry_wfb, no256_defb.
  assert (Hcv : forall b : bool,
    match t_path t with
    | [] => false
    | [i] => existsb (String.eqb i) prelude_names && (negb (String.eqb i "Cow") || first_param_typed t)
    | p => forallb ident_okb p && negb (String.eqb (last p "") "Cow")
    end && b = true ->
    b = true /\
    ((exists i, t_path t = [i] /\ existsb (String.eqb i) prelude_names = true /\
               (String.eqb i "Cow" = true -> first_param_typed t = true)) \/
    (exists a b l, t_path t = a :: b :: l /\ forallb ident_okb (t_path t) = true /\
                   String.eqb (last (t_path t) "") "Cow" = false))).
  { intros b H. apply andb_prop in H as [H Hb]. split; [exact Hb|].
    destruct (t_path t) as [|a [|b' l]]; [discriminate| |].
    - left. exists a. apply andb_prop in H as [H1 H2]. split; [reflexivity|]. split; [exact H1|].
      intros E. rewrite E in H2. cbn [negb orb] in H2. exact H2.
    - right. exists a, b', l. apply andb_prop in H as [H1 H2]. split; [reflexivity|]. split; [exact H1|].
      apply negb_true_iff in H2. exact H2. }
  assert (Hnp : match t_path t with [] => true | _ => false end = true -> t_path t = []).
  { destruct (t_path t); [reflexivity|discriminate]. }
  destruct (t_def t) as [fs|vs|e|len e|es|p|e|store order]; intros H; cbn [is_composite_or_variant].
  - left. split; [reflexivity|]. apply Hcv. exact H.
  - left. split; [reflexivity|]. apply Hcv. exact H.
  - right. auto.
  - right. auto.
  - right. auto.
  - right. split; [reflexivity|]. destruct p; try discriminate; auto.
  - right. auto.
  - right. auto.
Qed.

Lemma is_cow_path_ident p :
  is_cow (path_ident p) = match p with [] => false | _ => String.eqb (last p "") "Cow" end.
Proof. destruct p; reflexivity. Qed.

Lemma entry_wfb_resolvable t : entry_wfb t = true -> resolvable_entryb t = true.
Proof.
  intros H. unfold resolvable_entryb. rewrite cow_okb_eq, is_cow_path_ident. unfold path_okb.
  destruct (entry_wfb_cases t H) as [(Hcv & _ & [(i & Hp & Hpre & Hcow)|(a & b & l & Hp & Hid & Hcow)])
                                    |(Hcv & Hp & H256)].
  - assert (E256 : no256_defb t = true).
    { unfold no256_defb. destruct (t_def t); try reflexivity; discriminate. }
    rewrite E256, Hp. cbn [last].
    destruct (String.eqb i "Cow") eqn:E.
    + rewrite (Hcow eq_refl). destruct (t_def t); try discriminate; rewrite Hpre; reflexivity.
    + destruct (t_def t); try discriminate; rewrite Hpre; reflexivity.
  - assert (E256 : no256_defb t = true).
    { unfold no256_defb. destruct (t_def t); try reflexivity; discriminate. }
    rewrite E256. rewrite Hp in Hid, Hcow |- *. rewrite Hcow.
    assert (Hlex : forallb path_seg_okb (a :: b :: l) = true).
    { eapply forallb_impl; [exact ident_okb_seg|exact Hid]. }
    destruct (t_def t); try discriminate; rewrite Hlex; reflexivity.
  - rewrite H256, Hp. destruct (t_def t); try discriminate; reflexivity.
Qed.

Lemma entry_wfb_item t : entry_wfb t = true -> item_entryb t = true.
Proof.
  intros H. unfold item_entryb.
  destruct (entry_wfb_cases t H) as [(Hcv & Hf & [(i & Hp & Hpre & _)|(a & b & l & Hp & Hid & _)])
                                    |(Hcv & _ & _)].
  - rewrite Hf, Hp. cbn [forallb]. rewrite (prelude_name_okb i Hpre).
    destruct (t_def t); reflexivity.
  - rewrite Hf. rewrite Hp in Hid |- *. rewrite Hid. destruct (t_def t); reflexivity.
  - destruct (t_def t); try discriminate; reflexivity.
Qed.

Lemma entry_wfb_flat t : entry_wfb t = true -> flat_entryb t = true.
Proof.
  intros H. unfold flat_entryb.
  destruct (entry_wfb_cases t H) as [(_ & _ & [(i & Hp & Hpre & _)|(a & b & l & Hp & Hid & _)])
                                    |(_ & Hp & _)].
  - rewrite Hp. cbn [forallb]. rewrite (prelude_name_okb i Hpre). reflexivity.
  - exact Hid.
  - rewrite Hp. reflexivity.
Qed.

Lemma supportedb_settings_ok r s : supportedb r s = true -> settings_ok r s.
Proof.
  unfold supportedb. intros H. apply andb_prop in H as [H _]. apply andb_prop in H as [Hc Hb].
  split.
  - intros id t e Hr Ed. unfold compact_okb in Hc. destruct (s_compact s); [discriminate|].
    apply negb_true_iff in Hc. destruct (resolve_In _ _ _ Hr) as (i & Hin).
    assert (Hx : has_compact r = true).
    { unfold has_compact. apply existsb_exists. exists (i, t). split; [exact Hin|]. cbn [snd].
      rewrite Ed. reflexivity. }
    congruence.
  - intros id t a b Hr Ed. unfold bits_okb in Hb. destruct (s_bits s); [discriminate|].
    apply negb_true_iff in Hb. destruct (resolve_In _ _ _ Hr) as (i & Hin).
    assert (Hx : has_bitseq r = true).
    { unfold has_bitseq. apply existsb_exists. exists (i, t). split; [exact Hin|]. cbn [snd].
      rewrite Ed. reflexivity. }
    congruence.
Qed.

(** ** [rank_ok] constructs a rank function *)
Inductive ranked_list (r : registry) : list N -> Prop :=
| rl_nil : ranked_list r []
| rl_cons i tl t :
    ranked_list r tl -> ~ In i tl -> resolve r i = Some t ->
    (forall c, In c (nonfield_ids t) -> In c tl) -> ranked_list r (i :: tl).

Lemma mem_N_In x l : mem_N x l = true <-> In x l.
Proof.
  unfold mem_N. rewrite existsb_exists. split.
  - intros (y & Hy & E). apply N.eqb_eq in E. subst. exact Hy.
  - intros H. exists x. split; [exact H|apply N.eqb_refl].
Qed.

Lemma combine_ids_resolve {A} (i : N) (e : A) : forall (l : list A) start,
  In (i, e) (combine (map N.of_nat (seq start (List.length l))) l) ->
  exists k, i = N.of_nat (start + k) /\ nth_error l k = Some e.
Proof.
  induction l as [|x l IH]; intros start H; cbn [List.length seq map combine] in H; [destruct H|].
  destruct H as [H|H].
  - inversion H; subst. exists 0%nat. split; [f_equal; lia|reflexivity].
  - destruct (IH _ H) as (k & Hk & Hn). exists (S k). split; [rewrite Hk; f_equal; lia|exact Hn].
Qed.

Lemma combine_reg_resolve r i e : In (i, e) (combine (reg_ids r) r) -> resolve r i = Some (snd e).
Proof.
  unfold reg_ids. intros H. destruct (combine_ids_resolve i e r 0%nat H) as (k & Hk & Hn).
  unfold resolve. subst i. rewrite Nat2N.id. cbn [plus] in Hn |- *. rewrite Hn. destruct e; reflexivity.
Qed.

Lemma rank_step_ranked r acc ie :
  In ie (combine (reg_ids r) r) -> ranked_list r acc -> ranked_list r (rank_step acc ie).
Proof.
  destruct ie as [i e]. intros Hin Hacc. unfold rank_step.
  destruct (mem_N i acc) eqn:Em; [exact Hacc|].
  destruct (forallb (fun c => mem_N c acc) (nonfield_ids (snd e))) eqn:Ef; [|exact Hacc].
  apply rl_cons with (t := snd e).
  - exact Hacc.
  - intros Hi. apply mem_N_In in Hi. congruence.
  - apply combine_reg_resolve. exact Hin.
  - intros c Hc. rewrite forallb_forall in Ef. apply mem_N_In. apply Ef. exact Hc.
Qed.

Lemma fold_rank_step_ranked r : forall l acc,
  (forall ie, In ie l -> In ie (combine (reg_ids r) r)) ->
  ranked_list r acc -> ranked_list r (fold_left rank_step l acc).
Proof.
  induction l as [|ie l IH]; intros acc Hl Hacc; cbn [fold_left]; [exact Hacc|].
  apply IH.
  - intros x Hx. apply Hl. right; exact Hx.
  - apply rank_step_ranked; [apply Hl; left; reflexivity|exact Hacc].
Qed.

Lemma rank_iter_ranked r : forall k acc, ranked_list r acc -> ranked_list r (rank_iter r k acc).
Proof.
  induction k as [|k IH]; intros acc Hacc; cbn [rank_iter]; [exact Hacc|].
  apply IH. unfold rank_round. apply fold_rank_step_ranked; [auto|exact Hacc].
Qed.

Fixpoint pos_rank (l : list N) (i : N) : nat :=
  match l with
  | [] => 0
  | x :: tl => if N.eqb x i then List.length tl else pos_rank tl i
  end.

Lemma pos_rank_lt l : forall i, In i l -> pos_rank l i < List.length l.
Proof.
  induction l as [|x tl IH]; intros i Hi; [destruct Hi|]. cbn [pos_rank List.length].
  destruct (N.eqb x i) eqn:E; [lia|].
  destruct Hi as [Hi|Hi]; [subst; rewrite N.eqb_refl in E; discriminate|].
  specialize (IH _ Hi). lia.
Qed.

Lemma ranked_list_closed r l :
  ranked_list r l -> forall i t c, In i l -> resolve r i = Some t -> In c (nonfield_ids t) -> In c l.
Proof.
  induction 1 as [|x tl t0 Htl IH Hnx Hx Hch]; intros i t c Hi Ht Hc; [destruct Hi|].
  destruct Hi as [Hi|Hi].
  - subst x. rewrite Hx in Ht. inversion Ht; subst. right. apply Hch. exact Hc.
  - right. eapply IH; eauto.
Qed.

Lemma ranked_list_decreases r l :
  ranked_list r l -> forall i t c, In i l -> resolve r i = Some t -> In c (nonfield_ids t) ->
  pos_rank l c < pos_rank l i.
Proof.
  induction 1 as [|x tl t0 Htl IH Hnx Hx Hch]; intros i t c Hi Ht Hc; [destruct Hi|].
  cbn [pos_rank].
  destruct (N.eqb x i) eqn:E.
  - apply N.eqb_eq in E. subst x. rewrite Hx in Ht. inversion Ht; subst.
    pose proof (Hch _ Hc) as Hct.
    destruct (N.eqb i c) eqn:E2; [apply N.eqb_eq in E2; subst; contradiction|].
    apply pos_rank_lt. exact Hct.
  - destruct Hi as [Hi|Hi]; [subst; rewrite N.eqb_refl in E; discriminate|].
    pose proof (ranked_list_closed r tl Htl _ _ _ Hi Ht Hc) as Hct.
    destruct (N.eqb x c) eqn:E2; [apply N.eqb_eq in E2; subst; contradiction|].
    eapply IH; eauto.
Qed.

Lemma ranked_list_NoDup r l : ranked_list r l -> NoDup l.
Proof. induction 1; constructor; assumption. Qed.

Lemma ranked_list_in_reg r l : ranked_list r l -> forall i, In i l -> in_reg r i.
Proof.
  induction 1 as [|x tl t0 Htl IH Hnx Hx Hch]; intros i Hi; [destruct Hi|].
  destruct Hi as [Hi|Hi]; [subst; eapply resolve_some_in_reg; eauto|auto].
Qed.

Lemma in_reg_ids r i : in_reg r i <-> In i (reg_ids r).
Proof.
  unfold in_reg, reg_ids. rewrite in_map_iff. split.
  - intros H. exists (N.to_nat i). split; [apply N2Nat.id|]. apply in_seq. lia.
  - intros (k & Hk & Hin). apply in_seq in Hin. lia.
Qed.

Theorem rank_ok_sound r : rank_ok r = true -> exists rank, ranked r rank.
Proof.
  unfold rank_ok. intros H. apply Nat.eqb_eq in H.
  set (l := rank_iter r (List.length r) []) in *.
  assert (Hl : ranked_list r l) by (apply rank_iter_ranked; constructor).
  assert (Hall : forall i, in_reg r i -> In i l).
  { intros i Hi. apply in_reg_ids in Hi.
    apply (@NoDup_length_incl N l (reg_ids r) (ranked_list_NoDup _ _ Hl)); [| |exact Hi].
    - unfold reg_ids. rewrite map_length, seq_length. lia.
    - intros x Hx. apply in_reg_ids. eapply ranked_list_in_reg; eauto. }
  exists (pos_rank l). split.
  - intros id t c Hr Hc. eapply ranked_list_decreases; eauto.
    apply Hall. eapply resolve_some_in_reg; eauto.
  - intros id Hid. rewrite <- H. apply pos_rank_lt. apply Hall. exact Hid.
Qed.

Theorem wf_generable r s :
  wf_regb r = true -> supportedb r s = true -> exists rank, generable r s rank.
Proof.
  unfold wf_regb. intros H Hs.
  apply andb_prop in H as [H Hk]. apply andb_prop in H as [H He].
  apply andb_prop in H as [H Hr]. apply andb_prop in H as [Hi Hc].
  destruct (rank_ok_sound r Hr) as (rank & Hrank). exists rank.
  pose proof (forallb_entries_ok entry_wfb r He) as Hent.
  split; [exact Hi|]. split; [|split].
  - split; [apply closed_reg_closed; exact Hc|]. split; [exact Hrank|]. split; [|split].
    + intros id t Ht. apply entry_wfb_resolvable. eapply Hent; eauto.
    + apply supportedb_settings_ok; exact Hs.
    + apply forallb_entries_ok. exact Hk.
  - intros id t Ht. apply entry_wfb_item. eapply Hent; eauto.
  - intros id t Ht. apply entry_wfb_flat. eapply Hent; eauto.
Qed.

(** ** single faults (C10) *)
Lemma is_cow_false o : o <> Some "Cow" -> is_cow o = false.
Proof.
  destruct o as [nm|]; [|reflexivity]. intros H. cbn [is_cow]. apply String.eqb_neq. congruence.
Qed.

Section Faults.
  Variable r : registry.
  Variable s : settings.

  Lemma fault_missing n id is_field parents orig :
    resolve r id = None -> find_parent parents id orig = None ->
    resolve_rec r s (S n) id is_field parents orig = Err (ETypeNotFound id).
  Proof.
    intros Hr Hf. rewrite resolve_rec_S, Hf. unfold resolve_type. rewrite Hr. reflexivity.
  Qed.

  Lemma fault_compact n id is_field parents orig t e ps i :
    find_parent parents id orig = None -> resolve r id = Some t ->
    path_ident (t_path t) <> Some "Cow" ->
    mapM (fun c => resolve_rec r s n c false parents None) (param_ids t) = Ok ps ->
    t_def t = TDCompact e -> resolve_rec r s n e false parents None = Ok i ->
    s_compact s = None ->
    resolve_rec r s (S n) id is_field parents orig = Err ECompactPathNone.
  Proof.
    intros Hf Hr Hc Hps Hd Hi Hs. rewrite resolve_rec_S, Hf. unfold resolve_type. rewrite Hr. cbn [bind].
    rewrite cow_step_eq, (is_cow_false _ Hc). cbn [bind]. rewrite Hps. cbn [bind].
    unfold resolve_def. rewrite Hd, Hi. cbn [bind]. rewrite Hs. reflexivity.
  Qed.

  Lemma fault_bits n id is_field parents orig t store order ps :
    find_parent parents id orig = None -> resolve r id = Some t ->
    path_ident (t_path t) <> Some "Cow" ->
    mapM (fun c => resolve_rec r s n c false parents None) (param_ids t) = Ok ps ->
    t_def t = TDBitSeq store order -> s_bits s = None ->
    resolve_rec r s (S n) id is_field parents orig = Err EBitsPathNone.
  Proof.
    intros Hf Hr Hc Hps Hd Hs. rewrite resolve_rec_S, Hf. unfold resolve_type. rewrite Hr. cbn [bind].
    rewrite cow_step_eq, (is_cow_false _ Hc). cbn [bind]. rewrite Hps. cbn [bind].
    unfold resolve_def. rewrite Hd, Hs. reflexivity.
  Qed.
End Faults.
